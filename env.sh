# source this: offline Go toolchain matching /repo's go.mod (go 1.25.7 is in the module cache)
export PATH=/root/go/pkg/mod/golang.org/toolchain@v0.0.1-go1.25.7.linux-amd64/bin:$PATH
export GOTOOLCHAIN=local GOFLAGS=-mod=mod GOPROXY=off GOSUMDB=off
