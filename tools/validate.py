#!/opt/veriftools/pyvenv/bin/python
import json, sys, glob, jsonschema
ms = json.load(open('/root/.vp/MANIFEST.schema.json')); es = json.load(open('/root/.vp/EVIDENCE.schema.json'))
jsonschema.validate(json.load(open('/verif/MANIFEST.json')), ms)
n = 0
for f in sorted(glob.glob('/verif/evidence/*.json')):
    jsonschema.validate(json.load(open(f)), es); n += 1
print("manifest ok; evidence files valid:", n)
