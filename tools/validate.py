#!/opt/veriftools/pyvenv/bin/python
import json, sys, glob, jsonschema
ms = json.load(open('/root/.vp/MANIFEST.schema.json')); es = json.load(open('/root/.vp/EVIDENCE.schema.json'))
jsonschema.validate(json.load(open('/verif/MANIFEST.json')), ms)
n = 0
for f in sorted(glob.glob('/verif/evidence/*.json')):
    try:
        jsonschema.validate(json.load(open(f)), es); n += 1
    except Exception as e:
        print("INVALID", f, str(e).splitlines()[0])
print("manifest ok; evidence files valid:", n)
