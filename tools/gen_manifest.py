#!/usr/bin/env python3
"""Regenerates /verif/MANIFEST.json from the table below (single source of truth for the interface)."""
import json, os, subprocess
V = os.path.dirname(os.path.dirname(os.path.abspath(__file__)))

ENV = "PATH=/root/go/pkg/mod/golang.org/toolchain@v0.0.1-go1.25.7.linux-amd64/bin:$PATH GOTOOLCHAIN=local GOFLAGS=-mod=mod GOPROXY=off GOSUMDB=off"

# id -> (category, technique, level text, level note, design ref)
CHECKS = {}
def check(pid, category, technique, text, note, ref):
    CHECKS[pid] = dict(category=category, technique=technique, text=text, note=note, ref=ref)

exec(open(os.path.join(V, "tools", "manifest_table.py")).read())

hooks = [l.split()[0] for l in subprocess.check_output(
    ["git", "-C", "/repo", "log", "--format=%H %s", "32ed046..HEAD"], text=True).splitlines()
    if l.split(" ", 1)[1].startswith(("verif hooks:", "verif hook:"))]

props = [json.loads(l)["id"] for l in open(os.path.join(V, "properties.jsonl"))]
m = {
    "version": 1,
    "setup_cmd": f"cd /verif/harness && env {ENV} go test -tags verif -vet=off -count=1 -run '^$' ./...",
    "hooks": {
        "guard": "verif",
        "enable": "go build tag: every check runs `go test -tags verif` in /verif/harness whose go.mod has `replace github.com/libp2p/go-libp2p => /repo`, so hooks (x/verifhook call sites, verif_export.go accessors) are compiled from /repo's working tree",
        "baseline_off_cmd": f"cd /repo && env {ENV} go test -mod=mod -json -vet=off -count=1 -timeout 25m ./...",
        "source_commits": list(reversed(hooks)),
        "add_only": True,
    },
    "engines": [
        {"name": "harness", "path": "/verif/harness", "serves_properties": sorted(CHECKS),
         "kind_free_text": "Go test packages (one per property) that drive the real go-libp2p code under generated/hostile workloads, virtual time (testing/synctest) and fault scripts while monitors (reference models, recorded-history checkers, invariant hooks, Go race detector) watch; driver /verif/check maps results to the exit-code contract"},
    ],
    "checks": [],
    "notes": "Runtime monitoring only. Both tiers of `check <id>` add a -race pass over the property's concurrent workloads for the 15 properties in the driver's RACE table (a report with frames in the property's anchor files is a VIOLATION; a crash of the Go race runtime itself is retried and then reported as an inconclusive race pass, see DESIGN.md 7.2). Known findings: /verif/known_findings.json. Seeded mutants: /verif/seeded/. See DESIGN.md.",
    "not_applicable": [],
}
for pid in props:
    if pid in CHECKS:
        c = CHECKS[pid]
        m["checks"].append({
            "property_id": pid,
            "quick_cmd": f"./check {pid} quick",
            "thorough_cmd": f"./check {pid} thorough",
            "evidence_file": f"/verif/evidence/{pid}.json",
            "replay_cmd_template": f"./check {pid} quick --replay {{path}}",
            "engine": "harness",
            "level_claimed": {"category": c["category"], "text": c["text"], "design_ref": c["ref"]},
            "level_note": c["note"],
            "technique": c["technique"],
        })
    else:
        m["not_applicable"].append({"property_id": pid, "reason": "check not built yet in this revision of /verif (runtime monitoring applies; see DESIGN.md section 3) - not claimed until its monitor runs clean on the unchanged tree"})
json.dump(m, open(os.path.join(V, "MANIFEST.json"), "w"), indent=1)
print("checks:", len(m["checks"]), "not_applicable:", len(m["not_applicable"]), "hook commits:", len(hooks))
