check("C20", "exploration",
      "runtime monitoring: lock-step reference-model oracle over exhaustively enumerated event sequences on the real counter/detector",
      "Every sequence over {request, success, failure} up to depth 11 (quick, N<=3) / 13 (thorough, N<=4) for every MinSuccesses, plus a walk of the reachable state graph for N<=5/7, is replayed on a fresh real BlackHoleSuccessCounter and judged after every event by a reference written from the statement; FilterAddrs is run on all 256 subsets of 8 representative addresses in every pair of counter situations, read-only and not. Held on everything enumerated; window sizes beyond the bound are not covered.",
      "Trusts manet.IsPublicAddr for the public/private classification of the 8 representative addresses; swarm-level wiring of the detector is observed in C05's rig.",
      "DESIGN.md 3/C20")
