package c11

// Data phase of a circuit: payload generators/readers with positional content, and the two clauses
// "at most the configured number of bytes is forwarded in each direction" and "the circuit ends at
// the configured duration", decided on the relay's own writes into the in-memory pipes (byte count
// and virtual time of the last accepted write).

import (
	"fmt"
	"sync"
	"testing"
	"testing/synctest"
	"time"

	rcmgr "github.com/libp2p/go-libp2p/p2p/host/resource-manager"

	"verif/harness/rig/run"
)

func pattern(dir byte, off int64) byte { return byte(off*7) ^ byte(off>>8) ^ (dir * 0x5b) }

// pump writes n payload bytes (chunks of cs, pause gap between chunks) and then closes the write side.
func pump(e *end, dir byte, n int64, cs int, gap time.Duration) (written int64, err error) {
	buf := make([]byte, cs)
	for written < n {
		k := int(min(int64(cs), n-written))
		for i := 0; i < k; i++ {
			buf[i] = pattern(dir, written+int64(i))
		}
		m, err := e.Write(buf[:k])
		written += int64(m)
		if err != nil {
			return written, err
		}
		if gap > 0 {
			time.Sleep(gap)
		}
	}
	e.CloseWrite()
	return written, nil
}

type drained struct {
	n       int64
	err     error
	corrupt int64 // offset of the first byte that is not the sender's byte at that offset, -1: none
}

// drain reads until EOF or error, rs bytes at a time with a pause after every read (slow reader).
func drain(e *end, dir byte, rs int, gap time.Duration) drained {
	d := drained{corrupt: -1}
	buf := make([]byte, rs)
	for {
		m, err := e.Read(buf)
		for i := 0; i < m; i++ {
			if d.corrupt < 0 && buf[i] != pattern(dir, d.n+int64(i)) {
				d.corrupt = d.n + int64(i)
			}
		}
		d.n += int64(m)
		if err != nil {
			d.err = err
			return d
		}
		if gap > 0 {
			time.Sleep(gap)
		}
	}
}

// forwarded returns the payload bytes the relay wrote towards the destination (fwd) and towards the
// source (rev), and the time of its last write on either stream.
func forwarded(ci *mcirc) (fwd, rev int64, lastFwd, lastRev time.Time) {
	f, lf := ci.stop.end.sent()
	r, lr := ci.hop.end.sent()
	return f - ci.stopHs, r - ci.hopHs, lf, lr
}

type dataCase struct {
	Limit   int64         `json:"limit"`
	Buf     int           `json:"buffer"`
	Fwd     int64         `json:"payload_src_to_dst"`
	Rev     int64         `json:"payload_dst_to_src"`
	Slow    bool          `json:"slow_reader"`
	Chunk   int           `json:"writer_chunk"`
	PipeBuf int           `json:"pipe_buffer"`
	Dur     time.Duration `json:"duration"`
	// the relay's Resources come from relay.DefaultResources() with fields assigned, and a sibling relay
	// with far wider limits is configured the same way afterwards
	ViaDefaults bool `json:"resources_built_from_DefaultResources,omitempty"`
}

func baseCfg() relayCfg {
	return relayCfg{MaxRes: 128, MaxIP: 8, MaxASN: 32, MaxCirc: 16, TTL: time.Hour, Limited: true,
		LimitData: 1 << 17, LimitDur: 2 * time.Minute, Buf: 2048}
}

// twoPeers: S = p0 (direct), D = p1 (direct, reserved).
func twoPeers(w *world) (cS, cD *mconn) {
	cS = w.addConn(0, 0)
	cD = w.addConn(1, 2)
	w.reserve(cD)
	return
}

func runDataCase(t *testing.T, dc dataCase) (res *histResult) {
	res = &histResult{classes: map[string]int{}, soft: map[string]int{}}
	res.bubble = run.Bubble(t, func(t *testing.T) {
		cfg := baseCfg()
		cfg.LimitData, cfg.Buf, cfg.LimitDur = dc.Limit, dc.Buf, dc.Dur
		cfg.ViaDefaults = dc.ViaDefaults
		w, err := newWorld(cfg, limitsWith(rcmgr.ResourceLimits{}, rcmgr.ResourceLimits{}), nil)
		if err != nil {
			res.problems = append(res.problems, problem{"harness:setup", err.Error()})
			return
		}
		w.bufmax = dc.PipeBuf
		defer res.collect(w)
		cS, _ := twoPeers(w)
		_, ci := w.connect(cS, 1, stopScript{Kind: "ok"})
		w.audit()
		if ci == nil || w.failed() {
			w.bad("harness:no-circuit", "could not establish the circuit for the data case")
			return
		}
		w.lastOp = "data"
		rs, gap := 4096, time.Duration(0)
		if dc.Slow {
			rs, gap = 97, time.Millisecond
			if dc.Limit > 1<<14 {
				rs = 1500
			}
		}
		var wg sync.WaitGroup
		var dF, dR drained
		wg.Add(4)
		go func() { defer wg.Done(); pump(ci.srcEnd, 1, dc.Fwd, dc.Chunk, 0) }()
		go func() { defer wg.Done(); pump(ci.dstEnd, 2, dc.Rev, dc.Chunk, 0) }()
		go func() { defer wg.Done(); dF = drain(ci.dstEnd, 1, rs, gap) }()
		go func() { defer wg.Done(); dR = drain(ci.srcEnd, 2, rs, gap) }()
		wg.Wait()
		synctest.Wait()
		fwd, rev, _, _ := forwarded(ci)
		w.logf("DATA limit=%d sent %d/%d  relay forwarded %d/%d  received %d(%v)/%d(%v)", dc.Limit, dc.Fwd, dc.Rev, fwd, rev, dF.n, dF.err, dR.n, dR.err)
		// "at most the configured number of bytes is forwarded in each direction"
		if fwd > dc.Limit {
			w.bad("data:limit-exceeded-src-to-dst", "relay wrote %d payload bytes to the destination, Limit.Data = %d (source sent %d)", fwd, dc.Limit, dc.Fwd)
		}
		if rev > dc.Limit {
			w.bad("data:limit-exceeded-dst-to-src", "relay wrote %d payload bytes to the source, Limit.Data = %d (destination sent %d)", rev, dc.Limit, dc.Rev)
		}
		if dF.corrupt >= 0 || dR.corrupt >= 0 || dF.n > dc.Fwd || dR.n > dc.Rev {
			w.bad("data:not-a-prefix", "delivered bytes are not a prefix of the sent bytes (first bad offset fwd %d rev %d)", dF.corrupt, dR.corrupt)
		}
		if dF.n == min(dc.Fwd, dc.Limit) && dR.n == min(dc.Rev, dc.Limit) {
			res.classes["data_delivered_up_to_limit"]++
		} else {
			res.classes["data_short_delivery"]++
		}
		if dc.Fwd > dc.Limit || dc.Rev > dc.Limit {
			res.classes["data_payload_above_limit"]++
			if dc.ViaDefaults {
				res.classes["data_payload_above_limit_beside_a_sibling_relay_with_wider_limits"]++
			}
		}
		if dc.Fwd == dc.Limit || dc.Rev == dc.Limit {
			res.classes["data_payload_equals_limit"]++
		}
		// both parties have closed their write side: the circuit is over and everything is returned
		w.m.removeCirc(ci)
		w.audit()
	})
	return res
}

type durCase struct {
	Dur     time.Duration `json:"duration"`
	Gap     time.Duration `json:"gap"`
	SrcTalk bool          `json:"src_sends"`
	DstTalk bool          `json:"dst_sends"`
	DstRead bool          `json:"dst_reads"`
	Limited bool          `json:"limited"`
}

func runDurCase(t *testing.T, dc durCase) (res *histResult) {
	res = &histResult{classes: map[string]int{}, soft: map[string]int{}}
	res.bubble = run.Bubble(t, func(t *testing.T) {
		cfg := baseCfg()
		cfg.LimitDur, cfg.Limited, cfg.Buf = dc.Dur, dc.Limited, 256
		w, err := newWorld(cfg, limitsWith(rcmgr.ResourceLimits{}, rcmgr.ResourceLimits{}), nil)
		if err != nil {
			res.problems = append(res.problems, problem{"harness:setup", err.Error()})
			return
		}
		w.bufmax = 512
		defer res.collect(w)
		cS, _ := twoPeers(w)
		_, ci := w.connect(cS, 1, stopScript{Kind: "ok"})
		if ci == nil || w.failed() {
			w.bad("harness:no-circuit", "could not establish the circuit for the duration case")
			return
		}
		w.lastOp = "duration"
		total := dc.Dur + 45*time.Second
		stop := time.Now().Add(total)
		talk := func(e *end, dir byte) {
			// 10 bytes every gap, for longer than the duration; errors end the talker
			var off int64
			for time.Now().Before(stop) {
				b := make([]byte, 10)
				for i := range b {
					b[i] = pattern(dir, off+int64(i))
				}
				if _, err := e.Write(b); err != nil {
					return
				}
				off += 10
				time.Sleep(dc.Gap)
			}
		}
		var wg sync.WaitGroup
		var dF, dR drained
		if dc.SrcTalk {
			wg.Add(1)
			go func() { defer wg.Done(); talk(ci.srcEnd, 1) }()
		}
		if dc.DstTalk {
			wg.Add(1)
			go func() { defer wg.Done(); talk(ci.dstEnd, 2) }()
		}
		if dc.DstRead {
			wg.Add(1)
			go func() { defer wg.Done(); dF = drain(ci.dstEnd, 1, 64, 0) }()
		}
		wg.Add(1)
		go func() { defer wg.Done(); dR = drain(ci.srcEnd, 2, 64, 0) }()
		// one second past the configured duration the circuit must be gone
		time.Sleep(dc.Dur + time.Second)
		synctest.Wait()
		if dc.Limited {
			w.audit() // model.tick removes the circuit: counters, tags, memory must be back
			fwd, rev, lf, lr := forwarded(ci)
			dl := ci.tOpen.Add(dc.Dur)
			w.logf("DURATION %s: relay forwarded %d/%d, last writes at open+%s / open+%s", dc.Dur, fwd, rev, lf.Sub(ci.tOpen), lr.Sub(ci.tOpen))
			if fwd+rev > 0 {
				res.classes["dur_traffic_until_deadline"]++
			}
			time.Sleep(total - dc.Dur)
			synctest.Wait()
			fwd2, rev2, lf, lr := forwarded(ci)
			// "the circuit ends at the configured duration": nothing is forwarded after it
			if lf.After(dl) || lr.After(dl) || fwd2 != fwd || rev2 != rev {
				w.bad("data:forwarded-after-duration", "relay forwarded data after Limit.Duration: last writes at open+%s / open+%s, duration %s; bytes %d/%d one second after the deadline, %d/%d later",
					lf.Sub(ci.tOpen), lr.Sub(ci.tOpen), dc.Dur, fwd, rev, fwd2, rev2)
			}
		} else {
			// unlimited relay: the circuit stays up and keeps forwarding (harness sanity, not a clause)
			time.Sleep(total - dc.Dur)
			synctest.Wait()
			fwd, rev, _, _ := forwarded(ci)
			w.logf("UNLIMITED: forwarded %d/%d over %s", fwd, rev, total)
			if (dc.SrcTalk && dc.DstRead && fwd == 0) || (dc.DstTalk && rev == 0) {
				w.bad("harness:unlimited-no-traffic", "nothing forwarded on an unlimited relay")
			}
			res.classes["dur_unlimited_still_open"]++
			w.audit()
			w.endCircuit(ci, "resetS")
		}
		ci.srcEnd.resetPipe()
		ci.dstEnd.resetPipe()
		wg.Wait()
		_, _ = dF, dR
		w.audit()
	})
	return res
}

func dataAndDuration(t *testing.T, r *run.R) {
	var dcs []dataCase
	add := func(L int64, bufs []int, slowOpts []bool, revs []int64) {
		for _, buf := range bufs {
			for _, fwd := range []int64{L - 1, L, L + 1, 3 * L} {
				for _, rev := range revs {
					for _, slow := range slowOpts {
						chunk := 1000
						if L > 1<<14 {
							chunk = 8192
						}
						dcs = append(dcs, dataCase{Limit: L, Buf: buf, Fwd: fwd, Rev: rev, Slow: slow, Chunk: chunk, PipeBuf: 1024, Dur: 2 * time.Minute, ViaDefaults: len(dcs)%3 == 1})
					}
				}
			}
		}
	}
	for _, L := range []int64{1, 2, 1000, 2048, 4096} {
		add(L, []int{64, 256, 2048}, []bool{false, true}, []int64{0, L - 1, L, L + 1, 3 * L})
	}
	add(1<<17, []int{2048}, []bool{false, true}, []int64{0, 1<<17 + 1})
	if !r.Quick() {
		for _, L := range []int64{3, 63, 64, 65, 255, 256, 257, 1023, 1024, 1025, 2047, 2049, 5000, 10000} {
			add(L, []int{1, 64, 256, 2048, 4096}, []bool{false, true}, []int64{0, L - 1, L, L + 1, 3 * L})
		}
		add(1<<17, []int{256, 2048, 4096}, []bool{false, true}, []int64{0, 1<<17 - 1, 1 << 17, 1<<17 + 1, 3 << 17})
	}
	var mu sync.Mutex
	run.Parallel(len(dcs), 0, func(i int) {
		dc := dcs[i]
		caseID := fmt.Sprintf("data/L%d/B%d/f%d/r%d/slow=%v", dc.Limit, dc.Buf, dc.Fwd, dc.Rev, dc.Slow)
		if !r.Want(caseID) || r.TooMany() {
			return
		}
		res := runDataCase(t, dc)
		detail := map[string]any{"case": dc, "events": res.log}
		if !settle(r, caseID, res, detail) {
			return
		}
		mu.Lock()
		for k, v := range res.classes {
			r.Count(k, v)
		}
		mu.Unlock()
		if res.classes["data_payload_above_limit"]+res.classes["data_payload_equals_limit"] > 0 {
			r.Nontrivial(caseID)
		}
		if i == 77 {
			r.Sample(map[string]any{"case": caseID, "events": res.log})
		}
	})

	var durs []durCase
	durations, gaps := []time.Duration{30 * time.Second, 2 * time.Minute}, []time.Duration{7 * time.Second, 10 * time.Second, time.Second}
	if !r.Quick() {
		durations = append(durations, time.Second, 59*time.Second, time.Minute, 10*time.Minute)
		gaps = append(gaps, 3*time.Second, 13*time.Second, 30*time.Second, 500*time.Millisecond)
	}
	for _, d := range durations {
		for _, gap := range gaps {
			for _, talk := range [][3]bool{{true, true, true}, {true, false, true}, {false, true, true}, {true, true, false}} {
				durs = append(durs, durCase{Dur: d, Gap: gap, SrcTalk: talk[0], DstTalk: talk[1], DstRead: talk[2], Limited: true})
			}
		}
		durs = append(durs, durCase{Dur: d, Gap: time.Minute, Limited: true, DstRead: true}) // idle circuit
	}
	durs = append(durs, durCase{Dur: 2 * time.Minute, Gap: 10 * time.Second, SrcTalk: true, DstTalk: true, DstRead: true, Limited: false})
	run.Parallel(len(durs), 0, func(i int) {
		dc := durs[i]
		caseID := fmt.Sprintf("dur/%s/gap%s/s%v/d%v/read%v/limited=%v", dc.Dur, dc.Gap, dc.SrcTalk, dc.DstTalk, dc.DstRead, dc.Limited)
		if !r.Want(caseID) || r.TooMany() {
			return
		}
		res := runDurCase(t, dc)
		detail := map[string]any{"case": dc, "events": res.log}
		if !settle(r, caseID, res, detail) {
			return
		}
		mu.Lock()
		for k, v := range res.classes {
			r.Count(k, v)
		}
		mu.Unlock()
		if res.classes["dur_traffic_until_deadline"] > 0 {
			r.Nontrivial(caseID)
		}
	})
}
