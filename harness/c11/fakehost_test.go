package c11

// Scriptable host.Host for the REAL relay.Relay: only what the relay (and client.Reserve) use is
// implemented; every other method of the embedded nil interfaces panics, which would show up as a
// crashed case (i.e. the harness notices when the code under test starts using more of the host).

import (
	"context"
	"fmt"
	"sync"
	"sync/atomic"
	"time"

	"github.com/libp2p/go-libp2p/core/connmgr"
	"github.com/libp2p/go-libp2p/core/crypto"
	"github.com/libp2p/go-libp2p/core/host"
	"github.com/libp2p/go-libp2p/core/network"
	"github.com/libp2p/go-libp2p/core/peer"
	"github.com/libp2p/go-libp2p/core/peerstore"
	"github.com/libp2p/go-libp2p/core/protocol"
	ma "github.com/multiformats/go-multiaddr"
)

// ---------------------------------------------------------------------------------------------
// connections

type fconn struct {
	network.Conn // nil: unimplemented methods panic
	id           string
	local        peer.ID
	remote       peer.ID
	raddr        ma.Multiaddr
	limited      bool // reached us through another relay
	addrIdx      int

	mu      sync.Mutex
	closed  bool
	streams map[*fstream]struct{}
}

func (c *fconn) ID() string                    { return c.id }
func (c *fconn) LocalPeer() peer.ID            { return c.local }
func (c *fconn) RemotePeer() peer.ID           { return c.remote }
func (c *fconn) RemoteMultiaddr() ma.Multiaddr { return c.raddr }
func (c *fconn) LocalMultiaddr() ma.Multiaddr  { return ma.StringCast("/ip4/9.9.9.9/tcp/4001") }
func (c *fconn) IsClosed() bool                { c.mu.Lock(); defer c.mu.Unlock(); return c.closed }
func (c *fconn) Stat() network.ConnStats {
	return network.ConnStats{Stats: network.Stats{Direction: network.DirInbound, Limited: c.limited}}
}

func (c *fconn) addStream(s *fstream) {
	c.mu.Lock()
	if c.streams == nil {
		c.streams = map[*fstream]struct{}{}
	}
	c.streams[s] = struct{}{}
	c.mu.Unlock()
}

func (c *fconn) removeStream(s *fstream) {
	c.mu.Lock()
	delete(c.streams, s)
	c.mu.Unlock()
}

// ---------------------------------------------------------------------------------------------
// network

type fnet struct {
	network.Network // nil
	local           peer.ID
	rm              network.ResourceManager

	mu        sync.Mutex
	conns     map[peer.ID][]*fconn
	notifiees []network.Notifiee
	nextConn  int
}

func (n *fnet) LocalPeer() peer.ID                       { return n.local }
func (n *fnet) ResourceManager() network.ResourceManager { return n.rm }
func (n *fnet) Notify(f network.Notifiee) {
	n.mu.Lock()
	n.notifiees = append(n.notifiees, f)
	n.mu.Unlock()
}
func (n *fnet) StopNotify(f network.Notifiee) {
	n.mu.Lock()
	for i, x := range n.notifiees {
		if x == f {
			n.notifiees = append(n.notifiees[:i:i], n.notifiees[i+1:]...)
			break
		}
	}
	n.mu.Unlock()
}

// Connectedness as the swarm computes it: Connected with at least one non-limited connection,
// Limited with only relayed ones.
func (n *fnet) Connectedness(p peer.ID) network.Connectedness {
	n.mu.Lock()
	defer n.mu.Unlock()
	limited := false
	for _, c := range n.conns[p] {
		if c.limited {
			limited = true
		} else {
			return network.Connected
		}
	}
	if limited {
		return network.Limited
	}
	return network.NotConnected
}

func (n *fnet) ConnsToPeer(p peer.ID) []network.Conn {
	n.mu.Lock()
	defer n.mu.Unlock()
	var out []network.Conn
	for _, c := range n.conns[p] {
		out = append(out, c)
	}
	return out
}

func (n *fnet) directConn(p peer.ID) *fconn {
	n.mu.Lock()
	defer n.mu.Unlock()
	for _, c := range n.conns[p] {
		if !c.limited {
			return c
		}
	}
	return nil
}

func (n *fnet) addConn(p peer.ID, addrIdx int, raddr ma.Multiaddr, limited bool) *fconn {
	n.mu.Lock()
	defer n.mu.Unlock()
	n.nextConn++
	c := &fconn{id: fmt.Sprintf("c%d", n.nextConn), local: n.local, remote: p, raddr: raddr, limited: limited, addrIdx: addrIdx}
	n.conns[p] = append(n.conns[p], c)
	return c
}

// closeConn does what the swarm does when a connection dies: the connection leaves the table, all
// its streams are reset, then the Disconnected notification is delivered.
func (n *fnet) closeConn(c *fconn, cm *fcm) {
	n.mu.Lock()
	l := n.conns[c.remote]
	for i, x := range l {
		if x == c {
			l = append(l[:i:i], l[i+1:]...)
			break
		}
	}
	if len(l) == 0 {
		delete(n.conns, c.remote)
	} else {
		n.conns[c.remote] = l
	}
	remaining := len(l)
	nf := append([]network.Notifiee(nil), n.notifiees...)
	n.mu.Unlock()

	c.mu.Lock()
	c.closed = true
	var ss []*fstream
	for s := range c.streams {
		ss = append(ss, s)
	}
	c.mu.Unlock()
	for _, s := range ss {
		s.end.resetPipe() // remote side is gone; the relay still has to let go of its stream object
	}
	// the connection manager forgets a peer (and its tags) with its last connection, as BasicConnMgr does
	if remaining == 0 {
		cm.forget(c.remote)
	}
	for _, f := range nf {
		f.Disconnected(n, c)
	}
}

// ---------------------------------------------------------------------------------------------
// recording connection manager

type fcm struct {
	connmgr.ConnManager // nil
	mu                  sync.Mutex
	tags                map[peer.ID]map[string]int
	protected           map[peer.ID]map[string]bool
	calls               map[string]int
	onTag               atomic.Pointer[func(peer.ID, string)]
}

func newFcm() *fcm {
	return &fcm{tags: map[peer.ID]map[string]int{}, protected: map[peer.ID]map[string]bool{}, calls: map[string]int{}}
}

func (m *fcm) TagPeer(p peer.ID, tag string, v int) {
	if f := m.onTag.Load(); f != nil {
		(*f)(p, tag) // boundary callback: runs on the relay's goroutine, at the moment it tags
	}
	m.mu.Lock()
	defer m.mu.Unlock()
	m.calls["TagPeer"]++
	if m.tags[p] == nil {
		m.tags[p] = map[string]int{}
	}
	m.tags[p][tag] = v
}

func (m *fcm) UntagPeer(p peer.ID, tag string) {
	m.mu.Lock()
	defer m.mu.Unlock()
	m.calls["UntagPeer"]++
	delete(m.tags[p], tag)
	if len(m.tags[p]) == 0 {
		delete(m.tags, p)
	}
}

func (m *fcm) UpsertTag(p peer.ID, tag string, f func(int) int) {
	m.mu.Lock()
	defer m.mu.Unlock()
	m.calls["UpsertTag"]++
	if m.tags[p] == nil {
		m.tags[p] = map[string]int{}
	}
	m.tags[p][tag] = f(m.tags[p][tag])
}

func (m *fcm) Protect(p peer.ID, tag string) {
	m.mu.Lock()
	defer m.mu.Unlock()
	m.calls["Protect"]++
	if m.protected[p] == nil {
		m.protected[p] = map[string]bool{}
	}
	m.protected[p][tag] = true
}

func (m *fcm) Unprotect(p peer.ID, tag string) bool {
	m.mu.Lock()
	defer m.mu.Unlock()
	m.calls["Unprotect"]++
	delete(m.protected[p], tag)
	if len(m.protected[p]) == 0 {
		delete(m.protected, p)
		return false
	}
	return true
}

func (m *fcm) IsProtected(p peer.ID, tag string) bool {
	m.mu.Lock()
	defer m.mu.Unlock()
	if tag == "" {
		return len(m.protected[p]) > 0
	}
	return m.protected[p][tag]
}

func (m *fcm) GetTagInfo(p peer.ID) *connmgr.TagInfo {
	m.mu.Lock()
	defer m.mu.Unlock()
	t, ok := m.tags[p]
	if !ok {
		return nil
	}
	ti := &connmgr.TagInfo{Tags: map[string]int{}}
	for k, v := range t {
		ti.Tags[k] = v
		ti.Value += v
	}
	return ti
}

func (m *fcm) forget(p peer.ID) {
	m.mu.Lock()
	delete(m.tags, p)
	m.mu.Unlock()
}

func (m *fcm) snapshot() (tags map[peer.ID]map[string]int, protected int) {
	m.mu.Lock()
	defer m.mu.Unlock()
	tags = map[peer.ID]map[string]int{}
	for p, t := range m.tags {
		tags[p] = map[string]int{}
		for k, v := range t {
			tags[p][k] = v
		}
	}
	for _, t := range m.protected {
		protected += len(t)
	}
	return
}

// ---------------------------------------------------------------------------------------------
// peerstore: the relay only asks for its own private key; client.Reserve adds the relay's addresses.

type fps struct {
	peerstore.Peerstore // nil
	id                  peer.ID
	priv                crypto.PrivKey
}

func (p *fps) PrivKey(id peer.ID) crypto.PrivKey {
	if id == p.id {
		return p.priv
	}
	return nil
}
func (p *fps) AddAddrs(peer.ID, []ma.Multiaddr, time.Duration) {}

// ---------------------------------------------------------------------------------------------
// host

type fhost struct {
	host.Host // nil
	id        peer.ID
	ps        *fps
	net       *fnet
	cm        *fcm
	addrs     []ma.Multiaddr

	mu        sync.Mutex
	handlers  map[protocol.ID]network.StreamHandler
	newStream func(ctx context.Context, p peer.ID, pid protocol.ID) (network.Stream, error)
}

func (h *fhost) ID() peer.ID                      { return h.id }
func (h *fhost) Peerstore() peerstore.Peerstore   { return h.ps }
func (h *fhost) Addrs() []ma.Multiaddr            { return h.addrs }
func (h *fhost) Network() network.Network         { return h.net }
func (h *fhost) ConnManager() connmgr.ConnManager { return h.cm }
func (h *fhost) SetStreamHandler(pid protocol.ID, f network.StreamHandler) {
	h.mu.Lock()
	h.handlers[pid] = f
	h.mu.Unlock()
}
func (h *fhost) RemoveStreamHandler(pid protocol.ID) {
	h.mu.Lock()
	delete(h.handlers, pid)
	h.mu.Unlock()
}
func (h *fhost) handler(pid protocol.ID) network.StreamHandler {
	h.mu.Lock()
	defer h.mu.Unlock()
	return h.handlers[pid]
}
func (h *fhost) NewStream(ctx context.Context, p peer.ID, pids ...protocol.ID) (network.Stream, error) {
	return h.newStream(ctx, p, pids[0])
}

// ---------------------------------------------------------------------------------------------
// resource manager wrapper: everything goes to the REAL manager; only the relay's own service span
// is wrapped so that BeginSpan / ReserveMemory of a circuit's span can be made to fail.

type rmWrap struct {
	network.ResourceManager
	plan *faultPlan
}

func (r *rmWrap) ViewService(name string, f func(network.ServiceScope) error) error {
	return r.ResourceManager.ViewService(name, func(s network.ServiceScope) error {
		return f(&svcWrap{ServiceScope: s, plan: r.plan})
	})
}

type svcWrap struct {
	network.ServiceScope
	plan *faultPlan
}

func (s *svcWrap) BeginSpan() (network.ResourceScopeSpan, error) {
	sp, err := s.ServiceScope.BeginSpan()
	if err != nil {
		return nil, err
	}
	return &spanWrap{ResourceScopeSpan: sp, plan: s.plan, depth: 0}, nil
}

type spanWrap struct {
	network.ResourceScopeSpan
	plan  *faultPlan
	depth int
}

func (s *spanWrap) BeginSpan() (network.ResourceScopeSpan, error) {
	if s.plan.step("span.Begin") {
		return nil, errInjectedLimit
	}
	sp, err := s.ResourceScopeSpan.BeginSpan()
	if err != nil {
		return nil, err
	}
	return &spanWrap{ResourceScopeSpan: sp, plan: s.plan, depth: s.depth + 1}, nil
}

func (s *spanWrap) ReserveMemory(size int, prio uint8) error {
	if s.depth > 0 && s.plan.step("span.ReserveMemory") {
		return errInjectedLimit
	}
	return s.ResourceScopeSpan.ReserveMemory(size, prio)
}
