package c11

// Fault enumeration on the hop side and the stop side of CONNECT (and on RESERVE): a failure injected
// at EACH step index of the exchange (the k-th operation the relay performs on its streams, their
// resource scopes, host.NewStream and its own span), every misbehaviour of the destination and of the
// source, and genuine refusals of a real resource manager with tiny limits. After each: "However a
// reservation or circuit attempt ends, the relay's circuit counters, connection-manager tags and
// reserved memory return to their previous values" — audited against a baseline that still holds one
// open circuit between the same two peers (so a double decrement cannot hide at zero).

import (
	"fmt"
	"strings"
	"sync"
	"testing"
	"testing/synctest"
	"time"

	"github.com/libp2p/go-libp2p/core/peer"
	rcmgr "github.com/libp2p/go-libp2p/p2p/host/resource-manager"

	"verif/harness/rig/memnet"

	"verif/harness/rig/run"
)

type faultCase struct {
	Kind    string        `json:"kind"` // step | stop | hop | reserve-step | rcmgr
	At      int           `json:"fault_at,omitempty"`
	Mode    string        `json:"fault_mode,omitempty"`
	Limited bool          `json:"limited"`
	Payload int64         `json:"payload,omitempty"`
	Script  string        `json:"stop_script,omitempty"`
	Delay   time.Duration `json:"stop_delay,omitempty"`
	Req     string        `json:"hop_request,omitempty"`
	Svc     string        `json:"service_limits,omitempty"`
	svc     rcmgr.ResourceLimits
	svcPeer rcmgr.ResourceLimits
}

func faultCfg(limited bool) relayCfg {
	cfg := baseCfg()
	cfg.Limited, cfg.LimitData, cfg.LimitDur, cfg.Buf, cfg.MaxCirc = limited, 1000, 10*time.Minute, 256, 3
	return cfg
}

// exchange pushes payload both ways over an established circuit and closes it, tolerating failures.
func exchange(w *world, ci *mcirc, payload int64) {
	for _, e := range []*end{ci.srcEnd, ci.dstEnd} {
		e.SetDeadline(time.Now().Add(30 * time.Second))
	}
	var wg sync.WaitGroup
	wg.Add(4)
	go func() { defer wg.Done(); pump(ci.srcEnd, 1, payload, 100, 0) }()
	go func() { defer wg.Done(); pump(ci.dstEnd, 2, payload, 100, 0) }()
	go func() { defer wg.Done(); drain(ci.dstEnd, 1, 512, 0) }()
	go func() { defer wg.Done(); drain(ci.srcEnd, 2, 512, 0) }()
	wg.Wait()
	ci.srcEnd.CloseWrite()
	ci.dstEnd.CloseWrite()
	synctest.Wait()
	fwd, rev, _, _ := forwarded(ci)
	if w.cfg.Limited && (fwd > w.cfg.LimitData || rev > w.cfg.LimitData) {
		w.bad("data:limit-exceeded", "relay forwarded %d/%d payload bytes, Limit.Data = %d", fwd, rev, w.cfg.LimitData)
	}
	// whatever state the fault left the circuit in, both parties now give up for good
	ci.srcEnd.resetPipe()
	ci.dstEnd.resetPipe()
	w.m.removeCirc(ci)
	synctest.Wait()
}

// runFaultCase returns the result and, for dry runs (At < 0 with a plan), the recorded step trace.
func runFaultCase(t *testing.T, fc faultCase, record bool) (res *histResult, trace []string, fired string) {
	res = &histResult{classes: map[string]int{}, soft: map[string]int{}}
	res.bubble = run.Bubble(t, func(t *testing.T) {
		var plan *faultPlan
		if fc.Kind == "step" || fc.Kind == "reserve-step" {
			plan = &faultPlan{at: fc.At, mode: fc.Mode}
		}
		cfg := faultCfg(fc.Limited)
		w, err := newWorld(cfg, limitsWith(fc.svc, fc.svcPeer), plan)
		if err != nil {
			res.problems = append(res.problems, problem{"harness:setup", err.Error()})
			return
		}
		defer func() {
			res.collect(w)
			if plan != nil {
				trace, fired = plan.trace, plan.fired
			}
		}()

		if fc.Kind == "rcmgr" {
			// a REAL resource manager with tiny limits refuses for real, at whatever stage the limit bites
			w.lenient = true
			cS := w.addConn(0, 0)
			cD := w.addConn(1, 2)
			res.classes["rcmgr_reserve_"+strings.SplitN(w.reserve(cD), ":", 2)[0]]++
			w.audit()
			if w.m.res[1] == nil { // the reservation itself was refused by the limits: get one without them biting
				return
			}
			var open []*mcirc
			for k := 0; k < 4 && !w.failed(); k++ {
				cls, ci := w.connect(cS, 1, stopScript{Kind: "ok"})
				res.classes["rcmgr_connect_"+strings.SplitN(cls, ":", 2)[0]]++
				if ci != nil {
					open = append(open, ci)
				}
				w.audit()
			}
			for _, ci := range open {
				w.endCircuit(ci, "graceful")
				w.audit()
			}
			return
		}

		// baseline: S and D are connected, D holds a reservation, one circuit S->D stays open
		cS, cD := twoPeers(w)
		_, base := w.connect(cS, 1, stopScript{Kind: "ok"})
		w.audit()
		if base == nil || w.failed() {
			w.bad("harness:no-baseline", "baseline circuit not established")
			return
		}

		switch fc.Kind {
		case "step":
			w.lenient = true
			plan.arm(true)
			cls, ci := w.connect(cS, 1, stopScript{Kind: "ok"})
			res.classes["step_connect_"+strings.SplitN(cls, ":", 2)[0]]++
			if ci != nil {
				exchange(w, ci, fc.Payload)
			}
			plan.arm(false)
			w.lenient = false
		case "reserve-step":
			w.lenient = true
			plan.arm(true)
			res.classes["step_reserve_"+strings.SplitN(w.reserve(cD), ":", 2)[0]]++ // a refresh by D
			c2 := w.addConn(2, 3)
			res.classes["step_reserve_"+strings.SplitN(w.reserve(c2), ":", 2)[0]]++ // a new reservation by p2
			plan.arm(false)
			w.lenient = false
		case "disconnect-at-tag":
			// The reserving peer's only connection closes at the very moment the relay tags it for its new
			// reservation (the connection manager's TagPeer is the boundary). The tagging goroutine is held
			// for 2 ms of REAL time there while the close and its Disconnected notification run on another
			// goroutine (in a relay that tags inside the critical section that stores the reservation, the
			// notification simply queues behind it). Whatever the RESERVE answer: the peer is gone, so
			// afterwards it holds no reservation and NO TAG ("tags return to their previous values").
			c2 := w.addConn(2, 3)
			var once sync.Once
			hook := func(p peer.ID, tag string) {
				if p != peers[2].id || tag != "relay-reservation" {
					return
				}
				once.Do(func() {
					res.classes["disconnect_placed_at_reservation_tag"]++
					go w.net.closeConn(c2.fc, w.cm)
					<-memnet.RealAfter(2 * time.Millisecond)
				})
			}
			w.cm.onTag.Store(&hook)
			out := w.doReserve(c2)
			synctest.Wait()
			w.cm.onTag.Store(nil)
			res.classes["disconnect_at_tag_reserve_answered_"+fmt.Sprint(out.Got)]++
			if !c2.fc.IsClosed() { // the relay never tagged (request refused?): plain disconnect
				w.net.closeConn(c2.fc, w.cm)
				synctest.Wait()
			}
			w.m.tick(time.Now())
			w.m.disconnect(c2)
			w.logf("RESERVE p2 with its connection closing at the relay's TagPeer -> answered %v", out.Got)
		case "stop":
			// the destination misbehaves; the source waits, half-closes or vanishes
			cls, ci := w.connectReq(cS, 1, fc.Req, stopScript{Kind: fc.Script, Delay: fc.Delay})
			res.classes["stop_"+strings.SplitN(cls, ":", 2)[0]]++
			if ci != nil {
				exchange(w, ci, 50)
			}
		case "hop":
			// the source misbehaves
			cls, ci := w.connectReq(cS, 1, fc.Req, stopScript{Kind: "ok"})
			res.classes["hop_"+strings.SplitN(cls, ":", 2)[0]]++
			if ci != nil {
				exchange(w, ci, 50)
			}
		}
		// every timeout of the handshake has passed (HandshakeTimeout, StreamTimeout, ConnectTimeout ≤ 1 min)
		w.lastOp = "fault:" + fc.Kind
		w.audit()
		w.advance(2 * time.Minute)
		w.audit()
		// the baseline circuit is still intact and usable, then goes away cleanly
		if !w.failed() {
			w.lastOp = "fault:" + fc.Kind + "+baseline-close"
			exchange(w, base, 10)
			w.audit()
			// and the relay still serves: a fresh circuit can be opened and closed
			cls, ci := w.connect(cS, 1, stopScript{Kind: "ok"})
			if ci != nil {
				w.endCircuit(ci, "graceful")
			}
			res.classes["after_fault_connect_"+strings.SplitN(cls, ":", 2)[0]]++
			w.lastOp = "fault:" + fc.Kind + "+fresh-circuit"
			w.audit()
		}
	})
	return
}

func faults(t *testing.T, r *run.R) {
	var cases []faultCase
	// 1. step enumeration: dry runs fix the number of steps of the fault-free exchange
	type variant struct {
		limited bool
		payload int64
	}
	variants := []variant{{true, 300}, {true, 1500}, {false, 300}}
	if !r.Quick() {
		variants = append(variants, variant{true, 0}, variant{true, 1000}, variant{true, 999}, variant{false, 0}, variant{false, 1500}, variant{true, 5000})
	}
	for _, v := range variants {
		_, tr, _ := runFaultCase(t, faultCase{Kind: "step", At: -1, Limited: v.limited, Payload: v.payload}, true)
		r.Count("fault_dryrun_steps", len(tr))
		if len(tr) < 12 {
			r.Inconclusive("fault/dryrun", fmt.Sprintf("dry run recorded only %d steps: %v", len(tr), tr))
			continue
		}
		if v.limited && v.payload == 300 {
			r.Sample(map[string]any{"kind": "step trace of a fault-free CONNECT + 300 B each way + close", "steps": tr})
		}
		for k := 0; k < len(tr)+3; k++ {
			cases = append(cases, faultCase{Kind: "step", At: k, Mode: "err", Limited: v.limited, Payload: v.payload})
			if k < len(tr) && strings.HasSuffix(tr[k], ".Read") {
				cases = append(cases, faultCase{Kind: "step", At: k, Mode: "eof", Limited: v.limited, Payload: v.payload})
			}
		}
	}
	_, tr, _ := runFaultCase(t, faultCase{Kind: "reserve-step", At: -1, Limited: true}, true)
	r.Count("fault_dryrun_steps", len(tr))
	for k := 0; k < len(tr)+2; k++ {
		cases = append(cases, faultCase{Kind: "reserve-step", At: k, Mode: "err", Limited: true})
		if k < len(tr) && strings.HasSuffix(tr[k], ".Read") {
			cases = append(cases, faultCase{Kind: "reserve-step", At: k, Mode: "eof", Limited: true})
		}
	}
	for _, lim := range []bool{true, false} {
		cases = append(cases, faultCase{Kind: "disconnect-at-tag", Limited: lim})
	}
	// 2. destination misbehaviour x source behaviour x delay
	scripts := append([]string{"truncSilent", "hugevarint"}, failingStopScripts...)
	for _, sc := range scripts {
		for _, req := range []string{"normal", "closeWriteAfterSend", "resetAfterSend"} {
			delays := []time.Duration{0, 5 * time.Second}
			if !r.Quick() {
				delays = append(delays, time.Second, 59*time.Second, 61*time.Second)
			}
			for _, d := range delays {
				for _, lim := range []bool{true, false} {
					if !lim && (d != 0 || req != "normal") && r.Quick() {
						continue
					}
					cases = append(cases, faultCase{Kind: "stop", Script: sc, Req: req, Delay: d, Limited: lim})
				}
			}
		}
	}
	// a well-behaved destination with a vanishing / half-closing source (delayed answer: the OK cannot be delivered)
	for _, req := range []string{"closeWriteAfterSend", "resetAfterSend"} {
		for _, d := range []time.Duration{0, 5 * time.Second, 59 * time.Second, 61 * time.Second} {
			cases = append(cases, faultCase{Kind: "stop", Script: "ok", Req: req, Delay: d, Limited: true})
		}
	}
	// a destination that accepts, but only after the relay's handshake timeout
	cases = append(cases, faultCase{Kind: "stop", Script: "ok", Req: "normal", Delay: 61 * time.Second, Limited: true},
		faultCase{Kind: "stop", Script: "ok", Req: "normal", Delay: 59 * time.Second, Limited: true})
	// 3. source misbehaviour
	for _, req := range []string{"nilpeer", "badpeer", "wrongtype", "unknowntype", "garbage", "oversize", "truncEOF", "truncSilent", "silence", "eof", "withaddrs"} {
		for _, lim := range []bool{true, false} {
			cases = append(cases, faultCase{Kind: "hop", Req: req, Limited: lim})
		}
	}
	// 4. real refusals of the resource manager
	for _, m := range []int64{1000, 4095, 4096, 4608, 5000, 5782, 5783, 8703, 8704, 9215, 9216, 9727, 9728, 10240, 20000} {
		cases = append(cases, faultCase{Kind: "rcmgr", Svc: fmt.Sprintf("service-memory=%d", m), svc: rcmgr.ResourceLimits{Memory: rcmgr.LimitVal64(m)}, Limited: true})
		cases = append(cases, faultCase{Kind: "rcmgr", Svc: fmt.Sprintf("service-peer-memory=%d", m), svcPeer: rcmgr.ResourceLimits{Memory: rcmgr.LimitVal64(m)}, Limited: true})
	}
	for _, n := range []rcmgr.LimitVal{rcmgr.BlockAllLimit, 1, 2, 3} {
		cases = append(cases,
			faultCase{Kind: "rcmgr", Svc: fmt.Sprintf("service-streams-inbound=%d", n), svc: rcmgr.ResourceLimits{StreamsInbound: n}, Limited: true},
			faultCase{Kind: "rcmgr", Svc: fmt.Sprintf("service-streams-outbound=%d", n), svc: rcmgr.ResourceLimits{StreamsOutbound: n}, Limited: true},
			faultCase{Kind: "rcmgr", Svc: fmt.Sprintf("service-streams=%d", n), svc: rcmgr.ResourceLimits{Streams: n}, Limited: n != 2},
			faultCase{Kind: "rcmgr", Svc: fmt.Sprintf("service-peer-streams-inbound=%d", n), svcPeer: rcmgr.ResourceLimits{StreamsInbound: n}, Limited: true},
			faultCase{Kind: "rcmgr", Svc: fmt.Sprintf("service-peer-streams-outbound=%d", n), svcPeer: rcmgr.ResourceLimits{StreamsOutbound: n}, Limited: true})
	}

	var mu sync.Mutex
	run.Parallel(len(cases), 0, func(i int) {
		fc := cases[i]
		var caseID string
		switch fc.Kind {
		case "step", "reserve-step":
			caseID = fmt.Sprintf("fault/%s/limited=%v/payload%d/at%d/%s", fc.Kind, fc.Limited, fc.Payload, fc.At, fc.Mode)
		case "stop":
			caseID = fmt.Sprintf("fault/stop/%s/delay%s/src=%s/limited=%v", fc.Script, fc.Delay, fc.Req, fc.Limited)
		case "hop":
			caseID = fmt.Sprintf("fault/hop/%s/limited=%v", fc.Req, fc.Limited)
		case "rcmgr":
			caseID = "fault/rcmgr/" + fc.Svc
		}
		if !r.Want(caseID) || r.TooMany() {
			return
		}
		res, tr, fired := runFaultCase(t, fc, false)
		detail := map[string]any{"case": fc, "events": res.log, "steps": tr, "fired_at": fired}
		if !settle(r, caseID, res, detail) {
			return
		}
		mu.Lock()
		defer mu.Unlock()
		for k, v := range res.classes {
			r.Count("fault_"+k, v)
		}
		switch fc.Kind {
		case "step", "reserve-step":
			if fired != "" {
				r.Count("fault_fired_"+fired, 1)
				r.Count("fault_fired", 1)
				r.Nontrivial(caseID)
			} else {
				r.Count("fault_not_fired", 1)
			}
		case "rcmgr":
			if res.classes["rcmgr_connect_refused"]+res.classes["rcmgr_connect_noresp"]+res.classes["rcmgr_reserve_noresp"] > 0 {
				r.Count("fault_rcmgr_real_refusal", 1)
				r.Nontrivial(caseID)
			}
		default:
			r.Nontrivial(caseID)
		}
		if caseID == "fault/stop/silence/delay0s/src=normal/limited=true" {
			r.Sample(map[string]any{"case": caseID, "events": res.log})
		}
	})
	for _, k := range []string{"hop.SetService", "hop.ReserveMemory", "hop.Read", "hop.Write", "span.Begin", "span.ReserveMemory",
		"host.NewStream", "stop.SetService", "stop.ReserveMemory", "stop.Write", "stop.Read"} {
		r.Require("fault_fired_"+k, 1)
	}
	r.Require("fault_fired", 60)
	r.Require("fault_disconnect_placed_at_reservation_tag", 2)
	r.Require("fault_stop_refused", 40)
	r.Require("fault_hop_refused", 10)
	r.Require("fault_rcmgr_real_refusal", 15)
	r.Require("fault_rcmgr_connect_ok", 10)
	r.Require("fault_after_fault_connect_ok", 100)
}
