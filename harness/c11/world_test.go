package c11

// world = the REAL relay.Relay on the fake host with a REAL resource manager, the remote peers'
// scripted behaviour, and the comparison of everything observable with the reference model.
// All of it runs inside one testing/synctest bubble (virtual time, exact quiescence).

import (
	"bytes"
	"context"
	"encoding/binary"
	"errors"
	"fmt"
	"io"
	"net"
	"sort"
	"strings"
	"sync"
	"testing/synctest"
	"time"

	"github.com/libp2p/go-libp2p/core/network"
	"github.com/libp2p/go-libp2p/core/peer"
	"github.com/libp2p/go-libp2p/core/protocol"
	"github.com/libp2p/go-libp2p/core/record"
	rcmgr "github.com/libp2p/go-libp2p/p2p/host/resource-manager"
	pbv2 "github.com/libp2p/go-libp2p/p2p/protocol/circuitv2/pb"
	circproto "github.com/libp2p/go-libp2p/p2p/protocol/circuitv2/proto"
	"github.com/libp2p/go-libp2p/p2p/protocol/circuitv2/relay"
	ma "github.com/multiformats/go-multiaddr"
	gproto "google.golang.org/protobuf/proto"
)

const (
	peerPatience = 10 * time.Minute // virtual; how long a scripted peer waits for the relay
	tagRsvp      = "relay-reservation"
	tagHop       = "relay-v2-hop"
	tagHopValue  = 2
)

type problem struct {
	Sig string `json:"signature"`
	Msg string `json:"message"`
}

type stopScript struct {
	Kind  string        `json:"kind"`
	Delay time.Duration `json:"delay,omitempty"`
}

// stopSide is what the destination saw of one stop stream.
type stopSide struct {
	dst     peer.ID
	pe      *end
	fs      *fstream
	script  stopScript
	gotReq  bool
	reqType pbv2.StopMessage_Type
	reqPeer peer.ID
	reqLim  *pbv2.Limit
	saidOK  bool
	hsBytes int // bytes of the stop request on the wire (not payload)
	done    chan struct{}
}

type world struct {
	cfg   relayCfg
	h     *fhost
	cm    *fcm
	net   *fnet
	rm    network.ResourceManager // the real manager (the relay sees it through rmWrap)
	relay *relay.Relay
	// a second relay in the same process (cfg.ViaDefaults)
	sibling   *relay.Relay
	siblingRM network.ResourceManager
	plan      *faultPlan
	m         *model
	bufmax    int

	mu         sync.Mutex
	log        []string
	problems   []problem
	nstream    int
	nextScript *stopScript
	stops      []*stopSide
	lastOp     string
	closed     bool
	softc      map[string]int // observations that are NOT violations (the statement is one-sided: a refusal never violates it)
	pipes      []*pipe
	done       chan struct{}
	stalled    bool // the virtual-time watchdog fired: the case is inconclusive
	concurrent bool // several requests in flight: no synctest.Wait inside a request
	lenient    bool // faults are being injected: any refusal / lost answer is acceptable, an OK still is not
}

func bigLimits() rcmgr.ResourceLimits {
	return rcmgr.ResourceLimits{Streams: 1 << 20, StreamsInbound: 1 << 20, StreamsOutbound: 1 << 20,
		Conns: 1 << 20, ConnsInbound: 1 << 20, ConnsOutbound: 1 << 20, FD: 1 << 20, Memory: 1 << 40}
}

// limitsWith builds a limiter configuration: generous but finite everywhere, and the given limits
// for the relay service scope / the relay's per-peer service scope (zero fields: generous).
func limitsWith(svc, svcPeer rcmgr.ResourceLimits) rcmgr.ConcreteLimitConfig {
	fill := func(l rcmgr.ResourceLimits) rcmgr.ResourceLimits {
		b := bigLimits()
		if l.Streams != 0 {
			b.Streams = l.Streams
		}
		if l.StreamsInbound != 0 {
			b.StreamsInbound = l.StreamsInbound
		}
		if l.StreamsOutbound != 0 {
			b.StreamsOutbound = l.StreamsOutbound
		}
		if l.Memory != 0 {
			b.Memory = l.Memory
		}
		return b
	}
	b := bigLimits()
	p := rcmgr.PartialLimitConfig{System: b, Transient: b, ServiceDefault: b, ServicePeerDefault: b,
		ProtocolDefault: b, ProtocolPeerDefault: b, PeerDefault: b, Conn: b, Stream: b,
		Service:     map[string]rcmgr.ResourceLimits{relay.ServiceName: fill(svc)},
		ServicePeer: map[string]rcmgr.ResourceLimits{relay.ServiceName: fill(svcPeer)},
	}
	return p.Build(rcmgr.InfiniteLimits)
}

func newWorld(cfg relayCfg, lim rcmgr.ConcreteLimitConfig, plan *faultPlan) (*world, error) {
	rm, err := rcmgr.NewResourceManager(rcmgr.NewFixedLimiter(lim), rcmgr.WithMetricsDisabled())
	if err != nil {
		return nil, err
	}
	w := &world{cfg: cfg, rm: rm, plan: plan, bufmax: 1024}
	w.cm = newFcm()
	w.net = &fnet{local: relayIdent.id, rm: &rmWrap{ResourceManager: rm, plan: plan}, conns: map[peer.ID][]*fconn{}}
	w.h = &fhost{id: relayIdent.id, ps: &fps{id: relayIdent.id, priv: relayIdent.priv}, net: w.net, cm: w.cm,
		addrs:    []ma.Multiaddr{ma.StringCast("/ip4/9.9.9.9/tcp/4001"), ma.StringCast("/ip4/192.168.1.2/tcp/4001")},
		handlers: map[protocol.ID]network.StreamHandler{}}
	w.h.newStream = w.hostNewStream
	rc := relay.Resources{ReservationTTL: cfg.TTL, MaxReservations: cfg.MaxRes, MaxCircuits: cfg.MaxCirc,
		BufferSize: cfg.Buf, MaxReservationsPerPeer: 1, MaxReservationsPerIP: cfg.MaxIP, MaxReservationsPerASN: cfg.MaxASN}
	if cfg.Limited {
		rc.Limit = &relay.RelayLimit{Duration: cfg.LimitDur, Data: cfg.LimitData}
	}
	if cfg.ViaDefaults {
		rc = relay.DefaultResources()
		rc.ReservationTTL, rc.MaxReservations, rc.MaxCircuits, rc.BufferSize = cfg.TTL, cfg.MaxRes, cfg.MaxCirc, cfg.Buf
		rc.MaxReservationsPerPeer, rc.MaxReservationsPerIP, rc.MaxReservationsPerASN = 1, cfg.MaxIP, cfg.MaxASN
		if cfg.Limited {
			rc.Limit.Duration, rc.Limit.Data = cfg.LimitDur, cfg.LimitData
		} else {
			rc.Limit = nil
		}
	}
	opts := []relay.Option{relay.WithResources(rc)}
	if cfg.ACL != nil {
		opts = append(opts, relay.WithACL(cfg.ACL))
	}
	t0 := time.Now()
	w.relay, err = relay.New(w.h, opts...)
	if err != nil {
		rm.Close()
		return nil, err
	}
	if cfg.ViaDefaults {
		rm2, err := rcmgr.NewResourceManager(rcmgr.NewFixedLimiter(lim), rcmgr.WithMetricsDisabled())
		if err != nil {
			return nil, err
		}
		sh := &fhost{id: otherRelay.id, ps: &fps{id: otherRelay.id, priv: otherRelay.priv}, cm: newFcm(),
			net:      &fnet{local: otherRelay.id, rm: &rmWrap{ResourceManager: rm2}, conns: map[peer.ID][]*fconn{}},
			addrs:    []ma.Multiaddr{ma.StringCast("/ip4/9.9.9.8/tcp/4001")},
			handlers: map[protocol.ID]network.StreamHandler{}}
		sh.newStream = func(context.Context, peer.ID, protocol.ID) (network.Stream, error) {
			return nil, errors.New("sibling relay: no peers")
		}
		rc2 := relay.DefaultResources()
		rc2.Limit.Data, rc2.Limit.Duration = 1<<40, 1000*time.Hour
		if w.sibling, err = relay.New(sh, relay.WithResources(rc2)); err != nil {
			rm2.Close()
			return nil, err
		}
		w.siblingRM = rm2
	}
	w.m = newModel(cfg, t0)
	// Virtual-time watchdog: the relay's and the resource manager's tickers keep a bubble "alive" for
	// ever, so a scenario goroutine waiting for something that never happens would spin through
	// virtual time instead of being reported as a deadlock. After 30 virtual days every pipe is reset
	// (which unblocks everything) and the case is reported as inconclusive.
	w.done = make(chan struct{})
	go func() {
		select {
		case <-w.done:
		case <-time.After(30 * 24 * time.Hour):
			w.mu.Lock()
			w.stalled = true
			pp := append([]*pipe(nil), w.pipes...)
			w.mu.Unlock()
			for _, p := range pp {
				p.e[0].resetPipe()
			}
		}
	}()
	// all requests happen at x.5 s after the relay's start so that no request, expiry or circuit
	// deadline ever coincides with a collection tick (t0 + k min): sub-second ordering at such a
	// coincidence is not fixed by the statement
	time.Sleep(500 * time.Millisecond)
	return w, nil
}

// shutdown ends every connection, closes relay and resource manager; afterwards no goroutine of the
// relay may be left in the bubble (a leftover one makes the bubble deadlock, which run.Bubble reports).
func (w *world) shutdown() {
	if w.closed {
		return
	}
	w.closed = true
	for p := range w.m.conns {
		for _, c := range append([]*mconn(nil), w.m.conns[p]...) {
			w.m.disconnect(c)
			w.net.closeConn(c.fc, w.cm)
		}
	}
	w.mu.Lock()
	stops := append([]*stopSide(nil), w.stops...)
	w.mu.Unlock()
	for _, st := range stops {
		st.pe.resetPipe()
	}
	synctest.Wait()
	w.relay.Close()
	w.rm.Close()
	if w.sibling != nil {
		w.sibling.Close()
		w.siblingRM.Close()
	}
	close(w.done)
	synctest.Wait()
}

func (w *world) logf(format string, a ...any) {
	w.mu.Lock()
	if len(w.log) < 2000 {
		w.log = append(w.log, fmt.Sprintf("t=%-9s ", time.Since(w.m.t0).String())+fmt.Sprintf(format, a...))
	}
	w.mu.Unlock()
}

func (w *world) bad(sig, format string, a ...any) {
	msg := fmt.Sprintf(format, a...)
	w.logf("!! %s: %s", sig, msg)
	w.mu.Lock()
	if len(w.problems) < 20 {
		w.problems = append(w.problems, problem{Sig: sig + "/after=" + w.lastOp, Msg: msg})
	}
	w.mu.Unlock()
}

// soft counts an observation that the statement does not forbid (unexpected refusals and their status codes).
func (w *world) soft(key, format string, a ...any) {
	w.logf("~~ %s: %s", key, fmt.Sprintf(format, a...))
	w.mu.Lock()
	if w.softc == nil {
		w.softc = map[string]int{}
	}
	w.softc[key]++
	w.mu.Unlock()
}

// admissible records, for the vacuity guard, whether a request that met every condition of the
// statement (fault-free, sequential) was granted.
func (w *world) admissible(op string, want statusSet, granted bool) {
	if _, ok := want[pbv2.Status_OK]; !ok || len(want) != 1 || w.lenient {
		return
	}
	w.mu.Lock()
	if w.softc == nil {
		w.softc = map[string]int{}
	}
	w.softc["admissible/"+op]++
	if granted {
		w.softc["admissible_granted/"+op]++
	}
	w.mu.Unlock()
}

func (w *world) failed() bool {
	w.mu.Lock()
	defer w.mu.Unlock()
	return len(w.problems) > 0
}

// ---------------------------------------------------------------------------------------------
// wire format (independent of the code under test): uvarint length prefix + protobuf

func writeMsg(w io.Writer, m gproto.Message) error {
	b, err := gproto.Marshal(m)
	if err != nil {
		return err
	}
	_, err = w.Write(append(binary.AppendUvarint(nil, uint64(len(b))), b...))
	return err
}

type byteReader struct{ r io.Reader }

func (b byteReader) ReadByte() (byte, error) {
	var x [1]byte
	_, err := io.ReadFull(b.r, x[:])
	return x[0], err
}

func readMsg(r io.Reader, m gproto.Message) (int, error) {
	br := byteReader{r}
	l, err := binary.ReadUvarint(br)
	if err != nil {
		return 0, err
	}
	if l > 1<<16 {
		return 0, fmt.Errorf("length prefix %d", l)
	}
	buf := make([]byte, l)
	if _, err := io.ReadFull(r, buf); err != nil {
		return 0, err
	}
	return len(binary.AppendUvarint(nil, l)) + int(l), gproto.Unmarshal(buf, m)
}

// ---------------------------------------------------------------------------------------------
// streams towards the relay

func (w *world) openHop(c *mconn) (*fstream, *end, error) {
	scope, err := w.rm.OpenStream(peers[c.peer].id, network.DirInbound)
	if err != nil {
		return nil, nil, err
	}
	if err := scope.SetProtocol(circproto.ProtoIDv2Hop); err != nil {
		scope.Done()
		return nil, nil, err
	}
	h := w.h.handler(circproto.ProtoIDv2Hop)
	if h == nil {
		scope.Done()
		return nil, nil, errors.New("no hop handler")
	}
	p := newPipe(w.bufmax)
	w.mu.Lock()
	w.pipes = append(w.pipes, p)
	w.nstream++
	id := fmt.Sprintf("h%d", w.nstream)
	w.mu.Unlock()
	fs := &fstream{end: p.e[0], role: "hop", id: id, conn: c.fc, proto: circproto.ProtoIDv2Hop, dir: network.DirInbound, plan: w.plan}
	fs.scope = &fscope{real: scope, s: fs}
	c.fc.addStream(fs)
	go h(fs) // the swarm runs the handler on its own goroutine
	return fs, p.e[1], nil
}

func (w *world) setScript(sc stopScript) {
	w.mu.Lock()
	w.nextScript = &sc
	w.mu.Unlock()
}

// hostNewStream is host.NewStream as the relay sees it. Environment model (trusted base): with the
// NoDial context and without AllowLimitedConn a host opens streams only over an existing connection
// that is not itself relayed.
func (w *world) hostNewStream(ctx context.Context, p peer.ID, pid protocol.ID) (network.Stream, error) {
	if w.plan.step("host.NewStream") {
		return nil, errInjected
	}
	w.mu.Lock()
	sc := stopScript{Kind: "ok"}
	if w.nextScript != nil {
		sc = *w.nextScript
		w.nextScript = nil
	}
	w.mu.Unlock()
	switch sc.Kind {
	case "openfail":
		return nil, errors.New("c11: protocol negotiation failed")
	case "openstall":
		<-ctx.Done()
		return nil, ctx.Err()
	}
	fc := w.net.directConn(p)
	if fc == nil {
		return nil, network.ErrNoConn
	}
	scope, err := w.rm.OpenStream(p, network.DirOutbound)
	if err != nil {
		return nil, err
	}
	if err := scope.SetProtocol(pid); err != nil {
		scope.Done()
		return nil, err
	}
	pp := newPipe(w.bufmax)
	w.mu.Lock()
	w.pipes = append(w.pipes, pp)
	w.nstream++
	id := fmt.Sprintf("s%d", w.nstream)
	w.mu.Unlock()
	fs := &fstream{end: pp.e[0], role: "stop", id: id, conn: fc, proto: pid, dir: network.DirOutbound, plan: w.plan}
	fs.scope = &fscope{real: scope, s: fs}
	fc.addStream(fs)
	st := &stopSide{dst: p, pe: pp.e[1], fs: fs, script: sc, done: make(chan struct{})}
	w.mu.Lock()
	w.stops = append(w.stops, st)
	w.mu.Unlock()
	go w.runStop(st)
	return fs, nil
}

// runStop is the destination's side of the stop handshake.
func (w *world) runStop(st *stopSide) {
	defer close(st.done)
	pe := st.pe
	switch st.script.Kind {
	case "resetEarly":
		pe.resetPipe()
		return
	case "eofEarly":
		pe.closeBoth()
		return
	}
	pe.SetReadDeadline(time.Now().Add(peerPatience))
	var req pbv2.StopMessage
	n, err := readMsg(pe, &req)
	pe.SetReadDeadline(time.Time{})
	if err != nil {
		return
	}
	st.hsBytes = n
	st.reqType = req.GetType()
	st.reqLim = req.GetLimit()
	if id, err := peer.IDFromBytes(req.GetPeer().GetId()); err == nil {
		st.reqPeer = id
	}
	st.gotReq = true
	if st.script.Delay > 0 {
		time.Sleep(st.script.Delay)
	}
	status := func(s pbv2.Status) *pbv2.StopMessage {
		return &pbv2.StopMessage{Type: pbv2.StopMessage_STATUS.Enum(), Status: s.Enum()}
	}
	switch k := st.script.Kind; {
	case k == "ok":
		if writeMsg(pe, status(pbv2.Status_OK)) == nil {
			st.saidOK = true
		}
	case k == "reset":
		pe.resetPipe()
	case k == "eof":
		pe.closeBoth()
	case k == "garbage":
		pe.Write([]byte{0x06, 0xff, 0xff, 0xff, 0xff, 0xff, 0xff})
	case k == "oversize":
		pe.Write(append(binary.AppendUvarint(nil, 5000), bytes.Repeat([]byte{0x08}, 600)...))
	case k == "hugevarint":
		pe.Write(bytes.Repeat([]byte{0xff}, 12))
	case k == "truncEOF":
		pe.Write(append(binary.AppendUvarint(nil, 20), 0x08, 0x01, 0x20))
		pe.CloseWrite()
	case k == "truncSilent":
		pe.Write(append(binary.AppendUvarint(nil, 20), 0x08, 0x01, 0x20))
	case k == "wrongtype":
		writeMsg(pe, &pbv2.StopMessage{Type: pbv2.StopMessage_CONNECT.Enum(), Peer: &pbv2.Peer{Id: []byte(st.dst)}})
	case k == "notype":
		writeMsg(pe, &pbv2.StopMessage{Status: pbv2.Status_OK.Enum()})
	case k == "nostatus":
		writeMsg(pe, &pbv2.StopMessage{Type: pbv2.StopMessage_STATUS.Enum()})
	case strings.HasPrefix(k, "status:"):
		var code int32
		fmt.Sscanf(k, "status:%d", &code)
		writeMsg(pe, status(pbv2.Status(code)))
	case k == "silence":
	default:
		panic("unknown stop script " + k)
	}
}

// ---------------------------------------------------------------------------------------------
// RESERVE

type reserveOutcome struct {
	Got    bool
	Status pbv2.Status
	Err    string
	resp   *pbv2.HopMessage
}

func (o reserveOutcome) String() string {
	if !o.Got {
		return "no-response(" + o.Err + ")"
	}
	return o.Status.String()
}

func (w *world) doReserve(c *mconn) reserveOutcome {
	_, pe, err := w.openHop(c)
	if err != nil {
		return reserveOutcome{Err: "open: " + err.Error()}
	}
	defer pe.closeBoth()
	pe.SetDeadline(time.Now().Add(peerPatience))
	if err := writeMsg(pe, &pbv2.HopMessage{Type: pbv2.HopMessage_RESERVE.Enum()}); err != nil {
		return reserveOutcome{Err: "write: " + err.Error()}
	}
	var resp pbv2.HopMessage
	if _, err := readMsg(pe, &resp); err != nil {
		return reserveOutcome{Err: "read: " + err.Error()}
	}
	if resp.GetType() != pbv2.HopMessage_STATUS {
		return reserveOutcome{Err: "response type " + resp.GetType().String()}
	}
	return reserveOutcome{Got: true, Status: resp.GetStatus(), resp: &resp}
}

// checkVoucher: "carry a voucher signed by the relay for exactly the reserving peer" — an envelope
// under the relay voucher domain, signed by the relay's key, Relay == relay, Peer == requester,
// expiration == the reservation's expiry.
func (w *world) checkVoucher(resp *pbv2.HopMessage, requester peer.ID, wantExpiry time.Time) {
	r := resp.GetReservation()
	if r == nil {
		w.bad("reserve:ok-without-reservation", "status OK without a reservation record")
		return
	}
	if int64(r.GetExpire()) != wantExpiry.Unix() {
		w.bad("reserve:expire", "reservation expire %d, granted at now+TTL = %d", r.GetExpire(), wantExpiry.Unix())
	}
	vb := r.GetVoucher()
	if len(vb) == 0 {
		w.bad("voucher:missing", "status OK without a voucher")
		return
	}
	env, rec, err := record.ConsumeEnvelope(vb, circproto.RecordDomain)
	if err != nil {
		w.bad("voucher:envelope", "voucher is not a valid envelope under domain %q: %v", circproto.RecordDomain, err)
		return
	}
	signer, err := peer.IDFromPublicKey(env.PublicKey)
	if err != nil || signer != relayIdent.id {
		w.bad("voucher:signer", "voucher signed by %s, relay is %s", signer, relayIdent.id)
	}
	if !bytes.Equal(env.PayloadType, circproto.RecordCodec) {
		w.bad("voucher:codec", "voucher payload type %x", env.PayloadType)
	}
	v, ok := rec.(*circproto.ReservationVoucher)
	if !ok {
		w.bad("voucher:type", "voucher record has type %T", rec)
		return
	}
	if v.Relay != relayIdent.id {
		w.bad("voucher:relay", "voucher.Relay = %s, relay is %s", v.Relay, relayIdent.id)
	}
	if v.Peer != requester {
		w.bad("voucher:peer", "voucher.Peer = %s, requester is %s", v.Peer, requester)
	}
	if v.Expiration.Unix() != wantExpiry.Unix() {
		w.bad("voucher:expiration", "voucher expiration %d, reservation expiry %d", v.Expiration.Unix(), wantExpiry.Unix())
	}
}

// reserve = request + judgement against the model + model update. Returns a class for the counters.
func (w *world) reserve(c *mconn) string {
	w.lastOp = "reserve"
	now := time.Now()
	w.m.tick(now)
	p := c.peer
	want := w.m.expectReserve(p, c, now)
	prev := w.m.resState(p, now)
	out := w.doReserve(c)
	synctest.Wait()
	w.logf("RESERVE p%d over conn#%d(a%d %s) -> %s   acceptable %v", p, c.ord, c.addr, addrs[c.addr].ip, out, want)
	w.admissible("reserve", want, out.Got && out.Status == pbv2.Status_OK)
	if !out.Got && !w.lenient {
		w.soft("refusal_status_unexpected/reserve/no-response", "p%d got no answer to RESERVE: %s", p, out.Err)
	}
	if !out.Got || (w.lenient && out.Status != pbv2.Status_OK) {
		// "Delivery of the reservation might fail": the relay may have granted the reservation although
		// the answer was lost. Acceptable only if a grant was admissible; the model follows the relay.
		if exp, has := w.relay.VerifState().Rsvp[peers[p].id]; has && exp.Equal(now.Add(w.cfg.TTL)) {
			if _, ok := want[pbv2.Status_OK]; !ok {
				w.bad("reserve:granted-"+denyClass(want), "p%d holds a NEW reservation after a failed RESERVE although the statement forbids granting it: %v", p, want)
			}
			w.m.applyReserve(p, c, now)
			return "granted-answer-lost"
		}
		return "noresp"
	}
	why, acceptable := want[out.Status]
	if !acceptable {
		// The statement is one-sided ("granted only within ..."): only a GRANT can violate it. A refusal,
		// whatever its status, is counted; its effect ("changes nothing") is checked by the audit.
		if out.Status == pbv2.Status_OK {
			w.bad("reserve:granted-"+denyClass(want), "p%d was GRANTED a reservation from %s although the statement forbids it: %v", p, addrs[c.addr].ip, want)
		} else if _, okOK := want[pbv2.Status_OK]; okOK && len(want) == 1 {
			w.soft("refused_though_admissible/reserve", "p%d refused with %s although relayed=false, ACL allows and all caps have room", p, out.Status)
			why = "unexpected"
		} else {
			w.soft("refusal_status_unexpected/reserve/"+out.Status.String(), "p%d answered %s, expected one of %v", p, out.Status, want)
			why = "unexpected"
		}
	}
	if out.Status != pbv2.Status_OK {
		// a refused request changes nothing: "a refused refresh leaves the old reservation in force"
		cls := "refused:" + strings.TrimSuffix(why, "?")
		if prev != resNone {
			cls = "refresh-" + cls
		}
		return cls
	}
	r := w.m.applyReserve(p, c, now)
	w.checkVoucher(out.resp, peers[p].id, r.expiry)
	if l := out.resp.GetLimit(); w.cfg.Limited != (l != nil) || (l != nil && (int64(l.GetData()) != w.cfg.LimitData || time.Duration(l.GetDuration())*time.Second != w.cfg.LimitDur)) {
		w.bad("reserve:limit-announcement", "limit announced %v, configured limited=%v data=%d duration=%s", l, w.cfg.Limited, w.cfg.LimitData, w.cfg.LimitDur)
	}
	switch prev {
	case resLive:
		return "ok-refresh"
	case resMay:
		return "ok-refresh-expired"
	}
	return "ok-new"
}

func denyClass(s statusSet) string {
	var l []string
	for _, v := range s {
		if !strings.HasSuffix(v, "?") { // only the reasons that definitely apply
			l = append(l, v)
		}
	}
	sort.Strings(l)
	return strings.Join(l, "+")
}

// ---------------------------------------------------------------------------------------------
// CONNECT

type connOutcome struct {
	Got       bool
	Status    pbv2.Status
	Err       string
	limit     *pbv2.Limit
	fs        *fstream
	pe        *end
	st        *stopSide
	tResp     time.Time
	respBytes int
	nstops    int // stop streams that existed before this request
}

func (o *connOutcome) String() string {
	if !o.Got {
		return "no-response(" + o.Err + ")"
	}
	return o.Status.String()
}

// doConnect plays the source: req selects how the request is (mal)formed.
func (w *world) doConnect(c *mconn, dst peer.ID, req string, sc stopScript) *connOutcome {
	w.mu.Lock()
	nstops := len(w.stops)
	w.mu.Unlock()
	if sc.Kind != "ok" || sc.Delay != 0 { // (the default script is "ok"; concurrent callers never set one)
		w.setScript(sc)
		defer func() { w.mu.Lock(); w.nextScript = nil; w.mu.Unlock() }()
	}
	fs, pe, err := w.openHop(c)
	if err != nil {
		return &connOutcome{Err: "open: " + err.Error()}
	}
	out := &connOutcome{fs: fs, pe: pe, nstops: nstops}
	pe.SetDeadline(time.Now().Add(peerPatience))
	msg := &pbv2.HopMessage{Type: pbv2.HopMessage_CONNECT.Enum(), Peer: &pbv2.Peer{Id: []byte(dst)}}
	switch req {
	case "normal", "resetAfterSend", "closeWriteAfterSend":
		err = writeMsg(pe, msg)
	case "withaddrs":
		msg.Peer.Addrs = [][]byte{ma.StringCast("/ip4/7.7.7.7/tcp/7").Bytes(), {0xff, 0x00}}
		err = writeMsg(pe, msg)
	case "nilpeer":
		msg.Peer = nil
		err = writeMsg(pe, msg)
	case "badpeer":
		msg.Peer.Id = []byte{0x01, 0x02, 0x03}
		err = writeMsg(pe, msg)
	case "wrongtype":
		err = writeMsg(pe, &pbv2.HopMessage{Type: pbv2.HopMessage_STATUS.Enum(), Status: pbv2.Status_OK.Enum()})
	case "unknowntype":
		_, err = pe.Write([]byte{0x02, 0x08, 0x07})
	case "garbage":
		_, err = pe.Write([]byte{0x06, 0xff, 0xff, 0xff, 0xff, 0xff, 0xff})
	case "oversize":
		_, err = pe.Write(append(binary.AppendUvarint(nil, 5000), bytes.Repeat([]byte{0x08}, 600)...))
	case "truncEOF":
		pe.Write(append(binary.AppendUvarint(nil, 30), 0x08, 0x01))
		pe.CloseWrite()
	case "truncSilent":
		pe.Write(append(binary.AppendUvarint(nil, 30), 0x08, 0x01))
	case "silence":
	case "eof":
		pe.CloseWrite()
	default:
		panic("unknown hop request kind " + req)
	}
	if err != nil {
		out.Err = "write: " + err.Error()
		return out
	}
	switch req {
	case "resetAfterSend":
		// let the relay get as far as it can within a second, then vanish
		time.Sleep(time.Second)
		pe.resetPipe()
	case "closeWriteAfterSend":
		pe.CloseWrite()
	}
	var resp pbv2.HopMessage
	if n, err := readMsg(pe, &resp); err != nil {
		out.Err = "read: " + err.Error()
	} else if out.respBytes = n; resp.GetType() != pbv2.HopMessage_STATUS {
		out.Err = "response type " + resp.GetType().String()
	} else {
		out.Got, out.Status, out.limit, out.tResp = true, resp.GetStatus(), resp.GetLimit(), time.Now()
	}
	pe.SetDeadline(time.Time{})
	if w.concurrent {
		return out // no quiescence point (and no attribution of stop streams) while others are in flight
	}
	synctest.Wait()
	w.mu.Lock()
	if len(w.stops) > nstops {
		out.st = w.stops[len(w.stops)-1]
	}
	w.mu.Unlock()
	return out
}

// the stop handshake fails when the destination misbehaves or answers later than the relay's
// HandshakeTimeout (delays of exactly one minute are never generated: the order is not fixed then)
var stopFailing = func(sc stopScript) bool { return sc.Kind != "ok" || sc.Delay > relay.HandshakeTimeout }

// connect = well-formed request + judgement + model update. Returns (class, circuit or nil).
func (w *world) connect(c *mconn, dst int, sc stopScript) (string, *mcirc) {
	return w.connectReq(c, dst, "normal", sc)
}

func (w *world) connectReq(c *mconn, dst int, req string, sc stopScript) (string, *mcirc) {
	w.lastOp = "connect"
	now := time.Now()
	w.m.tick(now)
	src := c.peer
	var dstID peer.ID
	if dst >= 0 {
		dstID = peers[dst].id
	} else {
		dstID = foreignKey.id // a peer the relay has never seen
	}
	malformed := map[string]bool{"nilpeer": true, "badpeer": true, "wrongtype": true, "unknowntype": true, "garbage": true,
		"oversize": true, "truncEOF": true, "truncSilent": true, "silence": true, "eof": true}[req]
	want := w.m.expectConnect(src, c, dst, now, stopFailing(sc))
	if malformed {
		// "malformed" requests never connect; MALFORMED_MESSAGE (or UNEXPECTED_MESSAGE) is the documented answer
		// but a refusal for another applicable reason is just as good
		delete(want, pbv2.Status_OK)
		want[pbv2.Status_MALFORMED_MESSAGE] = "malformed-request"
		want[pbv2.Status_UNEXPECTED_MESSAGE] = "malformed-request"
	}
	out := w.doConnect(c, dstID, req, sc)
	w.logf("CONNECT p%d(conn#%d a%d)->p%d req=%s stop=%s -> %s   acceptable %v", src, c.ord, c.addr, dst, req, sc.Kind, out, want)
	vanished := req == "resetAfterSend"
	if !vanished { // (a source that vanishes cannot be told OK)
		w.admissible("connect", want, out.Got && out.Status == pbv2.Status_OK)
	}
	if !out.Got {
		if !vanished && !malformed && !w.lenient {
			w.soft("refusal_status_unexpected/connect/no-response", "p%d got no answer to CONNECT: %s", src, out.Err)
		}
		out.pe.resetPipe()
		if vanished {
			// the destination may still answer (after its delay) to a relay whose source is gone
			// (and every handshake timeout of the relay has passed afterwards)
			time.Sleep(sc.Delay + 61*time.Second)
			synctest.Wait()
			w.mu.Lock()
			if out.st == nil && len(w.stops) > out.nstops {
				out.st = w.stops[len(w.stops)-1]
			}
			w.mu.Unlock()
		}
		if out.st != nil {
			out.st.pe.resetPipe()
		}
		synctest.Wait()
		return "noresp", nil
	}
	why, acceptable := want[out.Status]
	if w.lenient && out.Status != pbv2.Status_OK {
		acceptable = true
	}
	if !acceptable {
		if out.Status == pbv2.Status_OK {
			w.bad("connect:granted-"+denyClass(want), "CONNECT p%d->p%d answered OK although the statement forbids it: %v", src, dst, want)
		} else if _, okOK := want[pbv2.Status_OK]; okOK && len(want) == 1 {
			// one-sided statement ("connects ... only if"): a refusal never violates it
			w.soft("refused_though_admissible/connect", "CONNECT p%d->p%d refused with %s although every condition of the statement holds", src, dst, out.Status)
			why = "unexpected"
		} else {
			w.soft("refusal_status_unexpected/connect/"+out.Status.String(), "CONNECT p%d->p%d answered %s, expected one of %v", src, dst, out.Status, want)
			why = "unexpected"
		}
	}
	if out.Status != pbv2.Status_OK {
		out.pe.closeBoth()
		if out.st != nil {
			out.st.pe.resetPipe()
			<-out.st.done
		}
		synctest.Wait()
		return "refused:" + strings.TrimSuffix(why, "?"), nil
	}
	// OK: "only if ... the stop handshake with the destination succeeded", and with the right parties
	st := out.st
	switch {
	case st == nil:
		w.bad("connect:ok-without-stop-stream", "CONNECT p%d->p%d answered OK but no stream to the destination was opened", src, dst)
		out.pe.resetPipe()
		return "ok-bogus", nil
	case !st.saidOK:
		w.bad("connect:ok-without-stop-ok", "CONNECT p%d->p%d answered OK but the destination never accepted (script %s)", src, dst, st.script.Kind)
	case st.dst != dstID:
		w.bad("connect:wrong-destination", "stop stream opened to %s, requested %s", st.dst, dstID)
	case st.reqType != pbv2.StopMessage_CONNECT || st.reqPeer != peers[src].id:
		w.bad("connect:stop-request", "stop request type=%s peer=%s, source is %s", st.reqType, st.reqPeer, peers[src].id)
	}
	if l := out.limit; w.cfg.Limited != (l != nil) || (l != nil && (int64(l.GetData()) != w.cfg.LimitData || time.Duration(l.GetDuration())*time.Second != w.cfg.LimitDur)) {
		w.bad("connect:limit-announcement", "limit announced to the source %v, configured limited=%v data=%d duration=%s", l, w.cfg.Limited, w.cfg.LimitData, w.cfg.LimitDur)
	}
	w.m.ncirc++
	ci := &mcirc{id: w.m.ncirc, src: src, dst: dst, srcConn: c, tOpen: out.tResp, srcEnd: out.pe, dstEnd: st.pe, hop: out.fs, stop: st.fs,
		hopHs: int64(out.respBytes), stopHs: int64(st.hsBytes)}
	for _, dc := range w.m.conns[dst] {
		if dc.fc == st.fs.conn {
			ci.dstConn = dc
		}
	}
	if dst < 0 || ci.dstConn == nil {
		// cannot be tracked (already reported above as a violation); drop it
		out.pe.resetPipe()
		st.pe.resetPipe()
		synctest.Wait()
		return "ok-bogus", nil
	}
	ci.halfS = req == "closeWriteAfterSend"
	w.m.circs = append(w.m.circs, ci)
	return "ok", ci
}

// endCircuit: how ∈ graceful | halfS | halfD | resetS | resetD.
func (w *world) endCircuit(ci *mcirc, how string) {
	// a reset is only noticed by a relay that still reads from (or writes to) that stream; a party that
	// has already half-closed is no longer read from, so the reset is played by the other party
	if how == "resetS" && ci.halfS {
		how = "resetD"
	} else if how == "resetD" && ci.halfD {
		how = "resetS"
	}
	w.lastOp = "close-" + how
	switch how {
	case "graceful":
		ci.srcEnd.CloseWrite()
		ci.dstEnd.CloseWrite()
		ci.halfS, ci.halfD = true, true
	case "halfS":
		ci.srcEnd.CloseWrite()
		ci.halfS = true
	case "halfD":
		ci.dstEnd.CloseWrite()
		ci.halfD = true
	case "resetS":
		ci.srcEnd.resetPipe()
		ci.halfS, ci.halfD = true, true
	case "resetD":
		ci.dstEnd.resetPipe()
		ci.halfS, ci.halfD = true, true
	}
	if ci.halfS && ci.halfD {
		w.m.removeCirc(ci)
	}
	synctest.Wait()
	w.logf("CIRCUIT #%d p%d->p%d %s", ci.id, ci.src, ci.dst, how)
}

func (w *world) addConn(p, addr int) *mconn {
	w.lastOp = "addconn"
	fc := w.net.addConn(peers[p].id, addr, addrs[addr].m, addrs[addr].relayed)
	c := w.m.addConn(p, addr, fc)
	w.logf("CONN p%d conn#%d from a%d %s", p, c.ord, addr, addrs[addr].s)
	return c
}

func (w *world) disconnect(c *mconn) (lostReservation bool, ended int) {
	w.lastOp = "disconnect"
	w.m.tick(time.Now())
	e, lost := w.m.disconnect(c)
	w.net.closeConn(c.fc, w.cm)
	for _, ci := range e {
		// the relay no longer reads from a party that had half-closed, so it cannot notice that this
		// party is gone; the other party gives up as well (otherwise the circuit legitimately lingers)
		if ci.srcConn == c && ci.halfS {
			ci.dstEnd.resetPipe()
		}
		if ci.dstConn == c && ci.halfD {
			ci.srcEnd.resetPipe()
		}
	}
	synctest.Wait()
	w.logf("DISCONNECT p%d conn#%d (a%d)  circuits ended %d, reservation lost %v, direct conn left %v", c.peer, c.ord, c.addr, len(e), lost, w.m.hasDirect(c.peer))
	return lost, len(e)
}

func (w *world) advance(d time.Duration) {
	w.lastOp = "advance"
	time.Sleep(d)
	synctest.Wait()
	col, to := w.m.tick(time.Now())
	w.logf("ADVANCE %s  collected %v, circuits ended by duration %d", d, col, len(to))
}

// ---------------------------------------------------------------------------------------------
// conservation audit at quiescence

func normIP(s string) string {
	if ip := net.ParseIP(s); ip != nil {
		return ip.String()
	}
	return s
}

func (w *world) audit() {
	synctest.Wait()
	now := time.Now()
	m := w.m
	m.tick(now)
	vs := w.relay.VerifState()

	// circuit counters: "the relay's circuit counters ... return to their previous values"
	for i := range peers {
		want, _ := m.ends(i)
		if got := vs.Conns[peers[i].id]; got != want {
			w.bad("audit:circuit-counter", "relay.conns[p%d] = %d, open circuit ends in the model = %d", i, got, want)
		}
	}
	for p, n := range vs.Conns {
		if _, ok := peerIndex[p]; !ok && n != 0 {
			w.bad("audit:circuit-counter-unknown-peer", "relay.conns[%s] = %d", p, n)
		}
	}

	// reservations: "disappear when that peer disconnects or, at the next collection, once expired"
	for i := range peers {
		exp, has := vs.Rsvp[peers[i].id]
		switch st := m.resState(i, now); {
		case st == resLive && !has:
			w.bad("audit:reservation-missing", "p%d holds a live reservation in the model (expiry %s) but not in relay.rsvp", i, m.res[i].expiry.Sub(m.t0))
		case st == resNone && has:
			w.bad("audit:reservation-stale", "relay.rsvp still has p%d (expiry t0+%s, now t0+%s, direct conn %v)", i, exp.Sub(m.t0), now.Sub(m.t0), m.hasDirect(i))
		case has && m.res[i] != nil && !exp.Equal(m.res[i].expiry):
			w.bad("audit:reservation-expiry", "relay.rsvp[p%d] expires t0+%s, model t0+%s", i, exp.Sub(m.t0), m.res[i].expiry.Sub(m.t0))
		}
	}
	for p := range vs.Rsvp {
		if _, ok := peerIndex[p]; !ok {
			w.bad("audit:reservation-unknown-peer", "relay.rsvp has %s", p)
		}
	}

	// constraints: entries that still count (expiry in the future) must be exactly the live reservations
	type key struct {
		list string
		p    int
	}
	got, want := map[key]int{}, map[key]int{}
	add := func(list string, l []relay.VerifPeerExpiry) {
		for _, e := range l {
			if !e.Expiry.After(now) {
				continue // no longer counted against any cap
			}
			i, ok := peerIndex[e.Peer]
			if !ok {
				i = -1
			}
			got[key{list, i}]++
			if r := m.res[i]; r != nil && !r.expiry.Equal(e.Expiry) {
				w.bad("audit:constraints-expiry", "constraints %s entry of p%d expires t0+%s, model t0+%s", list, i, e.Expiry.Sub(m.t0), r.expiry.Sub(m.t0))
			}
		}
	}
	add("total", vs.Total)
	for ip, l := range vs.IPs {
		add("ip:"+normIP(ip), l)
	}
	for asn, l := range vs.ASNs {
		add(fmt.Sprintf("asn:%d", asn), l)
	}
	for i, r := range m.res {
		if !r.expiry.After(now) {
			continue
		}
		want[key{"total", i}] = 1
		want[key{"ip:" + normIP(r.ip), i}] = 1
		if r.asn != 0 {
			want[key{fmt.Sprintf("asn:%d", r.asn), i}] = 1
		}
	}
	for k, n := range got {
		if want[k] != n {
			w.bad("audit:constraints-"+strings.SplitN(k.list, ":", 2)[0]+"-extra", "constraints list %s counts p%d %d time(s), model %d (slot not released / counted twice)", k.list, k.p, n, want[k])
		}
	}
	for k, n := range want {
		if got[k] != n {
			w.bad("audit:constraints-"+strings.SplitN(k.list, ":", 2)[0]+"-missing", "constraints list %s counts p%d %d time(s), model %d (a reservation in force is not counted)", k.list, k.p, got[k], n)
		}
	}

	// connection-manager tags
	tags, nprot := w.cm.snapshot()
	for i := range peers {
		t := tags[peers[i].id]
		v, has := t[tagRsvp]
		switch st := m.resState(i, now); {
		case st == resLive && !has:
			w.bad("audit:tag-reservation-missing", "p%d has a live reservation but no %q tag", i, tagRsvp)
		case st == resNone && has:
			w.bad("audit:tag-reservation-stale", "p%d has no reservation any more but still carries the %q tag (connections left: %d)", i, tagRsvp, len(m.conns[i]))
		case has && v != relay.ReservationTagWeight:
			w.bad("audit:tag-reservation-value", "p%d tag value %d", i, v)
		}
		e, _ := m.ends(i)
		hv, hasHop := t[tagHop]
		switch {
		case e > 0 && !hasHop:
			w.bad("audit:tag-hop-missing", "p%d has %d open circuit end(s) but no %q tag", i, e, tagHop)
		case e == 0 && hasHop:
			w.bad("audit:tag-hop-stale", "p%d has no open circuit but still carries the %q tag", i, tagHop)
		case hasHop && hv != tagHopValue:
			w.bad("audit:tag-hop-value", "p%d hop tag value %d", i, hv)
		}
		for k := range t {
			if k != tagRsvp && k != tagHop {
				w.bad("audit:tag-unknown", "p%d carries unexpected tag %q", i, k)
			}
		}
	}
	for p := range tags {
		if _, ok := peerIndex[p]; !ok {
			w.bad("audit:tag-unknown-peer", "tags on %s: %v", p, tags[p])
		}
	}
	if nprot != 0 {
		w.bad("audit:protect", "%d protections left behind", nprot)
	}

	// reserved memory and streams in the REAL resource manager: "reserved memory return[s] to [its] previous value"
	var svc, sys, trans network.ScopeStat
	w.rm.ViewService(relay.ServiceName, func(s network.ServiceScope) error { svc = s.Stat(); return nil })
	w.rm.ViewSystem(func(s network.ResourceScope) error { sys = s.Stat(); return nil })
	w.rm.ViewTransient(func(s network.ResourceScope) error { trans = s.Stat(); return nil })
	n := len(m.circs)
	wantStat := network.ScopeStat{NumStreamsInbound: n, NumStreamsOutbound: n, Memory: int64(n * 2 * w.cfg.Buf)}
	if svc.Memory != wantStat.Memory {
		w.bad("audit:service-memory", "relay service scope holds %d bytes, %d open circuit(s) x 2 x %d = %d", svc.Memory, n, w.cfg.Buf, wantStat.Memory)
	}
	if svc.NumStreamsInbound != n || svc.NumStreamsOutbound != n {
		w.bad("audit:service-streams", "relay service scope has %d inbound / %d outbound streams, open circuits %d", svc.NumStreamsInbound, svc.NumStreamsOutbound, n)
	}
	if sys != wantStat {
		w.bad("audit:system-scope", "system scope %+v, expected %+v", sys, wantStat)
	}
	if trans != (network.ScopeStat{}) {
		w.bad("audit:transient-scope", "transient scope %+v", trans)
	}
}
