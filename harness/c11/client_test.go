package c11

// Client side of the voucher clause: client.Reserve (the REAL function) talks to a scripted relay
// stream that returns crafted reservations. "carry a voucher signed by the relay for exactly the
// reserving peer": a client must not accept a voucher whose signature was not made by the relay the
// voucher names, that names another peer, that was sealed under another domain, or a reservation
// that has already expired.

import (
	"context"
	"fmt"
	"testing"
	"time"

	"github.com/libp2p/go-libp2p/core/crypto"
	"github.com/libp2p/go-libp2p/core/network"
	"github.com/libp2p/go-libp2p/core/peer"
	"github.com/libp2p/go-libp2p/core/protocol"
	"github.com/libp2p/go-libp2p/core/record"
	"github.com/libp2p/go-libp2p/p2p/protocol/circuitv2/client"
	pbv2 "github.com/libp2p/go-libp2p/p2p/protocol/circuitv2/pb"
	circproto "github.com/libp2p/go-libp2p/p2p/protocol/circuitv2/proto"
	ma "github.com/multiformats/go-multiaddr"

	"verif/harness/rig/run"
)

// otherDomainVoucher is a reservation voucher sealed under a different signature domain.
type otherDomainVoucher struct {
	*circproto.ReservationVoucher
	domain string
}

func (o otherDomainVoucher) Domain() string { return o.domain }

type clientCase struct {
	Name       string `json:"name"`
	MustReject bool   `json:"must_reject"`
	MustAccept bool   `json:"must_accept"`
	build      func(now time.Time) *pbv2.HopMessage
}

func seal(rec record.Record, k crypto.PrivKey) []byte {
	env, err := record.Seal(rec, k)
	if err != nil {
		panic(err)
	}
	b, err := env.Marshal()
	if err != nil {
		panic(err)
	}
	return b
}

func okResp(expire time.Time, voucher []byte) *pbv2.HopMessage {
	e := uint64(expire.Unix())
	d, n := uint32(120), uint64(1<<17)
	return &pbv2.HopMessage{Type: pbv2.HopMessage_STATUS.Enum(), Status: pbv2.Status_OK.Enum(),
		Reservation: &pbv2.Reservation{Expire: &e, Voucher: voucher,
			Addrs: [][]byte{ma.StringCast("/ip4/9.9.9.9/tcp/4001/p2p/" + relayIdent.id.String()).Bytes()}},
		Limit: &pbv2.Limit{Duration: &d, Data: &n}}
}

func clientCases() []clientCase {
	me := peers[0].id
	v := func(relayID, p peer.ID, exp time.Time) *circproto.ReservationVoucher {
		return &circproto.ReservationVoucher{Relay: relayID, Peer: p, Expiration: exp}
	}
	return []clientCase{
		{Name: "valid", MustAccept: true, build: func(now time.Time) *pbv2.HopMessage {
			e := now.Add(time.Hour)
			return okResp(e, seal(v(relayIdent.id, me, e), relayIdent.priv))
		}},
		{Name: "foreign-signer", MustReject: true, build: func(now time.Time) *pbv2.HopMessage {
			e := now.Add(time.Hour) // names the relay, but signed with somebody else's key
			return okResp(e, seal(v(relayIdent.id, me, e), foreignKey.priv))
		}},
		{Name: "signed-by-the-client-itself", MustReject: true, build: func(now time.Time) *pbv2.HopMessage {
			e := now.Add(time.Hour)
			return okResp(e, seal(v(relayIdent.id, me, e), peers[0].priv))
		}},
		{Name: "foreign-peer", MustReject: true, build: func(now time.Time) *pbv2.HopMessage {
			e := now.Add(time.Hour) // a genuine voucher of the relay, for another peer
			return okResp(e, seal(v(relayIdent.id, peers[1].id, e), relayIdent.priv))
		}},
		{Name: "wrong-domain", MustReject: true, build: func(now time.Time) *pbv2.HopMessage {
			e := now.Add(time.Hour)
			return okResp(e, seal(otherDomainVoucher{v(relayIdent.id, me, e), "libp2p-peer-record"}, relayIdent.priv))
		}},
		{Name: "wrong-domain-similar", MustReject: true, build: func(now time.Time) *pbv2.HopMessage {
			e := now.Add(time.Hour)
			return okResp(e, seal(otherDomainVoucher{v(relayIdent.id, me, e), circproto.RecordDomain + "x"}, relayIdent.priv))
		}},
		{Name: "expired", MustReject: true, build: func(now time.Time) *pbv2.HopMessage {
			e := now.Add(-time.Minute)
			return okResp(e, seal(v(relayIdent.id, me, e), relayIdent.priv))
		}},
		{Name: "tampered-payload", MustReject: true, build: func(now time.Time) *pbv2.HopMessage {
			e := now.Add(time.Hour)
			b := seal(v(relayIdent.id, me, e), relayIdent.priv)
			// flip a byte inside the signed payload (the client's own id bytes): find them
			idb := []byte(me)
			for i := 0; i+len(idb) <= len(b); i++ {
				if string(b[i:i+len(idb)]) == string(idb) {
					b[i+len(idb)-1] ^= 0x01
					break
				}
			}
			return okResp(e, b)
		}},
		{Name: "garbage-voucher", MustReject: true, build: func(now time.Time) *pbv2.HopMessage {
			return okResp(now.Add(time.Hour), []byte{0x0a, 0x03, 0x01, 0x02, 0x03, 0xff})
		}},
		{Name: "refused", MustReject: true, build: func(now time.Time) *pbv2.HopMessage {
			return &pbv2.HopMessage{Type: pbv2.HopMessage_STATUS.Enum(), Status: pbv2.Status_RESERVATION_REFUSED.Enum()}
		}},
		// a self-consistent voucher of ANOTHER relay (signed by it, naming it) handed out by the relay the
		// client talks to: not "signed by the relay" that granted the reservation
		{Name: "other-relays-voucher", MustReject: true, build: func(now time.Time) *pbv2.HopMessage {
			e := now.Add(time.Hour)
			return okResp(e, seal(v(foreignKey.id, me, e), foreignKey.priv))
		}},
	}
}

func runClientCase(t *testing.T, cc clientCase) (res *histResult) {
	res = &histResult{classes: map[string]int{}, soft: map[string]int{}}
	res.bubble = run.Bubble(t, func(t *testing.T) {
		bad := func(sig, f string, a ...any) {
			res.problems = append(res.problems, problem{sig, fmt.Sprintf(f, a...)})
		}
		var relaySide *fstream
		h := &fhost{id: peers[0].id, ps: &fps{id: peers[0].id, priv: peers[0].priv}}
		h.newStream = func(ctx context.Context, p peer.ID, pid protocol.ID) (network.Stream, error) {
			if p != relayIdent.id || pid != circproto.ProtoIDv2Hop {
				bad("client:wrong-stream", "client opened a stream to %s %s", p, pid)
			}
			pp := newPipe(4096)
			relaySide = &fstream{end: pp.e[0], role: "client", id: "c1", dir: network.DirOutbound}
			go func() { // the scripted relay
				re := pp.e[1]
				re.SetDeadline(time.Now().Add(peerPatience))
				var req pbv2.HopMessage
				if _, err := readMsg(re, &req); err != nil || req.GetType() != pbv2.HopMessage_RESERVE {
					bad("client:request", "client sent %v (%v)", req.GetType(), err)
					re.resetPipe()
					return
				}
				writeMsg(re, cc.build(time.Now()))
				re.CloseWrite()
			}()
			return relaySide, nil
		}
		rsvp, err := client.Reserve(context.Background(), h, peer.AddrInfo{ID: relayIdent.id, Addrs: []ma.Multiaddr{ma.StringCast("/ip4/9.9.9.9/tcp/4001")}})
		res.log = append(res.log, fmt.Sprintf("client.Reserve with %s -> rsvp=%v err=%v", cc.Name, rsvp != nil, err))
		switch {
		case cc.MustReject && err == nil:
			bad("client:accepted-"+cc.Name, "client.Reserve accepted a reservation with a %s voucher/answer", cc.Name)
		case cc.MustAccept && err != nil:
			// a refusal is never a violation; the vacuity guard (client_accepted_valid >= 1) makes the run inconclusive
			res.soft["refused_though_admissible/client-reserve"]++
			res.log = append(res.log, fmt.Sprintf("client.Reserve rejected a valid reservation: %v", err))
		case cc.MustAccept:
			v := rsvp.Voucher
			if v == nil || v.Peer != peers[0].id || v.Relay != relayIdent.id || rsvp.LimitData != 1<<17 || rsvp.LimitDuration != 2*time.Minute {
				bad("client:result", "client.Reserve returned %+v voucher %+v", rsvp, v)
			}
		}
		if err == nil {
			res.classes["client_accepted_"+cc.Name]++
		} else {
			res.classes["client_rejected_"+cc.Name]++
		}
		if relaySide != nil && !relaySide.isReleased() {
			bad("client:stream-leak", "client.Reserve returned without closing or resetting its stream (%s)", cc.Name)
		}
	})
	return
}

func clientVouchers(t *testing.T, r *run.R) {
	for _, cc := range clientCases() {
		caseID := "client/" + cc.Name
		if !r.Want(caseID) || r.TooMany() {
			continue
		}
		res := runClientCase(t, cc)
		detail := map[string]any{"case": cc, "events": res.log}
		if reportBubble(r, caseID, res.bubble, detail) {
			continue
		}
		for _, p := range res.problems[:min(len(res.problems), 1)] {
			r.Violation(p.Sig, caseID, p.Msg, detail)
		}
		r.Eval(1)
		for k, v := range res.classes {
			r.Count(k, v)
		}
		for k, v := range res.soft {
			r.Count(k, v)
		}
		if cc.MustReject {
			r.Count("client_hostile_answers", 1)
			r.Nontrivial(caseID)
		}
	}
	r.Require("client_accepted_valid", 1)
	r.Require("client_hostile_answers", 10)
}
