// C11 — Circuit relay v2 honours reservations, ACL, caps and per-circuit limits.
//
// The REAL relay.Relay runs on a scriptable fake host with a REAL resource manager inside
// testing/synctest bubbles (reservation TTL, collection ticks, Limit.Duration, handshake timeouts are
// all virtual time; all I/O over in-memory pipes). Oracle: the reference model of model_test.go
// (written from the statement), the byte/time counters of the pipes, and a conservation audit at
// quiescence after every operation (relay counters via verif_export, recording ConnManager, service
// scope of the real resource manager).
package c11

import (
	"fmt"
	"math/rand/v2"
	"os"
	"strings"
	"sync"
	"testing"
	"time"

	rcmgr "github.com/libp2p/go-libp2p/p2p/host/resource-manager"

	"verif/harness/rig/run"
)

func TestC11(t *testing.T) {
	r := run.New(t, "C11", "exploration")
	defer r.Finish()
	r.Rule("a history is non-trivial when the real relay, in that history, granted at least one reservation and one circuit AND refused at least one request for a reason named in the statement (cap, refused refresh, ACL, relayed connection, missing/expired reservation, MaxCircuits); a fault case is non-trivial when the injected fault actually fired; a data case when bytes reached the limit or the duration; distinct = distinct generated case")
	r.Assume(
		"environment model: host.NewStream with a NoDial context opens streams only over an existing non-relayed connection (swarm behaviour); Connectedness is Connected only with a non-relayed connection",
		"the connection manager forgets a peer's tags with its last connection (BasicConnMgr behaviour)",
		"stream deadlines behave like net.Conn deadlines (an operation pending or started after the deadline fails)",
		"core/record envelope verification and the ASN data set are trusted (C08 covers envelopes)",
		"collections happen every minute from the relay's start (relay.go background ticker)")

	if os.Getenv("VERIF_RACE") == "1" {
		concurrency(t, r, 400, 3000)
		r.Require("conc_rounds", 20)
		return
	}
	histories(t, r)
	r.Require("hist_reserve_ok-new", 100)
	r.Require("hist_reserve_ok-refresh", 50)
	r.Require("hist_reserve_refused:cap-total", 30)
	r.Require("hist_reserve_refused:cap-ip", 30)
	r.Require("hist_reserve_refused:cap-asn", 10)
	r.Require("hist_reserve_refresh-refused", 10)
	r.Require("hist_reserve_refused:relayed-conn", 10)
	r.Require("hist_reserve_refused:acl", 10)
	r.Require("hist_connect_ok", 100)
	r.Require("hist_connect_refused:no-reservation", 30)
	r.Require("hist_connect_refused:relayed-src", 10)
	r.Require("hist_connect_refused:acl", 10)
	r.Require("hist_connect_refused:max-circuits-src", 5)
	r.Require("hist_connect_refused:max-circuits-dst", 5)
	r.Require("hist_connect_refused:stop-handshake", 20)
	r.Require("hist_reservation_lost_by_disconnect", 30)
	r.Require("hist_reservation_collected", 30)
	r.Require("hist_circuit_ended_by_duration", 10)
	r.Require("hist_circuit_ended_by_disconnect", 10)
	r.Require("hist_connect_in_expiry_window", 3)
	// vacuity guard (the statement is one-sided, so a relay that refuses is never in violation; but a run in
	// which admissible requests are mostly refused has not exercised the grant paths): >= 95 % of the
	// admissible fault-free sequential RESERVE and CONNECT requests must have been granted
	for _, op := range []string{"reserve", "connect"} {
		adm, gr := r.Counter("admissible/"+op), r.Counter("admissible_granted/"+op)
		if adm > 0 {
			r.Count("admissible_granted_permille/"+op, int(gr*1000/adm))
		}
		if adm >= 100 && gr*100 >= adm*95 {
			r.Count("guard_admissible_"+op+"_mostly_granted", 1)
		}
		r.Require("guard_admissible_"+op+"_mostly_granted", 1)
	}

	concurrency(t, r, 600, 20000)
	r.Require("conc_rounds", 100)
	r.Require("conc_reserve_refused", 100)
	r.Require("conc_connect_limit", 100)
	r.Require("conc_connect_ok", 100)

	clientVouchers(t, r)
	systemRuns(t, r)

	faults(t, r)

	dataAndDuration(t, r)
	r.Require("data_delivered_up_to_limit", 100)
	r.Require("data_payload_above_limit", 100)
	r.Require("data_payload_above_limit_beside_a_sibling_relay_with_wider_limits", 30)
	r.Require("data_payload_equals_limit", 50)
	r.Require("dur_traffic_until_deadline", 10)
}

// ---------------------------------------------------------------------------------------------
// generated histories

func pick[T any](rng *rand.Rand, l ...T) T { return l[rng.IntN(len(l))] }

func genCfg(rng *rand.Rand) relayCfg {
	capv := func() int {
		if rng.IntN(4) == 0 {
			return 128
		}
		return 1 + rng.IntN(3)
	}
	cfg := relayCfg{MaxRes: capv(), MaxIP: capv(), MaxASN: capv(), MaxCirc: capv(),
		TTL: pick(rng, time.Hour, time.Hour, 10*time.Minute, 90*time.Second),
		Buf: pick(rng, 2048, 256)}
	if rng.IntN(5) != 0 {
		cfg.Limited = true
		cfg.LimitDur = pick(rng, 2*time.Minute, 2*time.Minute, 30*time.Second, 10*time.Minute)
		cfg.LimitData = pick(rng, int64(1<<17), 1000)
	}
	if rng.IntN(5) < 2 {
		acl := &aclTable{DenyReserve: map[string]bool{}, DenyConnect: map[string]bool{}}
		for p := 0; p < nPeers; p++ {
			for a := range addrs {
				if rng.IntN(8) == 0 {
					acl.DenyReserve[fmt.Sprintf("%d/%d", p, a)] = true
				}
				for d := -1; d < nPeers; d++ {
					if rng.IntN(7) == 0 {
						acl.DenyConnect[fmt.Sprintf("%d/%d/%d", p, a, d)] = true
					}
				}
			}
		}
		cfg.ACL = acl
	}
	return cfg
}

var failingStopScripts = []string{"openfail", "reset", "eof", "resetEarly", "eofEarly", "garbage", "oversize", "truncEOF",
	"wrongtype", "notype", "nostatus", "status:200", "status:201", "status:202", "status:203", "status:204", "status:400", "status:401", "status:0", "silence", "openstall"}

type histResult struct {
	cfg      relayCfg
	classes  map[string]int
	log      []string
	problems []problem
	bubble   run.BubbleResult
	ops      int
	stalled  bool
	soft     map[string]int // one-sided statement: unexpected refusals are counted, never raised
}

func runHistory(t *testing.T, rng *rand.Rand, cfg relayCfg, nops int) *histResult {
	res := &histResult{cfg: cfg, classes: map[string]int{}, soft: map[string]int{}}
	res.bubble = run.Bubble(t, func(t *testing.T) {
		w, err := newWorld(cfg, limitsWith(rcmgr.ResourceLimits{}, rcmgr.ResourceLimits{}), nil)
		if err != nil {
			res.problems = append(res.problems, problem{"harness:setup", err.Error()})
			return
		}
		defer res.collect(w)
		m := w.m
		count := func(k string) { res.classes[k]++ }
		allConns := func() (l []*mconn) {
			for p := 0; p < nPeers; p++ {
				l = append(l, m.conns[p]...)
			}
			return
		}
		for step := 0; step < nops && !w.failed(); step++ {
			res.ops++
			conns := allConns()
			x := rng.IntN(100)
			switch {
			case len(conns) < 2 || x < 14: // new connection
				p := rng.IntN(nPeers)
				if len(m.conns[p]) >= 3 {
					continue
				}
				a := rng.IntN(nDirectAddrs)
				if rng.IntN(7) == 0 {
					a = nDirectAddrs + rng.IntN(len(addrs)-nDirectAddrs)
				}
				w.addConn(p, a)
			case x < 44: // RESERVE
				c := conns[rng.IntN(len(conns))]
				cls := w.reserve(c)
				count("reserve_" + cls)
				if strings.HasPrefix(cls, "refresh-refused:cap") {
					count("reserve_refresh-refused")
				}
			case x < 70: // CONNECT
				c := conns[rng.IntN(len(conns))]
				dst := (c.peer + 1 + rng.IntN(nPeers-1)) % nPeers // circuits to oneself are legal but rare (below)
				if rng.IntN(5) != 0 {                             // prefer destinations that hold a reservation
					var cand []int
					for q := range m.res {
						if q != c.peer {
							cand = append(cand, q)
						}
					}
					if len(cand) > 0 {
						sortInts(cand) // map order is random: choose by value
						dst = cand[rng.IntN(len(cand))]
					}
				}
				if rng.IntN(30) == 0 {
					dst = -1
				}
				if rng.IntN(40) == 0 {
					dst = c.peer
				}
				sc := stopScript{Kind: "ok"}
				if rng.IntN(7) == 0 {
					sc.Kind = failingStopScripts[rng.IntN(len(failingStopScripts))]
				} else if rng.IntN(10) == 0 {
					sc.Delay = time.Duration(1+rng.IntN(50)) * time.Second
				}
				req := "normal"
				if y := rng.IntN(40); y == 0 {
					req = pick(rng, "nilpeer", "badpeer", "garbage", "wrongtype", "unknowntype", "oversize", "truncEOF", "eof")
				} else if y == 1 {
					req = "withaddrs"
				} else if y == 2 {
					req = "closeWriteAfterSend"
				}
				st := m.resState(dst, time.Now())
				cls, ci := w.connectReq(c, dst, req, sc)
				count("connect_" + cls)
				if st == resMay {
					count("connect_in_expiry_window")
				}
				if ci != nil && ci.src == ci.dst {
					count("connect_self_circuit")
				}
			case x < 78: // end a circuit
				if len(m.circs) == 0 {
					continue
				}
				ci := m.circs[rng.IntN(len(m.circs))]
				how := pick(rng, "graceful", "graceful", "halfS", "halfD", "resetS", "resetD")
				w.endCircuit(ci, how)
				count("circuit_end_" + how)
			case x < 87: // a connection dies
				c := conns[rng.IntN(len(conns))]
				lost, ended := w.disconnect(c)
				if lost {
					count("reservation_lost_by_disconnect")
				} else if m.res[c.peer] != nil {
					count("reservation_kept_other_direct_conn")
				}
				res.classes["circuit_ended_by_disconnect"] += ended
			default: // time passes
				ttl, ld := cfg.TTL, cfg.LimitDur
				if ld == 0 {
					ld = 2 * time.Minute
				}
				d := pick(rng, time.Second, 20*time.Second, 59*time.Second, 60*time.Second, 61*time.Second, 2*time.Minute,
					ld-time.Second, ld, ld+time.Second, ttl/2, ttl-time.Second, ttl, ttl+time.Second, ttl+59*time.Second, ttl+61*time.Second, ttl+2*time.Minute)
				before := len(m.res)
				nc := len(m.circs)
				w.advance(d)
				res.classes["reservation_collected"] += before - len(m.res)
				res.classes["circuit_ended_by_duration"] += nc - len(m.circs)
			}
			w.audit()
		}
		// finally everything goes away and all counters must be back where they started
		for _, c := range allConns() {
			w.disconnect(c)
		}
		w.lastOp = "final-disconnect"
		w.audit()
	})
	return res
}

func sortInts(l []int) {
	for i := 1; i < len(l); i++ {
		for j := i; j > 0 && l[j] < l[j-1]; j-- {
			l[j], l[j-1] = l[j-1], l[j]
		}
	}
}

func nontrivialHistory(c map[string]int) bool {
	okR := c["reserve_ok-new"]+c["reserve_ok-refresh"]+c["reserve_ok-refresh-expired"] > 0
	okC := c["connect_ok"] > 0
	refused := 0
	for k, n := range c {
		if strings.Contains(k, "refused:") && !strings.Contains(k, "stop-handshake") {
			refused += n
		}
	}
	return okR && okC && refused > 0
}

// collect copies what the world recorded into the case result (called when the bubble's scenario ends).
func (res *histResult) collect(w *world) {
	w.shutdown()
	res.log, res.problems, res.stalled = w.log, append(res.problems, w.problems...), w.stalled
	for k, v := range w.softc {
		res.soft[k] += v
	}
}

// settle turns a finished case into violations / inconclusive notes; false: the case did not complete.
func settle(r *run.R, caseID string, res *histResult, detail map[string]any) bool {
	if reportBubble(r, caseID, res.bubble, detail) {
		return false
	}
	if res.stalled {
		r.Inconclusive(caseID, "virtual-time watchdog fired (scenario did not finish within 30 virtual days); last events: "+strings.Join(res.log[max(0, len(res.log)-5):], " | "))
		return false
	}
	for _, p := range res.problems[:min(len(res.problems), 1)] {
		detail["all_problems"] = res.problems
		r.Violation(p.Sig, caseID, p.Msg, detail)
	}
	r.Eval(1)
	for k, v := range res.soft {
		r.Count(k, v)
	}
	return true
}

func reportBubble(r *run.R, caseID string, b run.BubbleResult, detail any) bool {
	if b.OK() {
		return false
	}
	if b.Deadlock {
		// after shutdown every stream is reset and the relay closed: a goroutine still blocked is stuck for good
		r.Inconclusive(caseID, "bubble deadlock (goroutine left blocked after shutdown)\n"+b.Dump)
		return true
	}
	r.Violation("crash:panic", caseID, fmt.Sprintf("panic in case: %v", b.Panic), map[string]any{"case": detail, "stack": b.Dump})
	return true
}

func histories(t *testing.T, r *run.R) {
	n := r.Pick(8000, 200000)
	var mu sync.Mutex
	run.Parallel(n, 0, func(i int) {
		caseID := fmt.Sprintf("hist/%d", i)
		if !r.Want(caseID) || r.TooMany() {
			return
		}
		rng := r.Rand(1, uint64(i))
		cfg := genCfg(rng)
		res := runHistory(t, rng, cfg, 25+rng.IntN(25))
		detail := map[string]any{"config": cfg, "events": res.log}
		if !settle(r, caseID, res, detail) {
			return
		}
		mu.Lock()
		for k, v := range res.classes {
			r.Count("hist_"+k, v)
		}
		r.Count("hist_ops", res.ops)
		mu.Unlock()
		if nontrivialHistory(res.classes) {
			r.Nontrivial(caseID)
			if r.SampleN() < 2 {
				r.Sample(map[string]any{"case": caseID, "config": cfg, "events": res.log[:min(len(res.log), 40)]})
			}
		}
	})
}
