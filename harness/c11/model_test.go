package c11

// Reference model of the relay, written from the property statement:
//
//   "The relay connects a source to a destination only if the destination holds a reservation on this
//    relay, neither party reached the relay through another relay, the ACL permits it and neither party
//    already has the maximum number of circuits; reservations are granted only within the total, per-IP
//    and per-ASN caps, carry a voucher signed by the relay for exactly the reserving peer, and disappear
//    when that peer disconnects or, at the next collection, once expired. On a limited relay at most the
//    configured number of bytes is forwarded in each direction and the circuit ends at the configured
//    duration. However a reservation or circuit attempt ends, the relay's circuit counters,
//    connection-manager tags and reserved memory return to their previous values."
//
// Where the statement leaves freedom the model is a relation: a reservation that has expired but has
// not yet seen a collection ("may" state) may or may not be counted against the caps and may or may
// not admit a CONNECT; a request refused for several reasons may carry the status of any of them.

import (
	"fmt"
	mrand "math/rand"
	"net"
	"sort"
	"sync/atomic"
	"time"

	asnutil "github.com/libp2p/go-libp2p-asn-util"
	"github.com/libp2p/go-libp2p/core/crypto"
	"github.com/libp2p/go-libp2p/core/peer"
	pbv2 "github.com/libp2p/go-libp2p/p2p/protocol/circuitv2/pb"
	ma "github.com/multiformats/go-multiaddr"
)

// ---------------------------------------------------------------------------------------------
// population

type ident struct {
	priv crypto.PrivKey
	id   peer.ID
}

const nPeers = 6

var (
	relayIdent ident
	otherRelay ident // the relay through which "relayed" connections arrive
	foreignKey ident // a key that is neither the relay's nor a client's
	peers      [nPeers]ident
	peerIndex  = map[peer.ID]int{}
)

type srcAddr struct {
	s       string
	m       ma.Multiaddr
	ip      string // textual IP the caps are keyed by ("" for none)
	asn     uint32 // 0: unknown (IPv4 and unmapped IPv6 are not capped per ASN)
	relayed bool
}

var addrs []srcAddr

const (
	asnA = 32934
	asnB = 15169
)

func init() {
	rng := mrand.New(mrand.NewSource(0xC11))
	gen := func() ident {
		k, _, err := crypto.GenerateEd25519Key(rng)
		if err != nil {
			panic(err)
		}
		id, err := peer.IDFromPrivateKey(k)
		if err != nil {
			panic(err)
		}
		return ident{k, id}
	}
	relayIdent, otherRelay, foreignKey = gen(), gen(), gen()
	for i := range peers {
		peers[i] = gen()
		peerIndex[peers[i].id] = i
	}
	tab := []struct {
		s, ip   string
		asn     uint32
		relayed bool
	}{
		{"/ip4/1.1.1.1/tcp/1001", "1.1.1.1", 0, false},
		{"/ip4/1.1.1.1/tcp/1002", "1.1.1.1", 0, false}, // same IP, other port
		{"/ip4/2.2.2.2/tcp/1001", "2.2.2.2", 0, false},
		{"/ip6/2a03:2880:f003:c07::1/tcp/1", "2a03:2880:f003:c07::1", asnA, false},
		{"/ip6/2a03:2880:f003:c07::2/tcp/1", "2a03:2880:f003:c07::2", asnA, false},         // same ASN, other IP
		{"/ip6/2a03:2880:f003:c07::1/udp/2/quic-v1", "2a03:2880:f003:c07::1", asnA, false}, // same IP as [3]
		{"/ip6/2001:4860:4860::8888/tcp/1", "2001:4860:4860::8888", asnB, false},
		{"/ip6/2001:db8::7/tcp/1", "2001:db8::7", 0, false}, // IPv6 without a known ASN
		{"/ip4/3.3.3.3/tcp/1/p2p/" + otherRelay.id.String() + "/p2p-circuit", "3.3.3.3", 0, true},
		{"/ip6/2a03:2880:f003:c07::9/tcp/1/p2p/" + otherRelay.id.String() + "/p2p-circuit", "2a03:2880:f003:c07::9", asnA, true},
	}
	for _, e := range tab {
		a := srcAddr{s: e.s, m: ma.StringCast(e.s), ip: e.ip, asn: e.asn, relayed: e.relayed}
		// the table is the model's ground truth; make sure it agrees with the ASN data set in use
		if ip := net.ParseIP(e.ip); ip.To4() == nil {
			if got := asnutil.AsnForIPv6(ip); got != e.asn {
				panic(fmt.Sprintf("address table: %s has ASN %d in the data set, table says %d", e.ip, got, e.asn))
			}
		}
		addrs = append(addrs, a)
	}
}

const (
	nDirectAddrs = 8
	gcPeriod     = time.Minute // the relay's collection period (relay.go: background ticker)
)

// ---------------------------------------------------------------------------------------------
// configuration

type aclTable struct {
	DenyReserve                map[string]bool `json:"deny_reserve,omitempty"` // "peer/addr"
	DenyConnect                map[string]bool `json:"deny_connect,omitempty"` // "src/addr/dst"
	reserveCalls, connectCalls atomic.Int64
}

func (a *aclTable) AllowReserve(p peer.ID, addr ma.Multiaddr) bool {
	a.reserveCalls.Add(1)
	return !a.DenyReserve[fmt.Sprintf("%d/%d", peerIndex[p], addrIndex(addr))]
}
func (a *aclTable) AllowConnect(src peer.ID, addr ma.Multiaddr, dst peer.ID) bool {
	a.connectCalls.Add(1)
	di, ok := peerIndex[dst]
	if !ok {
		di = -1
	}
	return !a.DenyConnect[fmt.Sprintf("%d/%d/%d", peerIndex[src], addrIndex(addr), di)]
}

func addrIndex(a ma.Multiaddr) int {
	for i := range addrs {
		if addrs[i].m.Equal(a) {
			return i
		}
	}
	return -1
}

type relayCfg struct {
	MaxRes    int           `json:"max_reservations"`
	MaxIP     int           `json:"max_per_ip"`
	MaxASN    int           `json:"max_per_asn"`
	MaxCirc   int           `json:"max_circuits"`
	TTL       time.Duration `json:"ttl"`
	Limited   bool          `json:"limited"`
	LimitData int64         `json:"limit_data"`
	LimitDur  time.Duration `json:"limit_duration"`
	Buf       int           `json:"buffer"`
	ACL       *aclTable     `json:"acl,omitempty"`
	// ViaDefaults: the Resources are built the documented way - rc := relay.DefaultResources(), fields
	// (also rc.Limit.Data / rc.Limit.Duration) assigned, WithResources(rc) - and a second relay of the same
	// process is configured the same way, with far wider limits, after this one was started
	ViaDefaults bool `json:"resources_built_from_DefaultResources,omitempty"`
}

// ---------------------------------------------------------------------------------------------
// model state

type mres struct {
	addr   int
	ip     string
	asn    uint32
	expiry time.Time
}

type mconn struct {
	ord     int
	peer    int
	addr    int
	relayed bool
	fc      *fconn
}

type mcirc struct {
	id               int
	src, dst         int
	srcConn, dstConn *mconn
	tOpen            time.Time
	halfS, halfD     bool // that party closed its write side
	srcEnd, dstEnd   *end
	hop, stop        *fstream
	hopHs, stopHs    int64 // handshake bytes the relay wrote on each stream before any payload
}

type model struct {
	cfg   relayCfg
	t0    time.Time // relay start: collections happen at t0 + k*gcPeriod
	res   map[int]*mres
	conns map[int][]*mconn
	circs []*mcirc
	nconn int
	ncirc int
}

func newModel(cfg relayCfg, t0 time.Time) *model {
	return &model{cfg: cfg, t0: t0, res: map[int]*mres{}, conns: map[int][]*mconn{}}
}

const (
	resNone = iota
	resMay  // expired, but no collection has happened since: the statement lets it be either way
	resLive
)

// collected: "disappear ... at the next collection, once expired".
func (m *model) collected(expiry, now time.Time) bool {
	k := now.Sub(m.t0) / gcPeriod
	lastTick := m.t0.Add(k * gcPeriod)
	return k >= 1 && expiry.Before(lastTick)
}

func (m *model) resState(p int, now time.Time) int {
	r := m.res[p]
	switch {
	case r == nil:
		return resNone
	case r.expiry.After(now):
		return resLive
	default:
		return resMay
	}
}

// tick applies the passage of time: collections and circuit duration.
func (m *model) tick(now time.Time) (collected []int, timedOut []*mcirc) {
	for p, r := range m.res {
		if m.collected(r.expiry, now) {
			delete(m.res, p)
			collected = append(collected, p)
		}
	}
	sort.Ints(collected)
	if m.cfg.Limited {
		keep := m.circs[:0:0]
		for _, c := range m.circs {
			// "the circuit ends at the configured duration"
			if !c.tOpen.Add(m.cfg.LimitDur).After(now) {
				timedOut = append(timedOut, c)
			} else {
				keep = append(keep, c)
			}
		}
		m.circs = keep
	}
	return
}

func (m *model) hasDirect(p int) bool {
	for _, c := range m.conns[p] {
		if !c.relayed {
			return true
		}
	}
	return false
}

// ends counts circuit ends held by p (a circuit from p to p holds two); circuits counts distinct circuits.
func (m *model) ends(p int) (ends, circuits int) {
	for _, c := range m.circs {
		if c.src == p {
			ends++
		}
		if c.dst == p {
			ends++
		}
		if c.src == p || c.dst == p {
			circuits++
		}
	}
	return
}

type statusSet map[pbv2.Status]string // status -> reason it is acceptable

func (s statusSet) String() string {
	var l []string
	for k, v := range s {
		l = append(l, fmt.Sprintf("%s(%s)", k, v))
	}
	sort.Strings(l)
	return fmt.Sprint(l)
}

// expectReserve returns the acceptable answers to a RESERVE by peer p over connection c at time now.
func (m *model) expectReserve(p int, c *mconn, now time.Time) statusSet {
	a := addrs[c.addr]
	deny := statusSet{}
	// "neither party reached the relay through another relay"
	if c.relayed {
		deny[pbv2.Status_PERMISSION_DENIED] = "relayed-conn"
	}
	// "the ACL permits it"
	if m.cfg.ACL != nil && m.cfg.ACL.DenyReserve[fmt.Sprintf("%d/%d", p, c.addr)] {
		deny[pbv2.Status_PERMISSION_DENIED] = "acl"
	}
	// "granted only within the total, per-IP and per-ASN caps": OTHER peers' reservations count, a
	// refresh replaces the peer's own
	var totMin, totMax, ipMin, ipMax, asnMin, asnMax int
	for q, r := range m.res {
		if q == p {
			continue
		}
		live := r.expiry.After(now)
		add := func(min, max *int) {
			*max++
			if live {
				*min++
			}
		}
		add(&totMin, &totMax)
		if r.ip == a.ip {
			add(&ipMin, &ipMax)
		}
		if a.asn != 0 && r.asn == a.asn {
			add(&asnMin, &asnMax)
		}
	}
	over := func(min, max, cap int, why string, mustp, mayp *string) {
		if min >= cap {
			*mustp = why
		} else if max >= cap {
			*mayp = why
		}
	}
	var must, may string
	over(totMin, totMax, m.cfg.MaxRes, "cap-total", &must, &may)
	over(ipMin, ipMax, m.cfg.MaxIP, "cap-ip", &must, &may)
	if a.asn != 0 {
		over(asnMin, asnMax, m.cfg.MaxASN, "cap-asn", &must, &may)
	}
	if must != "" {
		deny[pbv2.Status_RESERVATION_REFUSED] = must
	}
	if len(deny) > 0 {
		if may != "" && deny[pbv2.Status_RESERVATION_REFUSED] == "" {
			deny[pbv2.Status_RESERVATION_REFUSED] = may + "?"
		}
		return deny
	}
	ok := statusSet{pbv2.Status_OK: "admissible"}
	if may != "" {
		ok[pbv2.Status_RESERVATION_REFUSED] = may + "?"
	}
	return ok
}

func (m *model) applyReserve(p int, c *mconn, now time.Time) *mres {
	a := addrs[c.addr]
	r := &mres{addr: c.addr, ip: a.ip, asn: a.asn, expiry: now.Add(m.cfg.TTL)}
	m.res[p] = r
	return r
}

// expectConnect returns the acceptable answers to a well-formed CONNECT src->dst over connection c,
// given what the stop side will do (stopFails: the destination does not complete the stop handshake).
func (m *model) expectConnect(src int, c *mconn, dst int, now time.Time, stopFails bool) statusSet {
	deny, may := statusSet{}, statusSet{}
	if c.relayed {
		deny[pbv2.Status_PERMISSION_DENIED] = "relayed-src"
	}
	if m.cfg.ACL != nil && m.cfg.ACL.DenyConnect[fmt.Sprintf("%d/%d/%d", src, c.addr, dst)] {
		deny[pbv2.Status_PERMISSION_DENIED] = "acl"
	}
	// "only if the destination holds a reservation on this relay"
	switch m.resState(dst, now) {
	case resNone:
		deny[pbv2.Status_NO_RESERVATION] = "no-reservation"
	case resMay:
		may[pbv2.Status_NO_RESERVATION] = "reservation-expired-uncollected?"
	}
	// "neither party already has the maximum number of circuits"
	for _, q := range []int{src, dst} {
		e, n := m.ends(q)
		who := "src"
		if q == dst {
			who = "dst"
		}
		if n >= m.cfg.MaxCirc {
			deny[pbv2.Status_RESOURCE_LIMIT_EXCEEDED] = "max-circuits-" + who
		} else if e >= m.cfg.MaxCirc {
			may[pbv2.Status_RESOURCE_LIMIT_EXCEEDED] = "max-circuits-" + who + "(ends)?"
		}
	}
	// the destination must be reachable over a connection of its own and complete the stop handshake
	if dst >= 0 && !m.hasDirect(dst) {
		if len(deny) == 0 {
			deny[pbv2.Status_CONNECTION_FAILED] = "dst-not-connected"
		}
	} else if stopFails {
		deny[pbv2.Status_CONNECTION_FAILED] = "stop-handshake"
	}
	if len(deny) > 0 {
		for k, v := range may {
			if _, dup := deny[k]; !dup {
				deny[k] = v
			}
		}
		return deny
	}
	may[pbv2.Status_OK] = "admissible"
	return may
}

func (m *model) addConn(p, addr int, fc *fconn) *mconn {
	m.nconn++
	c := &mconn{ord: m.nconn, peer: p, addr: addr, relayed: addrs[addr].relayed, fc: fc}
	m.conns[p] = append(m.conns[p], c)
	return c
}

// disconnect: the connection goes, circuits carried by it end, and "reservations ... disappear when
// that peer disconnects" (no connection of its own left: relayed ones do not count).
func (m *model) disconnect(c *mconn) (ended []*mcirc, lostReservation bool) {
	l := m.conns[c.peer]
	for i, x := range l {
		if x == c {
			l = append(l[:i:i], l[i+1:]...)
			break
		}
	}
	m.conns[c.peer] = l
	keep := m.circs[:0:0]
	for _, ci := range m.circs {
		if ci.srcConn == c || ci.dstConn == c {
			ended = append(ended, ci)
		} else {
			keep = append(keep, ci)
		}
	}
	m.circs = keep
	if !m.hasDirect(c.peer) {
		if _, ok := m.res[c.peer]; ok {
			delete(m.res, c.peer)
			lostReservation = true
		}
	}
	return
}

func (m *model) removeCirc(c *mcirc) {
	for i, x := range m.circs {
		if x == c {
			m.circs = append(m.circs[:i:i], m.circs[i+1:]...)
			return
		}
	}
}
