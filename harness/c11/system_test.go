package c11

// Real three-host run OUTSIDE bubbles: relay R (real swarm over loopback TCP, real resource manager,
// real BasicConnMgr, the real relay.Relay), client A reserving with client.Reserve, client B dialling A
// through R. It validates, end to end, the environment assumptions of the fake host (tags forgotten
// with the last connection, stop streams over direct connections) and re-checks the byte limit, the
// voucher, NO_RESERVATION and the conservation audit on real components. Wall-clock is used only for
// polling with a watchdog; a watchdog that fires makes the run inconclusive, never a violation.

import (
	"context"
	"crypto/rand"
	"fmt"
	"io"
	"sync/atomic"
	"testing"
	"time"

	"github.com/libp2p/go-libp2p/core/crypto"
	"github.com/libp2p/go-libp2p/core/host"
	"github.com/libp2p/go-libp2p/core/network"
	"github.com/libp2p/go-libp2p/core/peer"
	"github.com/libp2p/go-libp2p/core/sec"
	"github.com/libp2p/go-libp2p/core/transport"
	bhost "github.com/libp2p/go-libp2p/p2p/host/blank"
	"github.com/libp2p/go-libp2p/p2p/host/eventbus"
	"github.com/libp2p/go-libp2p/p2p/host/peerstore/pstoremem"
	rcmgr "github.com/libp2p/go-libp2p/p2p/host/resource-manager"
	"github.com/libp2p/go-libp2p/p2p/muxer/yamux"
	"github.com/libp2p/go-libp2p/p2p/net/connmgr"
	"github.com/libp2p/go-libp2p/p2p/net/swarm"
	tptu "github.com/libp2p/go-libp2p/p2p/net/upgrader"
	"github.com/libp2p/go-libp2p/p2p/protocol/circuitv2/client"
	"github.com/libp2p/go-libp2p/p2p/protocol/circuitv2/relay"
	"github.com/libp2p/go-libp2p/p2p/security/insecure"
	"github.com/libp2p/go-libp2p/p2p/transport/tcp"
	ma "github.com/multiformats/go-multiaddr"

	"verif/harness/rig/run"
)

type realHost struct {
	host.Host
	up transport.Upgrader
	rm network.ResourceManager
	cm *connmgr.BasicConnMgr
}

func newRealHost(withManagers bool) (*realHost, error) {
	priv, pub, err := crypto.GenerateEd25519Key(rand.Reader)
	if err != nil {
		return nil, err
	}
	id, _ := peer.IDFromPublicKey(pub)
	ps, err := pstoremem.NewPeerstore()
	if err != nil {
		return nil, err
	}
	ps.AddPrivKey(id, priv)
	ps.AddPubKey(id, pub)
	rh := &realHost{}
	var sopts []swarm.Option
	var hopts []bhost.Option
	if withManagers {
		rh.rm, err = rcmgr.NewResourceManager(rcmgr.NewFixedLimiter(limitsWith(rcmgr.ResourceLimits{}, rcmgr.ResourceLimits{})), rcmgr.WithMetricsDisabled())
		if err != nil {
			return nil, err
		}
		rh.cm, err = connmgr.NewConnManager(100, 200, connmgr.WithGracePeriod(0))
		if err != nil {
			return nil, err
		}
		sopts = append(sopts, swarm.WithResourceManager(rh.rm))
		hopts = append(hopts, bhost.WithConnectionManager(rh.cm))
	}
	bus := eventbus.NewBus()
	netw, err := swarm.NewSwarm(id, ps, bus, sopts...)
	if err != nil {
		return nil, err
	}
	rh.up, err = tptu.New([]sec.SecureTransport{insecure.NewWithIdentity(insecure.ID, id, priv)},
		[]tptu.StreamMuxer{{ID: yamux.ID, Muxer: yamux.DefaultTransport}}, nil, rh.rm, nil)
	if err != nil {
		return nil, err
	}
	tpt, err := tcp.NewTCPTransport(rh.up, rh.rm, nil)
	if err != nil {
		return nil, err
	}
	if err := netw.AddTransport(tpt); err != nil {
		return nil, err
	}
	if err := netw.Listen(ma.StringCast("/ip4/127.0.0.1/tcp/0")); err != nil {
		return nil, err
	}
	rh.Host = bhost.NewBlankHost(netw, append(hopts, bhost.WithEventBus(bus))...)
	return rh, nil
}

func (h *realHost) shutdown() {
	h.Host.Close()
	if h.rm != nil {
		h.rm.Close()
	}
	if h.cm != nil {
		h.cm.Close()
	}
}

// eventually polls cond (real time, watchdog only).
func eventually(d time.Duration, cond func() bool) bool {
	deadline := time.Now().Add(d)
	for !cond() {
		if time.Now().After(deadline) {
			return false
		}
		time.Sleep(5 * time.Millisecond)
	}
	return true
}

const sysProto = "/c11/sink"

func runSystemCase(limit int64, payload int64) (problems []problem, inconclusive string, classes map[string]int) {
	classes = map[string]int{}
	bad := func(sig, f string, a ...any) { problems = append(problems, problem{sig, fmt.Sprintf(f, a...)}) }
	ctx, cancel := context.WithTimeout(context.Background(), 2*time.Minute)
	defer cancel()
	R, err := newRealHost(true)
	if err != nil {
		return nil, "setup: " + err.Error(), classes
	}
	defer R.shutdown()
	A, err := newRealHost(false)
	if err != nil {
		return nil, "setup: " + err.Error(), classes
	}
	defer A.shutdown()
	B, err := newRealHost(false)
	if err != nil {
		return nil, "setup: " + err.Error(), classes
	}
	defer B.shutdown()
	for _, h := range []*realHost{A, B} {
		if err := client.AddTransport(h.Host, h.up); err != nil {
			return nil, "setup: " + err.Error(), classes
		}
	}
	rc := relay.DefaultResources()
	rc.Limit = &relay.RelayLimit{Duration: time.Minute, Data: limit}
	rel, err := relay.New(R.Host, relay.WithResources(rc))
	if err != nil {
		return nil, "setup: " + err.Error(), classes
	}
	defer rel.Close()
	rinfo := peer.AddrInfo{ID: R.ID(), Addrs: R.Addrs()}
	if err := A.Connect(ctx, rinfo); err != nil {
		return nil, "A->R connect: " + err.Error(), classes
	}
	if err := B.Connect(ctx, rinfo); err != nil {
		return nil, "B->R connect: " + err.Error(), classes
	}

	serviceStat := func() (st network.ScopeStat) {
		R.rm.ViewService(relay.ServiceName, func(s network.ServiceScope) error { st = s.Stat(); return nil })
		return
	}
	tag := func(p peer.ID, t string) (int, bool) {
		ti := R.cm.GetTagInfo(p)
		if ti == nil {
			return 0, false
		}
		v, ok := ti.Tags[t]
		return v, ok
	}

	// no reservation yet: a circuit to A must be refused
	caddr := func(dst peer.ID) peer.AddrInfo {
		return peer.AddrInfo{ID: dst, Addrs: []ma.Multiaddr{ma.StringCast(fmt.Sprintf("/p2p/%s/p2p-circuit/p2p/%s", R.ID(), dst))}}
	}
	if err := B.Connect(ctx, caddr(A.ID())); err == nil {
		bad("system:connected-without-reservation", "B reached A through the relay although A holds no reservation")
	} else {
		classes["sys_no_reservation_refused"]++
	}
	B.Network().ClosePeer(A.ID())
	if sw, ok := B.Network().(*swarm.Swarm); ok {
		sw.Backoff().Clear(A.ID()) // the refused dial put the circuit address into dial backoff
	}

	// "carry a voucher signed by the relay for exactly the reserving peer" (client.Reserve verifies; re-check the fields)
	rsvp, err := client.Reserve(ctx, A.Host, rinfo)
	if err != nil {
		return problems, "reserve: " + err.Error(), classes
	}
	if rsvp.Voucher == nil || rsvp.Voucher.Relay != R.ID() || rsvp.Voucher.Peer != A.ID() {
		bad("voucher:fields", "voucher %+v for relay %s peer %s", rsvp.Voucher, R.ID(), A.ID())
	}
	st := rel.VerifState()
	if _, ok := st.Rsvp[A.ID()]; !ok || len(st.Total) != 1 {
		bad("audit:reservation-missing", "after client.Reserve: rsvp=%v total=%v", st.Rsvp, st.Total)
	}
	if v, ok := tag(A.ID(), tagRsvp); !ok || v != relay.ReservationTagWeight {
		bad("audit:tag-reservation-missing", "real BasicConnMgr: tag %q on A = %d,%v", tagRsvp, v, ok)
	}
	// (the client has its answer before the relay's handler has returned: poll)
	if !eventually(10*time.Second, func() bool { return serviceStat() == network.ScopeStat{} }) {
		bad("audit:service-memory", "relay service scope after RESERVE: %+v", serviceStat())
	}

	// data through the circuit: application payload is part of the raw bytes the limit applies to
	var received atomic.Int64
	done := make(chan struct{})
	A.SetStreamHandler(sysProto, func(s network.Stream) {
		defer close(done)
		n, _ := io.Copy(io.Discard, s)
		received.Store(n)
		s.Reset()
	})
	if err := B.Connect(ctx, caddr(A.ID())); err != nil {
		return problems, "B->A via relay: " + err.Error(), classes
	}
	classes["sys_circuit_established"]++
	if v, ok := tag(A.ID(), tagHop); !ok || v != tagHopValue {
		bad("audit:tag-hop-missing", "open circuit but tag %q on A = %d,%v", tagHop, v, ok)
	}
	oneCircuit := network.ScopeStat{Memory: int64(2 * rc.BufferSize), NumStreamsInbound: 1, NumStreamsOutbound: 1}
	if !eventually(10*time.Second, func() bool { return serviceStat() == oneCircuit }) {
		bad("audit:service-memory", "one open circuit, relay service scope %+v, expected %+v", serviceStat(), oneCircuit)
	}
	if c := rel.VerifState().Conns; c[A.ID()] != 1 || c[B.ID()] != 1 {
		bad("audit:circuit-counter", "one open circuit, counters %v", c)
	}
	s, err := B.NewStream(network.WithAllowLimitedConn(ctx, "c11"), A.ID(), sysProto)
	if err != nil {
		return problems, "stream over circuit: " + err.Error(), classes
	}
	buf := make([]byte, 4096)
	var sent int64
	for sent < payload {
		n, err := s.Write(buf[:min(int64(len(buf)), payload-sent)])
		sent += int64(n)
		if err != nil {
			break
		}
	}
	s.CloseWrite()
	select {
	case <-done:
	case <-time.After(time.Minute):
		return problems, "receiver did not finish within a minute", classes
	}
	s.Reset()
	if got := received.Load(); got > limit {
		bad("data:limit-exceeded-src-to-dst", "A received %d payload bytes through a circuit limited to %d raw bytes (B sent %d)", got, limit, sent)
	} else if payload > limit {
		classes["sys_payload_cut_by_limit"]++
	}
	B.Network().ClosePeer(A.ID())
	for _, c := range A.Network().ConnsToPeer(B.ID()) {
		c.Close()
	}
	// "However a ... circuit attempt ends, the relay's circuit counters, connection-manager tags and reserved memory return"
	if !eventually(30*time.Second, func() bool { return len(rel.VerifState().Conns) == 0 }) {
		return problems, "circuit counters did not drain within 30 s of closing both relayed connections", classes
	}
	if !eventually(10*time.Second, func() bool { return serviceStat() == network.ScopeStat{} }) {
		bad("audit:service-memory", "no circuit left, relay service scope %+v", serviceStat())
	}
	for _, p := range []peer.ID{A.ID(), B.ID()} {
		if _, ok := tag(p, tagHop); ok {
			bad("audit:tag-hop-stale", "no circuit left but %q still on a peer", tagHop)
		}
	}
	// "disappear when that peer disconnects"
	A.Network().ClosePeer(R.ID())
	if !eventually(30*time.Second, func() bool {
		st := rel.VerifState()
		_, has := st.Rsvp[A.ID()]
		return !has && len(st.Total) == 0 && len(st.IPs) == 0
	}) {
		if len(R.Network().ConnsToPeer(A.ID())) > 0 {
			return problems, "R did not notice A's disconnect within 30 s", classes
		}
		st := rel.VerifState()
		bad("audit:reservation-stale", "A disconnected, relay still has rsvp=%v total=%v ips=%v", st.Rsvp, st.Total, st.IPs)
	}
	if !eventually(10*time.Second, func() bool { _, ok := tag(A.ID(), tagRsvp); return !ok }) {
		bad("audit:tag-reservation-stale", "A disconnected, tag %q still present", tagRsvp)
	}
	classes["sys_runs_completed"]++
	return
}

func systemRuns(t *testing.T, r *run.R) {
	type sc struct{ limit, payload int64 }
	cases := []sc{{4096, 3 * 4096}, {1 << 17, 3 << 17}}
	if !r.Quick() {
		cases = append(cases, sc{2048, 100}, sc{2048, 4096}, sc{8192, 8192}, sc{1 << 15, 1 << 17}, sc{1 << 17, 1 << 16}, sc{1 << 17, 1<<17 + 1},
			sc{1 << 16, 3 << 16}, sc{4096, 1 << 20}, sc{1 << 18, 3 << 18}, sc{1 << 14, 1 << 14})
	}
	for _, c := range cases {
		caseID := fmt.Sprintf("system/L%d/payload%d", c.limit, c.payload)
		if !r.Want(caseID) || r.TooMany() {
			continue
		}
		problems, inc, classes := runSystemCase(c.limit, c.payload)
		for _, p := range problems[:min(len(problems), 1)] {
			r.Violation(p.Sig+"/system", caseID, p.Msg, map[string]any{"limit": c.limit, "payload": c.payload, "all_problems": problems})
		}
		if inc != "" {
			r.Inconclusive(caseID, inc)
			continue
		}
		r.Eval(1)
		for k, v := range classes {
			r.Count(k, v)
		}
		if classes["sys_payload_cut_by_limit"] > 0 {
			r.Nontrivial(caseID)
		}
	}
	r.Require("sys_runs_completed", 1)
}
