package c11

// In-memory stream pipe for use inside testing/synctest bubbles: blocking is sync.Cond based (durably
// blocked for the bubble), buffers are small and bounded (back-pressure, "slow reader"), deadlines are
// virtual-time timers, half-close / read-close / reset have the semantics of a multiplexed stream.

import (
	"errors"
	"fmt"
	"io"
	"os"
	"sync"
	"time"

	"github.com/libp2p/go-libp2p/core/network"
	"github.com/libp2p/go-libp2p/core/protocol"
)

var (
	errClosedRead  = errors.New("c11 pipe: read on a stream closed for reading")
	errClosedWrite = errors.New("c11 pipe: write on a stream closed for writing")
	errInjected    = errors.New("c11: injected fault")
)

// half is one direction of a pipe.
type half struct {
	buf     []byte
	max     int
	wclosed bool      // the writer closed its write side: reader drains, then EOF
	rclosed bool      // the reader closed its read side: further writes are dropped by the "muxer"
	total   int64     // bytes accepted from the writer so far
	lastAt  time.Time // (virtual) time of the last accepted write
	writes  int
}

type pipe struct {
	mu    sync.Mutex
	cond  *sync.Cond
	h     [2]half // h[i] is written by end i and read by end 1-i
	reset bool
	e     [2]*end
}

// end is one endpoint of a pipe. Index 0 is the relay's side, 1 the remote peer's side.
type end struct {
	p        *pipe
	i        int
	rdl, wdl time.Time
	rt, wt   *time.Timer
}

func newPipe(bufmax int) *pipe {
	p := &pipe{}
	p.cond = sync.NewCond(&p.mu)
	p.h[0].max, p.h[1].max = bufmax, bufmax
	p.e[0] = &end{p: p, i: 0}
	p.e[1] = &end{p: p, i: 1}
	return p
}

func expired(dl time.Time) bool { return !dl.IsZero() && !time.Now().Before(dl) }

func (e *end) Read(b []byte) (int, error) {
	p := e.p
	p.mu.Lock()
	defer p.mu.Unlock()
	h := &p.h[1-e.i]
	for {
		switch {
		case p.reset:
			return 0, network.ErrReset
		case h.rclosed:
			return 0, errClosedRead
		case expired(e.rdl): // net.Conn semantics: a passed deadline fails the operation
			return 0, os.ErrDeadlineExceeded
		case len(h.buf) > 0:
			n := copy(b, h.buf)
			h.buf = append(h.buf[:0], h.buf[n:]...)
			p.cond.Broadcast()
			return n, nil
		case h.wclosed:
			return 0, io.EOF
		case len(b) == 0:
			return 0, nil
		}
		p.cond.Wait()
	}
}

func (e *end) Write(b []byte) (int, error) {
	p := e.p
	p.mu.Lock()
	defer p.mu.Unlock()
	h := &p.h[e.i]
	n := 0
	for {
		switch {
		case p.reset:
			return n, network.ErrReset
		case h.wclosed:
			return n, errClosedWrite
		case expired(e.wdl):
			return n, os.ErrDeadlineExceeded
		}
		if h.rclosed { // remote stopped reading: accepted and dropped
			h.total += int64(len(b) - n)
			h.lastAt = time.Now()
			h.writes++
			return len(b), nil
		}
		if space := h.max - len(h.buf); space > 0 {
			k := min(space, len(b)-n)
			h.buf = append(h.buf, b[n:n+k]...)
			n += k
			h.total += int64(k)
			h.lastAt = time.Now()
			h.writes++
			p.cond.Broadcast()
			if n == len(b) {
				return n, nil
			}
			continue
		}
		p.cond.Wait()
	}
}

func (e *end) CloseWrite() error {
	p := e.p
	p.mu.Lock()
	p.h[e.i].wclosed = true
	p.cond.Broadcast()
	p.mu.Unlock()
	return nil
}

func (e *end) CloseRead() error {
	p := e.p
	p.mu.Lock()
	p.h[1-e.i].rclosed = true
	p.h[1-e.i].buf = nil
	p.cond.Broadcast()
	p.mu.Unlock()
	return nil
}

// closeBoth is Close(): no more writes from this side, nothing more is read.
func (e *end) closeBoth() {
	p := e.p
	p.mu.Lock()
	p.h[e.i].wclosed = true
	p.h[1-e.i].rclosed = true
	p.h[1-e.i].buf = nil
	e.stopTimersLocked()
	p.cond.Broadcast()
	p.mu.Unlock()
}

func (e *end) resetPipe() {
	p := e.p
	p.mu.Lock()
	p.reset = true
	p.h[0].buf, p.h[1].buf = nil, nil
	p.e[0].stopTimersLocked()
	p.e[1].stopTimersLocked()
	p.cond.Broadcast()
	p.mu.Unlock()
}

func (e *end) isReset() bool {
	e.p.mu.Lock()
	defer e.p.mu.Unlock()
	return e.p.reset
}

func (e *end) stopTimersLocked() {
	if e.rt != nil {
		e.rt.Stop()
		e.rt = nil
	}
	if e.wt != nil {
		e.wt.Stop()
		e.wt = nil
	}
}

func (e *end) arm(t time.Time) *time.Timer {
	if t.IsZero() {
		return nil
	}
	d := time.Until(t)
	if d <= 0 {
		e.p.cond.Broadcast()
		return nil
	}
	p := e.p
	return time.AfterFunc(d, func() {
		p.mu.Lock()
		p.cond.Broadcast()
		p.mu.Unlock()
	})
}

func (e *end) SetReadDeadline(t time.Time) error {
	e.p.mu.Lock()
	defer e.p.mu.Unlock()
	if e.rt != nil {
		e.rt.Stop()
	}
	e.rdl = t
	e.rt = e.arm(t)
	return nil
}

func (e *end) SetWriteDeadline(t time.Time) error {
	e.p.mu.Lock()
	defer e.p.mu.Unlock()
	if e.wt != nil {
		e.wt.Stop()
	}
	e.wdl = t
	e.wt = e.arm(t)
	return nil
}

func (e *end) SetDeadline(t time.Time) error {
	e.SetReadDeadline(t)
	e.SetWriteDeadline(t)
	return nil
}

// sent returns (bytes accepted from this end's writer, time of the last accepted write).
func (e *end) sent() (int64, time.Time) {
	e.p.mu.Lock()
	defer e.p.mu.Unlock()
	return e.p.h[e.i].total, e.p.h[e.i].lastAt
}

// ---------------------------------------------------------------------------------------------
// fault plan: the k-th faultable operation the relay performs (on its streams, their scopes, the
// host's NewStream and the relay's own resource span) fails.

type faultPlan struct {
	mu    sync.Mutex
	armed bool
	n     int
	at    int    // index of the operation that fails, -1: none
	mode  string // "err": the operation fails (streams: reset by the remote); "eof": reads see EOF
	trace []string
	fired string
}

func (f *faultPlan) step(kind string) bool {
	if f == nil {
		return false
	}
	f.mu.Lock()
	defer f.mu.Unlock()
	if !f.armed {
		return false
	}
	k := f.n
	f.n++
	if len(f.trace) < 4096 {
		f.trace = append(f.trace, kind)
	}
	if k == f.at {
		f.fired = kind
		return true
	}
	return false
}

func (f *faultPlan) arm(on bool) {
	if f == nil {
		return
	}
	f.mu.Lock()
	f.armed = on
	f.mu.Unlock()
}

// ---------------------------------------------------------------------------------------------
// fstream is the relay's side of a pipe as a network.Stream.

type fstream struct {
	*end
	role  string // "hop" (inbound from a source / reserving peer) or "stop" (outbound to a destination)
	id    string
	conn  *fconn
	scope *fscope
	proto protocol.ID
	dir   network.Direction
	plan  *faultPlan

	cmu      sync.Mutex
	released bool
	how      string // "close" or "reset": how the relay let go of the stream
}

var _ network.Stream = (*fstream)(nil)

func (s *fstream) Read(b []byte) (int, error) {
	if s.plan.step(s.role + ".Read") {
		if s.plan.mode == "eof" {
			// the remote closed its write side and whatever it had sent is lost
			s.p.mu.Lock()
			s.p.h[1].wclosed = true
			s.p.h[1].buf = nil
			s.p.mu.Unlock()
			return 0, io.EOF
		}
		s.end.resetPipe()
		return 0, network.ErrReset
	}
	return s.end.Read(b)
}

func (s *fstream) Write(b []byte) (int, error) {
	if s.plan.step(s.role + ".Write") {
		s.end.resetPipe()
		return 0, network.ErrReset
	}
	return s.end.Write(b)
}

func (s *fstream) release(how string) {
	s.cmu.Lock()
	first := !s.released
	if first {
		s.released = true
		s.how = how
	}
	s.cmu.Unlock()
	if first {
		if s.scope != nil {
			s.scope.real.Done() // what swarm.Stream does on Close/Reset
		}
		if s.conn != nil {
			s.conn.removeStream(s)
		}
	}
}

func (s *fstream) isReleased() bool {
	s.cmu.Lock()
	defer s.cmu.Unlock()
	return s.released
}

func (s *fstream) Close() error {
	s.end.closeBoth()
	s.release("close")
	return nil
}

func (s *fstream) Reset() error {
	s.end.resetPipe()
	s.release("reset")
	return nil
}

func (s *fstream) ResetWithError(network.StreamErrorCode) error { return s.Reset() }

func (s *fstream) ID() string                       { return s.id }
func (s *fstream) Protocol() protocol.ID            { return s.proto }
func (s *fstream) SetProtocol(id protocol.ID) error { s.proto = id; return nil }
func (s *fstream) Stat() network.Stats              { return network.Stats{Direction: s.dir} }
func (s *fstream) Conn() network.Conn               { return s.conn }
func (s *fstream) Scope() network.StreamScope       { return s.scope }
func (s *fstream) String() string                   { return fmt.Sprintf("%s-stream %s", s.role, s.id) }

// fscope wraps the REAL stream scope of the real resource manager; only failures are injected.
type fscope struct {
	real network.StreamManagementScope
	s    *fstream
}

var errInjectedLimit = fmt.Errorf("c11 injected: %w", network.ErrResourceLimitExceeded)

func (f *fscope) ReserveMemory(size int, prio uint8) error {
	if f.s.plan.step(f.s.role + ".ReserveMemory") {
		return errInjectedLimit
	}
	return f.real.ReserveMemory(size, prio)
}
func (f *fscope) ReleaseMemory(size int)                        { f.real.ReleaseMemory(size) }
func (f *fscope) Stat() network.ScopeStat                       { return f.real.Stat() }
func (f *fscope) BeginSpan() (network.ResourceScopeSpan, error) { return f.real.BeginSpan() }
func (f *fscope) SetService(srv string) error {
	if f.s.plan.step(f.s.role + ".SetService") {
		return errInjectedLimit
	}
	return f.real.SetService(srv)
}
