package c11

// Concurrency: 8–32 simultaneous RESERVE/CONNECT requests on the same few peers inside one bubble
// (goroutines of a bubble run in parallel), judged by relations that hold for every interleaving,
// then the conservation audit; then all circuits are torn down concurrently and all peers disconnect
// concurrently, and everything must be back at zero. With VERIF_RACE=1 this is the race-detector load.

import (
	"fmt"
	"math/rand/v2"
	"sync"
	"testing"
	"testing/synctest"
	"time"

	rcmgr "github.com/libp2p/go-libp2p/p2p/host/resource-manager"
	pbv2 "github.com/libp2p/go-libp2p/p2p/protocol/circuitv2/pb"

	"verif/harness/rig/run"
)

type concOp struct {
	Kind   string `json:"k"` // reserve | connect
	P      int    `json:"p"`
	D      int    `json:"d,omitempty"`
	Status string `json:"status"`
	res    reserveOutcome
	con    *connOutcome
}

type concCase struct {
	Cfg    relayCfg    `json:"config"`
	Addr   [nPeers]int `json:"peer_addr"`
	PreRes []int       `json:"reserved_before"`
	Ops    []*concOp   `json:"ops"`
}

func runConcCase(t *testing.T, rng *rand.Rand, G int) (res *histResult, cc *concCase) {
	res = &histResult{classes: map[string]int{}, soft: map[string]int{}}
	capv := func() int { return 1 + rng.IntN(3) }
	cfg := baseCfg()
	cfg.MaxRes, cfg.MaxIP, cfg.MaxASN, cfg.MaxCirc = capv()+rng.IntN(3), capv(), capv(), capv()
	cfg.Buf, cfg.LimitDur, cfg.LimitData = 256, 10*time.Minute, 1000
	cfg.Limited = rng.IntN(4) != 0
	cc = &concCase{Cfg: cfg}
	for i := range cc.Addr {
		cc.Addr[i] = rng.IntN(nDirectAddrs)
	}
	for i := 0; i < nPeers; i++ {
		if rng.IntN(3) == 0 {
			cc.PreRes = append(cc.PreRes, i)
		}
	}
	for g := 0; g < G; g++ {
		op := &concOp{Kind: "reserve", P: rng.IntN(nPeers)}
		if rng.IntN(2) == 0 {
			op.Kind = "connect"
			op.D = (op.P + 1 + rng.IntN(nPeers-1)) % nPeers
		}
		cc.Ops = append(cc.Ops, op)
	}
	res.bubble = run.Bubble(t, func(t *testing.T) {
		w, err := newWorld(cfg, limitsWith(rcmgr.ResourceLimits{}, rcmgr.ResourceLimits{}), nil)
		if err != nil {
			res.problems = append(res.problems, problem{"harness:setup", err.Error()})
			return
		}
		defer res.collect(w)
		m := w.m
		var conn [nPeers]*mconn
		for i := range conn {
			conn[i] = w.addConn(i, cc.Addr[i])
			if rng.IntN(4) == 0 {
				w.addConn(i, nDirectAddrs+rng.IntN(len(addrs)-nDirectAddrs)) // an additional relayed connection
			}
		}
		// phase 0 (sequential, strict): some reservations exist before the storm
		R0 := map[int]bool{}
		for _, p := range cc.PreRes {
			if w.reserve(conn[p]) == "ok-new" {
				R0[p] = true
			}
		}
		w.audit()
		if w.failed() {
			return
		}

		// phase 1: all requests at once
		w.concurrent = true
		w.lastOp = "concurrent-requests"
		start := make(chan struct{})
		var wg sync.WaitGroup
		for _, op := range cc.Ops {
			wg.Add(1)
			go func(op *concOp) {
				defer wg.Done()
				<-start
				if op.Kind == "reserve" {
					op.res = w.doReserve(conn[op.P])
					op.Status = op.res.String()
				} else {
					op.con = w.doConnect(conn[op.P], peers[op.D].id, "normal", stopScript{Kind: "ok"})
					op.Status = op.con.String()
				}
			}(op)
		}
		now := time.Now()
		close(start)
		wg.Wait()
		synctest.Wait()
		w.concurrent = false

		// judgement. Reservations only appear during the round (nothing expires, nobody disconnects), so
		// the final set F must itself satisfy every cap, and a refusal is unjustified only if even F
		// plus the requester would have fitted.
		F := map[int]bool{}
		for p := range R0 {
			F[p] = true
		}
		held := w.relay.VerifState().Rsvp
		for _, op := range cc.Ops {
			if op.Kind == "reserve" && op.res.Got && op.res.Status == pbv2.Status_OK {
				F[op.P] = true
			}
			if _, has := held[peers[op.P].id]; op.Kind == "reserve" && !op.res.Got && has {
				F[op.P] = true // granted, answer lost: the model follows the relay, the caps on F stay hard
			}
		}
		count := func(set map[int]bool, extra int) (tot int, ip map[string]int, asn map[uint32]int) {
			ip, asn = map[string]int{}, map[uint32]int{}
			for p := 0; p < nPeers; p++ {
				if set[p] || p == extra {
					a := addrs[cc.Addr[p]]
					tot++
					ip[a.ip]++
					if a.asn != 0 {
						asn[a.asn]++
					}
				}
			}
			return
		}
		tot, ipc, asnc := count(F, -1)
		if tot > cfg.MaxRes {
			w.bad("reserve:granted-cap-total", "%d reservations in force after concurrent RESERVEs, MaxReservations = %d", tot, cfg.MaxRes)
		}
		for k, n := range ipc {
			if n > cfg.MaxIP {
				w.bad("reserve:granted-cap-ip", "%d reservations from %s in force after concurrent RESERVEs, MaxReservationsPerIP = %d", n, k, cfg.MaxIP)
			}
		}
		for k, n := range asnc {
			if n > cfg.MaxASN {
				w.bad("reserve:granted-cap-asn", "%d reservations from AS%d in force after concurrent RESERVEs, MaxReservationsPerASN = %d", n, k, cfg.MaxASN)
			}
		}
		for _, op := range cc.Ops {
			if op.Kind != "reserve" {
				continue
			}
			switch {
			case !op.res.Got:
				w.soft("refusal_status_unexpected/reserve/no-response", "p%d got no answer to a concurrent RESERVE: %s", op.P, op.res.Err)
			case op.res.Status == pbv2.Status_OK:
				res.classes["conc_reserve_ok"]++
				w.checkVoucher(op.res.resp, peers[op.P].id, now.Add(cfg.TTL))
			case op.res.Status == pbv2.Status_RESERVATION_REFUSED:
				res.classes["conc_reserve_refused"]++
				t2, i2, a2 := count(F, op.P)
				a := addrs[cc.Addr[op.P]]
				if t2 <= cfg.MaxRes && i2[a.ip] <= cfg.MaxIP && (a.asn == 0 || a2[a.asn] <= cfg.MaxASN) {
					w.soft("refused_though_admissible/reserve", "p%d refused although even the final set of reservations plus p%d fits every cap", op.P, op.P)
				}
			default:
				w.soft("refusal_status_unexpected/reserve/"+op.res.Status.String(), "p%d answered %s to a direct, ACL-free RESERVE", op.P, op.res.Status)
			}
		}
		for p := range F {
			m.res[p] = &mres{addr: cc.Addr[p], ip: addrs[cc.Addr[p]].ip, asn: addrs[cc.Addr[p]].asn, expiry: now.Add(cfg.TTL)}
		}
		// circuits: every granted circuit is still open, so the final count per peer is the maximum reached
		w.mu.Lock()
		stops := append([]*stopSide(nil), w.stops...)
		w.mu.Unlock()
		used := map[*stopSide]bool{}
		for _, op := range cc.Ops {
			if op.Kind != "connect" {
				continue
			}
			o := op.con
			switch {
			case !o.Got:
				w.soft("refusal_status_unexpected/connect/no-response", "p%d got no answer to a concurrent CONNECT: %s", op.P, o.Err)
			case o.Status == pbv2.Status_OK:
				res.classes["conc_connect_ok"]++
				if !F[op.D] {
					w.bad("connect:granted-no-reservation", "CONNECT p%d->p%d answered OK, p%d never held a reservation", op.P, op.D, op.D)
				}
				var st *stopSide
				for _, s := range stops {
					if !used[s] && s.saidOK && s.dst == peers[op.D].id && s.reqPeer == peers[op.P].id {
						st = s
						break
					}
				}
				if st == nil {
					w.bad("connect:ok-without-stop-ok", "CONNECT p%d->p%d answered OK without a completed stop handshake of its own", op.P, op.D)
					o.pe.resetPipe()
					continue
				}
				used[st] = true
				m.ncirc++
				m.circs = append(m.circs, &mcirc{id: m.ncirc, src: op.P, dst: op.D, srcConn: conn[op.P], dstConn: conn[op.D], tOpen: o.tResp,
					srcEnd: o.pe, dstEnd: st.pe, hop: o.fs, stop: st.fs, hopHs: int64(o.respBytes), stopHs: int64(st.hsBytes)})
			case o.Status == pbv2.Status_NO_RESERVATION:
				res.classes["conc_connect_no_reservation"]++
				if R0[op.D] {
					w.soft("refused_though_admissible/connect", "CONNECT p%d->p%d answered NO_RESERVATION, p%d held a reservation throughout", op.P, op.D, op.D)
				}
				o.pe.closeBoth()
			case o.Status == pbv2.Status_RESOURCE_LIMIT_EXCEEDED:
				res.classes["conc_connect_limit"]++
				o.pe.closeBoth()
			default:
				w.soft("refusal_status_unexpected/connect/"+o.Status.String(), "CONNECT p%d->p%d answered %s", op.P, op.D, o.Status)
				o.pe.closeBoth()
			}
		}
		for p := 0; p < nPeers; p++ {
			if _, n := m.ends(p); n > cfg.MaxCirc {
				w.bad("connect:granted-max-circuits", "p%d takes part in %d open circuits after concurrent CONNECTs, MaxCircuits = %d", p, n, cfg.MaxCirc)
			}
		}
		for _, op := range cc.Ops {
			if op.Kind == "connect" && op.con.Got && op.con.Status == pbv2.Status_RESOURCE_LIMIT_EXCEEDED {
				_, ns := m.ends(op.P)
				_, nd := m.ends(op.D)
				if ns < cfg.MaxCirc && nd < cfg.MaxCirc {
					w.soft("refused_though_admissible/connect", "CONNECT p%d->p%d answered RESOURCE_LIMIT_EXCEEDED although neither party reached MaxCircuits = %d even at the end (%d, %d)", op.P, op.D, cfg.MaxCirc, ns, nd)
				}
			}
		}
		for _, s := range stops {
			if !used[s] {
				s.pe.resetPipe() // destinations of attempts that were not confirmed give up
			}
		}
		w.logf("CONCURRENT %d requests: reservations in force %v, open circuits %d", len(cc.Ops), F, len(m.circs))
		w.audit()
		if w.failed() {
			return
		}

		// phase 2: everything is torn down at once
		w.lastOp = "concurrent-teardown"
		circs := append([]*mcirc(nil), m.circs...)
		hows := make([]int, len(circs))
		for i := range hows {
			hows[i] = rng.IntN(4)
		}
		start2 := make(chan struct{})
		var readers sync.WaitGroup
		for i, ci := range circs {
			wg.Add(1)
			go func(ci *mcirc, how int) {
				defer wg.Done()
				<-start2
				switch how {
				case 0:
					ci.srcEnd.CloseWrite()
					ci.dstEnd.CloseWrite()
				case 1:
					ci.srcEnd.resetPipe()
				case 2:
					ci.dstEnd.resetPipe()
				case 3:
					pump(ci.srcEnd, 1, 1500, 100, 0) // runs into the data limit, then closes
					ci.dstEnd.CloseWrite()
				}
			}(ci, hows[i])
			readers.Add(1)
			go func(ci *mcirc) { defer readers.Done(); <-start2; drain(ci.dstEnd, 1, 256, 0) }(ci)
		}
		// half of the peers disconnect while circuits are being closed
		var gone []*mconn
		for p := 0; p < nPeers; p++ {
			if rng.IntN(2) == 0 {
				for _, c := range append([]*mconn(nil), m.conns[p]...) {
					gone = append(gone, c)
				}
			}
		}
		for _, c := range gone {
			wg.Add(1)
			go func(c *mconn) { defer wg.Done(); <-start2; w.net.closeConn(c.fc, w.cm) }(c)
		}
		close(start2)
		wg.Wait()
		// Circuits between the same two peers were paired with each other's stop streams arbitrarily
		// (the stop request does not say which hop stream it belongs to), so a "circuit" closed above may
		// have been two halves of different real circuits: finish every real circuit from both sides.
		for _, ci := range circs {
			ci.srcEnd.CloseWrite()
			ci.dstEnd.CloseWrite()
		}
		synctest.Wait()
		for _, ci := range circs {
			ci.srcEnd.resetPipe()
			ci.dstEnd.resetPipe()
		}
		readers.Wait()
		synctest.Wait()
		m.circs = nil
		for _, c := range gone {
			m.disconnect(c)
		}
		w.audit()
		res.classes["conc_rounds"]++
		res.classes["conc_requests"] += len(cc.Ops)
		res.classes["conc_circuits_torn_down"] += len(circs)
	})
	return
}

func concurrency(t *testing.T, r *run.R, q, th int) {
	n := r.Pick(q, th)
	var mu sync.Mutex
	run.Parallel(n, 0, func(i int) {
		caseID := fmt.Sprintf("conc/%d", i)
		if !r.Want(caseID) || r.TooMany() {
			return
		}
		rng := r.Rand(3, uint64(i))
		res, cc := runConcCase(t, rng, 8+rng.IntN(25))
		detail := map[string]any{"case": cc, "events": res.log}
		if !settle(r, caseID, res, detail) {
			return
		}
		mu.Lock()
		for k, v := range res.classes {
			r.Count(k, v)
		}
		mu.Unlock()
		if res.classes["conc_reserve_refused"]+res.classes["conc_connect_limit"] > 0 && res.classes["conc_connect_ok"] > 0 {
			r.Nontrivial(caseID)
		}
		if i == 0 {
			r.Sample(map[string]any{"case": caseID, "requests": cc.Ops, "events": res.log[max(0, len(res.log)-6):]})
		}
	})
}
