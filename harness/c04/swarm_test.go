package c04

import (
	"context"
	"fmt"
	"io"
	"os"
	"sort"
	"sync"
	"sync/atomic"
	"testing"
	"testing/synctest"
	"time"

	"github.com/libp2p/go-libp2p/core/connmgr"
	"github.com/libp2p/go-libp2p/core/network"
	"github.com/libp2p/go-libp2p/core/peer"
	"github.com/libp2p/go-libp2p/core/peerstore"
	ipnet "github.com/libp2p/go-libp2p/core/pnet"
	"github.com/libp2p/go-libp2p/core/protocol"
	bhost "github.com/libp2p/go-libp2p/p2p/host/basic"
	"github.com/libp2p/go-libp2p/p2p/host/eventbus"
	"github.com/libp2p/go-libp2p/p2p/host/peerstore/pstoremem"
	rcmgr "github.com/libp2p/go-libp2p/p2p/host/resource-manager"
	"github.com/libp2p/go-libp2p/p2p/net/swarm"
	"github.com/libp2p/go-libp2p/p2p/net/upgrader"
	ma "github.com/multiformats/go-multiaddr"

	"verif/harness/rig/memnet"
	"verif/harness/rig/memtpt"
	"verif/harness/rig/rcwrap"
	"verif/harness/rig/run"
	"verif/harness/rig/sectest"
)

// ---------------------------------------------------------------------------------------------
// B. the upgrader's listener: accept timeout, threshold back-pressure, Close draining the queue.

type lisCase struct {
	ID       string `json:"id"`
	Proto    string `json:"security"`
	Conns    int    `json:"conns"`
	Accept   int    `json:"accepted_by_application"`
	CloseAt  string `json:"listener_close"` // after-timeout | immediately | at-op
	K        int    `json:"k"`
	Wave2    int    `json:"second_wave_conns"` // arrive after the first wave has been upgraded: the accept loop parks on the threshold holding one of them
	GaterAcc bool   `json:"gater_rejects_accept"`
	RcmgrN   int    `json:"rcmgr_refuses_open_connection_n"` // -1: never
}

type lisResult struct {
	Upgraded, Accepted, DialFailed int
	RawOpen                        int
	ResidueL                       []string
	ResidueD                       []string
	OpenL                          map[string]int
	TimedOut                       int
	Hung                           bool
	CallsL, CallsD                 map[string]int
	DialOpenErr                    string
	Bubble                         run.BubbleResult
}

func (s *state) runListener(c *lisCase) (res lisResult) {
	kd, kl := s.pool["ed25519"][0], s.pool["ed25519"][1]
	res.Bubble = run.Bubble(s.t, func(t *testing.T) {
		var gl *gater
		if c.GaterAcc {
			gl = newGater("Accept")
		}
		nl := s.newNode(kl, c.Proto, nil, gl, upgrader.WithAcceptTimeout(5*time.Second))
		nd := s.newNode(kd, c.Proto, nil, nil)
		if c.RcmgrN >= 0 {
			nl.inj.FailAt("OpenConnection", c.RcmgrN)
		}
		ml := memnet.NewListener(addrB, 64)
		l := nl.upg.UpgradeListener(nil, ml)
		var raws []*memnet.Conn
		var mu sync.Mutex
		var wg sync.WaitGroup
		closeOnce := sync.OnceFunc(func() { l.Close() })
		for i := 0; i < c.Conns; i++ {
			from := ma.StringCast(fmt.Sprintf("/ip4/10.1.%d.1/tcp/%d", i, 1000+i)) // distinct IPs: the default per-IP cap is 8 conns
			a, b := ml.Connect(from, 0)
			if a == nil {
				continue
			}
			mu.Lock()
			raws = append(raws, a, b)
			mu.Unlock()
			if c.CloseAt == "at-op" && i == 0 {
				b.SetOnOp(func(o memnet.Op, k int) {
					if o == memnet.OpRead && k == c.K {
						go closeOnce()
					}
				})
			}
			wg.Add(1)
			go func() {
				defer wg.Done()
				ctx, cancel := context.WithTimeout(context.Background(), 20*time.Second)
				defer cancel()
				scope, err := nd.rm.OpenConnection(network.DirOutbound, true, addrB)
				if err != nil {
					mu.Lock()
					res.DialOpenErr = err.Error()
					mu.Unlock()
					a.Close()
					return
				}
				conn, err := nd.upg.Upgrade(ctx, nil, a, network.DirOutbound, kl.ID, scope)
				if err != nil {
					mu.Lock()
					res.DialFailed++
					mu.Unlock()
					return
				}
				mu.Lock()
				res.Upgraded++
				mu.Unlock()
				// stay until the other side goes away
				conn.AcceptStream()
				conn.Close()
			}()
		}
		if c.Wave2 > 0 {
			// first wave fully upgraded and un-accepted (>= AcceptQueueLength): the next raw conn is accepted
			// by the gated listener (scope opened) and the loop parks in threshold.Wait()
			synctest.Wait()
			for i := 0; i < c.Wave2; i++ {
				from := ma.StringCast(fmt.Sprintf("/ip4/10.2.%d.1/tcp/%d", i, 2000+i))
				a, b := ml.Connect(from, 0)
				if a == nil {
					continue
				}
				mu.Lock()
				raws = append(raws, a, b)
				mu.Unlock()
				wg.Add(1)
				go func() {
					defer wg.Done()
					ctx, cancel := context.WithTimeout(context.Background(), 40*time.Second)
					defer cancel()
					scope, err := nd.rm.OpenConnection(network.DirOutbound, true, addrB)
					if err != nil {
						a.Close()
						return
					}
					conn, err := nd.upg.Upgrade(ctx, nil, a, network.DirOutbound, kl.ID, scope)
					if err != nil {
						mu.Lock()
						res.DialFailed++
						mu.Unlock()
						return
					}
					conn.AcceptStream()
					conn.Close()
				}()
			}
			synctest.Wait()
		}
		// the application accepts only c.Accept conns and closes them later
		var accepted []network.MuxedConn
		accDone := make(chan struct{})
		go func() {
			defer close(accDone)
			for i := 0; i < c.Accept; i++ {
				cc, err := l.Accept()
				if err != nil {
					return
				}
				mu.Lock()
				accepted = append(accepted, cc)
				res.Accepted++
				mu.Unlock()
			}
		}()
		switch c.CloseAt {
		case "immediately":
			synctest.Wait()
			closeOnce()
		case "after-timeout":
			time.Sleep(7 * time.Second)
			synctest.Wait()
			// un-accepted conns must be gone by now (accept timeout), before Close is even called
			mu.Lock()
			for i := 1; i < len(raws); i += 2 {
				if raws[i].IsClosed() {
					res.TimedOut++
				}
			}
			mu.Unlock()
			closeOnce()
		case "at-op":
			time.Sleep(30 * time.Second)
			closeOnce()
		}
		<-accDone
		mu.Lock()
		for _, cc := range accepted {
			cc.Close()
		}
		mu.Unlock()
		res.Hung = !waitTimeout(&wg, 15*time.Minute)
		synctest.Wait()
		for _, rc := range raws {
			if !rc.IsClosed() {
				res.RawOpen++
			}
		}
		res.ResidueL, res.ResidueD = residue(nl.rm), residue(nd.rm)
		res.OpenL = nl.inj.Open()
		res.CallsL, res.CallsD = nl.inj.AllCalls(), nd.inj.AllCalls()
		for _, rc := range raws {
			rc.Close()
		}
		ml.Close()
		nl.rm.Close()
		nd.rm.Close()
	})
	return
}

func (s *state) listenerCases() {
	var cases []*lisCase
	for _, proto := range []string{"noise", "tls"} {
		cases = append(cases,
			&lisCase{ID: "listener/" + proto + "/accept-timeout/1", Proto: proto, Conns: 1, CloseAt: "after-timeout", RcmgrN: -1},
			&lisCase{ID: "listener/" + proto + "/accept-timeout/over-threshold", Proto: proto, Conns: 24, CloseAt: "after-timeout", RcmgrN: -1},
			&lisCase{ID: "listener/" + proto + "/accept-some/over-threshold", Proto: proto, Conns: 24, Accept: 5, CloseAt: "after-timeout", RcmgrN: -1},
			&lisCase{ID: "listener/" + proto + "/close-immediately/queued", Proto: proto, Conns: 10, CloseAt: "immediately", RcmgrN: -1},
			&lisCase{ID: "listener/" + proto + "/close-immediately/over-threshold", Proto: proto, Conns: 24, Accept: 2, CloseAt: "immediately", RcmgrN: -1},
			&lisCase{ID: "listener/" + proto + "/parked-on-threshold/close-immediately", Proto: proto, Conns: 18, Wave2: 3, CloseAt: "immediately", RcmgrN: -1},
			&lisCase{ID: "listener/" + proto + "/parked-on-threshold/accept-some-then-close", Proto: proto, Conns: 17, Wave2: 2, Accept: 1, CloseAt: "immediately", RcmgrN: -1},
			&lisCase{ID: "listener/" + proto + "/parked-on-threshold/after-timeout", Proto: proto, Conns: 20, Wave2: 4, CloseAt: "after-timeout", RcmgrN: -1},
			&lisCase{ID: "listener/" + proto + "/gater-rejects-accept", Proto: proto, Conns: 3, CloseAt: "after-timeout", GaterAcc: true, RcmgrN: -1},
			&lisCase{ID: "listener/" + proto + "/rcmgr-refuses-accept", Proto: proto, Conns: 3, CloseAt: "after-timeout", RcmgrN: 1},
		)
		nk := s.r.Pick(12, 40)
		for k := 0; k < nk; k++ {
			cases = append(cases, &lisCase{ID: fmt.Sprintf("listener/%s/close-at-op/k%d", proto, k), Proto: proto, Conns: 3, Accept: 1, CloseAt: "at-op", K: k, RcmgrN: -1})
		}
	}
	run.Parallel(len(cases), 0, func(i int) {
		c := cases[i]
		if !s.r.Want(c.ID) {
			return
		}
		res := s.runListener(c)
		s.r.Eval(1)
		if os.Getenv("VERIF_DEBUG") != "" {
			s.t.Logf("DEBUG %s: %+v", c.ID, res)
		}
		detail := map[string]any{"case": c, "result": res}
		if s.r.BubbleFailed(res.Bubble, "listener:goroutine-left-running", c.ID, "goroutines of the listener or its connections never finished", map[string]any{"case": c}) {
			return
		}
		if res.Hung {
			s.r.Violation("listener:connection-never-closed", c.ID, "connections were still alive 15 virtual minutes after the listener was closed", detail)
		}
		if len(res.ResidueL) > 0 || len(res.ResidueD) > 0 {
			s.r.Violation("listener:resource-scope-not-released", c.ID, fmt.Sprintf("resource managers not back to zero: listener %v dialer %v", res.ResidueL, res.ResidueD), detail)
		}
		if res.RawOpen > 0 {
			s.r.Violation("listener:raw-conn-not-closed", c.ID, fmt.Sprintf("%d underlying connections left open after the listener was closed", res.RawOpen), detail)
		}
		if c.CloseAt == "after-timeout" && !c.GaterAcc && c.RcmgrN < 0 && c.Wave2 == 0 {
			want := c.Conns - c.Accept
			if res.TimedOut < want {
				s.r.Violation("listener:accept-timeout-did-not-close", c.ID, fmt.Sprintf("%d of %d un-accepted connections were still open after the accept timeout", want-res.TimedOut, want), detail)
			} else {
				s.r.Count("listener_accept_timeouts", want)
			}
		}
		if c.CloseAt == "immediately" {
			s.r.Count("listener_close_drained", 1)
		}
		if c.Wave2 > 0 && res.Upgraded >= 16 {
			s.r.Count("listener_parked_on_threshold_cases", 1)
		}
		if res.Upgraded > 16 {
			s.r.Count("listener_cases_over_threshold", 1)
		}
		if c.GaterAcc {
			s.r.Count("gater_rejections_fired", 1)
			if res.Upgraded > 0 {
				s.r.Violation("listener:gater-accept-rejection-ignored", c.ID, "connections were upgraded although InterceptAccept rejected them", detail)
			}
		}
		if c.RcmgrN >= 0 {
			s.r.Count("rcmgr_refusals_fired", 1)
		}
		s.r.Nontrivial(c.ID)
		if c.ID == "listener/noise/accept-some/over-threshold" {
			s.r.Sample(detail)
		}
	})
}

// ---------------------------------------------------------------------------------------------
// C. real swarms (and BasicHosts) over memtpt.

type swCase struct {
	ID      string `json:"id"`
	Proto   string `json:"security"`
	PSK     bool   `json:"psk"`
	Host    bool   `json:"basic_host"`
	Side    string `json:"side"` // dialer | listener
	Op      string `json:"op"`
	K       int    `json:"k"`
	Kind    string `json:"kind"` // none | err | peerclose | stall | swarmclose | cancel | gater:<hook> | rcmgr:<method> | badproto
	N       int    `json:"n"`
	MaxRead int    `json:"raw_max_read"`
}

type swResult struct {
	DialErr    string
	StreamErr  string
	Echoed     bool
	Fired      bool
	Residue    [2][]string
	MidResidue [2]string
	RawOpen    int
	Conns      [2]int
	Listen     [2]int
	Calls      [2]map[string]int
	Ops        [2][2]int // [side][reads, writes] of the first raw conn
	Bubble     run.BubbleResult
}

type swNode struct {
	key *sectest.Key
	rm  network.ResourceManager
	inj *rcwrap.Injector
	ps  peerstore.Peerstore
	sw  *swarm.Swarm
	h   *bhost.BasicHost
	tpt *memtpt.Transport
	g   *gater
}

func (s *state) newSwNode(f *memtpt.Fabric, k *sectest.Key, c *swCase, ip string, g *gater, withHost bool) *swNode {
	n := &swNode{key: k, inj: rcwrap.NewInjector(), g: g}
	n.rm = rcwrap.Wrap(newRcmgr(), n.inj)
	ps, err := pstoremem.NewPeerstore()
	if err != nil {
		panic(err)
	}
	ps.AddPrivKey(k.ID, k.Priv)
	ps.AddPubKey(k.ID, k.Pub)
	n.ps = ps
	opts := []swarm.Option{swarm.WithResourceManager(n.rm), swarm.WithDialTimeout(30 * time.Second)}
	var cg connmgr.ConnectionGater
	if g != nil {
		cg = g
		opts = append(opts, swarm.WithConnectionGater(g))
	}
	sw, err := swarm.NewSwarm(k.ID, ps, eventbus.NewBus(), opts...)
	if err != nil {
		panic(err)
	}
	n.sw = sw
	var psk ipnet.PSK
	if c.PSK {
		psk = s.psk
	}
	n.tpt, err = memtpt.New(f, memtpt.Config{Key: k, Security: c.Proto, PSK: psk, Rcmgr: n.rm, Gater: cg, LocalIP: ip})
	if err != nil {
		panic(err)
	}
	if err := sw.AddTransport(n.tpt); err != nil {
		panic(err)
	}
	if withHost {
		h, err := bhost.NewHost(sw, &bhost.HostOpts{NegotiationTimeout: 10 * time.Second})
		if err != nil {
			panic(err)
		}
		n.h = h
	}
	return n
}

const echoProto = protocol.ID("/verif/echo/1")

func (s *state) runSwarm(c *swCase) (res swResult) {
	kd, kl := s.pool["ed25519"][0], s.pool["ecdsa"][1]
	res.Bubble = run.Bubble(s.t, func(t *testing.T) {
		f := memtpt.NewFabric()
		var gd, gl *gater
		if len(c.Kind) > 6 && c.Kind[:6] == "gater:" {
			g := newGater(c.Kind[6:])
			if c.Side == "dialer" {
				gd = g
			} else {
				gl = g
			}
		}
		nd := s.newSwNode(f, kd, c, "10.0.0.1", gd, c.Host)
		nl := s.newSwNode(f, kl, c, "10.0.0.2", gl, c.Host)
		target := nd
		if c.Side == "listener" {
			target = nl
		}
		if len(c.Kind) > 6 && c.Kind[:6] == "rcmgr:" {
			target.inj.FailAt(c.Kind[6:], c.N)
		}
		laddr := ma.StringCast("/ip4/10.0.0.2/tcp/4001")
		ctx, cancel := context.WithTimeout(context.Background(), 40*time.Second)
		defer cancel()
		var fired bool
		var fmu sync.Mutex
		var first [2]*memnet.Conn
		f.OnConnect = func(d, l *memnet.Conn) {
			fmu.Lock()
			if first[0] == nil {
				first = [2]*memnet.Conn{d, l}
			}
			fmu.Unlock()
			if c.MaxRead > 0 {
				d.SetMaxRead(func(int) int { return c.MaxRead })
				l.SetMaxRead(func(int) int { return c.MaxRead })
			}
			tc := d
			if c.Side == "listener" {
				tc = l
			}
			op := memnet.OpRead
			if c.Op == "write" {
				op = memnet.OpWrite
			}
			switch c.Kind {
			case "err":
				tc.SetFaults(memnet.Fault{Op: op, K: c.K, Kind: memnet.FaultErr})
			case "peerclose":
				tc.SetFaults(memnet.Fault{Op: op, K: c.K, Kind: memnet.FaultPeerClose})
			case "stall":
				tc.SetFaults(memnet.Fault{Op: op, K: c.K, Kind: memnet.FaultStall})
			case "swarmclose", "cancel":
				tc.SetOnOp(func(o memnet.Op, k int) {
					if o == op && k == c.K {
						fmu.Lock()
						was := fired
						fired = true
						fmu.Unlock()
						if was {
							return
						}
						if c.Kind == "cancel" {
							cancel()
						} else {
							go target.sw.Close()
						}
					}
				})
			}
		}
		handler := func(st network.Stream) {
			st.SetDeadline(time.Now().Add(time.Minute))
			b, _ := io.ReadAll(st)
			st.Write(b)
			st.Close()
		}
		if c.Host {
			nl.h.SetStreamHandler(echoProto, handler)
			nl.h.Start()
			nd.h.Start()
		} else {
			nl.sw.SetStreamHandler(handler)
		}
		if err := nl.sw.Listen(laddr); err != nil {
			panic(err)
		}
		nd.ps.AddAddrs(kl.ID, []ma.Multiaddr{laddr}, peerstore.PermanentAddrTTL)
		// one connection, one echo stream
		func() {
			var st network.Stream
			var err error
			if c.Host {
				if err = nd.h.Connect(ctx, peer.AddrInfo{ID: kl.ID}); err != nil {
					res.DialErr = err.Error()
					return
				}
				p := echoProto
				if c.Kind == "badproto" {
					p = "/verif/unsupported/1"
				}
				st, err = nd.h.NewStream(ctx, kl.ID, p)
			} else {
				if _, err = nd.sw.DialPeer(ctx, kl.ID); err != nil {
					res.DialErr = err.Error()
					return
				}
				st, err = nd.sw.NewStream(ctx, kl.ID)
			}
			if err != nil {
				res.StreamErr = err.Error()
				return
			}
			st.SetDeadline(time.Now().Add(time.Minute))
			msg := []byte("hello over the real stack")
			if _, err := st.Write(msg); err != nil {
				res.StreamErr = "write: " + err.Error()
				st.Reset()
				return
			}
			st.CloseWrite()
			b, err := io.ReadAll(st)
			if err != nil {
				res.StreamErr = "read: " + err.Error()
				st.Reset()
				return
			}
			res.Echoed = string(b) == string(msg)
			st.Close()
		}()
		// ... and stream opens whose context has ALREADY ended (cancelled, or a deadline in the past) on whatever
		// connection exists by now: they fail, and give back what was reserved for them
		for _, cc := range nd.sw.ConnsToPeer(kl.ID) {
			dead, cancelDead := context.WithCancel(context.Background())
			cancelDead()
			past, cancelPast := context.WithDeadline(context.Background(), time.Now().Add(-time.Second))
			for _, dctx := range []context.Context{dead, past} {
				if st, err := cc.NewStream(dctx); err == nil {
					st.Reset()
				} else {
					endedCtxOpens.Add(1)
				}
			}
			cancelPast()
			break
		}
		synctest.Wait()
		fmu.Lock()
		if first[0] != nil {
			res.Ops = [2][2]int{{first[0].Reads(), first[0].Writes()}, {first[1].Reads(), first[1].Writes()}}
			res.Fired = fired || first[0].FaultsFired()+first[1].FaultsFired() > 0
		}
		fmu.Unlock()
		// statement: "every resource scope that was opened for it is closed so that system and transient
		// usage return to their previous values" - BEFORE any Close: at quiescence the system scope must
		// hold exactly the connections the swarm still lists and no stream at all.
		// in-flight halves of a failed attempt end with their own timeouts (accept timeout 15 s,
		// negotiation 60 s): give them that virtual time first
		time.Sleep(3 * time.Minute)
		synctest.Wait()
		for i, n := range []*swNode{nd, nl} {
			if st, ok := rcmgr.VerifDump(n.rm.(*rcwrap.Manager).Unwrap()); ok {
				sys, tr := st.System.Stat, st.Transient.Stat
				conns := len(n.sw.Conns())
				if sys.NumStreamsInbound+sys.NumStreamsOutbound != 0 || sys.NumConnsInbound+sys.NumConnsOutbound != conns || sys.NumFD != conns ||
					tr != (network.ScopeStat{}) {
					res.MidResidue[i] = fmt.Sprintf("open conns=%d system=%+v transient=%+v", conns, sys, tr)
				}
			}
		}
		// statement: "After a swarm or host has been closed, usage in every scope is zero and all of
		// its listeners, connections and streams are gone."
		if c.Host {
			nd.h.Close()
			nl.h.Close()
		} else {
			nd.sw.Close()
			nl.sw.Close()
		}
		synctest.Wait()
		res.Residue = [2][]string{residue(nd.rm), residue(nl.rm)}
		res.RawOpen = len(f.OpenConns())
		res.Conns = [2]int{len(nd.sw.Conns()), len(nl.sw.Conns())}
		res.Listen = [2]int{len(nd.sw.ListenAddresses()), len(nl.sw.ListenAddresses())}
		res.Calls = [2]map[string]int{nd.inj.AllCalls(), nl.inj.AllCalls()}
		if target.g != nil {
			for h, n := range target.g.calls {
				if target.g.reject[h] && n > 0 {
					res.Fired = true
				}
			}
		}
		if len(c.Kind) > 6 && c.Kind[:6] == "rcmgr:" && target.inj.Fired(c.Kind[6:]) > 0 {
			res.Fired = true
		}
		for _, rc := range f.Conns() {
			rc.Close()
		}
		for _, n := range []*swNode{nd, nl} {
			for _, ml := range n.tpt.RawListeners() {
				ml.Close()
			}
			n.ps.Close()
			n.rm.Close()
		}
	})
	return
}

func (s *state) judgeSwarm(c *swCase, res *swResult) bool {
	detail := map[string]any{"case": c, "result": res}
	if s.r.BubbleFailed(res.Bubble, "swarm:goroutine-left-running", c.ID, "goroutines were still alive after both swarms/hosts were closed", map[string]any{"case": c}) {
		return false
	}
	ok := true
	for i, side := range []string{"dialer", "listener"} {
		if res.MidResidue[i] != "" {
			s.r.Violation("swarm:usage-not-back-after-attempt/"+side, c.ID, fmt.Sprintf("%s at quiescence after the attempt, before Close: %s", side, res.MidResidue[i]), detail)
			ok = false
		}
		if len(res.Residue[i]) > 0 {
			s.r.Violation("swarm:usage-not-zero-after-close/"+side, c.ID, fmt.Sprintf("%s's resource manager after Close: %v", side, res.Residue[i]), detail)
			ok = false
		}
		if res.Conns[i] != 0 || res.Listen[i] != 0 {
			s.r.Violation("swarm:conns-or-listeners-left-after-close/"+side, c.ID, fmt.Sprintf("%s: %d conns, %d listen addresses after Close", side, res.Conns[i], res.Listen[i]), detail)
			ok = false
		}
	}
	if res.RawOpen != 0 {
		s.r.Violation("swarm:raw-conn-not-closed", c.ID, fmt.Sprintf("%d underlying connections still open after both sides closed", res.RawOpen), detail)
		ok = false
	}
	return ok
}

var endedCtxOpens atomic.Int64

func (s *state) swarmCases() {
	type cfg struct {
		proto   string
		psk     bool
		host    bool
		maxRead int
		stride  int
	}
	cfgs := []cfg{{"noise", false, false, 0, 1}, {"tls", false, false, 0, 1}, {"noise", false, true, 0, 2}, {"tls", true, true, 0, 2}, {"noise", false, false, 48, 6}, {"tls", false, true, 48, 12}}
	if !s.r.Quick() {
		cfgs = []cfg{{"noise", false, false, 0, 1}, {"tls", false, false, 0, 1}, {"noise", false, true, 0, 1}, {"tls", true, true, 0, 1}, {"noise", true, false, 0, 1}, {"tls", false, true, 0, 1},
			{"noise", false, false, 48, 1}, {"tls", false, true, 48, 1}, {"noise", false, true, 48, 1}, {"tls", true, false, 48, 1}, {"noise", false, false, 5, 2}, {"tls", false, false, 5, 2}}
	}
	for ci, cf := range cfgs {
		stride := cf.stride
		prefix := fmt.Sprintf("swarm/%s/psk=%v/host=%v/mr%d", cf.proto, cf.psk, cf.host, cf.maxRead)
		dry := &swCase{ID: prefix + "/dry", Proto: cf.proto, PSK: cf.psk, Host: cf.host, Side: "dialer", Kind: "none", MaxRead: cf.maxRead}
		dres := s.runSwarm(dry)
		s.r.Eval(1)
		if !s.judgeSwarm(dry, &dres) || !dres.Echoed {
			s.r.Inconclusive(dry.ID, fmt.Sprintf("dry run failed: dial=%q stream=%q", dres.DialErr, dres.StreamErr))
			continue
		}
		s.r.Count("swarm_dry_runs_echoed", 1)
		s.r.Extra("swarm_dry_"+fmt.Sprintf("%s_psk%v_host%v_maxread%d", cf.proto, cf.psk, cf.host, cf.maxRead), map[string]any{"ops": dres.Ops, "rcmgr_calls": dres.Calls})
		var cases []*swCase
		phase := int(s.r.Seed) + ci
		for si, side := range []string{"dialer", "listener"} {
			for oi, op := range []string{"read", "write"} {
				for _, kind := range []string{"err", "peerclose", "stall", "swarmclose", "cancel"} {
					phase++
					if kind == "cancel" && side == "listener" {
						continue
					}
					for k := 0; k <= dres.Ops[si][oi]; k++ {
						if (k+phase)%stride != 0 {
							continue
						}
						cases = append(cases, &swCase{ID: fmt.Sprintf("%s/%s/%s/%s/k%d", prefix, side, op, kind, k), Proto: cf.proto, PSK: cf.psk, Host: cf.host, Side: side, Op: op, K: k, Kind: kind, MaxRead: cf.maxRead})
					}
				}
			}
			// gater hooks
			for _, h := range []string{"PeerDial", "AddrDial", "Accept", "Secured", "Upgraded"} {
				cases = append(cases, &swCase{ID: fmt.Sprintf("%s/%s/gater/%s", prefix, side, h), Proto: cf.proto, PSK: cf.psk, Host: cf.host, Side: side, Kind: "gater:" + h, MaxRead: cf.maxRead})
			}
			// resource manager refusals: every method seen in the dry run, n-th call
			var methods []string
			for m := range dres.Calls[si] {
				methods = append(methods, m)
			}
			sort.Strings(methods)
			for _, m := range methods {
				for n := 0; n < dres.Calls[si][m] && n < 5; n++ {
					cases = append(cases, &swCase{ID: fmt.Sprintf("%s/%s/rcmgr/%s/%d", prefix, side, m, n), Proto: cf.proto, PSK: cf.psk, Host: cf.host, Side: side, Kind: "rcmgr:" + m, N: n, MaxRead: cf.maxRead})
				}
			}
		}
		if cf.host {
			cases = append(cases, &swCase{ID: prefix + "/unsupported-protocol", Proto: cf.proto, PSK: cf.psk, Host: true, Side: "dialer", Kind: "badproto"})
		}
		run.Parallel(len(cases), 0, func(i int) {
			c := cases[i]
			if !s.r.Want(c.ID) || s.r.TooMany() {
				return
			}
			res := s.runSwarm(c)
			s.r.Eval(1)
			ok := s.judgeSwarm(c, &res)
			if c.Kind == "badproto" {
				if res.StreamErr == "" {
					s.r.Violation("swarm:unsupported-protocol-stream-opened", c.ID, "NewStream for an unsupported protocol succeeded", map[string]any{"case": c, "result": res})
				}
				s.r.Count("swarm_negotiation_failures", 1)
				s.r.Nontrivial(c.ID)
				return
			}
			if !res.Fired {
				s.r.Count("swarm_faults_not_reached", 1)
				return
			}
			s.r.Nontrivial(c.ID)
			switch {
			case len(c.Kind) > 6 && c.Kind[:6] == "gater:":
				s.r.Count("gater_rejections_fired", 1)
				if res.Echoed {
					s.r.Violation("swarm:gater-rejection-ignored", c.ID, "a stream was echoed although the gater rejected at "+c.Kind, map[string]any{"case": c, "result": res})
				}
			case len(c.Kind) > 6 && c.Kind[:6] == "rcmgr:":
				s.r.Count("rcmgr_refusals_fired", 1)
				s.r.Count("swarm_rcmgr_refusal_"+c.Kind[6:], 1)
			default:
				s.r.Count("swarm_faults_fired", 1)
				s.r.Count("swarm_fault_"+c.Kind, 1)
			}
			if res.Echoed {
				s.r.Count("swarm_echo_despite_fault", 1)
			} else {
				s.r.Count("swarm_attempt_failed", 1)
			}
			if ok && i == len(cases)/3 {
				s.r.Sample(map[string]any{"case": c, "dial_err": res.DialErr, "stream_err": res.StreamErr, "echoed": res.Echoed})
			}
		})
	}
	s.r.Require("listener_parked_on_threshold_cases", 2)
	s.r.Require("listener_cases_over_threshold", 2)
	s.r.Require("swarm_dry_runs_echoed", 4)
	s.r.Require("swarm_faults_fired", 250)
	s.r.Require("swarm_attempt_failed", 200)
	s.r.Require("swarm_negotiation_failures", 1)
}
