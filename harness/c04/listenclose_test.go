package c04

import (
	"fmt"
	"net"
	"sync/atomic"
	"time"

	"github.com/libp2p/go-libp2p/core/network"
	ma "github.com/multiformats/go-multiaddr"
)

// listenDuringClose: "after a swarm has been closed all of its listeners ... are gone" also for a listener
// that a Listen call adds WHILE Close is running (callers are free to overlap the two). Close is held
// inside a ListenClose notification; meanwhile Listen is called for a free TCP port - it may succeed or be
// refused, either is fine - and once Close has returned nobody may be accepting on that port any more.
func (s *state) listenDuringClose() {
	ka := s.pool["ed25519"][0]
	for round := 0; round < s.r.Pick(6, 12); round++ {
		id := fmt.Sprintf("socket/listen-during-close/%d", round)
		if !s.r.Want(id) || s.r.TooMany() {
			continue
		}
		A, err := newSockHost(ka, true, round%2 == 1)
		if err != nil {
			s.r.Count("socket_listen_during_close_not_set_up", 1)
			continue
		}
		s.r.Eval(1)
		entered, release := make(chan struct{}, 16), make(chan struct{})
		var held atomic.Bool
		A.h.Network().Notify(&network.NotifyBundle{ListenCloseF: func(network.Network, ma.Multiaddr) {
			if held.CompareAndSwap(false, true) {
				entered <- struct{}{}
				<-release
			}
		}})
		closed := make(chan struct{})
		go func() { A.h.Close(); close(closed) }()
		port := freeTCPPort()
		var listenErr error
		select {
		case <-entered:
			listenErr = A.h.Network().Listen(ma.StringCast(fmt.Sprintf("/ip4/127.0.0.1/tcp/%d", port)))
			s.r.Count("socket_listen_calls_placed_inside_a_running_close", 1)
		case <-time.After(10 * time.Second):
			s.r.Count("socket_listen_during_close_window_missed", 1)
		}
		close(release)
		select {
		case <-closed:
		case <-time.After(60 * time.Second):
			s.r.Inconclusive(id, "host Close did not return within 60 s")
			continue
		}
		time.Sleep(50 * time.Millisecond)
		accepting := false
		for i := 0; i < 3 && !accepting; i++ {
			if c, err := net.DialTimeout("tcp", fmt.Sprintf("127.0.0.1:%d", port), time.Second); err == nil {
				accepting = true
				c.Close()
			}
		}
		if accepting {
			s.r.Violation("socket:listener-left-after-close/listen-during-close", id,
				fmt.Sprintf("Listen(/ip4/127.0.0.1/tcp/%d) was called while Close was running (it returned: %v); after Close returned a TCP connection to that port is still accepted", port, listenErr),
				map[string]any{"port": port, "listen_returned": fmt.Sprint(listenErr)})
		} else if held.Load() {
			s.r.Nontrivial(id)
		}
		A.rm.Close()
	}
	s.r.Require("socket_listen_calls_placed_inside_a_running_close", 2)
}
