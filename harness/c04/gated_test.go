package c04

import (
	"context"
	"fmt"
	"github.com/libp2p/go-libp2p/core/connmgr"
	"github.com/libp2p/go-libp2p/core/crypto"
	tpt "github.com/libp2p/go-libp2p/core/transport"
	rcmgr "github.com/libp2p/go-libp2p/p2p/host/resource-manager"
	libp2pquic "github.com/libp2p/go-libp2p/p2p/transport/quic"
	"github.com/libp2p/go-libp2p/p2p/transport/quicreuse"
	"github.com/quic-go/quic-go"
	"strings"
	"time"

	"github.com/libp2p/go-libp2p"
	"github.com/libp2p/go-libp2p/core/control"
	"github.com/libp2p/go-libp2p/core/network"
	"github.com/libp2p/go-libp2p/core/peer"
	"github.com/libp2p/go-libp2p/core/peerstore"
	ma "github.com/multiformats/go-multiaddr"
)

// refusingGater refuses one peer's inbound connections at a chosen stage (non-default configuration: a
// host runs without a gater unless it is given one)
type refusingGater struct {
	peer  peer.ID
	stage string // accept | secured | upgraded
}

func (g *refusingGater) InterceptPeerDial(peer.ID) bool               { return true }
func (g *refusingGater) InterceptAddrDial(peer.ID, ma.Multiaddr) bool { return true }
func (g *refusingGater) InterceptAccept(network.ConnMultiaddrs) bool  { return g.stage != "accept" }
func (g *refusingGater) InterceptSecured(d network.Direction, p peer.ID, _ network.ConnMultiaddrs) bool {
	return !(g.stage == "secured" && d == network.DirInbound && p == g.peer)
}
func (g *refusingGater) InterceptUpgraded(c network.Conn) (bool, control.DisconnectReason) {
	return !(g.stage == "upgraded" && c.Stat().Direction == network.DirInbound && c.RemotePeer() == g.peer), 0
}

// gatedInbound: a listening host with a connection gater that refuses a peer's inbound connections at the
// accept / secured / upgraded stage, dialled over every transport it listens on (TCP, WebSocket, QUIC,
// WebTransport, WebRTC-direct): every refused attempt must give back what the listener had reserved for it.
func (s *state) gatedInbound() {
	ka, kb := s.pool["ed25519"][0], s.pool["ecdsa"][1]
	for _, stage := range []string{"secured", "accept", "upgraded"} {
		id := "socket/gated-inbound/" + stage
		if !s.r.Want(id) || s.r.TooMany() {
			continue
		}
		A, err := newSockHost(ka, true, false, libp2p.ConnectionGater(&refusingGater{peer: kb.ID, stage: stage}))
		if err != nil {
			s.r.Count("socket_gated_not_set_up", 1)
			continue
		}
		B, err := newSockHost(kb, false, false)
		if err != nil {
			A.h.Close()
			A.rm.Close()
			continue
		}
		dead := false
		for _, a := range A.h.Addrs() {
			if dead {
				break
			}
			name := "tcp"
			switch as := a.String(); {
			case strings.HasSuffix(as, "/ws"):
				name = "ws"
			case strings.Contains(as, "/webrtc-direct"):
				name = "webrtc"
			case strings.Contains(as, "/webtransport"):
				name = "webtransport"
			case strings.Contains(as, "/quic-v1"):
				name = "quic"
			}
			for k := 0; k < 3; k++ {
				B.h.Network().ClosePeer(A.h.ID())
				B.h.Peerstore().ClearAddrs(A.h.ID())
				B.h.Peerstore().AddAddr(A.h.ID(), a, peerstore.TempAddrTTL)
				ctx, cancel := context.WithTimeout(context.Background(), 10*time.Second)
				err := B.h.Connect(ctx, peer.AddrInfo{ID: A.h.ID()})
				cancel()
				s.r.Eval(1)
				if err == nil {
					// the dialing side may see its connection complete before the listener's refusal arrives
					s.r.Count("socket_gated_dials_completed_on_the_dialing_side", 1)
				} else {
					s.r.Count("socket_gated_dials_refused", 1)
					s.r.Count("socket_gated_dials_refused_"+name, 1)
				}
			}
			B.h.Network().ClosePeer(A.h.ID())
			if n := len(A.h.Network().ConnsToPeer(B.h.ID())); n != 0 {
				time.Sleep(500 * time.Millisecond)
			}
			resA, _ := settle(func() []string { return residue(A.rm) })
			s.r.Count("socket_gated_audits", 1)
			if len(resA) > 0 {
				s.r.Violation("socket:resource-scope-not-released/gated-inbound/"+stage+"/"+name, id,
					fmt.Sprintf("the listener's gater refused the peer's %s connections at the %s stage; residue afterwards: %v", name, stage, resA),
					map[string]any{"stage": stage, "transport": name, "addr": a.String(), "listener_residue": resA})
				dead = true
			} else {
				s.r.Nontrivial(id + "/" + name)
			}
		}
		B.h.Close()
		A.h.Close()
		A.rm.Close()
		B.rm.Close()
	}
	s.r.Require("socket_gated_dials_refused", 10)
	s.r.Require("socket_gated_audits", 6)
}

// gatedBareQUIC: the QUIC transport constructed directly (no host, a quicreuse.ConnManager without the
// ConnContext option: the listener opens the connection scope itself) with a gater that refuses every
// inbound connection and a real resource manager: each refused connection must give its scope back.
func (s *state) gatedBareQUIC() {
	id := "socket/gated-inbound/bare-quic-transport"
	if !s.r.Want(id) || s.r.TooMany() {
		return
	}
	ka, kb := s.pool["ed25519"][0], s.pool["ecdsa"][1]
	rm, err := rcmgr.NewResourceManager(rcmgr.NewFixedLimiter(rcmgr.InfiniteLimits))
	if err != nil {
		return
	}
	defer rm.Close()
	mk := func(k crypto.PrivKey, g connmgr.ConnectionGater, m network.ResourceManager) (tpt.Transport, func(), error) {
		cm, err := quicreuse.NewConnManager(quic.StatelessResetKey{}, quic.TokenGeneratorKey{})
		if err != nil {
			return nil, nil, err
		}
		t, err := libp2pquic.NewTransport(k, cm, nil, g, m)
		if err != nil {
			cm.Close()
			return nil, nil, err
		}
		return t, func() { t.(interface{ Close() error }).Close(); cm.Close() }, nil
	}
	srv, closeSrv, err := mk(ka.Priv, &refusingGater{peer: kb.ID, stage: "secured"}, rm)
	if err != nil {
		s.r.Count("socket_gated_not_set_up", 1)
		return
	}
	defer closeSrv()
	cli, closeCli, err := mk(kb.Priv, nil, nil)
	if err != nil {
		return
	}
	defer closeCli()
	ln, err := srv.Listen(ma.StringCast("/ip4/127.0.0.1/udp/0/quic-v1"))
	if err != nil {
		s.r.Count("socket_gated_not_set_up", 1)
		return
	}
	defer ln.Close()
	go func() {
		for {
			c, err := ln.Accept()
			if err != nil {
				return
			}
			c.Close()
		}
	}()
	for i := 0; i < 4; i++ {
		ctx, cancel := context.WithTimeout(context.Background(), 5*time.Second)
		c, err := cli.Dial(ctx, ln.Multiaddr(), ka.ID)
		cancel()
		s.r.Eval(1)
		if err == nil {
			time.Sleep(50 * time.Millisecond)
			c.Close()
		}
		s.r.Count("socket_gated_bare_quic_dials", 1)
	}
	res, _ := settle(func() []string { return residue(rm) })
	if len(res) > 0 {
		s.r.Violation("socket:resource-scope-not-released/gated-inbound/bare-quic-transport", id,
			fmt.Sprintf("a QUIC transport with a gater refused 4 inbound connections after the handshake; residue in its resource manager: %v", res), map[string]any{"residue": res})
		return
	}
	s.r.Nontrivial(id)
}
