// C04 — Every failed or finished connection/stream releases all it acquired.
//
// Oracle: before = after audit of EVERY scope of a real resource manager (white-box dump incl. the
// per-subnet connection limiter), Close observed on the harness's raw conns on both ends, and exact
// goroutine accounting (a leaked goroutine keeps the synctest bubble from finishing). Workload: the real
// upgrader / listener / tcp dial path / swarm / BasicHost over memnet with a fault injected at the k-th
// raw read or write of a fault-free dry run, gater rejections, resource-manager refusals at every step,
// context cancellation and Close() at every point.
package c04

import (
	"context"
	"fmt"
	"io"
	"os"
	"sort"
	"sync"
	"testing"
	"testing/synctest"
	"time"

	"github.com/libp2p/go-libp2p/core/connmgr"
	"github.com/libp2p/go-libp2p/core/control"
	"github.com/libp2p/go-libp2p/core/network"
	"github.com/libp2p/go-libp2p/core/peer"
	ipnet "github.com/libp2p/go-libp2p/core/pnet"
	"github.com/libp2p/go-libp2p/core/sec"
	"github.com/libp2p/go-libp2p/core/transport"
	rcmgr "github.com/libp2p/go-libp2p/p2p/host/resource-manager"
	"github.com/libp2p/go-libp2p/p2p/net/upgrader"
	"github.com/libp2p/go-libp2p/x/rate"
	ma "github.com/multiformats/go-multiaddr"

	"verif/harness/rig/memnet"
	"verif/harness/rig/rcwrap"
	"verif/harness/rig/run"
	"verif/harness/rig/sectest"
)

var (
	addrA = ma.StringCast("/ip4/10.0.0.1/tcp/4001")
	addrB = ma.StringCast("/ip4/10.0.0.2/tcp/4001")
)

type state struct {
	r    *run.R
	t    *testing.T
	pool sectest.Pool
	psk  ipnet.PSK
}

// gater rejects at the hooks named in reject.
type gater struct {
	reject map[string]bool
	mu     sync.Mutex
	calls  map[string]int
}

func newGater(reject ...string) *gater {
	g := &gater{reject: map[string]bool{}, calls: map[string]int{}}
	for _, r := range reject {
		g.reject[r] = true
	}
	return g
}
func (g *gater) hit(h string) bool {
	g.mu.Lock()
	g.calls[h]++
	g.mu.Unlock()
	return !g.reject[h]
}
func (g *gater) InterceptPeerDial(peer.ID) bool               { return g.hit("PeerDial") }
func (g *gater) InterceptAddrDial(peer.ID, ma.Multiaddr) bool { return g.hit("AddrDial") }
func (g *gater) InterceptAccept(network.ConnMultiaddrs) bool  { return g.hit("Accept") }
func (g *gater) InterceptSecured(network.Direction, peer.ID, network.ConnMultiaddrs) bool {
	return g.hit("Secured")
}
func (g *gater) InterceptUpgraded(network.Conn) (bool, control.DisconnectReason) {
	return g.hit("Upgraded"), 0
}

func newRcmgr() network.ResourceManager {
	// default limits, except that one peer may hold 64 conns (default 8): the listener cases need more than
	// AcceptQueueLength conns between the same two identities
	cfg := rcmgr.DefaultLimits
	cfg.PeerBaseLimit.Conns, cfg.PeerBaseLimit.ConnsInbound, cfg.PeerBaseLimit.ConnsOutbound, cfg.PeerBaseLimit.FD = 64, 64, 64, 64
	rm, err := rcmgr.NewResourceManager(rcmgr.NewFixedLimiter(cfg.AutoScale()),
		rcmgr.WithConnRateLimiters(&rate.Limiter{}),
		rcmgr.WithLimitPerSubnet([]rcmgr.ConnLimitPerSubnet{{PrefixLength: 32, ConnCount: 64}}, nil))
	if err != nil {
		panic(err)
	}
	return rm
}

// residue lists every scope of the real manager that is not back to zero, and limiter counts.
func residue(rm network.ResourceManager) []string {
	if w, ok := rm.(*rcwrap.Manager); ok {
		rm = w.Unwrap()
	}
	st, ok := rcmgr.VerifDump(rm)
	if !ok {
		return []string{"cannot dump resource manager"}
	}
	var out []string
	zero := network.ScopeStat{}
	chk := func(s rcmgr.VerifScope) {
		if s.Stat != zero {
			out = append(out, fmt.Sprintf("%s=%+v", s.Name, s.Stat))
		}
	}
	chk(st.System)
	chk(st.Transient)
	chk(st.AllowlistedSystem)
	chk(st.AllowlistedTransient)
	for _, s := range st.Services {
		chk(s)
	}
	for _, m := range st.ServicePeers {
		for _, s := range m {
			chk(s)
		}
	}
	for _, s := range st.Protocols {
		chk(s)
	}
	for _, m := range st.ProtocolPeers {
		for _, s := range m {
			chk(s)
		}
	}
	for _, s := range st.Peers {
		chk(s)
	}
	for _, l := range [][]rcmgr.VerifPrefixCount{st.NetworkPrefixV4, st.NetworkPrefixV6, st.SubnetV4, st.SubnetV6} {
		for _, p := range l {
			if p.Count != 0 {
				out = append(out, fmt.Sprintf("connLimiter[%s]=%d", p.Prefix, p.Count))
			}
		}
	}
	sort.Strings(out)
	return out
}

func TestC04(t *testing.T) {
	r := run.New(t, "C04", "fault_enumeration")
	defer r.Finish()
	r.Rule("cases = (stack configuration, driver, side, fault kind or trigger, k) with k ranging over every raw read/write index of a fault-free dry run of that configuration (quick: every 3rd k per kind, rotated by seed), plus gater rejections at each hook, resource-manager refusals at the n-th call of every method the stack uses, cancellations and Close() at every k; non-trivial: the fault/refusal/trigger really fired; distinct by case id. After each case: every scope of both real resource managers back to zero, per-subnet limiter counts zero, both raw conns closed, bubble finishes (no goroutine left)")
	r.Assume("yamux, flynn/noise and crypto/tls are driven for real but their internals are only observed through the raw conn and the resource manager",
		"tcpreuse demultiplexing and the websocket/QUIC accept paths need real sockets and are not part of the bubble enumeration (thorough tier sweep only)")
	psk := make([]byte, 32)
	for i := range psk {
		psk[i] = byte(i * 7)
	}
	s := &state{r: r, t: t, pool: sectest.NewPool(2), psk: psk}
	s.upgradeFaults()
	s.upgradeRefusals()
	s.listenerCases()
	s.swarmCases()
	s.streamRaceCases()
	s.socketSweep()
	if os.Getenv("VERIF_RACE") != "1" {
		s.listenDuringClose()
		s.gatedInbound()
		s.gatedBareQUIC()
	}
	r.Require("upgrade_faults_fired", 300)
	r.Require("upgrade_failed_one_side", 200)
	r.Require("upgrade_completed_despite_fault", 1)
	r.Count("stream_opens_refused_for_an_already_ended_context", int(endedCtxOpens.Load()))
	r.Require("stream_opens_refused_for_an_already_ended_context", 50)
	r.Require("rcmgr_refusals_fired", 20)
	r.Require("gater_rejections_fired", 4)
	r.Require("listener_accept_timeouts", 1)
	r.Require("listener_close_drained", 1)
}

// waitTimeout waits for wg for at most d of VIRTUAL time (a connection that is never closed keeps
// yamux's keep-alive timers running for ever: virtual time would advance without end).
func waitTimeout(wg *sync.WaitGroup, d time.Duration) bool {
	done := make(chan struct{})
	go func() { wg.Wait(); close(done) }()
	select {
	case <-done:
		return true
	case <-time.After(d):
		return false
	}
}

type node struct {
	key *sectest.Key
	rm  network.ResourceManager
	inj *rcwrap.Injector
	upg transport.Upgrader
}

func (s *state) newNode(k *sectest.Key, proto string, psk ipnet.PSK, g *gater, opts ...upgrader.Option) *node {
	n := &node{key: k, inj: rcwrap.NewInjector()}
	n.rm = rcwrap.Wrap(newRcmgr(), n.inj)
	var cg connmgr.ConnectionGater
	if g != nil {
		cg = g
	}
	var err error
	n.upg, err = upgrader.New([]sec.SecureTransport{sectest.NewSec(proto, k)}, sectest.Muxers, psk, n.rm, cg, opts...)
	if err != nil {
		panic(err)
	}
	return n
}

type upCase struct {
	ID      string `json:"id"`
	Proto   string `json:"security"`
	PSK     bool   `json:"psk"`
	Side    string `json:"fault_side"` // dialer | listener
	Op      string `json:"op"`         // read | write
	K       int    `json:"k"`
	Kind    string `json:"kind"` // err | eof | peerclose | stall | cancel | closeraw
	SetPeer bool   `json:"set_peer_before_upgrade"`
	MaxRead int    `json:"raw_max_read"` // 0: none; n: every raw read returns at most n bytes (more, finer fault positions)
}

type upResult struct {
	DialErr, ListenErr string
	DialOK, ListenOK   bool
	Fired              bool
	Reads, Writes      [2]int // dialer, listener
	RawClosed          [2]bool
	ResidueD, ResidueL []string
	OpenD, OpenL       map[string]int
	Bubble             run.BubbleResult
	Hung               bool // the attempt had not wound down after 15 virtual minutes
}

// runUpgrade runs one dialer/listener pair through the real upgrader with at most one fault.
func (s *state) runUpgrade(c *upCase, gd, gl *gater, prep func(d, l *node)) (res upResult) {
	var psk ipnet.PSK
	if c.PSK {
		psk = s.psk
	}
	kd, kl := s.pool["ed25519"][0], s.pool["ecdsa"][1]
	res.Bubble = run.Bubble(s.t, func(t *testing.T) {
		nd, nl := s.newNode(kd, c.Proto, psk, gd), s.newNode(kl, c.Proto, psk, gl)
		if prep != nil {
			prep(nd, nl)
		}
		ra, rb := memnet.Pipe(addrA, addrB, 0)
		if c.MaxRead > 0 {
			ra.SetMaxRead(func(int) int { return c.MaxRead })
			rb.SetMaxRead(func(int) int { return c.MaxRead })
		}
		ctxD, cancelD := context.WithTimeout(context.Background(), 20*time.Second)
		ctxL, cancelL := context.WithTimeout(context.Background(), 20*time.Second)
		defer cancelD()
		defer cancelL()
		target := ra
		if c.Side == "listener" {
			target = rb
		}
		op := memnet.OpRead
		if c.Op == "write" {
			op = memnet.OpWrite
		}
		var fired bool
		var fmu sync.Mutex
		switch c.Kind {
		case "err":
			target.SetFaults(memnet.Fault{Op: op, K: c.K, Kind: memnet.FaultErr})
		case "eof":
			target.SetFaults(memnet.Fault{Op: op, K: c.K, Kind: memnet.FaultEOF})
		case "peerclose":
			target.SetFaults(memnet.Fault{Op: op, K: c.K, Kind: memnet.FaultPeerClose})
		case "stall":
			target.SetFaults(memnet.Fault{Op: op, K: c.K, Kind: memnet.FaultStall})
		case "cancel", "closeraw":
			target.SetOnOp(func(o memnet.Op, k int) {
				if o == op && k == c.K {
					fmu.Lock()
					fired = true
					fmu.Unlock()
					if c.Kind == "cancel" {
						if c.Side == "dialer" {
							cancelD()
						} else {
							cancelL()
						}
					} else {
						target.Close()
					}
				}
			})
		}
		var wg sync.WaitGroup
		wg.Add(2)
		go func() {
			defer wg.Done()
			scope, err := nd.rm.OpenConnection(network.DirOutbound, true, addrB)
			if err != nil {
				res.DialErr = "OpenConnection: " + err.Error()
				ra.Close()
				return
			}
			if c.SetPeer {
				if err := scope.SetPeer(kl.ID); err != nil {
					res.DialErr = "SetPeer: " + err.Error()
					scope.Done()
					ra.Close()
					return
				}
			}
			conn, err := nd.upg.Upgrade(ctxD, nil, ra, network.DirOutbound, kl.ID, scope)
			if err != nil {
				res.DialErr = err.Error()
				return
			}
			res.DialOK = true
			if st, err := conn.OpenStream(ctxD); err == nil {
				st.SetDeadline(time.Now().Add(2 * time.Minute))
				st.Write(make([]byte, 100))
				st.CloseWrite()
				io.Copy(io.Discard, st)
				st.Close()
			}
			conn.Close()
		}()
		go func() {
			defer wg.Done()
			scope, err := nl.rm.OpenConnection(network.DirInbound, true, addrA)
			if err != nil {
				res.ListenErr = "OpenConnection: " + err.Error()
				rb.Close()
				return
			}
			conn, err := nl.upg.Upgrade(ctxL, nil, rb, network.DirInbound, "", scope)
			if err != nil {
				res.ListenErr = err.Error()
				return
			}
			res.ListenOK = true
			if st, err := conn.AcceptStream(); err == nil {
				st.SetDeadline(time.Now().Add(2 * time.Minute))
				io.Copy(io.Discard, st)
				st.Write(make([]byte, 50))
				st.Close()
				// wait for the dialer to go away
				conn.AcceptStream()
			}
			conn.Close()
		}()
		res.Hung = !waitTimeout(&wg, 15*time.Minute)
		synctest.Wait()
		res.Reads = [2]int{ra.Reads(), rb.Reads()}
		res.Writes = [2]int{ra.Writes(), rb.Writes()}
		res.RawClosed = [2]bool{ra.IsClosed(), rb.IsClosed()}
		fmu.Lock()
		res.Fired = fired || target.FaultsFired() > 0
		fmu.Unlock()
		res.ResidueD, res.ResidueL = residue(nd.rm), residue(nl.rm)
		res.OpenD, res.OpenL = nd.inj.Open(), nl.inj.Open()
		// release what the harness itself still holds, then everything must wind down
		ra.Close()
		rb.Close()
		nd.rm.Close()
		nl.rm.Close()
	})
	return
}

func (s *state) judgeUpgrade(c *upCase, res *upResult, group string) bool {
	detail := map[string]any{"case": c, "result": res}
	if s.r.BubbleFailed(res.Bubble, group+":goroutine-left-running", c.ID, "goroutines started for the attempt never finished (bubble cannot end)", map[string]any{"case": c}) {
		return false
	}
	ok := true
	if res.Hung {
		s.r.Violation(group+":attempt-never-wound-down", c.ID, "connection still alive 15 virtual minutes after the attempt ended (never closed)", detail)
		ok = false
	}
	if len(res.ResidueD) > 0 {
		s.r.Violation(group+":resource-scope-not-released/dialer", c.ID, fmt.Sprintf("dialer's resource manager not back to zero: %v", res.ResidueD), detail)
		ok = false
	}
	if len(res.ResidueL) > 0 {
		s.r.Violation(group+":resource-scope-not-released/listener", c.ID, fmt.Sprintf("listener's resource manager not back to zero: %v", res.ResidueL), detail)
		ok = false
	}
	if !res.RawClosed[0] {
		s.r.Violation(group+":raw-conn-not-closed/dialer", c.ID, "the dialer's underlying connection was left open", detail)
		ok = false
	}
	if !res.RawClosed[1] {
		s.r.Violation(group+":raw-conn-not-closed/listener", c.ID, "the listener's underlying connection was left open", detail)
		ok = false
	}
	if res.OpenD["conn"] != 0 || res.OpenL["conn"] != 0 {
		s.r.Violation(group+":conn-scope-never-done", c.ID, "a connection scope was opened and Done was never called on it", detail)
		ok = false
	}
	return ok
}

// upgradeFaults: fault position enumeration over Upgrade.
func (s *state) upgradeFaults() {
	type cfg struct {
		proto   string
		psk     bool
		maxRead int
		stride  int
	}
	var cfgs []cfg
	for _, mr := range []int{0, 64, 7} {
		for _, p := range []string{"noise", "tls"} {
			for _, psk := range []bool{false, true} {
				st := 1
				if s.r.Quick() {
					switch {
					case mr == 7:
						continue
					case mr == 64:
						st = 5
					}
				}
				cfgs = append(cfgs, cfg{p, psk, mr, st})
			}
		}
	}
	for ci, cf := range cfgs {
		stride := cf.stride
		dry := &upCase{ID: fmt.Sprintf("upgrade/%s/psk=%v/mr%d/dry", cf.proto, cf.psk, cf.maxRead), Proto: cf.proto, PSK: cf.psk, Side: "dialer", Kind: "none", MaxRead: cf.maxRead}
		dres := s.runUpgrade(dry, nil, nil, nil)
		s.r.Eval(1)
		if !s.judgeUpgrade(dry, &dres, "upgrade") || !dres.DialOK || !dres.ListenOK {
			s.r.Inconclusive(dry.ID, fmt.Sprintf("dry run failed: %q %q", dres.DialErr, dres.ListenErr))
			continue
		}
		s.r.Extra(fmt.Sprintf("dry_ops_%s_psk%v_maxread%d", cf.proto, cf.psk, cf.maxRead), map[string]any{"dialer_reads": dres.Reads[0], "dialer_writes": dres.Writes[0], "listener_reads": dres.Reads[1], "listener_writes": dres.Writes[1]})
		var cases []*upCase
		phase := int(s.r.Seed) + ci
		for si, side := range []string{"dialer", "listener"} {
			for _, op := range []string{"read", "write"} {
				n := dres.Reads[si]
				if op == "write" {
					n = dres.Writes[si]
				}
				kinds := []string{"err", "peerclose", "stall", "cancel", "closeraw"}
				if op == "read" {
					kinds = append(kinds, "eof")
				}
				for _, kind := range kinds {
					phase++
					for k := 0; k < n+1; k++ {
						if (k+phase)%stride != 0 {
							continue
						}
						cases = append(cases, &upCase{ID: fmt.Sprintf("upgrade/%s/psk=%v/mr%d/%s/%s/%s/k%d", cf.proto, cf.psk, cf.maxRead, side, op, kind, k),
							Proto: cf.proto, PSK: cf.psk, Side: side, Op: op, K: k, Kind: kind, SetPeer: k%2 == 1 && side == "dialer", MaxRead: cf.maxRead})
					}
				}
			}
		}
		run.Parallel(len(cases), 0, func(i int) {
			c := cases[i]
			if !s.r.Want(c.ID) || s.r.TooMany() {
				return
			}
			res := s.runUpgrade(c, nil, nil, nil)
			s.r.Eval(1)
			ok := s.judgeUpgrade(c, &res, "upgrade")
			if !res.Fired {
				s.r.Count("upgrade_faults_not_reached", 1)
				return
			}
			s.r.Count("upgrade_faults_fired", 1)
			s.r.Count("upgrade_fault_"+c.Kind, 1)
			s.r.Nontrivial(c.ID)
			switch {
			case res.DialOK && res.ListenOK:
				s.r.Count("upgrade_completed_despite_fault", 1)
			case !res.DialOK && !res.ListenOK:
				s.r.Count("upgrade_failed_both_sides", 1)
				s.r.Count("upgrade_failed_one_side", 1)
			default:
				s.r.Count("upgrade_failed_one_side", 1)
			}
			if ok && i == len(cases)/2 {
				s.r.Sample(map[string]any{"case": c, "dial_err": res.DialErr, "listen_err": res.ListenErr, "raw_closed": res.RawClosed, "residue": append(res.ResidueD, res.ResidueL...)})
			}
		})
	}
}

// upgradeRefusals: gater rejection and resource-manager refusal at the n-th call of each method.
func (s *state) upgradeRefusals() {
	// gater: InterceptSecured on either side
	for _, proto := range []string{"noise", "tls"} {
		for _, side := range []string{"dialer", "listener"} {
			c := &upCase{ID: fmt.Sprintf("refuse/gater-secured/%s/%s", proto, side), Proto: proto, Side: side, Kind: "gater"}
			if !s.r.Want(c.ID) {
				continue
			}
			var gd, gl *gater
			if side == "dialer" {
				gd = newGater("Secured")
			} else {
				gl = newGater("Secured")
			}
			res := s.runUpgrade(c, gd, gl, nil)
			s.r.Eval(1)
			s.judgeUpgrade(c, &res, "refuse")
			g := gd
			if g == nil {
				g = gl
			}
			if g.calls["Secured"] > 0 {
				s.r.Count("gater_rejections_fired", 1)
				s.r.Nontrivial(c.ID)
				if (side == "dialer" && res.DialOK) || (side == "listener" && res.ListenOK) {
					s.r.Violation("refuse:gater-rejection-ignored", c.ID, "Upgrade succeeded although InterceptSecured rejected", map[string]any{"case": c, "result": res})
				}
			}
		}
	}
	// resource manager: learn the calls of a dry run, then refuse each (method, n)
	for _, proto := range []string{"noise", "tls"} {
		var callsD, callsL map[string]int
		dry := &upCase{ID: "refuse/rcmgr/" + proto + "/dry", Proto: proto, Kind: "none"}
		var dn, ln *node
		dres := s.runUpgrade(dry, nil, nil, func(d, l *node) { dn, ln = d, l })
		s.r.Eval(1)
		if !dres.Bubble.OK() || !dres.DialOK || !dres.ListenOK {
			s.r.Inconclusive(dry.ID, "dry run failed")
			continue
		}
		callsD, callsL = dn.inj.AllCalls(), ln.inj.AllCalls()
		s.r.Extra("rcmgr_calls_"+proto, map[string]any{"dialer": callsD, "listener": callsL})
		type job struct {
			side, method string
			n            int
		}
		var jobs []job
		for side, calls := range map[string]map[string]int{"dialer": callsD, "listener": callsL} {
			for m, cnt := range calls {
				for n := 0; n < cnt && n < 4; n++ {
					jobs = append(jobs, job{side, m, n})
				}
			}
		}
		sort.Slice(jobs, func(i, j int) bool { return fmt.Sprint(jobs[i]) < fmt.Sprint(jobs[j]) })
		run.Parallel(len(jobs), 0, func(i int) {
			j := jobs[i]
			c := &upCase{ID: fmt.Sprintf("refuse/rcmgr/%s/%s/%s/%d", proto, j.side, j.method, j.n), Proto: proto, Side: j.side, Kind: "rcmgr:" + j.method, K: j.n}
			if !s.r.Want(c.ID) {
				return
			}
			var target *node
			res := s.runUpgrade(c, nil, nil, func(d, l *node) {
				target = d
				if j.side == "listener" {
					target = l
				}
				target.inj.FailAt(j.method, j.n)
			})
			s.r.Eval(1)
			s.judgeUpgrade(c, &res, "refuse")
			if target != nil && target.inj.Fired(j.method) > 0 {
				s.r.Count("rcmgr_refusals_fired", 1)
				s.r.Count("rcmgr_refusal_"+j.method, 1)
				s.r.Nontrivial(c.ID)
			}
		})
	}
}
