package c04

// D. Real sockets: hosts built with libp2p.New (TCP + WebSocket on a SHARED listener so that
// tcpreuse demultiplexes, QUIC, WebTransport, WebRTC-direct; Noise and TLS) on loopback, a fault-injecting
// TCP proxy owned by the harness (cut / half-close at the k-th forwarded chunk of a dry run, silent and
// garbage clients that never get past the demultiplexer's peek), then the same audit as in the bubbles:
// every scope of both real resource managers and the per-subnet limiter back to zero, and after Close no
// socket left in /proc/self/fd. Real time is used only to WAIT for cleanup (up to 120 s before a residue
// is believed); the verdict itself is the persistent residue.

import (
	"context"
	"fmt"
	"io"
	"net"
	"os"
	"strings"
	"sync"
	"sync/atomic"
	"time"

	"github.com/libp2p/go-libp2p"
	"github.com/libp2p/go-libp2p/core/host"
	"github.com/libp2p/go-libp2p/core/network"
	"github.com/libp2p/go-libp2p/core/peer"
	"github.com/libp2p/go-libp2p/core/peerstore"
	"github.com/libp2p/go-libp2p/core/protocol"
	rcmgr "github.com/libp2p/go-libp2p/p2p/host/resource-manager"
	"github.com/libp2p/go-libp2p/p2p/security/noise"
	libp2ptls "github.com/libp2p/go-libp2p/p2p/security/tls"
	"github.com/libp2p/go-libp2p/x/rate"
	ma "github.com/multiformats/go-multiaddr"

	"verif/harness/rig/sectest"
)

const sockEcho = protocol.ID("/verif/sock-echo/1")

type sockHost struct {
	h  host.Host
	rm network.ResourceManager
}

func freeTCPPort() int {
	l, err := net.Listen("tcp", "127.0.0.1:0")
	if err != nil {
		panic(err)
	}
	defer l.Close()
	return l.Addr().(*net.TCPAddr).Port
}

func newSockHost(k *sectest.Key, listen bool, tlsFirst bool, extra ...libp2p.Option) (*sockHost, error) {
	rm, err := rcmgr.NewResourceManager(rcmgr.NewFixedLimiter(rcmgr.InfiniteLimits), rcmgr.WithConnRateLimiters(&rate.Limiter{}))
	if err != nil {
		return nil, err
	}
	opts := []libp2p.Option{libp2p.Identity(k.Priv), libp2p.ResourceManager(rm), libp2p.DisableRelay(), libp2p.ShareTCPListener(), libp2p.Ping(false)}
	if tlsFirst {
		opts = append(opts, libp2p.Security(libp2ptls.ID, libp2ptls.New), libp2p.Security(noise.ID, noise.New))
	} else {
		opts = append(opts, libp2p.Security(noise.ID, noise.New), libp2p.Security(libp2ptls.ID, libp2ptls.New))
	}
	if listen {
		p := freeTCPPort()
		opts = append(opts, libp2p.ListenAddrStrings(
			fmt.Sprintf("/ip4/127.0.0.1/tcp/%d", p), fmt.Sprintf("/ip4/127.0.0.1/tcp/%d/ws", p),
			"/ip4/127.0.0.1/udp/0/quic-v1", "/ip4/127.0.0.1/udp/0/quic-v1/webtransport", "/ip4/127.0.0.1/udp/0/webrtc-direct"))
	} else {
		opts = append(opts, libp2p.NoListenAddrs)
	}
	h, err := libp2p.New(append(opts, extra...)...)
	if err != nil {
		rm.Close()
		return nil, err
	}
	return &sockHost{h: h, rm: rm}, nil
}

func countSockets() int {
	ents, err := os.ReadDir("/proc/self/fd")
	if err != nil {
		return -1
	}
	n := 0
	for _, e := range ents {
		if t, err := os.Readlink("/proc/self/fd/" + e.Name()); err == nil && strings.HasPrefix(t, "socket:") {
			n++
		}
	}
	return n
}

// settle polls until f() reports no residue; it believes a residue only after the long deadline.
func settle(f func() []string) (res []string, waited time.Duration) {
	start := time.Now()
	for {
		res = f()
		if len(res) == 0 {
			return nil, time.Since(start)
		}
		if time.Since(start) > 120*time.Second {
			return res, time.Since(start)
		}
		time.Sleep(25 * time.Millisecond)
	}
}

// proxy forwards TCP between a client and target, counting chunks, with one fault.
type proxy struct {
	l      net.Listener
	target string
	// fault: at the k-th chunk of direction dir (0 client->server, 1 server->client): "cut" | "half"
	dir, k int
	kind   string
	chunks [2]atomic.Int64
	fired  atomic.Bool
	wg     sync.WaitGroup
}

func newProxy(target string) *proxy {
	l, err := net.Listen("tcp", "127.0.0.1:0")
	if err != nil {
		panic(err)
	}
	p := &proxy{l: l, target: target, k: -1}
	p.wg.Add(1)
	go p.serve()
	return p
}

func (p *proxy) port() int { return p.l.Addr().(*net.TCPAddr).Port }

func (p *proxy) serve() {
	defer p.wg.Done()
	for {
		c, err := p.l.Accept()
		if err != nil {
			return
		}
		t, err := net.Dial("tcp", p.target)
		if err != nil {
			c.Close()
			continue
		}
		p.wg.Add(2)
		kill := func() {
			if tc, ok := c.(*net.TCPConn); ok {
				tc.SetLinger(0)
			}
			if tc, ok := t.(*net.TCPConn); ok {
				tc.SetLinger(0)
			}
			c.Close()
			t.Close()
		}
		pump := func(dir int, src, dst net.Conn) {
			defer p.wg.Done()
			buf := make([]byte, 16<<10)
			for {
				n, err := src.Read(buf)
				if n > 0 {
					i := int(p.chunks[dir].Add(1) - 1)
					if p.kind != "" && p.dir == dir && p.k == i {
						p.fired.Store(true)
						if p.kind == "cut" {
							kill()
							return
						}
						// half: deliver, then close our write side towards dst and a little later everything
						dst.Write(buf[:n])
						if tc, ok := dst.(*net.TCPConn); ok {
							tc.CloseWrite()
						}
						time.AfterFunc(300*time.Millisecond, kill)
						return
					}
					if _, werr := dst.Write(buf[:n]); werr != nil {
						kill()
						return
					}
				}
				if err != nil {
					kill()
					return
				}
			}
		}
		go pump(0, c, t)
		go pump(1, t, c)
	}
}

func (p *proxy) close() { p.l.Close(); p.wg.Wait() }

func (s *state) socketSweep() {
	if os.Getenv("VERIF_RACE") == "1" {
		return
	}
	base := countSockets()
	ka, kb := s.pool["ed25519"][0], s.pool["ecdsa"][1]
	for fi, tlsFirst := range []bool{false, true} {
		flavour := map[bool]string{false: "noise", true: "tls"}[tlsFirst]
		if s.r.Quick() && fi == 1 && false {
			continue
		}
		id := "socket/" + flavour
		if !s.r.Want(id) {
			continue
		}
		A, err := newSockHost(ka, true, tlsFirst)
		if err != nil {
			s.r.Inconclusive(id, "cannot build listening host: "+err.Error())
			continue
		}
		B, err := newSockHost(kb, false, tlsFirst)
		if err != nil {
			A.h.Close()
			A.rm.Close()
			s.r.Inconclusive(id, "cannot build dialing host: "+err.Error())
			continue
		}
		A.h.SetStreamHandler(sockEcho, func(st network.Stream) {
			st.SetDeadline(time.Now().Add(30 * time.Second))
			io.Copy(st, st)
			st.Close()
		})
		dead := false // a residue that persisted: every later audit would only repeat it
		audit := func(what string, detail map[string]any) bool {
			if dead {
				return false
			}
			resA, wA := settle(func() []string { return residue(A.rm) })
			resB, wB := settle(func() []string { return residue(B.rm) })
			s.r.Count("socket_audits", 1)
			if wA > 30*time.Second || wB > 30*time.Second {
				s.r.Count("socket_audits_slow_cleanup", 1)
			}
			if len(resA) > 0 || len(resB) > 0 {
				detail["listener_residue"], detail["dialer_residue"] = resA, resB
				s.r.Violation("socket:resource-scope-not-released/"+what, id, fmt.Sprintf("residue 120 s after the attempt: listener %v dialer %v", resA, resB), detail)
				dead = true
				return false
			}
			return true
		}
		echo := func(ctx context.Context, via ma.Multiaddr, streams int) error {
			B.h.Network().ClosePeer(A.h.ID())
			B.h.Peerstore().ClearAddrs(A.h.ID())
			B.h.Peerstore().AddAddr(A.h.ID(), via, peerstore.TempAddrTTL)
			if err := B.h.Connect(ctx, peer.AddrInfo{ID: A.h.ID()}); err != nil {
				return fmt.Errorf("connect: %w", err)
			}
			var firstErr error
			for k := 0; k < streams; k++ {
				st, err := B.h.NewStream(ctx, A.h.ID(), sockEcho)
				if err != nil {
					return fmt.Errorf("stream: %w", err)
				}
				st.SetDeadline(time.Now().Add(20 * time.Second))
				msg := make([]byte, 20000+k)
				for i := range msg {
					msg[i] = byte(i*7 + k)
				}
				go func() { st.Write(msg); st.CloseWrite() }()
				got, err := io.ReadAll(st)
				if err != nil || string(got) != string(msg) {
					if firstErr == nil {
						firstErr = fmt.Errorf("echo: %d of %d bytes, err=%v", len(got), len(msg), err)
					}
					st.Reset()
					continue
				}
				st.Close()
			}
			return firstErr
		}
		// 1. clean runs over every transport the listener offers
		var tcpAddr, wsAddr ma.Multiaddr
		for _, a := range A.h.Addrs() {
			name := "other"
			switch as := a.String(); {
			case strings.HasSuffix(as, "/ws"):
				name, wsAddr = "ws", a
			case strings.Contains(as, "/webrtc-direct"):
				name = "webrtc"
			case strings.Contains(as, "/webtransport"):
				name = "webtransport"
			case strings.Contains(as, "/quic-v1"):
				name = "quic"
			case strings.Contains(as, "/tcp/"):
				name, tcpAddr = "tcp", a
			}
			if dead {
				break
			}
			ctx, cancel := context.WithTimeout(context.Background(), 30*time.Second)
			err := echo(ctx, a, 3)
			cancel()
			B.h.Network().ClosePeer(A.h.ID())
			s.r.Eval(1)
			if err != nil {
				s.r.Count("socket_clean_failed_"+name, 1)
				s.r.Inconclusive(id+"/clean/"+name, err.Error())
			} else {
				s.r.Count("socket_clean_ok", 1)
				s.r.Count("socket_clean_ok_"+name, 1)
				s.r.Nontrivial(id + "/clean/" + name)
			}
			audit("clean/"+name, map[string]any{"addr": a.String()})
		}
		// 2. fault proxy in front of the shared TCP/WS listener
		if tcpAddr != nil && !dead {
			target, _ := tcpAddr.ValueForProtocol(ma.P_TCP)
			for _, ws := range []bool{false, true} {
				if (ws && wsAddr == nil) || dead {
					continue
				}
				kind := map[bool]string{false: "tcp", true: "ws"}[ws]
				via := func(p *proxy) ma.Multiaddr {
					a := fmt.Sprintf("/ip4/127.0.0.1/tcp/%d", p.port())
					if ws {
						a += "/ws"
					}
					return ma.StringCast(a)
				}
				dry := newProxy("127.0.0.1:" + target)
				ctx, cancel := context.WithTimeout(context.Background(), 30*time.Second)
				err := echo(ctx, via(dry), 1)
				cancel()
				B.h.Network().ClosePeer(A.h.ID())
				time.Sleep(100 * time.Millisecond)
				n0, n1 := int(dry.chunks[0].Load()), int(dry.chunks[1].Load())
				dry.close()
				s.r.Eval(1)
				if err != nil {
					s.r.Inconclusive(id+"/proxy/"+kind+"/dry", err.Error())
					continue
				}
				audit("proxy/"+kind+"/dry", map[string]any{})
				stride := s.r.Pick(4, 1)
				phase := int(s.r.Seed)
				for dir, n := range []int{n0, n1} {
					for k := 0; k < n && k < 40 && !dead; k++ {
						for _, fk := range []string{"cut", "half"} {
							phase++
							if phase%stride != 0 {
								continue
							}
							cid := fmt.Sprintf("%s/proxy/%s/dir%d/k%d/%s", id, kind, dir, k, fk)
							p := newProxy("127.0.0.1:" + target)
							p.dir, p.k, p.kind = dir, k, fk
							ctx, cancel := context.WithTimeout(context.Background(), 20*time.Second)
							err := echo(ctx, via(p), 1)
							cancel()
							B.h.Network().ClosePeer(A.h.ID())
							s.r.Eval(1)
							if p.fired.Load() {
								s.r.Count("socket_proxy_faults_fired", 1)
								s.r.Nontrivial(cid)
								if err != nil {
									s.r.Count("socket_proxy_attempt_failed", 1)
								}
							}
							ok := audit("proxy/"+kind+"/"+fk, map[string]any{"case": cid, "attempt_err": fmt.Sprint(err)})
							p.close()
							if !ok || s.r.TooMany() {
								break
							}
						}
					}
				}
			}
			// 2b. dial targets that refuse the connection (dial-side failure before any upgrade)
			for _, suffix := range []string{"", "/ws"} {
				if dead {
					continue
				}
				closed := freeTCPPort()
				ctx, cancel := context.WithTimeout(context.Background(), 10*time.Second)
				err := echo(ctx, ma.StringCast(fmt.Sprintf("/ip4/127.0.0.1/tcp/%d%s", closed, suffix)), 1)
				cancel()
				s.r.Eval(1)
				if err != nil {
					s.r.Count("socket_refused_dials", 1)
				}
				audit("refused-dial"+suffix, map[string]any{"err": fmt.Sprint(err)})
			}
			// 3. clients that never get past the demultiplexer: silent, 1-2 bytes then close, garbage
			// ... and complete HTTP requests that reach the websocket listener but that its upgrader has to refuse
			httpReq := func(h string) []byte { return []byte("GET / HTTP/1.1\r\nHost: verif\r\n" + h + "\r\n") }
			for i, payload := range [][]byte{nil, {0x13}, {0x13, '/'}, []byte("GET"), []byte("\x16\x03\x01garbage-not-tls"), []byte("\x13/multistream/1.0.0\n\x07/nope/\n"),
				httpReq(""), httpReq("Connection: Upgrade\r\nUpgrade: websocket\r\nSec-WebSocket-Version: 13\r\n"),
				httpReq("Connection: Upgrade\r\nUpgrade: websocket\r\nSec-WebSocket-Version: 12\r\nSec-WebSocket-Key: dGhlIHNhbXBsZSBub25jZQ==\r\n")} {
				for _, hold := range []time.Duration{0, 300 * time.Millisecond} {
					if dead {
						continue
					}
					c, err := net.Dial("tcp", "127.0.0.1:"+target)
					if err != nil {
						continue
					}
					if payload != nil {
						c.Write(payload)
					}
					if len(payload) > 10 && string(payload[:4]) == "GET " {
						// wait for the listener's answer: the request went all the way to the upgrader
						c.SetReadDeadline(time.Now().Add(3 * time.Second))
						buf := make([]byte, 512)
						if n, _ := c.Read(buf); n > 12 && string(buf[:5]) == "HTTP/" {
							s.r.Count("socket_http_requests_answered_"+string(buf[9:12]), 1)
						}
						if wsAddr != nil && hold > 0 && i%2 == 1 {
							// this client stays on the connection: the listener has to give it up by itself
							s.r.Eval(1)
							s.r.Count("socket_raw_clients", 1)
							s.r.Count("socket_refused_upgrade_clients_that_stay_connected", 1)
							audit("raw-client-stays-after-refused-upgrade", map[string]any{"payload": fmt.Sprintf("%q", payload)})
							c.Close()
							continue
						}
					}
					time.Sleep(hold)
					if i%2 == 0 {
						if tc, ok := c.(*net.TCPConn); ok {
							tc.SetLinger(0)
						}
					}
					c.Close()
					s.r.Eval(1)
					s.r.Count("socket_raw_clients", 1)
					audit("raw-client", map[string]any{"payload": fmt.Sprintf("%q", payload), "hold": hold.String()})
				}
			}
		}
		// 3b. a burst of inbound connections lands right at Close: connections the shared listener has
		// identified (their scope is open) but no transport has accepted yet must be closed and released too
		var burst []net.Conn
		var bmu sync.Mutex
		var bwg sync.WaitGroup
		for _, a := range A.h.Addrs() {
			if p, err := a.ValueForProtocol(ma.P_TCP); err == nil && !dead {
				for i := 0; i < 160; i++ {
					bwg.Add(1)
					go func(i int) {
						defer bwg.Done()
						c, err := net.DialTimeout("tcp", "127.0.0.1:"+p, 5*time.Second)
						if err != nil {
							return
						}
						switch i % 3 {
						case 0:
							c.Write([]byte("\x13/multistream/1.0.0\n"))
						case 1:
							c.Write([]byte("GET / HTTP/1.1\r\n"))
						}
						bmu.Lock()
						burst = append(burst, c)
						bmu.Unlock()
					}(i)
				}
				break
			}
		}
		time.Sleep(3 * time.Millisecond)
		// 4. Close: "usage in every scope is zero and all of its listeners, connections and streams are gone"
		B.h.Close()
		A.h.Close()
		bwg.Wait()
		s.r.Count("socket_burst_conns_at_close", len(burst))
		for _, c := range burst {
			c.Close()
		}
		if !dead {
			audit("after-host-close", map[string]any{})
		}
		dead = false
		if n := len(A.h.Network().Conns()) + len(A.h.Network().ListenAddresses()) + len(B.h.Network().Conns()); n != 0 {
			s.r.Violation("socket:conns-or-listeners-left-after-close", id, fmt.Sprintf("%d conns/listen addresses left after Close", n), map[string]any{})
		}
		A.rm.Close()
		B.rm.Close()
	}
	// 5. bursts at Close, repeated on fresh listening hosts with different pauses between the start of the
	// burst and Close (which connections are where at that moment is a matter of real timing)
	for k, pause := range []time.Duration{0, 200 * time.Microsecond, time.Millisecond, 3 * time.Millisecond, 10 * time.Millisecond, 0, time.Millisecond, 30 * time.Millisecond} {
		id := fmt.Sprintf("socket/burst-at-close/%d", k)
		if !s.r.Want(id) || s.r.TooMany() {
			continue
		}
		A, err := newSockHost(ka, true, k%2 == 1)
		if err != nil {
			continue
		}
		port := ""
		for _, a := range A.h.Addrs() {
			if p, err := a.ValueForProtocol(ma.P_TCP); err == nil {
				port = p
				break
			}
		}
		var burst []net.Conn
		var bmu sync.Mutex
		var bwg sync.WaitGroup
		for i := 0; i < 200 && port != ""; i++ {
			bwg.Add(1)
			go func(i int) {
				defer bwg.Done()
				c, err := net.DialTimeout("tcp", "127.0.0.1:"+port, 5*time.Second)
				if err != nil {
					return
				}
				switch i % 3 {
				case 0:
					c.Write([]byte("\x13/multistream/1.0.0\n"))
				case 1:
					c.Write([]byte("GET / HTTP/1.1\r\n"))
				}
				bmu.Lock()
				burst = append(burst, c)
				bmu.Unlock()
			}(i)
		}
		time.Sleep(pause)
		A.h.Close()
		bwg.Wait()
		for _, c := range burst {
			c.Close()
		}
		s.r.Eval(1)
		s.r.Count("socket_burst_conns_at_close", len(burst))
		res, _ := settle(func() []string { return residue(A.rm) })
		if len(res) > 0 {
			s.r.Violation("socket:resource-scope-not-released/burst-at-close", id, fmt.Sprintf("residue 120 s after the host was closed during a burst of %d inbound connections: %v", len(burst), res), map[string]any{"pause_before_close": pause.String(), "burst": len(burst)})
			A.rm.Close()
			break
		}
		s.r.Nontrivial(id)
		A.rm.Close()
	}
	// sockets back to the baseline?
	deadline := time.Now().Add(60 * time.Second)
	left := 0
	for {
		left = countSockets() - base
		if left <= 0 || time.Now().After(deadline) {
			break
		}
		time.Sleep(50 * time.Millisecond)
	}
	s.r.Extra("socket_fds_baseline_and_left", []int{base, left})
	if left > 0 {
		s.r.Violation("socket:fd-left-open-after-close", "socket/fds", fmt.Sprintf("%d sockets more than before the sweep are still open 60 s after every host was closed", left), map[string]any{"baseline": base})
	}
	s.r.Require("socket_clean_ok", 4)
	s.r.Require("socket_proxy_faults_fired", 10)
	s.r.Require("socket_raw_clients", 6)
	s.r.Require("socket_refused_upgrade_clients_that_stay_connected", 1)
}
