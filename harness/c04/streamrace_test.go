package c04

import (
	"context"
	"fmt"
	"sync/atomic"
	"testing"
	"testing/synctest"
	"time"

	"github.com/libp2p/go-libp2p/core/network"
	"github.com/libp2p/go-libp2p/core/peer"
	"github.com/libp2p/go-libp2p/core/peerstore"
	"github.com/libp2p/go-libp2p/p2p/net/swarm"
	ma "github.com/multiformats/go-multiaddr"

	"verif/harness/rig/rcwrap"
	"verif/harness/rig/run"
	"verif/harness/rig/scripttpt"
	"verif/harness/rig/swarmrig"
)

// D. a REAL swarm with a REAL resource manager on scripted transports: a close placed EXACTLY at one of
// the points of a stream open (the fake muxer and the resource-manager wrapper call back from inside
// the swarm's own call, between two of its critical sections). Whatever the outcome of the open, the
// stream scope opened for it must be released: every scope back to zero once the conn is gone.

type srCase struct {
	ID     string `json:"id"`
	Dir    string `json:"direction"` // outbound | inbound
	Point  string `json:"point"`     // rcmgr-openstream | mux-open-returned | stream-setprotocol | after-open
	Closer string `json:"closer"`    // conn | peer | swarm | remote
	Nth    int    `json:"nth_stream"`
}

type srResult struct {
	DialErr    string
	OpenErrs   []string
	Opened     int
	MuxStreams int64
	Fired      bool
	LostRace   bool // the muxer had opened the stream, the swarm refused to register it
	Residue    []string
	Open       map[string]int
	Bubble     run.BubbleResult
}

func (s *state) runStreamRace(c *srCase, slot int) (res srResult) {
	pool := swarmrig.Pool(64)
	remote := pool.ID[32+slot]
	res.Bubble = run.Bubble(s.t, func(t *testing.T) {
		inj := rcwrap.NewInjector()
		rm := rcwrap.Wrap(newRcmgr(), inj)
		var fired atomic.Bool
		defer func() { res.Fired = fired.Load() }()
		rig, err := swarmrig.New(slot, func(string, ma.Multiaddr, peer.ID, int) scripttpt.Outcome {
			return scripttpt.Outcome{Kind: "ok"}
		}, swarm.WithResourceManager(rm))
		if err != nil {
			panic(err)
		}
		raddr := ma.StringCast(fmt.Sprintf("/ip4/10.9.%d.2/tcp/4001", slot))
		ctx, cancel := context.WithTimeout(context.Background(), 30*time.Second)
		defer cancel()
		var sc network.Conn
		var fc *scripttpt.Conn
		if c.Dir == "outbound" {
			rig.PS.AddAddrs(remote, []ma.Multiaddr{raddr}, peerstore.PermanentAddrTTL)
			sc, err = rig.Swarm.DialPeer(ctx, remote)
			if err != nil {
				res.DialErr = err.Error()
			} else if cs := rig.TCP.Conns(); len(cs) > 0 {
				fc = cs[0]
			}
		} else {
			if err := rig.Swarm.Listen(ma.StringCast("/ip4/10.9.0.1/tcp/4001")); err != nil {
				res.DialErr = err.Error()
			} else {
				fc = rig.TCP.Listeners()[0].Inject(remote, raddr)
				synctest.Wait()
				if cs := rig.Swarm.ConnsToPeer(remote); len(cs) > 0 {
					sc = cs[0]
				} else {
					res.DialErr = "injected inbound conn was not added to the swarm"
				}
			}
		}
		if sc != nil && fc != nil {
			rig.Swarm.SetStreamHandler(func(st network.Stream) {
				st.SetProtocol("/verif/x")
				st.Reset()
			})
			closer := func() {
				fired.Store(true)
				switch c.Closer {
				case "conn":
					sc.Close()
				case "peer":
					rig.Swarm.ClosePeer(remote)
				case "swarm":
					if c.Dir == "inbound" && c.Point != "after-open" {
						// the caller is one of the swarm's own goroutines (accept loop, stream handler), which
						// Swarm.Close waits for: it cannot run on that goroutine
						go rig.Swarm.Close()
					} else {
						rig.Swarm.Close()
					}
				case "remote":
					fc.RemoteClose()
				}
			}
			streams := 0
			switch c.Point {
			case "rcmgr-openstream":
				inj.OnCall(func(m string, n int) {
					if m == "OpenStream" && n == c.Nth {
						closer()
					}
				})
			case "stream-setprotocol":
				inj.OnCall(func(m string, n int) {
					if m == "Stream.SetProtocol" && n == c.Nth {
						closer()
					}
				})
			case "mux-open-returned":
				fc.OnOpenStream = func() {
					if streams == c.Nth {
						closer()
					}
					streams++
				}
			}
			for i := 0; i <= c.Nth+1; i++ {
				if c.Dir == "outbound" {
					st, err := sc.NewStream(ctx)
					if err != nil {
						res.OpenErrs = append(res.OpenErrs, err.Error())
						continue
					}
					res.Opened++
					st.SetProtocol("/verif/x")
					if c.Point == "after-open" && i == c.Nth {
						closer()
					}
					if i%2 == 0 {
						st.Close()
					} // else: left to the conn's close
				} else {
					fc.DeliverStream()
					synctest.Wait()
					if c.Point == "after-open" && i == c.Nth {
						closer()
					}
				}
			}
			res.MuxStreams = fc.Streams()
			res.LostRace = c.Point == "mux-open-returned" && fired.Load() && len(res.OpenErrs) > 0
		}
		synctest.Wait()
		rig.Close()
		synctest.Wait()
		res.Residue = residue(rm)
		res.Open = inj.Open()
		rm.Close()
	})
	return
}

func (s *state) streamRaceCases() {
	var cases []*srCase
	for _, dir := range []string{"outbound", "inbound"} {
		points := []string{"rcmgr-openstream", "stream-setprotocol", "after-open"}
		if dir == "outbound" {
			points = append(points, "mux-open-returned")
		}
		for _, pt := range points {
			for _, cl := range []string{"conn", "peer", "swarm", "remote"} {
				for _, nth := range []int{0, 1, 2} {
					cases = append(cases, &srCase{ID: fmt.Sprintf("streamrace/%s/%s/%s/stream%d", dir, pt, cl, nth), Dir: dir, Point: pt, Closer: cl, Nth: nth})
				}
			}
		}
	}
	slots := swarmrig.NewSlots(24)
	run.Parallel(len(cases), 0, func(i int) {
		c := cases[i]
		if !s.r.Want(c.ID) || s.r.TooMany() {
			return
		}
		slot := slots.Get()
		res := s.runStreamRace(c, slot)
		slots.Put(slot)
		s.r.Eval(1)
		detail := map[string]any{"case": c, "result": res}
		if s.r.BubbleFailed(res.Bubble, "streamrace", c.ID, "goroutines left blocked for ever after the swarm was closed", detail) {
			return
		}
		if res.DialErr != "" {
			s.r.Inconclusive(c.ID, "could not set the connection up: "+res.DialErr)
			return
		}
		if len(res.Residue) > 0 || len(res.Open) > 0 {
			s.r.Violation("streamrace:resource-scope-not-released", c.ID, fmt.Sprintf("after a close at %s (%s) and Swarm.Close, the resource manager is not back to zero: %v, scopes never Done: %v", c.Point, c.Closer, res.Residue, res.Open), detail)
			return
		}
		if !res.Fired {
			s.r.Count("streamrace_point_not_reached", 1)
			return
		}
		s.r.Nontrivial(c.ID)
		s.r.Count("streamrace_closes_placed", 1)
		if res.LostRace {
			s.r.Count("streamrace_open_lost_after_mux_open", 1)
		}
		if c.ID == "streamrace/outbound/mux-open-returned/conn/stream1" {
			s.r.Sample(detail)
		}
	})
	s.r.Require("streamrace_closes_placed", 40)
	s.r.Require("streamrace_open_lost_after_mux_open", 6)
}
