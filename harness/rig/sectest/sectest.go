// Package sectest holds helpers shared by the checks that drive the real security transports and the
// real upgrader over memnet: identity key pools, transport constructors, a framing man in the middle.
package sectest

import (
	"crypto/rand"
	"encoding/binary"
	"fmt"
	"io"
	"sync"

	"github.com/libp2p/go-libp2p/core/crypto"
	"github.com/libp2p/go-libp2p/core/peer"
	"github.com/libp2p/go-libp2p/core/sec"
	"github.com/libp2p/go-libp2p/p2p/muxer/yamux"
	"github.com/libp2p/go-libp2p/p2p/net/upgrader"
	"github.com/libp2p/go-libp2p/p2p/security/noise"
	libp2ptls "github.com/libp2p/go-libp2p/p2p/security/tls"

	"verif/harness/rig/memnet"
)

// Key is an identity with its derived peer ID.
type Key struct {
	Priv crypto.PrivKey
	Pub  crypto.PubKey
	ID   peer.ID
	Type string
}

var KeyTypes = []string{"ed25519", "ecdsa", "secp256k1", "rsa"}

func GenKey(typ string) *Key {
	var t, bits int
	switch typ {
	case "ed25519":
		t = crypto.Ed25519
	case "ecdsa":
		t = crypto.ECDSA
	case "secp256k1":
		t = crypto.Secp256k1
	case "rsa":
		t, bits = crypto.RSA, 2048
	default:
		panic("bad key type " + typ)
	}
	priv, pub, err := crypto.GenerateKeyPairWithReader(t, bits, rand.Reader)
	if err != nil {
		panic(err)
	}
	id, err := peer.IDFromPublicKey(pub)
	if err != nil {
		panic(err)
	}
	return &Key{Priv: priv, Pub: pub, ID: id, Type: typ}
}

// Pool holds n keys of every type (generated once per process; keys are data, the case lists are
// what is seeded).
type Pool map[string][]*Key

func NewPool(n int) Pool {
	p := Pool{}
	var wg sync.WaitGroup
	var mu sync.Mutex
	for _, typ := range KeyTypes {
		for i := 0; i < n; i++ {
			wg.Add(1)
			go func() {
				defer wg.Done()
				k := GenKey(typ)
				mu.Lock()
				p[typ] = append(p[typ], k)
				mu.Unlock()
			}()
		}
	}
	wg.Wait()
	return p
}

var Muxers = []upgrader.StreamMuxer{{ID: yamux.ID, Muxer: yamux.DefaultTransport}}

func NewNoise(k *Key) *noise.Transport {
	t, err := noise.New(noise.ID, k.Priv, Muxers)
	if err != nil {
		panic(err)
	}
	return t
}

func NewTLS(k *Key) *libp2ptls.Transport {
	t, err := libp2ptls.New(libp2ptls.ID, k.Priv, Muxers)
	if err != nil {
		panic(err)
	}
	return t
}

func NewSec(proto string, k *Key) sec.SecureTransport {
	if proto == "tls" {
		return NewTLS(k)
	}
	return NewNoise(k)
}

// Edit is one man-in-the-middle edit of the Msg-th frame travelling in direction Dir.
type Edit struct {
	Dir  int    `json:"dir"`  // 0: initiator->responder, 1: responder->initiator
	Msg  int    `json:"msg"`  // frame index within that direction
	Kind string `json:"kind"` // flip | trunc | truncfix | ext | extfix | drop | dup | swap | replace
	Off  int    `json:"off"`  // flip: byte offset inside the frame (header included)
	Bit  uint   `json:"bit"`
	N    int    `json:"n"` // trunc/ext: number of bytes
}

func (e *Edit) String() string {
	if e == nil {
		return "none"
	}
	return fmt.Sprintf("%s/dir%d/msg%d/off%d/bit%d/n%d", e.Kind, e.Dir, e.Msg, e.Off, e.Bit, e.N)
}

// Frame describes one frame the MITM forwarded.
type Frame struct {
	Start int64 // byte offset of the frame in its direction's stream
	Len   int   // header + body
	Type  byte  // first byte (TLS record type; Noise: high length byte)
}

// MITM relays between two memnet endpoints, re-framing the byte stream (Noise: 2-byte big-endian
// length prefix; TLS: 5-byte record header) and applying at most one Edit.
type MITM struct {
	proto string
	ends  [2]*memnet.Conn // ends[0] faces the initiator, ends[1] faces the responder
	edit  *Edit
	// Swap, when set, is called for Kind=="swap"/"replace": it gets the original frame and returns the
	// frame to forward instead (nil = drop).
	Swap func(frame []byte) []byte

	mu      sync.Mutex
	frames  [2][]Frame
	applied bool
	raw     [2][][]byte // copies of the forwarded originals (only when KeepRaw)
	KeepRaw bool
	in, out [2][]byte // what the sender wrote / what was delivered to the receiver, per direction (first 1 MiB)
	wg      sync.WaitGroup
}

func NewMITM(proto string, towardsInitiator, towardsResponder *memnet.Conn, e *Edit) *MITM {
	return &MITM{proto: proto, ends: [2]*memnet.Conn{towardsInitiator, towardsResponder}, edit: e}
}

func (m *MITM) Start() {
	m.wg.Add(2)
	go m.relay(0)
	go m.relay(1)
}

func (m *MITM) Wait() { m.wg.Wait() }

func (m *MITM) Applied() bool { m.mu.Lock(); defer m.mu.Unlock(); return m.applied }

func (m *MITM) Frames(dir int) []Frame {
	m.mu.Lock()
	defer m.mu.Unlock()
	return append([]Frame(nil), m.frames[dir]...)
}

// Unaltered reports whether the first n bytes delivered in direction dir are exactly the first n bytes
// the sender wrote (an edit whose replacement bytes happen to equal the original ones, e.g. a truncation
// refilled by the first byte of the next frame, changes nothing for the receiver).
func (m *MITM) Unaltered(dir int, n int64) bool {
	m.mu.Lock()
	defer m.mu.Unlock()
	if int64(len(m.in[dir])) < n || int64(len(m.out[dir])) < n {
		return false
	}
	return string(m.in[dir][:n]) == string(m.out[dir][:n])
}

func (m *MITM) Raw(dir int) [][]byte { m.mu.Lock(); defer m.mu.Unlock(); return m.raw[dir] }

func (m *MITM) headerLen() int {
	if m.proto == "tls" {
		return 5
	}
	return 2
}

func (m *MITM) readFrame(src io.Reader) ([]byte, error) {
	h := make([]byte, m.headerLen())
	if _, err := io.ReadFull(src, h); err != nil {
		return nil, err
	}
	var n int
	if m.proto == "tls" {
		n = int(binary.BigEndian.Uint16(h[3:5]))
	} else {
		n = int(binary.BigEndian.Uint16(h[0:2]))
	}
	f := make([]byte, len(h)+n)
	copy(f, h)
	if _, err := io.ReadFull(src, f[len(h):]); err != nil {
		return nil, err
	}
	return f, nil
}

func (m *MITM) fixLen(f []byte) {
	n := len(f) - m.headerLen()
	if n < 0 || n > 0xffff {
		return
	}
	if m.proto == "tls" {
		binary.BigEndian.PutUint16(f[3:5], uint16(n))
	} else {
		binary.BigEndian.PutUint16(f[0:2], uint16(n))
	}
}

// relay forwards frames travelling in direction dir (0: from ends[0] to ends[1]).
func (m *MITM) relay(dir int) {
	defer m.wg.Done()
	src, dst := m.ends[dir], m.ends[1-dir]
	defer func() {
		// tear the whole path down when one direction ends
		m.ends[0].Close()
		m.ends[1].Close()
	}()
	var off int64
	for j := 0; ; j++ {
		f, err := m.readFrame(src)
		if err != nil {
			return
		}
		m.mu.Lock()
		m.frames[dir] = append(m.frames[dir], Frame{Start: off, Len: len(f), Type: f[0]})
		if m.KeepRaw {
			m.raw[dir] = append(m.raw[dir], append([]byte(nil), f...))
		}
		m.mu.Unlock()
		off += int64(len(f))
		m.mu.Lock()
		if len(m.in[dir]) < 1<<20 {
			m.in[dir] = append(m.in[dir], f...)
		}
		m.mu.Unlock()
		out := [][]byte{f}
		if e := m.edit; e != nil && e.Dir == dir && e.Msg == j {
			applied := true
			hl := m.headerLen()
			switch e.Kind {
			case "flip":
				if e.Off < len(f) {
					f[e.Off] ^= 1 << e.Bit
				} else {
					applied = false
				}
			case "trunc", "truncfix":
				if e.N <= 0 || e.N > len(f)-hl {
					applied = false
				} else {
					f = f[:len(f)-e.N]
					if e.Kind == "truncfix" {
						m.fixLen(f)
					}
					out = [][]byte{f}
				}
			case "ext", "extfix":
				extra := make([]byte, e.N)
				for i := range extra {
					extra[i] = byte(0xA5 + i)
				}
				f = append(f, extra...)
				if e.Kind == "extfix" {
					if len(f)-hl > 0xffff {
						applied = false
					}
					m.fixLen(f)
				}
				out = [][]byte{f}
			case "drop":
				out = nil
			case "dup":
				out = [][]byte{f, f}
			case "swapnext":
				// hold this frame back and send it after the next one
				g, err := m.readFrame(src)
				if err != nil {
					applied = false
					break
				}
				m.mu.Lock()
				m.frames[dir] = append(m.frames[dir], Frame{Start: off, Len: len(g), Type: g[0]})
				if len(m.in[dir]) < 1<<20 {
					m.in[dir] = append(m.in[dir], g...)
				}
				m.mu.Unlock()
				off += int64(len(g))
				j++
				out = [][]byte{g, f}
			case "swap", "replace":
				if m.Swap == nil {
					applied = false
				} else if g := m.Swap(f); g == nil {
					applied = false
				} else {
					out = [][]byte{g}
				}
			default:
				applied = false
			}
			if applied {
				m.mu.Lock()
				m.applied = true
				m.mu.Unlock()
			}
		}
		for _, o := range out {
			m.mu.Lock()
			if len(m.out[dir]) < 1<<20 {
				m.out[dir] = append(m.out[dir], o...)
			}
			m.mu.Unlock()
			if _, err := dst.Write(o); err != nil {
				return
			}
		}
	}
}
