// Package memnet provides buffered in-memory net.Conn / manet.Conn / manet.Listener implementations
// whose blocking is channel based (so a testing/synctest bubble sees blocked goroutines as durably
// blocked), with arbitrary multiaddrs, deadlines, per-operation fault scripts and close observation.
package memnet

import (
	"errors"
	"io"
	"net"
	"os"
	"sync"
	"sync/atomic"
	"time"

	ma "github.com/multiformats/go-multiaddr"
	manet "github.com/multiformats/go-multiaddr/net"
)

// ErrInjected is returned by operations hit by an injected fault.
var ErrInjected = errors.New("memnet: injected fault")

type Op int

const (
	OpRead Op = iota
	OpWrite
)

type FaultKind int

const (
	FaultNone      FaultKind = iota
	FaultErr                 // the operation (and all later ones) fail with ErrInjected
	FaultEOF                 // reads report io.EOF from now on (peer's write side seen closed), writes fail
	FaultPeerClose           // the remote endpoint is closed at this point
	FaultStall               // the operation blocks until its deadline or until the conn is closed
)

func (k FaultKind) String() string {
	return [...]string{"none", "err", "eof", "peerclose", "stall"}[k]
}

// Fault fires at the K-th (0-based) invocation of Op on the endpoint it is installed on.
type Fault struct {
	Op   Op
	K    int
	Kind FaultKind
}

// half is one direction of a pipe.
type half struct {
	mu      sync.Mutex
	buf     []byte
	wclosed bool // writer side closed: reader drains then gets EOF
	rclosed bool // reader side closed: writer gets EPIPE
	notify  chan struct{}
	max     int
}

func newHalf(max int) *half { return &half{notify: make(chan struct{}), max: max} }

func (h *half) signalLocked() {
	close(h.notify)
	h.notify = make(chan struct{})
}

// deadline is modelled on net.Pipe's pipeDeadline.
type deadline struct {
	mu     sync.Mutex
	timer  *time.Timer
	cancel chan struct{}
}

func makeDeadline() deadline { return deadline{cancel: make(chan struct{})} }

func (d *deadline) set(t time.Time) {
	d.mu.Lock()
	defer d.mu.Unlock()
	if d.timer != nil && !d.timer.Stop() {
		<-d.cancel // wait for the timer callback to finish and close cancel
	}
	d.timer = nil
	closed := isClosedChan(d.cancel)
	if t.IsZero() {
		if closed {
			d.cancel = make(chan struct{})
		}
		return
	}
	if dur := time.Until(t); dur > 0 {
		if closed {
			d.cancel = make(chan struct{})
		}
		d.timer = time.AfterFunc(dur, func() { close(d.cancel) })
		return
	}
	if !closed {
		close(d.cancel)
	}
}

func (d *deadline) wait() chan struct{} {
	d.mu.Lock()
	defer d.mu.Unlock()
	return d.cancel
}

func isClosedChan(c <-chan struct{}) bool {
	select {
	case <-c:
		return true
	default:
		return false
	}
}

// Conn is one endpoint of an in-memory connection.
type Conn struct {
	name   string
	rd, wr *half // rd: peer->us, wr: us->peer
	peer   *Conn

	laddr, raddr   ma.Multiaddr
	lnaddr, rnaddr net.Addr

	closeOnce sync.Once
	closed    chan struct{}
	rdl, wdl  deadline

	nRead, nWrite    atomic.Int64
	bytesRead        atomic.Int64
	eofWithData      atomic.Bool
	eofWithDataFired atomic.Int64
	bytesWritten     atomic.Int64
	closeCalls       atomic.Int64

	fmu      sync.Mutex
	faults   []Fault
	sticky   error // set once an Err/EOF fault fired
	maxRead  func(k int) int
	onOp     func(op Op, k int)
	fired    atomic.Int64
	ReadHook func(p []byte) // observes bytes delivered to the reader
}

type addr string

func (a addr) Network() string { return "memnet" }
func (a addr) String() string  { return string(a) }

func toNetAddr(m ma.Multiaddr) net.Addr {
	if m == nil {
		return addr("")
	}
	if na, err := manet.ToNetAddr(m); err == nil {
		return na
	}
	return addr(m.String())
}

// Pipe creates a connected pair. a is the "dialer" endpoint with local address la and remote lb.
// bufMax bounds each direction's buffer (0 = 1 MiB).
func Pipe(la, lb ma.Multiaddr, bufMax int) (a, b *Conn) {
	if bufMax <= 0 {
		bufMax = 1 << 20
	}
	ab, ba := newHalf(bufMax), newHalf(bufMax)
	a = &Conn{name: "a", rd: ba, wr: ab, laddr: la, raddr: lb, closed: make(chan struct{}), rdl: makeDeadline(), wdl: makeDeadline()}
	b = &Conn{name: "b", rd: ab, wr: ba, laddr: lb, raddr: la, closed: make(chan struct{}), rdl: makeDeadline(), wdl: makeDeadline()}
	a.peer, b.peer = b, a
	a.lnaddr, a.rnaddr = toNetAddr(la), toNetAddr(lb)
	b.lnaddr, b.rnaddr = toNetAddr(lb), toNetAddr(la)
	return a, b
}

var _ manet.Conn = (*Conn)(nil)

func (c *Conn) LocalAddr() net.Addr           { return c.lnaddr }
func (c *Conn) RemoteAddr() net.Addr          { return c.rnaddr }
func (c *Conn) LocalMultiaddr() ma.Multiaddr  { return c.laddr }
func (c *Conn) RemoteMultiaddr() ma.Multiaddr { return c.raddr }
func (c *Conn) Peer() *Conn                   { return c.peer }
func (c *Conn) IsClosed() bool                { return isClosedChan(c.closed) }
func (c *Conn) CloseCalls() int               { return int(c.closeCalls.Load()) }
func (c *Conn) Reads() int                    { return int(c.nRead.Load()) }
func (c *Conn) Writes() int                   { return int(c.nWrite.Load()) }
func (c *Conn) BytesRead() int64              { return c.bytesRead.Load() }
func (c *Conn) BytesWritten() int64           { return c.bytesWritten.Load() }
func (c *Conn) FaultsFired() int              { return int(c.fired.Load()) }
func (c *Conn) SetFaults(f ...Fault)          { c.fmu.Lock(); c.faults = f; c.fmu.Unlock() }
func (c *Conn) SetMaxRead(f func(k int) int)  { c.fmu.Lock(); c.maxRead = f; c.fmu.Unlock() }
func (c *Conn) SetOnOp(f func(op Op, k int))  { c.fmu.Lock(); c.onOp = f; c.fmu.Unlock() }

func (c *Conn) Close() error {
	c.closeCalls.Add(1)
	c.closeOnce.Do(func() {
		close(c.closed)
		c.wr.mu.Lock()
		c.wr.wclosed = true
		c.wr.signalLocked()
		c.wr.mu.Unlock()
		c.rd.mu.Lock()
		c.rd.rclosed = true
		c.rd.signalLocked()
		c.rd.mu.Unlock()
	})
	return nil
}

// CloseWrite half-closes: the peer reads EOF after draining.
func (c *Conn) CloseWrite() error {
	c.wr.mu.Lock()
	c.wr.wclosed = true
	c.wr.signalLocked()
	c.wr.mu.Unlock()
	return nil
}

// CloseRead makes further writes of the peer fail.
func (c *Conn) CloseRead() error {
	c.rd.mu.Lock()
	c.rd.rclosed = true
	c.rd.signalLocked()
	c.rd.mu.Unlock()
	return nil
}

func (c *Conn) SetDeadline(t time.Time) error {
	if c.IsClosed() {
		return io.ErrClosedPipe
	}
	c.rdl.set(t)
	c.wdl.set(t)
	return nil
}
func (c *Conn) SetReadDeadline(t time.Time) error {
	if c.IsClosed() {
		return io.ErrClosedPipe
	}
	c.rdl.set(t)
	return nil
}
func (c *Conn) SetWriteDeadline(t time.Time) error {
	if c.IsClosed() {
		return io.ErrClosedPipe
	}
	c.wdl.set(t)
	return nil
}

// fault returns the fault for this op invocation (if any) and the sticky error.
func (c *Conn) fault(op Op, k int) (FaultKind, error, func(int) int) {
	c.fmu.Lock()
	defer c.fmu.Unlock()
	if c.onOp != nil {
		f := c.onOp
		c.fmu.Unlock()
		f(op, k)
		c.fmu.Lock()
	}
	for _, f := range c.faults {
		if f.Op == op && f.K == k {
			c.fired.Add(1)
			switch f.Kind {
			case FaultErr:
				c.sticky = ErrInjected
			case FaultEOF:
				c.sticky = io.EOF
			}
			return f.Kind, c.sticky, c.maxRead
		}
	}
	return FaultNone, c.sticky, c.maxRead
}

// stall blocks until the conn is closed or its deadline passes. Write stalls additionally end after
// StallRealCap of REAL time: code that writes while holding a sync.Mutex another goroutine waits for
// would otherwise wedge a synctest bubble (a mutex waiter is not durably blocked, so virtual time
// cannot advance to the deadline). Waiting on a channel made outside the bubble freezes virtual time
// for that long and then reports a timeout, which is what the deadline would have reported.
func (c *Conn) stall(dl *deadline, write bool) error {
	var real <-chan struct{}
	if write {
		real = RealAfter(StallRealCap)
	}
	select {
	case <-c.closed:
		return io.ErrClosedPipe
	case <-dl.wait():
		return os.ErrDeadlineExceeded
	case <-real:
		return os.ErrDeadlineExceeded
	}
}

// StallRealCap bounds a write stall in real time.
var StallRealCap = 25 * time.Millisecond

var (
	realMu   sync.Mutex
	realReqs = make(chan time.Duration)     // made at init: outside every bubble
	realResp = make(chan (<-chan struct{})) // made at init: outside every bubble
)

func init() {
	// started at package init, i.e. outside every bubble: its timers and channels are real
	go func() {
		for d := range realReqs {
			c := make(chan struct{})
			time.AfterFunc(d, func() { close(c) })
			realResp <- c
		}
	}()
}

// RealAfter returns a channel (made outside any bubble) that is closed after d of real time.
func RealAfter(d time.Duration) <-chan struct{} {
	realMu.Lock()
	defer realMu.Unlock()
	realReqs <- d
	return <-realResp
}

// SetEOFWithData makes Read return the last buffered bytes together with io.EOF in one call once the
// peer has closed its write side (legal for an io.Reader; real sockets never do it, wrappers may).
func (c *Conn) SetEOFWithData(on bool) { c.eofWithData.Store(on) }

// EOFWithDataFired counts the reads that returned (n > 0, io.EOF).
func (c *Conn) EOFWithDataFired() int64 { return c.eofWithDataFired.Load() }

func (c *Conn) Read(p []byte) (int, error) {
	k := int(c.nRead.Add(1) - 1)
	kind, sticky, maxRead := c.fault(OpRead, k)
	switch kind {
	case FaultPeerClose:
		c.peer.Close()
	case FaultStall:
		return 0, c.stall(&c.rdl, false)
	}
	if sticky != nil {
		if sticky == io.EOF {
			return 0, io.EOF
		}
		return 0, sticky
	}
	if maxRead != nil {
		if m := maxRead(k); m > 0 && m < len(p) {
			p = p[:m]
		}
	}
	for {
		if isClosedChan(c.closed) {
			return 0, io.ErrClosedPipe
		}
		if isClosedChan(c.rdl.wait()) {
			return 0, os.ErrDeadlineExceeded
		}
		h := c.rd
		h.mu.Lock()
		if len(h.buf) > 0 {
			if len(p) == 0 {
				h.mu.Unlock()
				return 0, nil
			}
			n := copy(p, h.buf)
			h.buf = h.buf[n:]
			if len(h.buf) == 0 {
				h.buf = nil
			}
			// io.Reader allows the final bytes and the error in ONE call (iotest.DataErrReader): opt-in
			last := c.eofWithData.Load() && len(h.buf) == 0 && h.wclosed
			h.signalLocked()
			h.mu.Unlock()
			c.bytesRead.Add(int64(n))
			if c.ReadHook != nil {
				c.ReadHook(p[:n])
			}
			if last {
				c.eofWithDataFired.Add(1)
				return n, io.EOF
			}
			return n, nil
		}
		if h.wclosed {
			h.mu.Unlock()
			return 0, io.EOF
		}
		if len(p) == 0 {
			h.mu.Unlock()
			return 0, nil
		}
		ch := h.notify
		h.mu.Unlock()
		select {
		case <-ch:
		case <-c.closed:
			return 0, io.ErrClosedPipe
		case <-c.rdl.wait():
			return 0, os.ErrDeadlineExceeded
		}
	}
}

func (c *Conn) Write(p []byte) (int, error) {
	k := int(c.nWrite.Add(1) - 1)
	kind, sticky, _ := c.fault(OpWrite, k)
	switch kind {
	case FaultPeerClose:
		c.peer.Close()
	case FaultStall:
		return 0, c.stall(&c.wdl, true)
	}
	if sticky != nil {
		if sticky == io.EOF {
			return 0, io.ErrClosedPipe
		}
		return 0, sticky
	}
	total := 0
	for len(p) > 0 {
		if isClosedChan(c.closed) {
			return total, io.ErrClosedPipe
		}
		if isClosedChan(c.wdl.wait()) {
			return total, os.ErrDeadlineExceeded
		}
		h := c.wr
		h.mu.Lock()
		if h.rclosed {
			h.mu.Unlock()
			return total, io.ErrClosedPipe
		}
		if room := h.max - len(h.buf); room > 0 {
			n := len(p)
			if n > room {
				n = room
			}
			h.buf = append(h.buf, p[:n]...)
			p = p[n:]
			total += n
			h.signalLocked()
			h.mu.Unlock()
			c.bytesWritten.Add(int64(n))
			continue
		}
		ch := h.notify
		h.mu.Unlock()
		select {
		case <-ch:
		case <-c.closed:
			return total, io.ErrClosedPipe
		case <-c.wdl.wait():
			return total, os.ErrDeadlineExceeded
		}
	}
	return total, nil
}

// Listener is an in-memory manet.Listener.
type Listener struct {
	laddr  ma.Multiaddr
	ch     chan *Conn
	once   sync.Once
	closed chan struct{}

	mu       sync.Mutex
	accepted []*Conn
	pending  int
}

var _ manet.Listener = (*Listener)(nil)

func NewListener(laddr ma.Multiaddr, backlog int) *Listener {
	return &Listener{laddr: laddr, ch: make(chan *Conn, backlog), closed: make(chan struct{})}
}

// Connect creates a pair and queues the listener side; it returns the dialer side, or nil if the
// listener is closed. It blocks while the backlog is full unless the listener closes.
func (l *Listener) Connect(from ma.Multiaddr, bufMax int) (dialer, listenerSide *Conn) {
	a, b := Pipe(from, l.laddr, bufMax)
	select {
	case <-l.closed:
		a.Close()
		b.Close()
		return nil, nil
	default:
	}
	select {
	case l.ch <- b:
		return a, b
	case <-l.closed:
		a.Close()
		b.Close()
		return nil, nil
	}
}

// Offer queues an already created listener-side endpoint; it blocks while the backlog is full and
// returns false if the listener is (or gets) closed.
func (l *Listener) Offer(b *Conn) bool {
	select {
	case <-l.closed:
		return false
	default:
	}
	select {
	case l.ch <- b:
		// the listener may have been closed in between: make sure the conn does not linger
		if isClosedChan(l.closed) {
			l.Drain()
		}
		return true
	case <-l.closed:
		return false
	}
}

func (l *Listener) Accept() (manet.Conn, error) {
	select {
	case <-l.closed:
		return nil, net.ErrClosed
	default:
	}
	select {
	case c := <-l.ch:
		l.mu.Lock()
		l.accepted = append(l.accepted, c)
		l.mu.Unlock()
		return c, nil
	case <-l.closed:
		return nil, net.ErrClosed
	}
}

// Close closes the listener; connections still waiting in the backlog are reset, as a kernel does.
func (l *Listener) Close() error {
	l.once.Do(func() { close(l.closed) })
	l.Drain()
	return nil
}

// Drain closes conns that were queued but never accepted (call after Close); returns how many.
func (l *Listener) Drain() int {
	n := 0
	for {
		select {
		case c := <-l.ch:
			c.Close()
			n++
		default:
			return n
		}
	}
}

func (l *Listener) Multiaddr() ma.Multiaddr { return l.laddr }
func (l *Listener) Addr() net.Addr          { return toNetAddr(l.laddr) }
func (l *Listener) IsClosed() bool          { return isClosedChan(l.closed) }
