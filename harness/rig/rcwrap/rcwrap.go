// Package rcwrap wraps a real network.ResourceManager so that the n-th call of a chosen method is
// refused (with an error wrapping network.ErrResourceLimitExceeded) WITHOUT reaching the real
// manager, and records which scope objects were handed out and whether Done was called on them.
package rcwrap

import (
	"fmt"
	"net"
	"sync"

	"github.com/libp2p/go-libp2p/core/network"
	"github.com/libp2p/go-libp2p/core/peer"
	"github.com/libp2p/go-libp2p/core/protocol"
	ma "github.com/multiformats/go-multiaddr"
)

// Injector decides which calls fail. Method names: OpenConnection, OpenStream, Conn.SetPeer,
// Conn.BeginSpan, Conn.ReserveMemory, Peer.BeginSpan, Peer.ReserveMemory, Span.ReserveMemory,
// Span.BeginSpan, Stream.SetProtocol, Stream.SetService, Stream.ReserveMemory, Stream.BeginSpan.
type Injector struct {
	mu     sync.Mutex
	calls  map[string]int
	failAt map[string]int
	fired  map[string]int
	open   map[string]int // scopes handed out and not yet Done, by kind
	onCall func(method string, n int)
}

func NewInjector() *Injector {
	return &Injector{calls: map[string]int{}, failAt: map[string]int{}, fired: map[string]int{}, open: map[string]int{}}
}

// FailAt makes the n-th (0-based) call of method fail.
func (i *Injector) FailAt(method string, n int) { i.mu.Lock(); i.failAt[method] = n; i.mu.Unlock() }

// OnCall installs a callback that runs at every wrapped call (method, 0-based index), before the call
// reaches the real manager and outside the injector's lock: a point between two of the code's own
// critical sections where a racing action (a close) can be placed exactly.
func (i *Injector) OnCall(f func(method string, n int)) { i.mu.Lock(); i.onCall = f; i.mu.Unlock() }

func (i *Injector) Calls(method string) int { i.mu.Lock(); defer i.mu.Unlock(); return i.calls[method] }
func (i *Injector) Fired(method string) int { i.mu.Lock(); defer i.mu.Unlock(); return i.fired[method] }
func (i *Injector) AllCalls() map[string]int {
	i.mu.Lock()
	defer i.mu.Unlock()
	m := map[string]int{}
	for k, v := range i.calls {
		m[k] = v
	}
	return m
}

// Open returns how many scopes of a kind ("conn", "stream", "span") were handed out and not Done.
func (i *Injector) Open() map[string]int {
	i.mu.Lock()
	defer i.mu.Unlock()
	m := map[string]int{}
	for k, v := range i.open {
		if v != 0 {
			m[k] = v
		}
	}
	return m
}

func (i *Injector) hit(method string) error {
	i.mu.Lock()
	n := i.calls[method]
	i.calls[method] = n + 1
	f := i.onCall
	i.mu.Unlock()
	if f != nil {
		f(method, n)
	}
	i.mu.Lock()
	defer i.mu.Unlock()
	if at, ok := i.failAt[method]; ok && at == n {
		i.fired[method]++
		return fmt.Errorf("rcwrap: injected refusal of %s call #%d: %w", method, n, network.ErrResourceLimitExceeded)
	}
	return nil
}

func (i *Injector) track(kind string, d int) { i.mu.Lock(); i.open[kind] += d; i.mu.Unlock() }

type Manager struct {
	network.ResourceManager
	inj *Injector
}

func Wrap(rm network.ResourceManager, inj *Injector) *Manager {
	return &Manager{ResourceManager: rm, inj: inj}
}

func (m *Manager) Unwrap() network.ResourceManager { return m.ResourceManager }

func (m *Manager) OpenConnection(dir network.Direction, usefd bool, endpoint ma.Multiaddr) (network.ConnManagementScope, error) {
	if err := m.inj.hit("OpenConnection"); err != nil {
		return nil, err
	}
	s, err := m.ResourceManager.OpenConnection(dir, usefd, endpoint)
	if err != nil {
		return nil, err
	}
	m.inj.track("conn", 1)
	return &connScope{ConnManagementScope: s, inj: m.inj}, nil
}

func (m *Manager) OpenStream(p peer.ID, dir network.Direction) (network.StreamManagementScope, error) {
	if err := m.inj.hit("OpenStream"); err != nil {
		return nil, err
	}
	s, err := m.ResourceManager.OpenStream(p, dir)
	if err != nil {
		return nil, err
	}
	m.inj.track("stream", 1)
	return &streamScope{StreamManagementScope: s, inj: m.inj}, nil
}

func (m *Manager) VerifySourceAddress(addr net.Addr) bool {
	return m.ResourceManager.VerifySourceAddress(addr)
}

type connScope struct {
	network.ConnManagementScope
	inj  *Injector
	once sync.Once
}

func (c *connScope) SetPeer(p peer.ID) error {
	if err := c.inj.hit("Conn.SetPeer"); err != nil {
		return err
	}
	return c.ConnManagementScope.SetPeer(p)
}

func (c *connScope) ReserveMemory(size int, prio uint8) error {
	if err := c.inj.hit("Conn.ReserveMemory"); err != nil {
		return err
	}
	return c.ConnManagementScope.ReserveMemory(size, prio)
}

func (c *connScope) BeginSpan() (network.ResourceScopeSpan, error) {
	if err := c.inj.hit("Conn.BeginSpan"); err != nil {
		return nil, err
	}
	s, err := c.ConnManagementScope.BeginSpan()
	if err != nil {
		return nil, err
	}
	c.inj.track("span", 1)
	return &span{ResourceScopeSpan: s, inj: c.inj}, nil
}

func (c *connScope) PeerScope() network.PeerScope {
	ps := c.ConnManagementScope.PeerScope()
	if ps == nil {
		return nil
	}
	return &peerScope{PeerScope: ps, inj: c.inj}
}

func (c *connScope) Done() {
	c.once.Do(func() { c.inj.track("conn", -1) })
	c.ConnManagementScope.Done()
}

type peerScope struct {
	network.PeerScope
	inj *Injector
}

func (p *peerScope) ReserveMemory(size int, prio uint8) error {
	if err := p.inj.hit("Peer.ReserveMemory"); err != nil {
		return err
	}
	return p.PeerScope.ReserveMemory(size, prio)
}

func (p *peerScope) BeginSpan() (network.ResourceScopeSpan, error) {
	if err := p.inj.hit("Peer.BeginSpan"); err != nil {
		return nil, err
	}
	s, err := p.PeerScope.BeginSpan()
	if err != nil {
		return nil, err
	}
	p.inj.track("span", 1)
	return &span{ResourceScopeSpan: s, inj: p.inj}, nil
}

type span struct {
	network.ResourceScopeSpan
	inj  *Injector
	once sync.Once
}

func (s *span) ReserveMemory(size int, prio uint8) error {
	if err := s.inj.hit("Span.ReserveMemory"); err != nil {
		return err
	}
	return s.ResourceScopeSpan.ReserveMemory(size, prio)
}

func (s *span) BeginSpan() (network.ResourceScopeSpan, error) {
	if err := s.inj.hit("Span.BeginSpan"); err != nil {
		return nil, err
	}
	c, err := s.ResourceScopeSpan.BeginSpan()
	if err != nil {
		return nil, err
	}
	s.inj.track("span", 1)
	return &span{ResourceScopeSpan: c, inj: s.inj}, nil
}

func (s *span) Done() {
	s.once.Do(func() { s.inj.track("span", -1) })
	s.ResourceScopeSpan.Done()
}

type streamScope struct {
	network.StreamManagementScope
	inj  *Injector
	once sync.Once
}

func (s *streamScope) SetProtocol(p protocol.ID) error {
	if err := s.inj.hit("Stream.SetProtocol"); err != nil {
		return err
	}
	return s.StreamManagementScope.SetProtocol(p)
}

func (s *streamScope) SetService(srv string) error {
	if err := s.inj.hit("Stream.SetService"); err != nil {
		return err
	}
	return s.StreamManagementScope.SetService(srv)
}

func (s *streamScope) ReserveMemory(size int, prio uint8) error {
	if err := s.inj.hit("Stream.ReserveMemory"); err != nil {
		return err
	}
	return s.StreamManagementScope.ReserveMemory(size, prio)
}

func (s *streamScope) BeginSpan() (network.ResourceScopeSpan, error) {
	if err := s.inj.hit("Stream.BeginSpan"); err != nil {
		return nil, err
	}
	c, err := s.StreamManagementScope.BeginSpan()
	if err != nil {
		return nil, err
	}
	s.inj.track("span", 1)
	return &span{ResourceScopeSpan: c, inj: s.inj}, nil
}

func (s *streamScope) Done() {
	s.once.Do(func() { s.inj.track("stream", -1) })
	s.StreamManagementScope.Done()
}
