// Package memtpt provides a transport.Transport for the REAL swarm that is built from the REAL upgrader
// (multistream + Noise/TLS + yamux, optional PSK, real resource manager, real gater) over memnet pipes.
// Dialing goes through the real tcp.TcpTransport (its DialWithUpdates / dialWithScope path) by means of
// its WithDialerForAddr option; listening wraps a memnet.Listener with upgrader.UpgradeListener.
// Everything is channel based and therefore usable inside testing/synctest bubbles.
package memtpt

import (
	"context"
	"fmt"
	"net"
	"sync"
	"sync/atomic"

	"github.com/libp2p/go-libp2p/core/connmgr"
	"github.com/libp2p/go-libp2p/core/network"
	"github.com/libp2p/go-libp2p/core/peer"
	ipnet "github.com/libp2p/go-libp2p/core/pnet"
	"github.com/libp2p/go-libp2p/core/sec"
	"github.com/libp2p/go-libp2p/core/transport"
	"github.com/libp2p/go-libp2p/p2p/net/upgrader"
	"github.com/libp2p/go-libp2p/p2p/transport/tcp"
	ma "github.com/multiformats/go-multiaddr"
	manet "github.com/multiformats/go-multiaddr/net"

	"verif/harness/rig/memnet"
	"verif/harness/rig/sectest"
)

// Fabric is the in-memory "network": listeners by "ip:port".
type Fabric struct {
	mu        sync.Mutex
	listeners map[string]*memnet.Listener
	conns     []*memnet.Conn // every raw endpoint ever created (dialer side, listener side alternating)
	// OnConnect is called with both raw endpoints before the dialer side is handed out (install faults here).
	OnConnect func(dialer, listener *memnet.Conn)
	// DialErr, when set, may fail a raw dial before any pipe is made.
	DialErr func(from, to ma.Multiaddr) error
	BufMax  int
}

func NewFabric() *Fabric { return &Fabric{listeners: map[string]*memnet.Listener{}} }

func hostPort(a ma.Multiaddr) (string, error) {
	na, err := manet.ToNetAddr(a)
	if err != nil {
		return "", err
	}
	return na.String(), nil
}

// Conns returns every raw endpoint created so far.
func (f *Fabric) Conns() []*memnet.Conn {
	f.mu.Lock()
	defer f.mu.Unlock()
	return append([]*memnet.Conn(nil), f.conns...)
}

// OpenConns returns raw endpoints that have not been closed.
func (f *Fabric) OpenConns() []*memnet.Conn {
	var out []*memnet.Conn
	for _, c := range f.Conns() {
		if !c.IsClosed() {
			out = append(out, c)
		}
	}
	return out
}

func (f *Fabric) listen(laddr ma.Multiaddr, backlog int) (*memnet.Listener, error) {
	hp, err := hostPort(laddr)
	if err != nil {
		return nil, err
	}
	f.mu.Lock()
	defer f.mu.Unlock()
	if l, ok := f.listeners[hp]; ok && !l.IsClosed() {
		return nil, fmt.Errorf("memtpt: address in use: %s", hp)
	}
	l := memnet.NewListener(laddr, backlog)
	f.listeners[hp] = l
	return l, nil
}

// Connect makes a raw connection from the address `from` to whoever listens on `to`.
func (f *Fabric) Connect(ctx context.Context, from, to ma.Multiaddr) (*memnet.Conn, error) {
	hp, err := hostPort(to)
	if err != nil {
		return nil, err
	}
	if f.DialErr != nil {
		if err := f.DialErr(from, to); err != nil {
			return nil, err
		}
	}
	f.mu.Lock()
	l := f.listeners[hp]
	f.mu.Unlock()
	if l == nil || l.IsClosed() {
		return nil, &net.OpError{Op: "dial", Net: "tcp", Err: fmt.Errorf("connection refused (memtpt %s)", hp)}
	}
	a, b := memnet.Pipe(from, l.Multiaddr(), f.BufMax)
	if f.OnConnect != nil {
		f.OnConnect(a, b)
	}
	f.mu.Lock()
	f.conns = append(f.conns, a, b)
	f.mu.Unlock()
	if !l.Offer(b) {
		a.Close()
		b.Close()
		return nil, &net.OpError{Op: "dial", Net: "tcp", Err: fmt.Errorf("connection refused (memtpt %s closed)", hp)}
	}
	return a, nil
}

// Config describes one node's transport stack.
type Config struct {
	Key      *sectest.Key
	Security string // "noise" | "tls"
	PSK      ipnet.PSK
	Rcmgr    network.ResourceManager
	Gater    connmgr.ConnectionGater
	LocalIP  string // source IP of outgoing raw conns, e.g. "10.0.0.1"
	Backlog  int
	UpgOpts  []upgrader.Option
}

// Transport is the swarm-facing transport.
type Transport struct {
	*tcp.TcpTransport
	fabric   *Fabric
	upgrader transport.Upgrader
	cfg      Config
	nextPort atomic.Int64

	mu        sync.Mutex
	listeners []*memnet.Listener
}

type fabricDialer struct{ t *Transport }

func (d fabricDialer) DialContext(ctx context.Context, network, address string) (net.Conn, error) {
	host, port, err := net.SplitHostPort(address)
	if err != nil {
		return nil, err
	}
	ipv := "ip4"
	if ip := net.ParseIP(host); ip != nil && ip.To4() == nil {
		ipv = "ip6"
	}
	to, err := ma.NewMultiaddr(fmt.Sprintf("/%s/%s/tcp/%s", ipv, host, port))
	if err != nil {
		return nil, err
	}
	from := ma.StringCast(fmt.Sprintf("/ip4/%s/tcp/%d", d.t.cfg.LocalIP, 50000+d.t.nextPort.Add(1)))
	c, err := d.t.fabric.Connect(ctx, from, to)
	if err != nil {
		return nil, err
	}
	return c, nil
}

func New(f *Fabric, cfg Config) (*Transport, error) {
	if cfg.Rcmgr == nil {
		cfg.Rcmgr = &network.NullResourceManager{}
	}
	if cfg.LocalIP == "" {
		cfg.LocalIP = "10.9.9.9"
	}
	if cfg.Backlog == 0 {
		cfg.Backlog = 64
	}
	u, err := upgrader.New([]sec.SecureTransport{sectest.NewSec(cfg.Security, cfg.Key)}, sectest.Muxers, cfg.PSK, cfg.Rcmgr, cfg.Gater, cfg.UpgOpts...)
	if err != nil {
		return nil, err
	}
	t := &Transport{fabric: f, upgrader: u, cfg: cfg}
	tt, err := tcp.NewTCPTransport(u, cfg.Rcmgr, nil, tcp.DisableReuseport(),
		tcp.WithDialerForAddr(func(ma.Multiaddr) (tcp.ContextDialer, error) { return fabricDialer{t}, nil }))
	if err != nil {
		return nil, err
	}
	t.TcpTransport = tt
	return t, nil
}

func (t *Transport) Upgrader() transport.Upgrader { return t.upgrader }

// Listen overrides TcpTransport.Listen: an in-memory listener upgraded by the real upgrader.
func (t *Transport) Listen(laddr ma.Multiaddr) (transport.Listener, error) {
	ml, err := t.fabric.listen(laddr, t.cfg.Backlog)
	if err != nil {
		return nil, err
	}
	t.mu.Lock()
	t.listeners = append(t.listeners, ml)
	t.mu.Unlock()
	return t.upgrader.UpgradeListener(t, ml), nil
}

// RawListeners returns the memnet listeners created by Listen.
func (t *Transport) RawListeners() []*memnet.Listener {
	t.mu.Lock()
	defer t.mu.Unlock()
	return append([]*memnet.Listener(nil), t.listeners...)
}

// Dial is promoted from TcpTransport (DialWithUpdates -> dialWithScope -> upgrader.Upgrade).
var _ transport.Transport = (*Transport)(nil)

func (t *Transport) String() string { return "memtpt" }

func (t *Transport) DialDirect(ctx context.Context, raddr ma.Multiaddr, p peer.ID) (transport.CapableConn, error) {
	return t.TcpTransport.Dial(ctx, raddr, p)
}
