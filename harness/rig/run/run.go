// Package run is the shared spine of every property check: tier/seed handling, deterministic PRNGs,
// measured coverage counters, violation/known-finding bookkeeping, replay files, the evidence file
// and the result file that the `check` driver turns into the exit-code contract.
package run

import (
	"encoding/json"
	"fmt"
	"hash/fnv"
	"math/rand/v2"
	"os"
	"path/filepath"
	"runtime"
	"sort"
	"strconv"
	"strings"
	"sync"
	"sync/atomic"
	"testing"
	"time"
)

// Violation is one refuted case.
type Violation struct {
	Signature string `json:"signature"` // structural signature (op kinds + which observable disagreed)
	CaseID    string `json:"case_id"`
	Message   string `json:"message"`
	Replay    string `json:"replay,omitempty"`
	Known     bool   `json:"known,omitempty"`
}

type knownFinding struct {
	Property  string `json:"property"`
	Signature string `json:"signature"`
	What      string `json:"what"`
}

type knownFile struct {
	Known []knownFinding `json:"known"`
	Fixed []string       `json:"fixed"`
}

// R is one run of one property check.
type R struct {
	T     *testing.T
	Prop  string
	Tier  string
	Seed  int64
	Level string

	start time.Time

	mu           sync.Mutex
	evals        atomic.Int64
	distinct     map[uint64]struct{}
	distinctBulk int
	samples      []any
	counters     map[string]int64
	required     map[string]int64
	extra        map[string]any
	violations   []Violation
	knownPrinted map[string]int
	inconclusive []string
	rule         string
	assumptions  []string
	exhaustive   *bool

	known      []knownFinding
	replayCase string // when non-empty only this case id runs
	finished   bool
}

func envOr(k, d string) string {
	if v := os.Getenv(k); v != "" {
		return v
	}
	return d
}

// New starts a run. level is the EVIDENCE level (exploration, fault_enumeration, ...).
func New(t *testing.T, prop, level string) *R {
	r := &R{T: t, Prop: prop, Level: level, start: time.Now(),
		distinct: map[uint64]struct{}{}, counters: map[string]int64{}, required: map[string]int64{},
		extra: map[string]any{}, knownPrinted: map[string]int{}}
	r.Tier = envOr("VERIF_TIER", "quick")
	if r.Tier != "quick" && r.Tier != "thorough" {
		r.Tier = "quick"
	}
	seed, err := strconv.ParseInt(envOr("VERIF_SEED", "1"), 10, 64)
	if err != nil {
		seed = 1
	}
	r.Seed = seed
	if kf := envOr("VERIF_KNOWN", "/verif/known_findings.json"); kf != "" {
		if b, err := os.ReadFile(kf); err == nil {
			var f knownFile
			if json.Unmarshal(b, &f) == nil {
				for _, k := range f.Known {
					if k.Property == prop {
						r.known = append(r.known, k)
					}
				}
			}
		}
	}
	if rp := os.Getenv("VERIF_REPLAY"); rp != "" {
		b, err := os.ReadFile(rp)
		if err != nil {
			t.Fatalf("replay file: %v", err)
		}
		var rf struct {
			Property string `json:"property"`
			Seed     int64  `json:"seed"`
			Tier     string `json:"tier"`
			CaseID   string `json:"case_id"`
		}
		if err := json.Unmarshal(b, &rf); err != nil {
			t.Fatalf("replay file: %v", err)
		}
		r.Seed, r.Tier, r.replayCase = rf.Seed, rf.Tier, rf.CaseID
	}
	return r
}

func (r *R) Quick() bool { return r.Tier == "quick" }

// Pick returns q in the quick tier and th in the thorough tier.
func (r *R) Pick(q, th int) int {
	if r.Quick() {
		return q
	}
	return th
}

// Want reports whether the case with this id should run (always true unless replaying).
func (r *R) Want(caseID string) bool {
	return r.replayCase == "" || r.replayCase == caseID
}

// Replaying is true when a single recorded case is being re-run.
func (r *R) Replaying() bool { return r.replayCase != "" }

// Rand returns a PRNG determined by (seed, stream ids).
func (r *R) Rand(ids ...uint64) *rand.Rand {
	h := fnv.New64a()
	fmt.Fprintf(h, "%s/%d", r.Prop, r.Seed)
	for _, id := range ids {
		fmt.Fprintf(h, "/%d", id)
	}
	s := h.Sum64()
	return rand.New(rand.NewPCG(uint64(r.Seed), s))
}

func (r *R) Rule(s string)           { r.rule = s }
func (r *R) Assume(s ...string)      { r.assumptions = append(r.assumptions, s...) }
func (r *R) Exhaustive(b bool)       { r.exhaustive = &b }
func (r *R) Eval(n int)              { r.evals.Add(int64(n)) }
func (r *R) Evals() int64            { return r.evals.Load() }
func (r *R) Extra(k string, v any)   { r.mu.Lock(); r.extra[k] = v; r.mu.Unlock() }
func (r *R) Require(k string, n int) { r.mu.Lock(); r.required[k] = int64(n); r.mu.Unlock() }

// Count adds n to a named measured counter (reported in coverage.counters).
func (r *R) Count(name string, n int) {
	r.mu.Lock()
	r.counters[name] += int64(n)
	r.mu.Unlock()
}

func (r *R) Counter(name string) int64 {
	r.mu.Lock()
	defer r.mu.Unlock()
	return r.counters[name]
}

// Nontrivial records one case that reached the behaviour the check exists for; key identifies the case
// for distinctness (hash of the generated case).
func (r *R) Nontrivial(key string) {
	h := fnv.New64a()
	h.Write([]byte(key))
	s := h.Sum64()
	r.mu.Lock()
	r.distinct[s] = struct{}{}
	r.mu.Unlock()
}

// NontrivialN adds n cases that are distinct by construction (e.g. enumerated sequences).
func (r *R) NontrivialN(n int) {
	r.mu.Lock()
	r.distinctBulk += n
	r.mu.Unlock()
}

// Sample keeps up to max 6 sample cases for the evidence file.
func (r *R) Sample(v any) {
	r.mu.Lock()
	if len(r.samples) < 6 {
		r.samples = append(r.samples, v)
	}
	r.mu.Unlock()
}

// SampleN returns how many samples were stored so far.
func (r *R) SampleN() int { r.mu.Lock(); defer r.mu.Unlock(); return len(r.samples) }

// Inconclusive records a case that could not be decided (watchdog, checker timeout, ...).
func (r *R) Inconclusive(caseID, why string) {
	r.mu.Lock()
	if len(r.inconclusive) < 50 {
		r.inconclusive = append(r.inconclusive, caseID+": "+why)
	}
	r.counters["inconclusive_cases"]++
	r.mu.Unlock()
}

// Violations returns the number of genuine (not known) violations so far.
func (r *R) Violations() int {
	r.mu.Lock()
	defer r.mu.Unlock()
	n := 0
	for _, v := range r.violations {
		if !v.Known {
			n++
		}
	}
	return n
}

// TooMany tells generators to stop early once enough witnesses were collected.
func (r *R) TooMany() bool { return r.Violations() >= 10 }

func (r *R) matchKnown(sig string) *knownFinding {
	for i := range r.known {
		k := &r.known[i]
		if k.Signature == sig || (strings.HasSuffix(k.Signature, "*") && strings.HasPrefix(sig, strings.TrimSuffix(k.Signature, "*"))) {
			return k
		}
	}
	return nil
}

// Violation records a refuted case. sig is the structural signature used for known-finding matching,
// detail is stored in the replay file.
func (r *R) Violation(sig, caseID, msg string, detail any) {
	r.mu.Lock()
	defer r.mu.Unlock()
	if k := r.matchKnown(sig); k != nil {
		r.knownPrinted[k.Signature]++
		if r.knownPrinted[k.Signature] <= 1 {
			r.violations = append(r.violations, Violation{Signature: sig, CaseID: caseID, Message: msg, Known: true})
		}
		return
	}
	n := 0
	for _, v := range r.violations {
		if !v.Known {
			n++
		}
	}
	if n >= 25 {
		r.counters["violations_not_recorded"]++
		return
	}
	dir := envOr("VERIF_REPLAY_DIR", "/verif/replays")
	os.MkdirAll(dir, 0o755)
	path := filepath.Join(dir, fmt.Sprintf("%s-%s-seed%d-%d.json", r.Prop, r.Tier, r.Seed, n))
	rf := map[string]any{"property": r.Prop, "seed": r.Seed, "tier": r.Tier, "case_id": caseID,
		"signature": sig, "message": msg, "detail": detail}
	b, err := json.MarshalIndent(rf, "", " ")
	if err != nil {
		rf["detail"] = fmt.Sprintf("%+v", detail)
		b, _ = json.MarshalIndent(rf, "", " ")
	}
	os.WriteFile(path, b, 0o644)
	r.violations = append(r.violations, Violation{Signature: sig, CaseID: caseID, Message: msg, Replay: path})
	r.T.Logf("VIOLATION %s case=%s sig=%s: %s", r.Prop, caseID, sig, msg)
}

// Finish writes the evidence and result files and fails the test on violations.
func (r *R) Finish() {
	r.mu.Lock()
	if r.finished {
		r.mu.Unlock()
		return
	}
	r.finished = true
	var lines []string
	nviol := 0
	for _, v := range r.violations {
		if v.Known {
			k := r.matchKnown(v.Signature)
			lines = append(lines, fmt.Sprintf("KNOWN-FINDING: property=%s %s [signature=%s, seen %d times this run]", r.Prop, k.What, k.Signature, r.knownPrinted[k.Signature]))
		} else {
			nviol++
			lines = append(lines, fmt.Sprintf("VIOLATION property=%s replay=%s", r.Prop, v.Replay))
			lines = append(lines, fmt.Sprintf("  detail: case=%s signature=%s %s", v.CaseID, v.Signature, v.Message))
		}
	}
	// self-check: path classes the check exists to exercise must have been reached
	var missing []string
	if !r.Replaying() {
		for k, min := range r.required {
			if r.counters[k] < min {
				missing = append(missing, fmt.Sprintf("%s=%d<%d", k, r.counters[k], min))
			}
		}
		sort.Strings(missing)
		if r.evals.Load() == 0 {
			missing = append(missing, "evaluations=0")
		}
	}
	for _, m := range missing {
		lines = append(lines, fmt.Sprintf("INCONCLUSIVE property=%s required observation not reached: %s", r.Prop, m))
	}
	for _, m := range r.inconclusive {
		lines = append(lines, fmt.Sprintf("NOTE property=%s inconclusive case: %s", r.Prop, m))
	}
	cov := map[string]any{
		"evaluations":         r.evals.Load(),
		"distinct_nontrivial": len(r.distinct) + r.distinctBulk,
		"rule":                r.rule,
		"samples":             r.samples,
		"counters":            r.counters,
	}
	if r.samples == nil {
		cov["samples"] = []any{}
	}
	if len(r.required) > 0 {
		// vacuity guards: observations without which the run is INCONCLUSIVE, and what was observed
		req := map[string]any{}
		for k, min := range r.required {
			req[k] = map[string]int64{"min": min, "observed": r.counters[k]}
		}
		cov["required_observations"] = req
	}
	if r.exhaustive != nil {
		cov["exhaustive"] = *r.exhaustive
	}
	if len(r.inconclusive) > 0 {
		cov["inconclusive"] = r.inconclusive
	}
	for k, v := range r.extra {
		cov[k] = v
	}
	cov["gomaxprocs"] = runtime.GOMAXPROCS(0)
	ev := map[string]any{
		"property_id": r.Prop, "tier": r.Tier, "seed": r.Seed, "level": r.Level,
		"coverage": cov, "assumptions": r.assumptions,
		"wall_s": time.Since(r.start).Seconds(), "violations": nviol,
	}
	if r.assumptions == nil {
		ev["assumptions"] = []string{}
	}
	r.mu.Unlock()

	if !r.Replaying() {
		if p := envOr("VERIF_EVIDENCE", ""); p != "" {
			b, err := json.MarshalIndent(ev, "", " ")
			if err != nil {
				r.T.Fatalf("evidence marshal: %v", err)
			}
			os.MkdirAll(filepath.Dir(p), 0o755)
			if err := os.WriteFile(p, append(b, '\n'), 0o644); err != nil {
				r.T.Fatalf("evidence write: %v", err)
			}
		}
	}
	status := "OK"
	if nviol > 0 {
		status = "VIOLATED"
	} else if len(missing) > 0 {
		status = "INCONCLUSIVE"
	}
	lines = append(lines, fmt.Sprintf("RESULT property=%s status=%s tier=%s seed=%d evaluations=%d distinct_nontrivial=%d wall_s=%.1f",
		r.Prop, status, r.Tier, r.Seed, r.evals.Load(), len(r.distinct)+r.distinctBulk, time.Since(r.start).Seconds()))
	if p := envOr("VERIF_RESULT", ""); p != "" {
		os.WriteFile(p, []byte(strings.Join(lines, "\n")+"\n"), 0o644)
	}
	for _, l := range lines {
		r.T.Log(l)
	}
	if nviol > 0 {
		r.T.Fail()
	}
}

// Parallel runs fn(i) for i in [0,n) on `workers` goroutines (0 = GOMAXPROCS).
func Parallel(n, workers int, fn func(i int)) {
	if workers <= 0 {
		workers = runtime.GOMAXPROCS(0)
	}
	if workers > n {
		workers = n
	}
	if workers <= 1 {
		for i := 0; i < n; i++ {
			fn(i)
		}
		return
	}
	var next atomic.Int64
	var wg sync.WaitGroup
	for w := 0; w < workers; w++ {
		wg.Add(1)
		go func() {
			defer wg.Done()
			for {
				i := int(next.Add(1) - 1)
				if i >= n {
					return
				}
				fn(i)
			}
		}()
	}
	wg.Wait()
}

// Watchdog runs fn and reports whether it returned within d of real time. It is a backstop only;
// verdicts never depend on it except for properties whose statement includes progress.
func Watchdog(d time.Duration, fn func()) bool {
	done := make(chan struct{})
	go func() { defer close(done); fn() }()
	select {
	case <-done:
		return true
	case <-time.After(d):
		return false
	}
}

// Stacks returns a dump of all goroutines (for stall witnesses).
func Stacks() string {
	buf := make([]byte, 1<<20)
	n := runtime.Stack(buf, true)
	return string(buf[:n])
}
