package run

import (
	"fmt"
	"regexp"
	"runtime"
	"strings"
	"testing"
	"testing/synctest"
	"time"
)

// BubbleResult describes how a synctest bubble ended.
type BubbleResult struct {
	Wedged   bool   // real-time watchdog fired: the bubble neither finished nor deadlocked (a goroutine waits for a sync.Mutex whose holder waits for virtual time, DESIGN.md 2.2); inconclusive, never a violation
	Deadlock bool   // all goroutines of the bubble were durably blocked and the root had not returned
	Panic    any    // panic value raised by the bubble's root goroutine (nil if none / deadlock)
	Dump     string // on deadlock: stacks of the goroutines that belong to the bubble
}

func (b BubbleResult) OK() bool { return !b.Deadlock && !b.Wedged && b.Panic == nil }

// BubbleWatchdog bounds one bubble in REAL time. It is a backstop only.
var BubbleWatchdog = 3 * time.Minute

var bubbleTag = regexp.MustCompile(`synctest bubble \d+`)

// Bubble runs fn inside a testing/synctest bubble (virtual time, exact quiescence) and recovers the
// two ways a bubble can fail: a deadlock (exact: every goroutine durably blocked) and a panic of the
// root goroutine. Panics of other goroutines still end the process (the child's log is the witness).
// It may be called from many goroutines concurrently.
func Bubble(t *testing.T, fn func(t *testing.T)) BubbleResult {
	done := make(chan BubbleResult, 1)
	go func() {
		res := BubbleResult{Panic: "the bubble's goroutine exited without returning (t.FailNow / runtime.Goexit inside the bubble, e.g. after a race detector report)"}
		// a Goexit (synctest.Test calls t.FailNow when the race detector reported inside the bubble)
		// must not look like a wedge: always deliver a result
		defer func() { done <- res }()
		res = bubble(t, fn)
	}()
	select {
	case r := <-done:
		return r
	case <-time.After(BubbleWatchdog):
		// the bubble's goroutines are abandoned (they hold nothing outside the case)
		return BubbleResult{Wedged: true}
	}
}

func bubble(t *testing.T, fn func(t *testing.T)) (res BubbleResult) {
	tag := ""
	defer func() {
		if r := recover(); r != nil {
			if s := fmt.Sprint(r); strings.Contains(s, "deadlock: all goroutines in bubble are blocked") {
				res.Deadlock = true
				if tag != "" {
					buf := make([]byte, 8<<20)
					n := runtime.Stack(buf, true)
					var sb strings.Builder
					for _, g := range strings.Split(string(buf[:n]), "\n\n") {
						if strings.Contains(strings.SplitN(g, "\n", 2)[0], tag+"]") {
							sb.WriteString(g)
							sb.WriteString("\n\n")
						}
					}
					res.Dump = sb.String()
				}
				return
			}
			res.Panic = r
			buf := make([]byte, 64<<10)
			res.Dump = string(buf[:runtime.Stack(buf, false)])
		}
	}()
	synctest.Test(t, func(t *testing.T) {
		buf := make([]byte, 256)
		hdr := string(buf[:runtime.Stack(buf, false)])
		tag = bubbleTag.FindString(strings.SplitN(hdr, "\n", 2)[0])
		fn(t)
	})
	return
}

// BubbleFailed classifies a bubble that did not end normally: a wedge is inconclusive, a deadlock
// (exact: every goroutine durably blocked) and a panic of the root goroutine are violations with the
// given signature prefix. It returns true if the bubble failed in any of these ways.
func (r *R) BubbleFailed(b BubbleResult, sigPrefix, caseID, deadlockMsg string, detail map[string]any) bool {
	if b.OK() {
		return false
	}
	if detail == nil {
		detail = map[string]any{}
	}
	switch {
	case b.Wedged:
		r.Inconclusive(caseID, "bubble wedged (real-time watchdog): a goroutine waits for a sync.Mutex whose holder waits for virtual time")
		r.Count("bubble_wedges", 1)
	case b.Deadlock:
		detail["goroutines"] = b.Dump
		r.Violation(sigPrefix+":blocked-forever", caseID, deadlockMsg, detail)
	default:
		detail["stack"] = b.Dump
		r.Violation(sigPrefix+":panic", caseID, fmt.Sprint(b.Panic), detail)
	}
	return true
}
