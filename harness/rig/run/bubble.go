package run

import (
	"fmt"
	"regexp"
	"runtime"
	"strings"
	"testing"
	"testing/synctest"
)

// BubbleResult describes how a synctest bubble ended.
type BubbleResult struct {
	Deadlock bool   // all goroutines of the bubble were durably blocked and the root had not returned
	Panic    any    // panic value raised by the bubble's root goroutine (nil if none / deadlock)
	Dump     string // on deadlock: stacks of the goroutines that belong to the bubble
}

func (b BubbleResult) OK() bool { return !b.Deadlock && b.Panic == nil }

var bubbleTag = regexp.MustCompile(`synctest bubble \d+`)

// Bubble runs fn inside a testing/synctest bubble (virtual time, exact quiescence) and recovers the
// two ways a bubble can fail: a deadlock (exact: every goroutine durably blocked) and a panic of the
// root goroutine. Panics of other goroutines still end the process (the child's log is the witness).
// It may be called from many goroutines concurrently.
func Bubble(t *testing.T, fn func(t *testing.T)) (res BubbleResult) {
	tag := ""
	defer func() {
		if r := recover(); r != nil {
			if s := fmt.Sprint(r); strings.Contains(s, "deadlock: all goroutines in bubble are blocked") {
				res.Deadlock = true
				if tag != "" {
					buf := make([]byte, 8<<20)
					n := runtime.Stack(buf, true)
					var sb strings.Builder
					for _, g := range strings.Split(string(buf[:n]), "\n\n") {
						if strings.Contains(strings.SplitN(g, "\n", 2)[0], tag+"]") {
							sb.WriteString(g)
							sb.WriteString("\n\n")
						}
					}
					res.Dump = sb.String()
				}
				return
			}
			res.Panic = r
			buf := make([]byte, 64<<10)
			res.Dump = string(buf[:runtime.Stack(buf, false)])
		}
	}()
	synctest.Test(t, func(t *testing.T) {
		buf := make([]byte, 256)
		hdr := string(buf[:runtime.Stack(buf, false)])
		tag = bubbleTag.FindString(strings.SplitN(hdr, "\n", 2)[0])
		fn(t)
	})
	return
}
