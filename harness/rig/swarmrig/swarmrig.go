// Package swarmrig builds a REAL swarm.Swarm on scripted transports (rig/scripttpt) with an in-memory
// peerstore and a real event bus, for schedule exploration inside testing/synctest bubbles.
package swarmrig

import (
	"crypto/rand"
	"fmt"
	"sync"

	"github.com/libp2p/go-libp2p/core/crypto"
	"github.com/libp2p/go-libp2p/core/event"
	"github.com/libp2p/go-libp2p/core/peer"
	"github.com/libp2p/go-libp2p/core/peerstore"
	"github.com/libp2p/go-libp2p/p2p/host/eventbus"
	"github.com/libp2p/go-libp2p/p2p/host/peerstore/pstoremem"
	"github.com/libp2p/go-libp2p/p2p/net/swarm"
	ma "github.com/multiformats/go-multiaddr"

	"verif/harness/rig/scripttpt"
)

// IDs is a pool of peer identities generated once per process (identities are data).
type IDs struct {
	Priv []crypto.PrivKey
	ID   []peer.ID
}

var (
	idsOnce sync.Once
	ids     IDs
)

// Pool returns at least n identities.
func Pool(n int) *IDs {
	idsOnce.Do(func() {
		for i := 0; i < 64; i++ {
			priv, pub, err := crypto.GenerateEd25519Key(rand.Reader)
			if err != nil {
				panic(err)
			}
			id, _ := peer.IDFromPublicKey(pub)
			ids.Priv = append(ids.Priv, priv)
			ids.ID = append(ids.ID, id)
		}
	})
	if n > len(ids.ID) {
		panic("swarmrig: pool too small")
	}
	return &ids
}

func hasProto(a ma.Multiaddr, code int) bool {
	found := false
	ma.ForEach(a, func(c ma.Component) bool {
		if c.Protocol().Code == code {
			found = true
			return false
		}
		return true
	})
	return found
}

// Rig is one swarm with its transports.
type Rig struct {
	Local peer.ID
	Swarm *swarm.Swarm
	PS    peerstore.Peerstore
	Bus   event.Bus
	Log   *scripttpt.Log
	TCP   *scripttpt.Transport // direct: /ip4|ip6/../tcp/.. (not ws, not circuit)
	QUIC  *scripttpt.Transport // direct: ../udp/../quic-v1 (not webtransport)
	WT    *scripttpt.Transport // direct: ../quic-v1/webtransport
	WS    *scripttpt.Transport // direct: ../tcp/../ws
	Relay *scripttpt.Transport // proxy + limited: anything with /p2p-circuit
}

// Script decides the outcome of every dial of every transport of the rig.
type Script func(tpt string, addr ma.Multiaddr, p peer.ID, attempt int) scripttpt.Outcome

// New builds the rig. localIdx selects the local identity from the pool.
func New(localIdx int, script Script, opts ...swarm.Option) (*Rig, error) {
	pool := Pool(localIdx + 1)
	local := pool.ID[localIdx]
	ps, err := pstoremem.NewPeerstore()
	if err != nil {
		return nil, err
	}
	ps.AddPrivKey(local, pool.Priv[localIdx])
	ps.AddPubKey(local, pool.Priv[localIdx].GetPublic())
	bus := eventbus.NewBus()
	sw, err := swarm.NewSwarm(local, ps, bus, opts...)
	if err != nil {
		ps.Close()
		return nil, err
	}
	r := &Rig{Local: local, Swarm: sw, PS: ps, Bus: bus, Log: scripttpt.NewLog()}
	mk := func(name string, protos []int, proxy, limited bool, match func(ma.Multiaddr) bool) *scripttpt.Transport {
		t := &scripttpt.Transport{Name: name, Protos: protos, IsProxy: proxy, Limited: limited, Match: match, Log: r.Log, Local: local}
		t.Script = func(a ma.Multiaddr, p peer.ID, attempt int) scripttpt.Outcome { return script(name, a, p, attempt) }
		return t
	}
	circuit := func(a ma.Multiaddr) bool { return hasProto(a, ma.P_CIRCUIT) }
	r.TCP = mk("tcp", []int{ma.P_TCP}, false, false, func(a ma.Multiaddr) bool {
		return hasProto(a, ma.P_TCP) && !hasProto(a, ma.P_WS) && !hasProto(a, ma.P_WSS) && !circuit(a) && (hasProto(a, ma.P_IP4) || hasProto(a, ma.P_IP6))
	})
	r.QUIC = mk("quic", []int{ma.P_QUIC_V1}, false, false, func(a ma.Multiaddr) bool {
		return hasProto(a, ma.P_QUIC_V1) && !hasProto(a, ma.P_WEBTRANSPORT) && !circuit(a) && (hasProto(a, ma.P_IP4) || hasProto(a, ma.P_IP6))
	})
	r.WT = mk("webtransport", []int{ma.P_WEBTRANSPORT}, false, false, func(a ma.Multiaddr) bool {
		return hasProto(a, ma.P_WEBTRANSPORT) && !circuit(a)
	})
	r.WS = mk("ws", []int{ma.P_WS}, false, false, func(a ma.Multiaddr) bool {
		return hasProto(a, ma.P_WS) && !circuit(a)
	})
	r.Relay = mk("relay", []int{ma.P_CIRCUIT}, true, true, circuit)
	for _, t := range []*scripttpt.Transport{r.TCP, r.QUIC, r.WT, r.WS, r.Relay} {
		if err := sw.AddTransport(t); err != nil {
			sw.Close()
			ps.Close()
			return nil, fmt.Errorf("AddTransport %s: %w", t.Name, err)
		}
	}
	return r, nil
}

// Transports lists the rig's transports.
func (r *Rig) Transports() []*scripttpt.Transport {
	return []*scripttpt.Transport{r.TCP, r.QUIC, r.WT, r.WS, r.Relay}
}

// Close closes the swarm and the peerstore.
func (r *Rig) Close() {
	r.Swarm.Close()
	r.PS.Close()
}

// Slots hands out indices 0..n-1 so that cases running concurrently never share an identity (hook
// handlers are process-global and dispatch on a peer id).
type Slots chan int

func NewSlots(n int) Slots {
	s := make(Slots, n)
	for i := 0; i < n; i++ {
		s <- i
	}
	return s
}
func (s Slots) Get() int  { return <-s }
func (s Slots) Put(i int) { s <- i }
