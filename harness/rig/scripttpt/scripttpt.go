// Package scripttpt is a scripted transport.Transport with fake CapableConns for the REAL swarm: per-dial
// outcome scripts (succeed / fail / hang until cancelled, after a virtual delay, with or without a
// handshake-progress update), Limited/Proxy flags, inbound connections through a fake listener, and a
// log of every Dial invocation. All blocking is channel based (usable in testing/synctest bubbles).
package scripttpt

import (
	"context"
	"errors"
	"fmt"
	"io"
	"net"
	"sync"
	"sync/atomic"
	"time"

	ic "github.com/libp2p/go-libp2p/core/crypto"
	"github.com/libp2p/go-libp2p/core/network"
	"github.com/libp2p/go-libp2p/core/peer"
	"github.com/libp2p/go-libp2p/core/transport"
	ma "github.com/multiformats/go-multiaddr"

	"verif/harness/rig/memnet"
)

// Outcome of one scripted dial.
type Outcome struct {
	Kind     string        // "ok" | "fail" | "hang" | "wrongpeer"
	Delay    time.Duration // virtual time before the outcome (hang: ignored)
	Progress bool          // send a handshake-progress DialUpdate right away
	AsPeer   peer.ID       // wrongpeer: the identity the returned conn reports
	// IgnoreCancel: the dial does not return when its context is cancelled before Delay has passed
	// (a transport that reacts late); it still returns after Delay with ctx.Err().
	IgnoreCancel bool
	// Err: the error a "fail" outcome returns (default: a plain scripted-failure error). Transports that
	// dial through the same swarm (the relay client) return errors that WRAP the swarm's own sentinels.
	Err error
}

// DialRecord is one Dial invocation.
type DialRecord struct {
	Seq                     int
	Transport               string
	Addr                    string
	Peer                    peer.ID
	Start, End              time.Time // virtual
	Done                    bool
	Result                  string // ok | fail | cancelled
	CtxErr                  string
	ForceDirect, SimConnect bool
}

// Log collects dial records of all transports of a scenario.
type Log struct {
	mu                 sync.Mutex
	recs               []*DialRecord
	inflight           int
	MaxInflight        int
	inflightPeer       map[peer.ID]int
	MaxInflightPerPeer int
	OnEvent            func(kind string, r *DialRecord) // called under the log's lock
}

func NewLog() *Log { return &Log{inflightPeer: map[peer.ID]int{}} }

func (l *Log) start(t *Transport, addr ma.Multiaddr, p peer.ID, ctx context.Context) *DialRecord {
	l.mu.Lock()
	defer l.mu.Unlock()
	r := &DialRecord{Seq: len(l.recs), Transport: t.Name, Addr: addr.String(), Peer: p, Start: time.Now()}
	r.ForceDirect, _ = network.GetForceDirectDial(ctx)
	r.SimConnect, _, _ = network.GetSimultaneousConnect(ctx)
	l.recs = append(l.recs, r)
	l.inflight++
	l.inflightPeer[p]++
	if l.inflight > l.MaxInflight {
		l.MaxInflight = l.inflight
	}
	if l.inflightPeer[p] > l.MaxInflightPerPeer {
		l.MaxInflightPerPeer = l.inflightPeer[p]
	}
	if l.OnEvent != nil {
		l.OnEvent("start", r)
	}
	return r
}

func (l *Log) end(r *DialRecord, result string, ctx context.Context) {
	l.mu.Lock()
	defer l.mu.Unlock()
	r.Done, r.End, r.Result = true, time.Now(), result
	if err := ctx.Err(); err != nil {
		r.CtxErr = err.Error()
	}
	l.inflight--
	l.inflightPeer[r.Peer]--
	if l.OnEvent != nil {
		l.OnEvent("end", r)
	}
}

// Records returns copies of all records.
func (l *Log) Records() []DialRecord {
	l.mu.Lock()
	defer l.mu.Unlock()
	out := make([]DialRecord, len(l.recs))
	for i, r := range l.recs {
		out[i] = *r
	}
	return out
}

func (l *Log) Inflight() int { l.mu.Lock(); defer l.mu.Unlock(); return l.inflight }

// Transport is the scripted transport.
type Transport struct {
	Name    string
	Protos  []int
	IsProxy bool
	Limited bool // conns report Stat().Limited
	Match   func(ma.Multiaddr) bool
	Script  func(addr ma.Multiaddr, p peer.ID, attempt int) Outcome
	Log     *Log
	Local   peer.ID
	// WithUpdates: implement transport.DialUpdater behaviour (progress updates) when true.
	attempts sync.Map // addr string -> *atomic.Int64

	mu        sync.Mutex
	conns     []*Conn
	listeners []*Listener
	nextPort  atomic.Int64
}

var _ transport.Transport = (*Transport)(nil)
var _ transport.DialUpdater = (*Transport)(nil)

func (t *Transport) CanDial(a ma.Multiaddr) bool { return t.Match(a) }
func (t *Transport) Protocols() []int            { return t.Protos }
func (t *Transport) Proxy() bool                 { return t.IsProxy }
func (t *Transport) String() string              { return "scripttpt:" + t.Name }

func (t *Transport) Dial(ctx context.Context, raddr ma.Multiaddr, p peer.ID) (transport.CapableConn, error) {
	return t.DialWithUpdates(ctx, raddr, p, nil)
}

func (t *Transport) DialWithUpdates(ctx context.Context, raddr ma.Multiaddr, p peer.ID, updCh chan<- transport.DialUpdate) (transport.CapableConn, error) {
	v, _ := t.attempts.LoadOrStore(raddr.String(), new(atomic.Int64))
	attempt := int(v.(*atomic.Int64).Add(1) - 1)
	rec := t.Log.start(t, raddr, p, ctx)
	out := t.Script(raddr, p, attempt)
	if out.Progress && updCh != nil {
		select {
		case updCh <- transport.DialUpdate{Kind: transport.UpdateKindHandshakeProgressed, Addr: raddr}:
		default:
		}
	}
	if out.Kind == "hang" {
		<-ctx.Done()
		t.Log.end(rec, "cancelled", ctx)
		return nil, ctx.Err()
	}
	if out.Delay > 0 {
		tm := time.NewTimer(out.Delay)
		if out.IgnoreCancel {
			<-tm.C
			if ctx.Err() != nil {
				t.Log.end(rec, "cancelled", ctx)
				return nil, ctx.Err()
			}
		} else {
			select {
			case <-tm.C:
			case <-ctx.Done():
				tm.Stop()
				t.Log.end(rec, "cancelled", ctx)
				return nil, ctx.Err()
			}
		}
	}
	switch out.Kind {
	case "fail":
		t.Log.end(rec, "fail", ctx)
		if out.Err != nil {
			return nil, out.Err
		}
		return nil, fmt.Errorf("scripttpt: scripted failure for %s", raddr)
	case "wrongpeer":
		c := t.NewConn(out.AsPeer, raddr, network.DirOutbound)
		t.Log.end(rec, "ok", ctx)
		return c, nil
	default:
		c := t.NewConn(p, raddr, network.DirOutbound)
		t.Log.end(rec, "ok", ctx)
		return c, nil
	}
}

// NewConn makes a fake connection of this transport (also used for inbound conns).
func (t *Transport) NewConn(remote peer.ID, raddr ma.Multiaddr, dir network.Direction) *Conn {
	c := &Conn{t: t, remote: remote, raddr: raddr, closed: make(chan struct{}), inbound: make(chan *Stream, 16),
		laddr: ma.StringCast(fmt.Sprintf("/ip4/10.1.1.1/tcp/%d", 40000+t.nextPort.Add(1))), Dir: dir}
	t.mu.Lock()
	c.Ord = len(t.conns)
	t.conns = append(t.conns, c)
	t.mu.Unlock()
	return c
}

func (t *Transport) Conns() []*Conn {
	t.mu.Lock()
	defer t.mu.Unlock()
	return append([]*Conn(nil), t.conns...)
}

func (t *Transport) Listen(laddr ma.Multiaddr) (transport.Listener, error) {
	l := &Listener{t: t, laddr: laddr, ch: make(chan *Conn, 64), closed: make(chan struct{})}
	t.mu.Lock()
	t.listeners = append(t.listeners, l)
	t.mu.Unlock()
	return l, nil
}

func (t *Transport) Listeners() []*Listener {
	t.mu.Lock()
	defer t.mu.Unlock()
	return append([]*Listener(nil), t.listeners...)
}

// Listener hands out conns injected by the scenario.
type Listener struct {
	t      *Transport
	laddr  ma.Multiaddr
	ch     chan *Conn
	once   sync.Once
	closed chan struct{}
}

func (l *Listener) Accept() (transport.CapableConn, error) {
	select {
	case <-l.closed:
		return nil, transport.ErrListenerClosed
	default:
	}
	select {
	case c := <-l.ch:
		return c, nil
	case <-l.closed:
		return nil, transport.ErrListenerClosed
	}
}

// Inject queues an inbound connection from remote; false if the listener is closed.
func (l *Listener) Inject(remote peer.ID, raddr ma.Multiaddr) *Conn {
	c := l.t.NewConn(remote, raddr, network.DirInbound)
	select {
	case <-l.closed:
		c.Close()
		return nil
	default:
	}
	select {
	case l.ch <- c:
		return c
	case <-l.closed:
		c.Close()
		return nil
	}
}

func (l *Listener) Close() error {
	l.once.Do(func() { close(l.closed) })
	for {
		select {
		case c := <-l.ch:
			c.Close()
		default:
			return nil
		}
	}
}
func (l *Listener) Addr() net.Addr          { return netAddr(l.laddr.String()) }
func (l *Listener) Multiaddr() ma.Multiaddr { return l.laddr }

type netAddr string

func (a netAddr) Network() string { return "scripttpt" }
func (a netAddr) String() string  { return string(a) }

// Conn is a fake transport.CapableConn.
type Conn struct {
	t      *Transport
	remote peer.ID
	raddr  ma.Multiaddr
	laddr  ma.Multiaddr
	Dir    network.Direction
	Ord    int

	once      sync.Once
	closed    chan struct{}
	inbound   chan *Stream
	CloseN    atomic.Int64
	CloseCode atomic.Int64
	// OpenErr, when set, makes OpenStream fail.
	OpenErr atomic.Value
	// OnOpenStream runs inside OpenStream after the stream was made and before it is returned (e.g.
	// to close the connection at exactly that point).
	OnOpenStream func()
	dead         atomic.Bool
	streams      atomic.Int64
}

var _ transport.CapableConn = (*Conn)(nil)

func (c *Conn) Close() error {
	c.CloseN.Add(1)
	c.once.Do(func() { close(c.closed) })
	return nil
}

func (c *Conn) CloseWithError(code network.ConnErrorCode) error {
	c.CloseCode.Store(int64(code))
	return c.Close()
}

// RemoteClose simulates the remote (or the network) closing the connection: AcceptStream fails, the
// swarm's accept loop then closes its side.
func (c *Conn) RemoteClose() { c.once.Do(func() { close(c.closed) }) }

// Streams is the number of streams the fake muxer opened (outbound).
func (c *Conn) Streams() int64 { return c.streams.Load() }

// DieSilently: the transport under the connection is gone (IsClosed reports true, streams cannot be
// opened) but the accept loop has not noticed yet - AcceptStream keeps blocking, so the swarm has not
// reaped the connection.
func (c *Conn) DieSilently() { c.dead.Store(true) }

func (c *Conn) IsClosed() bool {
	if c.dead.Load() {
		return true
	}
	select {
	case <-c.closed:
		return true
	default:
		return false
	}
}

func (c *Conn) OpenStream(ctx context.Context) (network.MuxedStream, error) {
	if c.IsClosed() {
		return nil, errors.New("scripttpt: connection closed")
	}
	if e, _ := c.OpenErr.Load().(error); e != nil {
		return nil, e
	}
	a, _ := memnet.Pipe(c.laddr, c.raddr, 1<<16)
	c.streams.Add(1)
	if c.OnOpenStream != nil {
		c.OnOpenStream()
	}
	return &Stream{Conn: a, c: c}, nil
}

// DeliverStream makes the conn hand an inbound stream to the swarm's accept loop.
func (c *Conn) DeliverStream() *Stream {
	a, _ := memnet.Pipe(c.laddr, c.raddr, 1<<16)
	s := &Stream{Conn: a, c: c, Inbound: true}
	select {
	case c.inbound <- s:
		return s
	case <-c.closed:
		return nil
	}
}

func (c *Conn) AcceptStream() (network.MuxedStream, error) {
	select {
	case s := <-c.inbound:
		return s, nil
	default:
	}
	select {
	case s := <-c.inbound:
		return s, nil
	case <-c.closed:
		return nil, io.EOF
	}
}

func (c *Conn) As(any) bool                { return false }
func (c *Conn) LocalPeer() peer.ID         { return c.t.Local }
func (c *Conn) RemotePeer() peer.ID        { return c.remote }
func (c *Conn) RemotePublicKey() ic.PubKey { return nil }
func (c *Conn) ConnState() network.ConnectionState {
	return network.ConnectionState{Transport: c.t.Name}
}
func (c *Conn) LocalMultiaddr() ma.Multiaddr   { return c.laddr }
func (c *Conn) RemoteMultiaddr() ma.Multiaddr  { return c.raddr }
func (c *Conn) Scope() network.ConnScope       { return &network.NullScope{} }
func (c *Conn) Transport() transport.Transport { return c.t }
func (c *Conn) Stat() network.ConnStats {
	return network.ConnStats{Stats: network.Stats{Limited: c.t.Limited}}
}
func (c *Conn) TransportName() string { return c.t.Name }

// Stream is a fake muxed stream.
type Stream struct {
	*memnet.Conn
	c       *Conn
	Inbound bool
	ResetN  atomic.Int64
}

func (s *Stream) CloseRead() error  { return s.Conn.CloseRead() }
func (s *Stream) CloseWrite() error { return s.Conn.CloseWrite() }
func (s *Stream) Reset() error      { s.ResetN.Add(1); return s.Conn.Close() }
func (s *Stream) ResetWithError(network.StreamErrorCode) error {
	s.ResetN.Add(1)
	return s.Conn.Close()
}
