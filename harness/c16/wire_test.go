package c16

// Hand-written protobuf / varint-delimited framing for the hostile client, so that encodings the
// generated code would never produce (padded varints, unknown fields, duplicated oneof members,
// lying frame lengths) can be sent, plus the lenient decoder the reference uses to learn what a
// request "names".

import (
	"encoding/binary"

	"github.com/libp2p/go-libp2p/p2p/protocol/autonatv2/pb"
	"google.golang.org/protobuf/proto"
)

func appendUvarint(b []byte, v uint64) []byte { return binary.AppendUvarint(b, v) }

// appendPaddedUvarint encodes v in exactly width bytes (non-minimal when width is larger than needed).
func appendPaddedUvarint(b []byte, v uint64, width int) []byte {
	min := len(binary.AppendUvarint(nil, v))
	if width <= min {
		return binary.AppendUvarint(b, v)
	}
	for i := 0; i < width-1; i++ {
		b = append(b, byte(v&0x7f)|0x80)
		v >>= 7
	}
	return append(b, byte(v&0x7f))
}

const (
	wtVarint  = 0
	wtFixed64 = 1
	wtLen     = 2
)

func appendTag(b []byte, field, wt int) []byte { return appendUvarint(b, uint64(field)<<3|uint64(wt)) }

// lenField appends <tag><len><payload>; pad>0 pads the length varint to that many bytes.
func lenField(b []byte, field int, payload []byte, pad int) []byte {
	b = appendTag(b, field, wtLen)
	if pad > 0 {
		b = appendPaddedUvarint(b, uint64(len(payload)), pad)
	} else {
		b = appendUvarint(b, uint64(len(payload)))
	}
	return append(b, payload...)
}

// frame prefixes body with its uvarint length.
func frame(body []byte) []byte {
	return append(appendUvarint(make([]byte, 0, len(body)+3), uint64(len(body))), body...)
}

// dialDataFrame is one well-formed Message{dialDataResponse{data: n zero bytes}} frame.
func dialDataFrame(n int) []byte {
	inner := lenField(nil, 1, make([]byte, n), 0)
	return frame(lenField(nil, 4, inner, 0))
}

// srvMsg is one decoded frame written by the server.
type srvMsg struct {
	Kind       string `json:"kind"` // DialResponse | DialDataRequest | other
	Status     string `json:"status,omitempty"`
	DialStatus string `json:"dial_status,omitempty"`
	AddrIdx    uint32 `json:"addr_idx"`
	NumBytes   uint64 `json:"num_bytes,omitempty"`
	End        int    `json:"end"` // offset in the server's output just after this frame
}

// parseServerOutput decodes the complete frames in b; ok=false if the bytes are not a frame sequence.
func parseServerOutput(b []byte) (msgs []srvMsg, ok bool) {
	off := 0
	for off < len(b) {
		l, n := binary.Uvarint(b[off:])
		if n <= 0 {
			return msgs, n == 0 // n==0: incomplete varint (still being written)
		}
		if uint64(len(b)-off-n) < l {
			return msgs, true // incomplete frame
		}
		body := b[off+n : off+n+int(l)]
		off += n + int(l)
		var m pb.Message
		if err := proto.Unmarshal(body, &m); err != nil {
			return msgs, false
		}
		switch {
		case m.GetDialResponse() != nil:
			r := m.GetDialResponse()
			msgs = append(msgs, srvMsg{Kind: "DialResponse", Status: r.GetStatus().String(), DialStatus: r.GetDialStatus().String(), AddrIdx: r.GetAddrIdx(), End: off})
		case m.GetDialDataRequest() != nil:
			r := m.GetDialDataRequest()
			msgs = append(msgs, srvMsg{Kind: "DialDataRequest", AddrIdx: r.GetAddrIdx(), NumBytes: r.GetNumBytes(), End: off})
		default:
			msgs = append(msgs, srvMsg{Kind: "other", End: off})
		}
	}
	return msgs, true
}

// refDecodeRequest is the reference's reading of "the client's request": the address list and nonce
// of the first frame IF it can be decoded as a Message carrying a DialRequest at all, read as
// leniently as any protobuf decoder would (padded varints, unknown fields, merged duplicate
// members). A frame that cannot be decoded names no address: any dial for it is a violation.
func refDecodeRequest(sent []byte) (addrs [][]byte, nonce uint64, frameLen int, isReq bool) {
	l, n := binary.Uvarint(sent)
	if n <= 0 || uint64(len(sent)-n) < l {
		return nil, 0, len(sent), false
	}
	frameLen = n + int(l)
	var m pb.Message
	if err := proto.Unmarshal(sent[n:frameLen], &m); err != nil || m.GetDialRequest() == nil {
		return nil, 0, frameLen, false
	}
	return m.GetDialRequest().GetAddrs(), m.GetDialRequest().GetNonce(), frameLen, true
}

// parseDialBack decodes what the server wrote on a dial-back stream: the nonce of the first frame.
func parseDialBack(b []byte) (nonce uint64, ok bool) {
	l, n := binary.Uvarint(b)
	if n <= 0 || uint64(len(b)-n) < l {
		return 0, false
	}
	var m pb.DialBack
	if err := proto.Unmarshal(b[n:n+int(l)], &m); err != nil {
		return 0, false
	}
	return m.GetNonce(), true
}
