package c16

// The oracle: post-hoc checkers over one finished session's records, written from the STATEMENT.
//
//  (1) "dials back only an address taken from the client's request and only to the requesting peer"
//  (2) "when that address's IP differs from the IP the request came from it dials only after the
//      client has first sent at least the number of bytes of dial data the server asked for (30 to 100 kB)"
//  (3) "a request naming no public, dialable address is refused without any dial"
//  (4) "in every sliding one-minute window the server accepts no more requests than its global,
//      per-peer and dial-data limits"
//  (5) "it never serves more than the configured number of concurrent requests of one peer"
//
// Everything is decided from what crossed the fakes: bytes the server consumed from / wrote to the
// request stream, calls on the dialer host, logical stamps and virtual time. Only upper bounds are
// violations; refusing more than necessary is counted, never raised.

import (
	"fmt"
	"net/netip"
	"sort"
	"time"

	"github.com/libp2p/go-libp2p/core/peer"
	"github.com/libp2p/go-libp2p/p2p/protocol/autonatv2/pb"
	ma "github.com/multiformats/go-multiaddr"
)

const (
	minDialData = 30_000
	maxDialData = 100_000
	window      = time.Minute
)

var (
	stRejected = pb.DialResponse_E_REQUEST_REJECTED.String()
	stRefused  = pb.DialResponse_E_DIAL_REFUSED.String()
	stOK       = pb.DialResponse_OK.String()
)

type finding struct {
	Sig, Msg string
}

// reqView is everything the oracle knows about one request after the session.
type reqView struct {
	rq *request
	// the reference's reading of the request
	list     [][]byte
	parsed   []ma.Multiaddr // nil where the entry is not a multiaddr
	classes  []string
	nonce    uint64
	isReq    bool
	frameLen int
	hasGood  bool // names at least one public, dialable address
	goodIdx  int  // index of the first one (-1)
	// what the server did on the stream
	msgs       []srvMsg
	outOK      bool
	status     string // status of its DialResponse ("" if it never answered)
	dialStatus string
	respIdx    uint32
	ddr        *srvMsg // its DialDataRequest, if any
	ddrT       time.Duration
	ddrEnd     int
	respT      time.Duration
	respStamp  int64
	stage1Rej  bool // answered E_REQUEST_REJECTED without having read anything
	stage2Rej  bool // answered E_REQUEST_REJECTED after reading the request
	firstRead  int64
	endStamp   int64 // logical stamp of the server's last act of service: response write or Reset
	decStamp   int64 // upper bound of the stamp at which the accept decision was taken
	dialed     []ma.Multiaddr
	everDialed bool
}

func (v *reqView) rejected() bool { return v.status == stRejected }

func ipOf(a ma.Multiaddr) (ip netip.Addr, ok bool) {
	if a == nil {
		return
	}
	ma.ForEach(a, func(c ma.Component) bool {
		switch c.Protocol().Code {
		case ma.P_IP4, ma.P_IP6:
			ip, ok = netip.AddrFromSlice(c.RawValue())
			return false
		case ma.P_IP6ZONE:
			return true
		}
		return false
	})
	return ip.Unmap(), ok
}

func buildView(rq *request) *reqView {
	v := &reqView{rq: rq, goodIdx: -1}
	rq.cmu.Lock()
	sent := append([]byte(nil), rq.sentReq...)
	rq.cmu.Unlock()
	v.list, v.nonce, v.frameLen, v.isReq = refDecodeRequest(sent)
	for i, e := range v.list {
		cl, ok := rq.plan.table[string(e)]
		if !ok {
			cl = "unknown"
		}
		v.classes = append(v.classes, cl)
		a, err := ma.NewMultiaddrBytes(e)
		if err != nil {
			a = nil
		}
		v.parsed = append(v.parsed, a)
		if (cl == "same" || cl == "foreign" || cl == "dns") && v.goodIdx < 0 {
			v.goodIdx, v.hasGood = i, true
		}
	}
	st := rq.st
	st.mu.Lock()
	written := append([]byte(nil), st.written...)
	writes := append([]writeRec(nil), st.writes...)
	v.firstRead = st.firstRead
	reset := st.resetStamp
	st.mu.Unlock()
	v.msgs, v.outOK = parseServerOutput(written)
	writeOf := func(end int) writeRec {
		for _, w := range writes {
			if w.End >= end {
				return w
			}
		}
		return writeRec{}
	}
	for i := range v.msgs {
		m := &v.msgs[i]
		switch m.Kind {
		case "DialDataRequest":
			if v.ddr == nil {
				v.ddr = m
				v.ddrT = writeOf(m.End).T
				v.ddrEnd = m.End
			}
		case "DialResponse":
			if v.status == "" {
				w := writeOf(m.End)
				v.status, v.dialStatus, v.respIdx, v.respT, v.respStamp = m.Status, m.DialStatus, m.AddrIdx, w.T, w.Stamp
			}
		}
	}
	v.stage1Rej = v.rejected() && v.firstRead == 0
	v.stage2Rej = v.rejected() && v.firstRead != 0
	// end of service: the response write or the server's Reset, whichever came first. Both happen
	// before the server releases the peer's concurrency slot; its final Close() does not.
	v.endStamp = v.respStamp
	if reset != 0 && (v.endStamp == 0 || reset < v.endStamp) {
		v.endStamp = reset
	}
	// the accept decision lies between handler entry and the server's first act on the stream
	v.decStamp = rq.exit
	if v.firstRead != 0 {
		v.decStamp = v.firstRead
	}
	if len(writes) > 0 && writes[0].Stamp < v.decStamp {
		v.decStamp = writes[0].Stamp
	}
	return v
}

// find returns the indices of the list entries that ARE address a (byte-equal, or equal as multiaddrs).
func (v *reqView) find(a ma.Multiaddr) []int {
	var out []int
	ab := string(a.Bytes())
	for i, e := range v.list {
		if string(e) == ab || (v.parsed[i] != nil && v.parsed[i].Equal(a)) {
			out = append(out, i)
		}
	}
	return out
}

// ddrWithin returns the DialDataRequest if it had been completely written when the server's output
// was outLen bytes long.
func (v *reqView) ddrWithin(outLen int) *srvMsg {
	if v.ddr != nil && v.ddrEnd <= outLen {
		return v.ddr
	}
	return nil
}

type sessionStats map[string]int

func (s sessionStats) add(k string, n int) { s[k] += n }

// judge runs every checker over a finished session. sequential: the generator never had two
// requests of one peer in flight at once, so every dial is attributable to exactly one request.
func judge(s *session, sequential bool) (fs []finding, st sessionStats, views []*reqView) {
	st = sessionStats{}
	byReq := map[*request]*reqView{}
	for _, rq := range s.reqs {
		v := buildView(rq)
		views = append(views, v)
		byReq[rq] = v
	}
	add := func(sig, format string, args ...any) {
		fs = append(fs, finding{sig, fmt.Sprintf(format, args...)})
	}
	dataClause := s.cfg.Policy != "never" // policy "never" is a test-only configuration that switches clause (2) off

	// ---- (1) (2) (3): every dial on the dialer host -------------------------------------------
	for _, d := range s.dials {
		st.add("dials", 1)
		if len(d.Snap) == 0 {
			add("dial:peer-without-request-in-flight", "%s to %s at %s: that peer has no request in service", d.Method, d.Peer, d.T)
			continue
		}
		var addrs []ma.Multiaddr
		for _, a := range d.Addrs {
			dup := false
			for _, b := range addrs {
				dup = dup || a.Equal(b)
			}
			if !dup {
				addrs = append(addrs, a)
			}
		}
		if len(addrs) == 0 {
			st.add("dials_without_any_address", 1)
			continue
		}
		just := make([][]int, len(addrs))
		allOK := true
		for i, a := range addrs {
			reason, detail := "address-not-in-request", ""
			for j, sn := range d.Snap {
				v := byReq[sn.rq]
				idx := v.find(a)
				if len(idx) == 0 {
					continue
				}
				if !v.hasGood {
					// (3) a request naming no public, dialable address is refused without any dial
					reason, detail = "request-names-no-public-dialable-address", sn.rq.String()
					continue
				}
				ip, hasIP := ipOf(a)
				sameIP := hasIP && sn.rq.peer.IP.IsValid() && ip == sn.rq.peer.IP.Unmap()
				if !sn.rq.peer.IP.IsValid() {
					st.add("dials_for_a_requester_without_an_ip_address", 1)
					if !hasIP {
						st.add("dials_of_a_name_for_a_requester_without_an_ip_address", 1)
					}
				}
				if sameIP || !dataClause {
					just[i] = append(just[i], j)
					if sameIP {
						st.add("dials_same_ip", 1)
					}
					continue
				}
				// (2) IP differs (or is unknown: a DNS name): the server must have asked for dial
				// data and must have READ at least that many bytes from the stream after the request
				ddr := v.ddrWithin(sn.outLen)
				got := sn.consumed - int64(v.frameLen)
				switch {
				case ddr == nil:
					reason, detail = "foreign-ip-before-dial-data", fmt.Sprintf("%s: no DialDataRequest had been sent, %d bytes read after the request", sn.rq, got)
				case ddr.NumBytes < minDialData || ddr.NumBytes > maxDialData:
					reason, detail = "foreign-ip-before-dial-data", fmt.Sprintf("%s: asked for %d bytes (outside 30000-100000)", sn.rq, ddr.NumBytes)
				case got < int64(ddr.NumBytes):
					reason, detail = "foreign-ip-before-dial-data", fmt.Sprintf("%s: asked for %d bytes, only %d read from the stream after the request", sn.rq, ddr.NumBytes, got)
				default:
					just[i] = append(just[i], j)
					st.add("dials_foreign_ip_after_dial_data", 1)
					if got == int64(ddr.NumBytes) {
						st.add("dials_with_exactly_numbytes_read", 1)
					}
				}
			}
			if len(just[i]) == 0 {
				allOK = false
				add("dial:"+reason, "%s to %s at %s dials %s: %s %s", d.Method, d.Peer, d.T, a, reason, detail)
			}
		}
		// "an address": each in-flight request justifies at most one of the dialed addresses
		if allOK && !assignable(just, map[int]bool{}, 0) {
			add("dial:more-than-one-address", "%s to %s at %s dials %d addresses %v with %d request(s) of that peer in service", d.Method, d.Peer, d.T, len(addrs), addrStrings(addrs), len(d.Snap))
		}
		if len(addrs) > 1 {
			st.add("dials_with_several_addresses", 1)
		}
		if len(d.Snap) == 1 {
			v := byReq[d.Snap[0].rq]
			v.everDialed = true
			for _, a := range addrs {
				seen := false
				for _, b := range v.dialed {
					seen = seen || a.Equal(b)
				}
				if !seen {
					v.dialed = append(v.dialed, a)
				}
			}
		} else {
			// several requests of the peer in service: the dial is attributed (for the coverage
			// counters only) to every request that justifies one of its addresses
			for i := range addrs {
				for _, j := range just[i] {
					byReq[d.Snap[j].rq].everDialed = true
				}
			}
			st.add("dials_with_several_requests_of_peer_in_service", 1)
		}
	}
	for _, v := range views {
		if sequential && len(v.dialed) > 1 {
			add("dial:more-than-one-address", "%s: dialed %d different addresses over its lifetime: %v", v.rq, len(v.dialed), addrStrings(v.dialed))
		}
		// the address chosen: informative only (the statement does not forbid a non-first choice)
		if sequential && len(v.dialed) == 1 {
			idx := v.find(v.dialed[0])
			switch {
			case len(idx) > 0 && idx[0] == v.goodIdx:
				st.add("dialed_first_public_dialable_entry", 1)
			case len(idx) > 0 && (v.classes[idx[0]] == "private" || v.classes[idx[0]] == "undialable"):
				st.add("dialed_nonpublic_or_undialable_entry_of_mixed_request", 1)
			default:
				st.add("dialed_other_entry", 1)
			}
			if len(idx) > 0 && v.status == stOK {
				hit := false
				for _, i := range idx {
					hit = hit || uint32(i) == v.respIdx
				}
				if hit {
					st.add("response_addridx_is_dialed_address", 1)
				} else {
					st.add("response_addridx_is_not_dialed_address", 1)
				}
			}
		}
		// (3) refused: answering OK is not a refusal
		if !v.hasGood && v.status == stOK {
			add("refusal:answered-OK-without-public-dialable-address", "%s names no public dialable address but was answered OK/%s", v.rq, v.dialStatus)
		}
		// (2) "the number of bytes the server asked for (30 to 100 kB)"
		for _, m := range v.msgs {
			if m.Kind == "DialDataRequest" && (m.NumBytes < minDialData || m.NumBytes > maxDialData) {
				add("dialdata:numbytes-out-of-range", "%s: DialDataRequest asks for %d bytes", v.rq, m.NumBytes)
			}
		}
	}

	// ---- (4) sliding one-minute windows -------------------------------------------------------
	// accepted = not answered E_REQUEST_REJECTED; its instant is the arrival (handler invocation).
	// dial-data accepted = the server sent a DialDataRequest; its instant is that write.
	// Window (t-60s, t]: more than L accepts with max-min < 60 s is a violation.
	var global []time.Duration
	perPeer := map[peer.ID][]time.Duration{}
	var dd []time.Duration
	for _, v := range views {
		if !v.rejected() {
			global = append(global, v.rq.Arrival)
			perPeer[v.rq.peer.ID] = append(perPeer[v.rq.peer.ID], v.rq.Arrival)
		}
		if v.ddr != nil {
			dd = append(dd, v.ddrT)
		}
	}
	if n, at := maxInWindow(global); n > s.cfg.RPM {
		add("rate:global-window-exceeded", "%d requests accepted in the one-minute window ending at %s, global limit %d", n, at, s.cfg.RPM)
	}
	for p, l := range perPeer {
		if n, at := maxInWindow(l); n > s.cfg.PerPeer {
			add("rate:per-peer-window-exceeded", "%d requests of %s accepted in the one-minute window ending at %s, per-peer limit %d", n, p, at, s.cfg.PerPeer)
		}
	}
	if n, at := maxInWindow(dd); n > s.cfg.DialData {
		add("rate:dial-data-window-exceeded", "%d dial-data requests accepted in the one-minute window ending at %s, dial-data limit %d", n, at, s.cfg.DialData)
	}

	// ---- (5) concurrent requests of one peer in service ---------------------------------------
	// in service, provably: from the server's first Read on the stream (after its accept decision)
	// to its response write / Reset (before it releases the slot). Rejected requests do not count.
	type edge struct {
		stamp int64
		d     int
	}
	edges := map[peer.ID][]edge{}
	for _, v := range views {
		if v.firstRead == 0 || v.rejected() {
			continue
		}
		if v.endStamp == 0 || v.endStamp < v.firstRead {
			st.add("in_service_interval_unknown", 1)
			continue
		}
		edges[v.rq.peer.ID] = append(edges[v.rq.peer.ID], edge{v.firstRead, +1}, edge{v.endStamp, -1})
	}
	maxGauge := 0
	for p, es := range edges {
		sort.Slice(es, func(i, j int) bool { return es[i].stamp < es[j].stamp })
		g, mx := 0, 0
		for _, e := range es {
			g += e.d
			if g > mx {
				mx = g
			}
		}
		if mx > s.cfg.MaxConc {
			add("concurrency:more-than-max-in-service", "%d requests of %s in service at once, limit %d", mx, p, s.cfg.MaxConc)
		}
		if mx > maxGauge {
			maxGauge = mx
		}
	}
	st.add(fmt.Sprintf("max_in_service_of_one_peer=%d", min(maxGauge, 6)), 1)
	if maxGauge == s.cfg.MaxConc {
		st.add("sessions_reaching_concurrency_limit", 1)
	}

	// ---- spurious rejections (counted, never raised) -----------------------------------------
	// "definitely under its limits" is judged with the CLOSED window [t-60s, t] and with every
	// other request that may have held a slot: a server that still counts an entry exactly 60 s
	// old, or that refuses because of a request racing with this one, is within the statement.
	for _, x := range views {
		g, pp, conc := 0, 0, 0
		for _, y := range views {
			if y == x {
				continue
			}
			if !y.stage1Rej && y.rq.Arrival >= x.rq.Arrival-window && y.rq.Arrival <= x.rq.Arrival {
				g++
				if y.rq.peer == x.rq.peer {
					pp++
				}
			}
			if y.rq.peer == x.rq.peer && !y.stage1Rej && y.rq.entry < x.decStamp && (y.rq.exit == 0 || y.rq.exit > x.rq.entry) {
				conc++
			}
		}
		under := g < s.cfg.RPM && pp < s.cfg.PerPeer && conc < s.cfg.MaxConc
		switch {
		case under && x.stage1Rej:
			st.add("under_limit_requests", 1)
			st.add("rejected_though_under_limit", 1)
		case under:
			st.add("under_limit_requests", 1)
			st.add("under_limit_served", 1)
		case x.stage1Rej && (g >= s.cfg.RPM || pp >= s.cfg.PerPeer):
			st.add("rejected_window_full", 1)
			if g >= s.cfg.RPM {
				st.add("rejected_global_window_full", 1)
			}
			if pp >= s.cfg.PerPeer {
				st.add("rejected_peer_window_full", 1)
			}
		case x.stage1Rej:
			st.add("rejected_at_concurrency_limit", 1)
		default:
			st.add("accepted_while_possibly_at_limit", 1)
		}
		if x.ddr != nil || x.stage2Rej {
			t := x.ddrT
			if x.ddr == nil {
				t = x.respT
			}
			n := 0
			for _, y := range views {
				if y != x && y.ddr != nil && y.ddrT >= t-window && y.ddrT <= t {
					n++
				}
			}
			switch {
			case n < s.cfg.DialData && x.ddr != nil:
				st.add("under_limit_requests", 1)
				st.add("under_limit_served", 1)
			case n < s.cfg.DialData:
				st.add("under_limit_requests", 1)
				st.add("rejected_though_under_limit", 1)
			case x.ddr == nil:
				st.add("rejected_dial_data_window_full", 1)
			}
		}
	}

	// ---- what was seen (coverage) -------------------------------------------------------------
	for _, v := range views {
		st.add("requests", 1)
		switch {
		case !v.isReq:
			st.add("requests_undecodable_or_not_a_dial_request", 1)
		case v.hasGood:
			st.add("requests_naming_a_public_dialable_address", 1)
		default:
			st.add("requests_naming_no_public_dialable_address", 1)
		}
		out := v.status
		if out == "" {
			if v.rq.st.resetStamp != 0 {
				out = "stream-reset"
			} else {
				out = "no-response"
			}
		} else if out == stOK {
			out += "/" + v.dialStatus
		}
		st.add("outcome/"+out, 1)
		if !v.outOK {
			st.add("server_output_not_parseable", 1)
		}
		if v.rq.clientEnd == "deadline" {
			st.add("client_gave_up_waiting", 1)
		}
		if v.isReq && !v.hasGood && !v.everDialed && v.status == stRefused {
			st.add("refused_without_dial", 1)
			for _, c := range v.classes {
				st.add("refused_list_contained/"+c, 1)
			}
			if len(v.list) == 0 {
				st.add("refused_empty_list", 1)
			}
		}
		if v.hasGood && v.goodIdx >= 50 && !v.everDialed {
			st.add("not_dialed_first_good_entry_beyond_50", 1)
		}
		if v.hasGood && v.goodIdx > 0 && v.everDialed {
			st.add("dialed_after_skipping_bad_entries", 1)
		}
		if v.ddr != nil {
			st.add("dial_data_requests", 1)
			key := "dial_data/" + v.rq.plan.DD.Shape + "/" + v.rq.plan.DD.Stop
			if v.everDialed {
				st.add(key+"/dialed", 1)
				st.add("dial_data_then_dialed", 1)
			} else {
				st.add(key+"/not-dialed", 1)
				st.add("dial_data_then_not_dialed", 1)
			}
			rq := v.rq
			if !v.everDialed && rq.ddRawSent >= int64(v.ddr.NumBytes)-1 && rq.ddRawSent < int64(v.ddr.NumBytes)+16 {
				st.add("not_dialed_with_wire_bytes_within_1_of_numbytes", 1)
			}
			if v.ddr.NumBytes == minDialData {
				st.add("numbytes_at_minimum", 1)
			}
		}
		if v.stage1Rej {
			st.add("rejected_before_reading", 1)
		}
		if v.stage2Rej {
			st.add("rejected_for_dial_data_limit", 1)
		}
		switch n := len(v.list); {
		case !v.isReq:
		case n == 0:
			st.add("list_len/0", 1)
		case n == 1:
			st.add("list_len/1", 1)
		case n <= 8:
			st.add("list_len/2-8", 1)
		case n < 50:
			st.add("list_len/9-49", 1)
		case n == 50:
			st.add("list_len/50", 1)
		default:
			st.add("list_len/51+", 1)
		}
	}
	// dial-back nonces (informative: not part of the statement)
	for _, db := range s.dialBacks {
		db.s.mu.Lock()
		w := append([]byte(nil), db.s.written...)
		db.s.mu.Unlock()
		n, ok := parseDialBack(w)
		if !ok {
			st.add("dialback_without_message", 1)
			continue
		}
		match := false
		for _, rq := range db.reqs {
			match = match || byReq[rq].nonce == n
		}
		if match {
			st.add("dialback_nonce_matches_request", 1)
		} else {
			st.add("dialback_nonce_differs_from_request", 1)
		}
	}
	st.add("candial_calls", int(s.canDialCalls.Load()))
	return fs, st, views
}

// assignable: can every address i be given a DIFFERENT justifying request from just[i]?
func assignable(just [][]int, used map[int]bool, i int) bool {
	if i == len(just) {
		return true
	}
	for _, j := range just[i] {
		if !used[j] {
			used[j] = true
			if assignable(just, used, i+1) {
				return true
			}
			delete(used, j)
		}
	}
	return false
}

// maxInWindow returns the largest number of instants inside one half-open window (t-60s, t] and
// the t at which it is reached. Two instants exactly 60 s apart are never in one window.
func maxInWindow(ts []time.Duration) (best int, at time.Duration) {
	sort.Slice(ts, func(i, j int) bool { return ts[i] < ts[j] })
	lo := 0
	for hi := range ts {
		for ts[hi]-ts[lo] >= window {
			lo++
		}
		if n := hi - lo + 1; n > best {
			best, at = n, ts[hi]
		}
	}
	return
}

// ---- witness material ---------------------------------------------------------------------------

func (v *reqView) summary() map[string]any {
	rq := v.rq
	m := map[string]any{
		"id": rq.ID, "peer": rq.peer.Name, "observed": rq.peer.ObsStr, "arrival": rq.Arrival.String(),
		"plan": rq.plan, "decodable_request": v.isReq, "names_public_dialable": v.hasGood, "first_public_dialable_index": v.goodIdx,
		"server_messages": v.msgs, "response_status": v.status, "dial_status": v.dialStatus,
		"bytes_consumed_by_server": rq.st.in.consumed.Load(), "request_frame_len": v.frameLen, "dial_data_wire_bytes_sent": rq.ddRawSent,
		"first_read_stamp": v.firstRead, "end_of_service_stamp": v.endStamp, "handler_entry_stamp": rq.entry, "handler_exit_stamp": rq.exit,
		"server_reset_stamp": rq.st.resetStamp, "client_end": rq.clientEnd, "dialed": addrStrings(v.dialed),
	}
	if len(rq.plan.Entries) > 12 {
		// keep witnesses readable: the plan is reproducible from the case id
		cp := *rq.plan
		cp.Entries = append(append([]entry{}, cp.Entries[:6]...), entry{Str: fmt.Sprintf("... %d more ...", len(rq.plan.Entries)-12)})
		cp.Entries = append(cp.Entries, rq.plan.Entries[len(rq.plan.Entries)-6:]...)
		m["plan"] = &cp
	}
	return m
}

func witness(s *session, views []*reqView, fs []finding) map[string]any {
	var reqs []any
	for i, v := range views {
		if i >= 150 {
			reqs = append(reqs, fmt.Sprintf("... %d more requests ...", len(views)-i))
			break
		}
		reqs = append(reqs, v.summary())
	}
	calls := s.calls
	if len(calls) > 400 {
		calls = calls[:400]
	}
	var dials []any
	for _, d := range s.dials {
		var snap []any
		for _, sn := range d.Snap {
			snap = append(snap, map[string]any{"request": sn.rq.ID, "bytes_consumed": sn.consumed, "server_output_len": sn.outLen})
		}
		dials = append(dials, map[string]any{"stamp": d.Stamp, "t": d.T.String(), "method": d.Method, "peer": string(d.Peer), "addrs": addrStrings(d.Addrs), "requests_in_service": snap})
		if len(dials) >= 200 {
			break
		}
	}
	var msgs []string
	for _, f := range fs {
		msgs = append(msgs, f.Sig+": "+f.Msg)
	}
	return map[string]any{"config": s.cfg.describe(), "findings": msgs, "requests": reqs, "dialer_calls": calls, "dials": dials}
}
