package c16

// Scriptable fakes: in-memory stream pipes (channel based, usable inside synctest bubbles, virtual
// deadlines), the inbound request stream with byte/stamp accounting, the serving host (handler
// capture) and the DIALER host that logs every call that could put a packet on the wire.

import (
	"context"
	"errors"
	"fmt"
	"io"
	"os"
	"sync"
	"sync/atomic"
	"time"

	"github.com/libp2p/go-libp2p/core/connmgr"
	ic "github.com/libp2p/go-libp2p/core/crypto"
	"github.com/libp2p/go-libp2p/core/event"
	"github.com/libp2p/go-libp2p/core/network"
	"github.com/libp2p/go-libp2p/core/peer"
	"github.com/libp2p/go-libp2p/core/peerstore"
	"github.com/libp2p/go-libp2p/core/protocol"
	"github.com/libp2p/go-libp2p/p2p/host/eventbus"
	"github.com/libp2p/go-libp2p/p2p/host/peerstore/pstoremem"
	ma "github.com/multiformats/go-multiaddr"
)

// maxBlock bounds every blocking read that has no deadline (virtual time), so that a server that
// forgets a deadline ends the case instead of wedging the bubble.
const maxBlock = 10 * time.Minute

// ---------------------------------------------------------------------------------------------
// pipe: one direction of a stream. Writes never block (unbounded buffer): "sent" means written.

type pipe struct {
	mu       sync.Mutex
	chunks   [][]byte
	eof, rst bool
	wake     chan struct{}
	consumed atomic.Int64 // bytes handed to the reader so far
	// eofData: once the writer has half-closed, the read that hands out the LAST bytes returns io.EOF in
	// the same call (legal for an io.Reader; QUIC streams do it when FIN travels with the data)
	eofData  bool
	eofFired atomic.Int64
}

func newPipe() *pipe { return &pipe{wake: make(chan struct{})} }

func (p *pipe) signalLocked() { close(p.wake); p.wake = make(chan struct{}) }

func (p *pipe) kick() { p.mu.Lock(); p.signalLocked(); p.mu.Unlock() }

func (p *pipe) write(b []byte) error {
	p.mu.Lock()
	defer p.mu.Unlock()
	if p.rst {
		return network.ErrReset
	}
	if p.eof {
		return errors.New("write on closed stream")
	}
	if len(b) == 0 {
		return nil
	}
	p.chunks = append(p.chunks, append([]byte(nil), b...))
	p.signalLocked()
	return nil
}

// writeAndClose appends the last bytes and half-closes in one step (no read can see one without the other).
func (p *pipe) writeAndClose(b []byte) error {
	p.mu.Lock()
	defer p.mu.Unlock()
	if p.rst {
		return network.ErrReset
	}
	if p.eof {
		return errors.New("write on closed stream")
	}
	if len(b) > 0 {
		p.chunks = append(p.chunks, append([]byte(nil), b...))
	}
	p.eof = true
	p.signalLocked()
	return nil
}

func (p *pipe) closeWrite() {
	p.mu.Lock()
	if !p.eof {
		p.eof = true
		p.signalLocked()
	}
	p.mu.Unlock()
}

func (p *pipe) reset() {
	p.mu.Lock()
	if !p.rst {
		p.rst = true
		p.chunks = nil
		p.signalLocked()
	}
	p.mu.Unlock()
}

// read returns at most the rest of the current chunk (chunk boundaries are what the writer wrote:
// short reads are the rule, like on a real muxer).
func (p *pipe) read(b []byte, deadline func() time.Time) (int, error) {
	if len(b) == 0 {
		return 0, nil
	}
	for {
		p.mu.Lock()
		if p.rst {
			p.mu.Unlock()
			return 0, network.ErrReset
		}
		if len(p.chunks) > 0 {
			n := copy(b, p.chunks[0])
			if n == len(p.chunks[0]) {
				p.chunks = p.chunks[1:]
			} else {
				p.chunks[0] = p.chunks[0][n:]
			}
			p.consumed.Add(int64(n))
			last := p.eofData && p.eof && len(p.chunks) == 0
			p.mu.Unlock()
			if last {
				p.eofFired.Add(1)
				return n, io.EOF
			}
			return n, nil
		}
		if p.eof {
			p.mu.Unlock()
			return 0, io.EOF
		}
		w := p.wake
		p.mu.Unlock()
		d := maxBlock
		dl := deadline()
		if !dl.IsZero() {
			if d = time.Until(dl); d <= 0 {
				return 0, os.ErrDeadlineExceeded
			}
		}
		t := time.NewTimer(d)
		select {
		case <-w:
			t.Stop()
		case <-t.C:
			if dl.IsZero() {
				return 0, os.ErrDeadlineExceeded
			}
		}
	}
}

// ---------------------------------------------------------------------------------------------
// fakeConn: what Stream.Conn() reports (requesting peer and the observed address).

type fakeConn struct {
	local, remote peer.ID
	laddr, raddr  ma.Multiaddr
}

func (c *fakeConn) Close() error                               { return nil }
func (c *fakeConn) CloseWithError(network.ConnErrorCode) error { return nil }
func (c *fakeConn) ID() string                                 { return "c16-conn" }
func (c *fakeConn) GetStreams() []network.Stream               { return nil }
func (c *fakeConn) IsClosed() bool                             { return false }
func (c *fakeConn) As(any) bool                                { return false }
func (c *fakeConn) LocalPeer() peer.ID                         { return c.local }
func (c *fakeConn) RemotePeer() peer.ID                        { return c.remote }
func (c *fakeConn) RemotePublicKey() ic.PubKey                 { return nil }
func (c *fakeConn) ConnState() network.ConnectionState         { return network.ConnectionState{} }
func (c *fakeConn) LocalMultiaddr() ma.Multiaddr               { return c.laddr }
func (c *fakeConn) RemoteMultiaddr() ma.Multiaddr              { return c.raddr }
func (c *fakeConn) Stat() network.ConnStats                    { return network.ConnStats{} }
func (c *fakeConn) Scope() network.ConnScope                   { return &network.NullScope{} }
func (c *fakeConn) NewStream(context.Context) (network.Stream, error) {
	return nil, errors.New("c16 fake conn: no streams")
}

// ---------------------------------------------------------------------------------------------
// srvStream: the inbound dial-request stream handed to the real server's handler.

type writeRec struct {
	Stamp int64         `json:"stamp"`
	T     time.Duration `json:"t"`
	End   int           `json:"end"` // length of the server's output after this write
}

type srvStream struct {
	sess *session
	in   *pipe // client -> server
	out  *pipe // server -> client
	conn *fakeConn

	mu          sync.Mutex
	rdl         time.Time
	closedRead  bool
	closedWrite bool
	firstRead   int64 // logical stamp of the server's first Read call (0: never read)
	written     []byte
	writes      []writeRec
	resetStamp  int64
	closeStamp  int64
}

func (s *srvStream) deadline() time.Time { s.mu.Lock(); defer s.mu.Unlock(); return s.rdl }

func (s *srvStream) Read(b []byte) (int, error) {
	st := s.sess.stamp()
	s.mu.Lock()
	if s.firstRead == 0 {
		s.firstRead = st
	}
	closed := s.closedRead
	s.mu.Unlock()
	if closed {
		return 0, errors.New("read on closed stream")
	}
	return s.in.read(b, s.deadline)
}

func (s *srvStream) Write(b []byte) (int, error) {
	st := s.sess.stamp()
	s.mu.Lock()
	if s.resetStamp != 0 {
		s.mu.Unlock()
		return 0, network.ErrReset
	}
	if s.closedWrite {
		s.mu.Unlock()
		return 0, errors.New("write on closed stream")
	}
	s.written = append(s.written, b...)
	s.writes = append(s.writes, writeRec{Stamp: st, T: s.sess.now(), End: len(s.written)})
	s.mu.Unlock()
	if err := s.out.write(b); err != nil {
		return 0, err
	}
	return len(b), nil
}

func (s *srvStream) Close() error {
	st := s.sess.stamp()
	s.mu.Lock()
	if s.closeStamp == 0 {
		s.closeStamp = st
	}
	s.closedRead, s.closedWrite = true, true
	s.mu.Unlock()
	s.out.closeWrite()
	s.in.kick()
	return nil
}

func (s *srvStream) CloseWrite() error {
	s.mu.Lock()
	s.closedWrite = true
	s.mu.Unlock()
	s.out.closeWrite()
	return nil
}

func (s *srvStream) CloseRead() error {
	s.mu.Lock()
	s.closedRead = true
	s.mu.Unlock()
	s.in.kick()
	return nil
}

func (s *srvStream) Reset() error {
	st := s.sess.stamp()
	s.mu.Lock()
	if s.resetStamp == 0 {
		s.resetStamp = st
	}
	s.mu.Unlock()
	s.in.reset()
	s.out.reset()
	return nil
}

func (s *srvStream) ResetWithError(network.StreamErrorCode) error { return s.Reset() }

func (s *srvStream) SetDeadline(t time.Time) error {
	s.mu.Lock()
	s.rdl = t
	s.mu.Unlock()
	s.in.kick()
	return nil
}
func (s *srvStream) SetReadDeadline(t time.Time) error { return s.SetDeadline(t) }
func (s *srvStream) SetWriteDeadline(time.Time) error  { return nil }
func (s *srvStream) ID() string                        { return "c16-stream" }
func (s *srvStream) Protocol() protocol.ID             { return dialProtocol }
func (s *srvStream) SetProtocol(protocol.ID) error     { return nil }
func (s *srvStream) Stat() network.Stats               { return network.Stats{Direction: network.DirInbound} }
func (s *srvStream) Conn() network.Conn                { return s.conn }
func (s *srvStream) Scope() network.StreamScope        { return &network.NullScope{} }

// snapshot returns (bytes consumed by the server so far, length of the server's output so far).
func (s *srvStream) snapshot() (consumed int64, outLen int) {
	s.mu.Lock()
	defer s.mu.Unlock()
	return s.in.consumed.Load(), len(s.written)
}

// ---------------------------------------------------------------------------------------------
// dialBackStream: what the dialer host's NewStream returns; the server writes DialBack on it.

type dialBackStream struct {
	sess *session
	peer peer.ID
	mode string // ok | eof | silent | writefail
	resp *pipe

	mu      sync.Mutex
	rdl     time.Time
	written []byte
	closedW bool
}

func (s *dialBackStream) deadline() time.Time { s.mu.Lock(); defer s.mu.Unlock(); return s.rdl }

func (s *dialBackStream) Read(b []byte) (int, error) { return s.resp.read(b, s.deadline) }
func (s *dialBackStream) Write(b []byte) (int, error) {
	if s.mode == "writefail" {
		return 0, network.ErrReset
	}
	s.mu.Lock()
	s.written = append(s.written, b...)
	s.mu.Unlock()
	return len(b), nil
}
func (s *dialBackStream) CloseWrite() error {
	s.mu.Lock()
	first := !s.closedW
	s.closedW = true
	s.mu.Unlock()
	if first {
		switch s.mode {
		case "ok":
			s.resp.write([]byte{0}) // an (empty) DialBackResponse frame
			s.resp.closeWrite()
		case "eof":
			s.resp.closeWrite()
		}
	}
	return nil
}
func (s *dialBackStream) Close() error                                 { s.CloseWrite(); s.resp.kick(); return nil }
func (s *dialBackStream) CloseRead() error                             { return nil }
func (s *dialBackStream) Reset() error                                 { s.resp.reset(); return nil }
func (s *dialBackStream) ResetWithError(network.StreamErrorCode) error { return s.Reset() }
func (s *dialBackStream) SetDeadline(t time.Time) error {
	s.mu.Lock()
	s.rdl = t
	s.mu.Unlock()
	s.resp.kick()
	return nil
}
func (s *dialBackStream) SetReadDeadline(t time.Time) error { return s.SetDeadline(t) }
func (s *dialBackStream) SetWriteDeadline(time.Time) error  { return nil }
func (s *dialBackStream) ID() string                        { return "c16-dialback" }
func (s *dialBackStream) Protocol() protocol.ID             { return dialBackProtocol }
func (s *dialBackStream) SetProtocol(protocol.ID) error     { return nil }
func (s *dialBackStream) Stat() network.Stats               { return network.Stats{Direction: network.DirOutbound} }
func (s *dialBackStream) Scope() network.StreamScope        { return &network.NullScope{} }
func (s *dialBackStream) Conn() network.Conn {
	return &fakeConn{local: s.sess.dialer.id, remote: s.peer}
}

// ---------------------------------------------------------------------------------------------
// srvHost: the host the server is started on. Only captures the handlers.

type srvHost struct {
	id       peer.ID
	bus      event.Bus
	mu       sync.Mutex
	handlers map[protocol.ID]network.StreamHandler
}

func newSrvHost(id peer.ID) *srvHost {
	return &srvHost{id: id, bus: eventbus.NewBus(), handlers: map[protocol.ID]network.StreamHandler{}}
}

func (h *srvHost) ID() peer.ID                    { return h.id }
func (h *srvHost) Peerstore() peerstore.Peerstore { return nil }
func (h *srvHost) Addrs() []ma.Multiaddr          { return nil }
func (h *srvHost) Network() network.Network       { return nil }
func (h *srvHost) Mux() protocol.Switch           { return nil }
func (h *srvHost) Connect(context.Context, peer.AddrInfo) error {
	return errors.New("c16: serving host does not dial")
}
func (h *srvHost) SetStreamHandler(p protocol.ID, f network.StreamHandler) {
	h.mu.Lock()
	h.handlers[p] = f
	h.mu.Unlock()
}
func (h *srvHost) SetStreamHandlerMatch(p protocol.ID, _ func(protocol.ID) bool, f network.StreamHandler) {
	h.SetStreamHandler(p, f)
}
func (h *srvHost) RemoveStreamHandler(p protocol.ID) {
	h.mu.Lock()
	delete(h.handlers, p)
	h.mu.Unlock()
}
func (h *srvHost) NewStream(context.Context, peer.ID, ...protocol.ID) (network.Stream, error) {
	return nil, errors.New("c16: serving host does not open streams")
}
func (h *srvHost) Close() error                     { return nil }
func (h *srvHost) ConnManager() connmgr.ConnManager { return nil }
func (h *srvHost) EventBus() event.Bus              { return h.bus }
func (h *srvHost) handler(p protocol.ID) network.StreamHandler {
	h.mu.Lock()
	defer h.mu.Unlock()
	return h.handlers[p]
}

// ---------------------------------------------------------------------------------------------
// dialerHost: the separate host the server dials back from. Every call that adds an address for a
// peer, dials, opens a stream or tears down is logged with logical stamp + virtual time; a "dial"
// is recorded with exactly the addresses a real host would try: AddrInfo.Addrs plus everything its
// peerstore holds for the peer at that instant.

type dialScript struct {
	Connect string `json:"connect"` // ok | fail | hang
	Stream  string `json:"stream"`  // ok | eof | silent | writefail | fail
}

type dialerHost struct {
	sess *session
	id   peer.ID
	ps   *dialerPeerstore
	nw   *dialerNetwork
	bus  event.Bus
}

func newDialerHost(sess *session, id peer.ID) *dialerHost {
	real, err := pstoremem.NewPeerstore()
	if err != nil {
		panic(err)
	}
	d := &dialerHost{sess: sess, id: id, bus: eventbus.NewBus()}
	d.ps = &dialerPeerstore{Peerstore: real, sess: sess, addrs: map[peer.ID][]psAddr{}}
	d.nw = &dialerNetwork{d: d, connected: map[peer.ID]bool{}}
	return d
}

func (d *dialerHost) ID() peer.ID                                         { return d.id }
func (d *dialerHost) Peerstore() peerstore.Peerstore                      { return d.ps }
func (d *dialerHost) Addrs() []ma.Multiaddr                               { return nil }
func (d *dialerHost) Network() network.Network                            { return d.nw }
func (d *dialerHost) Mux() protocol.Switch                                { return nil }
func (d *dialerHost) SetStreamHandler(protocol.ID, network.StreamHandler) {}
func (d *dialerHost) SetStreamHandlerMatch(protocol.ID, func(protocol.ID) bool, network.StreamHandler) {
}
func (d *dialerHost) RemoveStreamHandler(protocol.ID)  {}
func (d *dialerHost) ConnManager() connmgr.ConnManager { return nil }
func (d *dialerHost) EventBus() event.Bus              { return d.bus }
func (d *dialerHost) Close() error {
	d.sess.logCall("Close", "", nil)
	return d.ps.Peerstore.Close()
}

// dial performs one scripted dial attempt to p with the given extra addresses.
func (d *dialerHost) dial(ctx context.Context, method string, p peer.ID, extra []ma.Multiaddr) error {
	if len(extra) > 0 {
		d.ps.AddAddrs(p, extra, peerstore.TempAddrTTL)
	}
	sc, addrs := d.sess.recordDial(method, p, d.ps.Addrs)
	if len(addrs) == 0 {
		return errors.New("c16 dialer: no addresses")
	}
	switch sc.Connect {
	case "fail":
		return errors.New("c16 dialer: scripted dial failure")
	case "hang":
		<-ctx.Done()
		return ctx.Err()
	}
	if err := ctx.Err(); err != nil {
		return err
	}
	d.nw.mu.Lock()
	d.nw.connected[p] = true
	d.nw.mu.Unlock()
	return nil
}

func (d *dialerHost) Connect(ctx context.Context, pi peer.AddrInfo) error {
	return d.dial(ctx, "Connect", pi.ID, pi.Addrs)
}

func (d *dialerHost) NewStream(ctx context.Context, p peer.ID, pids ...protocol.ID) (network.Stream, error) {
	return d.newStream(ctx, "NewStream", p)
}

func (d *dialerHost) newStream(ctx context.Context, method string, p peer.ID) (network.Stream, error) {
	d.nw.mu.Lock()
	conn := d.nw.connected[p]
	d.nw.mu.Unlock()
	if !conn { // a real host dials when it has no connection
		if err := d.dial(ctx, method+"(dial)", p, nil); err != nil {
			return nil, err
		}
	}
	sc := d.sess.scriptFor(p)
	d.sess.logCall(method, p, nil)
	if sc.Stream == "fail" {
		return nil, errors.New("c16 dialer: scripted stream failure")
	}
	s := &dialBackStream{sess: d.sess, peer: p, mode: sc.Stream, resp: newPipe()}
	d.sess.addDialBack(p, s)
	return s, nil
}

type dialerNetwork struct {
	d         *dialerHost
	mu        sync.Mutex
	connected map[peer.ID]bool
}

func (n *dialerNetwork) Peerstore() peerstore.Peerstore { return n.d.ps }
func (n *dialerNetwork) LocalPeer() peer.ID             { return n.d.id }
func (n *dialerNetwork) DialPeer(ctx context.Context, p peer.ID) (network.Conn, error) {
	if err := n.d.dial(ctx, "Network.DialPeer", p, nil); err != nil {
		return nil, err
	}
	return &fakeConn{local: n.d.id, remote: p}, nil
}
func (n *dialerNetwork) ClosePeer(p peer.ID) error {
	n.d.sess.logCall("Network.ClosePeer", p, nil)
	n.mu.Lock()
	delete(n.connected, p)
	n.mu.Unlock()
	return nil
}
func (n *dialerNetwork) Connectedness(p peer.ID) network.Connectedness {
	n.mu.Lock()
	defer n.mu.Unlock()
	if n.connected[p] {
		return network.Connected
	}
	return network.NotConnected
}
func (n *dialerNetwork) Peers() []peer.ID                   { return nil }
func (n *dialerNetwork) Conns() []network.Conn              { return nil }
func (n *dialerNetwork) ConnsToPeer(peer.ID) []network.Conn { return nil }
func (n *dialerNetwork) Notify(network.Notifiee)            {}
func (n *dialerNetwork) StopNotify(network.Notifiee)        {}
func (n *dialerNetwork) CanDial(p peer.ID, a ma.Multiaddr) bool {
	n.d.sess.canDialCalls.Add(1)
	return n.d.sess.cfg.canDial(a)
}
func (n *dialerNetwork) Close() error                           { return nil }
func (n *dialerNetwork) SetStreamHandler(network.StreamHandler) {}
func (n *dialerNetwork) NewStream(ctx context.Context, p peer.ID) (network.Stream, error) {
	return n.d.newStream(ctx, "Network.NewStream", p)
}
func (n *dialerNetwork) Listen(...ma.Multiaddr) error    { return nil }
func (n *dialerNetwork) ListenAddresses() []ma.Multiaddr { return nil }
func (n *dialerNetwork) InterfaceListenAddresses() ([]ma.Multiaddr, error) {
	return nil, nil
}
func (n *dialerNetwork) ResourceManager() network.ResourceManager {
	return &network.NullResourceManager{}
}

// dialerPeerstore: address book with TTLs in (virtual) time; everything else falls through to a
// real, otherwise unused pstoremem so that no call can panic.
type psAddr struct {
	a   ma.Multiaddr
	exp time.Time
}

type dialerPeerstore struct {
	peerstore.Peerstore
	sess  *session
	mu    sync.Mutex
	addrs map[peer.ID][]psAddr
}

func (ps *dialerPeerstore) put(kind string, p peer.ID, as []ma.Multiaddr, ttl time.Duration, replace bool) {
	ps.sess.logCall(fmt.Sprintf("Peerstore.%s(ttl=%s)", kind, ttl), p, as)
	ps.mu.Lock()
	defer ps.mu.Unlock()
	exp := time.Now().Add(ttl)
	for _, a := range as {
		if a == nil {
			continue
		}
		found := false
		for i := range ps.addrs[p] {
			if ps.addrs[p][i].a.Equal(a) {
				found = true
				if replace || exp.After(ps.addrs[p][i].exp) {
					ps.addrs[p][i].exp = exp
				}
			}
		}
		if !found && ttl > 0 {
			ps.addrs[p] = append(ps.addrs[p], psAddr{a, exp})
		}
	}
}

func (ps *dialerPeerstore) AddAddr(p peer.ID, a ma.Multiaddr, ttl time.Duration) {
	ps.put("AddAddr", p, []ma.Multiaddr{a}, ttl, false)
}
func (ps *dialerPeerstore) AddAddrs(p peer.ID, as []ma.Multiaddr, ttl time.Duration) {
	ps.put("AddAddrs", p, as, ttl, false)
}
func (ps *dialerPeerstore) SetAddr(p peer.ID, a ma.Multiaddr, ttl time.Duration) {
	ps.put("SetAddr", p, []ma.Multiaddr{a}, ttl, true)
}
func (ps *dialerPeerstore) SetAddrs(p peer.ID, as []ma.Multiaddr, ttl time.Duration) {
	ps.put("SetAddrs", p, as, ttl, true)
}
func (ps *dialerPeerstore) UpdateAddrs(p peer.ID, oldTTL, newTTL time.Duration) {
	ps.sess.logCall("Peerstore.UpdateAddrs", p, nil)
}
func (ps *dialerPeerstore) Addrs(p peer.ID) []ma.Multiaddr {
	ps.mu.Lock()
	defer ps.mu.Unlock()
	now := time.Now()
	var out []ma.Multiaddr
	for _, e := range ps.addrs[p] {
		if e.exp.After(now) {
			out = append(out, e.a)
		}
	}
	return out
}
func (ps *dialerPeerstore) ClearAddrs(p peer.ID) {
	ps.sess.logCall("Peerstore.ClearAddrs", p, nil)
	ps.mu.Lock()
	delete(ps.addrs, p)
	ps.mu.Unlock()
}
func (ps *dialerPeerstore) RemovePeer(p peer.ID) {
	ps.sess.logCall("Peerstore.RemovePeer", p, nil)
	// like pstoremem: RemovePeer drops keys, metadata, protocols - NOT addresses
	ps.Peerstore.RemovePeer(p)
}
func (ps *dialerPeerstore) PeersWithAddrs() peer.IDSlice {
	ps.mu.Lock()
	defer ps.mu.Unlock()
	var out peer.IDSlice
	for p := range ps.addrs {
		out = append(out, p)
	}
	return out
}
func (ps *dialerPeerstore) PeerInfo(p peer.ID) peer.AddrInfo {
	return peer.AddrInfo{ID: p, Addrs: ps.Addrs(p)}
}
func (ps *dialerPeerstore) AddrStream(ctx context.Context, p peer.ID) <-chan ma.Multiaddr {
	ch := make(chan ma.Multiaddr)
	close(ch)
	return ch
}
