package c16

// Workload generators: the address population (classes known BY CONSTRUCTION, not by asking the
// code under test), hostile DialRequest encodings, dial-data streams, sessions.

import (
	"fmt"
	"math/rand/v2"
	"net/netip"
	"time"

	"github.com/libp2p/go-libp2p/core/peer"
	ma "github.com/multiformats/go-multiaddr"
)

// ---- address population -----------------------------------------------------------------------

var (
	pubV4  = []string{"1.2.3.4", "1.2.3.5", "5.6.7.8", "8.8.8.8", "45.33.32.156", "93.184.216.34", "151.101.1.69", "104.16.132.229", "185.199.108.153", "13.107.42.14"}
	pubV6  = []string{"2001:4860:4860::8888", "2606:4700:4700::1111", "2a00:1450:4001:81b::200e", "2620:fe::fe", "2a03:2880:f12f:83:face:b00c:0:25de"}
	privV4 = []string{"10.0.0.1", "10.255.1.2", "172.16.5.4", "172.31.255.1", "192.168.1.5", "192.168.0.1", "127.0.0.1", "127.8.8.8", "169.254.10.10", "100.64.0.1", "100.127.9.9",
		// not private but not publicly routable either
		"0.0.0.0", "192.0.2.1", "198.18.0.1", "198.51.100.7", "203.0.113.9", "224.0.0.1", "240.0.0.1", "255.255.255.255"}
	privV6   = []string{"::1", "fc00::1", "fd12:3456:789a::1", "fe80::1", "fe80::abcd", "ff02::1", "2001:db8::1"}
	dnsAddrs = []string{"/dns4/example.com/tcp/443", "/dns6/ipv6.example.org/udp/443/quic-v1", "/dns/example.net/tcp/80", "/dnsaddr/bootstrap.libp2p.io"}
	// names that are not public: loopback / private-use / unresolvable special-use domains
	privDNS = []string{"/dns4/localhost/tcp/80", "/dns/printer.local/tcp/631", "/dns4/foo.invalid/tcp/1", "/dns6/router.home.arpa/tcp/80"}
)

const relayPeer = "12D3KooWQYhTNQdmr3ArTeUHRYzFg94BKyTkoWBDWez9kSCVe2Xo"

// entry is one element of a request's address list.
type entry struct {
	B     []byte `json:"-"`
	Str   string `json:"addr"`
	Class string `json:"class"` // malformed | private | undialable | foreign | same | dns
}

func transportSuffix(rng *rand.Rand, port int) string {
	switch rng.IntN(6) {
	case 0, 1:
		return fmt.Sprintf("/tcp/%d", port)
	case 2:
		return fmt.Sprintf("/udp/%d/quic-v1", port)
	case 3:
		return fmt.Sprintf("/tcp/%d/ws", port)
	case 4:
		return fmt.Sprintf("/udp/%d/quic-v1/webtransport", port)
	default:
		return fmt.Sprintf("/udp/%d/webrtc-direct", port)
	}
}

func ipAddrString(ip netip.Addr) string {
	if ip.Is4() {
		return "/ip4/" + ip.String()
	}
	return "/ip6/" + ip.String()
}

func pick[T any](rng *rand.Rand, xs []T) T { return xs[rng.IntN(len(xs))] }

func randPort(rng *rand.Rand, cfg *sessCfg, allowBad bool) int {
	if allowBad && cfg.BadPort != 0 && rng.IntN(6) == 0 {
		return cfg.BadPort
	}
	for {
		p := 1 + rng.IntN(65535)
		if p != cfg.BadPort {
			return p
		}
	}
}

// mkIPEntry builds an address for ip and classifies it by construction: public is what the caller
// knows about ip; dialable is the dialer script's answer; same/foreign is IP equality with the
// observed IP of the requesting peer.
func mkIPEntry(rng *rand.Rand, cfg *sessCfg, pi *peerInfo, ip netip.Addr, public bool, allowBadPort bool) entry {
	s := ipAddrString(ip) + transportSuffix(rng, randPort(rng, cfg, allowBadPort))
	if public && rng.IntN(25) == 0 {
		s += "/p2p/" + relayPeer + "/p2p-circuit" // a relayed address: never dialable by the dialer script
	}
	a := ma.StringCast(s)
	e := entry{B: a.Bytes(), Str: s}
	switch {
	case !public:
		e.Class = "private"
	case !cfg.canDial(a):
		e.Class = "undialable"
	case pi.IP.IsValid() && ip == pi.IP:
		e.Class = "same"
	default:
		e.Class = "foreign"
	}
	return e
}

func malformedEntry(rng *rand.Rand) entry {
	for try := 0; try < 30; try++ {
		var b []byte
		switch rng.IntN(5) {
		case 0: // random bytes
			b = make([]byte, 1+rng.IntN(24))
			for i := range b {
				b[i] = byte(rng.IntN(256))
			}
		case 1: // a valid address cut short
			v := ma.StringCast("/ip4/" + pick(rng, pubV4) + "/tcp/4001").Bytes()
			b = v[:len(v)-1-rng.IntN(3)]
		case 2: // a valid address with trailing garbage
			v := ma.StringCast("/ip4/" + pick(rng, pubV4) + "/tcp/4001").Bytes()
			b = append(append([]byte{}, v...), 0xff, byte(rng.IntN(256)))
		case 3: // unknown protocol code
			b = []byte{0xff, 0xff, 0x03, 1, 2, 3, 4}
		case 4: // ip6 with too few bytes
			b = []byte{0x29, 1, 2, 3, 4, 5, 6}
		}
		if _, err := ma.NewMultiaddrBytes(b); err != nil {
			return entry{B: b, Str: fmt.Sprintf("hex:%x", b), Class: "malformed"}
		}
	}
	return entry{B: []byte{0xff}, Str: "hex:ff", Class: "malformed"}
}

// genEntry returns an entry of (about) the wanted class; the class actually produced is in the result.
func genEntry(rng *rand.Rand, cfg *sessCfg, pi *peerInfo, want string) entry {
	otherPub := func() netip.Addr {
		for {
			var s string
			if rng.IntN(3) == 0 {
				s = pick(rng, pubV6)
			} else {
				s = pick(rng, pubV4)
			}
			// sometimes the victim is another peer of the population
			if rng.IntN(4) == 0 {
				if o := pick(rng, cfg.Peers); o.IP.IsValid() && o.pub {
					s = o.IP.String()
				}
			}
			ip := netip.MustParseAddr(s)
			if ip != pi.IP {
				return ip
			}
		}
	}
	switch want {
	case "malformed":
		return malformedEntry(rng)
	case "private":
		if rng.IntN(8) == 0 {
			s := pick(rng, privDNS)
			return entry{B: ma.StringCast(s).Bytes(), Str: s, Class: "private"}
		}
		var s string
		if rng.IntN(3) == 0 {
			s = pick(rng, privV6)
		} else {
			s = pick(rng, privV4)
		}
		return mkIPEntry(rng, cfg, pi, netip.MustParseAddr(s), false, true)
	case "dns":
		s := pick(rng, dnsAddrs)
		a := ma.StringCast(s)
		e := entry{B: a.Bytes(), Str: s, Class: "dns"}
		if !cfg.canDial(a) {
			e.Class = "undialable"
		}
		return e
	case "same":
		if !pi.IP.IsValid() {
			return genEntry(rng, cfg, pi, "foreign")
		}
		for try := 0; try < 20; try++ {
			if e := mkIPEntry(rng, cfg, pi, pi.IP, pi.pub, false); e.Class == "same" || !pi.pub {
				return e
			}
		}
		return mkIPEntry(rng, cfg, pi, pi.IP, pi.pub, false)
	case "foreign":
		for try := 0; try < 20; try++ {
			if e := mkIPEntry(rng, cfg, pi, otherPub(), true, false); e.Class == "foreign" {
				return e
			}
		}
		return mkIPEntry(rng, cfg, pi, otherPub(), true, false)
	default: // undialable: a public address the dialer script refuses
		for try := 0; try < 40; try++ {
			ip := otherPub()
			if rng.IntN(3) == 0 && pi.IP.IsValid() && pi.pub {
				ip = pi.IP
			}
			var s string
			switch {
			case cfg.NoUDP && rng.IntN(2) == 0:
				s = ipAddrString(ip) + fmt.Sprintf("/udp/%d/quic-v1", randPort(rng, cfg, false))
			case cfg.NoIP6 && rng.IntN(2) == 0:
				s = "/ip6/" + pick(rng, pubV6) + fmt.Sprintf("/tcp/%d", randPort(rng, cfg, false))
			case cfg.BadPort != 0 && rng.IntN(2) == 0:
				s = ipAddrString(ip) + fmt.Sprintf("/tcp/%d", cfg.BadPort)
			default:
				s = ipAddrString(ip) + fmt.Sprintf("/tcp/%d/p2p/%s/p2p-circuit", randPort(rng, cfg, false), relayPeer)
			}
			a := ma.StringCast(s)
			if !cfg.canDial(a) {
				return entry{B: a.Bytes(), Str: s, Class: "undialable"}
			}
		}
		return malformedEntry(rng)
	}
}

// ---- sessions ---------------------------------------------------------------------------------

func genPeers(rng *rand.Rand, n int, allowOdd bool) []*peerInfo {
	used := map[string]bool{}
	var ps []*peerInfo
	for i := 0; i < n; i++ {
		if allowOdd && i == n-2 && rng.IntN(3) == 0 {
			// a requester whose connection has no IP address at all (an onion service, a name): its IP is
			// unknown, so every address it names is a foreign one
			obs := pick(rng, []string{"/onion3/vww6ybal4bd7szmgncyruucpgfkqahzddi37ktceo3ah7ngmcopnpyyd:1234", "/dns4/requester.example.org/tcp/4001", "/dns/requester.example.net/udp/4001/quic-v1"})
			name := fmt.Sprintf("c16-peer-%d", i)
			ps = append(ps, &peerInfo{ID: peer.ID(name), Name: name, Observed: ma.StringCast(obs), ObsStr: obs, pub: true})
			continue
		}
		var ipS string
		pub := true
		for {
			switch {
			case allowOdd && i == n-1 && rng.IntN(3) == 0: // a requester seen from a private address
				ipS, pub = pick(rng, []string{"192.168.1.77", "10.1.2.3", "fd00::77"}), false
			case rng.IntN(3) == 0:
				ipS = pick(rng, pubV6)
			default:
				ipS = pick(rng, pubV4)
			}
			if !used[ipS] {
				break
			}
		}
		used[ipS] = true
		ip := netip.MustParseAddr(ipS)
		obs := ipAddrString(ip)
		if rng.IntN(2) == 0 {
			obs += fmt.Sprintf("/tcp/%d", 1024+rng.IntN(60000))
		} else {
			obs += fmt.Sprintf("/udp/%d/quic-v1", 1024+rng.IntN(60000))
		}
		name := fmt.Sprintf("c16-peer-%d", i)
		ps = append(ps, &peerInfo{ID: peer.ID(name), Name: name, Observed: ma.StringCast(obs), ObsStr: obs, IP: ip, pub: pub})
	}
	return ps
}

type write struct {
	b   []byte
	gap time.Duration
}

// reqPlan is one generated request: who, what bytes, how delivered, how dial data is answered and
// how the dial back goes.
type reqPlan struct {
	Peer     int           `json:"peer"`
	Entries  []entry       `json:"entries"`
	Nonce    uint64        `json:"nonce"`
	Quirk    string        `json:"encoding"`
	Delivery string        `json:"delivery"`
	PreDelay time.Duration `json:"pre_delay"`
	Stagger  time.Duration `json:"stagger,omitempty"`       // launched this long after the previous request of its burst
	AfterReq string        `json:"after_request,omitempty"` // "" | close | reset
	DD       ddPlan        `json:"dial_data"`
	Dial     dialScript    `json:"dial_back"`

	reqBytes  []byte
	reqWrites []write
	table     map[string]string // entry bytes -> class
}

func (p *reqPlan) setEntries(es []entry) {
	p.Entries = es
	p.table = map[string]string{}
	for _, e := range es {
		// the same bytes can only carry one class within a request (classes are a function of the
		// bytes, the requester and the session)
		p.table[string(e.B)] = e.Class
	}
}

// encodeRequest builds the wire bytes for the plan's entries under the chosen encoding quirk.
func encodeRequest(rng *rand.Rand, es []entry, nonce uint64, quirk string) []byte {
	fixed64 := func(b []byte, field int, v uint64) []byte {
		b = appendTag(b, field, wtFixed64)
		for i := 0; i < 8; i++ {
			b = append(b, byte(v>>(8*i)))
		}
		return b
	}
	junk := func(n int) []byte {
		j := make([]byte, n)
		for i := range j {
			j[i] = byte(rng.IntN(256))
		}
		return j
	}
	inner := func(es []entry, withNonce bool, pad int, unknown bool) []byte {
		var b []byte
		for i, e := range es {
			b = lenField(b, 1, e.B, pad)
			if unknown && i%3 == 0 {
				b = appendUvarint(appendTag(b, 9, wtVarint), uint64(rng.IntN(1<<20)))
				b = lenField(b, 15, junk(rng.IntN(40)), 0)
			}
		}
		if withNonce {
			b = fixed64(b, 2, nonce)
		}
		return b
	}
	switch quirk {
	case "plain":
		return frame(lenField(nil, 1, inner(es, true, 0, false), 0))
	case "nonce-first":
		b := fixed64(nil, 2, nonce)
		return frame(lenField(nil, 1, append(b, inner(es, false, 0, false)...), 0))
	case "unknown-fields":
		body := lenField(nil, 1, inner(es, true, 0, true), 0)
		body = lenField(body, 14, junk(rng.IntN(60)), 0)
		return frame(body)
	case "padded-varints":
		return frame(lenField(nil, 1, inner(es, true, 2+rng.IntN(3), false), 3))
	case "split-merge": // two dialRequest members: protobuf merges them, the lists concatenate
		k := 0
		if len(es) > 0 {
			k = rng.IntN(len(es) + 1)
		}
		body := lenField(nil, 1, inner(es[:k], false, 0, false), 0)
		body = lenField(body, 1, inner(es[k:], true, 0, false), 0)
		return frame(body)
	case "no-nonce":
		return frame(lenField(nil, 1, inner(es, false, 0, false), 0))
	case "nonce-twice":
		b := fixed64(nil, 2, nonce^0xdeadbeef)
		return frame(lenField(nil, 1, append(b, inner(es, true, 0, false)...), 0))
	case "oneof-overridden": // a later dialResponse member replaces the request
		body := lenField(nil, 1, inner(es, true, 0, false), 0)
		body = lenField(body, 2, []byte{0x08, 0xc8, 0x01}, 0)
		return frame(body)
	case "wrong-type": // a DialDataResponse as the first message
		return frame(lenField(nil, 4, lenField(nil, 1, junk(200), 0), 0))
	case "empty-message":
		return frame(nil)
	case "garbage":
		return junk(1 + rng.IntN(300))
	case "truncated": // the frame length promises more than is ever sent
		f := frame(lenField(nil, 1, inner(es, true, 0, false), 0))
		if len(f) > 2 {
			return f[:1+rng.IntN(len(f)-1)]
		}
		return f[:1]
	case "oversized": // > 8192 bytes of message
		body := lenField(nil, 1, inner(es, true, 0, false), 0)
		body = lenField(body, 15, junk(8200+rng.IntN(500)), 0)
		return frame(body)
	case "nonminimal-frame-length":
		body := lenField(nil, 1, inner(es, true, 0, false), 0)
		return append(appendPaddedUvarint(nil, uint64(len(body)), 4), body...)
	}
	panic("unknown quirk " + quirk)
}

var requestQuirks = []string{"plain", "plain", "plain", "plain", "plain", "plain", "nonce-first", "unknown-fields", "padded-varints", "split-merge",
	"no-nonce", "nonce-twice", "oneof-overridden", "wrong-type", "empty-message", "garbage", "truncated", "oversized", "nonminimal-frame-length"}

// deliver decides how the request bytes are cut into writes.
func (p *reqPlan) deliver(rng *rand.Rand, how string) {
	p.Delivery = how
	b := p.reqBytes
	switch how {
	case "whole":
		p.reqWrites = []write{{b: b}}
	case "split":
		for len(b) > 0 {
			n := 1 + rng.IntN(len(b))
			p.reqWrites = append(p.reqWrites, write{b: b[:n], gap: time.Duration(rng.IntN(3)) * time.Millisecond})
			b = b[n:]
		}
	case "bytewise":
		if len(b) > 400 {
			p.deliver(rng, "split")
			p.Delivery = how + "(split)"
			return
		}
		for i := range b {
			p.reqWrites = append(p.reqWrites, write{b: b[i : i+1], gap: time.Duration(rng.IntN(2)) * time.Millisecond})
		}
	case "slow": // the request takes seconds to arrive (still inside the server's 15 s)
		k := len(b) / 2
		p.reqWrites = []write{{b: b[:k], gap: time.Duration(1+rng.IntN(9)) * time.Second}, {b: b[k:]}}
	case "stall-midway": // half now, the rest never
		p.reqWrites = []write{{b: b[:len(b)/2]}}
	case "pipelined-junk": // extra bytes in the same write, before the server asked for anything
		j := make([]byte, 1+rng.IntN(6000))
		p.reqWrites = []write{{b: append(append([]byte{}, b...), j...)}}
	}
}

var deliveries = []string{"whole", "whole", "whole", "whole", "whole", "split", "bytewise", "slow", "stall-midway", "pipelined-junk"}

// listShape fills a request's address list.
func genEntries(rng *rand.Rand, cfg *sessCfg, pi *peerInfo) (es []entry, shape string) {
	bad := func() entry {
		return genEntry(rng, cfg, pi, pick(rng, []string{"private", "private", "undialable", "malformed"}))
	}
	good := func() entry {
		return genEntry(rng, cfg, pi, pick(rng, []string{"foreign", "foreign", "same", "same", "dns"}))
	}
	var n int
	switch r := rng.IntN(100); {
	case r < 4:
		n = 0
	case r < 20:
		n = 1
	case r < 60:
		n = 2 + rng.IntN(7)
	case r < 78:
		n = 9 + rng.IntN(41)
	case r < 84:
		n = 50
	default:
		n = 51 + rng.IntN(10)
	}
	switch r := rng.IntN(100); {
	case r < 25 || n == 0:
		shape = "all-bad"
		for i := 0; i < n; i++ {
			es = append(es, bad())
		}
	case r < 60:
		shape = "one-good"
		k := rng.IntN(n)
		switch rng.IntN(6) { // every interesting position
		case 0:
			k = 0
		case 1:
			k = n - 1
		case 2:
			if n > 49 {
				k = 49
			}
		case 3:
			if n > 50 {
				k = 50
			}
		}
		for i := 0; i < n; i++ {
			if i == k {
				es = append(es, good())
			} else {
				es = append(es, bad())
			}
		}
	case r < 75:
		shape = "foreign-before-same"
		for i := 0; i < n; i++ {
			switch {
			case i == n/3:
				es = append(es, genEntry(rng, cfg, pi, "foreign"))
			case i == 2*n/3 && i != n/3:
				es = append(es, genEntry(rng, cfg, pi, "same"))
			default:
				es = append(es, bad())
			}
		}
	case r < 85:
		shape = "same-before-foreign"
		for i := 0; i < n; i++ {
			switch {
			case i == n/3:
				es = append(es, genEntry(rng, cfg, pi, "same"))
			case i == 2*n/3 && i != n/3:
				es = append(es, genEntry(rng, cfg, pi, "foreign"))
			default:
				es = append(es, bad())
			}
		}
	default:
		shape = "mix"
		for i := 0; i < n; i++ {
			if rng.IntN(2) == 0 {
				es = append(es, good())
			} else {
				es = append(es, bad())
			}
		}
	}
	return es, shape
}

// ---- dial data --------------------------------------------------------------------------------

type ddPlan struct {
	Shape string        `json:"shape"` // data | padunk-inner | padunk-outer | padvar | wrongtype | zerolen | claimed | nonminimal | giant | mixed
	N     int           `json:"n,omitempty"`
	Stop  string        `json:"stop"`                  // full | data-exact | data-short1 | raw-short1 | raw-exact | half | one | none | last-frame-half
	End   string        `json:"end"`                   // wait | close | reset
	Frag  int           `json:"frag,omitempty"`        // 0: one write per message; >0: re-cut the byte stream every Frag bytes; <0 random cuts
	Total time.Duration `json:"spread_over,omitempty"` // >0: the writes are spread evenly over this much virtual time
	Seed  uint64        `json:"seed"`
}

// one message of the plan's shape; credit is the smallest amount any reading of the protocol could
// count for it (message length minus 6 bytes of field/length overhead), raw is its size on the wire.
func (d *ddPlan) message(rng *rand.Rand, n int) []byte {
	junk := func(k int) []byte { return make([]byte, k) }
	switch d.Shape {
	case "data", "mixed":
		return dialDataFrame(n)
	case "padunk-inner": // 10 bytes of data, the rest an unknown field inside DialDataResponse
		inner := lenField(nil, 1, junk(10), 0)
		inner = lenField(inner, 15, junk(n), 0)
		return frame(lenField(nil, 4, inner, 0))
	case "padunk-outer": // 10 bytes of data, the rest an unknown field of Message
		body := lenField(nil, 4, lenField(nil, 1, junk(10), 0), 0)
		return frame(lenField(body, 15, junk(n), 0))
	case "padvar": // padded length varints inside the message
		return frame(lenField(nil, 4, lenField(nil, 1, junk(n), 4), 5))
	case "wrongtype": // not a DialDataResponse at all
		return frame(lenField(nil, 1, lenField(nil, 1, junk(n), 0), 0))
	case "zerolen":
		return []byte{0}
	case "claimed": // header promises 8000 bytes, 50 follow
		return append(appendUvarint(nil, 8000), junk(50)...)
	case "nonminimal": // frame length as a padded varint
		body := lenField(nil, 4, lenField(nil, 1, junk(n), 0), 0)
		return append(appendPaddedUvarint(nil, uint64(len(body)), 3), body...)
	case "giant":
		return appendUvarint(nil, 1<<40)
	}
	panic("unknown dd shape " + d.Shape)
}

func (d *ddPlan) build(numBytes uint64) []write {
	rng := rand.New(rand.NewPCG(d.Seed, 16))
	nb := int(numBytes)
	if nb > 1<<20 { // a server asking for absurd amounts is judged by the NumBytes clause; do not try to serve it
		nb = 1 << 20
	}
	var msgs [][]byte
	raw, data, credit := 0, 0, 0
	add := func(m []byte, dataBytes int) {
		msgs = append(msgs, m)
		raw += len(m)
		data += dataBytes
		if c := len(m) - 2 - 6; c > 0 {
			credit += c
		}
	}
	size := func() int {
		if d.Shape == "mixed" {
			return 100 + rng.IntN(8087)
		}
		return d.N
	}
	maxMsgs := 1200
	switch d.Stop {
	case "none":
	case "one":
		n := size()
		add(d.message(rng, n), n)
	case "full":
		for credit < nb && len(msgs) < maxMsgs {
			n := size()
			add(d.message(rng, n), n)
		}
	case "data-exact", "data-short1":
		target := nb
		if d.Stop == "data-short1" {
			target = nb - 1
		}
		for data < target && len(msgs) < maxMsgs {
			n := size()
			if data+n > target {
				n = target - data
			}
			add(dialDataFrame(n), n)
		}
	case "last-frame-half":
		// whole data frames that would add up to exactly the amount asked for - but of the LAST frame
		// only the header and half of the body are sent (then the plan's End: close = FIN)
		for data < nb && len(msgs) < maxMsgs {
			n := size()
			if data+n > nb {
				n = nb - data
			}
			if data+n >= nb {
				f := dialDataFrame(n)
				add(f[:len(f)/2+2], 0)
				data = nb
				break
			}
			add(dialDataFrame(n), n)
		}
	case "raw-short1", "raw-exact", "half":
		target := nb - 1
		if d.Stop == "raw-exact" {
			target = nb
		} else if d.Stop == "half" {
			target = nb / 2
		}
		for len(msgs) < maxMsgs {
			n := size()
			m := d.message(rng, n)
			if raw+len(m) > target {
				break
			}
			add(m, n)
		}
		if rest := target - raw; rest > 0 && len(msgs) < maxMsgs {
			// fill up to the target exactly: a well-formed data frame of that size if one exists,
			// otherwise the beginning of a frame
			var m []byte
			for n := rest - 1; n >= 0 && n >= rest-12; n-- {
				if f := dialDataFrame(n); len(f) == rest {
					m = f
					break
				}
			}
			if m == nil {
				m = dialDataFrame(8000)[:rest]
			}
			add(m, 0)
		}
	}
	// cut into writes
	var ws []write
	if d.Frag == 0 {
		for _, m := range msgs {
			ws = append(ws, write{b: m})
		}
	} else {
		var all []byte
		for _, m := range msgs {
			all = append(all, m...)
		}
		for len(all) > 0 {
			n := d.Frag
			if n < 0 {
				n = 1 + rng.IntN(5000)
			}
			if n > len(all) {
				n = len(all)
			}
			ws = append(ws, write{b: all[:n]})
			all = all[n:]
		}
	}
	if d.Total > 0 && len(ws) > 0 {
		gap := d.Total / time.Duration(len(ws))
		for i := range ws[:len(ws)-1] {
			ws[i].gap = gap
		}
	}
	return ws
}

func genDD(rng *rand.Rand) ddPlan {
	d := ddPlan{Shape: "data", N: 4000, Stop: "full", End: "wait", Seed: rng.Uint64()}
	switch r := rng.IntN(100); {
	case r < 22: // a correct client
		d.N = pick(rng, []int{4000, 4000, 1000, 8186, 104, 100, 127, 128, 129, 2000})
		d.Stop = pick(rng, []string{"full", "data-exact"})
	case r < 34: // short by one byte (of data, or on the wire), then close / stall / reset
		d.N = pick(rng, []int{4000, 1000, 8186, 100, 300})
		d.Stop = pick(rng, []string{"data-short1", "raw-short1", "raw-short1", "raw-exact", "last-frame-half"})
		d.End = pick(rng, []string{"wait", "close", "reset"})
	case r < 44: // stops early
		d.N = pick(rng, []int{4000, 500, 8186})
		d.Stop = pick(rng, []string{"half", "one", "none"})
		d.End = pick(rng, []string{"wait", "close", "reset"})
	case r < 56: // dribbled in tiny messages
		d.N = pick(rng, []int{1, 1, 99, 99, 100, 100, 0, 50})
		d.Stop = "full"
		if rng.IntN(3) == 0 {
			d.Total = time.Duration(1+rng.IntN(20)) * time.Second
		}
	case r < 62: // oversized messages (body 8192 is the largest acceptable)
		d.N = pick(rng, []int{8187, 8187, 9000, 20000})
	case r < 74: // length arithmetic that overstates the data
		d.Shape = pick(rng, []string{"padunk-inner", "padunk-outer", "padvar", "wrongtype"})
		d.N = pick(rng, []int{3000, 120, 8000})
		d.Stop = pick(rng, []string{"full", "raw-short1", "half"})
		if d.Stop != "full" {
			d.End = pick(rng, []string{"wait", "close"})
		}
	case r < 82: // frame headers that lie
		d.Shape = pick(rng, []string{"claimed", "claimed", "zerolen", "nonminimal", "giant"})
		d.N = 4000
		d.Stop = pick(rng, []string{"full", "half", "one"})
		d.End = pick(rng, []string{"wait", "close"})
	case r < 90: // correct but slow: finishes around the server's stream timeout
		d.Shape = "mixed"
		d.Total = pick(rng, []time.Duration{2 * time.Second, 8 * time.Second, 11900 * time.Millisecond, 14 * time.Second, 14999 * time.Millisecond, 15 * time.Second, 15001 * time.Millisecond, 20 * time.Second})
	default: // correct, arbitrary message sizes, arbitrary write boundaries
		d.Shape = "mixed"
	}
	if rng.IntN(4) == 0 {
		d.Frag = pick(rng, []int{-1, -1, 1, 7, 99, 4096, 10000})
		if d.Frag == 1 && d.Total == 0 && d.Stop == "full" && d.N >= 100 {
			d.Frag = 3 // keep byte-wise delivery of a whole 100 kB stream out of the common path
		}
	}
	return d
}

func genDialScript(rng *rand.Rand) dialScript {
	sc := dialScript{Connect: "ok", Stream: "ok"}
	switch rng.IntN(10) {
	case 0:
		sc.Connect = "fail"
	case 1:
		sc.Connect = "hang"
	case 2:
		sc.Stream = pick(rng, []string{"fail", "writefail", "silent", "eof"})
	}
	return sc
}

// genRequest: a hostile request for workload A.
func genRequest(rng *rand.Rand, cfg *sessCfg) *reqPlan {
	p := &reqPlan{Peer: rng.IntN(len(cfg.Peers)), Nonce: rng.Uint64()}
	es, _ := genEntries(rng, cfg, cfg.Peers[p.Peer])
	p.setEntries(es)
	p.Quirk = pick(rng, requestQuirks)
	p.reqBytes = encodeRequest(rng, es, p.Nonce, p.Quirk)
	p.deliver(rng, pick(rng, deliveries))
	if rng.IntN(10) == 0 {
		p.PreDelay = time.Duration(rng.IntN(16000)) * time.Millisecond
	}
	switch rng.IntN(20) {
	case 0:
		p.AfterReq = "close"
	case 1:
		p.AfterReq = "reset"
	}
	p.DD = genDD(rng)
	p.Dial = genDialScript(rng)
	return p
}

// simpleRequest: a well-formed request with one address of the given class and a prompt, correct client.
func simpleRequest(rng *rand.Rand, cfg *sessCfg, peerIdx int, class string) *reqPlan {
	p := &reqPlan{Peer: peerIdx, Nonce: rng.Uint64(), Quirk: "plain"}
	p.setEntries([]entry{genEntry(rng, cfg, cfg.Peers[peerIdx], class)})
	p.reqBytes = encodeRequest(rng, p.Entries, p.Nonce, "plain")
	p.deliver(rng, "whole")
	p.DD = ddPlan{Shape: "data", N: 4000, Stop: "full", End: "wait", Seed: rng.Uint64()}
	p.Dial = dialScript{Connect: "ok", Stream: "ok"}
	return p
}
