// C16 — AutoNAT v2 server cannot be used for amplification and obeys its rate limits.
//
// The REAL server (autonatv2.New(dialerFake, opts...) + Start(hostFake), dial-request handler captured
// from the fake host) runs inside testing/synctest bubbles (virtual time: one-minute limiter windows,
// 15 s stream timeout, 10 s dial-back timeout, 0-3 s anti-thundering-herd wait). Requests arrive on
// fake inbound streams over in-memory pipes; the dialer host is a fake that logs every call that
// would put a packet on the wire together with how many bytes of each in-flight request stream the
// server had consumed at that instant. The oracle (oracle_test.go) is written from the statement.
//
// Workloads: A hostile requests (address lists, encodings, dial-data streams), strictly one request
// at a time; B arrival patterns of 5 peers over 10 virtual minutes against small limits with probes
// at the window edges; C 1-7 concurrent requests of one peer against MaxConcurrentRequestsPerPeer 1-5.
package c16

import (
	"fmt"
	"math"
	"math/rand/v2"
	"os"
	"runtime"
	"sort"
	"sync"
	"sync/atomic"
	"testing"
	"testing/synctest"
	"time"

	ma "github.com/multiformats/go-multiaddr"
	manet "github.com/multiformats/go-multiaddr/net"

	"verif/harness/rig/run"
)

type caseSpec struct {
	kind string // A | B | C | D
	idx  int
}

// raceMode: the race-detector pass (VERIF_RACE=1) runs only the concurrent workloads.
var raceMode = os.Getenv("VERIF_RACE") == "1"

// noZeroWaitUnderRace: with a dial wait of 0 the server selects on an already expired timer channel.
// go1.25.7 runs such a timer inline using ONE race-detector context per synctest bubble; two
// goroutines of a bubble doing that at the same time crash ThreadSanitizer itself (SIGSEGV in
// __tsan::SlotLock, seen with this harness). A toolchain limitation, not a libp2p defect: under
// -race the concurrent workloads therefore never configure a zero wait.
func noZeroWaitUnderRace(d time.Duration) time.Duration {
	if raceMode && d >= 0 && d < 100*time.Millisecond {
		return 300 * time.Millisecond
	}
	return d
}

func (c caseSpec) id() string { return fmt.Sprintf("%s/%d", c.kind, c.idx) }

// selfCheckPopulation: the classes the generator assigns by construction must be the ones the
// go-multiaddr dependency (not an anchor of this property) would assign; otherwise the population,
// not the server, is wrong.
func selfCheckPopulation(t *testing.T) {
	ipAddr := func(s string) ma.Multiaddr {
		if containsColon(s) {
			return ma.StringCast("/ip6/" + s + "/tcp/1")
		}
		return ma.StringCast("/ip4/" + s + "/tcp/1")
	}
	for _, s := range append(append([]string{}, pubV4...), pubV6...) {
		if a := ipAddr(s); !manet.IsPublicAddr(a) {
			t.Fatalf("population: %s is not public for go-multiaddr", a)
		}
	}
	for _, s := range append(append([]string{}, privV4...), privV6...) {
		if a := ipAddr(s); manet.IsPublicAddr(a) {
			t.Fatalf("population: %s is public for go-multiaddr", a)
		}
	}
	for _, s := range dnsAddrs {
		if !manet.IsPublicAddr(ma.StringCast(s)) {
			t.Fatalf("population: %s is not public for go-multiaddr", s)
		}
	}
	for _, s := range privDNS {
		if manet.IsPublicAddr(ma.StringCast(s)) {
			t.Fatalf("population: %s is public for go-multiaddr", s)
		}
	}
}

func containsColon(s string) bool {
	for _, c := range s {
		if c == ':' {
			return true
		}
	}
	return false
}

func TestC16(t *testing.T) {
	r := run.New(t, "C16", "exploration")
	defer r.Finish()
	race := raceMode
	selfCheckPopulation(t)

	r.Rule("one evaluation = one request driven against a fresh-per-session REAL autonatv2 server inside a synctest bubble and judged post hoc " +
		"(every dial on the dialer fake vs. the request's decoded address list, the requester, the observed IP and the bytes the server had consumed " +
		"from the request stream at the instant of the dial; accept/reject outcomes vs. an independent half-open sliding-window count; in-service " +
		"intervals vs. MaxConcurrentRequestsPerPeer). A session (case) is non-trivial if: workload A - it saw a dial to a foreign IP after complete " +
		"dial data AND a refusal without dial AND a dial-data stream that ended without a dial; workload B - a rejection with a full window AND an " +
		"accept in a window that had just lost an entry by expiry; workload C - the in-service gauge of one peer reached the limit AND a request was " +
		"rejected at the concurrency limit. distinct = distinct case id (sessions are generated from (seed, kind, index))")
	r.Assume(
		"bytes of dial data 'sent' = raw bytes the server consumed from the request stream after the DialRequest frame (framing, unknown fields and wrong-type messages count: they were transmitted)",
		"an address naming a DNS host has no IP: treated as 'IP differs' (dial data required)",
		"accepted request = not answered E_REQUEST_REJECTED; its instant is the handler invocation; a dial-data accept is the DialDataRequest write",
		"window is half-open (t-60s, t]: two accepts exactly 60 s apart are never in one window",
		"in service = from the server's first Read on the request stream to its response write / Reset (both inside the implementation's own slot interval)",
		"concurrent requests of ONE peer share the dialer host's address book: a dial may carry one address per in-service request of that peer, each individually justified",
		"address classes (public/private, dialable) are fixed by construction of the population; IPv4-mapped IPv6, NAT64, zoned and relayed OBSERVED addresses are outside the population",
		"policy 'never' (test-only option) switches the dial-data clause off by configuration; it is used only to cross the rate-limit workloads",
		"protobuf decoding (google.golang.org/protobuf), multiaddr parsing and go-msgio framing are trusted",
	)

	var cases []caseSpec
	nA, nB, nC := r.Pick(600, 12000), r.Pick(600, 12000), r.Pick(400, 8000)
	if race {
		nA, nB, nC = 0, r.Pick(300, 1500), r.Pick(600, 3000)
	}
	edgeSpecs := enumerateEdgeScripts(r.Quick())
	nD := len(edgeSpecs)
	if race {
		nD = 0
	}
	r.Extra("edge_scripts_enumerated", nD)
	nE := r.Pick(120, 1200) // dial data that stops one byte short, the connection's FIN travelling with the last bytes
	if race {
		nE = 0
	}
	for i := 0; i < max(nA, nB, nC, nD, nE); i++ { // interleave kinds so that workers stay balanced
		if i < nD {
			cases = append(cases, caseSpec{"D", i})
		}
		if i < nA {
			cases = append(cases, caseSpec{"A", i})
		}
		if i < nB {
			cases = append(cases, caseSpec{"B", i})
		}
		if i < nC {
			cases = append(cases, caseSpec{"C", i})
		}
		if i < nE {
			cases = append(cases, caseSpec{"E", i})
		}
	}

	var next atomic.Int64
	var mu sync.Mutex
	total := sessionStats{}
	work := func() {
		var wg sync.WaitGroup
		for w := 0; w < runtime.GOMAXPROCS(0); w++ {
			wg.Add(1)
			go func() {
				defer wg.Done()
				synctest.Test(t, func(t *testing.T) {
					for !r.TooMany() {
						i := int(next.Add(1) - 1)
						if i >= len(cases) {
							return
						}
						c := cases[i]
						if !r.Want(c.id()) {
							continue
						}
						st := runCase(r, c, edgeSpecs)
						mu.Lock()
						for k, v := range st {
							total[k] += v
						}
						mu.Unlock()
					}
				})
			}()
		}
		wg.Wait()
	}
	if !run.Watchdog(time.Duration(r.Pick(15, 60))*time.Minute, work) {
		r.Inconclusive("all", "real-time watchdog: the workers did not finish (bubble wedge?)\n"+run.Stacks())
		return
	}
	keys := make([]string, 0, len(total))
	for k := range total {
		keys = append(keys, k)
	}
	sort.Strings(keys)
	for _, k := range keys {
		r.Count(k, total[k])
	}

	// path classes this check exists to exercise
	req := func(k string, quick, thorough int) {
		n := r.Pick(quick, thorough)
		if race {
			n = 1
		}
		r.Require(k, n)
	}
	if !race {
		req("requests_naming_no_public_dialable_address", 300, 3000)
		req("refused_without_dial", 200, 2000)
		req("refused_list_contained/private", 200, 2000)
		req("refused_list_contained/undialable", 100, 1000)
		req("refused_list_contained/malformed", 100, 1000)
		req("dials_foreign_ip_after_dial_data", 100, 1000)
		req("dial_data_then_not_dialed", 150, 1500)
		req("not_dialed_with_wire_bytes_within_1_of_numbytes", 15, 150)
		req("dialed_after_skipping_bad_entries", 100, 1000)
		req("list_len/51+", 50, 500)
		req("valid_requests", 100, 1000)
		req("edge_probe/-1ms", 100, 1000)
		req("edge_probe/+0", 100, 1000)
		req("edge_probe/+1ms", 100, 1000)
		req("edge_probe_rejected_just_inside_window", 50, 500)
		req("edge_probe_accepted_at_exact_expiry", 50, 500)
		req("rejected_dial_data_window_full", 100, 1000)
	}
	req("dials_same_ip", 100, 1000)
	req("rejected_global_window_full", 200, 2000)
	req("rejected_peer_window_full", 200, 2000)
	req("rejected_at_concurrency_limit", 100, 1000)
	req("sessions_reaching_concurrency_limit", 50, 500)
	req("dials_with_several_requests_of_peer_in_service", 20, 200)
	// valid requests must be served: a server that rejects (almost) everything satisfies every upper
	// bound of the statement vacuously; such a run is inconclusive, not a pass.
	for _, k := range []string{"A", "B", "C", "D"} {
		if total["sessions_"+k] > 0 {
			r.Require("under_limit_served_"+k, int(math.Ceil(0.995*float64(total["under_limit_requests_"+k]))))
			r.Require("under_limit_requests_"+k, r.Pick(1000, 10000)/map[bool]int{false: 1, true: 10}[race])
		}
	}
	if !race {
		r.Require("valid_requests_answered_OK", int(math.Ceil(0.95*float64(total["valid_requests"]))))
	}
}

// runCase runs one session inside the current bubble, judges it and reports.
func runCase(r *run.R, c caseSpec, edgeSpecs []edgeScript) sessionStats {
	rng := r.Rand(uint64(c.kind[0]), uint64(c.idx))
	var s *session
	var err error
	sequential := false
	extra := sessionStats{}
	switch c.kind {
	case "A":
		s, err = runHostile(rng)
		sequential = true
	case "B":
		s, err = runArrivals(rng, extra)
	case "C":
		s, err = runConcurrent(rng)
	case "D":
		s, err = runEdgeScript(rng, edgeSpecs[c.idx], extra)
	case "E":
		s, err = runShortThenFin(rng, extra)
		sequential = true
	}
	if err != nil {
		r.Inconclusive(c.id(), "could not start the server: "+err.Error())
		return extra
	}
	fs, st, views := judge(s, sequential)
	for k, v := range extra {
		st[k] += v
	}
	st.add("sessions_"+c.kind, 1)
	st.add("under_limit_requests_"+c.kind, st["under_limit_requests"])
	st.add("under_limit_served_"+c.kind, st["under_limit_served"])
	r.Eval(len(views))

	// workload-specific observations
	nontrivial := false
	switch c.kind {
	case "A":
		for _, v := range views {
			if validRequest(v, s.cfg) {
				st.add("valid_requests", 1)
				if v.status == stOK {
					st.add("valid_requests_answered_OK", 1)
				}
			}
		}
		nontrivial = st["dials_foreign_ip_after_dial_data"] > 0 && st["refused_without_dial"] > 0 && st["dial_data_then_not_dialed"] > 0
	case "B":
		nontrivial = st["rejected_window_full"]+st["rejected_dial_data_window_full"] > 0 && st["edge_probe_accepted_at_exact_expiry"]+st["edge_probe_accepted_after_expiry"] > 0
	case "C":
		nontrivial = st["sessions_reaching_concurrency_limit"] > 0 && st["rejected_at_concurrency_limit"] > 0
	case "D":
		nontrivial = st["rejected_window_full"]+st["rejected_dial_data_window_full"] > 0
	}
	if nontrivial {
		r.Nontrivial(fmt.Sprintf("%s/%d/%d", c.id(), len(views), len(s.dials)))
	}
	seen := map[string]bool{}
	for _, f := range fs {
		if seen[f.Sig] {
			continue
		}
		seen[f.Sig] = true
		r.Violation(f.Sig, c.id(), f.Msg, witness(s, views, fs))
	}
	if c.idx == 0 || (c.idx == 1 && c.kind == "A") {
		var reqs []any
		for i, v := range views {
			if i >= 4 {
				break
			}
			reqs = append(reqs, v.summary())
		}
		var dials []any
		for i, d := range s.dials {
			if i >= 4 {
				break
			}
			dials = append(dials, map[string]any{"t": d.T.String(), "method": d.Method, "peer": string(d.Peer), "addrs": addrStrings(d.Addrs)})
		}
		r.Sample(map[string]any{"case": c.id(), "config": s.cfg.describe(), "requests_in_session": len(views), "first_requests": reqs, "first_dials": dials})
	}
	return st
}

// validRequest: a request any reasonable server must serve when it is under its limits: well-formed,
// promptly delivered, a public dialable address among the first 50 entries, and a prompt, correct,
// generous answer to a dial-data request.
func validRequest(v *reqView, cfg *sessCfg) bool {
	pl := v.rq.plan
	switch pl.Quirk {
	case "plain", "nonce-first", "unknown-fields", "split-merge", "no-nonce", "nonce-twice":
	default:
		return false
	}
	switch pl.Delivery {
	case "whole", "split", "bytewise", "bytewise(split)":
	default:
		return false
	}
	if pl.AfterReq != "" || pl.PreDelay != 0 || !v.isReq || !v.hasGood || v.goodIdx >= 50 {
		return false
	}
	d := pl.DD
	return (d.Shape == "data" || d.Shape == "mixed") && d.Stop == "full" && d.N >= 100 && d.N <= 8186 && d.Total == 0 && d.End == "wait"
}

// ---- workload A: hostile requests, one at a time --------------------------------------------------

func runHostile(rng *rand.Rand) (*session, error) {
	big := 1 << 20
	cfg := &sessCfg{RPM: big, PerPeer: big, DialData: big, MaxConc: 1 + rng.IntN(3),
		Policy:   pick(rng, []string{"default", "default", "default", "default", "always"}),
		DialWait: pick(rng, []time.Duration{-1, -1, 0, 0, time.Millisecond, 2 * time.Second}),
		NoUDP:    rng.IntN(4) == 0, NoIP6: rng.IntN(4) == 0, BadPort: 9}
	cfg.Peers = genPeers(rng, 5, true)
	s, err := newSession(cfg)
	if err != nil {
		return nil, err
	}
	for i := 0; i < 30; i++ {
		s.launch(genRequest(rng, cfg))
		s.wg.Wait() // strictly sequential: every dial belongs to exactly this request
		sleepV(time.Duration(rng.IntN(2000)) * time.Millisecond)
	}
	s.close()
	return s, nil
}

// ---- workload B: arrival patterns against small limits ---------------------------------------------

var edgeDeltas = []struct {
	name string
	d    time.Duration
}{{"-1ms", -time.Millisecond}, {"-1ns", -1}, {"+0", 0}, {"+1ns", 1}, {"+1ms", time.Millisecond}}

func runArrivals(rng *rand.Rand, extra sessionStats) (*session, error) {
	big := 1 << 20
	small := func(xs ...int) int {
		switch x := rng.IntN(40); {
		case x < 10:
			return big
		case x < 13:
			return 0 // the documented extreme: serve none
		}
		return pick(rng, xs)
	}
	cfg := &sessCfg{RPM: small(3, 3, 4, 6), PerPeer: small(1, 2, 2, 3), DialData: small(1, 1, 2), MaxConc: pick(rng, []int{1, 2, 2, 3, 1, 2, 2, 3, 1, 2, 0}),
		Policy:   pick(rng, []string{"default", "default", "default", "default", "default", "default", "default", "default", "always", "never"}),
		DialWait: noZeroWaitUnderRace(pick(rng, []time.Duration{0, 0, -1, 500 * time.Millisecond})), BadPort: 9}
	cfg.Peers = genPeers(rng, 5, false)
	s, err := newSession(cfg)
	if err != nil {
		return nil, err
	}
	type acc struct {
		t    time.Duration
		peer int
	}
	var accG, accD []acc // the driver's own view of accepts (guides the probes; never used by the oracle)
	type probe struct {
		rq    *request
		delta string
		base  time.Duration
		full  bool // the driver believes the window was full with the base entry still inside
	}
	var probes []probe
	perPeerAcc := func(p int) []acc {
		var out []acc
		for _, a := range accG {
			if a.peer == p {
				out = append(out, a)
			}
		}
		return out
	}
	recentOf := func(p int, now time.Duration) int {
		n := 0
		for _, a := range accG {
			if a.peer == p && a.t > now-window {
				n++
			}
		}
		return n
	}
	leastLoaded := func(now time.Duration) int {
		best, bn := 0, 1<<30
		off := rng.IntN(len(cfg.Peers))
		for k := range cfg.Peers {
			p := (k + off) % len(cfg.Peers)
			if n := recentOf(p, now); n < bn {
				best, bn = p, n
			}
		}
		return best
	}
	horizon := 10 * time.Minute
	for s.now() < horizon && len(s.reqs) < 110 {
		now := s.now()
		var batch []*reqPlan
		var pr *probe
		gap := time.Duration(rng.IntN(8000)) * time.Millisecond
		class := pick(rng, []string{"same", "same", "same", "foreign", "foreign"})
		switch r := rng.IntN(100); {
		case r < 30: // small gap, one request
			batch = append(batch, simpleRequest(rng, cfg, rng.IntN(len(cfg.Peers)), class))
		case r < 40: // medium gap
			gap = time.Duration(8000+rng.IntN(22000)) * time.Millisecond
			batch = append(batch, simpleRequest(rng, cfg, rng.IntN(len(cfg.Peers)), class))
		case r < 52: // burst at one instant
			if rng.IntN(2) == 0 {
				gap = 0
			}
			stagger := pick(rng, []time.Duration{0, 0, 1, time.Millisecond, 3 * time.Millisecond})
			bp := rng.IntN(len(cfg.Peers))
			for k := 2 + rng.IntN(4); k > 0; k-- {
				if rng.IntN(2) == 0 {
					bp = rng.IntN(len(cfg.Peers))
				}
				pl := simpleRequest(rng, cfg, bp, pick(rng, []string{"same", "same", "foreign"}))
				pl.Stagger = stagger
				batch = append(batch, pl)
			}
		default: // probe a window edge: base accept + 60 s + delta
			// base: one of the accepts that fill the window (mostly the oldest one, the limit-th most
			// recent); at base+60s+delta a burst tries to take more slots than can have been freed.
			var base time.Duration = -1
			p, limit := -1, 0
			nth := func(l []acc, lim int) time.Duration {
				k := lim
				if rng.IntN(5) < 2 {
					k = 1 + rng.IntN(lim)
				}
				return l[len(l)-k].t
			}
			kind := rng.IntN(3)
			switch kind {
			case 0: // global window
				if cfg.RPM > 0 && cfg.RPM < big && len(accG) >= cfg.RPM {
					base, p, limit = nth(accG, cfg.RPM), leastLoaded(now), cfg.RPM
					class = "same"
				}
			case 1: // one peer's window
				p0 := rng.IntN(len(cfg.Peers))
				if l := perPeerAcc(p0); cfg.PerPeer > 0 && cfg.PerPeer < big && len(l) >= cfg.PerPeer {
					base, p, limit = nth(l, cfg.PerPeer), p0, cfg.PerPeer
					class = "same"
				}
			case 2: // dial-data window
				if cfg.DialData > 0 && cfg.DialData < big && len(accD) >= cfg.DialData {
					base, p, limit = nth(accD, cfg.DialData), leastLoaded(now), cfg.DialData
					class = "foreign"
				}
			}
			dl := pick(rng, edgeDeltas)
			if base >= 0 && base+window+dl.d > now {
				gap = base + window + dl.d - now
				batch = append(batch, simpleRequest(rng, cfg, p, class))
				pr = &probe{delta: dl.name, base: base}
				if rng.IntN(2) == 0 { // a burst: at most the freed slots may be taken
					stagger := pick(rng, []time.Duration{0, 1, 1, time.Microsecond})
					for k := 1 + rng.IntN(min(limit, 3)); k > 0; k-- {
						q := p
						if kind != 1 && rng.IntN(2) == 0 {
							q = rng.IntN(len(cfg.Peers))
						}
						pl := simpleRequest(rng, cfg, q, class)
						pl.Stagger = stagger
						batch = append(batch, pl)
					}
				}
			} else {
				batch = append(batch, simpleRequest(rng, cfg, rng.IntN(len(cfg.Peers)), class))
			}
		}
		// some clients hold their request open for a while (occupies a concurrency slot)
		for _, pl := range batch {
			if pr == nil && rng.IntN(8) == 0 {
				pl.PreDelay = time.Duration(1+rng.IntN(12)) * time.Second
			}
			if rng.IntN(12) == 0 {
				pl.Dial = genDialScript(rng)
			}
		}
		sleepV(gap)
		var launched []*request
		for i, pl := range batch {
			if i > 0 {
				sleepV(pl.Stagger)
			}
			launched = append(launched, s.launch(pl))
		}
		synctest.Wait()
		for i, rq := range launched {
			if !rq.rejectedSoFar() {
				accG = append(accG, acc{rq.Arrival, rq.plan.Peer})
				if rq.ddrSoFar() {
					accD = append(accD, acc{s.now(), rq.plan.Peer})
				}
			}
			if pr != nil && i == 0 {
				pr.rq = rq
				probes = append(probes, *pr)
			}
		}
	}
	s.close()
	for _, p := range probes {
		extra.add("edge_probe/"+p.delta, 1)
		rej := p.rq.rejectedSoFar()
		switch {
		case p.delta[0] == '-' && rej:
			extra.add("edge_probe_rejected_just_inside_window", 1)
		case p.delta[0] == '-':
			extra.add("edge_probe_accepted_just_inside_window", 1) // legitimate when the window was not full
		case p.delta == "+0" && !rej:
			extra.add("edge_probe_accepted_at_exact_expiry", 1)
		case !rej:
			extra.add("edge_probe_accepted_after_expiry", 1)
		default:
			extra.add("edge_probe_rejected_after_expiry", 1) // legitimate: other limits / other entries
		}
	}
	return s, nil
}

func (rq *request) ddrSoFar() bool {
	rq.st.mu.Lock()
	b := append([]byte(nil), rq.st.written...)
	rq.st.mu.Unlock()
	msgs, _ := parseServerOutput(b)
	for _, m := range msgs {
		if m.Kind == "DialDataRequest" {
			return true
		}
	}
	return false
}

// ---- workload C: concurrent requests of one peer --------------------------------------------------

func runConcurrent(rng *rand.Rand) (*session, error) {
	big := 1 << 20
	cfg := &sessCfg{RPM: big, PerPeer: big, DialData: big, MaxConc: 1 + rng.IntN(5),
		Policy: "default", DialWait: noZeroWaitUnderRace(pick(rng, []time.Duration{0, 0, -1})), BadPort: 9}
	cfg.Peers = genPeers(rng, 3, false)
	s, err := newSession(cfg)
	if err != nil {
		return nil, err
	}
	focus := rng.IntN(len(cfg.Peers))
	// held: a request that stays in service for seconds
	held := func(p int) *reqPlan {
		pl := simpleRequest(rng, cfg, p, pick(rng, []string{"same", "same", "foreign"}))
		switch rng.IntN(6) {
		case 0, 1:
			pl.PreDelay = time.Duration(500+rng.IntN(7000)) * time.Millisecond
		case 2:
			pl.deliver(rng, "slow")
		case 3:
			pl.DD.Total = time.Duration(1+rng.IntN(9)) * time.Second
			pl.PreDelay = time.Duration(rng.IntN(3000)) * time.Millisecond
		case 4:
			pl.Dial = dialScript{Connect: "hang", Stream: "ok"}
			pl.PreDelay = time.Duration(rng.IntN(2000)) * time.Millisecond
		case 5:
			pl.Dial = dialScript{Connect: "ok", Stream: "silent"}
			pl.PreDelay = time.Duration(rng.IntN(2000)) * time.Millisecond
		}
		return pl
	}
	// early: a request that ends on one of the server's early-return paths
	early := func(p int) *reqPlan {
		pl := genRequest(rng, cfg)
		pl.Peer = p
		es, _ := genEntries(rng, cfg, cfg.Peers[p])
		pl.setEntries(es)
		pl.Quirk = pick(rng, []string{"plain", "garbage", "truncated", "wrong-type", "oneof-overridden", "empty-message", "oversized", "plain"})
		pl.reqBytes = encodeRequest(rng, es, pl.Nonce, pl.Quirk)
		pl.reqWrites = nil
		pl.deliver(rng, pick(rng, []string{"whole", "whole", "split", "stall-midway"}))
		pl.PreDelay = time.Duration(rng.IntN(1500)) * time.Millisecond
		return pl
	}
	waves := 2 + rng.IntN(3)
	for w := 0; w < waves; w++ {
		k := 1 + rng.IntN(cfg.MaxConc+2)
		for i := 0; i < k; i++ {
			if rng.IntN(4) == 0 {
				s.launch(early(focus))
			} else {
				s.launch(held(focus))
			}
			if rng.IntN(3) == 0 {
				sleepV(time.Duration(rng.IntN(3)) * time.Millisecond)
			}
			if rng.IntN(3) == 0 {
				s.launch(held((focus + 1 + rng.IntN(len(cfg.Peers)-1)) % len(cfg.Peers)))
			}
		}
		// late comers while the first ones are (probably) still in service
		for i := rng.IntN(3); i > 0; i-- {
			sleepV(time.Duration(100+rng.IntN(1500)) * time.Millisecond)
			s.launch(simpleRequest(rng, cfg, focus, "same"))
		}
		s.wg.Wait()
		// every slot must be free again: prompt valid requests, one after the other
		for i := 0; i < 1+rng.IntN(2); i++ {
			s.launch(simpleRequest(rng, cfg, focus, pick(rng, []string{"same", "foreign"})))
			s.wg.Wait()
		}
		sleepV(time.Duration(rng.IntN(5000)) * time.Millisecond)
	}
	s.close()
	return s, nil
}

// ---- workload E: dial data that ends one byte short, then the stream is half-closed ------------------
//
// Requests for a foreign address, one after the other; the client answers the DialDataRequest with data
// that stops short - by one byte of data or on the wire, or in the middle of the LAST frame (its header
// promises the rest) - or exactly at the amount, as a control - and half-closes. Every other request arrives over a stream whose FIN travels with the last
// bytes (the read that hands out the final bytes also returns io.EOF). Limits are out of the way.
func runShortThenFin(rng *rand.Rand, extra sessionStats) (*session, error) {
	big := 1 << 20
	cfg := &sessCfg{RPM: big, PerPeer: big, DialData: big, MaxConc: 2, Policy: "default", DialWait: 0, BadPort: 9}
	cfg.Peers = genPeers(rng, 3, false)
	s, err := newSession(cfg)
	if err != nil {
		return nil, err
	}
	for k := 0; k < 6; k++ {
		pl := simpleRequest(rng, cfg, rng.IntN(len(cfg.Peers)), "foreign")
		pl.DD = ddPlan{Shape: pick(rng, []string{"data", "data", "mixed"}), N: pick(rng, []int{8186, 8186, 8000, 6000, 5000, 4097, 4096, 4000, 300}), // mostly above bufio's 4096: read straight from the stream
			Stop: pick(rng, []string{"last-frame-half", "last-frame-half", "raw-short1", "data-short1", "data-exact"}), End: "close",
			Frag: pick(rng, []int{0, 0, 0, -1, 4096}), Seed: rng.Uint64()}
		s.launch(pl)
		s.wg.Wait()
		extra["short_then_fin_requests"]++
		sleepV(time.Duration(1+rng.IntN(3)) * time.Second)
	}
	s.close()
	return s, nil
}

// ---- workload D: enumerated window-edge scripts ----------------------------------------------------
//
// One limit (global / per-peer / dial-data) is set to L in {1,2,3}, the others are out of the way.
// L requests fill the window at instants separated by every combination of the offsets; then, at
// (k-th accept) + 60 s + delta, a burst of L+1 requests arrives. Optionally another peer's request
// lands between the first expiry and the burst (so that the limiter's lazy clean-up has or has not
// run before the burst).

type edgeScript struct {
	Kind    string          `json:"kind"` // global | peer | dialdata
	L       int             `json:"limit"`
	Offsets []time.Duration `json:"offsets"`
	K       int             `json:"base_accept"` // 1 = the oldest
	Delta   time.Duration   `json:"delta"`
	Quiet   bool            `json:"quiet"`
}

func enumerateEdgeScripts(quick bool) []edgeScript {
	offs := []time.Duration{0, 1, time.Millisecond, time.Second, 20 * time.Second}
	if !quick {
		offs = []time.Duration{0, 1, time.Millisecond, 999 * time.Millisecond, time.Second, 20 * time.Second, 59999 * time.Millisecond}
	}
	var out []edgeScript
	for _, kind := range []string{"global", "peer", "dialdata"} {
		for L := 1; L <= 3; L++ {
			var combos [][]time.Duration
			var rec func(cur []time.Duration)
			rec = func(cur []time.Duration) {
				if len(cur) == L-1 {
					combos = append(combos, append([]time.Duration(nil), cur...))
					return
				}
				for _, o := range offs {
					rec(append(cur, o))
				}
			}
			rec(nil)
			for _, c := range combos {
				for k := 1; k <= L; k++ {
					for _, d := range edgeDeltas {
						for _, q := range []bool{true, false} {
							out = append(out, edgeScript{Kind: kind, L: L, Offsets: c, K: k, Delta: d.d, Quiet: q})
						}
					}
				}
			}
		}
	}
	return out
}

func runEdgeScript(rng *rand.Rand, e edgeScript, extra sessionStats) (*session, error) {
	big := 1 << 20
	cfg := &sessCfg{RPM: big, PerPeer: big, DialData: big, MaxConc: 5, Policy: "default", DialWait: 0, BadPort: 9}
	class := "same"
	switch e.Kind {
	case "global":
		cfg.RPM = e.L
	case "peer":
		cfg.PerPeer = e.L
	case "dialdata":
		cfg.DialData = e.L
		class = "foreign"
	}
	cfg.Peers = genPeers(rng, 5, false)
	s, err := newSession(cfg)
	if err != nil {
		return nil, err
	}
	peerFor := func(i int) int {
		if e.Kind == "peer" {
			return 0
		}
		return i % len(cfg.Peers)
	}
	// fill the window
	times := make([]time.Duration, e.L)
	for i := 0; i < e.L; i++ {
		if i > 0 {
			sleepV(e.Offsets[i-1])
		}
		times[i] = s.now()
		s.launch(simpleRequest(rng, cfg, peerFor(i), class))
		synctest.Wait()
	}
	// one more right away: the window is full
	sleepV(1)
	s.launch(simpleRequest(rng, cfg, peerFor(e.L), class))
	synctest.Wait()
	target := times[e.K-1] + window + e.Delta
	if !e.Quiet {
		// somebody else's request after the first expiry and before the burst
		if mid := (times[0] + window + target) / 2; mid > s.now() && mid < target {
			sleepV(mid - s.now())
			other := 1 + rng.IntN(len(cfg.Peers)-1)
			s.launch(simpleRequest(rng, cfg, other, "same"))
			synctest.Wait()
			extra.add("edge_script_with_interloper", 1)
		}
	}
	sleepV(target - s.now())
	for i := 0; i <= e.L; i++ {
		if i > 0 {
			sleepV(1)
		}
		s.launch(simpleRequest(rng, cfg, peerFor(e.L+1+i), class))
		synctest.Wait()
	}
	s.close()
	extra.add("edge_script/"+e.Kind, 1)
	return s, nil
}
