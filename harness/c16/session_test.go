package c16

// One session = one real AutoNAT v2 server (autonatv2.New(dialerFake, opts...).Start(hostFake)) with
// one configuration, a population of requesting peers, and the requests driven against the captured
// dial-request stream handler. Must run inside a synctest bubble.

import (
	"encoding/binary"
	"errors"
	"fmt"
	"io"
	"net/netip"
	"os"
	"sync"
	"sync/atomic"
	"time"

	"github.com/libp2p/go-libp2p/core/network"
	"github.com/libp2p/go-libp2p/core/peer"
	"github.com/libp2p/go-libp2p/core/protocol"
	"github.com/libp2p/go-libp2p/p2p/protocol/autonatv2"
	"github.com/libp2p/go-libp2p/p2p/protocol/autonatv2/pb"
	ma "github.com/multiformats/go-multiaddr"
	"google.golang.org/protobuf/proto"
)

const (
	dialProtocol     = protocol.ID(autonatv2.DialProtocol)
	dialBackProtocol = protocol.ID(autonatv2.DialBackProtocol)
	// how long (virtual) a client waits for the server to say something before it gives up; the
	// server's own stream timeout is 15 s, its dial-back at most 10 s + 5 s.
	clientPatience = 90 * time.Second
)

type peerInfo struct {
	ID       peer.ID      `json:"-"`
	Name     string       `json:"name"`
	Observed ma.Multiaddr `json:"-"`
	ObsStr   string       `json:"observed"`
	IP       netip.Addr   `json:"-"` // zero: observed address carries no IP
	pub      bool         // the observed IP is publicly routable (by construction)
}

type sessCfg struct {
	RPM, PerPeer, DialData, MaxConc int
	Policy                          string        // default | always | never
	DialWait                        time.Duration // <0: the server's default (3 s)
	NoUDP, NoIP6                    bool          // what the dialer host cannot dial (CanDial false)
	BadPort                         int           // addresses with this tcp/udp port are undialable too
	Peers                           []*peerInfo
}

func (c *sessCfg) describe() map[string]any {
	return map[string]any{"rpm": c.RPM, "per_peer_rpm": c.PerPeer, "dial_data_rpm": c.DialData, "max_concurrent_per_peer": c.MaxConc,
		"policy": c.Policy, "dial_wait": c.DialWait.String(), "dialer_no_udp": c.NoUDP, "dialer_no_ip6": c.NoIP6, "dialer_bad_port": c.BadPort, "peers": c.Peers}
}

// canDial is the dialer host's scripted Network().CanDial.
func (c *sessCfg) canDial(a ma.Multiaddr) bool {
	ok := true
	ma.ForEach(a, func(comp ma.Component) bool {
		switch comp.Protocol().Code {
		case ma.P_CIRCUIT:
			ok = false
		case ma.P_UDP:
			if c.NoUDP {
				ok = false
			}
			if p := binary.BigEndian.Uint16(comp.RawValue()); int(p) == c.BadPort {
				ok = false
			}
		case ma.P_TCP:
			if p := binary.BigEndian.Uint16(comp.RawValue()); int(p) == c.BadPort {
				ok = false
			}
		case ma.P_IP6:
			if c.NoIP6 {
				ok = false
			}
		}
		return ok
	})
	return ok
}

type callEvent struct {
	Stamp int64         `json:"stamp"`
	T     time.Duration `json:"t"`
	Kind  string        `json:"kind"`
	Peer  string        `json:"peer,omitempty"`
	Addrs []string      `json:"addrs,omitempty"`
}

type reqSnap struct {
	rq       *request
	consumed int64
	outLen   int
}

type dialEvent struct {
	Stamp  int64
	T      time.Duration
	Method string
	Peer   peer.ID
	Addrs  []ma.Multiaddr
	Snap   []reqSnap // the peer's requests in flight (handler running) at this instant
}

type request struct {
	ID      int
	plan    *reqPlan
	peer    *peerInfo
	st      *srvStream
	Arrival time.Duration // virtual time the handler was invoked
	entry   int64         // logical stamp just before the handler was invoked
	exit    int64         // logical stamp just after it returned (0: still running)
	exitT   time.Duration

	// client side
	cmu        sync.Mutex
	sentReq    []byte // what the client wrote as its first message(s) (before any dial data)
	ddNumBytes uint64
	ddRawSent  int64
	ddSeen     int
	clientEnd  string // response | eof | reset | deadline | client-reset
	clientMsgs []srvMsg
}

type session struct {
	cfg          *sessCfg
	t0           time.Time
	clk          atomic.Int64
	canDialCalls atomic.Int64
	host         *srvHost
	dialer       *dialerHost
	an           *autonatv2.AutoNAT
	handler      network.StreamHandler

	mu        sync.Mutex
	reqs      []*request
	inflight  map[peer.ID][]*request
	dials     []*dialEvent
	calls     []callEvent
	dialBacks []*dialBackRec
	wg        sync.WaitGroup
}

type dialBackRec struct {
	peer peer.ID
	s    *dialBackStream
	reqs []*request // in flight for that peer when the stream was opened
}

func (s *session) stamp() int64       { return s.clk.Add(1) }
func (s *session) now() time.Duration { return time.Since(s.t0) }

func newSession(cfg *sessCfg) (*session, error) {
	s := &session{cfg: cfg, t0: time.Now(), inflight: map[peer.ID][]*request{}}
	s.host = newSrvHost(peer.ID("c16-server"))
	s.dialer = newDialerHost(s, peer.ID("c16-dialer"))
	opts := []autonatv2.AutoNATOption{autonatv2.WithServerRateLimit(cfg.RPM, cfg.PerPeer, cfg.DialData, cfg.MaxConc)}
	switch cfg.Policy {
	case "always":
		opts = append(opts, autonatv2.VerifWithDataRequestPolicy(func(_, _ ma.Multiaddr) bool { return true }))
	case "never":
		opts = append(opts, autonatv2.VerifWithDataRequestPolicy(func(_, _ ma.Multiaddr) bool { return false }))
	}
	if cfg.DialWait >= 0 {
		opts = append(opts, autonatv2.VerifWithAmplificationAttackPreventionDialWait(cfg.DialWait))
	}
	an, err := autonatv2.New(s.dialer, opts...)
	if err != nil {
		return nil, err
	}
	if err := an.Start(s.host); err != nil {
		return nil, err
	}
	s.an = an
	s.handler = s.host.handler(dialProtocol)
	if s.handler == nil {
		an.Close()
		return nil, errors.New("server did not register a handler for " + string(dialProtocol))
	}
	return s, nil
}

// close waits for every handler and client, then shuts the server down.
func (s *session) close() {
	s.wg.Wait()
	s.an.Close()
}

func addrStrings(as []ma.Multiaddr) []string {
	out := make([]string, len(as))
	for i, a := range as {
		if a == nil {
			out[i] = "<nil>"
		} else {
			out[i] = a.String()
		}
	}
	return out
}

func (s *session) logCall(kind string, p peer.ID, as []ma.Multiaddr) {
	ev := callEvent{Stamp: s.stamp(), T: s.now(), Kind: kind, Peer: string(p), Addrs: addrStrings(as)}
	s.mu.Lock()
	s.calls = append(s.calls, ev)
	s.mu.Unlock()
}

func (s *session) scriptFor(p peer.ID) dialScript {
	s.mu.Lock()
	defer s.mu.Unlock()
	if rs := s.inflight[p]; len(rs) > 0 {
		return rs[0].plan.Dial
	}
	return dialScript{Connect: "ok", Stream: "ok"}
}

// recordDial logs one dial attempt together with a snapshot of how far the peer's in-flight request
// streams have been consumed at this very instant. The addresses the dial will try and the set of
// the peer's requests in service are read in ONE critical section (a handler leaves that set only
// after it has cleared its addresses, so every address read here belongs to a request listed here).
func (s *session) recordDial(method string, p peer.ID, addrsOf func(peer.ID) []ma.Multiaddr) (dialScript, []ma.Multiaddr) {
	s.mu.Lock()
	defer s.mu.Unlock()
	addrs := addrsOf(p)
	ev := &dialEvent{Stamp: s.stamp(), T: s.now(), Method: method, Peer: p, Addrs: addrs}
	sc := dialScript{Connect: "ok", Stream: "ok"}
	for i, rq := range s.inflight[p] {
		c, o := rq.st.snapshot()
		ev.Snap = append(ev.Snap, reqSnap{rq, c, o})
		if i == 0 {
			sc = rq.plan.Dial
		}
	}
	s.dials = append(s.dials, ev)
	s.calls = append(s.calls, callEvent{Stamp: ev.Stamp, T: ev.T, Kind: "DIAL via " + method, Peer: string(p), Addrs: addrStrings(addrs)})
	return sc, addrs
}

func (s *session) addDialBack(p peer.ID, st *dialBackStream) {
	s.mu.Lock()
	s.dialBacks = append(s.dialBacks, &dialBackRec{peer: p, s: st, reqs: append([]*request(nil), s.inflight[p]...)})
	s.mu.Unlock()
}

// launch invokes the real handler on a fresh inbound stream from the plan's peer, now, and starts
// the scripted client.
func (s *session) launch(pl *reqPlan) *request {
	pi := s.cfg.Peers[pl.Peer]
	rq := &request{plan: pl, peer: pi}
	rq.st = &srvStream{sess: s, in: newPipe(), out: newPipe(),
		conn: &fakeConn{local: s.host.id, remote: pi.ID, raddr: pi.Observed, laddr: ma.StringCast("/ip4/7.7.7.7/tcp/4001")}}
	s.mu.Lock()
	rq.ID = len(s.reqs)
	s.reqs = append(s.reqs, rq)
	s.inflight[pi.ID] = append(s.inflight[pi.ID], rq)
	rq.Arrival = s.now()
	rq.entry = s.stamp()
	rq.st.in.eofData = rq.ID%2 == 1 // every other request arrives over a stream that returns its last bytes with EOF
	s.mu.Unlock()
	s.wg.Add(2)
	go func() {
		defer s.wg.Done()
		s.handler(rq.st)
		s.mu.Lock()
		rq.exit = s.stamp()
		rq.exitT = s.now()
		l := s.inflight[pi.ID]
		for i := range l {
			if l[i] == rq {
				s.inflight[pi.ID] = append(l[:i:i], l[i+1:]...)
				break
			}
		}
		s.mu.Unlock()
	}()
	go func() {
		defer s.wg.Done()
		s.runClient(rq)
	}()
	return rq
}

// rejectedSoFar reports whether the server has already answered E_REQUEST_REJECTED.
func (rq *request) rejectedSoFar() bool {
	rq.st.mu.Lock()
	b := append([]byte(nil), rq.st.written...)
	rq.st.mu.Unlock()
	msgs, _ := parseServerOutput(b)
	for _, m := range msgs {
		if m.Kind == "DialResponse" && m.Status == pb.DialResponse_E_REQUEST_REJECTED.String() {
			return true
		}
	}
	return false
}

// ---------------------------------------------------------------------------------------------
// the scripted client

type frameReader struct {
	p   *pipe
	buf []byte
}

func (f *frameReader) next(dl time.Time) ([]byte, error) {
	tmp := make([]byte, 4096)
	for {
		if l, n := binary.Uvarint(f.buf); n > 0 && uint64(len(f.buf)-n) >= l {
			body := f.buf[n : n+int(l)]
			f.buf = f.buf[n+int(l):]
			return body, nil
		} else if n < 0 {
			return nil, errors.New("bad varint from server")
		}
		n, err := f.p.read(tmp, func() time.Time { return dl })
		if err != nil {
			return nil, err
		}
		f.buf = append(f.buf, tmp[:n]...)
	}
}

func sleepV(d time.Duration) {
	if d > 0 {
		time.Sleep(d)
	}
}

func (s *session) runClient(rq *request) {
	pl := rq.plan
	in, out := rq.st.in, rq.st.out
	end := func(e string) {
		rq.cmu.Lock()
		rq.clientEnd = e
		rq.cmu.Unlock()
	}
	defer in.closeWrite()
	sleepV(pl.PreDelay)
	for _, w := range pl.reqWrites {
		if err := in.write(w.b); err != nil {
			break
		}
		rq.cmu.Lock()
		rq.sentReq = append(rq.sentReq, w.b...)
		rq.cmu.Unlock()
		sleepV(w.gap)
	}
	switch pl.AfterReq {
	case "close":
		in.closeWrite()
	case "reset":
		in.reset()
		out.reset()
		end("client-reset")
		return
	}
	fr := &frameReader{p: out}
	dl := time.Now().Add(clientPatience)
	for {
		body, err := fr.next(dl)
		if err != nil {
			switch {
			case errors.Is(err, io.EOF):
				end("eof")
			case errors.Is(err, network.ErrReset):
				end("reset")
			case errors.Is(err, os.ErrDeadlineExceeded):
				end("deadline")
				in.reset()
				out.reset()
			default:
				end("error: " + err.Error())
			}
			return
		}
		var m pb.Message
		if err := proto.Unmarshal(body, &m); err != nil {
			end("undecodable server message")
			return
		}
		switch {
		case m.GetDialResponse() != nil:
			end("response")
			return
		case m.GetDialDataRequest() != nil:
			rq.cmu.Lock()
			rq.ddSeen++
			first := rq.ddSeen == 1
			rq.ddNumBytes = m.GetDialDataRequest().GetNumBytes()
			rq.cmu.Unlock()
			if !first {
				continue
			}
			writes := pl.DD.build(m.GetDialDataRequest().GetNumBytes())
			for wi, w := range writes {
				if in.eofData && pl.DD.End == "close" && wi == len(writes)-1 {
					// FIN travels with the last bytes: the server's read that gets them also gets EOF
					if err := in.writeAndClose(w.b); err != nil {
						break
					}
					rq.cmu.Lock()
					rq.ddRawSent += int64(len(w.b))
					rq.cmu.Unlock()
					break
				}
				if err := in.write(w.b); err != nil {
					break
				}
				rq.cmu.Lock()
				rq.ddRawSent += int64(len(w.b))
				rq.cmu.Unlock()
				sleepV(w.gap)
			}
			switch pl.DD.End {
			case "close":
				in.closeWrite()
			case "reset":
				in.reset()
				out.reset()
				end("client-reset")
				return
			}
		}
	}
}

func (rq *request) String() string {
	return fmt.Sprintf("req#%d(%s@%s)", rq.ID, rq.peer.Name, rq.Arrival)
}
