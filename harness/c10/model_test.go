package c10

// Reference model of the connection gater's rule set, written from the statement of C10 and
// deliberately independent of the gater's net.IP / net.IPNet code: every address is handled as a
// net/netip value parsed from TEXT, 4-in-6 forms are folded with Unmap, containment is
// netip.Prefix.Contains.
//
//   "While a peer ID, IP address or subnet is blocked in the connection gater, no connection to or
//    from a matching remote is ever admitted ... for every transport and every textual form of the
//    address."
//
// Interpretation decisions (see also the final report of the builder):
//   * An IPv4-mapped IPv6 form ::ffff:a.b.c.d denotes the IPv4 host a.b.c.d (RFC 4291 2.5.5.2); the
//     quantifier of C10 lists "IPv4-mapped IPv6" among the address forms, so a rule for a.b.c.d (or a
//     subnet containing it) MUST match the mapped form, and a rule entered in mapped form must match
//     the plain IPv4 form. The model therefore compares canonical (unmapped, zone-less) addresses.
//   * Whether a genuine IPv6 prefix that also covers the mapped range (::/0, anything shorter than
//     ::ffff:0:0/96) matches an IPv4 remote is not fixed by the statement: verdict "either".
//   * The statement only says where a blocked remote MUST be refused (peer: InterceptPeerDial and
//     inbound InterceptSecured; address/subnet: InterceptAddrDial and InterceptAccept) and that an
//     unblocked rule must NOT be enforced. A gate that is not named for a rule kind may answer either
//     way when only that kind matches (e.g. InterceptAddrDial for a blocked peer on a free address).

import (
	"fmt"
	"net"
	"net/netip"
	"sort"
	"strings"

	"github.com/libp2p/go-libp2p/core/peer"
)

// tri is a three-valued rule state / verdict.
type tri int8

const (
	no     tri = iota // not blocked / must be allowed
	yes               // blocked / must be refused
	either            // the statement leaves it open (in-flight call, call that returned an error, ...)
)

func (t tri) String() string { return [...]string{"no", "yes", "either"}[t] }

// canonIP folds a textual IP to the form the model compares: no zone, 4-in-6 unmapped.
func canonIP(text string) netip.Addr {
	a, err := netip.ParseAddr(text)
	if err != nil {
		panic(fmt.Sprintf("bad ip text %q: %v", text, err))
	}
	return a.WithZone("").Unmap()
}

// canonPrefix folds a textual CIDR (plain form, e.g. "10.1.2.0/24" or "2001:db8::/32"; a mapped form
// "::ffff:10.1.2.0/120" is folded to the IPv4 prefix when it lies inside ::ffff:0:0/96).
func canonPrefix(text string) netip.Prefix {
	p, err := netip.ParsePrefix(text)
	if err != nil {
		panic(fmt.Sprintf("bad cidr text %q: %v", text, err))
	}
	if p.Addr().Is4In6() && p.Bits() >= 96 {
		p = netip.PrefixFrom(p.Addr().Unmap(), p.Bits()-96)
	}
	return p.Masked()
}

// model is the rule set. Absent key = not blocked.
type model struct {
	peers   map[peer.ID]tri
	addrs   map[netip.Addr]tri
	subnets map[netip.Prefix]tri
}

func newModel() *model {
	return &model{peers: map[peer.ID]tri{}, addrs: map[netip.Addr]tri{}, subnets: map[netip.Prefix]tri{}}
}

func (m *model) clone() *model {
	c := newModel()
	for k, v := range m.peers {
		c.peers[k] = v
	}
	for k, v := range m.addrs {
		c.addrs[k] = v
	}
	for k, v := range m.subnets {
		c.subnets[k] = v
	}
	return c
}

// ruleRef names one rule of the model.
type ruleRef struct {
	kind   string // "peer" | "addr" | "subnet"
	peer   peer.ID
	addr   netip.Addr
	subnet netip.Prefix
}

func (m *model) get(r ruleRef) tri {
	switch r.kind {
	case "peer":
		return m.peers[r.peer]
	case "addr":
		return m.addrs[r.addr]
	default:
		return m.subnets[r.subnet]
	}
}

func (m *model) set(r ruleRef, v tri) {
	switch r.kind {
	case "peer":
		if v == no {
			delete(m.peers, r.peer)
		} else {
			m.peers[r.peer] = v
		}
	case "addr":
		if v == no {
			delete(m.addrs, r.addr)
		} else {
			m.addrs[r.addr] = v
		}
	default:
		if v == no {
			delete(m.subnets, r.subnet)
		} else {
			m.subnets[r.subnet] = v
		}
	}
}

func (m *model) peerVerdict(p peer.ID) tri { return m.peers[p] }

// ipVerdict: does a remote with canonical address a match a blocked address or subnet?
// why names the rule kind that decided ("addr", "subnet", "" ...), for signatures and counters.
func (m *model) ipVerdict(a netip.Addr) (v tri, why string) {
	if !a.IsValid() {
		return no, ""
	}
	v = no
	upd := func(s tri, w string) {
		if s == yes && v != yes {
			v, why = yes, w
		} else if s == either && v == no {
			v, why = either, w
		}
	}
	if s, ok := m.addrs[a]; ok {
		upd(s, "addr")
	}
	for p, s := range m.subnets {
		if s == no {
			continue
		}
		if p.Contains(a) {
			upd(s, "subnet")
			continue
		}
		// a genuine IPv6 prefix that covers the mapped form of an IPv4 remote: left open
		if a.Is4() && p.Addr().Is6() && p.Contains(netip.AddrFrom16(a.As16())) {
			upd(either, "subnet6-covers-mapped")
		}
	}
	return v, why
}

func (m *model) String() string {
	var parts []string
	for p, s := range m.peers {
		parts = append(parts, fmt.Sprintf("peer:%s=%s", shortPeer(p), s))
	}
	for a, s := range m.addrs {
		parts = append(parts, fmt.Sprintf("addr:%s=%s", a, s))
	}
	for p, s := range m.subnets {
		parts = append(parts, fmt.Sprintf("subnet:%s=%s", p, s))
	}
	sort.Strings(parts)
	return "{" + strings.Join(parts, " ") + "}"
}

func shortPeer(p peer.ID) string {
	s := p.String()
	if len(s) > 8 {
		return s[len(s)-6:]
	}
	return s
}

// ---- operations (textual) --------------------------------------------------------------------

type opKind int

const (
	opBlockPeer opKind = iota
	opUnblockPeer
	opBlockAddr
	opUnblockAddr
	opBlockSubnet
	opUnblockSubnet
)

var opNames = [...]string{"BlockPeer", "UnblockPeer", "BlockAddr", "UnblockAddr", "BlockSubnet", "UnblockSubnet"}

func (k opKind) String() string { return opNames[k] }
func (k opKind) isBlock() bool  { return k == opBlockPeer || k == opBlockAddr || k == opBlockSubnet }
func (k opKind) ruleKind() string {
	return [...]string{"peer", "peer", "addr", "addr", "subnet", "subnet"}[k]
}

// Input forms: how the TEXT of an op is turned into the net.IP / *net.IPNet handed to the real gater.
const (
	formPlain  = 0 // IPv4: 4-byte net.IP / net.ParseCIDR result; IPv6: 16 bytes
	form16     = 1 // IPv4 as 16-byte net.IP (what net.ParseIP returns); subnet: 16-byte IP with 4-byte mask
	formMapped = 2 // IPv4 written as IPv4-mapped IPv6 text: ::ffff:a.b.c.d, subnet ::ffff:a.b.c.d/(96+n)
)

var formNames = [...]string{"plain", "ip16", "mapped-text"}

type op struct {
	Kind opKind `json:"kind"`
	Peer int    `json:"peer,omitempty"` // index into the peer universe
	Arg  string `json:"arg,omitempty"`  // IP or CIDR text in plain form
	Form int    `json:"form,omitempty"`
}

func (o op) String() string {
	if o.Kind <= opUnblockPeer {
		return fmt.Sprintf("%s(p%d)", o.Kind, o.Peer)
	}
	return fmt.Sprintf("%s(%s as %s)", o.Kind, o.Arg, formNames[o.Form])
}

// rule returns the model rule the op addresses (from the TEXT, not from the net.* value).
func (o op) rule(peers []peer.ID) ruleRef {
	switch o.Kind.ruleKind() {
	case "peer":
		return ruleRef{kind: "peer", peer: peers[o.Peer]}
	case "addr":
		return ruleRef{kind: "addr", addr: canonIP(o.Arg)}
	default:
		return ruleRef{kind: "subnet", subnet: canonPrefix(o.Arg)}
	}
}

// realIP builds the net.IP given to BlockAddr/UnblockAddr.
func realIP(text string, form int) net.IP {
	a := canonIP(text)
	if a.Is4() {
		switch form {
		case formPlain:
			b := a.As4()
			return net.IP(b[:])
		case form16:
			return net.ParseIP(a.String()) // 16 bytes
		default:
			return net.ParseIP("::ffff:" + a.String())
		}
	}
	return net.ParseIP(a.String())
}

// realNet builds the *net.IPNet given to BlockSubnet/UnblockSubnet.
func realNet(text string, form int) *net.IPNet {
	p := canonPrefix(text)
	if p.Addr().Is4() {
		switch form {
		case form16:
			return &net.IPNet{IP: net.ParseIP(p.Addr().String()), Mask: net.CIDRMask(p.Bits(), 32)}
		case formMapped:
			_, n, err := net.ParseCIDR(fmt.Sprintf("::ffff:%s/%d", p.Addr(), p.Bits()+96))
			if err != nil {
				panic(err)
			}
			return n
		}
	}
	_, n, err := net.ParseCIDR(p.String())
	if err != nil {
		panic(err)
	}
	return n
}

// prefixLast is the last address of a prefix (netip arithmetic, independent of net.IPNet).
func prefixLast(p netip.Prefix) netip.Addr {
	b := p.Addr().AsSlice()
	for i := p.Bits(); i < len(b)*8; i++ {
		b[i/8] |= 1 << (7 - uint(i%8))
	}
	a, _ := netip.AddrFromSlice(b)
	return a
}
