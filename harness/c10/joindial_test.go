package c10

import (
	"context"
	"fmt"
	"net"
	"testing"
	"testing/synctest"
	"time"

	"github.com/libp2p/go-libp2p/core/peer"
	"github.com/libp2p/go-libp2p/core/peerstore"
	"github.com/libp2p/go-libp2p/p2p/net/conngater"
	"github.com/libp2p/go-libp2p/p2p/net/swarm"
	ma "github.com/multiformats/go-multiaddr"

	"verif/harness/rig/run"
	"verif/harness/rig/scripttpt"
	"verif/harness/rig/swarmrig"
)

// blockWhileDialInFlight: "outbound dials are refused before any transport dial" for a peer that is blocked
// - also for a DialPeer call that JOINS a dial already in flight. Call #1 to P hangs on a silent address;
// BlockPeer(P) (or BlockAddr / BlockSubnet of P's other address) returns; P gets a second, reachable address;
// call #2 is issued after the block returned: it must not come back with a connection, and no transport
// dial towards the newly blocked target may START after the block returned. (What call #1's attempt does
// with what it had started before the block is not judged.)
func blockWhileDialInFlight(r *run.R) {
	for _, rule := range []string{"peer", "addr", "subnet"} {
		caseID := "join-dial-in-flight/block-" + rule
		if !r.Want(caseID) {
			continue
		}
		r.Eval(1)
		var gotConn bool
		var err2 string
		var lateDials []string
		b := run.Bubble(r.T, func(*testing.T) {
			pool := swarmrig.Pool(64)
			P := pool.ID[7]
			silent, open := ma.StringCast("/ip4/1.2.3.4/tcp/4001"), ma.StringCast("/ip4/5.6.7.8/tcp/4001")
			g, err := conngater.NewBasicConnectionGater(nil)
			if err != nil {
				panic(err)
			}
			rig, err := swarmrig.New(58, func(_ string, a ma.Multiaddr, _ peer.ID, _ int) scripttpt.Outcome {
				if a.Equal(silent) {
					return scripttpt.Outcome{Kind: "hang"}
				}
				return scripttpt.Outcome{Kind: "ok", Delay: time.Millisecond}
			}, swarm.WithConnectionGater(g), swarm.WithDialTimeout(30*time.Second))
			if err != nil {
				panic(err)
			}
			sw := rig.Swarm
			rig.PS.AddAddrs(P, []ma.Multiaddr{silent}, peerstore.PermanentAddrTTL)
			ctx1, cancel1 := context.WithCancel(context.Background())
			done1 := make(chan struct{})
			go func() { defer close(done1); sw.DialPeer(ctx1, P) }()
			synctest.Wait()
			switch rule {
			case "peer":
				g.BlockPeer(P)
			case "addr":
				g.BlockAddr(net.IPv4(5, 6, 7, 8))
			case "subnet":
				g.BlockSubnet(mustCIDR("5.6.0.0/16"))
			}
			before := len(rig.Log.Records())
			rig.PS.AddAddrs(P, []ma.Multiaddr{open}, peerstore.PermanentAddrTTL)
			ctx2, cancel2 := context.WithTimeout(context.Background(), 3*time.Second)
			c, err := sw.DialPeer(ctx2, P)
			cancel2()
			gotConn = err == nil && c != nil
			if err != nil {
				err2 = err.Error()
			}
			synctest.Wait()
			for _, d := range rig.Log.Records()[before:] {
				if rule == "peer" || d.Addr == open.String() {
					lateDials = append(lateDials, d.Addr)
				}
			}
			cancel1()
			<-done1
			done := make(chan struct{})
			go func() { sw.Close(); close(done) }()
			select {
			case <-done:
			case <-time.After(time.Minute):
			}
			rig.PS.Close()
		})
		detail := map[string]any{"rule": rule, "second_call_got_a_connection": gotConn, "second_call_error": err2, "transport_dials_started_after_the_block_returned": lateDials}
		if r.BubbleFailed(b, "join-dial-in-flight", caseID, "the swarm never wound down", detail) {
			continue
		}
		r.Count("join_dial_in_flight_cases", 1)
		if gotConn || len(lateDials) > 0 {
			r.Violation("live/join-dial-in-flight/admitted-blocked/"+rule, caseID,
				fmt.Sprintf("Block(%s) had returned; a DialPeer issued afterwards joined the dial already in flight and %s", rule,
					map[bool]string{true: "was handed a connection", false: fmt.Sprintf("started transport dials %v", lateDials)}[gotConn]), detail)
			continue
		}
		r.Nontrivial(caseID)
	}
	r.Require("join_dial_in_flight_cases", 3)
}

func mustCIDR(s string) *net.IPNet {
	_, n, err := net.ParseCIDR(s)
	if err != nil {
		panic(err)
	}
	return n
}
