package c10

// Histories of Block*/Unblock* calls, the runner that replays one on the REAL BasicConnectionGater in
// lock-step with the model (function level, crash points, datastore errors) and a greedy shrinker.

import (
	"fmt"
	"math/rand/v2"
	"sync"

	ds "github.com/ipfs/go-datastore"
	dssync "github.com/ipfs/go-datastore/sync"
	"github.com/libp2p/go-libp2p/p2p/net/conngater"
)

type history struct {
	Fams []int `json:"families"`
	Ops  []op  `json:"ops"`
}

func (h history) String() string {
	s := ""
	for i, o := range h.Ops {
		if i > 0 {
			s += "; "
		}
		s += o.String()
	}
	return s
}

var (
	uniMu    sync.Mutex
	uniCache = map[string]*universe{}
)

func universeFor(fams []int) *universe {
	key := fmt.Sprint(fams)
	uniMu.Lock()
	defer uniMu.Unlock()
	if u, ok := uniCache[key]; ok {
		return u
	}
	u := buildUniverse(fams)
	uniCache[key] = u
	return u
}

// genHistory draws a history over one or two address families: blocks, re-blocks (possibly in another
// input form), unblocks of blocked and of never-blocked rules, overlapping subnets.
func genHistory(rng *rand.Rand, minLen, maxLen int) history {
	var h history
	f1 := rng.IntN(len(families))
	h.Fams = []int{f1}
	if rng.IntN(3) == 0 {
		f2 := rng.IntN(len(families))
		if f2 != f1 {
			h.Fams = append(h.Fams, f2)
		}
	}
	u := universeFor(h.Fams)
	// BlockAddr arguments: the listed addresses and the edge addresses of the subnets
	var addrArgs []string
	seen := map[string]bool{}
	for _, pr := range u.probes {
		if pr.IP.IsValid() && !seen[pr.IP.String()] {
			seen[pr.IP.String()] = true
			addrArgs = append(addrArgs, pr.IP.String())
		}
	}
	n := minLen + rng.IntN(maxLen-minLen+1)
	blocked := map[string]op{} // rule key -> last block op
	var blockedKeys []string
	key := func(o op) string { r := o.rule(u.peers); return fmt.Sprint(r.kind, r.peer, r.addr, r.subnet) }
	form := func(arg string, subnet bool) int {
		var is4 bool
		if subnet {
			is4 = canonPrefix(arg).Addr().Is4()
		} else {
			is4 = canonIP(arg).Is4()
		}
		if !is4 {
			return formPlain
		}
		return rng.IntN(3)
	}
	for len(h.Ops) < n {
		var o op
		block := rng.IntN(100) < 58
		if !block && len(blockedKeys) > 0 && rng.IntN(10) < 7 {
			// unblock something that is blocked, possibly given in another form
			b := blocked[blockedKeys[rng.IntN(len(blockedKeys))]]
			o = op{Kind: b.Kind + 1, Peer: b.Peer, Arg: b.Arg}
			if b.Kind != opBlockPeer {
				o.Form = form(b.Arg, b.Kind == opBlockSubnet)
			}
		} else if block && len(blockedKeys) > 0 && rng.IntN(10) < 2 {
			// re-block
			b := blocked[blockedKeys[rng.IntN(len(blockedKeys))]]
			o = b
			if b.Kind != opBlockPeer {
				o.Form = form(b.Arg, b.Kind == opBlockSubnet)
			}
		} else {
			switch x := rng.IntN(100); {
			case x < 18:
				o = op{Kind: opBlockPeer, Peer: rng.IntN(len(u.peers))}
			case x < 52:
				a := addrArgs[rng.IntN(len(addrArgs))]
				o = op{Kind: opBlockAddr, Arg: a, Form: form(a, false)}
			default:
				s := u.Subnets[rng.IntN(len(u.Subnets))]
				// the "block everything" subnets are interesting but drown the rest: keep them rarer
				if canonPrefix(s).Bits() <= 1 && rng.IntN(3) != 0 {
					s = u.Subnets[rng.IntN(len(u.Subnets))]
				}
				o = op{Kind: opBlockSubnet, Arg: s, Form: form(s, true)}
			}
			if !block {
				o.Kind++
			}
		}
		k := key(o)
		if o.Kind.isBlock() {
			if _, ok := blocked[k]; !ok {
				blockedKeys = append(blockedKeys, k)
			}
			blocked[k] = o
		} else if _, ok := blocked[k]; ok {
			delete(blocked, k)
			for i, bk := range blockedKeys {
				if bk == k {
					blockedKeys = append(blockedKeys[:i], blockedKeys[i+1:]...)
					break
				}
			}
		}
		h.Ops = append(h.Ops, o)
	}
	return h
}

// apply performs one op on the real gater.
func apply(g *conngater.BasicConnectionGater, u *universe, o op) error {
	switch o.Kind {
	case opBlockPeer:
		return g.BlockPeer(u.peers[o.Peer])
	case opUnblockPeer:
		return g.UnblockPeer(u.peers[o.Peer])
	case opBlockAddr:
		return g.BlockAddr(realIP(o.Arg, o.Form))
	case opUnblockAddr:
		return g.UnblockAddr(realIP(o.Arg, o.Form))
	case opBlockSubnet:
		return g.BlockSubnet(realNet(o.Arg, o.Form))
	default:
		return g.UnblockSubnet(realNet(o.Arg, o.Form))
	}
}

type runCfg struct {
	Store    string `json:"store"`     // "none" | "map" | "rec"
	Crash    bool   `json:"crash"`     // reopen on the image after every mutation and after every return
	FailOp   int    `json:"fail_op"`   // index of the op whose datastore mutation fails, -1 = none
	FailMut  int    `json:"fail_mut"`  // which mutation of that op (0 = first)
	FailMode int    `json:"fail_mode"` // failBeforeApply | failAfterApply
	Sparse   bool   `json:"sparse"`    // compare only around the failing op and at the end
	Restart  int    `json:"restart"`   // >0: after every Restart-th call the gater is replaced by a fresh one on a copy of the datastore ("restart"), and the history continues on it
}

type outcome struct {
	D         *disagreement `json:"disagreement,omitempty"`
	Step      int           `json:"step"` // op index after/at which D was found
	Op        string        `json:"op,omitempty"`
	OpErrs    []string      `json:"op_errors,omitempty"`
	DSLog     []dsEvent     `json:"datastore_log,omitempty"`
	MutPerOp  []int         `json:"mutations_per_op,omitempty"`
	Images    int           `json:"images_checked"`
	Unexpect  string        `json:"unexpected,omitempty"` // not a verdict: error without injection etc.
	ReachedIn bool          `json:"-"`                    // the injected failure was reached
}

func failWord(mode int) string {
	if mode == failBeforeApply {
		return "not-applied"
	}
	return "applied"
}

// reopen builds a FRESH gater on a copy of the datastore image ("restart on the same datastore").
func reopen(img image) (*conngater.BasicConnectionGater, error) {
	return conngater.NewBasicConnectionGater(fromImage(img))
}

// runHistory replays h. It returns the first answer of the real gater the statement does not allow.
func runHistory(h history, cfg runCfg, st stats) outcome {
	u := universeFor(h.Fams)
	out := outcome{Step: -1}
	var store ds.Datastore
	var rec *recDS
	switch cfg.Store {
	case "map":
		store = dssync.MutexWrap(ds.NewMapDatastore())
	case "rec":
		rec = newRecDS()
		store = rec
	}
	g, err := conngater.NewBasicConnectionGater(store)
	if err != nil {
		out.Unexpect = "constructor on empty datastore: " + err.Error()
		return out
	}
	mem := newModel()  // what the live gater must enforce
	dsm := newModel()  // what a gater reopened on the current datastore image must enforce
	ever := newModel() // rules that were blocked at some time (counter only)
	livePhase, reopenPhase := "live", "reopen"
	if cfg.FailOp >= 0 {
		livePhase = "dserr-" + failWord(cfg.FailMode) + "/live"
		reopenPhase = "dserr-" + failWord(cfg.FailMode) + "/reopen"
	}
	fail := func(d *disagreement, step int) outcome {
		out.D, out.Step = d, step
		if step >= 0 && step < len(h.Ops) {
			out.Op = h.Ops[step].String()
			// the op kind makes the signature structural: which call left the rule set wrong
			d.Sig += "/after-" + h.Ops[step].Kind.String()
		}
		if rec != nil {
			out.DSLog = append(out.DSLog, rec.eventsCopy()...)
		}
		return out
	}
	for i, o := range h.Ops {
		rule := o.rule(u.peers)
		pre := mem.get(rule)
		post := no
		if o.Kind.isBlock() {
			post = yes
		}
		var inflight []image
		mut0 := 0
		if rec != nil {
			mut0 = rec.mutations()
			rec.mu.Lock()
			if cfg.Crash {
				rec.onMutation = func(_ int, img image) { inflight = append(inflight, img) }
			}
			rec.failAt = -1
			if cfg.FailOp == i {
				rec.failAt, rec.failMode = mut0+cfg.FailMut, cfg.FailMode
			}
			rec.mu.Unlock()
		}
		dsmBefore := dsm
		if cfg.Crash {
			dsmBefore = dsm.clone()
		}
		err := apply(g, u, o)
		injected := false
		if rec != nil {
			out.MutPerOp = append(out.MutPerOp, rec.mutations()-mut0)
			rec.mu.Lock()
			rec.onMutation = nil
			injected = rec.failAt >= 0 && rec.nMut > rec.failAt
			rec.mu.Unlock()
		}
		if injected {
			out.ReachedIn = true
		}
		switch {
		case err == nil:
			// "every block whose call returned success is enforced and every unblock whose call returned
			// success is not" — in memory at once, and after a restart on the same datastore.
			mem.set(rule, post)
			dsm.set(rule, post)
			if post == yes {
				ever.set(rule, yes)
			}
		case !injected:
			out.Unexpect = fmt.Sprintf("op %d %s returned %v on a healthy datastore", i, o, err)
			out.OpErrs = append(out.OpErrs, fmt.Sprintf("%d:%v", i, err))
			return out
		default:
			out.OpErrs = append(out.OpErrs, fmt.Sprintf("%d:%v", i, err))
			st.add("dserr.calls_returning_error."+failWord(cfg.FailMode), 1)
			// A call that returned an error: the in-memory rule must be unchanged or consistent with the
			// datastore. Not applied -> datastore unchanged -> both stay; applied -> either for this rule.
			if cfg.FailMode == failAfterApply && pre != post {
				mem.set(rule, either)
				dsm.set(rule, either)
			}
		}

		if rec != nil && cfg.Restart > 0 && i%cfg.Restart == cfg.Restart-1 {
			// restart on the same datastore; all later calls go to the reloaded gater
			out.DSLog = append(out.DSLog, rec.eventsCopy()...)
			nrec := fromImage(rec.snapshot())
			ng, err := conngater.NewBasicConnectionGater(nrec)
			if err != nil {
				return fail(&disagreement{Sig: "restart/constructor-error", Msg: fmt.Sprintf("restart after op %d failed: %v", i, err)}, i)
			}
			rec, g = nrec, ng
			livePhase = "restarted"
			st.add("crash.restarts_midhistory", 1)
		}
		check := !cfg.Sparse || i == cfg.FailOp || i == cfg.FailOp+1 || i == len(h.Ops)-1
		// crash points: the image right after each mutation of this call. The call had not returned:
		// its own rule may be either way, every other rule as after the calls that HAD returned.
		if cfg.Crash {
			for _, img := range inflight {
				exp := dsmBefore.clone()
				exp.set(rule, either)
				ng, err := reopen(img)
				if err != nil {
					return fail(&disagreement{Sig: "crash/constructor-error", Msg: fmt.Sprintf("reopening on the image after a mutation of op %d failed: %v", i, err)}, i)
				}
				if d := compare(ng, exp, nil, u, "crash", i, st); d != nil {
					return fail(d, i)
				}
				out.Images++
				st.add("crash.images_inflight", 1)
			}
		}
		if !check {
			continue
		}
		if d := compare(g, mem, ever, u, livePhase, i, st); d != nil {
			return fail(d, i)
		}
		if rec != nil && (cfg.Crash || cfg.FailOp >= 0) {
			img := rec.snapshot()
			ng, err := reopen(img)
			if err != nil {
				return fail(&disagreement{Sig: reopenPhase + "/constructor-error", Msg: fmt.Sprintf("reopening after op %d failed: %v", i, err)}, i)
			}
			if d := compare(ng, dsm, ever, u, reopenPhase, i, st); d != nil {
				return fail(d, i)
			}
			out.Images++
			st.add("crash.images_after_return", 1)
		}
	}
	if rec != nil {
		out.DSLog = append(out.DSLog, rec.eventsCopy()...)
	}
	return out
}

// shrink removes ops greedily while the same signature is still produced.
func shrink(h history, cfg runCfg, sig string) (history, runCfg, outcome) {
	best := h
	bestOut := runHistory(h, cfg, stats{})
	for changed := true; changed; {
		changed = false
		for i := len(best.Ops) - 1; i >= 0; i-- {
			if cfg.FailOp == i {
				continue
			}
			cand := history{Fams: best.Fams, Ops: append(append([]op(nil), best.Ops[:i]...), best.Ops[i+1:]...)}
			c2 := cfg
			if cfg.FailOp > i {
				c2.FailOp--
			}
			o := runHistory(cand, c2, stats{})
			if o.D != nil && o.D.Sig == sig {
				best, bestOut, cfg, changed = cand, o, c2, true
			}
		}
	}
	return best, cfg, bestOut
}
