// C10 — Blocked peers, addresses and subnets never obtain a connection; rules persist.
//
// Runtime monitoring of the REAL conngater.BasicConnectionGater and of real swarms that use it.
//
//  1. Function level (model based): generated histories of Block*/Unblock* calls; after every call
//     every Intercept* method is asked about crafted remotes (IPv4, IPv6, IPv4-mapped IPv6 in two
//     spellings, expanded/upper-case IPv6, zoned, first/last address of every subnet and the addresses
//     just outside, relay addresses, addresses without IP) and judged by an independent net/netip
//     rule-set model (model_test.go).
//  2. Persistence (fault enumeration): the gater runs on a recording datastore; for every datastore
//     mutation k the image right after k ("process stopped between the datastore write and the
//     in-memory update") and the image after every returned call are reopened with a FRESH gater and
//     judged: calls that had returned are binding, the call in flight may be either way. Datastore
//     errors are injected at every mutation (applied / not applied) and at every load query.
//  3. Composition (swarm_test.go): real swarms with real TCP/QUIC (+WS/WebTransport/WebRTC) sockets on
//     distinct loopback addresses, real gater on the gating host, rules changed between attempts, both
//     directions; monitors on the gating host's notifications, ConnsToPeer, its transports' Dial
//     entry and every gater call site.
package c10

import (
	"fmt"
	"log/slog"
	"net"
	"os"
	"sort"
	"sync"
	"testing"
	"time"

	logging "github.com/libp2p/go-libp2p/gologshim"
	"github.com/libp2p/go-libp2p/p2p/net/conngater"
	manet "github.com/multiformats/go-multiaddr/net"

	"verif/harness/rig/run"
)

func init() {
	// the gater logs a warning for every address without IP; keep the log out of the way
	if os.Getenv("C10_LOG") == "" {
		logging.SetDefaultHandler(slog.DiscardHandler)
	}
}

type agg struct {
	mu sync.Mutex
	st stats
}

func (a *agg) merge(s stats) {
	a.mu.Lock()
	a.st.merge(s)
	a.mu.Unlock()
}

func (a *agg) flush(r *run.R, prefix string) {
	a.mu.Lock()
	defer a.mu.Unlock()
	keys := make([]string, 0, len(a.st))
	for k := range a.st {
		keys = append(keys, k)
	}
	sort.Strings(keys)
	for _, k := range keys {
		r.Count(prefix+k, a.st[k])
	}
}

func TestC10(t *testing.T) {
	r := run.New(t, "C10", "fault_enumeration")
	defer r.Finish()
	r.Rule("function level: a history is non-trivial if, after some call, the model demanded at least one refusal by an address or subnet rule AND at least one admission of a remote that had been blocked earlier in the same history (unblock / re-block exercised); distinct = distinct op sequence. crash points: every (history, datastore mutation) image reopened by a fresh gater; datastore errors: every (history, mutation, applied|not-applied). composition: a scenario is non-trivial if the gating host refused at least one attempt and admitted at least one other; distinct = distinct scenario script")
	r.Assume(
		"the datastore makes a Put/Delete durable before it returns (crash images are taken right after the mutation); torn writes inside one Put are not modelled",
		"rules change only while no connection attempt is in flight (the statement is about 'currently blocked'; the gater documents that it does not close live connections)",
		"crypto and socket layers are trusted; real-time waits are watchdogs only (expiry = inconclusive)",
		"a gating call site that is never consulted is only counted (gate_not_consulted/...): with the real gater InterceptUpgraded and outbound InterceptSecured always allow, so the statement is broken only when a blocked remote is admitted or dialled, which is what is raised",
		"IPv4-mapped IPv6 (::ffff:a.b.c.d) is the IPv4 host a.b.c.d; whether a real IPv6 prefix shorter than /96 that covers the mapped range (e.g. ::/0) matches IPv4 remotes is left open (verdict either)",
	)

	if os.Getenv("VERIF_RACE") == "1" {
		// race pass: only the concurrent workload (real swarms, gater consulted from many goroutines)
		composition(r, 40)
		return
	}
	functionLevel(r)
	socketForms(r)
	wssSNI(r)
	blockWhileDialInFlight(r)
	subnetSpellings(r)
	subnetSpellingsAcrossRestart(r)
	oddMasks(r)
	crashPoints(r)
	datastoreErrors(r)
	loadErrors(r)
	composition(r, r.Pick(150, 6000))
	hostWiring(r)

	r.Require("fn.must_refuse.addr", 1000)
	r.Require("fn.must_refuse.subnet", 1000)
	r.Require("fn.must_refuse.peer", 500)
	r.Require("fn.must_refuse.form.ip4-mapped-text", 500)
	r.Require("fn.must_refuse.form.ip4-mapped-hex", 500)
	r.Require("fn.must_refuse.form.ip6-expanded", 200)
	r.Require("fn.must_refuse.form.relay-at-ip4", 200)
	r.Require("fn.edge_inside_refused", 1000)
	r.Require("fn.edge_outside_allowed", 1000)
	r.Require("fn.allow_after_unblock.ip", 500)
	r.Require("fn.allow_after_unblock.peer", 100)
	r.Require("fn.must_allow.noip", 1000)
	r.Require("crash.crash.images_inflight", 1000)
	r.Require("crash.crash.images_after_return", 1000)
	r.Require("crash.must_refuse.subnet", 500)
	r.Require("crash.allow_after_unblock.ip", 200)
	r.Require("crash.crash.restarts_midhistory", 100)
	r.Require("dserr.dserr.calls_returning_error.applied", 200)
	r.Require("dserr.dserr.calls_returning_error.not-applied", 200)
	r.Require("loaderr.constructor_returned_error", 50)
}

func reportHistory(r *run.R, caseID string, h history, cfg runCfg, o outcome) {
	sig := o.D.Sig
	sh, scfg, so := shrink(h, cfg, sig)
	if so.D == nil { // cannot happen (shrink starts from the failing history); keep the original
		sh, scfg, so = h, cfg, o
	}
	r.Violation(sig, caseID, fmt.Sprintf("%s | shortest history: %s (failing after op %d)", so.D.Msg, sh, so.Step),
		map[string]any{"shrunk_history": sh, "shrunk_text": sh.String(), "shrunk_cfg": scfg, "shrunk_outcome": so,
			"generated_history": h, "generated_text": h.String(), "cfg": cfg, "outcome": o})
}

// ---- (1) function level ---------------------------------------------------------------------------

func functionLevel(r *run.R) {
	n := r.Pick(5000, 120000)
	var a agg
	a.st = stats{}
	var sampled sync.Once
	run.Parallel(n, 0, func(i int) {
		caseID := fmt.Sprintf("fn/h%d", i)
		if !r.Want(caseID) || r.TooMany() {
			return
		}
		rng := r.Rand(1, uint64(i))
		h := genHistory(rng, 6, 36)
		cfg := runCfg{Store: []string{"none", "map"}[i%2], FailOp: -1}
		st := stats{}
		o := runHistory(h, cfg, st)
		r.Eval(1)
		a.merge(st)
		if o.Unexpect != "" {
			r.Inconclusive(caseID, o.Unexpect)
			return
		}
		if o.D != nil {
			reportHistory(r, caseID, h, cfg, o)
			return
		}
		if st["must_refuse.addr"]+st["must_refuse.subnet"] > 0 && st["allow_after_unblock.ip"]+st["allow_after_unblock.peer"] > 0 {
			r.Nontrivial("fn:" + h.String())
		}
		if i == 3 {
			sampled.Do(func() {
				r.Sample(map[string]any{"part": "function level", "case": caseID, "store": cfg.Store, "history": h.String(),
					"probes": len(universeFor(h.Fams).probes), "verdict_classes": st})
			})
		}
	})
	a.flush(r, "fn.")
}

// socketForms: what a REAL dual-stack socket hands to InterceptAccept for an IPv4 client (the remote
// arrives as an IPv4-mapped IPv6 sockaddr), judged like any other form.
func socketForms(r *run.R) {
	caseID := "fn/dualstack-socket"
	if !r.Want(caseID) {
		return
	}
	r.Eval(1)
	l, err := net.Listen("tcp", "[::]:0")
	if err != nil {
		r.Count("socket.dualstack_unavailable", 1)
		return
	}
	defer l.Close()
	ml, err := manet.WrapNetListener(l)
	if err != nil {
		r.Count("socket.dualstack_unavailable", 1)
		return
	}
	port := l.Addr().(*net.TCPAddr).Port
	type rule struct {
		name  string
		block func(g *conngater.BasicConnectionGater) error
	}
	_, sn, _ := net.ParseCIDR("127.0.0.4/30")
	rules := []rule{
		{"addr", func(g *conngater.BasicConnectionGater) error { return g.BlockAddr(net.ParseIP("127.0.0.5")) }},
		{"subnet", func(g *conngater.BasicConnectionGater) error { return g.BlockSubnet(sn) }},
	}
	for _, ru := range rules {
		g, _ := conngater.NewBasicConnectionGater(nil)
		if err := ru.block(g); err != nil {
			r.Inconclusive(caseID, err.Error())
			return
		}
		d := net.Dialer{LocalAddr: &net.TCPAddr{IP: net.ParseIP("127.0.0.5")}, Timeout: 20 * time.Second}
		c, err := d.Dial("tcp4", fmt.Sprintf("127.0.0.1:%d", port))
		if err != nil {
			r.Count("socket.dualstack_unavailable", 1)
			return
		}
		mc, err := ml.Accept()
		if err != nil {
			c.Close()
			r.Count("socket.dualstack_unavailable", 1)
			return
		}
		raw := mc.RemoteAddr().(*net.TCPAddr)
		r.Count(fmt.Sprintf("socket.dualstack_accepts_rawiplen%d", len(raw.IP)), 1)
		if g.InterceptAccept(mc) {
			r.Violation("live/InterceptAccept/admitted-blocked/"+ru.name+"/dualstack-socket", caseID,
				fmt.Sprintf("IPv4 client 127.0.0.5 accepted on a dual-stack socket (raw sockaddr %v, %d-byte IP, multiaddr %s) was ALLOWED although 127.0.0.5 is blocked by %s rule", raw, len(raw.IP), mc.RemoteMultiaddr(), ru.name),
				map[string]any{"remote_multiaddr": mc.RemoteMultiaddr().String(), "raw_ip_len": len(raw.IP)})
		} else {
			r.Count("socket.dualstack_refused_"+ru.name, 1)
		}
		mc.Close()
		c.Close()
	}
}

// subnetSpellings: the same subnet written with host bits set (a valid *net.IPNet that net.ParseCIDR never
// returns but a caller can build: &net.IPNet{IP: someHostIP, Mask: mask}). Blocking must enforce the
// subnet; "every unblock whose call returned success is not [enforced]" must hold whichever spelling of
// the same subnet the unblock call was given, in memory and after a restart on the same datastore.
func subnetSpellings(r *run.R) {
	type tc struct{ name, hostbits, canonical, inside string }
	for _, c := range []tc{
		{"v4", "10.1.2.77/24", "10.1.2.0/24", "/ip4/10.1.2.3/tcp/4001"},
		{"v6", "2001:db8::1:2/32", "2001:db8::/32", "/ip6/2001:db8:5::9/tcp/4001"},
	} {
		for _, order := range []string{"block-hostbits-unblock-canonical", "block-canonical-unblock-hostbits"} {
			caseID := "fn/subnet-spellings/" + c.name + "/" + order
			if !r.Want(caseID) {
				continue
			}
			r.Eval(1)
			hip, hn, err := net.ParseCIDR(c.hostbits)
			if err != nil {
				t := err.Error()
				r.Inconclusive(caseID, t)
				continue
			}
			if hn.IP.To4() != nil {
				hip = hip.To4()
			}
			hostbits := &net.IPNet{IP: hip, Mask: hn.Mask} // same mask, IP keeps its host bits
			_, canonical, _ := net.ParseCIDR(c.canonical)
			first, second := hostbits, canonical
			if order == "block-canonical-unblock-hostbits" {
				first, second = canonical, hostbits
			}
			rec := newRecDS()
			g, err := conngater.NewBasicConnectionGater(rec)
			if err != nil {
				r.Inconclusive(caseID, err.Error())
				continue
			}
			probe := mustMA(c.inside)
			cm := &cmaddrs{local: localMA, remote: probe}
			detail := map[string]any{"block_arg": first.String(), "unblock_arg": second.String(), "probe": c.inside}
			if err := g.BlockSubnet(first); err != nil {
				r.Inconclusive(caseID, err.Error())
				continue
			}
			if g.InterceptAddrDial(allPeers[0], probe) || g.InterceptAccept(cm) {
				r.Violation("live/subnet-spelling/admitted-blocked/"+order, caseID,
					fmt.Sprintf("BlockSubnet(%s) returned success but %s is allowed", first, c.inside), detail)
				continue
			}
			r.Count("spelling.block_enforced", 1)
			if err := g.UnblockSubnet(second); err != nil {
				r.Count("spelling.unblock_returned_error", 1) // refusing the other spelling is not a violation
				continue
			}
			if !g.InterceptAddrDial(allPeers[0], probe) || !g.InterceptAccept(cm) {
				r.Violation("live/subnet-spelling/unblock-returned-success-still-enforced/"+order, caseID,
					fmt.Sprintf("BlockSubnet(%s); UnblockSubnet(%s) returned success (same subnet %s) but %s is still refused; ListBlockedSubnets=%v", first, second, c.canonical, c.inside, g.ListBlockedSubnets()), detail)
				continue
			}
			ng, err := reopen(rec.snapshot())
			if err != nil {
				r.Violation("reopen/constructor-error", caseID, err.Error(), detail)
				continue
			}
			if !ng.InterceptAddrDial(allPeers[0], probe) || !ng.InterceptAccept(cm) {
				r.Violation("reopen/subnet-spelling/unblock-returned-success-still-enforced/"+order, caseID,
					fmt.Sprintf("BlockSubnet(%s); UnblockSubnet(%s) returned success; after reopening %s is refused", first, second, c.inside), detail)
				continue
			}
			r.Count("spelling.unblock_effective", 1)
		}
	}
}

// subnetSpellingsAcrossRestart: the SAME spelling throughout (no ambiguity about what matches), with a
// restart between the block and the unblock: a subnet blocked with host bits set, reopened, must still be
// enforced; unblocking it with the very same argument must then lift it - in that process and after
// another restart.
func subnetSpellingsAcrossRestart(r *run.R) {
	type tc struct{ name, cidr, inside string }
	for _, c := range []tc{
		{"v4-hostbits", "10.1.2.77/24", "/ip4/10.1.2.3/tcp/4001"},
		{"v4-canonical", "10.1.2.0/24", "/ip4/10.1.2.3/tcp/4001"},
		{"v6-hostbits", "2001:db8::1:2/32", "/ip6/2001:db8:5::9/tcp/4001"},
		{"v4-mapped-hostbits", "::ffff:10.1.2.77/120", "/ip4/10.1.2.3/tcp/4001"},
	} {
		caseID := "fn/subnet-spellings-across-restart/" + c.name
		if !r.Want(caseID) {
			continue
		}
		r.Eval(1)
		hip, hn, err := net.ParseCIDR(c.cidr)
		if err != nil {
			r.Inconclusive(caseID, err.Error())
			continue
		}
		if hn.IP.To4() != nil && len(hn.Mask) == net.IPv4len {
			hip = hip.To4()
		}
		arg := &net.IPNet{IP: hip, Mask: hn.Mask}
		probe := mustMA(c.inside)
		cm := &cmaddrs{local: localMA, remote: probe}
		detail := map[string]any{"subnet_arg": arg.String(), "probe": c.inside}
		rec := newRecDS()
		g, err := conngater.NewBasicConnectionGater(rec)
		if err != nil {
			r.Inconclusive(caseID, err.Error())
			continue
		}
		if err := g.BlockSubnet(arg); err != nil {
			r.Count("spelling_restart.block_returned_error", 1)
			continue
		}
		if g.InterceptAddrDial(allPeers[0], probe) || g.InterceptAccept(cm) {
			r.Count("spelling_restart.block_not_enforced_live(judged elsewhere)", 1)
			continue
		}
		g2, err := reopen(rec.snapshot())
		if err != nil {
			r.Violation("reopen/constructor-error", caseID, err.Error(), detail)
			continue
		}
		if g2.InterceptAddrDial(allPeers[0], probe) || g2.InterceptAccept(cm) {
			r.Violation("reopen/subnet-spelling/admitted-blocked/same-spelling", caseID,
				fmt.Sprintf("BlockSubnet(%s) returned success; after reopening %s is allowed", arg, c.inside), detail)
			continue
		}
		r.Count("spelling_restart.block_enforced_after_reopen", 1)
		// the reopened gater wrote nothing yet: it works on a copy of the same datastore content
		rec2 := fromImage(rec.snapshot())
		g3, err := conngater.NewBasicConnectionGater(rec2)
		if err != nil {
			r.Violation("reopen/constructor-error", caseID, err.Error(), detail)
			continue
		}
		if err := g3.UnblockSubnet(arg); err != nil {
			r.Count("spelling_restart.unblock_returned_error", 1)
			continue
		}
		if !g3.InterceptAddrDial(allPeers[0], probe) || !g3.InterceptAccept(cm) {
			r.Violation("reopen/subnet-spelling/unblock-of-the-same-argument-returned-success-still-enforced", caseID,
				fmt.Sprintf("BlockSubnet(%s); restart; UnblockSubnet(%s) returned success but %s is still refused; ListBlockedSubnets=%v", arg, arg, c.inside, g3.ListBlockedSubnets()), detail)
			continue
		}
		g4, err := reopen(rec2.snapshot())
		if err != nil {
			r.Violation("reopen/constructor-error", caseID, err.Error(), detail)
			continue
		}
		if !g4.InterceptAddrDial(allPeers[0], probe) || !g4.InterceptAccept(cm) {
			r.Violation("reopen/subnet-spelling/unblock-of-the-same-argument-lost-after-second-restart", caseID,
				fmt.Sprintf("BlockSubnet(%s); restart; UnblockSubnet(%s) returned success; after another restart %s is refused again", arg, arg, c.inside), detail)
			continue
		}
		r.Count("spelling_restart.unblock_effective", 1)
	}
}

// oddMasks: BlockSubnet takes any *net.IPNet, also one whose mask is not a prefix (255.0.0.255). If the
// call returns success the subnet is blocked: enforced live and - if the gater can be reopened at all;
// refusing to start on a rule it cannot read back is fail-stop and only counted - after a restart.
func oddMasks(r *run.R) {
	type tc struct {
		name   string
		ip     net.IP
		mask   net.IPMask
		inside string
	}
	for _, c := range []tc{
		{"v4-255.0.0.255", net.IPv4(127, 0, 0, 1).To4(), net.IPMask{255, 0, 0, 255}, "/ip4/127.44.9.1/tcp/4001"},
		{"v4-0.255.255.0", net.IPv4(10, 1, 2, 3).To4(), net.IPMask{0, 255, 255, 0}, "/ip4/99.1.2.7/tcp/4001"},
	} {
		caseID := "fn/odd-subnet-mask/" + c.name
		if !r.Want(caseID) {
			continue
		}
		r.Eval(1)
		arg := &net.IPNet{IP: c.ip, Mask: c.mask}
		probe := mustMA(c.inside)
		cm := &cmaddrs{local: localMA, remote: probe}
		detail := map[string]any{"subnet_arg": arg.String(), "probe": c.inside}
		rec := newRecDS()
		g, err := conngater.NewBasicConnectionGater(rec)
		if err != nil {
			r.Inconclusive(caseID, err.Error())
			continue
		}
		// a second, ordinary rule stored next to it must survive whatever happens to the odd one
		_, ordinary, _ := net.ParseCIDR("203.0.113.0/24")
		ordProbe := mustMA("/ip4/203.0.113.9/tcp/4001")
		g.BlockSubnet(ordinary)
		if err := g.BlockSubnet(arg); err != nil {
			r.Count("odd_mask.block_returned_error", 1)
			continue
		}
		if g.InterceptAddrDial(allPeers[0], probe) || g.InterceptAccept(cm) {
			r.Violation("live/odd-subnet-mask/admitted-blocked", caseID, fmt.Sprintf("BlockSubnet(%s) returned success but %s is allowed", arg, c.inside), detail)
			continue
		}
		r.Count("odd_mask.enforced_live", 1)
		g2, err := reopen(rec.snapshot())
		if err != nil {
			r.Count("odd_mask.reopen_refused(fail-stop)", 1)
			continue
		}
		if g2.InterceptAddrDial(allPeers[0], probe) || g2.InterceptAccept(cm) {
			r.Violation("reopen/odd-subnet-mask/admitted-blocked", caseID,
				fmt.Sprintf("BlockSubnet(%s) returned success; the gater reopened without error on the same datastore and %s is allowed (ListBlockedSubnets=%v)", arg, c.inside, g2.ListBlockedSubnets()), detail)
			continue
		}
		if g2.InterceptAddrDial(allPeers[0], ordProbe) {
			r.Violation("reopen/odd-subnet-mask/other-rule-lost", caseID, "an ordinary subnet rule stored next to the odd one is no longer enforced after reopening", detail)
			continue
		}
		r.Count("odd_mask.enforced_after_reopen", 1)
	}
}

// ---- (2) persistence ------------------------------------------------------------------------------

func crashPoints(r *run.R) {
	n := r.Pick(260, 6000)
	var a agg
	a.st = stats{}
	var sampled sync.Once
	run.Parallel(n, 0, func(i int) {
		caseID := fmt.Sprintf("crash/h%d", i)
		if !r.Want(caseID) || r.TooMany() {
			return
		}
		rng := r.Rand(2, uint64(i))
		h := genHistory(rng, 6, 28)
		cfg := runCfg{Store: "rec", Crash: true, FailOp: -1}
		if i%2 == 1 {
			cfg.Restart = 3 + i%4 // half of the histories also restart the gater every few calls and go on
		}
		st := stats{}
		o := runHistory(h, cfg, st)
		r.Eval(1 + o.Images) // the history plus one reopened datastore image per crash point
		a.merge(st)
		if o.Unexpect != "" {
			r.Inconclusive(caseID, o.Unexpect)
			return
		}
		if o.D != nil {
			reportHistory(r, caseID, h, cfg, o)
			return
		}
		if o.Images > 0 {
			r.NontrivialN(o.Images) // every (history, mutation) image is a distinct crash point
		}
		if i == 1 {
			sampled.Do(func() {
				r.Sample(map[string]any{"part": "crash points", "case": caseID, "history": h.String(), "datastore_log": o.DSLog,
					"mutations_per_op": o.MutPerOp, "images_reopened": o.Images})
			})
		}
	})
	a.flush(r, "crash.")
}

func datastoreErrors(r *run.R) {
	n := r.Pick(90, 2500)
	var a agg
	a.st = stats{}
	var sampled sync.Once
	run.Parallel(n, 0, func(i int) {
		caseID := fmt.Sprintf("dserr/h%d", i)
		if !r.Want(caseID) || r.TooMany() {
			return
		}
		rng := r.Rand(3, uint64(i))
		h := genHistory(rng, 4, 12)
		// dry run: how many mutations does each call perform
		dry := runHistory(h, runCfg{Store: "rec", FailOp: -1, Sparse: true}, stats{})
		if dry.D != nil || dry.Unexpect != "" {
			// the fault-free run is judged by crashPoints/functionLevel; nothing to enumerate here
			r.Count("dserr.dry_run_not_clean", 1)
			return
		}
		for j := range h.Ops {
			for l := 0; l < dry.MutPerOp[j]; l++ {
				for _, mode := range []int{failBeforeApply, failAfterApply} {
					cfg := runCfg{Store: "rec", FailOp: j, FailMut: l, FailMode: mode, Sparse: true}
					st := stats{}
					o := runHistory(h, cfg, st)
					r.Eval(1)
					a.merge(st)
					if o.Unexpect != "" {
						r.Inconclusive(caseID, o.Unexpect)
						return
					}
					if o.D != nil {
						reportHistory(r, caseID, h, cfg, o)
						return
					}
					if o.ReachedIn {
						r.NontrivialN(1)
						a.merge(stats{"dserr.injections_reached": 1})
					}
					if i == 0 && j == 1 && mode == failAfterApply {
						sampled.Do(func() {
							r.Sample(map[string]any{"part": "datastore error", "case": caseID, "history": h.String(), "cfg": cfg,
								"op_errors": o.OpErrs, "datastore_log": o.DSLog})
						})
					}
				}
			}
		}
	})
	a.flush(r, "dserr.")
}

// loadErrors: a query error while loading must not yield a gater that silently enforces fewer rules.
func loadErrors(r *run.R) {
	n := r.Pick(60, 1500)
	var a agg
	a.st = stats{}
	run.Parallel(n, 0, func(i int) {
		caseID := fmt.Sprintf("loaderr/h%d", i)
		if !r.Want(caseID) || r.TooMany() {
			return
		}
		rng := r.Rand(4, uint64(i))
		h := genHistory(rng, 6, 16)
		u := universeFor(h.Fams)
		rec := newRecDS()
		g, err := conngater.NewBasicConnectionGater(rec)
		if err != nil {
			r.Inconclusive(caseID, err.Error())
			return
		}
		m := newModel()
		for _, o := range h.Ops {
			if err := apply(g, u, o); err != nil {
				r.Inconclusive(caseID, err.Error())
				return
			}
			if o.Kind.isBlock() {
				m.set(o.rule(u.peers), yes)
			} else {
				m.set(o.rule(u.peers), no)
			}
		}
		img := rec.snapshot()
		for jj := 0; jj < 8; jj++ {
			j := jj / 2
			d := fromImage(img)
			d.failQuery, d.failQueryMid = j, jj%2 == 1
			r.Eval(1)
			ng, err := conngater.NewBasicConnectionGater(d)
			st := stats{}
			if err != nil {
				st.add("constructor_returned_error", 1)
				a.merge(st)
				continue
			}
			if d.nQuery > j {
				st.add("constructor_swallowed_error", 1)
			} else {
				st.add("query_index_not_reached", 1)
			}
			if dis := compare(ng, m, nil, u, "loaderr", j, st); dis != nil {
				r.Violation(dis.Sig, caseID, fmt.Sprintf("load query %d failed (error among results: %v), constructor returned no error: %s | history: %s", j, d.failQueryMid, dis.Msg, h),
					map[string]any{"history": h, "text": h.String(), "failed_query": j, "error_among_results": d.failQueryMid, "disagreement": dis})
			}
			a.merge(st)
		}
	})
	a.flush(r, "loaderr.")
}
