package c10

// (3b) Wiring: the same monitors on hosts built by libp2p.New with its DEFAULT transports, security and
// muxers, so that the way the constructor hands the gater to the upgrader and to the QUIC, WebTransport
// and WebRTC transports is part of what runs ("for every transport ... each transport's own gating call
// sites"). A fixed script: every transport, both directions, first without rules (consulted gates are
// counted per admitted connection), then with the remote peer blocked, then with subnets that
// cover every loopback source address.

import (
	"fmt"

	"github.com/libp2p/go-libp2p"
	"github.com/libp2p/go-libp2p/core/network"
	"github.com/libp2p/go-libp2p/p2p/net/conngater"
	"github.com/libp2p/go-libp2p/p2p/net/swarm"
	ma "github.com/multiformats/go-multiaddr"

	"verif/harness/rig/run"
)

func newLibp2pHost(label, name string, ips []string, tpts []string, gated bool, resolver network.MultiaddrDNSResolver) (*rhost, error) {
	h := &rhost{name: name, ips: ips, mon: newMonitor(name), listen: map[string]map[string]ma.Multiaddr{}}
	h.priv, h.id = detKey(label + "/" + name)
	h.gate = &recGater{mon: h.mon}
	if gated {
		h.store = newRecDS()
		g, err := conngater.NewBasicConnectionGater(h.store)
		if err != nil {
			return nil, err
		}
		h.gate.inner.Store(g)
		h.real = func() *conngater.BasicConnectionGater { return h.gate.inner.Load() }
	}
	var listen []string
	for _, t := range tpts {
		for _, ip := range ips {
			listen = append(listen, listenText(t, ip))
		}
	}
	host, err := libp2p.New(
		libp2p.Identity(h.priv),
		libp2p.ListenAddrStrings(listen...),
		libp2p.ConnectionGater(h.gate),
		libp2p.ResourceManager(&network.NullResourceManager{}),
		libp2p.MultiaddrResolver(resolver),
		libp2p.DisableRelay(),
		libp2p.DisableMetrics(),
		libp2p.WithDialTimeout(watchdog),
		libp2p.SwarmOpts(swarm.WithDialTimeoutLocal(watchdog)),
	)
	if err != nil {
		return nil, err
	}
	h.closer = func() { host.Close() }
	sw, ok := host.Network().(*swarm.Swarm)
	if !ok {
		host.Close()
		return nil, fmt.Errorf("libp2p.New network is %T, not *swarm.Swarm", host.Network())
	}
	h.sw, h.ps = sw, host.Peerstore()
	for _, a := range sw.ListenAddresses() {
		ip, _ := maIPPort(a)
		t := tptOf(a)
		if h.listen[t] == nil {
			h.listen[t] = map[string]ma.Multiaddr{}
		}
		h.listen[t][ip.String()] = a
	}
	for _, t := range tpts {
		for _, ip := range ips {
			if h.listen[t][canonIP(ip).String()] == nil {
				host.Close()
				return nil, fmt.Errorf("libp2p.New host does not listen on %s for %s (has %v)", ip, t, sw.ListenAddresses())
			}
		}
	}
	sw.Notify(&network.NotifyBundle{
		ConnectedF:    func(_ network.Network, c network.Conn) { h.mon.onConn("connected", c) },
		DisconnectedF: func(_ network.Network, c network.Conn) { h.mon.onDisconnected(c) },
	})
	return h, nil
}

func hostWiring(r *run.R) {
	caseID := "wiring/libp2p.New"
	if !r.Want(caseID) {
		return
	}
	tpts := []string{"tcp", "quic", "ws", "webtransport", "webrtc"}
	sc := scenario{Idx: 1 << 20, NoDialLog: true, Tpts: tpts, Gated: []bool{true, false}, IPs: [][]string{{"127.0.0.1"}, {"127.0.0.2"}}}
	attempts := func() {
		for _, t := range tpts {
			for _, d := range []string{"out", "in"} {
				sc.Steps = append(sc.Steps, swStep{Kind: "attempt", Dir: d, Remote: 1, Tpt: t, Form: "plain"})
			}
		}
	}
	rule := func(o op) { sc.Steps = append(sc.Steps, swStep{Kind: "rule", Host: 0, Op: &o}) }
	attempts() // no rules: everything admitted (consulted call sites are counted)
	rule(op{Kind: opBlockPeer, Peer: 1})
	attempts() // peer blocked: PeerDial outbound, Secured inbound on every transport
	rule(op{Kind: opUnblockPeer, Peer: 1})
	rule(op{Kind: opBlockSubnet, Arg: "127.0.0.0/8"})
	attempts() // every loopback source is blocked: AddrDial outbound, Accept inbound on every transport
	rule(op{Kind: opUnblockSubnet, Arg: "127.0.0.0/8", Form: form16})
	sc.Steps = append(sc.Steps, swStep{Kind: "restart", Host: 0})
	rule(op{Kind: opBlockAddr, Arg: "127.0.0.2", Form: formMapped})
	attempts() // one address blocked: decided by the source address each transport really uses
	rule(op{Kind: opUnblockAddr, Arg: "127.0.0.2"})
	attempts() // everything admitted again

	o := runScenario(sc, newLibp2pHost)
	r.Eval(1)
	for k, v := range o.counts {
		r.Count("wiring."+k, v)
	}
	if len(o.viol) > 0 && o.inconclusive == "" {
		seen := map[string]bool{}
		for _, v := range o.viol {
			if seen[v.sig] {
				continue
			}
			seen[v.sig] = true
			r.Violation("wiring/"+v.sig, caseID, v.msg+" | hosts built by libp2p.New | scenario: "+sc.String(), map[string]any{"scenario": sc, "text": sc.String(), "events": o.logs})
		}
		return
	}
	if o.inconclusive != "" {
		r.Inconclusive(caseID, o.inconclusive)
		return
	}
	r.Count("wiring.completed", 1)
	if o.refused > 0 && o.admitted > 0 {
		r.Nontrivial("wiring:" + sc.String())
	}
	if r.Replaying() {
		return
	}
	r.Require("wiring.completed", 1)
	for _, t := range tpts {
		r.Require("wiring.admitted.in."+t, 2)
		r.Require("wiring.admitted.out."+t, 2)
		r.Require("wiring.refused.InterceptAddrDial/"+t, 1)
	}
	for _, k := range []string{"refused.InterceptPeerDial/?", "refused.InterceptAccept/tcp", "refused.InterceptAccept/quic", "refused.InterceptAccept/webtransport", "refused.InterceptAccept/webrtc",
		"refused.InterceptSecured(inbound)/tcp", "refused.InterceptSecured(inbound)/quic", "refused.InterceptSecured(inbound)/ws", "refused.InterceptSecured(inbound)/webtransport", "refused.InterceptSecured(inbound)/webrtc"} {
		r.Require("wiring."+k, 1)
	}
}
