package c10

// (3) Composition on real swarms with real sockets.
//
// Every host is a real swarm.Swarm with the real upgrader (Noise + yamux), real TCP and QUIC (thorough:
// + WebSocket, WebTransport, WebRTC-direct) transports listening on its own loopback address, so that
// the gating host sees distinct remote IPs. The gating host runs the REAL BasicConnectionGater (on a
// datastore; it is "restarted" on that datastore inside scenarios). Monitors, all on the gating host:
//   - every Connected notification and every ConnsToPeer listing is judged by the netip rule model
//     ("no connection to or from a matching remote is ever admitted");
//   - every transport.Dial entry is judged ("outbound dials are refused before any transport dial to
//     a blocked peer or address");
//   - for every admitted connection it is COUNTED (gate_not_consulted/<gate>/<dir>/<transport>, never a
//     violation) whether each gating call site of its direction and transport answered "allow" for it.
// None of these verdicts depends on time. Real-time waits are watchdogs; expiry = inconclusive.

import (
	"context"
	"errors"
	"fmt"
	"io"
	"net"
	"net/netip"
	"strings"
	"sync"
	"sync/atomic"
	"time"

	"github.com/libp2p/go-libp2p/core/connmgr"
	"github.com/libp2p/go-libp2p/core/control"
	"github.com/libp2p/go-libp2p/core/crypto"
	"github.com/libp2p/go-libp2p/core/network"
	"github.com/libp2p/go-libp2p/core/peer"
	"github.com/libp2p/go-libp2p/core/peerstore"
	"github.com/libp2p/go-libp2p/core/sec"
	"github.com/libp2p/go-libp2p/core/transport"
	"github.com/libp2p/go-libp2p/p2p/host/eventbus"
	"github.com/libp2p/go-libp2p/p2p/host/peerstore/pstoremem"
	"github.com/libp2p/go-libp2p/p2p/muxer/yamux"
	"github.com/libp2p/go-libp2p/p2p/net/conngater"
	"github.com/libp2p/go-libp2p/p2p/net/swarm"
	tptu "github.com/libp2p/go-libp2p/p2p/net/upgrader"
	"github.com/libp2p/go-libp2p/p2p/security/noise"
	libp2pquic "github.com/libp2p/go-libp2p/p2p/transport/quic"
	"github.com/libp2p/go-libp2p/p2p/transport/quicreuse"
	"github.com/libp2p/go-libp2p/p2p/transport/tcp"
	libp2pwebrtc "github.com/libp2p/go-libp2p/p2p/transport/webrtc"
	"github.com/libp2p/go-libp2p/p2p/transport/websocket"
	libp2pwebtransport "github.com/libp2p/go-libp2p/p2p/transport/webtransport"
	ma "github.com/multiformats/go-multiaddr"
	"github.com/quic-go/quic-go"

	"verif/harness/rig/run"
)

const watchdog = 45 * time.Second

// ---- address helpers (text based, independent of manet) ---------------------------------------

// maIPPort extracts the first IP component (canonical) and the tcp/udp port from a multiaddr.
func maIPPort(a ma.Multiaddr) (netip.Addr, string) {
	var ip netip.Addr
	port := ""
	if a == nil {
		return ip, port
	}
	ma.ForEach(a, func(c ma.Component) bool {
		switch c.Protocol().Code {
		case ma.P_IP4, ma.P_IP6:
			if !ip.IsValid() {
				if x, err := netip.ParseAddr(c.Value()); err == nil {
					ip = x.WithZone("").Unmap()
				}
			}
		case ma.P_TCP, ma.P_UDP:
			if port == "" {
				port = c.Protocol().Name + "/" + c.Value()
			}
		}
		return true
	})
	return ip, port
}

func tptOf(a ma.Multiaddr) string {
	if a == nil {
		return "?"
	}
	s := a.String()
	switch {
	case strings.Contains(s, "/webtransport"):
		return "webtransport"
	case strings.Contains(s, "/webrtc-direct"):
		return "webrtc"
	case strings.Contains(s, "/quic-v1"):
		return "quic"
	case strings.Contains(s, "/ws"):
		return "ws"
	case strings.Contains(s, "/tcp/"):
		return "tcp"
	case strings.Contains(s, "/udp/"):
		return "webrtc" // the WebRTC listener presents the bare UDP address of the candidate
	}
	return "?"
}

func dirWord(d network.Direction) string {
	if d == network.DirInbound {
		return "inbound"
	}
	return "outbound"
}

// ---- monitor ------------------------------------------------------------------------------------

type swEvent struct {
	Seq    int    `json:"seq"`
	Epoch  int    `json:"epoch"`
	Kind   string `json:"kind"` // gate | dial | connected | disconnected | listed
	Gate   string `json:"gate,omitempty"`
	Dir    string `json:"dir,omitempty"`
	Peer   string `json:"peer,omitempty"`
	Addr   string `json:"addr,omitempty"`
	Allow  *bool  `json:"allow,omitempty"`
	ConnID string `json:"conn,omitempty"`
	Tpt    string `json:"transport,omitempty"`

	peer peer.ID
	ip   netip.Addr
	port string
}

type swViolation struct {
	sig, msg string
	dir, tpt string
	peer     peer.ID
	epoch    int
}

// monitor observes one host. rules is that host's current rule set (certain states only; it changes
// only while the scenario is quiescent).
type monitor struct {
	host string
	mu   sync.Mutex
	// guarded by mu
	rules        *model
	epoch        int
	events       []swEvent
	connected    int
	disconnected int
	upgradedOK   int            // InterceptUpgraded calls answered "allow"
	stragglers   int            // connections announced after the rule set had moved on (not decided)
	notConsulted map[string]int // admitted connections without an allowing call of a gate (observation only)
	viol         []swViolation
	wake         chan struct{}
}

func newMonitor(host string) *monitor {
	return &monitor{host: host, rules: newModel(), wake: make(chan struct{}, 1), notConsulted: map[string]int{}}
}

func (m *monitor) poke() {
	select {
	case m.wake <- struct{}{}:
	default:
	}
}

// blocked judges a remote by the model. Only a certain "yes" counts.
func (m *monitor) blockedLocked(p peer.ID, ip netip.Addr) (bool, string) {
	if m.rules.peerVerdict(p) == yes {
		return true, "peer"
	}
	if v, why := m.rules.ipVerdict(ip); v == yes {
		return true, why
	}
	return false, ""
}

func (m *monitor) logLocked(e swEvent) {
	e.Seq = len(m.events)
	e.Epoch = m.epoch
	m.events = append(m.events, e)
}

func (m *monitor) onGate(gate string, dir string, p peer.ID, a ma.Multiaddr, connID string, allow bool) {
	ip, port := maIPPort(a)
	m.mu.Lock()
	e := swEvent{Kind: "gate", Gate: gate, Dir: dir, ConnID: connID, Tpt: tptOf(a), peer: p, ip: ip, port: port, Allow: &allow}
	if p != "" {
		e.Peer = shortPeer(p)
	}
	if a != nil {
		e.Addr = a.String()
	}
	m.logLocked(e)
	if gate == "InterceptUpgraded" && allow {
		m.upgradedOK++
	}
	m.mu.Unlock()
	m.poke()
}

// onDial: "outbound dials are refused before any transport dial to a blocked peer or address"
func (m *monitor) onDial(tpt string, raddr ma.Multiaddr, p peer.ID) {
	ip, port := maIPPort(raddr)
	m.mu.Lock()
	m.logLocked(swEvent{Kind: "dial", Tpt: tpt, Peer: shortPeer(p), Addr: raddr.String(), peer: p, ip: ip, port: port})
	if b, why := m.blockedLocked(p, ip); b {
		m.viol = append(m.viol, swViolation{
			sig: fmt.Sprintf("swarm/transport-dial-to-blocked/%s/%s", why, tpt),
			msg: fmt.Sprintf("host %s: transport %s Dial(%s, %s) was invoked although the remote matches a blocked %s rule; rules %s", m.host, tpt, raddr, shortPeer(p), why, m.rules),
			dir: "outbound", tpt: tpt, peer: p, epoch: m.epoch})
	}
	m.mu.Unlock()
	m.poke()
}

// onConn judges a connection that the swarm admitted (Connected notification) or lists (ConnsToPeer).
func (m *monitor) onConn(kind string, c network.Conn) {
	p, a := c.RemotePeer(), c.RemoteMultiaddr()
	ip, port := maIPPort(a)
	dir := dirWord(c.Stat().Direction)
	tpt := tptOf(a)
	m.mu.Lock()
	defer func() { m.mu.Unlock(); m.poke() }()
	e := swEvent{Kind: kind, Dir: dir, Peer: shortPeer(p), ConnID: c.ID(), Tpt: tpt, peer: p, ip: ip, port: port}
	if a != nil {
		e.Addr = a.String()
	}
	m.logLocked(e)
	if kind == "connected" {
		m.connected++
	}
	// The rules in force for this connection are those of the epoch in which it passed its last gate
	// (InterceptUpgraded, found by connection id). If the rule set was changed between that gate and
	// this announcement the attempt was still in flight during the change: not decided.
	for i := len(m.events) - 1; i >= 0; i-- {
		ev := &m.events[i]
		if ev.Kind == "gate" && ev.Gate == "InterceptUpgraded" && ev.ConnID == c.ID() {
			if ev.Epoch != m.epoch {
				m.stragglers++
				return
			}
			break
		}
	}
	// "no connection to or from a matching remote is ever admitted to the swarm"
	if b, why := m.blockedLocked(p, ip); b {
		word := "admitted-blocked"
		if kind == "listed" {
			word = "listed-blocked"
		}
		m.viol = append(m.viol, swViolation{
			sig: fmt.Sprintf("swarm/%s/%s/%s/%s", word, dir, why, tpt),
			msg: fmt.Sprintf("host %s: %s connection %s with peer %s at %s is in the swarm (%s) although the remote matches a blocked %s rule; rules %s", m.host, dir, c.ID(), shortPeer(p), a, kind, why, m.rules),
			dir: dir, tpt: tpt, peer: p, epoch: m.epoch})
		return
	}
	if kind != "connected" {
		return
	}
	// observation only: did every gating call site of this direction answer "allow" for this connection
	need := []string{"InterceptAccept", "InterceptSecured", "InterceptUpgraded"}
	if dir == "outbound" {
		need = []string{"InterceptPeerDial", "InterceptAddrDial", "InterceptSecured", "InterceptUpgraded"}
	}
	for _, gate := range need {
		ok := false
		for i := len(m.events) - 1; i >= 0 && !ok; i-- {
			ev := &m.events[i]
			if ev.Epoch != m.epoch || ev.Kind != "gate" || ev.Gate != gate || ev.Allow == nil || !*ev.Allow {
				continue
			}
			switch gate {
			case "InterceptPeerDial":
				ok = ev.peer == p
			case "InterceptAddrDial":
				ok = ev.peer == p && ev.ip == ip && ev.port == port
			case "InterceptAccept":
				ok = ev.ip == ip && ev.port == port
			case "InterceptSecured":
				ok = ev.peer == p && ev.Dir == dir && ev.ip == ip && ev.port == port
			case "InterceptUpgraded":
				ok = ev.ConnID == c.ID()
			}
		}
		if !ok {
			// Not a violation: with the real gater a skipped call site breaks the statement only if a
			// blocked remote is then admitted or dialled, and that is judged above / in onDial. Counted.
			m.notConsulted[fmt.Sprintf("gate_not_consulted/%s/%s/%s", gate, dir, tpt)]++
		}
	}
}

func (m *monitor) onDisconnected(c network.Conn) {
	m.mu.Lock()
	m.logLocked(swEvent{Kind: "disconnected", ConnID: c.ID(), Peer: shortPeer(c.RemotePeer())})
	m.disconnected++
	m.mu.Unlock()
	m.poke()
}

func (m *monitor) newEpoch() int {
	m.mu.Lock()
	defer m.mu.Unlock()
	m.epoch++
	return m.epoch
}

// epochSummary: what happened on this host in the given epoch.
type epochSummary struct {
	refusedBy []string // gate names that answered "refuse"
	admitted  []swEvent
	dials     int
}

func (m *monitor) summary(epoch int) epochSummary {
	m.mu.Lock()
	defer m.mu.Unlock()
	var s epochSummary
	for _, e := range m.events {
		if e.Epoch != epoch {
			continue
		}
		switch {
		case e.Kind == "gate" && e.Allow != nil && !*e.Allow:
			g := e.Gate
			if g == "InterceptSecured" {
				g += "(" + e.Dir + ")"
			}
			s.refusedBy = append(s.refusedBy, g+"/"+e.Tpt)
		case e.Kind == "connected":
			s.admitted = append(s.admitted, e)
		case e.Kind == "dial":
			s.dials++
		}
	}
	return s
}

// ---- recording gater / transport ----------------------------------------------------------------

// recGater delegates to the real gater (nil = allow everything) and records every call with its answer.
type recGater struct {
	mon   *monitor
	inner atomic.Pointer[conngater.BasicConnectionGater]
}

var _ connmgr.ConnectionGater = (*recGater)(nil)

func (g *recGater) InterceptPeerDial(p peer.ID) bool {
	allow := true
	if in := g.inner.Load(); in != nil {
		allow = in.InterceptPeerDial(p)
	}
	g.mon.onGate("InterceptPeerDial", "outbound", p, nil, "", allow)
	return allow
}

func (g *recGater) InterceptAddrDial(p peer.ID, a ma.Multiaddr) bool {
	allow := true
	if in := g.inner.Load(); in != nil {
		allow = in.InterceptAddrDial(p, a)
	}
	g.mon.onGate("InterceptAddrDial", "outbound", p, a, "", allow)
	return allow
}

func (g *recGater) InterceptAccept(c network.ConnMultiaddrs) bool {
	allow := true
	if in := g.inner.Load(); in != nil {
		allow = in.InterceptAccept(c)
	}
	g.mon.onGate("InterceptAccept", "inbound", "", c.RemoteMultiaddr(), "", allow)
	return allow
}

func (g *recGater) InterceptSecured(d network.Direction, p peer.ID, c network.ConnMultiaddrs) bool {
	allow := true
	if in := g.inner.Load(); in != nil {
		allow = in.InterceptSecured(d, p, c)
	}
	g.mon.onGate("InterceptSecured", dirWord(d), p, c.RemoteMultiaddr(), "", allow)
	return allow
}

func (g *recGater) InterceptUpgraded(c network.Conn) (bool, control.DisconnectReason) {
	allow, reason := true, control.DisconnectReason(0)
	if in := g.inner.Load(); in != nil {
		allow, reason = in.InterceptUpgraded(c)
	}
	g.mon.onGate("InterceptUpgraded", dirWord(c.Stat().Direction), c.RemotePeer(), c.RemoteMultiaddr(), c.ID(), allow)
	return allow, reason
}

// recTransport records the entry of every Dial.
type recTransport struct {
	transport.Transport
	name string
	mon  *monitor
}

func (t *recTransport) Dial(ctx context.Context, raddr ma.Multiaddr, p peer.ID) (transport.CapableConn, error) {
	t.mon.onDial(t.name, raddr, p)
	return t.Transport.Dial(ctx, raddr, p)
}

func (t *recTransport) Close() error {
	if c, ok := t.Transport.(io.Closer); ok {
		return c.Close()
	}
	return nil
}

// ---- hosts --------------------------------------------------------------------------------------

type staticResolver struct{ names map[string]string }

func (r *staticResolver) ResolveDNSAddr(_ context.Context, _ peer.ID, a ma.Multiaddr, _, _ int) ([]ma.Multiaddr, error) {
	return []ma.Multiaddr{a}, nil
}

func (r *staticResolver) ResolveDNSComponent(_ context.Context, a ma.Multiaddr, _ int) ([]ma.Multiaddr, error) {
	first, rest := ma.SplitFirst(a)
	if first == nil {
		return nil, errors.New("empty")
	}
	ip, ok := r.names[first.Value()]
	if !ok {
		return nil, fmt.Errorf("c10 resolver: unknown name %s", first.Value())
	}
	proto := "ip4"
	if strings.Contains(ip, ":") {
		proto = "ip6"
	}
	c, err := ma.NewComponent(proto, ip)
	if err != nil {
		return nil, err
	}
	return []ma.Multiaddr{c.Multiaddr().Encapsulate(rest)}, nil
}

type staticSource struct{ ip4, ip6 net.IP }

func (s staticSource) PreferredSourceIPForDestination(dst *net.UDPAddr) (net.IP, error) {
	if dst.IP.To4() != nil {
		if s.ip4 == nil {
			return nil, errors.New("no v4 source")
		}
		return s.ip4, nil
	}
	if s.ip6 == nil {
		return nil, errors.New("no v6 source")
	}
	return s.ip6, nil
}

type rhost struct {
	name   string
	ips    []string
	priv   crypto.PrivKey
	id     peer.ID
	sw     *swarm.Swarm
	ps     peerstore.Peerstore
	cm     *quicreuse.ConnManager
	mon    *monitor
	gate   *recGater
	store  *recDS                                 // datastore of the real gater (gating hosts only)
	listen map[string]map[string]ma.Multiaddr     // transport -> ip -> listen multiaddr
	real   func() *conngater.BasicConnectionGater // current real gater (nil func on plain hosts)
	closer func()                                 // set when the host owns more than the swarm (libp2p.New)
}

func (h *rhost) ip(v6 bool) net.IP {
	for _, s := range h.ips {
		if strings.Contains(s, ":") == v6 {
			return net.ParseIP(s)
		}
	}
	return nil
}

func listenText(tpt, ip string) string {
	pfx := "/ip4/" + ip
	if strings.Contains(ip, ":") {
		pfx = "/ip6/" + ip
	}
	switch tpt {
	case "tcp":
		return pfx + "/tcp/0"
	case "ws":
		return pfx + "/tcp/0/ws"
	case "quic":
		return pfx + "/udp/0/quic-v1"
	case "webtransport":
		return pfx + "/udp/0/quic-v1/webtransport"
	default:
		return pfx + "/udp/0/webrtc-direct"
	}
}

func newHost(label, name string, ips []string, tpts []string, gated bool, resolver network.MultiaddrDNSResolver) (*rhost, error) {
	h := &rhost{name: name, ips: ips, mon: newMonitor(name), listen: map[string]map[string]ma.Multiaddr{}}
	h.priv, h.id = detKey(label + "/" + name)
	h.gate = &recGater{mon: h.mon}
	if gated {
		h.store = newRecDS()
		g, err := conngater.NewBasicConnectionGater(h.store)
		if err != nil {
			return nil, err
		}
		h.gate.inner.Store(g)
		h.real = func() *conngater.BasicConnectionGater { return h.gate.inner.Load() }
	}
	ps, err := pstoremem.NewPeerstore()
	if err != nil {
		return nil, err
	}
	h.ps = ps
	ps.AddPubKey(h.id, h.priv.GetPublic())
	ps.AddPrivKey(h.id, h.priv)
	sw, err := swarm.NewSwarm(h.id, ps, eventbus.NewBus(),
		swarm.WithConnectionGater(h.gate),
		swarm.WithDialTimeout(watchdog), swarm.WithDialTimeoutLocal(watchdog),
		swarm.WithUDPBlackHoleSuccessCounter(nil), swarm.WithIPv6BlackHoleSuccessCounter(nil),
		swarm.WithMultiaddrResolver(resolver))
	if err != nil {
		ps.Close()
		return nil, err
	}
	h.sw = sw
	fail := func(err error) (*rhost, error) { h.close(); return nil, err }

	muxers := []tptu.StreamMuxer{{ID: yamux.ID, Muxer: yamux.DefaultTransport}}
	nz, err := noise.New(noise.ID, h.priv, muxers)
	if err != nil {
		return fail(err)
	}
	upg, err := tptu.New([]sec.SecureTransport{nz}, muxers, nil, nil, h.gate)
	if err != nil {
		return fail(err)
	}
	has := func(t string) bool {
		for _, x := range tpts {
			if x == t {
				return true
			}
		}
		return false
	}
	// outbound TCP connections leave from this host's own address (ephemeral port), like a machine that
	// owns that address; otherwise every loopback client would appear as 127.0.0.1
	dialerFor := func(raddr ma.Multiaddr) (tcp.ContextDialer, error) {
		ip, _ := maIPPort(raddr)
		d := &net.Dialer{}
		if src := h.ip(ip.Is6()); src != nil {
			d.LocalAddr = &net.TCPAddr{IP: src}
		}
		return d, nil
	}
	add := func(name string, t transport.Transport) error {
		return sw.AddTransport(&recTransport{Transport: t, name: name, mon: h.mon})
	}
	if has("tcp") {
		t, err := tcp.NewTCPTransport(upg, nil, nil, tcp.DisableReuseport(), tcp.WithDialerForAddr(dialerFor))
		if err != nil {
			return fail(err)
		}
		if err := add("tcp", t); err != nil {
			return fail(err)
		}
	}
	if has("ws") {
		t, err := websocket.New(upg, nil, nil)
		if err != nil {
			return fail(err)
		}
		if err := add("ws", t); err != nil {
			return fail(err)
		}
	}
	if has("quic") || has("webtransport") {
		src := staticSource{ip4: h.ip(false), ip6: h.ip(true)}
		h.cm, err = quicreuse.NewConnManager(quic.StatelessResetKey{}, quic.TokenGeneratorKey{},
			quicreuse.OverrideSourceIPSelector(func() (quicreuse.SourceIPSelector, error) { return src, nil }),
			quicreuse.OverrideListenUDP(func(nw string, l *net.UDPAddr) (net.PacketConn, error) {
				if l == nil || l.IP == nil || l.IP.IsUnspecified() {
					p := 0
					if l != nil {
						p = l.Port
					}
					if ip := h.ip(nw == "udp6"); ip != nil {
						l = &net.UDPAddr{IP: ip, Port: p}
					}
				}
				return net.ListenUDP(nw, l)
			}))
		if err != nil {
			return fail(err)
		}
	}
	if has("quic") {
		t, err := libp2pquic.NewTransport(h.priv, h.cm, nil, h.gate, nil)
		if err != nil {
			return fail(err)
		}
		if err := add("quic", t); err != nil {
			return fail(err)
		}
	}
	if has("webtransport") {
		t, err := libp2pwebtransport.New(h.priv, nil, h.cm, h.gate, nil)
		if err != nil {
			return fail(err)
		}
		if err := add("webtransport", t); err != nil {
			return fail(err)
		}
	}
	if has("webrtc") {
		t, err := libp2pwebrtc.New(h.priv, nil, h.gate, nil, func(nw string, l *net.UDPAddr) (net.PacketConn, error) { return net.ListenUDP(nw, l) })
		if err != nil {
			return fail(err)
		}
		if err := add("webrtc", t); err != nil {
			return fail(err)
		}
	}
	for _, t := range tpts {
		h.listen[t] = map[string]ma.Multiaddr{}
		for _, ip := range ips {
			before := map[string]bool{}
			for _, a := range sw.ListenAddresses() {
				before[a.String()] = true
			}
			if err := sw.Listen(mustMA(listenText(t, ip))); err != nil {
				return fail(fmt.Errorf("listen %s on %s: %w", t, ip, err))
			}
			for _, a := range sw.ListenAddresses() {
				if !before[a.String()] {
					h.listen[t][ip] = a
				}
			}
			if h.listen[t][ip] == nil {
				return fail(fmt.Errorf("no listen address for %s on %s", t, ip))
			}
		}
	}
	sw.Notify(&network.NotifyBundle{
		ConnectedF:    func(_ network.Network, c network.Conn) { h.mon.onConn("connected", c) },
		DisconnectedF: func(_ network.Network, c network.Conn) { h.mon.onDisconnected(c) },
	})
	return h, nil
}

func (h *rhost) close() {
	if h.closer != nil {
		h.closer()
		return
	}
	if h.sw != nil {
		h.sw.Close()
	}
	if h.cm != nil {
		h.cm.Close()
	}
	if h.ps != nil {
		h.ps.Close()
	}
}

// ---- scenarios ----------------------------------------------------------------------------------

type swStep struct {
	Kind   string `json:"kind"` // rule | restart | attempt
	Host   int    `json:"host"` // rule/restart: gating host index
	Op     *op    `json:"op,omitempty"`
	Dir    string `json:"dir,omitempty"`    // attempt: "out" (G dials remote) | "in" (remote dials G)
	Remote int    `json:"remote,omitempty"` // attempt: host index of the remote
	Tpt    string `json:"transport,omitempty"`
	Form   string `json:"form,omitempty"` // plain | dns | mapped
	V6     bool   `json:"v6,omitempty"`
}

func (s swStep) String() string {
	switch s.Kind {
	case "rule":
		return fmt.Sprintf("h%d.%s", s.Host, s.Op)
	case "restart":
		return fmt.Sprintf("h%d.restart-gater", s.Host)
	}
	fam := "v4"
	if s.V6 {
		fam = "v6"
	}
	return fmt.Sprintf("%s(h%d,%s,%s,%s)", s.Dir, s.Remote, s.Tpt, s.Form, fam)
}

type scenario struct {
	NoDialLog bool       `json:"no_dial_log,omitempty"` // hosts built by libp2p.New: transports are not wrapped
	Idx       int        `json:"idx"`
	Tpts      []string   `json:"transports"`
	Gated     []bool     `json:"gated"` // per host
	IPs       [][]string `json:"ips"`
	Steps     []swStep   `json:"steps"`
}

func (sc scenario) String() string {
	var parts []string
	for _, s := range sc.Steps {
		parts = append(parts, s.String())
	}
	return fmt.Sprintf("tpts=%v gated=%v ips=%v: %s", sc.Tpts, sc.Gated, sc.IPs, strings.Join(parts, "; "))
}

// host 0 is always the gating host G; 1..3 are remotes (host 1 also gates in some scenarios).
func genScenario(rngIdx int, r *run.R, tptPool []string) scenario {
	rng := r.Rand(5, uint64(rngIdx))
	sc := scenario{Idx: rngIdx}
	// transports of this scenario: tcp and quic always, plus at most two of the others
	sc.Tpts = []string{"tcp", "quic"}
	for _, t := range tptPool {
		if t != "tcp" && t != "quic" && rng.IntN(2) == 0 {
			sc.Tpts = append(sc.Tpts, t)
		}
	}
	third := []string{"127.0.1.1"}
	if rngIdx%2 == 1 {
		third = []string{"127.0.1.1", "::1"}
	}
	sc.IPs = [][]string{{"127.0.0.1", "::1"}, {"127.0.0.2"}, {"127.0.0.3"}, third}
	sc.Gated = []bool{true, rngIdx%3 == 0, false, false}
	addrs := []string{"127.0.0.2", "127.0.0.3", "127.0.1.1", "127.0.0.9", "::1", "127.0.0.1"}
	subnets := []string{"127.0.0.2/31", "127.0.0.0/29", "127.0.1.0/24", "127.0.0.0/8", "127.0.0.3/32", "::1/128", "::/0", "fd00::/8", "127.0.0.0/30"}
	n := 12 + rng.IntN(7)
	type rk struct {
		host int
		o    op
	}
	var blocked []rk
	for len(sc.Steps) < n {
		x := rng.IntN(100)
		switch {
		case x < 36: // rule change on a gating host
			hst := 0
			if sc.Gated[1] && rng.IntN(4) == 0 {
				hst = 1
			}
			var o op
			if len(blocked) > 0 && rng.IntN(100) < 40 {
				i := rng.IntN(len(blocked))
				b := blocked[i]
				blocked = append(blocked[:i], blocked[i+1:]...)
				hst = b.host
				o = b.o
				o.Kind++
				if o.Kind != opUnblockPeer && canonLooksV4(o.Arg) {
					o.Form = rng.IntN(3)
				}
			} else {
				switch y := rng.IntN(10); {
				case y < 3:
					// peers are indexed by host: peer i = host i
					p := 1 + rng.IntN(3)
					if hst == 1 {
						p = 0
					}
					o = op{Kind: opBlockPeer, Peer: p}
				case y < 6:
					a := addrs[rng.IntN(len(addrs))]
					if hst == 1 {
						a = []string{"127.0.0.1", "::1", "127.0.0.9"}[rng.IntN(3)]
					}
					o = op{Kind: opBlockAddr, Arg: a}
					if canonLooksV4(a) {
						o.Form = rng.IntN(3)
					}
				default:
					s := subnets[rng.IntN(len(subnets))]
					if canonPrefix(s).Bits() <= 8 && rng.IntN(2) == 0 {
						s = subnets[rng.IntN(len(subnets))]
					}
					o = op{Kind: opBlockSubnet, Arg: s}
					if canonLooksV4(s) {
						o.Form = rng.IntN(3)
					}
				}
				blocked = append(blocked, rk{hst, o})
			}
			sc.Steps = append(sc.Steps, swStep{Kind: "rule", Host: hst, Op: &o})
		case x < 42:
			sc.Steps = append(sc.Steps, swStep{Kind: "restart", Host: 0})
		default:
			st := swStep{Kind: "attempt", Dir: []string{"out", "in"}[rng.IntN(2)], Remote: 1 + rng.IntN(3), Tpt: sc.Tpts[rng.IntN(len(sc.Tpts))], Form: "plain"}
			if len(sc.IPs[st.Remote]) > 1 && rng.IntN(2) == 0 {
				st.V6 = true
			}
			if st.Dir == "out" && !st.V6 {
				switch rng.IntN(8) {
				case 0:
					st.Form = "dns"
				case 1:
					st.Form = "mapped"
				}
			}
			sc.Steps = append(sc.Steps, st)
		}
	}
	return sc
}

func canonLooksV4(s string) bool { return !strings.Contains(s, ":") }

type swOutcome struct {
	viol         []swViolation
	inconclusive string
	counts       stats
	refused      int
	admitted     int
	logs         map[string][]swEvent
}

// waitFor polls cond (woken by monitor events) until it holds or the watchdog expires.
func waitFor(mons []*monitor, cond func() bool) bool {
	deadline := time.NewTimer(watchdog)
	defer deadline.Stop()
	tick := time.NewTicker(2 * time.Millisecond)
	defer tick.Stop()
	for {
		if cond() {
			return true
		}
		// any monitor's wake channel, the ticker or the deadline
		select {
		case <-deadline.C:
			return cond()
		case <-tick.C:
		case <-mons[0].wake:
		}
	}
}

// hostMaker builds one host of a scenario (newHost: hand-built swarm; newLibp2pHost: libp2p.New).
type hostMaker func(label, name string, ips []string, tpts []string, gated bool, resolver network.MultiaddrDNSResolver) (*rhost, error)

func runScenario(sc scenario, mk hostMaker) (out swOutcome) {
	out.counts = stats{}
	names := map[string]string{}
	res := &staticResolver{names: names}
	var hosts []*rhost
	defer func() {
		for _, h := range hosts {
			h.close()
		}
	}()
	label := fmt.Sprintf("s%d", sc.Idx)
	for i, ips := range sc.IPs {
		h, err := mk(label, fmt.Sprintf("h%d", i), ips, sc.Tpts, sc.Gated[i], res)
		if err != nil {
			out.inconclusive = "host setup: " + err.Error()
			return
		}
		hosts = append(hosts, h)
		names[fmt.Sprintf("h%d.c10.test", i)] = ips[0]
	}
	G := hosts[0]
	var mons []*monitor
	for _, h := range hosts {
		mons = append(mons, h.mon)
	}
	peers := make([]peer.ID, len(hosts))
	for i, h := range hosts {
		peers[i] = h.id
	}
	uni := &universe{peers: peers}
	collect := func() {
		out.logs = map[string][]swEvent{}
		for _, h := range hosts {
			h.mon.mu.Lock()
			out.viol = append(out.viol, h.mon.viol...)
			for k, n := range h.mon.notConsulted {
				out.counts.add(k, n)
			}
			if len(h.mon.viol) > 0 || h == G {
				ev := h.mon.events
				if len(ev) > 400 {
					ev = ev[len(ev)-400:]
				}
				out.logs[h.name] = append([]swEvent(nil), ev...)
			}
			h.mon.mu.Unlock()
		}
	}
	defer collect()

	// settle: no connection anywhere, every Connected has its Disconnected; rules change only then
	settle := func() bool {
		for _, h := range hosts {
			for _, o := range hosts {
				if o != h {
					h.sw.ClosePeer(o.id)
				}
			}
		}
		return waitFor(mons, func() bool {
			for _, h := range hosts {
				if len(h.sw.Conns()) != 0 {
					return false
				}
				h.mon.mu.Lock()
				// every connection that passed its last gate has been announced, every announced one is gone
				eq := h.mon.connected == h.mon.disconnected && h.mon.connected >= h.mon.upgradedOK
				h.mon.mu.Unlock()
				if !eq {
					return false
				}
			}
			return true
		})
	}

	for si, st := range sc.Steps {
		switch st.Kind {
		case "rule":
			h := hosts[st.Host]
			if err := apply(h.real(), uni, *st.Op); err != nil {
				out.inconclusive = fmt.Sprintf("step %d: %v", si, err)
				return
			}
			h.mon.mu.Lock()
			if st.Op.Kind.isBlock() {
				h.mon.rules.set(st.Op.rule(peers), yes)
			} else {
				h.mon.rules.set(st.Op.rule(peers), no)
			}
			h.mon.mu.Unlock()
			out.counts.add("rule_changes", 1)
		case "restart":
			// "Rules written through the gater survive a restart on the same datastore": a fresh gater on
			// a copy of the datastore image replaces the running one; the model is unchanged.
			h := hosts[st.Host]
			nd := fromImage(h.store.snapshot())
			ng, err := conngater.NewBasicConnectionGater(nd)
			if err != nil {
				out.viol = append(out.viol, swViolation{sig: "swarm/restart/constructor-error", msg: err.Error()})
				return
			}
			h.store = nd
			h.gate.inner.Store(ng)
			out.counts.add("gater_restarts", 1)
		case "attempt":
			R := hosts[st.Remote]
			dialer, target := G, R
			if st.Dir == "in" {
				dialer, target = R, G
			}
			tip := target.ips[0]
			if st.V6 {
				tip = target.ip(true).String()
			}
			addr := target.listen[st.Tpt][tip]
			if addr == nil {
				out.inconclusive = fmt.Sprintf("step %d: no %s listener on %s", si, st.Tpt, tip)
				return
			}
			switch st.Form {
			case "dns":
				_, rest := ma.SplitFirst(addr)
				addr = mustMA(fmt.Sprintf("/dns4/h%d.c10.test", st.Remote)).Encapsulate(rest)
			case "mapped":
				_, rest := ma.SplitFirst(addr)
				addr = mustMA("/ip6/::ffff:" + tip).Encapsulate(rest)
			}
			dialer.ps.ClearAddrs(target.id)
			dialer.ps.AddAddr(target.id, addr, peerstore.PermanentAddrTTL)
			dialer.sw.Backoff().Clear(target.id)
			var epochs []int
			for _, h := range hosts {
				epochs = append(epochs, h.mon.newEpoch())
			}
			ctx, cancel := context.WithTimeout(context.Background(), watchdog)
			done := make(chan error, 1)
			go func() {
				_, err := dialer.sw.DialPeer(ctx, target.id)
				done <- err
			}()
			// terminal: the dial returned AND (it failed, or the listening side showed its decision: it
			// admitted the connection or one of its gates refused). A refusal by the listening side also
			// ends the attempt (WebRTC dialers are not told and would wait for their timeout).
			var dialErr error
			returned := false
			lepoch := epochs[0]
			if target != G {
				lepoch = epochs[st.Remote]
			}
			ok := waitFor(mons, func() bool {
				if !returned {
					select {
					case dialErr = <-done:
						returned = true
					default:
					}
				}
				s := target.mon.summary(lepoch)
				listenerDecided := len(s.refusedBy) > 0 || len(s.admitted) > 0
				// A WebRTC listener that refuses at accept never answers; its dialer would wait for the ICE
				// timeout. Nothing can complete on either side after that refusal, so cancelling is safe.
				// No other dial is ever cancelled (a cancelled dial could still complete in the background).
				if !returned && st.Tpt == "webrtc" {
					for _, g := range s.refusedBy {
						if strings.HasPrefix(g, "InterceptAccept") {
							cancel()
						}
					}
				}
				return returned && (dialErr != nil || listenerDecided)
			})
			cancel()
			if !returned {
				select {
				case dialErr = <-done:
					returned = true
				case <-time.After(watchdog):
				}
			}
			if !ok || !returned {
				out.inconclusive = fmt.Sprintf("step %d %s: watchdog expired waiting for the attempt to finish", si, st)
				return
			}
			// ConnsToPeer on both ends, judged like notifications
			for _, c := range G.sw.ConnsToPeer(R.id) {
				G.mon.onConn("listed", c)
			}
			if R.real != nil {
				for _, c := range R.sw.ConnsToPeer(G.id) {
					R.mon.onConn("listed", c)
				}
			}
			// accounting (never part of a verdict)
			gs := G.mon.summary(epochs[0])
			own := gs          // G's own decisions only
			if R.real != nil { // the second gating host's refusals count as well
				rs := R.mon.summary(epochs[st.Remote])
				gs.refusedBy = append(gs.refusedBy, rs.refusedBy...)
				if st.Dir == "in" {
					gs.dials += rs.dials
				}
			}
			key := st.Dir + "." + st.Tpt
			switch {
			case len(gs.admitted) > 0:
				out.admitted++
				out.counts.add("admitted."+key, 1)
				if st.Form != "plain" {
					out.counts.add("admitted.form."+st.Form, 1)
				}
			case len(gs.refusedBy) > 0:
				out.refused++
				for _, g := range gs.refusedBy {
					out.counts.add("refused."+g, 1)
				}
				if st.Form != "plain" {
					out.counts.add("refused.form."+st.Form, 1)
				}
				if gs.dials == 0 && !sc.NoDialLog {
					out.counts.add("refused_before_any_transport_dial", 1)
				}
			case dialErr != nil && errors.Is(dialErr, context.DeadlineExceeded):
				out.inconclusive = fmt.Sprintf("step %d %s: dial timed out", si, st)
				return
			default:
				out.counts.add("failed_other."+key+"."+st.Form, 1)
			}
			// secondary evidence for "refused before any transport dial": the remote listener saw nothing
			if st.Dir == "out" && len(own.refusedBy) > 0 && len(own.admitted) == 0 && own.dials == 0 {
				reached := false
				R.mon.mu.Lock()
				for _, e := range R.mon.events {
					if e.Epoch == epochs[st.Remote] && e.Kind == "gate" && e.Gate == "InterceptSecured" && e.peer == G.id {
						reached = true
					}
				}
				R.mon.mu.Unlock()
				if reached {
					G.mon.mu.Lock()
					G.mon.viol = append(G.mon.viol, swViolation{sig: "swarm/refused-dial-reached-remote-listener/" + st.Tpt,
						msg: fmt.Sprintf("step %d %s: host G's gater refused the dial, yet the remote listener authenticated a connection from G", si, st),
						dir: "outbound", tpt: st.Tpt, peer: R.id, epoch: epochs[0]})
					G.mon.mu.Unlock()
				} else {
					out.counts.add("remote_listener_saw_nothing", 1)
				}
			}
			for _, h := range hosts {
				h.mon.mu.Lock()
				n := h.mon.stragglers
				h.mon.mu.Unlock()
				if n > 0 {
					out.inconclusive = fmt.Sprintf("step %d %s: host %s announced a connection after the rule set had changed", si, st, h.name)
					return
				}
			}
			if !settle() {
				out.inconclusive = fmt.Sprintf("step %d %s: watchdog expired waiting for connections to close", si, st)
				return
			}
			// a violation must belong to this attempt (direction, transport, remote); anything else would be
			// a straggler of an earlier attempt and is not decided
			for _, h := range hosts {
				h.mon.mu.Lock()
				for _, v := range h.mon.viol {
					if v.epoch != h.mon.epoch || v.peer == "" {
						continue
					}
					wantDir := "outbound"
					if (st.Dir == "in") == (h == G) {
						wantDir = "inbound"
					}
					other := R.id
					if h != G {
						other = G.id
					}
					if v.dir != wantDir || v.peer != other {
						out.inconclusive = fmt.Sprintf("step %d %s: unattributed event: %s", si, st, v.msg)
					}
				}
				h.mon.mu.Unlock()
			}
			if out.inconclusive != "" {
				return
			}
			// stop at the first violation
			for _, h := range hosts {
				h.mon.mu.Lock()
				n := len(h.mon.viol)
				h.mon.mu.Unlock()
				if n > 0 {
					return
				}
			}
		}
	}
	return
}

func composition(r *run.R, n int) {
	pool := []string{"tcp", "quic"}
	if !r.Quick() {
		pool = append(pool, "ws", "webtransport", "webrtc")
	}
	var a agg
	a.st = stats{}
	var sampled atomic.Int32
	workers := 8
	run.Parallel(n, workers, func(i int) {
		caseID := fmt.Sprintf("swarm/s%d", i)
		if !r.Want(caseID) || r.TooMany() {
			return
		}
		sc := genScenario(i, r, pool)
		o := runScenario(sc, newHost)
		r.Eval(1)
		a.merge(o.counts)
		if len(o.viol) > 0 && o.inconclusive == "" {
			seen := map[string]bool{}
			for _, v := range o.viol {
				if seen[v.sig] {
					continue
				}
				seen[v.sig] = true
				r.Violation(v.sig, caseID, v.msg+" | scenario: "+sc.String(), map[string]any{"scenario": sc, "text": sc.String(), "events": o.logs})
			}
			return
		}
		if o.inconclusive != "" {
			r.Inconclusive(caseID, o.inconclusive)
			return
		}
		a.merge(stats{"scenarios_completed": 1})
		if o.refused > 0 && o.admitted > 0 {
			r.Nontrivial("swarm:" + sc.String())
		}
		if o.refused > 0 && o.admitted > 0 && sampled.Add(1) <= 2 {
			ev := o.logs["h0"]
			if len(ev) > 24 {
				ev = ev[:24]
			}
			r.Sample(map[string]any{"part": "composition", "case": caseID, "scenario": sc.String(), "gating_host_events_head": ev,
				"refused_attempts": o.refused, "admitted_attempts": o.admitted})
		}
	})
	a.flush(r, "swarm.")
	if r.Replaying() {
		return
	}
	r.Require("swarm.scenarios_completed", n/2)
	for _, k := range []string{"refused.InterceptPeerDial/?", "refused.InterceptAddrDial/tcp", "refused.InterceptAddrDial/quic",
		"refused.InterceptAccept/tcp", "refused.InterceptAccept/quic", "refused.InterceptSecured(inbound)/tcp", "refused.InterceptSecured(inbound)/quic",
		"admitted.in.tcp", "admitted.in.quic", "admitted.out.tcp", "admitted.out.quic", "refused_before_any_transport_dial", "gater_restarts"} {
		r.Require("swarm."+k, 2)
	}
	if len(pool) > 2 {
		for _, k := range []string{"refused.InterceptAccept/webrtc", "refused.InterceptAccept/webtransport", "refused.InterceptAddrDial/ws",
			"refused.InterceptSecured(inbound)/ws", "refused.InterceptSecured(inbound)/webrtc", "refused.InterceptSecured(inbound)/webtransport",
			"admitted.in.ws", "admitted.in.webrtc", "admitted.in.webtransport", "admitted.out.ws", "admitted.out.webrtc", "admitted.out.webtransport"} {
			r.Require("swarm."+k, 2)
		}
	}
}
