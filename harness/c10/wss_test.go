package c10

import (
	"context"
	"crypto/ecdsa"
	"crypto/elliptic"
	"crypto/rand"
	"crypto/tls"
	"crypto/x509"
	"crypto/x509/pkix"
	"fmt"
	"math/big"
	"net"
	"time"

	"github.com/libp2p/go-libp2p"
	"github.com/libp2p/go-libp2p/core/peer"
	"github.com/libp2p/go-libp2p/p2p/net/conngater"
	"github.com/libp2p/go-libp2p/p2p/transport/websocket"
	ma "github.com/multiformats/go-multiaddr"
	manet "github.com/multiformats/go-multiaddr/net"

	"verif/harness/rig/run"
)

// wssSNI: secure WebSocket addresses carry a NAME next to the IP (/ip4/A/tcp/P/tls/sni/NAME/ws). The swarm
// shows the gater the multiaddr, i.e. IP A. "No connection to ... a matching remote is ever admitted":
// whatever the transport does with NAME, the socket it opens must go to A - a connection whose remote
// address is a BLOCKED address (here 127.0.0.1, where the peer really listens and to which NAME
// resolves) while the gater was only asked about the unblocked A = 127.0.0.2 is a violation. Real
// libp2p hosts, real WSS listener with a self-signed certificate, ports 443 (needs the right to bind
// it; counted as skipped otherwise) and a high port.
func wssSNI(r *run.R) {
	if ips, err := net.LookupIP("localhost"); err != nil || len(ips) == 0 {
		r.Count("wss_sni_skipped_localhost_does_not_resolve", 1)
		return
	}
	key, err := ecdsa.GenerateKey(elliptic.P256(), rand.Reader)
	if err != nil {
		return
	}
	tmpl := &x509.Certificate{SerialNumber: big.NewInt(1), Subject: pkix.Name{CommonName: "localhost"}, DNSNames: []string{"localhost"},
		NotBefore: time.Now().Add(-time.Hour), NotAfter: time.Now().Add(24 * time.Hour), KeyUsage: x509.KeyUsageDigitalSignature, ExtKeyUsage: []x509.ExtKeyUsage{x509.ExtKeyUsageServerAuth}}
	der, err := x509.CreateCertificate(rand.Reader, tmpl, tmpl, &key.PublicKey, key)
	if err != nil {
		return
	}
	srvTLS := &tls.Config{Certificates: []tls.Certificate{{Certificate: [][]byte{der}, PrivateKey: key}}}
	for _, port := range []int{443, 0} {
		caseID := fmt.Sprintf("socket/wss-sni/port%d", port)
		if !r.Want(caseID) || r.TooMany() {
			continue
		}
		if port == 443 {
			l, err := net.Listen("tcp4", "127.0.0.1:443")
			if err != nil {
				r.Count("wss_sni_skipped_cannot_bind_443", 1)
				continue
			}
			l.Close()
		}
		srv, err := libp2p.New(libp2p.Transport(websocket.New, websocket.WithTLSConfig(srvTLS)),
			libp2p.ListenAddrStrings(fmt.Sprintf("/ip4/127.0.0.1/tcp/%d/tls/ws", port)), libp2p.DisableRelay(), libp2p.DisableMetrics())
		if err != nil {
			r.Count("wss_sni_skipped_listener_failed", 1)
			continue
		}
		lport := port
		for _, a := range srv.Addrs() {
			if p, err := a.ValueForProtocol(ma.P_TCP); err == nil {
				fmt.Sscan(p, &lport)
			}
		}
		cg, _ := conngater.NewBasicConnectionGater(nil)
		blocked := net.ParseIP("127.0.0.1")
		cg.BlockAddr(blocked)
		cl, err := libp2p.New(libp2p.NoListenAddrs, libp2p.Transport(websocket.New, websocket.WithTLSClientConfig(&tls.Config{InsecureSkipVerify: true})),
			libp2p.ConnectionGater(cg), libp2p.DisableRelay(), libp2p.DisableMetrics())
		if err != nil {
			srv.Close()
			continue
		}
		for _, ip := range []string{"127.0.0.2", "127.0.0.1"} {
			addr := ma.StringCast(fmt.Sprintf("/ip4/%s/tcp/%d/tls/sni/localhost/ws", ip, lport))
			ctx, cancel := context.WithTimeout(context.Background(), 10*time.Second)
			cerr := cl.Connect(ctx, peer.AddrInfo{ID: srv.ID(), Addrs: []ma.Multiaddr{addr}})
			cancel()
			r.Eval(1)
			r.Count("wss_sni_dials", 1)
			detail := map[string]any{"dialled": addr.String(), "blocked": "127.0.0.1", "connect_error": fmt.Sprint(cerr)}
			bad := ""
			for _, c := range cl.Network().ConnsToPeer(srv.ID()) {
				if rip, err := manet.ToIP(c.RemoteMultiaddr()); err == nil && rip.Equal(blocked) {
					bad = c.RemoteMultiaddr().String()
				}
			}
			if bad == "" && len(srv.Network().ConnsToPeer(cl.ID())) > 0 {
				bad = "(seen by the peer that listens on the blocked address only)"
			}
			if bad != "" {
				r.Violation("socket/wss-sni/connection-to-blocked-address-admitted", caseID,
					fmt.Sprintf("the gater blocks 127.0.0.1; dialling %s left a connection whose remote address is the blocked one: %s", addr, bad), detail)
				break
			}
			if cerr != nil {
				r.Count("wss_sni_dials_refused_or_failed", 1)
			}
			r.Nontrivial(caseID + "/" + ip)
			cl.Network().ClosePeer(srv.ID())
		}
		cl.Close()
		srv.Close()
	}
	dnsNames(r)
}

// failingResolver: the swarm's own DNS resolver is down (every lookup fails).
type failingResolver struct{}

func (failingResolver) ResolveDNSAddr(context.Context, peer.ID, ma.Multiaddr, int, int) ([]ma.Multiaddr, error) {
	return nil, fmt.Errorf("verif: resolver unavailable")
}
func (failingResolver) ResolveDNSComponent(context.Context, ma.Multiaddr, int) ([]ma.Multiaddr, error) {
	return nil, fmt.Errorf("verif: resolver unavailable")
}

// dnsNames: a peer known only by a /dns4 name that resolves to a BLOCKED address, with the swarm's own
// resolver working or failing (the WebSocket transport can resolve names by itself): whatever fails on
// the way, no connection to the blocked address may result.
func dnsNames(r *run.R) {
	for _, resolver := range []string{"default", "failing"} {
		caseID := "socket/ws-dns-name/swarm-resolver-" + resolver
		if !r.Want(caseID) || r.TooMany() {
			continue
		}
		srv, err := libp2p.New(libp2p.Transport(websocket.New), libp2p.ListenAddrStrings("/ip4/127.0.0.1/tcp/0/ws"), libp2p.DisableRelay(), libp2p.DisableMetrics())
		if err != nil {
			r.Count("ws_dns_skipped_listener_failed", 1)
			continue
		}
		port := ""
		for _, a := range srv.Addrs() {
			if p, err := a.ValueForProtocol(ma.P_TCP); err == nil {
				port = p
			}
		}
		cg, _ := conngater.NewBasicConnectionGater(nil)
		blocked := net.ParseIP("127.0.0.1")
		cg.BlockAddr(blocked)
		opts := []libp2p.Option{libp2p.NoListenAddrs, libp2p.Transport(websocket.New), libp2p.ConnectionGater(cg), libp2p.DisableRelay(), libp2p.DisableMetrics()}
		if resolver == "failing" {
			opts = append(opts, libp2p.MultiaddrResolver(failingResolver{}))
		}
		cl, err := libp2p.New(opts...)
		if err != nil {
			srv.Close()
			continue
		}
		addr := ma.StringCast("/dns4/localhost/tcp/" + port + "/ws")
		ctx, cancel := context.WithTimeout(context.Background(), 10*time.Second)
		cerr := cl.Connect(ctx, peer.AddrInfo{ID: srv.ID(), Addrs: []ma.Multiaddr{addr}})
		cancel()
		r.Eval(1)
		r.Count("ws_dns_dials", 1)
		bad := ""
		for _, c := range cl.Network().ConnsToPeer(srv.ID()) {
			bad = c.RemoteMultiaddr().String()
		}
		if bad == "" && len(srv.Network().ConnsToPeer(cl.ID())) > 0 {
			bad = "(seen by the peer that listens on the blocked address only)"
		}
		if bad != "" {
			r.Violation("socket/ws-dns-name/connection-to-blocked-address-admitted", caseID,
				fmt.Sprintf("the gater blocks 127.0.0.1 (where the peer listens, and what localhost resolves to); dialling %s with the swarm's resolver %s left a connection: %s", addr, resolver, bad),
				map[string]any{"dialled": addr.String(), "swarm_resolver": resolver, "connect_error": fmt.Sprint(cerr)})
		} else {
			r.Nontrivial(caseID)
		}
		cl.Close()
		srv.Close()
	}
}
