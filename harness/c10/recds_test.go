package c10

// recDS: the datastore handed to the real gater in the persistence part. It wraps
// sync.MutexWrap(MapDatastore), numbers every mutation (Put/Delete) and every Query, can take an image
// of the store right after the k-th mutation ("the process stopped here": the write is durable, the
// caller has not been told yet and has not updated its memory) and can make the k-th mutation / the
// j-th query fail.

import (
	"context"
	"errors"
	"sync"

	ds "github.com/ipfs/go-datastore"
	dsq "github.com/ipfs/go-datastore/query"
	dssync "github.com/ipfs/go-datastore/sync"
)

var errInjected = errors.New("c10: injected datastore error")

const (
	failBeforeApply = 0 // the mutation is NOT applied and an error is returned
	failAfterApply  = 1 // the mutation IS applied but the caller gets an error (lost acknowledgement)
)

type image map[string][]byte // datastore key -> value (deep copy)

type dsEvent struct {
	N      int    `json:"n"` // mutation index
	Kind   string `json:"kind"`
	Key    string `json:"key"`
	Failed bool   `json:"failed,omitempty"`
}

type recDS struct {
	inner ds.Datastore

	mu           sync.Mutex
	nMut         int
	nQuery       int
	failAt       int // mutation index to fail, -1 = none
	failMode     int
	failQuery    int  // query index to fail, -1 = none
	failQueryMid bool // false: Query itself returns the error; true: the error arrives among the results
	events       []dsEvent
	onMutation   func(k int, img image) // called right after mutation k was applied (outside r.mu)
}

func newRecDS() *recDS {
	return &recDS{inner: dssync.MutexWrap(ds.NewMapDatastore()), failAt: -1, failQuery: -1}
}

// fromImage builds a fresh, independent datastore holding a copy of img ("same datastore after restart").
func fromImage(img image) *recDS {
	r := newRecDS()
	for k, v := range img {
		r.inner.Put(context.Background(), ds.NewKey(k), append([]byte(nil), v...))
	}
	return r
}

func (r *recDS) snapshot() image {
	res, err := r.inner.Query(context.Background(), dsq.Query{})
	if err != nil {
		panic(err)
	}
	img := image{}
	for e := range res.Next() {
		if e.Error != nil {
			panic(e.Error)
		}
		img[e.Key] = append([]byte(nil), e.Value...)
	}
	return img
}

func (r *recDS) mutate(kind string, key ds.Key, apply func() error) error {
	r.mu.Lock()
	k := r.nMut
	r.nMut++
	fail := k == r.failAt
	mode := r.failMode
	r.events = append(r.events, dsEvent{N: k, Kind: kind, Key: key.String(), Failed: fail})
	cb := r.onMutation
	r.mu.Unlock()
	if fail && mode == failBeforeApply {
		return errInjected
	}
	if err := apply(); err != nil {
		return err
	}
	if cb != nil {
		cb(k, r.snapshot())
	}
	if fail {
		return errInjected
	}
	return nil
}

func (r *recDS) Put(ctx context.Context, key ds.Key, value []byte) error {
	v := append([]byte(nil), value...) // a real store serialises; never alias the caller's slice
	return r.mutate("put", key, func() error { return r.inner.Put(ctx, key, v) })
}

func (r *recDS) Delete(ctx context.Context, key ds.Key) error {
	return r.mutate("delete", key, func() error { return r.inner.Delete(ctx, key) })
}

func (r *recDS) Get(ctx context.Context, key ds.Key) ([]byte, error) { return r.inner.Get(ctx, key) }
func (r *recDS) Has(ctx context.Context, key ds.Key) (bool, error)   { return r.inner.Has(ctx, key) }
func (r *recDS) GetSize(ctx context.Context, key ds.Key) (int, error) {
	return r.inner.GetSize(ctx, key)
}

func (r *recDS) Query(ctx context.Context, q dsq.Query) (dsq.Results, error) {
	r.mu.Lock()
	j := r.nQuery
	r.nQuery++
	fail := j == r.failQuery
	r.mu.Unlock()
	if fail && !r.failQueryMid {
		return nil, errInjected
	}
	res, err := r.inner.Query(ctx, q)
	if err != nil || !fail {
		return res, err
	}
	// the query starts fine and breaks while its results are read: half of the entries, then an error
	entries, err := res.Rest()
	if err != nil {
		return nil, err
	}
	return dsq.ResultsWithContext(q, func(ctx context.Context, out chan<- dsq.Result) {
		for i, e := range entries {
			if i >= len(entries)/2 {
				break
			}
			select {
			case out <- dsq.Result{Entry: e}:
			case <-ctx.Done():
				return
			}
		}
		select {
		case out <- dsq.Result{Error: errInjected}:
		case <-ctx.Done():
		}
	}), nil
}

func (r *recDS) Sync(ctx context.Context, prefix ds.Key) error { return r.inner.Sync(ctx, prefix) }
func (r *recDS) Close() error                                  { return nil }

func (r *recDS) mutations() int {
	r.mu.Lock()
	defer r.mu.Unlock()
	return r.nMut
}

func (r *recDS) eventsCopy() []dsEvent {
	r.mu.Lock()
	defer r.mu.Unlock()
	return append([]dsEvent(nil), r.events...)
}
