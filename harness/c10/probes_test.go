package c10

// Crafted inputs for the Intercept* methods and the comparison of a real gater with the model.

import (
	"crypto/ed25519"
	"crypto/sha256"
	"fmt"
	"net/netip"
	"strings"

	"github.com/libp2p/go-libp2p/core/connmgr"
	"github.com/libp2p/go-libp2p/core/crypto"
	"github.com/libp2p/go-libp2p/core/network"
	"github.com/libp2p/go-libp2p/core/peer"
	ma "github.com/multiformats/go-multiaddr"
)

// detPeer derives a real Ed25519 peer ID (and key) deterministically from a label.
func detKey(label string) (crypto.PrivKey, peer.ID) {
	seed := sha256.Sum256([]byte("c10/" + label))
	sk := ed25519.NewKeyFromSeed(seed[:])
	priv, err := crypto.UnmarshalEd25519PrivateKey(sk)
	if err != nil {
		panic(err)
	}
	id, err := peer.IDFromPrivateKey(priv)
	if err != nil {
		panic(err)
	}
	return priv, id
}

var relayID = func() peer.ID { _, id := detKey("relay"); return id }()

// probe is one crafted remote address.
type probe struct {
	Text  string
	MA    ma.Multiaddr // nil for the "no remote address" probe
	IP    netip.Addr   // canonical remote IP per the model; invalid = no IP component
	Class string       // textual form class (part of violation signatures)
	Edge  string       // "", "first", "last", "before", "after": position relative to a subnet of the universe
}

func mustMA(s string) ma.Multiaddr {
	a, err := ma.NewMultiaddr(s)
	if err != nil {
		panic(fmt.Sprintf("multiaddr %q: %v", s, err))
	}
	return a
}

func expand6(a netip.Addr) string {
	b := a.As16()
	parts := make([]string, 8)
	for i := range parts {
		parts[i] = fmt.Sprintf("%02x%02x", b[2*i], b[2*i+1])
	}
	return strings.Join(parts, ":")
}

// variants returns every textual form in which the remote IP a is presented to the gater.
func variants(a netip.Addr, edge string) []probe {
	var out []probe
	add := func(class, text string) {
		out = append(out, probe{Text: text, MA: mustMA(text), IP: a, Class: class, Edge: edge})
	}
	if a.Is4() {
		s := a.String()
		b := a.As4()
		add("ip4", "/ip4/"+s+"/tcp/4001")
		add("ip4", "/ip4/"+s+"/udp/4001/quic-v1")
		add("ip4", "/ip4/"+s+"/udp/4001/webrtc-direct")
		add("ip4-bare", "/ip4/"+s)
		add("ip4-mapped-text", "/ip6/::ffff:"+s+"/tcp/4001")
		add("ip4-mapped-hex", fmt.Sprintf("/ip6/::ffff:%02x%02x:%02x%02x/udp/4001/quic-v1/webtransport", b[0], b[1], b[2], b[3]))
		add("relay-at-ip4", "/ip4/"+s+"/tcp/4001/p2p/"+relayID.String()+"/p2p-circuit")
	} else {
		s := a.String()
		add("ip6", "/ip6/"+s+"/tcp/4001")
		add("ip6-expanded", "/ip6/"+expand6(a)+"/udp/4001/quic-v1")
		add("ip6-upper", "/ip6/"+strings.ToUpper(s)+"/tcp/4001/ws")
		add("ip6-zone", "/ip6zone/eth0/ip6/"+s+"/tcp/4001")
		add("relay-at-ip6", "/ip6/"+s+"/udp/4001/quic-v1/p2p/"+relayID.String()+"/p2p-circuit")
	}
	return out
}

// noIPProbes: addresses without an IP component. No address/subnet rule can match them.
func noIPProbes() []probe {
	var out []probe
	for _, t := range []struct{ class, text string }{
		{"noip-circuit", "/p2p-circuit"},
		{"noip-circuit", "/p2p/" + relayID.String() + "/p2p-circuit"},
		{"noip-dns", "/dns4/example.com/tcp/4001"},
		{"noip-dns", "/dns6/example.com/udp/4001/quic-v1"},
		{"noip-dns", "/dns/example.com/tcp/443/tls/ws"},
		{"noip-dns", "/dnsaddr/example.com"},
		{"noip-dns", "/dns4/example.com/tcp/4001/p2p/" + relayID.String() + "/p2p-circuit"},
		{"noip-unix", "/unix/tmp/c10.sock"},
	} {
		out = append(out, probe{Text: t.text, MA: mustMA(t.text), Class: t.class})
	}
	out = append(out, probe{Text: "<nil>", MA: nil, Class: "noip-nil"})
	return out
}

// family: a set of overlapping subnets plus addresses at and around their edges.
type family struct {
	name    string
	subnets []string
	addrs   []string
}

var families = []family{
	{"v4-nested", []string{"10.1.0.0/16", "10.1.2.0/24", "10.1.2.128/25", "10.1.2.4/31", "10.1.2.3/32", "10.1.2.0/30"},
		[]string{"10.1.2.3", "10.1.2.4", "10.1.2.5", "10.1.2.6", "10.1.2.2", "10.1.2.127", "10.1.2.200", "10.1.77.1", "10.9.9.9"}},
	{"v4-wide", []string{"0.0.0.0/0", "127.0.0.0/8", "128.0.0.0/1", "192.168.0.0/30", "255.255.255.255/32"},
		[]string{"0.0.0.0", "127.0.0.1", "8.8.8.8", "192.168.0.1", "192.168.0.4", "200.1.2.3", "255.255.255.255"}},
	{"v6-nested", []string{"2001:db8::/32", "2001:db8::/64", "2001:db8:0:0:8000::/65", "2001:db8::1/128", "2001:db8::2/127"},
		[]string{"2001:db8::1", "2001:db8::2", "2001:db8::3", "2001:db8::4", "2001:db8::abcd", "2001:db8:0:0:8000::1", "2001:db8:5::1", "2001:dead::1"}},
	{"v6-wide", []string{"::/0", "fe80::/10", "::1/128", "8000::/1", "64:ff9b::/96"},
		[]string{"::1", "::", "::2", "fe80::1", "fd00::2", "64:ff9b::a01:203", "2001:db8::1", "ffff:ffff:ffff:ffff:ffff:ffff:ffff:ffff"}},
}

// universe is what one history draws its operations and probes from.
type universe struct {
	Families []string `json:"families"`
	peers    []peer.ID
	Addrs    []string `json:"addrs"`
	Subnets  []string `json:"subnets"`
	probes   []probe
}

var allPeers = func() []peer.ID {
	var ps []peer.ID
	for i := 0; i < 4; i++ {
		_, id := detKey(fmt.Sprintf("peer%d", i))
		ps = append(ps, id)
	}
	return ps
}()

// buildUniverse derives the probe set: every address of the universe and, for every subnet, its first
// and last address and the addresses just outside, each in every textual form; plus the no-IP probes.
// When IPv4 material is present the IPv4 edge addresses are ALSO what the mapped forms present.
func buildUniverse(fams []int) *universe {
	u := &universe{peers: allPeers}
	seen := map[netip.Addr]bool{}
	addIP := func(a netip.Addr, edge string) {
		if !a.IsValid() || seen[a] {
			return
		}
		seen[a] = true
		u.probes = append(u.probes, variants(a, edge)...)
	}
	for _, fi := range fams {
		f := families[fi]
		u.Families = append(u.Families, f.name)
		u.Subnets = append(u.Subnets, f.subnets...)
		u.Addrs = append(u.Addrs, f.addrs...)
	}
	// edges first so that the Edge tag survives de-duplication
	for _, s := range u.Subnets {
		p := canonPrefix(s)
		first, last := p.Addr(), prefixLast(p)
		addIP(first, "first")
		addIP(last, "last")
		addIP(first.Prev(), "before") // invalid at 0.0.0.0 / ::
		addIP(last.Next(), "after")   // invalid at the top of the space
	}
	for _, s := range u.Addrs {
		addIP(canonIP(s), "")
	}
	u.probes = append(u.probes, noIPProbes()...)
	return u
}

// ---- stubs handed to the gater ---------------------------------------------------------------

type cmaddrs struct{ local, remote ma.Multiaddr }

func (c *cmaddrs) LocalMultiaddr() ma.Multiaddr  { return c.local }
func (c *cmaddrs) RemoteMultiaddr() ma.Multiaddr { return c.remote }

type stubConn struct {
	network.Conn
	cmaddrs
	p   peer.ID
	dir network.Direction
}

func (c *stubConn) RemotePeer() peer.ID           { return c.p }
func (c *stubConn) LocalMultiaddr() ma.Multiaddr  { return c.local }
func (c *stubConn) RemoteMultiaddr() ma.Multiaddr { return c.remote }
func (c *stubConn) Stat() network.ConnStats {
	return network.ConnStats{Stats: network.Stats{Direction: c.dir}}
}
func (c *stubConn) ID() string { return "stub" }

var (
	localText = "/ip4/192.0.2.1/tcp/4001"
	localMA   = mustMA(localText)
	localIP   = canonIP("192.0.2.1")
)

// ---- comparison ------------------------------------------------------------------------------

// disagreement is one Intercept* answer the statement does not allow.
type disagreement struct {
	Sig   string `json:"signature"`
	Msg   string `json:"message"`
	Gate  string `json:"gate"`
	Probe string `json:"probe"`
	Peer  string `json:"peer,omitempty"`
	Model string `json:"model"`
}

// stats are per-run path-class counters (merged into the run's counters by the caller).
type stats map[string]int

func (s stats) add(k string, n int) { s[k] += n }

func (s stats) merge(o stats) {
	for k, v := range o {
		s[k] += v
	}
}

// compare calls every Intercept* method of g with every probe and judges the answers with the model m.
// ever (may be nil) is the set of rules that were blocked at some time in this history; it only feeds
// the "allowed again after unblock" counter. rot rotates which peer accompanies which address.
func compare(g connmgr.ConnectionGater, m, ever *model, u *universe, phase string, rot int, st stats) *disagreement {
	mk := func(gate, wantWord, why string, pr *probe, q peer.ID, extra string) *disagreement {
		d := &disagreement{
			Sig:   fmt.Sprintf("%s/%s/%s/%s/%s", phase, gate, wantWord, why, pr.Class),
			Gate:  gate,
			Probe: pr.Text,
			Model: m.String(),
		}
		if q != "" {
			d.Peer = q.String()
		}
		d.Msg = fmt.Sprintf("%s: %s(%s%s) %s; rule kind %s; model %s", phase, gate, pr.Text, extra,
			map[string]string{"admitted-blocked": "ALLOWED a remote that matches a blocked rule", "refused-unblocked": "REFUSED a remote that matches no blocked rule"}[wantWord], why, m)
		return d
	}
	// judge returns "" when the answer is permitted by the statement
	judge := func(want tri, allow bool) string {
		switch {
		case want == yes && allow:
			return "admitted-blocked"
		case want == no && !allow:
			return "refused-unblocked"
		}
		return ""
	}

	// peers: "outbound dials are refused before any transport dial to a blocked peer"
	noPeer := probe{Text: "-", Class: "peer"}
	for _, q := range u.peers {
		pv := m.peerVerdict(q)
		if w := judge(pv, g.InterceptPeerDial(q)); w != "" {
			return mk("InterceptPeerDial", w, "peer", &noPeer, q, "peer "+shortPeer(q))
		}
		switch pv {
		case yes:
			st.add("must_refuse.peer", 1)
		case no:
			st.add("must_allow.peer", 1)
			if ever != nil && ever.peerVerdict(q) == yes {
				st.add("allow_after_unblock.peer", 1)
			}
		default:
			st.add("either.peer", 1)
		}
	}

	localV, _ := m.ipVerdict(localIP)
	for i := range u.probes {
		pr := &u.probes[i]
		q := u.peers[(i+rot)%len(u.peers)]
		pv := m.peerVerdict(q)
		ipv, why := m.ipVerdict(pr.IP)
		if why == "" {
			why = "none"
		}
		cm := &cmaddrs{local: localMA, remote: pr.MA}

		// address/subnet: "outbound dials are refused before any transport dial to a blocked ... address"
		want := either
		if ipv == yes {
			want = yes
		} else if ipv == no && pv == no {
			want = no
		}
		if pr.MA != nil { // InterceptAddrDial has no "no address" input
			if w := judge(want, g.InterceptAddrDial(q, pr.MA)); w != "" {
				return mk("InterceptAddrDial", w, why, pr, q, "")
			}
		}
		// "inbound connections are closed at accept (address/subnet)"
		wantAcc := either
		if ipv == yes {
			wantAcc = yes
		} else if ipv == no && localV == no {
			wantAcc = no
		}
		if w := judge(wantAcc, g.InterceptAccept(cm)); w != "" {
			return mk("InterceptAccept", w, why, pr, "", "")
		}
		// "... or right after the security handshake (peer)"
		wantSec := either
		if pv == yes {
			wantSec = yes
		} else if pv == no && ipv == no && localV == no {
			wantSec = no
		}
		if w := judge(wantSec, g.InterceptSecured(network.DirInbound, q, cm)); w != "" {
			k := why
			if pv == yes {
				k = "peer"
			}
			return mk("InterceptSecured(in)", w, k, pr, q, " peer "+shortPeer(q))
		}
		// gates the statement does not name for refusal: they must not refuse a remote nothing matches
		wantFree := either
		if pv == no && ipv == no && localV == no {
			wantFree = no
		}
		if w := judge(wantFree, g.InterceptSecured(network.DirOutbound, q, cm)); w != "" {
			return mk("InterceptSecured(out)", w, why, pr, q, " peer "+shortPeer(q))
		}
		dir := network.DirInbound
		if i%2 == 0 {
			dir = network.DirOutbound
		}
		allow, _ := g.InterceptUpgraded(&stubConn{cmaddrs: *cm, p: q, dir: dir})
		if w := judge(wantFree, allow); w != "" {
			return mk("InterceptUpgraded", w, why, pr, q, " peer "+shortPeer(q))
		}

		// path-class accounting
		switch ipv {
		case yes:
			st.add("must_refuse."+why, 1)
			st.add("must_refuse.form."+pr.Class, 1)
			if pr.Edge == "first" || pr.Edge == "last" {
				st.add("edge_inside_refused", 1)
			}
		case no:
			if pr.IP.IsValid() {
				st.add("must_allow.ip", 1)
				if pr.Edge == "before" || pr.Edge == "after" {
					st.add("edge_outside_allowed", 1)
				}
				if ever != nil {
					if ev, _ := ever.ipVerdict(pr.IP); ev == yes {
						st.add("allow_after_unblock.ip", 1)
					}
				}
			} else {
				st.add("must_allow.noip", 1)
			}
		default:
			st.add("either.ip."+why, 1)
		}
		if pv == yes {
			st.add("must_refuse.secured_inbound_peer", 1)
		}
	}
	st.add("compare_passes", 1)
	return nil
}
