package c17

import (
	"context"
	"fmt"
	"os"
	"time"

	"github.com/libp2p/go-libp2p/core/crypto"
	"github.com/libp2p/go-libp2p/core/host"
	"github.com/libp2p/go-libp2p/core/network"
	"github.com/libp2p/go-libp2p/core/peer"
	blankhost "github.com/libp2p/go-libp2p/p2p/host/blank"
	"github.com/libp2p/go-libp2p/p2p/host/observedaddrs"
	swarmt "github.com/libp2p/go-libp2p/p2p/net/swarm/testing"
	"github.com/libp2p/go-libp2p/p2p/protocol/identify"
	"github.com/libp2p/go-libp2p/p2p/protocol/identify/pb"
	"github.com/libp2p/go-msgio/pbio"
	ma "github.com/multiformats/go-multiaddr"
	manet "github.com/multiformats/go-multiaddr/net"

	"verif/harness/rig/run"
)

// wiring: the manager as it is wired in a host - a REAL swarm on loopback TCP, the REAL identify service
// and the REAL manager on the host's event bus - with ActivationThresh observers dialling from distinct
// loopback IPs (127.0.0.2 ...) that answer identify by hand and all report the same public address X.
// Steps (each judged after a bounded real-time wait; the positive control X-activated is REQUIRED, so a
// machine that cannot do this ends inconclusive, not silent):
//  1. all report X                          -> AddrsFor(listen) = [X]
//  2. one observer PUSHES a changed report Y on its open connection -> nothing is presented any more
//     ("a connection's report is withdrawn when it changes": 3 < threshold still report X)
//  3. it pushes X again                     -> [X] again
//  4. one observer disconnects              -> nothing
func wiring(r *run.R) {
	caseID := "wiring/real-identify-and-swarm"
	if !r.Want(caseID) || os.Getenv("VERIF_RACE") == "1" {
		return
	}
	noUDP := []swarmt.Option{swarmt.OptDisableQUIC, swarmt.OptDisableWebTransport, swarmt.OptDisableWebRTC}
	s1 := swarmt.GenSwarm(r.T, noUDP...)
	h1 := blankhost.NewBlankHost(s1)
	defer h1.Close()
	ids, err := identify.NewIDService(h1)
	if err != nil {
		r.Inconclusive(caseID, err.Error())
		return
	}
	ids.Start()
	defer ids.Close()
	mgr, err := observedaddrs.NewManager(h1.EventBus(), s1)
	if err != nil {
		r.Inconclusive(caseID, err.Error())
		return
	}
	mgr.Start(s1)
	defer mgr.Close()
	if len(s1.ListenAddresses()) != 1 {
		r.Inconclusive(caseID, fmt.Sprint("unexpected listen addresses ", s1.ListenAddresses()))
		return
	}
	local := s1.ListenAddresses()[0]
	X, Y := ma.StringCast("/ip4/1.2.3.4/tcp/1001"), ma.StringCast("/ip4/1.2.3.4/tcp/1002")
	write := func(s network.Stream, from host.Host, observed ma.Multiaddr) error {
		pk, err := crypto.MarshalPublicKey(from.Peerstore().PubKey(from.ID()))
		if err != nil {
			return err
		}
		pv, av := "ipfs/0.1.0", "verif-c17/0.0.1"
		mes := &pb.Identify{ProtocolVersion: &pv, AgentVersion: &av, PublicKey: pk, ObservedAddr: observed.Bytes(), Protocols: []string{identify.ID, identify.IDPush}}
		for _, a := range from.Addrs() {
			mes.ListenAddrs = append(mes.ListenAddrs, a.Bytes())
		}
		return pbio.NewDelimitedWriter(s).WriteMsg(mes)
	}
	ctx, cancel := context.WithTimeout(context.Background(), 60*time.Second)
	defer cancel()
	var observers []host.Host
	for i := 0; i < observedaddrs.ActivationThresh; i++ {
		s := swarmt.GenSwarm(r.T, append([]swarmt.Option{swarmt.OptDialOnly}, noUDP...)...)
		if err := s.Listen(ma.StringCast(fmt.Sprintf("/ip4/127.0.0.%d/tcp/0", i+2))); err != nil {
			r.Count("wiring_skipped_cannot_listen_on_distinct_loopback_ips", 1)
			return
		}
		h := blankhost.NewBlankHost(s)
		defer h.Close()
		h.SetStreamHandler(identify.ID, func(st network.Stream) {
			defer st.Close()
			write(st, h, X)
		})
		if err := h.Connect(ctx, peer.AddrInfo{ID: h1.ID(), Addrs: []ma.Multiaddr{local}}); err != nil {
			r.Inconclusive(caseID, "observer could not connect: "+err.Error())
			return
		}
		observers = append(observers, h)
	}
	await := func(d time.Duration, cond func() bool) bool {
		end := time.Now().Add(d)
		for time.Now().Before(end) {
			if cond() {
				return true
			}
			time.Sleep(20 * time.Millisecond)
		}
		return cond()
	}
	ips := map[string]bool{}
	await(10*time.Second, func() bool { return len(h1.Network().Conns()) == observedaddrs.ActivationThresh })
	for _, c := range h1.Network().Conns() {
		if ip, err := manet.ToIP(c.RemoteMultiaddr()); err == nil {
			ips[ip.String()] = true
		}
	}
	if len(ips) != observedaddrs.ActivationThresh {
		r.Count("wiring_skipped_observers_do_not_have_distinct_ips", 1)
		return
	}
	presented := func() []ma.Multiaddr { return append(mgr.AddrsFor(local), mgr.Addrs(0)...) }
	onlyX := func() bool {
		a := mgr.AddrsFor(local)
		return len(a) == 1 && a[0].Equal(X)
	}
	nothing := func() bool { return len(mgr.AddrsFor(local)) == 0 && len(mgr.Addrs(0)) == 0 }
	r.Eval(1)
	if !await(20*time.Second, onlyX) {
		r.Inconclusive(caseID, fmt.Sprint("positive control failed: four observers report X, presented ", presented()))
		return
	}
	r.Count("wiring_activated_by_real_identify", 1)
	push := func(from host.Host, observed ma.Multiaddr) error {
		ps, err := from.NewStream(ctx, h1.ID(), identify.IDPush)
		if err != nil {
			return err
		}
		if err := write(ps, from, observed); err != nil {
			ps.Reset()
			return err
		}
		return ps.Close()
	}
	detail := map[string]any{"listen": local.String(), "X": X.String(), "Y": Y.String(), "observers": observedaddrs.ActivationThresh}
	if err := push(observers[0], Y); err != nil {
		r.Inconclusive(caseID, "push failed: "+err.Error())
		return
	}
	r.Eval(1)
	if !await(20*time.Second, nothing) {
		detail["presented"] = fmt.Sprint(presented())
		r.Violation("wiring/changed-report-by-identify-push-not-withdrawn", caseID,
			fmt.Sprintf("one of %d observers pushed a changed report (Y) on its open connection; 20 s later the host still presents %v although only %d open connections report X", observedaddrs.ActivationThresh, presented(), observedaddrs.ActivationThresh-1), detail)
		return
	}
	r.Count("wiring_changed_report_withdrawn", 1)
	if err := push(observers[0], X); err == nil {
		r.Eval(1)
		if await(20*time.Second, onlyX) {
			r.Count("wiring_report_changed_back_counts_again", 1)
		} else {
			r.Count("wiring_report_changed_back_not_presented(counted)", 1) // under-reporting is not a violation of the statement
		}
	}
	observers[1].Network().ClosePeer(h1.ID())
	r.Eval(1)
	if !await(20*time.Second, nothing) {
		detail["presented"] = fmt.Sprint(presented())
		r.Violation("wiring/report-of-a-closed-connection-not-withdrawn", caseID, fmt.Sprintf("an observer disconnected; 20 s later the host still presents %v", presented()), detail)
		return
	}
	r.Count("wiring_closed_connection_withdrawn", 1)
	r.Nontrivial(caseID)
	closedListeners(r)
}

// closedListeners: "reports on connections not arriving at a listen address never count" - the manager
// learns what the listen addresses are from Network.InterfaceListenAddresses(). Once ListenClose has
// returned, the closed (wildcard) listener's resolved addresses must be gone from that answer, also when
// other goroutines were asking at the very moment of the close (the answer is cached by the swarm).
func closedListeners(r *run.R) {
	caseID := "wiring/closed-listener-leaves-interface-listen-addresses"
	if !r.Want(caseID) {
		return
	}
	s := swarmt.GenSwarm(r.T, swarmt.OptDialOnly, swarmt.OptDisableQUIC, swarmt.OptDisableWebTransport, swarmt.OptDisableWebRTC)
	defer s.Close()
	rounds := r.Pick(300, 3000)
	for i := 0; i < rounds; i++ {
		before := map[string]bool{}
		for _, a := range s.ListenAddresses() {
			before[a.String()] = true
		}
		if err := s.Listen(ma.StringCast("/ip4/0.0.0.0/tcp/0")); err != nil {
			r.Count("wiring_listen_failed", 1)
			continue
		}
		var la ma.Multiaddr
		for _, a := range s.ListenAddresses() {
			if !before[a.String()] {
				la = a
			}
		}
		if la == nil {
			continue
		}
		port, _ := la.ValueForProtocol(ma.P_TCP)
		stop := make(chan struct{})
		done := make(chan struct{})
		go func() {
			defer close(done)
			for {
				select {
				case <-stop:
					return
				default:
					s.InterfaceListenAddresses()
				}
			}
		}()
		s.InterfaceListenAddresses()
		s.ListenClose(la)
		close(stop)
		<-done
		r.Eval(1)
		after, _ := s.InterfaceListenAddresses()
		for _, a := range after {
			if p, err := a.ValueForProtocol(ma.P_TCP); err == nil && p == port {
				r.Violation("wiring/closed-listener-still-in-interface-listen-addresses", caseID,
					fmt.Sprintf("round %d: ListenClose(%s) has returned, InterfaceListenAddresses() still lists %s", i, la, a), map[string]any{"round": i, "closed": la.String(), "still_listed": a.String()})
				return
			}
		}
		r.Count("wiring_listen_close_rounds", 1)
	}
	r.Nontrivial(caseID)
}
