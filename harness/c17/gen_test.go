package c17

// History generator: a function of the PRNG only. Small universes so that collisions (same observer
// group, same observed thin waist, ties at the cut-off, threshold boundaries) are frequent.

import (
	"math/rand/v2"
	"net/netip"
)

func ip(s string) netip.Addr { return netip.MustParseAddr(s) }

var (
	ifaceV4 = []netip.Addr{ip("192.168.1.5"), ip("10.0.0.7")}
	ifaceV6 = []netip.Addr{ip("2001:db8:aa::5"), ip("fd00:aa::5")}

	// 12 remote IPs. IPv4: each address is its own observer group (two of them adjacent).
	// IPv6: 7 addresses in 4 groups: same /64, same /56 but another /64, the adjacent /56 (same /48).
	remoteV4 = []netip.Addr{ip("5.5.5.1"), ip("5.5.5.2"), ip("8.8.4.4"), ip("93.184.216.34"), ip("203.0.113.7")}
	remoteV6 = []netip.Addr{
		ip("2001:db8:1:100::1"), ip("2001:db8:1:100::2"), ip("2001:db8:1:1ff::3"), // one /56, two /64s
		ip("2001:db8:1:200::1"),                     // next /56, same /48
		ip("2a00:1450::5"), ip("2a00:1450:0:80::5"), // one /56, two /64s
		ip("2607:f8b0::9"),
	}
	remotePorts = []uint16{4001, 4002, 50001, 50002}

	// candidate externally observed (ip, port) pairs, most likely first
	poolV4 = []netip.AddrPort{
		netip.MustParseAddrPort("198.51.100.1:4001"), netip.MustParseAddrPort("198.51.100.1:31337"), // same IP, other port
		netip.MustParseAddrPort("198.51.100.2:4001"), netip.MustParseAddrPort("192.168.77.3:4001"), // private
		netip.MustParseAddrPort("100.64.0.3:1024"), netip.MustParseAddrPort("203.0.113.50:4002"),
	}
	poolV6 = []netip.AddrPort{
		netip.MustParseAddrPort("[2001:db8:ff::1]:4001"), netip.MustParseAddrPort("[2001:db8:ff::1]:5000"),
		netip.MustParseAddrPort("[2001:db8:fe::2]:4001"), netip.MustParseAddrPort("[fd12::3]:4001"), // ULA
		netip.MustParseAddrPort("[2a02:8071::7]:4002"), netip.MustParseAddrPort("[2001:db8:ff::2]:4001"),
	}
)

const certhash = "/certhash/uEgNmb28"

// fraction of histories in which a peer on a relayed connection reports a non-relay address
const liarFraction = 0.1

type gen struct {
	rng   *rand.Rand
	h     *history
	dense bool
	liar  bool // peers on relayed connections may report non-relay addresses in this history

	fam6       bool   // focus family
	focus      []addr // local addresses most connections arrive at
	locals     [2][]addr
	pool       [2][]netip.AddrPort
	open       []int
	closed     []int
	lastReport map[int]addr
	plan       map[int]netip.AddrPort // dense mode: the pool address a connection reports first
}

func b2i(b bool) int {
	if b {
		return 1
	}
	return 0
}

func (g *gen) pick(n int) int   { return g.rng.IntN(n) }
func (g *gen) p(x float64) bool { return g.rng.Float64() < x }

// genListen builds the listen addresses of one family.
func (g *gen) genListen(v6 bool, force bool) {
	mode := g.pick(100)
	if mode < 15 && !force {
		return // not listening on this family
	}
	ifs, unspec := ifaceV4, ip("0.0.0.0")
	if v6 {
		ifs, unspec = ifaceV6, ip("::")
	}
	ips := []netip.Addr{unspec}
	if mode >= 55 {
		ips = []netip.Addr{ifs[0]}
		if g.p(0.3) {
			ips = append(ips, ifs[1])
		}
	}
	tcpPort, udpPort := uint16(4001+g.pick(2)), uint16(4001+g.pick(2))
	tcp, quic := g.p(0.8), g.p(0.85)
	if !tcp && !quic {
		quic = true
	}
	wt, wtHash := quic && g.p(0.65), g.p(0.5)
	for _, a := range ips {
		if tcp {
			g.h.Listen = append(g.h.Listen, addr{Kind: "tw", TW: tw{a, false, tcpPort}})
		}
		if quic {
			g.h.Listen = append(g.h.Listen, addr{Kind: "tw", TW: tw{a, true, udpPort}, Rest: "/quic-v1"})
		}
		if wt {
			rest := "/quic-v1/webtransport"
			if wtHash {
				rest += certhash
			}
			g.h.Listen = append(g.h.Listen, addr{Kind: "tw", TW: tw{a, true, udpPort}, Rest: rest})
		}
	}
}

// localCandidates: local addresses a connection of this family can have: every interface address
// (and, for UDP, the unspecified address itself) x (listen ports of either protocol, the other
// well-known port, an ephemeral port) x transport.
func (g *gen) localCandidates(v6 bool) (listen, other []addr) {
	ifs, unspec := ifaceV4, ip("0.0.0.0")
	if v6 {
		ifs, unspec = ifaceV6, ip("::")
	}
	for _, a := range append([]netip.Addr{unspec}, ifs...) {
		for _, udp := range []bool{false, true} {
			if a.IsUnspecified() && !udp {
				continue
			}
			for _, port := range []uint16{4001, 4002, 50123} {
				rests := []string{""}
				if udp {
					rests = []string{"/quic-v1", "/quic-v1/webtransport"}
				}
				for _, rest := range rests {
					c := addr{Kind: "tw", TW: tw{a, udp, port}, Rest: rest}
					if g.h.arrivesAtListen(c.TW) {
						listen = append(listen, c)
					} else if !a.IsUnspecified() {
						other = append(other, c)
					}
				}
			}
		}
	}
	return
}

func generate(rng *rand.Rand, thresh int) *history {
	g := &gen{rng: rng, h: &history{Thresh: thresh}, lastReport: map[int]addr{}, plan: map[int]netip.AddrPort{}}
	g.h.Iface = append(append([]netip.Addr{}, ifaceV4...), ifaceV6...)
	g.fam6 = g.p(0.45)
	g.dense = g.p(0.2)
	g.liar = g.p(liarFraction)
	g.genListen(false, !g.fam6)
	g.genListen(true, g.fam6)
	if g.p(0.3) {
		g.h.Listen = append(g.h.Listen, addr{Kind: "circuit-only"})
	}
	var others [2][]addr
	for f := 0; f < 2; f++ {
		g.locals[f], others[f] = g.localCandidates(f == 1)
		src := poolV4
		if f == 1 {
			src = poolV6
		}
		k := 2 + g.pick(5)
		if g.dense {
			k = 4 + g.pick(2)
		}
		g.pool[f] = src[:k]
	}
	fl := g.locals[b2i(g.fam6)]
	nf := 1 + g.pick(2)
	if g.dense {
		nf = 1
	}
	for i := 0; i < nf; i++ {
		g.focus = append(g.focus, fl[g.pick(len(fl))])
	}

	n := 20 + g.pick(131)
	if g.dense {
		n = 90 + g.pick(61)
	}
	maxConns := 10 + n/3
	for len(g.h.Events) < n {
		r := g.rng.Float64()
		pNew := 0.45
		if g.dense {
			pNew = 0.6
		}
		if len(g.h.Conns) >= maxConns {
			pNew = 0
		}
		pClose := 0.2
		if g.dense {
			pClose = 0.07
		}
		switch {
		case len(g.open) == 0 || r < pNew:
			c := g.newConn(others)
			g.report(c)
		case r < pNew+(1-pNew)*0.55:
			g.report(g.open[g.pick(len(g.open))])
		case r < pNew+(1-pNew)*(0.55+pClose):
			i := g.pick(len(g.open))
			c := g.open[i]
			g.open = append(g.open[:i], g.open[i+1:]...)
			g.closed = append(g.closed, c)
			if g.p(0.35) {
				// the close lands while a (generated as usual) report of that connection is in flight
				g.report(c)
				rep := g.h.Events[len(g.h.Events)-1]
				g.h.Events[len(g.h.Events)-1] = hevent{Kind: "close", Conn: c, Racing: true, RaceObs: rep.Obs, Class: rep.Class}
			} else {
				g.h.Events = append(g.h.Events, hevent{Kind: "close", Conn: c})
			}
		case r < pNew+(1-pNew)*(0.63+pClose) && len(g.closed) > 0:
			// report on an already closed connection (identify finishing late)
			g.report(g.closed[g.pick(len(g.closed))])
		case r < pNew+(1-pNew)*(0.66+pClose) && len(g.closed) > 0:
			g.h.Events = append(g.h.Events, hevent{Kind: "redisconnect", Conn: g.closed[g.pick(len(g.closed))]})
		case r < pNew+(1-pNew)*(0.68+pClose):
			g.h.Events = append(g.h.Events, hevent{Kind: "sleep", Conn: -1})
		case r < pNew+(1-pNew)*(0.69+pClose):
			o, class := g.goodObs(addr{Kind: "tw", TW: tw{ifaceV4[0], false, 4001}})
			g.h.Events = append(g.h.Events, hevent{Kind: "report", Conn: -1, Obs: o, Class: "nil-conn/" + class})
		default:
			g.report(g.open[g.pick(len(g.open))])
		}
	}
	if g.p(0.3) { // drain: everything must be withdrawn again
		for _, c := range g.open {
			g.h.Events = append(g.h.Events, hevent{Kind: "close", Conn: c})
		}
	}
	return g.h
}

func (g *gen) newConn(others [2][]addr) int {
	v6 := g.fam6
	if g.p(0.15) && len(g.locals[b2i(!g.fam6)]) > 0 {
		v6 = !v6
	}
	f := b2i(v6)
	var local addr
	switch r := g.rng.Float64(); {
	case v6 == g.fam6 && (r < 0.7 || g.dense && r < 0.9):
		local = g.focus[g.pick(len(g.focus))]
	case r < 0.85 || len(others[f]) == 0:
		local = g.locals[f][g.pick(len(g.locals[f]))]
	default:
		local = others[f][g.pick(len(others[f]))] // not arriving at a listen address
	}
	rips := remoteV4
	if v6 {
		rips = remoteV6
	}
	rip := rips[g.pick(len(rips))]
	id := len(g.h.Conns)
	if g.dense && g.p(0.75) {
		// walk observer x pool-address systematically so that several addresses collect many groups
		rip = rips[id%len(rips)]
		pool := g.pool[f]
		g.plan[id] = pool[(id/len(rips))%len(pool)]
	}
	remote := addr{Kind: "tw", TW: tw{rip, local.TW.UDP, remotePorts[g.pick(len(remotePorts))]}, Rest: local.Rest}
	if g.p(0.07) {
		remote.Circuit = true // connection through a relay: the "remote" is the relay's address
	}
	g.h.Conns = append(g.h.Conns, connSpec{ID: id, Local: local, Remote: remote})
	g.open = append(g.open, id)
	return id
}

// goodObs: an external address of the connection's own family and protocol from the history's pool.
func (g *gen) goodObs(local addr) (addr, string) {
	pool := g.pool[b2i(local.TW.IP.Is6())]
	// skewed choice: earlier pool entries are more likely (unless dense: uniform, to fill > 3 addresses)
	i := g.pick(len(pool))
	if !g.dense {
		i = min(i, g.pick(len(pool)))
	}
	o := addr{Kind: "tw", TW: tw{pool[i].Addr(), local.TW.UDP, pool[i].Port()}, Rest: local.Rest}
	class := "public"
	if pool[i].Addr().IsPrivate() {
		class = "private"
	}
	if g.p(0.08) { // same thin waist, other upper layers: the statement is about thin waists
		if o.Rest == "" {
			o.Rest = "/ws"
		} else if o.Rest == "/quic-v1" {
			o.Rest = "/quic-v1/webtransport"
		} else {
			o.Rest = ""
		}
		class += "+other-suffix"
	}
	return o, class
}

func (g *gen) report(c int) {
	cs := g.h.Conns[c]
	local := cs.Local
	v6 := local.TW.IP.Is6()
	var o addr
	var class string
	last, has := g.lastReport[c]
	pGood := 0.72
	if g.dense {
		pGood = 0.9
	}
	planned, isPlanned := g.plan[c]
	switch r := g.rng.Float64(); {
	case !has && isPlanned && !cs.Remote.Circuit:
		o, class = addr{Kind: "tw", TW: tw{planned.Addr(), local.TW.UDP, planned.Port()}, Rest: local.Rest}, "public"
	case has && r < 0.25:
		o, class = last, "repeat"
	case cs.Remote.Circuit && (r < 0.6 || !g.liar):
		// what an honest peer sees of us through a relay: the relay's address + /p2p-circuit
		o, class = addr{Kind: "tw", TW: tw{cs.Remote.TW.IP, local.TW.UDP, cs.Remote.TW.Port}, Rest: local.Rest, Circuit: true}, "relay-observed"
		if r > 0.9 {
			o, class = addr{Kind: "nil"}, "nil"
		}
	case r < pGood+0.03:
		o, class = g.goodObs(local)
	default:
		o, class = g.oddObs(local, v6)
	}
	g.lastReport[c] = o
	g.h.Events = append(g.h.Events, hevent{Kind: "report", Conn: c, Obs: o, Class: class})
}

// oddObs: the classes that must never count, plus "our own local address" (no NAT), which does.
func (g *gen) oddObs(local addr, v6 bool) (addr, string) {
	good, _ := g.goodObs(local)
	good.Rest = local.Rest
	if v6 && g.p(0.12) {
		// a loopback or NAT64 address spelled with a zone in front: still loopback, still NAT64
		good.Zone = []string{"eth0", "1"}[g.pick(2)]
		if g.p(0.7) {
			good.TW.IP = ip("64:ff9b::c633:6401")
			return good, "nat64-zoned"
		}
		good.TW.IP = ip("::1")
		return good, "loopback-zoned"
	}
	switch g.pick(11) {
	case 0:
		if !local.TW.IP.IsUnspecified() {
			return local, "own-local-address"
		}
		fallthrough
	case 1:
		lo := ip("127.0.0.1")
		if v6 {
			lo = ip("::1")
		} else if g.p(0.4) {
			lo = ip("127.8.9.10")
		}
		good.TW.IP = lo
		return good, "loopback"
	case 2:
		good.TW.IP = ip("64:ff9b::c633:6401") // 198.51.100.1 seen through NAT64
		if g.p(0.3) {
			good.TW.IP = ip("64:ff9b::808:404")
		}
		return good, "nat64"
	case 3:
		good.Circuit = true
		return good, "relay-observed"
	case 4:
		good.TW.UDP = !good.TW.UDP
		if good.TW.UDP {
			good.Rest = "/quic-v1"
		} else {
			good.Rest = ""
		}
		return good, "wrong-l4"
	case 5:
		p := g.pool[b2i(!v6)]
		good.TW.IP = p[g.pick(len(p))].Addr()
		return good, "wrong-ip-version"
	case 6:
		good.Kind = "bare-ip"
		return good, "bare-ip"
	case 7:
		good.Kind = "dns"
		return good, "dns"
	case 8:
		return addr{Kind: "nil"}, "nil"
	case 9:
		return addr{Kind: "circuit-only"}, "circuit-only"
	}
	good.TW.Port = 9 + uint16(g.pick(3)) // a port nobody else reports
	return good, "public-rare-port"
}
