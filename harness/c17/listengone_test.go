package c17

import (
	"errors"
	"fmt"
	"slices"
	"sync/atomic"
	"testing"
	"testing/synctest"

	"github.com/libp2p/go-libp2p/core/event"
	"github.com/libp2p/go-libp2p/p2p/host/eventbus"
	"github.com/libp2p/go-libp2p/p2p/host/observedaddrs"
	ma "github.com/multiformats/go-multiaddr"

	"verif/harness/rig/run"
)

// flakyNet: a fakeNet whose listener set changes and whose interface lookup can fail
type flakyNet struct {
	fakeNet
	fail    atomic.Bool
	lookups atomic.Int64
	failed  atomic.Int64
}

func (n *flakyNet) ListenAddresses() []ma.Multiaddr {
	n.mu.Lock()
	defer n.mu.Unlock()
	return slices.Clone(n.la)
}

func (n *flakyNet) InterfaceListenAddresses() ([]ma.Multiaddr, error) {
	n.lookups.Add(1)
	if n.fail.Load() {
		n.failed.Add(1)
		return nil, errors.New("verif: interface enumeration failed")
	}
	n.mu.Lock()
	defer n.mu.Unlock()
	return slices.Clone(n.ila), nil
}

func (n *flakyNet) set(la, ila []ma.Multiaddr) {
	n.mu.Lock()
	n.la, n.ila = la, ila
	n.mu.Unlock()
}

// listenerGone: "reports on connections not arriving at a listen address never count" when the set of
// listen addresses CHANGES and the interface lookup fails afterwards. Observers report X on connections
// arriving at a (wildcard, resolved) listener: X is presented. The listener is closed - the connections
// stay open - and from then on Network.InterfaceListenAddresses() returns an error (or, control, the empty
// answer). The same observers now report Y: no connection arrives at a listen address any more, so Y must
// never be presented, whatever the host last knew about its interfaces.
func listenerGone(r *run.R) {
	for _, lookup := range []string{"fails", "answers-empty", "fails-then-recovers-empty"} {
		for _, udp := range []bool{false, true} {
			caseID := fmt.Sprintf("listener-gone/lookup-%s/udp=%v", lookup, udp)
			if !r.Want(caseID) {
				continue
			}
			var presentedX bool
			var presentedY []string
			var failedLookups int64
			b := run.Bubble(r.T, func(*testing.T) {
				l4, rest := "tcp", ""
				if udp {
					l4, rest = "udp", "/quic-v1"
				}
				wild := ma.StringCast(fmt.Sprintf("/ip4/0.0.0.0/%s/4001%s", l4, rest))
				local := ma.StringCast(fmt.Sprintf("/ip4/192.168.1.5/%s/4001%s", l4, rest))
				X := ma.StringCast(fmt.Sprintf("/ip4/1.2.3.4/%s/1001%s", l4, rest))
				Y := ma.StringCast(fmt.Sprintf("/ip4/1.2.3.4/%s/1002%s", l4, rest))
				fn := &flakyNet{}
				fn.set([]ma.Multiaddr{wild}, []ma.Multiaddr{local})
				bus := eventbus.NewBus()
				m, err := observedaddrs.NewManager(bus, fn)
				if err != nil {
					panic(err)
				}
				m.Start(fn)
				defer m.Close()
				em, err := bus.Emitter(new(event.EvtPeerIdentificationCompleted))
				if err != nil {
					panic(err)
				}
				defer em.Close()
				n := observedaddrs.ActivationThresh + 1
				var conns []*fakeConn
				for i := 0; i < n; i++ {
					c := &fakeConn{id: 9000 + i, local: local, remote: ma.StringCast(fmt.Sprintf("/ip4/8.%d.7.6/%s/%d%s", 10+i, l4, 5000+i, rest))}
					conns = append(conns, c)
					em.Emit(event.EvtPeerIdentificationCompleted{ObservedAddr: X, Conn: c})
				}
				synctest.Wait()
				for _, a := range m.AddrsFor(local) {
					presentedX = presentedX || a.Equal(X)
				}
				// the listener goes away, its connections stay
				fn.set(nil, nil)
				if lookup != "answers-empty" {
					fn.fail.Store(true)
				}
				for round := 0; round < 2; round++ {
					for _, c := range conns {
						em.Emit(event.EvtPeerIdentificationCompleted{ObservedAddr: Y, Conn: c})
					}
					synctest.Wait()
					for _, q := range [][]ma.Multiaddr{m.AddrsFor(local), m.AddrsFor(wild), m.Addrs(0), m.Addrs(1)} {
						for _, a := range q {
							if a.Equal(Y) {
								presentedY = append(presentedY, fmt.Sprintf("round %d: %s", round, a))
							}
						}
					}
					if lookup == "fails-then-recovers-empty" {
						fn.fail.Store(false)
					}
				}
				failedLookups = fn.failed.Load()
			})
			r.Eval(1)
			detail := map[string]any{"lookup": lookup, "udp": udp, "X_presented_while_the_listener_existed": presentedX, "Y_presented": presentedY, "failed_lookups": failedLookups}
			if r.BubbleFailed(b, "listener-gone", caseID, "the manager never wound down", detail) {
				continue
			}
			if presentedX {
				r.Count("listener_gone_cases_with_X_presented_first", 1)
			}
			if failedLookups > 0 {
				r.Count("listener_gone_failed_interface_lookups", int(failedLookups))
			}
			if len(presentedY) > 0 {
				r.Violation("listener-gone/report-on-connection-not-arriving-at-a-listen-address-counted/lookup-"+lookup, caseID,
					fmt.Sprintf("the listener was closed (no listen address left, interface lookup %s); reports of Y on its still open connections made the host present %v", lookup, presentedY), detail)
				continue
			}
			r.Nontrivial(caseID)
		}
	}
	r.Require("listener_gone_cases_with_X_presented_first", 4)
	r.Require("listener_gone_failed_interface_lookups", 4)
}
