package c17

// Reference model for C17, written from the property statement. It works on its own structured
// address representation (netip + flags) and never calls the multiaddr/manet classification helpers
// the implementation uses; multiaddr is used only to render and to normalise strings for comparison.

import (
	"fmt"
	"net/netip"
	"sort"

	ma "github.com/multiformats/go-multiaddr"
)

// tw is a thin waist: IP + transport protocol + port.
type tw struct {
	IP   netip.Addr
	UDP  bool
	Port uint16
}

func (t tw) String() string {
	fam, l4 := "ip4", "tcp"
	if t.IP.Is6() {
		fam = "ip6"
	}
	if t.UDP {
		l4 = "udp"
	}
	return fmt.Sprintf("/%s/%s/%s/%d", fam, t.IP, l4, t.Port)
}

const relayPeer = "12D3KooWQYhTNQdmr3ArTeUHRYzFg94BKyTkoWBDWez9kSCVe2Xo"

// addr is a generated address. Kind "tw": thin waist + Rest (+ circuit suffix); the other kinds are
// not transport addresses at all.
type addr struct {
	Kind    string // "tw" | "bare-ip" | "dns" | "circuit-only" | "nil"
	TW      tw
	Rest    string // what follows the thin waist, e.g. "/quic-v1/webtransport"
	Circuit bool   // followed by /p2p/<relay>/p2p-circuit
	Zone    string // "/ip6zone/<Zone>" in front (IPv6 only): another spelling of the same address
}

func (a addr) String() string {
	switch a.Kind {
	case "nil":
		return "<nil>"
	case "bare-ip":
		if a.TW.IP.Is6() {
			return "/ip6/" + a.TW.IP.String()
		}
		return "/ip4/" + a.TW.IP.String()
	case "dns":
		return fmt.Sprintf("/dns4/example.com/tcp/%d", a.TW.Port)
	case "circuit-only":
		return "/p2p-circuit"
	}
	s := a.TW.String() + a.Rest
	if a.Zone != "" && a.TW.IP.Is6() {
		s = "/ip6zone/" + a.Zone + s
	}
	if a.Circuit {
		s += "/p2p/" + relayPeer + "/p2p-circuit"
	}
	return s
}

func (a addr) multiaddr() ma.Multiaddr {
	if a.Kind == "nil" {
		return nil
	}
	return ma.StringCast(a.String())
}

type connSpec struct {
	ID     int
	Local  addr // our end of the connection
	Remote addr // the observer's end; Circuit=true for a connection through a relay
}

type hevent struct {
	Kind  string // "report" | "close" | "redisconnect" | "sleep"
	Conn  int    // -1: nil connection (report only)
	Obs   addr
	Class string // generator's label, used for counters and witnesses only — never by the oracle
	// a "close" that happens WHILE a report of the same connection is being processed: the connection is
	// closed and the Disconnected notification delivered from inside the manager's own LocalMultiaddr()
	// call for that report (i.e. after its early checks, before it takes its lock). For the statement this
	// is a close: "a connection's report is withdrawn when the connection closes" - nothing of it counts.
	Racing  bool
	RaceObs addr
}

type history struct {
	Thresh int
	Listen []addr       // network.ListenAddresses()
	Iface  []netip.Addr // interface addresses unspecified listen addresses resolve to
	Conns  []connSpec
	Events []hevent
}

// resolved is what network.InterfaceListenAddresses() returns for this history: unspecified listen
// addresses expanded to every interface address of the same family, specific ones unchanged.
func (h *history) resolved() []addr {
	var out []addr
	for _, l := range h.Listen {
		if l.Kind != "tw" || !l.TW.IP.IsUnspecified() {
			out = append(out, l)
			continue
		}
		for _, ip := range h.Iface {
			if ip.Is4() == l.TW.IP.Is4() {
				r := l
				r.TW.IP = ip
				out = append(out, r)
			}
		}
	}
	return out
}

// queryAddrs: distinct local addresses, in the order ListenAddresses ++ InterfaceListenAddresses.
func (h *history) queryAddrs() []addr {
	seen := map[string]bool{}
	var out []addr
	for _, l := range append(append([]addr{}, h.Listen...), h.resolved()...) {
		if s := l.String(); !seen[s] {
			seen[s] = true
			out = append(out, l)
		}
	}
	return out
}

// variant relaxes exactly one rule of the statement. The zero value is the statement itself. Variants
// are never used to accept anything: after a violation they only name, for the signature, which
// single departure from the statement would explain what the implementation returned.
type variant struct {
	name                             string
	relayObs, loopback, nat64        bool // filter removed
	transport, nonListen, closedConn bool // filter removed
	countConns                       bool // one observer per connection
	v6bits                           int  // IPv6 group prefix length (0 = 56)
	keepOnChange, keepOnClose        bool // report not withdrawn
	threshDelta                      int
	ascending                        bool
	limit                            int // 0 = 3, <0 = unlimited
}

var variants = []variant{
	{name: "relay-observed-credited", relayObs: true},
	{name: "loopback-credited", loopback: true},
	{name: "nat64-credited", nat64: true},
	{name: "inconsistent-transport-credited", transport: true},
	{name: "non-listen-local-credited", nonListen: true},
	{name: "closed-conn-credited", closedConn: true},
	{name: "counts-conns-not-groups", countConns: true},
	{name: "ipv6-group-64", v6bits: 64},
	{name: "ipv6-group-128", v6bits: 128},
	{name: "ipv6-group-48", v6bits: 48},
	{name: "not-withdrawn-on-change", keepOnChange: true},
	{name: "not-withdrawn-on-close", keepOnClose: true},
	{name: "threshold+1", threshDelta: 1},
	{name: "threshold-1", threshDelta: -1},
	{name: "sorted-ascending", ascending: true},
	{name: "limit-2", limit: 2},
	{name: "limit-4", limit: 4},
	{name: "no-limit", limit: -1},
}

func (v variant) lim() int {
	switch {
	case v.limit == 0:
		return 3 // "at most three observed addresses are reported per local address"
	case v.limit < 0:
		return 1 << 30
	}
	return v.limit
}

var nat64Prefix = netip.MustParsePrefix("64:ff9b::/96")

// observerGroup: "distinct observers - counted once per IPv4 address or IPv6 /56". The observer is
// the remote end of the connection; for a connection through a relay that is the relay (decision
// recorded in TestC17's assumptions: "relayed" in the statement is a class of REPORTED address).
func observerGroup(c connSpec, v variant) string {
	if v.countConns {
		return fmt.Sprint("conn", c.ID)
	}
	ip := c.Remote.TW.IP
	if ip.Is4() {
		return ip.String()
	}
	bits := 56
	if v.v6bits != 0 {
		bits = v.v6bits
	}
	p, _ := ip.Prefix(bits)
	return p.String()
}

// arrivesAtListen: the connection's local thin waist is one we listen on; an unspecified listen
// address stands for every interface address of its family (and for itself: UDP transports hand out
// connections whose local address is the unspecified listen address).
func (h *history) arrivesAtListen(local tw) bool {
	for _, l := range h.Listen {
		if l.Kind != "tw" || l.TW.UDP != local.UDP || l.TW.Port != local.Port {
			continue
		}
		if l.TW.IP == local.IP {
			return true
		}
		if l.TW.IP.IsUnspecified() && l.TW.IP.Is4() == local.IP.Is4() {
			for _, ip := range h.Iface {
				if ip == local.IP {
					return true
				}
			}
		}
	}
	return false
}

// rejected returns why a report never counts ("" = it counts):
// "reports that are loopback, NAT64 or relayed, reports for a transport inconsistent with the local
// address, and reports on connections not arriving at a listen address never count".
func (h *history) rejected(c connSpec, o addr, v variant) string {
	switch {
	case o.Kind != "tw":
		return "not-a-transport-address"
	case o.Circuit && !v.relayObs:
		return "relay-observed"
	case o.TW.IP.IsLoopback() && !v.loopback:
		return "loopback"
	case nat64Prefix.Contains(o.TW.IP) && !v.nat64:
		return "nat64"
	case o.TW.UDP != c.Local.TW.UDP && !v.transport:
		return "wrong-l4"
	case o.TW.IP.Is4() != c.Local.TW.IP.Is4() && !v.transport:
		return "wrong-ip-version"
	case !h.arrivesAtListen(c.Local.TW) && !v.nonListen:
		return "not-a-listen-address"
	}
	return ""
}

// counts recomputes from scratch, from the first n events only: local thin waist -> observed thin
// waist -> number of distinct observer groups among currently open connections' latest counted report.
func (h *history) counts(n int, v variant) map[tw]map[tw]tally {
	type cstate struct {
		closed bool
		obs    []tw // the latest counted report (several only under keepOnChange)
	}
	st := make([]cstate, len(h.Conns))
	for _, ev := range h.Events[:n] {
		if ev.Conn < 0 {
			continue
		}
		s := &st[ev.Conn]
		switch ev.Kind {
		case "report":
			if s.closed && !v.closedConn {
				continue // a report on a closed connection: not an open connection
			}
			if h.rejected(h.Conns[ev.Conn], ev.Obs, v) != "" {
				continue
			}
			if v.keepOnChange {
				s.obs = append(s.obs, ev.Obs.TW)
			} else {
				s.obs = []tw{ev.Obs.TW} // "A connection's report is withdrawn when it changes"
			}
		case "close":
			s.closed = true
			if !v.keepOnClose {
				s.obs = nil // "... or the connection closes"
			}
		}
	}
	groups := map[tw]map[tw]map[string]int{}
	for i, s := range st {
		c := h.Conns[i]
		for _, o := range s.obs {
			l := c.Local.TW
			if groups[l] == nil {
				groups[l] = map[tw]map[string]int{}
			}
			if groups[l][o] == nil {
				groups[l][o] = map[string]int{}
			}
			groups[l][o][observerGroup(c, v)]++ // "repeated reports from one observer group" count once
		}
	}
	out := map[tw]map[tw]tally{}
	for l, m := range groups {
		out[l] = map[tw]tally{}
		for o, g := range m {
			t := tally{Groups: len(g)}
			for _, k := range g {
				t.Conns += k
			}
			out[l][o] = t
		}
	}
	return out
}

// tally: distinct observer groups (what the statement counts) and connections (for counters only).
type tally struct{ Groups, Conns int }

type joinKey struct {
	o    tw
	rest string
}

// joiner renders "observed thin waist + the listen address's suffix" the way the multiaddr library
// prints it (cache per execution).
type joiner map[joinKey]string

func (j joiner) join(o tw, rest string) string {
	k := joinKey{o, rest}
	if s, ok := j[k]; ok {
		return s
	}
	s := ma.StringCast(o.String() + rest).String()
	j[k] = s
	return s
}

// forListen: full address -> observer count for one local listen address (observed thin waist
// re-joined with the listen address's own suffix).
func (j joiner) forListen(cnt map[tw]map[tw]tally, l addr) map[string]int {
	if l.Kind != "tw" || len(cnt[l.TW]) == 0 {
		return nil
	}
	out := make(map[string]int, len(cnt[l.TW]))
	for o, n := range cnt[l.TW] {
		out[j.join(o, l.Rest)] = n.Groups
	}
	return out
}

// judge decides one returned list against the statement, with ties left free: every returned address
// has at least thresh observer groups, no duplicates, length min(limit, #eligible), sorted by observer
// count (most-observed first), and no omitted eligible address has strictly more observers than a
// returned one. Returns "" or (clause, message).
func judge(got []string, cnt map[string]int, thresh int, v variant) (string, string) {
	thresh += v.threshDelta
	if thresh < 1 {
		thresh = 1
	}
	elig := 0
	for _, n := range cnt {
		if n >= thresh {
			elig++
		}
	}
	want := min(v.lim(), elig)
	seen := map[string]bool{}
	minGot := 1 << 30
	for i, g := range got {
		n, ok := cnt[g]
		switch {
		case seen[g]:
			return "duplicate-address", fmt.Sprintf("%s returned twice", g)
		case !ok:
			return "uncredited-address-reported", fmt.Sprintf("%s is reported but no counted report vouches for it", g)
		case n < thresh:
			return "below-threshold-reported", fmt.Sprintf("%s is reported with %d observer group(s), threshold %d", g, n, thresh)
		}
		seen[g] = true
		if i > 0 {
			prev := cnt[got[i-1]]
			if (!v.ascending && prev < n) || (v.ascending && prev > n) {
				return "not-most-observed-first", fmt.Sprintf("%s (%d) is listed before %s (%d)", got[i-1], prev, g, n)
			}
		}
		minGot = min(minGot, n)
	}
	if len(got) > want {
		return "more-than-three-reported", fmt.Sprintf("%d addresses reported for one local address, limit %d", len(got), v.lim())
	}
	if len(got) < want {
		return "eligible-address-missing", fmt.Sprintf("%d address(es) reported, %d have >= %d observer groups (limit %d)", len(got), elig, thresh, v.lim())
	}
	if !v.ascending {
		for a, n := range cnt {
			if n >= thresh && !seen[a] && n > minGot {
				return "omitted-address-has-more-observers", fmt.Sprintf("%s (%d observer groups) omitted although an address with %d is reported", a, n, minGot)
			}
		}
	}
	return "", ""
}

// judgeAll decides the concatenated list Addrs(k): one segment per distinct local listen address.
// The segment order (listen-address order) is not part of the statement, so if the in-order reading
// fails an order-free assignment of the returned multiset to the listen addresses is searched.
// fallback reports that the order-free reading was needed.
func judgeAll(got []string, per []map[string]int, thresh int, v variant) (clause, msg string, fallback bool) {
	t := max(thresh+v.threshDelta, 1)
	total := 0
	need := make([]int, len(per))
	for i, cnt := range per {
		for _, n := range cnt {
			if n >= t {
				need[i]++
			}
		}
		need[i] = min(need[i], v.lim())
		total += need[i]
	}
	// in-order reading
	if len(got) == total {
		off, ok := 0, true
		for i, cnt := range per {
			if c, _ := judge(got[off:off+need[i]], cnt, thresh, v); c != "" {
				ok = false
				break
			}
			off += need[i]
		}
		if ok {
			return "", "", false
		}
	}
	// first complaint of the in-order reading, for the message
	off := 0
	for i, cnt := range per {
		end := min(off+need[i], len(got))
		if c, m := judge(got[off:end], cnt, thresh, v); c != "" && clause == "" {
			clause, msg = c, m
		}
		off = end
	}
	if clause == "" {
		clause, msg = "too-many-addresses", fmt.Sprintf("%d addresses returned, %d expected over all local addresses", len(got), total)
		if len(got) < total {
			clause = "eligible-address-missing"
		}
	}
	if len(got) != total {
		return clause, msg, false
	}
	// order-free reading
	remaining := map[string]int{}
	for _, g := range got {
		remaining[g]++
	}
	if assign(per, need, 0, remaining, t) {
		return "", "", true
	}
	return clause, msg, false
}

// assign: can the remaining multiset be split into one valid top-need[i] selection per listen address?
func assign(per []map[string]int, need []int, i int, remaining map[string]int, thresh int) bool {
	if i == len(per) {
		for _, n := range remaining {
			if n != 0 {
				return false
			}
		}
		return true
	}
	if need[i] == 0 {
		return assign(per, need, i+1, remaining, thresh)
	}
	type cand struct {
		a string
		n int
	}
	var el []cand
	for a, n := range per[i] {
		if n >= thresh {
			el = append(el, cand{a, n})
		}
	}
	sort.Slice(el, func(x, y int) bool { return el[x].n > el[y].n || (el[x].n == el[y].n && el[x].a < el[y].a) })
	cut := el[need[i]-1].n
	var must, ties []string
	for _, c := range el {
		if c.n > cut {
			must = append(must, c.a)
		} else if c.n == cut {
			ties = append(ties, c.a)
		}
	}
	for _, a := range must {
		if remaining[a] == 0 {
			return false
		}
	}
	for _, a := range must {
		remaining[a]--
	}
	ok := chooseTies(ties, need[i]-len(must), 0, remaining, func() bool { return assign(per, need, i+1, remaining, thresh) })
	for _, a := range must {
		remaining[a]++
	}
	return ok
}

func chooseTies(ties []string, k, from int, remaining map[string]int, cont func() bool) bool {
	if k == 0 {
		return cont()
	}
	for j := from; j <= len(ties)-k; j++ {
		if remaining[ties[j]] == 0 {
			continue
		}
		remaining[ties[j]]--
		ok := chooseTies(ties, k-1, j+1, remaining, cont)
		remaining[ties[j]]++
		if ok {
			return true
		}
	}
	return false
}
