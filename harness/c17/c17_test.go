// C17 — Observed addresses are advertised only with enough independent observers.
//
// Rig: the REAL observedaddrs.Manager (NewManager + Start) on a fake network.Network and the real
// event bus inside a testing/synctest bubble. One EvtPeerIdentificationCompleted (or one Disconnected
// notification) at a time, synctest.Wait() in between, so the bounded worker queue never drops.
// Oracle: after EVERY event AddrsFor(l) for every local listen address and Addrs(0), Addrs(1), Addrs(k)
// are compared with a from-scratch recomputation from the history (model_test.go), ties left free.
package c17

import (
	"fmt"
	"hash/fnv"
	"os"
	"runtime"
	"runtime/debug"
	"slices"
	"sort"
	"strings"
	"sync"
	"sync/atomic"
	"testing"
	"testing/synctest"
	"time"

	"github.com/libp2p/go-libp2p/core/event"
	"github.com/libp2p/go-libp2p/core/network"
	"github.com/libp2p/go-libp2p/p2p/host/eventbus"
	"github.com/libp2p/go-libp2p/p2p/host/observedaddrs"
	ma "github.com/multiformats/go-multiaddr"

	"verif/harness/rig/run"
)

// ---- fakes -------------------------------------------------------------------------------------

// fakeNet implements the part of network.Network the Manager uses; anything else panics (nil embed).
type fakeNet struct {
	network.Network
	la, ila []ma.Multiaddr

	mu        sync.Mutex
	notifiees []network.Notifiee
}

// fresh slices on every call, like the swarm: the Manager overwrites elements of what it gets.
func (n *fakeNet) ListenAddresses() []ma.Multiaddr { return slices.Clone(n.la) }
func (n *fakeNet) InterfaceListenAddresses() ([]ma.Multiaddr, error) {
	return slices.Clone(n.ila), nil
}
func (n *fakeNet) Notify(f network.Notifiee) {
	n.mu.Lock()
	n.notifiees = append(n.notifiees, f)
	n.mu.Unlock()
}
func (n *fakeNet) StopNotify(f network.Notifiee) {
	n.mu.Lock()
	n.notifiees = slices.DeleteFunc(n.notifiees, func(x network.Notifiee) bool { return x == f })
	n.mu.Unlock()
}
func (n *fakeNet) disconnected(c network.Conn) {
	n.mu.Lock()
	fs := slices.Clone(n.notifiees)
	n.mu.Unlock()
	for _, f := range fs {
		f.Disconnected(n, c)
	}
}

type fakeConn struct {
	network.Conn
	id            int
	local, remote ma.Multiaddr
	closed        atomic.Bool
	onLocal       atomic.Pointer[func()] // one-shot: runs inside the next LocalMultiaddr() call
}

func (c *fakeConn) LocalMultiaddr() ma.Multiaddr {
	if f := c.onLocal.Swap(nil); f != nil {
		(*f)()
	}
	return c.local
}
func (c *fakeConn) RemoteMultiaddr() ma.Multiaddr { return c.remote }
func (c *fakeConn) IsClosed() bool                { return c.closed.Load() }
func (c *fakeConn) ID() string                    { return fmt.Sprint("c", c.id) }
func (c *fakeConn) String() string {
	return fmt.Sprintf("<conn c%d %s <- %s>", c.id, c.local, c.remote)
}

// ---- one execution -----------------------------------------------------------------------------

type failure struct {
	Step       int
	Observable string
	Clause     string
	Msg        string
	Got        []string
	Explained  string
}

// outputs of the manager after one event
type outputs struct {
	for_ [][]string       // AddrsFor(q) per query address
	all  map[int][]string // Addrs(k)
}

type stats map[string]int

type exec struct {
	h       *history
	q       []addr // distinct local addresses queried: listen addresses first (nListen of them), then
	nListen int    // the local addresses of the history's connections that are not among them
	st      stats  // nil when re-running (shrinking)
	readers int    // concurrent reader goroutines (0 = none)
	j       joiner
}

// expected: the recomputation after the first n events, per queried local address.
func (x *exec) expected(n int, v variant) (map[tw]map[tw]tally, []map[string]int) {
	cnt := x.h.counts(n, v)
	per := make([]map[string]int, len(x.q))
	for i, l := range x.q {
		per[i] = x.j.forListen(cnt, l)
	}
	return cnt, per
}

func strs(as []ma.Multiaddr) []string {
	out := make([]string, len(as))
	for i, a := range as {
		out[i] = a.String()
	}
	return out
}

func (x *exec) ks(step int) []int { return []int{0, 1, 2, 3, 5} }

func (x *exec) query(m *observedaddrs.Manager, qm []ma.Multiaddr, step int) outputs {
	o := outputs{all: map[int][]string{}}
	for _, a := range qm {
		o.for_ = append(o.for_, strs(m.AddrsFor(a)))
	}
	for _, k := range x.ks(step) {
		o.all[k] = strs(m.Addrs(k))
	}
	return o
}

// judgeStep decides everything observed after event `step` against the recomputation under v.
func (x *exec) judgeStep(o outputs, step int, per []map[string]int, v variant) *failure {
	for i, l := range x.q {
		if c, m := judge(o.for_[i], per[i], x.h.Thresh, v); c != "" {
			return &failure{Step: step, Observable: "AddrsFor(" + l.String() + ")", Clause: "AddrsFor:" + c, Msg: m, Got: o.for_[i]}
		}
	}
	for _, k := range x.ks(step) {
		th := k
		if k <= 0 {
			th = x.h.Thresh // "If minObservers <= 0 ... ActivationThresh"
		}
		c, m, fb := judgeAll(o.all[k], per[:x.nListen], th, v)
		if c != "" {
			return &failure{Step: step, Observable: fmt.Sprintf("Addrs(%d)", k), Clause: "Addrs:" + c, Msg: m, Got: o.all[k]}
		}
		if fb && x.st != nil && v.name == "" {
			x.st["addrs_matched_only_order_free"]++
		}
	}
	return nil
}

// run executes the history on a fresh real Manager. Must be called inside a synctest bubble.
func (x *exec) run() *failure {
	h := x.h
	x.q = h.queryAddrs()
	x.nListen = len(x.q)
	seenQ := map[string]bool{}
	for _, l := range x.q {
		seenQ[l.String()] = true
	}
	for _, c := range h.Conns {
		// also ask for every connection's own local address: for one that is not a listen address
		// the answer must stay empty ("reports on connections not arriving at a listen address never count")
		if s := c.Local.String(); !seenQ[s] {
			seenQ[s] = true
			x.q = append(x.q, c.Local)
		}
	}
	x.j = joiner{}
	fn := &fakeNet{}
	for _, l := range h.Listen {
		fn.la = append(fn.la, l.multiaddr())
	}
	for _, l := range h.resolved() {
		fn.ila = append(fn.ila, l.multiaddr())
	}
	qm := make([]ma.Multiaddr, len(x.q))
	for i, l := range x.q {
		qm[i] = l.multiaddr()
	}
	bus := eventbus.NewBus()
	m, err := observedaddrs.NewManager(bus, fn)
	if err != nil {
		panic(err)
	}
	m.Start(fn)
	defer m.Close()
	em, err := bus.Emitter(new(event.EvtPeerIdentificationCompleted))
	if err != nil {
		panic(err)
	}
	defer em.Close()
	conns := make([]*fakeConn, len(h.Conns))
	for i, c := range h.Conns {
		conns[i] = &fakeConn{id: c.ID, local: c.Local.multiaddr(), remote: c.Remote.multiaddr()}
	}

	// optional concurrent readers: started by a token before the event is applied, they query while
	// the manager processes it; each of their answers must be right for the state before or after.
	type rd struct {
		goCh chan int
		done chan outputs
	}
	rds := make([]*rd, x.readers)
	for i := range rds {
		r := &rd{goCh: make(chan int), done: make(chan outputs, 1)}
		rds[i] = r
		go func() {
			for step := range r.goCh {
				r.done <- x.query(m, qm, step)
			}
		}()
	}
	defer func() {
		for _, r := range rds {
			close(r.goCh)
		}
	}()

	synctest.Wait()
	var prevElig map[[2]tw]bool
	_, prevPer := x.expected(0, variant{})
	for i, ev := range h.Events {
		for _, r := range rds {
			r.goCh <- i
		}
		switch ev.Kind {
		case "report":
			e := event.EvtPeerIdentificationCompleted{ObservedAddr: ev.Obs.multiaddr()}
			if ev.Conn >= 0 {
				e.Conn = conns[ev.Conn]
			}
			if err := em.Emit(e); err != nil {
				panic(err)
			}
		case "close":
			if ev.Racing {
				c := conns[ev.Conn]
				var fired atomic.Bool
				f := func() {
					fired.Store(true)
					c.closed.Store(true)
					fn.disconnected(c)
				}
				c.onLocal.Store(&f)
				if err := em.Emit(event.EvtPeerIdentificationCompleted{ObservedAddr: ev.RaceObs.multiaddr(), Conn: c}); err != nil {
					panic(err)
				}
				synctest.Wait()
				c.onLocal.Store(nil)
				if fired.Load() {
					if x.st != nil {
						x.st["closes_placed_inside_a_report_being_processed"]++
					}
					break
				}
				// the report was dropped before the manager looked at the connection: plain close
			}
			conns[ev.Conn].closed.Store(true)
			fn.disconnected(conns[ev.Conn])
		case "redisconnect":
			fn.disconnected(conns[ev.Conn])
		case "sleep":
			time.Sleep(61 * time.Second) // the statement has no expiry: nothing may change
		}
		synctest.Wait()
		out := x.query(m, qm, i)
		cnt, per := x.expected(i+1, variant{})
		if f := x.judgeStep(out, i, per, variant{}); f != nil {
			for _, v := range variants {
				if _, vper := x.expected(i+1, v); x.judgeStep(out, i, vper, v) == nil {
					f.Explained = v.name
					break
				}
			}
			return f
		}
		for _, r := range rds {
			if f := x.judgeReader(<-r.done, i, prevPer, per); f != nil {
				return f
			}
		}
		if x.st != nil {
			prevElig = x.observe(i, cnt, prevElig, out)
		}
		prevPer = per
	}
	return nil
}

// judgeReader: an answer obtained while event `step` was being processed must satisfy the statement
// for the history without or with that event (the update is one step; no third state is allowed).
func (x *exec) judgeReader(o outputs, step int, pre, post []map[string]int) *failure {
	for i, l := range x.q {
		c0, _ := judge(o.for_[i], pre[i], x.h.Thresh, variant{})
		c1, m := judge(o.for_[i], post[i], x.h.Thresh, variant{})
		if c0 != "" && c1 != "" {
			return &failure{Step: step, Observable: "concurrent AddrsFor(" + l.String() + ")", Clause: "concurrent-AddrsFor:" + c1, Msg: "answer fits neither the state before nor after the event: " + m, Got: o.for_[i]}
		}
		if x.st != nil {
			x.st["concurrent_reads_judged"]++
		}
	}
	for _, k := range x.ks(step) {
		th := k
		if k <= 0 {
			th = x.h.Thresh
		}
		ok := false
		var msg, cl string
		for _, per := range [][]map[string]int{pre[:x.nListen], post[:x.nListen]} {
			c, m, _ := judgeAll(o.all[k], per, th, variant{})
			if c == "" {
				ok = true
			}
			cl, msg = c, m
		}
		if !ok {
			return &failure{Step: step, Observable: fmt.Sprintf("concurrent Addrs(%d)", k), Clause: "concurrent-Addrs:" + cl, Msg: "answer fits neither the state before nor after the event: " + msg, Got: o.all[k]}
		}
	}
	return nil
}

// observe collects the path-class counters (never part of the verdict).
func (x *exec) observe(step int, cnt map[tw]map[tw]tally, prevElig map[[2]tw]bool, out outputs) map[[2]tw]bool {
	h, st := x.h, x.st
	ev := h.Events[step]
	elig := map[[2]tw]bool{}
	for l, m := range cnt {
		n := 0
		var gs []int
		for o, t := range m {
			if t.Groups >= h.Thresh {
				n++
				gs = append(gs, t.Groups)
				elig[[2]tw{l, o}] = true
			}
			if t.Groups == h.Thresh-1 {
				st["state_one_below_threshold"]++
			}
			if t.Groups == h.Thresh {
				st["state_exactly_at_threshold"]++
			}
			if t.Conns > t.Groups {
				st["state_group_counted_once_for_several_conns"]++
			}
		}
		if n > 3 {
			st["state_more_than_3_eligible"]++
			sort.Sort(sort.Reverse(sort.IntSlice(gs)))
			if gs[2] == gs[3] {
				st["state_tie_at_cutoff"]++
			}
		}
	}
	for k := range elig {
		if !prevElig[k] {
			st["activations"]++
		}
	}
	for k := range prevElig {
		if !elig[k] {
			switch ev.Kind {
			case "close":
				st["deactivated_by_close"]++
			case "report":
				st["deactivated_by_changed_report"]++
			default:
				st["deactivated_by_other"]++
			}
		}
	}
	nonEmptyByTW := map[tw]int{}
	for i, l := range x.q {
		if i >= x.nListen {
			if !h.arrivesAtListen(l.TW) {
				st["addrsfor_asked_for_non_listen_conn_local"]++
			}
			continue
		}
		if len(out.for_[i]) > 0 {
			st["addrsfor_nonempty_answers"]++
			nonEmptyByTW[l.TW]++
			if strings.Contains(l.Rest, "webtransport") {
				st["addrsfor_nonempty_webtransport"]++
			}
			if len(out.for_[i]) == 3 {
				st["addrsfor_answers_of_3"]++
			}
		}
	}
	for _, n := range nonEmptyByTW {
		if n > 1 {
			st["steps_shared_thin_waist_inferred"]++
			break
		}
	}
	switch ev.Kind {
	case "report":
		if ev.Conn < 0 {
			st["report_nil_conn"]++
			break
		}
		closedBefore, changed, repeated := false, false, false
		var last *addr
		for _, e := range h.Events[:step] {
			if e.Conn == ev.Conn && e.Kind == "close" {
				closedBefore = true
			}
			if e.Conn == ev.Conn && e.Kind == "report" && h.rejected(h.Conns[ev.Conn], e.Obs, variant{}) == "" {
				o := e.Obs
				last = &o
			}
		}
		why := h.rejected(h.Conns[ev.Conn], ev.Obs, variant{})
		switch {
		case closedBefore:
			st["report_on_closed_conn"]++
		case why != "":
			st["report_rejected/"+why]++
			if ev.Obs.Zone != "" && ev.Obs.TW.IP.Is6() {
				st["report_rejected/"+why+"-spelled-with-an-ip6zone"]++
			}
			if last != nil {
				st["report_rejected_after_counted_one"]++
			}
		default:
			st["report_counted"]++
			if ev.Obs.TW.IP.IsPrivate() {
				st["report_counted_private_observed"]++
			}
			if ev.Obs.TW == h.Conns[ev.Conn].Local.TW {
				st["report_counted_own_local_address"]++
			}
			if h.Conns[ev.Conn].Remote.Circuit {
				st["report_counted_on_relayed_conn"]++
			}
			if last != nil {
				changed, repeated = last.TW != ev.Obs.TW, last.TW == ev.Obs.TW
			}
		}
		if changed {
			st["report_changed"]++
		}
		if repeated {
			st["report_repeated"]++
		}
	case "close":
		st["closes"]++
	case "redisconnect":
		st["redundant_disconnects"]++
	case "sleep":
		st["virtual_minutes_slept"]++
	}
	return elig
}

// ---- witnesses ---------------------------------------------------------------------------------

func (h *history) render(upto int) map[string]any {
	used := map[int]bool{}
	var evs []string
	for i, e := range h.Events {
		if i > upto {
			break
		}
		s := fmt.Sprintf("%d: %s", i, e.Kind)
		if e.Kind != "sleep" {
			if e.Conn >= 0 {
				used[e.Conn] = true
				s += fmt.Sprint(" c", e.Conn)
			} else {
				s += " <nil conn>"
			}
		}
		if e.Kind == "report" {
			s += " observed=" + e.Obs.String() + " [" + e.Class + "]"
		}
		if e.Kind == "close" && e.Racing {
			s += " (while its report observed=" + e.RaceObs.String() + " is being processed: closed inside the manager's LocalMultiaddr() call)"
		}
		evs = append(evs, s)
	}
	var conns []string
	for _, c := range h.Conns {
		if used[c.ID] {
			conns = append(conns, fmt.Sprintf("c%d local=%s remote=%s", c.ID, c.Local, c.Remote))
		}
	}
	var listen []string
	for _, l := range h.Listen {
		listen = append(listen, l.String())
	}
	return map[string]any{"activation_threshold": h.Thresh, "listen": listen, "interfaces": fmt.Sprint(h.Iface), "conns": conns, "events": evs}
}

// shrink removes events while the same clause keeps failing (bounded greedy delta debugging).
func shrink(h *history, f *failure) (*history, *failure) {
	cur := *h
	cur.Events = slices.Clone(h.Events[:f.Step+1])
	best := f
	budget := 600
	for changed := true; changed && budget > 0; {
		changed = false
		for i := len(cur.Events) - 1; i >= 0 && budget > 0; i-- {
			cand := cur
			cand.Events = append(slices.Clone(cur.Events[:i]), cur.Events[i+1:]...)
			budget--
			x := &exec{h: &cand}
			if nf := x.run(); nf != nil && nf.Clause == f.Clause && nf.Explained == f.Explained {
				cand.Events = cand.Events[:nf.Step+1]
				cur, best, changed = cand, nf, true
				i = min(i, len(cur.Events))
			}
		}
	}
	return &cur, best
}

func (h *history) lastKind(step int) string {
	ev := h.Events[step]
	if ev.Kind != "report" {
		return ev.Kind
	}
	if ev.Conn < 0 {
		return "report[nil-conn]"
	}
	for _, e := range h.Events[:step] {
		if e.Conn == ev.Conn && e.Kind == "close" {
			return "report[closed-conn]"
		}
	}
	if why := h.rejected(h.Conns[ev.Conn], ev.Obs, variant{}); why != "" {
		return "report[never-counts:" + why + "]"
	}
	return "report[counts]"
}

func (h *history) digest() string {
	d := fnv.New64a()
	fmt.Fprint(d, h.Thresh, len(h.Listen))
	for _, l := range h.Listen {
		d.Write([]byte(l.String()))
	}
	for _, e := range h.Events {
		fmt.Fprint(d, e.Kind, e.Conn, e.Obs.TW.Port, e.Obs.Kind, e.Obs.Circuit, e.Obs.TW.UDP)
		d.Write(e.Obs.TW.IP.AsSlice())
	}
	for _, c := range h.Conns {
		d.Write(c.Local.TW.IP.AsSlice())
		d.Write(c.Remote.TW.IP.AsSlice())
		fmt.Fprint(d, c.Local.TW.Port, c.Local.TW.UDP, c.Remote.TW.Port, c.Remote.Circuit)
	}
	return fmt.Sprintf("%x", d.Sum64())
}

// ---- the check ---------------------------------------------------------------------------------

func TestC17(t *testing.T) {
	r := run.New(t, "C17", "exploration")
	defer r.Finish()
	race := os.Getenv("VERIF_RACE") == "1"
	r.Rule("one evaluation = one generated history (20-150 identify reports / connection closes / late reports / redundant disconnects / virtual minutes) run on a fresh real observedaddrs.Manager, with AddrsFor(every listen / resolved listen address and every connection's own local address) and Addrs(0|1|2|3|5) compared with a from-scratch recomputation after every event (1 history in 8 additionally with two concurrent readers whose answers must fit the state before or after the event in flight); non-trivial = at least one address became advertised AND at least one advertised address was withdrawn (close or changed report) in that history; distinct = distinct digest of (listen set, connections, events)")
	r.Assume(
		"listen addresses are fixed for the lifetime of a history (the statement does not say whether 'arriving at a listen address' is judged at report time or at query time)",
		"transport consistency is judged on the thin waist: same IP version and same TCP/UDP; upper layers (quic-v1 vs webtransport) of the reported address are not compared",
		"a filtered report (loopback, NAT64, relayed, inconsistent transport) is ignored altogether: it does not withdraw the connection's earlier counted report (DESIGN.md: 'latest accepted observation')",
		"'relayed' in the statement is read as a class of REPORTED address (like loopback and NAT64): a report arriving over a relayed connection whose reported address is not a relay address counts, with the relay's IP as the observer group (that is what the implementation derives from the connection's remote address); such reports are generated in a small share of histories",
		"connection close = IsClosed() true and the Disconnected notification delivered, as one step; the window between the two in a real swarm is not explored",
		"the implementation keeps no cap on tracked connections or observed addresses (only the output limit of 3 and the 16-slot worker queue, which is never overrun here: one event at a time)",
		"the order in which Addrs(k) lists different local addresses is not part of the statement (order-free matching is used if the listen-address order does not fit)",
		"IPv4-mapped IPv6 remotes, zone-scoped addresses and non-IP remote addresses are outside the population",
	)

	r.Extra("population", map[string]any{
		"remote_ips": fmt.Sprint(remoteV4, remoteV6), "interfaces": fmt.Sprint(ifaceV4, ifaceV6),
		"observed_pool": fmt.Sprint(poolV4, poolV6), "activation_thresholds": "quick 1,2,4; thorough 1,2,3,4",
		"listen": "per family none/unspecified/specific(1-2 IPs) x TCP, QUIC, WebTransport(+certhash) on ports 4001/4002, optional /p2p-circuit",
	})
	total := r.Pick(3000, 150000)
	if race {
		total = r.Pick(600, 3000)
	}
	// the workload allocates many short-lived small maps; a lazier GC halves the wall time
	defer debug.SetGCPercent(debug.SetGCPercent(400))
	saved := observedaddrs.ActivationThresh
	defer func() { observedaddrs.ActivationThresh = saved }()

	var smu sync.Mutex
	merged := stats{}
	threshs := []int{1, 2, 4}
	if !r.Quick() && !race {
		threshs = []int{1, 2, 3, 4}
	}
	for _, th := range threshs {
		// ActivationThresh is a package variable: one threshold per phase, no manager alive in between.
		observedaddrs.ActivationThresh = th
		n := total / len(threshs)
		var next atomic.Int64
		phase := func() {
			var wg sync.WaitGroup
			for w := 0; w < runtime.GOMAXPROCS(0); w++ {
				wg.Add(1)
				go func() {
					defer wg.Done()
					synctest.Test(t, func(t *testing.T) {
						for !r.TooMany() {
							i := int(next.Add(1) - 1)
							if i >= n {
								return
							}
							caseID := fmt.Sprintf("th%d/h%d", th, i)
							if !r.Want(caseID) {
								continue
							}
							local := stats{}
							oneCase(r, caseID, th, i, race, local)
							smu.Lock()
							for k, v := range local {
								merged[k] += v
							}
							smu.Unlock()
						}
					})
				}()
			}
			wg.Wait()
		}
		if !run.Watchdog(25*time.Minute, phase) {
			r.Inconclusive(fmt.Sprintf("th%d", th), "real-time watchdog: phase did not finish (bubble wedge?)\n"+run.Stacks())
			return
		}
	}
	for k, v := range merged {
		r.Count(k, v)
	}
	// path classes this check exists to exercise
	for _, k := range []string{
		"activations", "deactivated_by_close", "deactivated_by_changed_report",
		"state_one_below_threshold", "state_exactly_at_threshold", "state_group_counted_once_for_several_conns",
		"state_more_than_3_eligible", "state_tie_at_cutoff", "steps_shared_thin_waist_inferred", "addrsfor_nonempty_webtransport",
		"report_counted", "report_changed", "report_repeated", "report_on_closed_conn", "report_rejected_after_counted_one",
		"report_rejected/loopback", "report_rejected/nat64", "report_rejected/relay-observed", "report_counted_on_relayed_conn",
		"report_rejected/wrong-l4", "report_rejected/wrong-ip-version", "report_rejected/not-a-listen-address",
		"report_rejected/not-a-transport-address", "report_rejected/nat64-spelled-with-an-ip6zone", "report_counted_private_observed", "report_counted_own_local_address",
		"histories_thresh_1", "histories_thresh_2", "histories_thresh_4", "histories_more_than_3_eligible_thresh_4",
		"histories_ipv6_same_56_two_conns", "addrsfor_asked_for_non_listen_conn_local",
	} {
		if !race {
			r.Require(k, 20)
		}
	}
	listenerGone(r)
	wiring(r)
	if os.Getenv("VERIF_RACE") != "1" && r.Counter("wiring_skipped_cannot_listen_on_distinct_loopback_ips")+r.Counter("wiring_skipped_observers_do_not_have_distinct_ips") == 0 && !r.Replaying() {
		r.Require("wiring_activated_by_real_identify", 1)
	}
	r.Require("histories_with_concurrent_readers", 20)
	r.Require("closes_placed_inside_a_report_being_processed", 100)
	r.Require("concurrent_reads_judged", 1000)
}

func oneCase(r *run.R, caseID string, th, i int, race bool, st stats) {
	rng := r.Rand(17, uint64(th), uint64(i))
	h := generate(rng, th)
	x := &exec{h: h, st: st}
	if race || i%8 == 3 {
		x.readers = 2
		st["histories_with_concurrent_readers"]++
	}
	f := x.run()
	r.Eval(1)
	st[fmt.Sprintf("histories_thresh_%d", th)]++
	st["events"] += len(h.Events)
	if f != nil {
		sh, sf := h, f
		if !strings.HasPrefix(f.Clause, "concurrent-") {
			sh, sf = shrink(h, f)
		}
		expl := sf.Explained
		if expl == "" {
			expl = "none"
		}
		sig := fmt.Sprintf("departure=%s/%s/last=%s", expl, sf.Clause, sh.lastKind(sf.Step))
		cnt := sh.counts(sf.Step+1, variant{})
		var model []string
		for l, m := range cnt {
			for o, tl := range m {
				model = append(model, fmt.Sprintf("local %s <- observed %s: %d observer group(s) on %d open conn(s)", l, o, tl.Groups, tl.Conns))
			}
		}
		sort.Strings(model)
		r.Violation(sig, caseID, fmt.Sprintf("after event %d (%s) %s: %s", sf.Step, sh.lastKind(sf.Step), sf.Observable, sf.Msg), map[string]any{
			"shrunk_history": sh.render(sf.Step), "observable": sf.Observable, "returned": sf.Got, "recomputed_from_history": model,
			"fits_single_departure_from_statement": expl, "original_events": len(h.Events), "original_failing_step": f.Step,
			"original_history": h.render(f.Step),
		})
		return
	}
	if st["activations"] > 0 && st["deactivated_by_close"]+st["deactivated_by_changed_report"] > 0 {
		// st is per case (fresh map per call)
		r.Nontrivial(h.digest())
	}
	if th == 4 && st["state_more_than_3_eligible"] > 0 {
		st["histories_more_than_3_eligible_thresh_4"]++
	}
	// IPv6 /56 clause reached: two open conns from one /56 but different /64s vouching for one address
	if v6SharedGroup(h) {
		st["histories_ipv6_same_56_two_conns"]++
	}
	if i < 2 && th != 2 && r.SampleN() < 4 {
		s := h.render(min(len(h.Events)-1, 14))
		s["case"] = caseID
		s["events_total"] = len(h.Events)
		r.Sample(s)
	}
}

// v6SharedGroup: at the end of the history some observed address is vouched for by two open IPv6
// connections whose remotes share a /56 but not a /64 (the case that separates /56 from /64 grouping).
func v6SharedGroup(h *history) bool {
	type key struct {
		l, o tw
		g    string
	}
	closed := map[int]bool{}
	last := map[int]tw{}
	for _, e := range h.Events {
		if e.Conn < 0 {
			continue
		}
		switch e.Kind {
		case "close":
			closed[e.Conn] = true
			delete(last, e.Conn)
		case "report":
			if !closed[e.Conn] && h.rejected(h.Conns[e.Conn], e.Obs, variant{}) == "" {
				last[e.Conn] = e.Obs.TW
			}
		}
	}
	seen := map[key]string{}
	for c, o := range last {
		cs := h.Conns[c]
		if !cs.Remote.TW.IP.Is6() {
			continue
		}
		k := key{cs.Local.TW, o, observerGroup(cs, variant{})}
		p64 := observerGroup(cs, variant{v6bits: 64})
		if prev, ok := seen[k]; ok && prev != p64 {
			return true
		}
		seen[k] = p64
	}
	return false
}
