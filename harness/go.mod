module verif/harness

go 1.25.7

require (
	github.com/anishathalye/porcupine v1.3.0
	github.com/benbjohnson/clock v1.3.5
	github.com/decred/dcrd/dcrec/secp256k1/v4 v4.4.0
	github.com/flynn/noise v1.1.0
	github.com/ipfs/go-cid v0.5.0
	github.com/ipfs/go-datastore v0.8.2
	github.com/libp2p/go-libp2p v0.0.0
	github.com/libp2p/go-libp2p-asn-util v0.4.1
	github.com/libp2p/go-msgio v0.3.0
	github.com/multiformats/go-multiaddr v0.16.0
	github.com/multiformats/go-multibase v0.2.0
	github.com/multiformats/go-multihash v0.2.3
	github.com/multiformats/go-multistream v0.6.1
	github.com/multiformats/go-varint v0.0.7
	github.com/quic-go/quic-go v0.59.0
	github.com/quic-go/webtransport-go v0.10.0
	google.golang.org/protobuf v1.36.6
)

require (
	filippo.io/bigmod v0.1.1-0.20260103110540-f8a47775ebe5 // indirect
	filippo.io/keygen v0.0.0-20260114151900-8e2790ea4c5b // indirect
	github.com/beorn7/perks v1.0.1 // indirect
	github.com/cespare/xxhash/v2 v2.3.0 // indirect
	github.com/davecgh/go-spew v1.1.1 // indirect
	github.com/davidlazar/go-crypto v0.0.0-20200604182044-b73af7476f6c // indirect
	github.com/dunglas/httpsfv v1.1.0 // indirect
	github.com/google/uuid v1.6.0 // indirect
	github.com/gorilla/websocket v1.5.3 // indirect
	github.com/hashicorp/golang-lru/arc/v2 v2.0.7 // indirect
	github.com/hashicorp/golang-lru/v2 v2.0.7 // indirect
	github.com/huin/goupnp v1.3.0 // indirect
	github.com/jackpal/go-nat-pmp v1.0.2 // indirect
	github.com/jbenet/go-temp-err-catcher v0.1.0 // indirect
	github.com/klauspost/cpuid/v2 v2.2.10 // indirect
	github.com/koron/go-ssdp v0.0.6 // indirect
	github.com/libp2p/go-buffer-pool v0.1.0 // indirect
	github.com/libp2p/go-flow-metrics v0.2.0 // indirect
	github.com/libp2p/go-netroute v0.4.0 // indirect
	github.com/libp2p/go-reuseport v0.4.0 // indirect
	github.com/libp2p/go-yamux/v5 v5.0.1 // indirect
	github.com/marten-seemann/tcp v0.0.0-20210406111302-dfbc87cc63fd // indirect
	github.com/miekg/dns v1.1.66 // indirect
	github.com/mikioh/tcpinfo v0.0.0-20190314235526-30a79bb1804b // indirect
	github.com/mikioh/tcpopt v0.0.0-20190314235656-172688c1accc // indirect
	github.com/mr-tron/base58 v1.2.0 // indirect
	github.com/multiformats/go-base32 v0.1.0 // indirect
	github.com/multiformats/go-base36 v0.2.0 // indirect
	github.com/multiformats/go-multiaddr-dns v0.4.1 // indirect
	github.com/multiformats/go-multiaddr-fmt v0.1.0 // indirect
	github.com/multiformats/go-multicodec v0.9.1 // indirect
	github.com/munnerz/goautoneg v0.0.0-20191010083416-a7dc8b61c822 // indirect
	github.com/pbnjay/memory v0.0.0-20210728143218-7b4eea64cf58 // indirect
	github.com/pion/datachannel v1.5.10 // indirect
	github.com/pion/dtls/v3 v3.1.2 // indirect
	github.com/pion/ice/v4 v4.0.10 // indirect
	github.com/pion/interceptor v0.1.40 // indirect
	github.com/pion/logging v0.2.4 // indirect
	github.com/pion/mdns/v2 v2.0.7 // indirect
	github.com/pion/randutil v0.1.0 // indirect
	github.com/pion/rtcp v1.2.16 // indirect
	github.com/pion/rtp v1.8.19 // indirect
	github.com/pion/sctp v1.8.39 // indirect
	github.com/pion/sdp/v3 v3.0.18 // indirect
	github.com/pion/srtp/v3 v3.0.6 // indirect
	github.com/pion/stun/v3 v3.1.1 // indirect
	github.com/pion/transport/v3 v3.0.7 // indirect
	github.com/pion/transport/v4 v4.0.1 // indirect
	github.com/pion/turn/v4 v4.0.2 // indirect
	github.com/pion/webrtc/v4 v4.1.2 // indirect
	github.com/pmezard/go-difflib v1.0.0 // indirect
	github.com/prometheus/client_golang v1.22.0 // indirect
	github.com/prometheus/client_model v0.6.2 // indirect
	github.com/prometheus/common v0.64.0 // indirect
	github.com/prometheus/procfs v0.16.1 // indirect
	github.com/quic-go/qpack v0.6.0 // indirect
	github.com/spaolacci/murmur3 v1.1.0 // indirect
	github.com/stretchr/testify v1.11.1 // indirect
	github.com/wlynxg/anet v0.0.5 // indirect
	go.uber.org/dig v1.19.0 // indirect
	go.uber.org/fx v1.24.0 // indirect
	go.uber.org/multierr v1.11.0 // indirect
	go.uber.org/zap v1.27.0 // indirect
	golang.org/x/crypto v0.48.0 // indirect
	golang.org/x/exp v0.0.0-20250606033433-dcc06ee1d476 // indirect
	golang.org/x/net v0.50.0 // indirect
	golang.org/x/sync v0.19.0 // indirect
	golang.org/x/sys v0.41.0 // indirect
	golang.org/x/text v0.34.0 // indirect
	golang.org/x/time v0.12.0 // indirect
	gopkg.in/yaml.v3 v3.0.1 // indirect
	lukechampine.com/blake3 v1.4.1 // indirect
)

replace github.com/libp2p/go-libp2p => /repo
