module verif/harness

go 1.25.7

require (
	github.com/anishathalye/porcupine v1.3.0
	github.com/libp2p/go-libp2p v0.0.0
	github.com/multiformats/go-multiaddr v0.16.0
)

require (
	github.com/benbjohnson/clock v1.3.5 // indirect
	github.com/beorn7/perks v1.0.1 // indirect
	github.com/cespare/xxhash/v2 v2.3.0 // indirect
	github.com/decred/dcrd/dcrec/secp256k1/v4 v4.4.0 // indirect
	github.com/google/uuid v1.6.0 // indirect
	github.com/ipfs/go-cid v0.5.0 // indirect
	github.com/ipfs/go-datastore v0.8.2 // indirect
	github.com/klauspost/cpuid/v2 v2.2.10 // indirect
	github.com/libp2p/go-buffer-pool v0.1.0 // indirect
	github.com/libp2p/go-flow-metrics v0.2.0 // indirect
	github.com/miekg/dns v1.1.66 // indirect
	github.com/mr-tron/base58 v1.2.0 // indirect
	github.com/multiformats/go-base32 v0.1.0 // indirect
	github.com/multiformats/go-base36 v0.2.0 // indirect
	github.com/multiformats/go-multiaddr-dns v0.4.1 // indirect
	github.com/multiformats/go-multiaddr-fmt v0.1.0 // indirect
	github.com/multiformats/go-multibase v0.2.0 // indirect
	github.com/multiformats/go-multicodec v0.9.1 // indirect
	github.com/multiformats/go-multihash v0.2.3 // indirect
	github.com/multiformats/go-multistream v0.6.1 // indirect
	github.com/multiformats/go-varint v0.0.7 // indirect
	github.com/munnerz/goautoneg v0.0.0-20191010083416-a7dc8b61c822 // indirect
	github.com/prometheus/client_golang v1.22.0 // indirect
	github.com/prometheus/client_model v0.6.2 // indirect
	github.com/prometheus/common v0.64.0 // indirect
	github.com/prometheus/procfs v0.16.1 // indirect
	github.com/spaolacci/murmur3 v1.1.0 // indirect
	golang.org/x/crypto v0.48.0 // indirect
	golang.org/x/exp v0.0.0-20250606033433-dcc06ee1d476 // indirect
	golang.org/x/net v0.50.0 // indirect
	golang.org/x/sys v0.41.0 // indirect
	google.golang.org/protobuf v1.36.6 // indirect
	lukechampine.com/blake3 v1.4.1 // indirect
)

replace github.com/libp2p/go-libp2p => /repo
