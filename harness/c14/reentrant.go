package c14

import (
	"context"
	"fmt"
	"strconv"
	"testing/synctest"
	"time"

	coreconnmgr "github.com/libp2p/go-libp2p/core/connmgr"
)

// connectedDuringTrim is a deterministic, hook-free reproduction of the interleaving "Connected(p)
// arrives between a trim's candidate scan and its selection, p having only a buffered tag record".
// The manager calls Stat() on connections of value-tied peers while sorting its candidates (after the
// scan, before the selection); the scenario delivers the Connected notification from inside that
// callback — for a peer in another segment, so exactly what a notifier goroutine could do at that moment.
// Returns (reached, closedFresh, log): reached = the notification was delivered during the trim;
// closedFresh = the trim closed the connection that had been announced 0 ms earlier (grace 10 s).
func connectedDuringTrim(value int) (reached, closedFresh bool, log []string) {
	cfg := caseCfg{Low: 1, High: 9, GraceMs: 10000, SilenceMs: 10000, ResMs: 3001, DecIntMs: [2]int64{3001, 6002}, DecSub: [2]int{1, 1}, BumpMax: 12}
	g, err := newRig(cfg, false, nil, nil)
	if err != nil {
		return false, false, []string{err.Error()}
	}
	defer func() {
		g.cm.Close()
		synctest.Wait()
	}()
	synctest.Wait()
	nf := g.rec.notifee
	const pT, pA, pB = 4, 5, 6            // three different segments
	g.cm.TagPeer(peerIDs[pT], "a", value) // buffered record of an unconnected peer, created at t=0
	ca, _ := g.connFor(op{P: pA, S: 0}, nil)
	cb, _ := g.connFor(op{P: pB, S: 0}, nil)
	nf.Connected(nil, ca)
	nf.Connected(nil, cb)
	log = append(log, "t=0 TagPeer(p4,a,v) Connected(p5) Connected(p6)")
	g.clk.Add(20 * time.Second) // everybody is past the grace period; 2 conns < high: no periodic trim
	synctest.Wait()
	g.rec.takeEvents()
	ct, _ := g.connFor(op{P: pT, S: 0}, nil)
	hook := func() {
		reached = true
		nf.Connected(nil, ct)
	}
	ca.statHook.Store(&hook)
	cb.statHook.Store(&hook)
	log = append(log, "t=20s TrimOpenConns; Connected(p4) delivered from the Stat() callback of the sort")
	g.cm.TrimOpenConns(context.Background())
	synctest.Wait()
	for _, e := range g.rec.takeEvents() {
		log = append(log, "closed "+evString([]closeEvent{e}))
		if e.Conn == ct.id {
			closedFresh = true
		}
	}
	return
}

// flapDuringTrim: the same callback point, another event: a CONNECTED peer that was a candidate at the
// scan (oldest, lowest value: first in line to be closed) loses its only connection and connects again
// while the trim sorts. Its new connection is 0 ms old (grace 10 s): the trim must not close it, whatever
// it remembers about the peer from the scan. Returns (reached, closedFresh, log).
func flapDuringTrim(value int, early bool) (reached, closedFresh bool, log []string) {
	cfg := caseCfg{Low: 1, High: 9, GraceMs: 10000, SilenceMs: 10000, ResMs: 3001, DecIntMs: [2]int64{3001, 6002}, DecSub: [2]int{1, 1}, BumpMax: 12}
	g, err := newRig(cfg, false, nil, nil)
	if err != nil {
		return false, false, []string{err.Error()}
	}
	defer func() {
		g.cm.Close()
		synctest.Wait()
	}()
	synctest.Wait()
	nf := g.rec.notifee
	const pT, pA, pB = 4, 5, 6 // three different segments
	ct, _ := g.connFor(op{P: pT, S: 0}, nil)
	ca, _ := g.connFor(op{P: pA, S: 0}, nil)
	cb, _ := g.connFor(op{P: pB, S: 0}, nil)
	if early {
		g.cm.TagPeer(peerIDs[pT], "a", value) // tagged before it connects
	}
	nf.Connected(nil, ct)
	nf.Connected(nil, ca)
	nf.Connected(nil, cb)
	if !early {
		g.cm.TagPeer(peerIDs[pT], "a", value)
	}
	log = append(log, "t=0 Connected(p4) Connected(p5) Connected(p6) TagPeer(p4,a,v)")
	g.clk.Add(20 * time.Second)
	synctest.Wait()
	g.rec.takeEvents()
	ct2, _ := g.connFor(op{P: pT, S: 1}, nil)
	done := false
	hook := func() {
		if done {
			return
		}
		done, reached = true, true
		nf.Disconnected(nil, ct)
		nf.Connected(nil, ct2)
	}
	ca.statHook.Store(&hook)
	cb.statHook.Store(&hook)
	log = append(log, "t=20s TrimOpenConns; Disconnected(p4,c0) + Connected(p4,c1) delivered from the Stat() callback of the sort")
	g.cm.TrimOpenConns(context.Background())
	synctest.Wait()
	for _, e := range g.rec.takeEvents() {
		log = append(log, "closed "+evString([]closeEvent{e}))
		if e.Conn == ct2.id {
			closedFresh = true
		}
	}
	return
}

// failedTagClose: Close of a decaying tag FAILS because the decayer's close queue is full (the decayer
// loop is parked inside a user bump function while `fillers` other tags are closed). Whatever a failed
// Close means for later Bumps, the tag's values must not be frozen into the peers' totals: they either go
// on decaying (three rounds of -10 take 30 to zero) or are removed. Afterwards a trim must close the peer
// whose total is then 0, not the one tagged 10. Returns reached = Close really returned an error.
func failedTagClose(fillers int) (reached bool, totalA, totalB int, closed []int, log []string) {
	cfg := caseCfg{Low: 1, High: 9, GraceMs: 10000, SilenceMs: 10000, ResMs: 3001, DecIntMs: [2]int64{3001, 6002}, DecSub: [2]int{1, 1}, BumpMax: 12}
	g, err := newRig(cfg, false, nil, nil)
	if err != nil {
		return false, 0, 0, nil, []string{err.Error()}
	}
	entered, release := make(chan struct{}, 1), make(chan struct{})
	defer func() {
		select {
		case <-release:
		default:
			close(release)
		}
		g.cm.Close()
		synctest.Wait()
	}()
	synctest.Wait()
	res := time.Duration(cfg.ResMs) * time.Millisecond
	minus10 := func(v coreconnmgr.DecayingValue) (int, bool) { return v.Value - 10, v.Value-10 <= 0 }
	sum := func(v coreconnmgr.DecayingValue, d int) int { return v.Value + d }
	score, err := g.cm.RegisterDecayingTag("score", res, minus10, sum)
	if err != nil {
		return false, 0, 0, nil, []string{err.Error()}
	}
	park, err := g.cm.RegisterDecayingTag("park", res, minus10, func(v coreconnmgr.DecayingValue, d int) int {
		entered <- struct{}{}
		<-release
		return 0
	})
	if err != nil {
		return false, 0, 0, nil, []string{err.Error()}
	}
	var fill []coreconnmgr.DecayingTag
	for i := 0; i < fillers; i++ {
		t, err := g.cm.RegisterDecayingTag("filler"+strconv.Itoa(i), res, minus10, sum)
		if err != nil {
			return false, 0, 0, nil, []string{err.Error()}
		}
		fill = append(fill, t)
	}
	nf := g.rec.notifee
	const pA, pB = 5, 6
	ca, _ := g.connFor(op{P: pA, S: 0}, nil)
	cb, _ := g.connFor(op{P: pB, S: 0}, nil)
	nf.Connected(nil, ca)
	nf.Connected(nil, cb)
	score.Bump(peerIDs[pA], 30)
	g.cm.TagPeer(peerIDs[pB], "a", 10)
	synctest.Wait()
	log = append(log, "t=0 Connected(p5) Connected(p6) score.Bump(p5,30) TagPeer(p6,a,10)")
	park.Bump(peerIDs[pB], 1)
	synctest.Wait()
	select {
	case <-entered:
	default:
		return false, 0, 0, nil, append(log, "the decayer never entered the parking bump function")
	}
	nilCloses := 0
	for _, t := range fill {
		if t.Close() == nil {
			nilCloses++
		}
	}
	cerr := score.Close()
	log = append(log, "decayer parked in a bump function; "+strconv.Itoa(nilCloses)+" filler tags closed; score.Close() = "+fmt.Sprint(cerr))
	reached = cerr != nil
	close(release)
	synctest.Wait()
	for i := 0; i < 4; i++ {
		g.clk.Add(res)
		synctest.Wait()
	}
	if ti := g.cm.GetTagInfo(peerIDs[pA]); ti != nil {
		totalA = ti.Value
	}
	if ti := g.cm.GetTagInfo(peerIDs[pB]); ti != nil {
		totalB = ti.Value
	}
	log = append(log, "after 4 decay intervals: total(p5)="+strconv.Itoa(totalA)+" total(p6)="+strconv.Itoa(totalB))
	g.clk.Add(20 * time.Second)
	synctest.Wait()
	g.rec.takeEvents()
	g.cm.TrimOpenConns(context.Background())
	synctest.Wait()
	for _, e := range g.rec.takeEvents() {
		log = append(log, "closed "+evString([]closeEvent{e}))
		closed = append(closed, e.Peer)
	}
	return
}
