// C14 — Connection manager trims only eligible peers, lowest value first.
//
// Workload: the REAL connmgr.BasicConnMgr on a mock clock with fake connections whose closes are
// recorded and echoed back as Disconnected (synchronously, later, or never when the close fails).
// Oracle: a reference model written from the property statement (model.go); every trim — explicit,
// forced, or the manager's own periodic one fired by a clock tick — is judged as a RELATION against
// the model state at the instant it ran; counts and tag totals are compared after every operation.
// Concurrent histories (conc.go): per-peer linearizability with porcupine plus interval rules for trims.
// Everything runs inside testing/synctest bubbles: synctest.Wait() is the exact quiescence point after
// which the manager's background goroutines (periodic trim, decayer) have finished reacting.
package c14

import (
	"fmt"
	"log/slog"
	"os"
	"strings"
	"sync"
	"testing"
	"testing/synctest"

	"github.com/libp2p/go-libp2p/gologshim"

	"verif/harness/rig/run"
)

func init() {
	// duplicate notifications make the manager log at error level; keep the child's log readable
	gologshim.SetDefaultHandler(slog.DiscardHandler)
}

func TestC14(t *testing.T) {
	r := run.New(t, "C14", "exploration")
	defer r.Finish()
	r.Rule("generated histories over 8 peers x 3 conn slots on the real BasicConnMgr (mock clock, fake conns), each operation followed by a full comparison with the reference model and each trim (explicit, forced, periodic) judged against the model state at its instant; a sequential case is non-trivial if a trim closed a peer while sparing a lower-valued protected or in-grace peer and keeping a higher-valued eligible one, or a forced trim closed a protected peer; a concurrent case is non-trivial if operations of different goroutines really overlapped on one peer or with a trim; distinct = distinct generated case")
	r.Assume("a watermark of 0 switches trimming off (documented in the code as 'disabled'); the clause 'leaves at most low-watermark connections' is not judged for such configurations",
		"at age == grace period exactly the statement does not say whether the peer is still inside; both are accepted",
		"tag records belong to a tracking episode: dropped with the Disconnected of the last tracked conn; an ordinary trim may drop the buffered tags of an unconnected, unprotected, out-of-grace peer",
		"ForceTrim: eligible = unprotected for the count clause; leaving more than low conns in total because protected peers were spared is counted (force_trims_leaving_more_than_low_in_total), not raised",
		"mock clock (benbjohnson/clock) and testing/synctest are trusted")

	race := os.Getenv("VERIF_RACE") == "1"
	if !race {
		sequential(r)
		reentrant(r)
	}
	concurrent(r, race)

	if !race {
		for _, k := range []string{"explicit_trims_that_closed", "background_trims_that_closed", "force_trims_that_closed"} {
			r.Require(k, 50)
		}
		r.Require("explicit_trims_sparing_lower_valued_protected", 20)
		r.Require("explicit_trims_sparing_lower_valued_in_grace", 20)
		r.Require("explicit_trims_keeping_higher_valued_eligible", 50)
		r.Require("background_trims_sparing_lower_valued_protected", 5)
		r.Require("background_trims_sparing_lower_valued_in_grace", 5)
		r.Require("force_trims_closing_protected", 20)
		r.Require("connected_duplicate", 100)
		r.Require("disconnected_duplicate_or_untracked", 100)
		r.Require("disconnected_delayed_delivered", 50)
		r.Require("close_attempt_on_failing_conn", 20)
		r.Require("close_attempt_on_already_closed_conn", 20)
		r.Require("decay_applied", 100)
		r.Require("decay_removed_tag", 20)
		r.Require("buffered_record_dropped_by_trim", 5)
	}
}

func sequential(r *run.R) {
	cases := r.Pick(3000, 100000)
	var mu sync.Mutex
	run.Parallel(cases, 0, func(i int) {
		caseID := fmt.Sprintf("seq/%d", i)
		if !r.Want(caseID) || r.TooMany() {
			return
		}
		rng := r.Rand(14, 1, uint64(i))
		cfg := genCfg(rng)
		ops := genHistory(rng, 50+rng.IntN(50))
		if i%6 == 5 {
			// non-default wiring: the decayer has a clock of its own, which stands still
			cfg.SplitClock = true
			for k := range ops {
				switch ops[k].K {
				case "bump":
					ops[k] = op{K: "tag", P: ops[k].P, Tag: plainTags[k%3], V: ops[k].V}
				case "dremove":
					ops[k] = op{K: "untag", P: ops[k].P, Tag: plainTags[k%3]}
				}
			}
		}
		var res *seqResult
		synctest.Test(r.T, func(*testing.T) { res = runSeq(cfg, ops) })
		mu.Lock()
		defer mu.Unlock()
		r.Eval(1)
		for k, v := range res.counts {
			r.Count(k, v)
			if cfg.SplitClock && (k == "explicit_trims" || k == "background_trims") {
				r.Count(k+"_with_a_separate_decayer_clock", v)
			}
		}
		if res.nontriv {
			r.Nontrivial(caseID)
		}
		if i < 2 {
			r.Sample(map[string]any{"case": caseID, "config": cfg, "ops": opsString(ops), "log_tail": tail(res.log, 12)})
		}
		if c := res.complaint; c != nil {
			if strings.HasPrefix(c.sig, "harness:") {
				r.Inconclusive(caseID, c.msg)
				return
			}
			sig := c.sig + "/after:" + ops[res.opIndex].K
			r.Violation(sig, caseID, c.msg, map[string]any{"config": cfg, "ops": ops[:res.opIndex+1], "failed_at_op": res.opIndex, "log": res.log})
		}
	})
}

// reentrant: the Connected-during-trim interleaving, reproduced deterministically (see reentrant.go).
func reentrant(r *run.R) {
	for _, v := range []int{-5, 0, 5} {
		caseID := fmt.Sprintf("reentrant/connected-during-trim/value%d", v)
		if !r.Want(caseID) {
			continue
		}
		var reached, closedFresh bool
		var log []string
		synctest.Test(r.T, func(*testing.T) { reached, closedFresh, log = connectedDuringTrim(v) })
		r.Eval(1)
		if reached {
			r.Count("connected_delivered_between_scan_and_selection", 1)
			r.Nontrivial(caseID)
		}
		if closedFresh {
			// "A trim never closes a connection ... of a peer still inside its grace period"
			r.Violation(sigConnectedDuringTrim, caseID, "trim closed a connection 0 ms after its peer connected (grace period 10 s): the peer had a buffered tag record older than the grace period when the trim scanned its candidates", map[string]any{"log": log})
		}
	}
	r.Require("connected_delivered_between_scan_and_selection", 1)
	// values that do NOT tie with the two peers whose Stat() is the callback point: the comparator
	// holds the segment locks of the two peers it compares, and the flapping peer's segment must be free
	// at that moment (as it would be for a notifier goroutine that gets to run then)
	for _, v := range []int{-5, 5} {
		for _, early := range []bool{false, true} {
			caseID := fmt.Sprintf("reentrant/flap-during-trim/value%d/early-tag=%v", v, early)
			if !r.Want(caseID) {
				continue
			}
			var reached, closedFresh bool
			var log []string
			b := run.Bubble(r.T, func(*testing.T) { reached, closedFresh, log = flapDuringTrim(v, early) })
			r.Eval(1)
			if r.BubbleFailed(b, "reentrant", caseID, "the manager deadlocked", map[string]any{"log": log}) {
				continue
			}
			if reached {
				r.Count("flap_delivered_between_scan_and_selection", 1)
				r.Nontrivial(caseID)
			}
			if closedFresh {
				r.Violation("trim:closed-in-grace/reentrant:flap-during-trim", caseID, "trim closed a connection 0 ms after its peer re-connected (grace period 10 s): the peer had been a candidate with its previous connection when the trim scanned", map[string]any{"log": log})
			}
		}
	}
	r.Require("flap_delivered_between_scan_and_selection", 2)
	// a decaying tag's Close fails on the full close queue (127 never fills it: control)
	for _, fillers := range []int{127, 128, 140} {
		caseID := fmt.Sprintf("reentrant/failed-decaying-tag-close/fillers%d", fillers)
		if !r.Want(caseID) {
			continue
		}
		var reached bool
		var totalA, totalB int
		var closed []int
		var log []string
		b := run.Bubble(r.T, func(*testing.T) { reached, totalA, totalB, closed, log = failedTagClose(fillers) })
		r.Eval(1)
		detail := map[string]any{"log": log, "total_of_peer_with_the_closed_tag": totalA, "total_of_peer_tagged_10": totalB, "peers_closed_by_the_trim": closed}
		if r.BubbleFailed(b, "reentrant", caseID, "the manager deadlocked", detail) {
			continue
		}
		if reached {
			r.Count("decaying_tag_close_failed_on_a_full_queue", 1)
			r.Nontrivial(caseID)
		} else {
			r.Count("decaying_tag_close_succeeded_with_the_decayer_parked", 1)
		}
		// "a peer's value is the sum of its tags as the delivered tag operations imply": bump 30, then three
		// decay rounds of -10 (or a removal by the close): nothing of it may be left after four intervals
		if totalA != 0 || totalB != 10 {
			r.Violation("tags:total-differs/reentrant:failed-decaying-tag-close", caseID, fmt.Sprintf("after Close of the decaying tag (error: %v) and four decay intervals the peer bumped by 30 (-10 per interval) has total %d, the peer tagged 10 has %d", reached, totalA, totalB), detail)
		} else if len(closed) != 1 || closed[0] != 5 {
			r.Violation("trim:closed-higher-valued-peer/reentrant:failed-decaying-tag-close", caseID, fmt.Sprintf("the trim closed peers %v; the eligible peer with the lowest value (0) is p5, p6 has 10", closed), detail)
		}
	}
	r.Require("decaying_tag_close_failed_on_a_full_queue", 1)
}

// concurrent runs the concurrent histories (and only those, with reduced counts, in the race pass).
func concurrent(r *run.R, race bool) {
	cases := r.Pick(1500, 40000)
	if race {
		cases = r.Pick(300, 1500)
	}
	var mu sync.Mutex
	run.Parallel(cases, 0, func(i int) {
		caseID := fmt.Sprintf("conc/%d", i)
		if (!r.Want(caseID) && i%4 != 3) || r.TooMany() {
			return
		}
		var cc concCase
		if i%4 == 3 {
			caseID = fmt.Sprintf("conc-trimrace/%d", i)
			if !r.Want(caseID) {
				return
			}
			cc = genTrimRace(r.Rand(14, 3, uint64(i)))
			r.Count("trimrace_cases", 1)
		} else {
			cc = genConc(r.Rand(14, 2, uint64(i)))
		}
		var x *concRun
		synctest.Test(r.T, func(*testing.T) { x = runConc(cc) })
		res := x.analyse()
		mu.Lock()
		defer mu.Unlock()
		r.Eval(1)
		r.Count("concurrent_cases", 1)
		for k, v := range res.counts {
			r.Count(k, v)
		}
		if res.overlaps > 0 {
			r.Nontrivial(caseID)
			r.Count("concurrent_cases_with_real_overlap", 1)
		}
		if i < 2 {
			r.Sample(map[string]any{"case": caseID, "concurrent_case": cc, "overlapping_pairs": res.overlaps})
		}
		if res.inconcl != "" {
			r.Inconclusive(caseID, res.inconcl)
		}
		seen := map[string]bool{}
		for _, c := range res.complaints {
			if seen[c.sig] {
				continue
			}
			seen[c.sig] = true
			d := map[string]any{"case": cc}
			for k, v := range res.detail {
				d[k] = v
			}
			r.Violation(c.sig, caseID, c.msg, d)
		}
	})
	r.Require("concurrent_cases_with_real_overlap", r.Pick(50, 500)/map[bool]int{false: 1, true: 5}[race])
	r.Require("porcupine_ok", 100)
	r.Require("conc_ops_overlapping_a_trim", 10)
	r.Require("conc_order_pairs_judged", 100)
	r.Require("conc_trims_count_clause_judged", 100)
}

func opsString(ops []op) string {
	s := make([]string, len(ops))
	for i, o := range ops {
		s[i] = o.String()
	}
	return strings.Join(s, " ")
}

func tail(s []string, n int) []string {
	if len(s) > n {
		return s[len(s)-n:]
	}
	return s
}
