package c14

import (
	"context"
	"fmt"
	"math"
	"math/rand/v2"
	"sort"
	"sync/atomic"
	"testing/synctest"
	"time"

	"github.com/benbjohnson/clock"
	coreconnmgr "github.com/libp2p/go-libp2p/core/connmgr"
	"github.com/libp2p/go-libp2p/core/network"
	"github.com/libp2p/go-libp2p/p2p/net/connmgr"
)

// caseCfg: configuration of one generated case.
type caseCfg struct {
	Low, High int
	GraceMs   int64
	SilenceMs int64
	ResMs     int64    // decayer resolution
	DecIntMs  [2]int64 // decay interval of d1, d2 (multiples of the resolution)
	DecSub    [2]int   // fixed decrement per decay round
	BumpMax   int
	// SplitClock: the decayer is configured with a clock of its own (DecayerCfg.Clock) that never moves,
	// the manager with the one the history advances (WithClock); such histories use no decaying tags
	SplitClock bool
}

// op: one generated operation. Generation never looks at the state of the manager (the manager breaks
// ties by map iteration order, so state-dependent generation would not be a function of the seed):
// conn ops address (peer, slot); whether they are fresh or duplicate notifications follows from the
// history.
type op struct {
	K       string `json:"k"`
	P       int    `json:"p,omitempty"`
	S       int    `json:"s,omitempty"` // conn slot
	Tag     string `json:"tag,omitempty"`
	V       int    `json:"v,omitempty"`
	Ms      int64  `json:"ms,omitempty"`
	Inbound bool   `json:"in,omitempty"`
	Streams int    `json:"st,omitempty"`
	Mode    int    `json:"mode,omitempty"`
}

func (o op) String() string {
	switch o.K {
	case "conn":
		return fmt.Sprintf("conn(p%d/%d in=%v st=%d %s)", o.P, o.S, o.Inbound, o.Streams, modeName[o.Mode])
	case "disc":
		return fmt.Sprintf("disc(p%d/%d)", o.P, o.S)
	case "streams":
		return fmt.Sprintf("streams(p%d/%d=%d)", o.P, o.S, o.Streams)
	case "flush", "yield":
		return fmt.Sprintf("%s(%d)", o.K, o.V)
	case "tag":
		return fmt.Sprintf("tag(p%d,%s,%d)", o.P, o.Tag, o.V)
	case "untag":
		return fmt.Sprintf("untag(p%d,%s)", o.P, o.Tag)
	case "upsert":
		return fmt.Sprintf("upsert(p%d,%s,+%d)", o.P, o.Tag, o.V)
	case "bump":
		return fmt.Sprintf("bump(p%d,%s,%d)", o.P, o.Tag, o.V)
	case "dremove":
		return fmt.Sprintf("dremove(p%d,%s)", o.P, o.Tag)
	case "protect", "unprotect":
		return fmt.Sprintf("%s(p%d,%s)", o.K, o.P, o.Tag)
	case "step":
		return fmt.Sprintf("step(%dms)", o.Ms)
	}
	return o.K
}

var extremeValues = []int{math.MaxInt, math.MinInt, math.MaxInt - 7, math.MinInt + 7, math.MaxInt/2 + 1, -(math.MaxInt/2 + 1), math.MaxInt32, math.MinInt32}

var watermarks = [][2]int{{1, 2}, {2, 4}, {3, 3}, {2, 6}, {4, 9}, {1, 2}, {2, 4}, {0, 0}}
var graces = []int64{0, 10000, 20000, 20000}
var stepsMs = []int64{500, 1000, 3000, 5000, 9999, 10000, 10001, 12000, 19999, 20000, 20001, 30000}

func genCfg(rng *rand.Rand) caseCfg {
	w := watermarks[rng.IntN(len(watermarks))]
	c := caseCfg{Low: w[0], High: w[1], GraceMs: graces[rng.IntN(len(graces))], SilenceMs: []int64{10000, 7000}[rng.IntN(2)], ResMs: 3001, BumpMax: 12}
	c.DecIntMs = [2]int64{c.ResMs * int64(1+rng.IntN(2)), c.ResMs * int64(2+rng.IntN(3))}
	c.DecSub = [2]int{1 + rng.IntN(3), 2 + rng.IntN(4)}
	return c
}

func genConnOp(rng *rand.Rand) op {
	mode := modeSync
	switch x := rng.IntN(10); {
	case x >= 9:
		mode = modeFail
	case x >= 6:
		mode = modeDelayed
	}
	streams := 0
	if rng.IntN(2) == 0 {
		streams = 1 + rng.IntN(3)
	}
	return op{K: "conn", P: rng.IntN(nPeers), S: rng.IntN(slotsPerPeer), Inbound: rng.IntN(2) == 0, Streams: streams, Mode: mode}
}

func genOp(rng *rand.Rand) op {
	x := rng.IntN(100)
	switch {
	case x < 22:
		return genConnOp(rng)
	case x < 30:
		return op{K: "disc", P: rng.IntN(nPeers), S: rng.IntN(slotsPerPeer)}
	case x < 33:
		return op{K: "streams", P: rng.IntN(nPeers), S: rng.IntN(slotsPerPeer), Streams: rng.IntN(4)}
	case x < 38:
		return op{K: "flush", V: rng.IntN(8)}
	case x < 50:
		if rng.IntN(8) == 0 {
			// a pin-like tag with a value at the edge of int (totals wrap the same way in the model)
			return op{K: "tag", P: rng.IntN(nPeers), Tag: "pin", V: extremeValues[rng.IntN(len(extremeValues))]}
		}
		return op{K: "tag", P: rng.IntN(nPeers), Tag: plainTags[rng.IntN(3)], V: rng.IntN(16) - 3}
	case x < 54:
		if rng.IntN(8) == 0 {
			return op{K: "untag", P: rng.IntN(nPeers), Tag: "pin"}
		}
		return op{K: "untag", P: rng.IntN(nPeers), Tag: plainTags[rng.IntN(3)]}
	case x < 60:
		return op{K: "upsert", P: rng.IntN(nPeers), Tag: plainTags[rng.IntN(3)], V: rng.IntN(9) - 2}
	case x < 66:
		return op{K: "bump", P: rng.IntN(nPeers), Tag: decTags[rng.IntN(2)], V: rng.IntN(12) - 2}
	case x < 68:
		return op{K: "dremove", P: rng.IntN(nPeers), Tag: decTags[rng.IntN(2)]}
	case x < 73:
		return op{K: "protect", P: rng.IntN(nPeers), Tag: protTags[rng.IntN(2)]}
	case x < 78:
		return op{K: "unprotect", P: rng.IntN(nPeers), Tag: protTags[rng.IntN(2)]}
	case x < 89:
		return op{K: "step", Ms: stepsMs[rng.IntN(len(stepsMs))]}
	case x < 97:
		return op{K: "trim"}
	default:
		return op{K: "force"}
	}
}

// genHistory: a warm-up that populates the manager (connects, a few tags, one or two clock steps so
// that peers have different ages), then random operations.
func genHistory(rng *rand.Rand, n int) []op {
	var ops []op
	warm := 6 + rng.IntN(10)
	for i := 0; i < warm; i++ {
		switch rng.IntN(6) {
		case 0:
			ops = append(ops, op{K: "step", Ms: stepsMs[rng.IntN(len(stepsMs))]})
		case 1:
			ops = append(ops, op{K: "tag", P: rng.IntN(nPeers), Tag: plainTags[rng.IntN(3)], V: rng.IntN(16) - 3})
		default:
			ops = append(ops, genConnOp(rng))
		}
	}
	for len(ops) < n {
		ops = append(ops, genOp(rng))
	}
	return ops
}

// ---- one manager under test with its recorder, fake conns and the reference model ----

type rig struct {
	cfg   caseCfg
	clk   *clock.Mock
	cm    *connmgr.BasicConnMgr
	rec   *recorder
	dtags [2]coreconnmgr.DecayingTag
	slots [nPeers][slotsPerPeer]*fakeConn
	nextC atomic.Int64
	nextL [nPeers]atomic.Int32
}

func newRig(cfg caseCfg, wantGid bool, bumpHook func(v coreconnmgr.DecayingValue, delta int), decayHook func(v coreconnmgr.DecayingValue)) (*rig, error) {
	g := &rig{cfg: cfg, clk: clock.NewMock()}
	var decClk clock.Clock = g.clk
	if cfg.SplitClock {
		decClk = clock.NewMock()
	}
	cm, err := connmgr.NewConnManager(cfg.Low, cfg.High,
		connmgr.WithClock(g.clk),
		connmgr.WithGracePeriod(time.Duration(cfg.GraceMs)*time.Millisecond),
		connmgr.WithSilencePeriod(time.Duration(cfg.SilenceMs)*time.Millisecond),
		connmgr.DecayerConfig(&connmgr.DecayerCfg{Resolution: time.Duration(cfg.ResMs) * time.Millisecond, Clock: decClk}))
	if err != nil {
		return nil, err
	}
	g.cm = cm
	g.rec = &recorder{notifee: cm.Notifee(), nowMs: g.nowMs, wantGid: wantGid}
	for i := range g.dtags {
		sub, max := cfg.DecSub[i], cfg.BumpMax
		// decay: subtract a fixed amount, drop the tag when it reaches zero; bump: bounded sum in [0,max].
		// (the low 8 bits of delta+128 carry the amount; higher bits an id used by concurrent histories)
		t, err := cm.RegisterDecayingTag(decTags[i], time.Duration(cfg.DecIntMs[i])*time.Millisecond,
			func(v coreconnmgr.DecayingValue) (int, bool) {
				if decayHook != nil {
					decayHook(v)
				}
				a := v.Value - sub
				return a, a <= 0
			},
			func(v coreconnmgr.DecayingValue, delta int) int {
				if bumpHook != nil {
					bumpHook(v, delta)
				}
				return clamp(v.Value+bumpAmount(delta), 0, max)
			})
		if err != nil {
			cm.Close()
			return nil, err
		}
		g.dtags[i] = t
	}
	return g, nil
}

// bump deltas: amount in [-100,100] plus an optional id in the higher digits.
func bumpDelta(id, amount int) int { return id*1000 + amount + 200 }
func bumpAmount(delta int) int     { return delta%1000 - 200 }
func bumpID(delta int) int         { return delta / 1000 }

func (g *rig) nowMs() int64 { return g.clk.Now().UnixMilli() }

func decIndex(tag string) int {
	if tag == decTags[0] {
		return 0
	}
	return 1
}

// ---- sequential driver ----

type seqResult struct {
	complaint *complaint
	opIndex   int
	log       []string
	counts    map[string]int
	nontriv   bool
}

type seqRun struct {
	g       *rig
	m       *model
	res     *seqResult
	mayDrop [nPeers]bool
}

func (s *seqRun) logf(format string, a ...any) {
	s.res.log = append(s.res.log, fmt.Sprintf(format, a...))
}

func closedSet(evs []closeEvent) map[int]bool {
	out := map[int]bool{}
	for _, e := range evs {
		out[e.Conn] = true
	}
	return out
}

// applyEchoes: the Disconnected notifications delivered from inside the manager's closes.
func (s *seqRun) applyEchoes(evs []closeEvent) {
	for _, e := range evs {
		s.res.counts["close_"+e.Via]++
		switch {
		case e.Failed:
			s.res.counts["close_attempt_on_failing_conn"]++
		case !e.First:
			s.res.counts["close_attempt_on_already_closed_conn"]++
		case e.Echoed:
			s.m.disconnected(e.Peer, e.Conn)
			s.res.counts["disconnected_echoed_sync"]++
		default:
			s.res.counts["disconnected_echo_delayed"]++
		}
	}
}

func evString(evs []closeEvent) string {
	ids := []string{}
	for _, e := range evs {
		ids = append(ids, fmt.Sprintf("p%d/%d#%d", e.Peer, e.Slot, e.Conn))
	}
	sort.Strings(ids)
	return fmt.Sprint(ids)
}

func (s *seqRun) stateString() string {
	out := fmt.Sprintf("now=%dms count=%d:", s.m.now, s.m.count())
	for i, p := range s.m.peers {
		if !p.entry && len(p.prot) == 0 {
			continue
		}
		cs := []int{}
		for c := range p.conns {
			cs = append(cs, c)
		}
		sort.Ints(cs)
		out += fmt.Sprintf(" p%d{v=%d conns=%v", i, p.value(), cs)
		if len(p.conns) > 0 {
			out += fmt.Sprintf(" age=%d", s.m.now-p.since)
		}
		if p.protected() {
			out += fmt.Sprintf(" prot=%v", keys(p.prot))
		}
		out += "}"
	}
	return out
}

// judge a batch of closes as an ordinary trim / forced trim on the model's CURRENT state, then apply
// the echoed notifications.
func (s *seqRun) judge(kind string, evs []closeEvent, ran bool) *complaint {
	closed := closedSet(evs)
	var cs []complaint
	var f trimFacts
	pre := s.stateString()
	if kind == "force" {
		cs, f = s.m.judgeForce(closed)
	} else {
		cs, f = s.m.judgeTrim(closed, ran)
		s.mayDrop = s.m.mayDropBuffered()
	}
	c := s.res.counts
	if len(evs) > 0 || ran {
		s.logf("   %s-trim on %s", kind, pre)
		s.logf("   closed %s", evString(evs))
	}
	if f.closedPeers > 0 {
		c[kind+"_trims_that_closed"]++
		c[kind+"_peers_closed"] += f.closedPeers
		if f.sparedProtected > 0 {
			c[kind+"_trims_sparing_lower_valued_protected"]++
		}
		if f.sparedGrace > 0 {
			c[kind+"_trims_sparing_lower_valued_in_grace"]++
		}
		if f.sparedHigher > 0 {
			c[kind+"_trims_keeping_higher_valued_eligible"]++
		}
		if f.ties > 0 {
			c[kind+"_trims_with_value_ties"]++
		}
		if f.closedProtected {
			c["force_trims_closing_protected"]++
		}
		if kind != "force" && (f.sparedProtected > 0 || f.sparedGrace > 0) && f.sparedHigher > 0 {
			s.res.nontriv = true
		}
		if kind == "force" && f.closedProtected {
			s.res.nontriv = true
		}
	} else if ran || kind == "force" {
		c[kind+"_trims_that_closed_nothing"]++
	}
	if f.underTrim {
		c["force_trims_leaving_more_than_low_in_total"]++
	}
	s.applyEchoes(evs)
	if len(cs) > 0 {
		return &cs[0]
	}
	return nil
}

// step advances the mock clock to now+ms, stopping at every instant at which one of the manager's
// tickers fires (multiples of the silence period: periodic trim; multiples of the decayer resolution:
// decay round), so that whatever the manager does at a tick is judged against the state AT that tick.
func (s *seqRun) step(ms int64) *complaint {
	cfg := s.g.cfg
	target := s.m.now + ms
	for s.m.now < target {
		next := target
		for _, per := range []int64{cfg.SilenceMs, cfg.ResMs} {
			if t := (s.m.now/per + 1) * per; t < next {
				next = t
			}
		}
		s.g.clk.Add(time.Duration(next-s.m.now) * time.Millisecond)
		synctest.Wait()
		s.m.now = next
		if next%cfg.ResMs == 0 {
			for i, tag := range decTags {
				if next%cfg.DecIntMs[i] == 0 {
					a, r := s.m.decay(tag, cfg.DecSub[i])
					s.res.counts["decay_applied"] += a
					s.res.counts["decay_removed_tag"] += r
				}
			}
		}
		evs := s.g.rec.takeEvents()
		if next%cfg.SilenceMs == 0 {
			s.res.counts["silence_ticks"]++
			if s.m.count() > cfg.High {
				s.res.counts["silence_ticks_above_high"]++
			}
		}
		if len(evs) > 0 {
			// the manager's own periodic trim: a monitored trim, judged by the same rules
			if c := s.judge("background", evs, true); c != nil {
				return c
			}
		} else if next%cfg.SilenceMs == 0 {
			s.mayDrop = s.m.mayDropBuffered()
		}
		if c := s.compare(); c != nil {
			return c
		}
	}
	return nil
}

// compare: "The manager's connection count and each peer's tag total always equal what the
// Connected/Disconnected notifications and tag operations delivered so far imply".
func (s *seqRun) compare() *complaint {
	defer func() { s.mayDrop = [nPeers]bool{} }()
	if got, want := s.g.cm.GetInfo().ConnCount, s.m.count(); got != want {
		return &complaint{"count:conncount", fmt.Sprintf("GetInfo().ConnCount = %d, notifications delivered so far imply %d", got, want)}
	}
	for i, p := range s.m.peers {
		ti := s.g.cm.GetTagInfo(peerIDs[i])
		if ti == nil {
			if len(p.conns) > 0 {
				return &complaint{"count:peer-unknown", fmt.Sprintf("GetTagInfo(p%d) = nil but %d connection(s) are tracked", i, len(p.conns))}
			}
			if p.value() != 0 || anyNonZero(p.tags, p.dec) {
				if s.mayDrop[i] {
					// an ordinary trim may drop the buffered record of an unconnected eligible peer
					s.m.forget(p)
					s.res.counts["buffered_record_dropped_by_trim"]++
					continue
				}
				return &complaint{"tags:record-lost", fmt.Sprintf("GetTagInfo(p%d) = nil but tag operations imply tags %v decaying %v", i, p.tags, p.dec)}
			}
			if s.mayDrop[i] {
				s.m.forget(p)
			}
			continue
		}
		if len(ti.Conns) != len(p.conns) {
			return &complaint{"count:peer-conns", fmt.Sprintf("GetTagInfo(p%d).Conns has %d entries, notifications imply %d", i, len(ti.Conns), len(p.conns))}
		}
		sum := 0
		for _, v := range ti.Tags {
			sum += v
		}
		if ti.Value != sum {
			return &complaint{"tags:value-not-sum", fmt.Sprintf("GetTagInfo(p%d).Value = %d but its Tags %v sum to %d", i, ti.Value, ti.Tags, sum)}
		}
		if ti.Value != p.value() {
			return &complaint{"tags:value", fmt.Sprintf("GetTagInfo(p%d).Value = %d (Tags %v), tag operations imply %d (tags %v decaying %v)", i, ti.Value, ti.Tags, p.value(), p.tags, p.dec)}
		}
		for _, set := range []map[string]int{p.tags, p.dec} {
			for k, v := range set {
				if ti.Tags[k] != v {
					return &complaint{"tags:tag-value", fmt.Sprintf("GetTagInfo(p%d).Tags[%s] = %d, tag operations imply %d", i, k, ti.Tags[k], v)}
				}
			}
		}
		for k, v := range ti.Tags {
			if v != 0 && p.tags[k] == 0 && p.dec[k] == 0 {
				return &complaint{"tags:tag-value", fmt.Sprintf("GetTagInfo(p%d).Tags[%s] = %d, tag operations imply none", i, k, v)}
			}
		}
	}
	return nil
}

func anyNonZero(ms ...map[string]int) bool {
	for _, m := range ms {
		for _, v := range m {
			if v != 0 {
				return true
			}
		}
	}
	return false
}

// conn returns the fake conn in a slot, creating a fresh one when the slot is empty or its conn is closed.
func (g *rig) connFor(o op, m *model) (*fakeConn, bool) {
	c := g.slots[o.P][o.S]
	if c != nil && !c.closed.Load() {
		return c, false
	}
	c = newFakeConn(g.rec, int(g.nextC.Add(1)), o.P, o.S, o.Inbound, o.Streams, o.Mode)
	c.lidx = int(g.nextL[o.P].Add(1)) - 1
	g.slots[o.P][o.S] = c
	if m != nil {
		m.connPeer[c.id] = o.P
	}
	return c, true
}

func (s *seqRun) apply(o op) *complaint {
	g, m, c := s.g, s.m, s.res.counts
	nf := g.rec.notifee
	pid := peerIDs[o.P]
	switch o.K {
	case "conn":
		fc, fresh := g.connFor(o, m)
		nf.Connected(nil, fc)
		if dup := m.connected(o.P, fc.id); dup {
			c["connected_duplicate"]++
		} else if fresh {
			c["connected_new"]++
		}
	case "disc":
		fc := g.slots[o.P][o.S]
		if fc == nil {
			return nil
		}
		fc.closed.Store(true) // the remote side closed it
		nf.Disconnected(nil, fc)
		if dup := m.disconnected(o.P, fc.id); dup {
			c["disconnected_duplicate_or_untracked"]++
		} else {
			c["disconnected"]++
		}
	case "streams":
		if fc := g.slots[o.P][o.S]; fc != nil {
			fc.streams.Store(int32(o.Streams))
		}
	case "flush":
		g.rec.mu.Lock()
		var fc *fakeConn
		if n := len(g.rec.pending); n > 0 {
			i := o.V % n
			fc = g.rec.pending[i]
			g.rec.pending = append(g.rec.pending[:i], g.rec.pending[i+1:]...)
		}
		g.rec.mu.Unlock()
		if fc != nil {
			nf.Disconnected(nil, fc)
			if dup := m.disconnected(fc.peer, fc.id); dup {
				c["disconnected_duplicate_or_untracked"]++
			} else {
				c["disconnected_delayed_delivered"]++
			}
		}
	case "tag":
		g.cm.TagPeer(pid, o.Tag, o.V)
		m.tagPeer(o.P, o.Tag, o.V)
		c["tag_ops"]++
	case "untag":
		g.cm.UntagPeer(pid, o.Tag)
		m.untagPeer(o.P, o.Tag)
		c["tag_ops"]++
	case "upsert":
		f := func(v int) int { return v + o.V }
		g.cm.UpsertTag(pid, o.Tag, f)
		m.upsert(o.P, o.Tag, f)
		c["tag_ops"]++
	case "bump":
		if err := g.dtags[decIndex(o.Tag)].Bump(pid, bumpDelta(0, o.V)); err != nil {
			return &complaint{"harness:bump-refused", err.Error()}
		}
		m.bump(o.P, o.Tag, o.V, g.cfg.BumpMax)
		c["decaying_bumps"]++
	case "dremove":
		if err := g.dtags[decIndex(o.Tag)].Remove(pid); err != nil {
			return &complaint{"harness:remove-refused", err.Error()}
		}
		m.decRemove(o.P, o.Tag)
		c["decaying_removes"]++
	case "protect":
		g.cm.Protect(pid, o.Tag)
		m.peers[o.P].prot[o.Tag] = true
		c["protect_ops"]++
	case "unprotect":
		still := g.cm.Unprotect(pid, o.Tag)
		delete(m.peers[o.P].prot, o.Tag)
		c["protect_ops"]++
		if still != m.peers[o.P].protected() {
			return &complaint{"protect:unprotect-result", fmt.Sprintf("Unprotect(p%d,%s) = %v, protect operations imply %v", o.P, o.Tag, still, m.peers[o.P].protected())}
		}
	case "step":
		return s.step(o.Ms)
	case "trim":
		g.cm.TrimOpenConns(context.Background())
		c["explicit_trims"]++
		if cc := s.judge("explicit", g.rec.takeEvents(), true); cc != nil {
			return cc
		}
	case "force":
		g.cm.ForceTrim()
		c["force_trims"]++
		if cc := s.judge("force", g.rec.takeEvents(), true); cc != nil {
			return cc
		}
	}
	if o.K == "bump" || o.K == "dremove" {
		synctest.Wait() // applied asynchronously by the decayer's goroutine
	}
	// closes outside any trim are not something the statement allows
	if evs := g.rec.takeEvents(); len(evs) > 0 {
		return &complaint{"trim:close-outside-trim", fmt.Sprintf("manager closed %s during %s", evString(evs), o)}
	}
	for t := range protTags {
		if got, want := g.cm.IsProtected(pid, protTags[t]), m.peers[o.P].prot[protTags[t]]; got != want {
			return &complaint{"protect:isprotected", fmt.Sprintf("IsProtected(p%d,%s) = %v, protect operations imply %v", o.P, protTags[t], got, want)}
		}
	}
	return s.compare()
}

// runSeq executes one sequential history inside a synctest bubble (must be called from one).
func runSeq(cfg caseCfg, ops []op) *seqResult {
	res := &seqResult{counts: map[string]int{}, opIndex: -1}
	g, err := newRig(cfg, false, nil, nil)
	if err != nil {
		res.complaint = &complaint{"harness:constructor", err.Error()}
		return res
	}
	defer func() {
		g.cm.Close()
		synctest.Wait()
	}()
	synctest.Wait() // both tickers are armed at the clock's origin
	s := &seqRun{g: g, m: newModel(cfg.Low, cfg.High, cfg.GraceMs), res: res}
	for i, o := range ops {
		s.logf("%d %s", i, o)
		if c := s.apply(o); c != nil {
			res.complaint, res.opIndex = c, i
			s.logf("   state %s", s.stateString())
			return res
		}
	}
	return res
}

var _ network.Conn = (*fakeConn)(nil)
