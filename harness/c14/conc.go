package c14

// Concurrent histories: 2–4 goroutines operate on ONE real BasicConnMgr inside a synctest bubble
// (bubble goroutines run truly in parallel; synctest.Wait() gives exact quiescence between rounds).
//
//   - counts/tag totals "under any interleaving with trims": every Connected/Disconnected/TagPeer/
//     UntagPeer/UpsertTag/decaying bump/decay round/GetTagInfo is recorded with call/return stamps
//     from one atomic logical clock, per peer, and the per-peer histories are checked for
//     linearizability against the per-peer counter model with porcupine (timeout => inconclusive);
//     at every quiescent point GetInfo().ConnCount must equal the sum of the per-peer conn sets.
//   - trims are judged against the INTERVAL they ran in: a complaint is raised only when it holds for
//     every instant/linearization of that interval (definitely protected, definitely inside grace,
//     peers that nobody touched since the last quiescent point, ...).

import (
	"context"
	"fmt"
	"math/bits"
	"math/rand/v2"
	"runtime"
	"sort"
	"sync"
	"sync/atomic"
	"testing/synctest"
	"time"

	"github.com/anishathalye/porcupine"
	coreconnmgr "github.com/libp2p/go-libp2p/core/connmgr"
)

// signature of the one known shape in which a trim closes a peer inside its grace period: the peer had
// only a buffered tag record when the trim scanned its candidates and connected before the selection.
const sigConnectedDuringTrim = "conc-trim:closed-in-grace:connected-during-trim-on-buffered-record"

// ---- per-peer sequential specification (porcupine) ----

const (
	kConn = iota
	kDisc
	kTag
	kUntag
	kUpsert
	kBump
	kDecay
	kGet
	kMayDrop
)

var kName = []string{"Connected", "Disconnected", "TagPeer", "UntagPeer", "UpsertTag", "Bump", "Decay", "GetTagInfo", "TrimMayDropBuffered"}

// pstate: what the notifications and tag operations delivered so far imply for ONE peer
// (an absent tag and a tag with value 0 are the same state: only totals are stated).
type pstate struct {
	conns uint64 // bit i: the peer's i-th conn is tracked
	tags  [3]int32
	dec   [2]int32
}

type pin struct {
	kind int
	conn int // kConn/kDisc: local conn index
	tag  int
	v    int // value / delta / amount
	seen int // kBump/kDecay: the tag's value the manager passed to the bump/decay function
}

type pout struct {
	isNil  bool
	value  int
	tags   [3]int32
	dec    [2]int32
	nconns int
	alien  bool // a tag name nobody set
}

func specFor(cfg caseCfg) porcupine.Model {
	nm := porcupine.NondeterministicModel{
		Init: func() []interface{} { return []interface{}{pstate{}} },
		Step: func(state, input, output interface{}) []interface{} {
			s, in := state.(pstate), input.(pin)
			switch in.kind {
			case kConn:
				s.conns |= 1 << uint(in.conn)
			case kDisc:
				if s.conns&(1<<uint(in.conn)) != 0 {
					s.conns &^= 1 << uint(in.conn)
					if s.conns == 0 {
						s = pstate{} // the episode ends: the peer's record goes with its last connection
					}
				}
			case kTag:
				s.tags[in.tag] = int32(in.v)
			case kUntag:
				s.tags[in.tag] = 0
			case kUpsert:
				s.tags[in.tag] += int32(in.v)
			case kBump:
				if int(s.dec[in.tag]) != in.seen {
					return nil
				}
				s.dec[in.tag] = int32(clamp(in.seen+in.v, 0, cfg.BumpMax))
			case kDecay:
				if int(s.dec[in.tag]) != in.seen {
					return nil
				}
				a := in.seen - cfg.DecSub[in.tag]
				if a <= 0 {
					a = 0
				}
				s.dec[in.tag] = int32(a)
			case kGet:
				o := output.(pout)
				if o.isNil {
					if s != (pstate{}) {
						return nil
					}
					return []interface{}{s}
				}
				sum := 0
				for _, v := range s.tags {
					sum += int(v)
				}
				for _, v := range s.dec {
					sum += int(v)
				}
				if o.alien || o.tags != s.tags || o.dec != s.dec || o.value != sum || o.nconns != bits.OnesCount64(s.conns) {
					return nil
				}
			case kMayDrop:
				// an ordinary trim may drop the buffered record of an unconnected peer
				if s.conns == 0 && s != (pstate{}) {
					return []interface{}{s, pstate{}}
				}
			}
			return []interface{}{s}
		},
		DescribeOperation: func(input, output interface{}) string {
			in := input.(pin)
			d := fmt.Sprintf("%s(conn=%d tag=%d v=%d seen=%d)", kName[in.kind], in.conn, in.tag, in.v, in.seen)
			if in.kind == kGet {
				d += fmt.Sprintf(" -> %+v", output.(pout))
			}
			return d
		},
	}
	return nm.ToModel()
}

// ---- recording ----

type hop struct {
	Peer    int    `json:"peer"`
	Kind    int    `json:"kind"`
	Conn    int    `json:"conn,omitempty"`
	Tag     int    `json:"tag,omitempty"`
	V       int    `json:"v,omitempty"`
	Seen    int    `json:"seen,omitempty"`
	Out     *pout  `json:"-"`
	OutS    string `json:"out,omitempty"`
	Call    int64  `json:"call"`
	Ret     int64  `json:"ret"`
	W       int    `json:"w"` // worker index, -1 main, -2 manager-internal (decayer), -3 echo from a trim
	ClockB  int64  `json:"clock_b,omitempty"`
	ClockA  int64  `json:"clock_a,omitempty"`
	TrimIdx int    `json:"trim_idx"` // echo Disconnected: the trim that closed the conn (-1 otherwise)
}

type trimOp struct {
	Idx    int          `json:"idx"`
	Kind   string       `json:"kind"` // explicit | force | background
	Gid    int64        `json:"gid"`
	W      int          `json:"w"`
	Call   int64        `json:"call"`
	Ret    int64        `json:"ret"`
	ClockC int64        `json:"clock_before_ms"`
	Tick   bool         `json:"tick,omitempty"` // background: the clock step ended on a silence-period tick
	Events []closeEvent `json:"closes,omitempty"`
}

type protOp struct {
	Peer, Tag int
	Set       bool
	Call, Ret int64
}

type snap struct {
	Stamp  int64
	Count  int
	Val    [nPeers]int
	NConns [nPeers]int
	Conns  [nPeers][]int // conn ids tracked
	Prot   [nPeers][2]bool
}

type wlog struct {
	w     int
	gid   int64
	hops  []hop
	trims []trimOp
	prots []protOp
}

type concCase struct {
	StatYield int      `json:"stat_yield,omitempty"` // runtime.Gosched() calls inside every Stat() the manager makes
	Cfg       caseCfg  `json:"config"`
	Setup     []op     `json:"setup"`
	Rounds    [][][]op `json:"rounds"`  // round -> worker -> ops
	Between   [][]op   `json:"between"` // ops of the main goroutine after each round
}

type concResult struct {
	complaints []complaint
	inconcl    string
	counts     map[string]int
	overlaps   int
	detail     map[string]any
}

type concRun struct {
	g        *rig
	cc       concCase
	res      *concResult
	main     *wlog
	logs     []*wlog
	hookMu   sync.Mutex
	hookHops []hop
	bumpSeq  atomic.Int64
	bumpMu   sync.Mutex
	bumpCall map[int]hop // bump id -> partially filled hop (Call stamp, peer, tag, amount)
	connMu   sync.Mutex
	connByAd map[string]*fakeConn
	snaps    []snap
	protM    [nPeers][2]bool
	gids     map[int64]int
	gidMu    sync.Mutex
}

func peerIndex(id string) int {
	for i, p := range peerIDs {
		if string(p) == id {
			return i
		}
	}
	return -1
}

func tagIndex(names []string, n string) int {
	for i, t := range names {
		if t == n {
			return i
		}
	}
	return -1
}

func (x *concRun) outOf(ti *coreconnmgr.TagInfo) *pout {
	if ti == nil {
		return &pout{isNil: true}
	}
	o := &pout{value: ti.Value, nconns: len(ti.Conns)}
	for k, v := range ti.Tags {
		if i := tagIndex(plainTags, k); i >= 0 {
			o.tags[i] = int32(v)
		} else if i := tagIndex(decTags, k); i >= 0 {
			o.dec[i] = int32(v)
		} else {
			o.alien = true
		}
	}
	return o
}

// exec performs one generated operation on behalf of worker w and records it at the API boundary
// (call stamp before invoking, return stamp after).
func (x *concRun) exec(w *wlog, o op, inRound bool) {
	g, rec := x.g, x.g.rec
	nf := rec.notifee
	pid := peerIDs[o.P]
	switch o.K {
	case "conn":
		fc, fresh := g.connFor(o, nil)
		if fc.lidx >= 64 {
			fc.closed.Store(true)
			return
		}
		if fresh {
			x.connMu.Lock()
			x.connByAd[fc.addr.String()] = fc
			x.connMu.Unlock()
		}
		h := hop{Peer: o.P, Kind: kConn, Conn: fc.lidx, W: w.w, TrimIdx: -1, ClockB: g.nowMs()}
		h.Call = rec.tick()
		nf.Connected(nil, fc)
		h.Ret = rec.tick()
		h.ClockA = g.nowMs()
		w.hops = append(w.hops, h)
	case "disc":
		fc := g.slots[o.P][o.S]
		if fc == nil || fc.lidx >= 64 {
			return
		}
		fc.closed.Store(true)
		h := hop{Peer: o.P, Kind: kDisc, Conn: fc.lidx, W: w.w, TrimIdx: -1}
		h.Call = rec.tick()
		nf.Disconnected(nil, fc)
		h.Ret = rec.tick()
		w.hops = append(w.hops, h)
	case "flush":
		rec.mu.Lock()
		var fc *fakeConn
		if n := len(rec.pending); n > 0 {
			i := o.V % n
			fc = rec.pending[i]
			rec.pending = append(rec.pending[:i], rec.pending[i+1:]...)
		}
		rec.mu.Unlock()
		if fc != nil {
			h := hop{Peer: fc.peer, Kind: kDisc, Conn: fc.lidx, W: w.w, TrimIdx: -1}
			h.Call = rec.tick()
			nf.Disconnected(nil, fc)
			h.Ret = rec.tick()
			w.hops = append(w.hops, h)
		}
	case "streams":
		if fc := g.slots[o.P][o.S]; fc != nil {
			fc.streams.Store(int32(o.Streams))
		}
	case "yield":
		for i := 0; i < o.V; i++ {
			runtime.Gosched()
		}
	case "tag", "untag", "upsert":
		h := hop{Peer: o.P, Tag: tagIndex(plainTags, o.Tag), V: o.V, W: w.w, TrimIdx: -1}
		h.Call = rec.tick()
		switch o.K {
		case "tag":
			h.Kind = kTag
			g.cm.TagPeer(pid, o.Tag, o.V)
		case "untag":
			h.Kind = kUntag
			g.cm.UntagPeer(pid, o.Tag)
		default:
			h.Kind = kUpsert
			g.cm.UpsertTag(pid, o.Tag, func(v int) int {
				if o.V%2 == 0 {
					runtime.Gosched() // the callback runs under the peer's segment lock: widen the window
				}
				return v + o.V
			})
		}
		h.Ret = rec.tick()
		w.hops = append(w.hops, h)
	case "bump":
		id := int(x.bumpSeq.Add(1))
		h := hop{Peer: o.P, Kind: kBump, Tag: decIndex(o.Tag), V: o.V, W: w.w, TrimIdx: -1}
		x.bumpMu.Lock()
		h.Call = rec.tick()
		x.bumpCall[id] = h
		x.bumpMu.Unlock()
		if err := g.dtags[decIndex(o.Tag)].Bump(pid, bumpDelta(id, o.V)); err != nil {
			x.bumpMu.Lock()
			delete(x.bumpCall, id) // queue full: the bump was refused, nothing was delivered
			x.bumpMu.Unlock()
		}
	case "protect", "unprotect":
		p := protOp{Peer: o.P, Tag: tagIndex(protTags, o.Tag), Set: o.K == "protect"}
		p.Call = rec.tick()
		if p.Set {
			g.cm.Protect(pid, o.Tag)
		} else {
			g.cm.Unprotect(pid, o.Tag)
		}
		p.Ret = rec.tick()
		w.prots = append(w.prots, p)
	case "get":
		h := hop{Peer: o.P, Kind: kGet, W: w.w, TrimIdx: -1}
		h.Call = rec.tick()
		ti := g.cm.GetTagInfo(pid)
		h.Ret = rec.tick()
		h.Out = x.outOf(ti)
		w.hops = append(w.hops, h)
	case "trim", "force":
		t := trimOp{Kind: "explicit", Gid: w.gid, W: w.w, ClockC: g.nowMs()}
		t.Call = rec.tick()
		if o.K == "trim" {
			g.cm.TrimOpenConns(context.Background())
		} else {
			t.Kind = "force"
			g.cm.ForceTrim()
		}
		t.Ret = rec.tick()
		w.trims = append(w.trims, t)
	case "step", "tick":
		// stop at every tick instant of the manager's tickers (see seqRun.step); each sub-step is one
		// potential periodic trim. Only one goroutine steps the clock at a time.
		cfg := g.cfg
		now := g.nowMs()
		target := now + o.Ms
		if o.K == "tick" {
			// straight to the manager's next periodic-trim tick: the trim then runs on the manager's own
			// goroutine while the other goroutines of the round are still operating
			target = (now/cfg.SilenceMs + 1) * cfg.SilenceMs
		}
		for now < target {
			next := target
			for _, per := range []int64{cfg.SilenceMs, cfg.ResMs} {
				if t := (now/per + 1) * per; t < next {
					next = t
				}
			}
			t := trimOp{Kind: "background", Gid: -1, W: w.w, ClockC: now, Tick: next%cfg.SilenceMs == 0}
			t.Call = rec.tick()
			g.clk.Add(time.Duration(next-now) * time.Millisecond)
			if !inRound {
				synctest.Wait()
			}
			t.Ret = rec.tick()
			w.trims = append(w.trims, t)
			now = next
		}
	}
}

func (x *concRun) bumpHook(v coreconnmgr.DecayingValue, delta int) {
	id := bumpID(delta)
	x.bumpMu.Lock()
	h, ok := x.bumpCall[id]
	delete(x.bumpCall, id)
	x.bumpMu.Unlock()
	if !ok {
		return
	}
	h.Seen = v.Value
	h.Ret = x.g.rec.tick() // inside the critical section in which the bump takes effect
	x.hookMu.Lock()
	x.hookHops = append(x.hookHops, h)
	x.hookMu.Unlock()
}

func (x *concRun) decayHook(v coreconnmgr.DecayingValue) {
	h := hop{Peer: peerIndex(string(v.Peer)), Kind: kDecay, Tag: tagIndex(decTags, v.Tag.Name()), Seen: v.Value, W: -2, TrimIdx: -1}
	h.Call = x.g.rec.tick() // both stamps inside the critical section in which the decay takes effect
	h.Ret = x.g.rec.tick()
	x.hookMu.Lock()
	x.hookHops = append(x.hookHops, h)
	x.hookMu.Unlock()
}

// quiesce: exact quiescent point. Reads the whole observable state (the reads are part of the
// per-peer histories) and checks the global count against the per-peer conn sets.
func (x *concRun) quiesce(wait bool) {
	if wait {
		synctest.Wait()
	}
	g := x.g
	var s snap
	s.Count = g.cm.GetInfo().ConnCount
	sum := 0
	for p := range peerIDs {
		h := hop{Peer: p, Kind: kGet, W: -1, TrimIdx: -1}
		h.Call = g.rec.tick()
		ti := g.cm.GetTagInfo(peerIDs[p])
		h.Ret = g.rec.tick()
		h.Out = x.outOf(ti)
		x.main.hops = append(x.main.hops, h)
		if ti != nil {
			s.Val[p], s.NConns[p] = ti.Value, len(ti.Conns)
			vsum := 0
			for _, v := range ti.Tags {
				vsum += v
			}
			if vsum != ti.Value {
				x.res.complaints = append(x.res.complaints, complaint{"conc-tags:value-not-sum", fmt.Sprintf("quiescent GetTagInfo(p%d).Value = %d but its Tags %v sum to %d", p, ti.Value, ti.Tags, vsum)})
			}
			x.connMu.Lock()
			for a := range ti.Conns {
				if fc := x.connByAd[a]; fc != nil {
					s.Conns[p] = append(s.Conns[p], fc.id)
				}
			}
			x.connMu.Unlock()
			sum += len(ti.Conns)
		}
		for t := range protTags {
			s.Prot[p][t] = g.cm.IsProtected(peerIDs[p], protTags[t])
			if s.Prot[p][t] != x.protM[p][t] {
				x.res.complaints = append(x.res.complaints, complaint{"conc-protect:state", fmt.Sprintf("quiescent IsProtected(p%d,%s) = %v, protect operations imply %v", p, protTags[t], s.Prot[p][t], x.protM[p][t])})
			}
		}
	}
	// "The manager's connection count ... always equal[s] what the notifications delivered so far imply"
	if s.Count != sum {
		x.res.complaints = append(x.res.complaints, complaint{"conc-count:conncount", fmt.Sprintf("quiescent GetInfo().ConnCount = %d but the peers' tracked conn sets hold %d (each set is checked against the notification history)", s.Count, sum)})
	}
	s.Stamp = g.rec.tick()
	x.snaps = append(x.snaps, s)
}

func (x *concRun) applyProt(ops []op) {
	for _, o := range ops {
		if o.K == "protect" || o.K == "unprotect" {
			x.protM[o.P][tagIndex(protTags, o.Tag)] = o.K == "protect"
		}
	}
}

// runConc executes one concurrent case inside a synctest bubble; the recorded run is analysed by
// (*concRun).analyse OUTSIDE the bubble (porcupine's timeout must be real time).
func runConc(cc concCase) *concRun {
	res := &concResult{counts: map[string]int{}}
	x := &concRun{cc: cc, res: res, main: &wlog{w: -1, gid: goid()}, bumpCall: map[int]hop{}, connByAd: map[string]*fakeConn{}, gids: map[int64]int{}}
	g, err := newRig(cc.Cfg, true, x.bumpHook, x.decayHook)
	if err != nil {
		res.inconcl = err.Error()
		return x
	}
	x.g = g
	g.rec.statYield.Store(int32(cc.StatYield))
	x.gids[x.main.gid] = -1
	x.logs = append(x.logs, x.main)
	defer func() {
		g.cm.Close()
		synctest.Wait()
	}()
	x.quiesce(true)
	for _, o := range cc.Setup {
		x.exec(x.main, o, false)
		x.applyProt([]op{o})
		x.quiesce(asyncOp(o))
	}
	for ri, round := range cc.Rounds {
		var wg sync.WaitGroup
		start := make(chan struct{})
		for wi, ops := range round {
			w := &wlog{w: wi}
			x.logs = append(x.logs, w)
			wg.Add(1)
			go func() {
				defer wg.Done()
				w.gid = goid()
				x.gidMu.Lock()
				x.gids[w.gid] = w.w
				x.gidMu.Unlock()
				<-start
				for _, o := range ops {
					x.exec(w, o, true)
				}
			}()
		}
		close(start)
		wg.Wait()
		for _, ops := range round {
			x.applyProt(ops) // each (peer, protection tag) has a single owner per round: program order decides
		}
		x.quiesce(true)
		for _, o := range cc.Between[ri] {
			x.exec(x.main, o, false)
			x.applyProt([]op{o})
			x.quiesce(asyncOp(o))
		}
	}
	return x
}

// asyncOp: operations whose effect is applied by one of the manager's goroutines.
func asyncOp(o op) bool { return o.K == "bump" || o.K == "dremove" || o.K == "step" || o.K == "tick" }

// ---- analysis ----

func overlap(aC, aR, bC, bR int64) bool { return aC < bR && bC < aR }

func (x *concRun) analyse() *concResult {
	res, cfg := x.res, x.cc.Cfg
	if x.g == nil {
		return res
	}
	var hops []hop
	var trims []trimOp
	var prots []protOp
	for _, w := range x.logs {
		hops = append(hops, w.hops...)
		trims = append(trims, w.trims...)
		prots = append(prots, w.prots...)
	}
	hops = append(hops, x.hookHops...)
	if len(x.bumpCall) > 0 {
		res.inconcl = fmt.Sprintf("%d queued bump(s) never reached the bump function", len(x.bumpCall))
		return res
	}
	sort.Slice(trims, func(i, j int) bool { return trims[i].Call < trims[j].Call })
	for i := range trims {
		trims[i].Idx = i
	}
	// attribute every close to the trim that issued it (same goroutine for explicit/forced trims, a
	// manager goroutine inside a clock step for the periodic trim)
	events := x.g.rec.takeEvents()
	for _, e := range events {
		_, ours := x.gids[e.Gid]
		found := -1
		for i := range trims {
			t := &trims[i]
			if t.Call < e.Stamp && e.Stamp < t.Ret && ((ours && t.Kind != "background" && t.Gid == e.Gid) || (!ours && t.Kind == "background")) {
				found = i
				break
			}
		}
		if found < 0 {
			res.complaints = append(res.complaints, complaint{"conc-trim:close-outside-trim", fmt.Sprintf("manager closed conn #%d of p%d outside any trim call or clock step", e.Conn, e.Peer)})
			continue
		}
		trims[found].Events = append(trims[found].Events, e)
		if e.Echoed {
			lidx := -1
			x.connMu.Lock()
			for _, fc := range x.connByAd {
				if fc.id == e.Conn {
					lidx = fc.lidx
				}
			}
			x.connMu.Unlock()
			hops = append(hops, hop{Peer: e.Peer, Kind: kDisc, Conn: lidx, W: -3, Call: e.EchoC, Ret: e.EchoR, TrimIdx: found})
		}
		res.counts["conc_closes"]++
	}
	sort.Slice(hops, func(i, j int) bool { return hops[i].Call < hops[j].Call })
	var byPeer [nPeers][]hop
	for _, h := range hops {
		byPeer[h.Peer] = append(byPeer[h.Peer], h)
	}
	mutating := func(k int) bool { return k != kGet && k != kMayDrop }

	// how much real overlap did the schedule produce?
	for p := range byPeer {
		hs := byPeer[p]
		for i := range hs {
			for j := i + 1; j < len(hs) && hs[j].Call < hs[i].Ret; j++ {
				if hs[i].W != hs[j].W && (mutating(hs[i].Kind) || mutating(hs[j].Kind)) {
					res.overlaps++
				}
			}
		}
	}
	for _, t := range trims {
		if t.Kind == "background" && len(t.Events) == 0 {
			continue
		}
		for _, h := range hops {
			if mutating(h.Kind) && h.TrimIdx != t.Idx && overlap(h.Call, h.Ret, t.Call, t.Ret) {
				res.counts["conc_ops_overlapping_a_trim"]++
				res.overlaps++
			}
		}
		for _, o := range trims {
			if o.Idx > t.Idx && overlap(o.Call, o.Ret, t.Call, t.Ret) && (o.Kind != "background" || len(o.Events) > 0) {
				res.counts["conc_trims_overlapping_trims"]++
				res.overlaps++
			}
		}
	}
	res.counts["conc_overlapping_op_pairs"] += res.overlaps

	x.judgeTrims(trims, byPeer, prots)

	// per-peer linearizability of the counter/tag histories
	spec := specFor(cfg)
	for p := range byPeer {
		var ops []porcupine.Operation
		for _, h := range byPeer[p] {
			if (h.Kind == kConn || h.Kind == kDisc) && h.Conn < 0 {
				continue
			}
			var out interface{}
			if h.Out != nil {
				out = *h.Out
			}
			ops = append(ops, porcupine.Operation{ClientId: h.W + 3, Input: pin{kind: h.Kind, conn: h.Conn, tag: h.Tag, v: h.V, seen: h.Seen}, Output: out, Call: h.Call, Return: h.Ret})
		}
		for _, t := range trims {
			if t.Kind == "explicit" || (t.Kind == "background" && t.Tick) {
				ops = append(ops, porcupine.Operation{ClientId: 20 + t.W, Input: pin{kind: kMayDrop}, Call: t.Call, Return: t.Ret})
			}
		}
		res.counts["porcupine_ops"] += len(ops)
		switch porcupine.CheckOperationsTimeout(spec, ops, 5*time.Second) {
		case porcupine.Ok:
			res.counts["porcupine_ok"]++
		case porcupine.Unknown:
			res.counts["porcupine_unknown"]++
			res.inconcl = fmt.Sprintf("porcupine timed out on peer %d (%d ops)", p, len(ops))
		case porcupine.Illegal:
			res.counts["porcupine_illegal"]++
			hs := byPeer[p]
			for i := range hs {
				if hs[i].Out != nil {
					hs[i].OutS = fmt.Sprintf("%+v", *hs[i].Out)
				}
			}
			res.complaints = append(res.complaints, complaint{"conc-linearizability:peer-history", fmt.Sprintf("history of peer %d (%d ops) is not linearizable against the per-peer count/tag model", p, len(ops))})
			if res.detail == nil {
				res.detail = map[string]any{}
			}
			res.detail[fmt.Sprintf("history_p%d", p)] = describeHops(hs)
		}
	}
	if len(res.complaints) > 0 {
		if res.detail == nil {
			res.detail = map[string]any{}
		}
		res.detail["trims"] = trims
	}
	return res
}

func describeHops(hs []hop) []string {
	out := make([]string, len(hs))
	for i, h := range hs {
		out[i] = fmt.Sprintf("[%d,%d] w%d %s conn=%d tag=%d v=%d seen=%d %s", h.Call, h.Ret, h.W, kName[h.Kind], h.Conn, h.Tag, h.V, h.Seen, h.OutS)
	}
	return out
}

// judgeTrims: interval rules. Q is the last quiescent snapshot before the trim; a peer is STABLE for a
// trim if nothing touched it between Q and the end of the trim (then its value, conns, protection at
// the trim's instant are those of Q).
func (x *concRun) judgeTrims(trims []trimOp, byPeer [nPeers][]hop, prots []protOp) {
	res, cfg := x.res, x.cc.Cfg
	low, grace := cfg.Low, cfg.GraceMs
	complain := func(sig, msg string) { res.complaints = append(res.complaints, complaint{sig, msg}) }
	for ti := range trims {
		t := &trims[ti]
		if t.Kind == "background" && len(t.Events) == 0 {
			continue
		}
		qi := -1
		for i, s := range x.snaps {
			if s.Stamp < t.Call {
				qi = i
			}
		}
		if qi < 0 {
			continue
		}
		Q := &x.snaps[qi]
		touched := func(p int) bool {
			for _, h := range byPeer[p] {
				if h.Kind != kGet && h.TrimIdx != t.Idx && h.Ret > Q.Stamp && h.Call < t.Ret {
					return true
				}
			}
			for _, pr := range prots {
				if pr.Peer == p && pr.Ret > Q.Stamp && pr.Call < t.Ret {
					return true
				}
			}
			return false
		}
		// bounds on the episode start (clock readings around the Connected notifications since the last
		// quiescent point at which the peer had no connection)
		since := func(p int, before int64) (lb, ub int64, ok bool) {
			z := int64(0)
			for i := qi; i >= 0; i-- {
				if x.snaps[i].NConns[p] == 0 {
					z = x.snaps[i].Stamp
					break
				}
			}
			lb, ub = 1<<62, -1
			for _, h := range byPeer[p] {
				if h.Kind == kConn && h.Ret > z && h.Call < before {
					ok = true
					lb, ub = min(lb, h.ClockB), max(ub, h.ClockA)
				}
			}
			return
		}
		defProtected := func(p int, upto int64) bool {
			for tg := range protTags {
				if !Q.Prot[p][tg] {
					continue
				}
				cleared := false
				for _, pr := range prots {
					if pr.Peer == p && pr.Tag == tg && !pr.Set && pr.Ret > Q.Stamp && pr.Call < upto {
						cleared = true
					}
				}
				if !cleared {
					return true
				}
			}
			return false
		}
		defUnprotected := func(p int) bool {
			if Q.Prot[p][0] || Q.Prot[p][1] {
				return false
			}
			for _, pr := range prots {
				if pr.Peer == p && pr.Set && pr.Ret > Q.Stamp && pr.Call < t.Ret {
					return false
				}
			}
			return true
		}
		maxCount, minCount := Q.Count, Q.Count
		for p := range byPeer {
			for _, h := range byPeer[p] {
				if h.Ret > Q.Stamp && h.Call < t.Ret {
					if h.Kind == kConn {
						maxCount++
					} else if h.Kind == kDisc && h.TrimIdx != t.Idx {
						minCount--
					}
				}
			}
		}
		// while tag values change, the manager's sort runs on a moving order: the order clause is judged
		// only for trims during which no tag operation was in flight; the count clause only when no
		// Connected notification arrived since the last quiescent point (connections can then only go)
		valuesConstant := true
		for p := range byPeer {
			for _, h := range byPeer[p] {
				if h.Kind >= kTag && h.Kind <= kDecay && overlap(h.Call, h.Ret, t.Call, t.Ret) {
					valuesConstant = false
				}
			}
		}
		noNewConns := maxCount == Q.Count
		attempted := map[int]bool{}
		hit := map[int]int{}
		for _, e := range t.Events {
			attempted[e.Conn] = true
			hit[e.Peer]++
		}
		ran := true
		if t.Kind == "explicit" {
			// TrimOpenConns may return without trimming when another trim completed while it waited
			for _, o := range trims {
				if o.Idx != t.Idx && o.Kind != "background" && overlap(o.Call, o.Ret, t.Call, t.Ret) {
					ran = false
				}
			}
		}
		res.counts["conc_"+t.Kind+"_trims"]++
		if len(t.Events) > 0 {
			res.counts["conc_"+t.Kind+"_trims_that_closed"]++
		}
		var stable [nPeers]bool
		nStable := 0
		for p := range peerIDs {
			stable[p] = !touched(p)
			if stable[p] {
				nStable++
			}
		}
		res.counts["conc_stable_peers_at_trims"] += nStable
		res.counts["conc_unstable_peers_at_trims"] += nPeers - nStable
		openAfter := func(p int) int {
			k := 0
			for _, c := range Q.Conns[p] {
				if !attempted[c] {
					k++
				}
			}
			return k
		}
		// "does nothing when the connection count is at or below the low watermark"
		if len(t.Events) > 0 && maxCount <= low {
			complain("conc-"+t.Kind+":closed-at-or-below-low", fmt.Sprintf("%s trim #%d closed %s although the connection count cannot have exceeded %d (low %d)", t.Kind, t.Idx, evString(t.Events), maxCount, low))
		}
		if t.Kind != "force" {
			for _, e := range t.Events {
				// "never closes a connection of a protected peer"
				if defProtected(e.Peer, e.Stamp) {
					complain("conc-trim:closed-protected", fmt.Sprintf("%s trim #%d closed conn #%d of p%d which was protected during the whole trim", t.Kind, t.Idx, e.Conn, e.Peer))
				}
				// "... or of a peer still inside its grace period"
				if lb, _, ok := since(e.Peer, e.Stamp); ok && e.ClockM-lb < grace {
					sig := "conc-trim:closed-in-grace"
					// known shape (TOCTOU between the candidate scan and the selection): the peer had only a
					// buffered tag record when the trim started and its Connected arrived during the trim
					if Q.NConns[e.Peer] == 0 {
						during := true
						for _, h := range byPeer[e.Peer] {
							if h.Kind == kConn && h.Ret > Q.Stamp && h.Ret < t.Call {
								during = false
							}
						}
						if during {
							sig = sigConnectedDuringTrim
						}
					}
					complain(sig, fmt.Sprintf("%s trim #%d closed conn #%d of p%d at most %d ms after the peer connected (grace %d ms)", t.Kind, t.Idx, e.Conn, e.Peer, e.ClockM-lb, grace))
				}
			}
			eligible := func(p int) bool { // definitely eligible during the whole trim
				if !stable[p] || Q.NConns[p] == 0 || !defUnprotected(p) {
					return false
				}
				_, ub, ok := since(p, Q.Stamp)
				return ok && t.ClockC-ub > grace
			}
			left := 0
			for y := range peerIDs {
				if !eligible(y) {
					continue
				}
				res.counts["conc_definitely_eligible_peers_at_trims"]++
				left += openAfter(y)
				if hit[y] > 0 {
					continue
				}
				// "never closes a peer while a lower-valued eligible peer is kept"
				for xp := range hit {
					if !valuesConstant {
						break
					}
					if stable[xp] && Q.Val[y] < Q.Val[xp] {
						complain("conc-trim:kept-lower-valued-eligible", fmt.Sprintf("%s trim #%d closed p%d (value %d) but kept eligible p%d (value %d); nobody touched either peer since the last quiescent point", t.Kind, t.Idx, xp, Q.Val[xp], y, Q.Val[y]))
					}
					res.counts["conc_order_pairs_judged"]++
				}
			}
			// "otherwise leaves at most low-watermark connections among the eligible peers"
			if ran && noNewConns && minCount > low && low > 0 && cfg.High > 0 {
				res.counts["conc_trims_count_clause_judged"]++
				if left > low {
					complain("conc-trim:left-above-low-among-eligible", fmt.Sprintf("%s trim #%d ran with more than %d conns and left %d conns among peers that were eligible during the whole trim (low %d)", t.Kind, t.Idx, low, left, low))
				}
			}
		} else {
			left := 0
			for y := range peerIDs {
				if !stable[y] || Q.NConns[y] == 0 || !defUnprotected(y) {
					continue
				}
				left += openAfter(y)
				for _, e := range t.Events {
					// "only a memory-emergency forced trim may close protected peers, and only after all unprotected ones"
					if defProtected(e.Peer, e.Stamp) && openAfter(y) > 0 {
						complain("conc-force:closed-protected-before-unprotected", fmt.Sprintf("ForceTrim #%d closed conn #%d of protected p%d while unprotected p%d keeps %d open conn(s)", t.Idx, e.Conn, e.Peer, y, openAfter(y)))
					}
				}
				if hit[y] > 0 {
					continue
				}
				for xp := range hit {
					if !valuesConstant {
						break
					}
					if stable[xp] && defUnprotected(xp) && Q.Val[y] < Q.Val[xp] {
						complain("conc-force:kept-lower-valued", fmt.Sprintf("ForceTrim #%d closed unprotected p%d (value %d) but kept unprotected p%d (value %d)", t.Idx, xp, Q.Val[xp], y, Q.Val[y]))
					}
					res.counts["conc_order_pairs_judged"]++
				}
			}
			if noNewConns && minCount > low {
				res.counts["conc_trims_count_clause_judged"]++
				if left > low {
					complain("conc-force:left-above-low-among-unprotected", fmt.Sprintf("ForceTrim #%d ran with more than %d conns and left %d conns among unprotected peers (low %d)", t.Idx, low, left, low))
				}
			}
		}
	}
}

// ---- generation (a function of the PRNG only) ----

func genConc(rng *rand.Rand) concCase {
	cc := concCase{Cfg: genCfg(rng), StatYield: rng.IntN(4)}
	// decay rounds are rare in concurrent cases: a clock step that first crosses a decay tick waits (inside
	// the mock clock) for the whole bubble to go idle before it reaches the periodic-trim tick
	cc.Cfg.ResMs = 60011
	cc.Cfg.DecIntMs = [2]int64{cc.Cfg.ResMs, 2 * cc.Cfg.ResMs}
	if cc.Cfg.Low == 0 && rng.IntN(2) == 0 {
		cc.Cfg.Low, cc.Cfg.High = 2, 4
	}
	for i, n := 0, 8+rng.IntN(10); i < n; i++ {
		switch rng.IntN(8) {
		case 0:
			cc.Setup = append(cc.Setup, op{K: "step", Ms: stepsMs[rng.IntN(len(stepsMs))]})
		case 1:
			cc.Setup = append(cc.Setup, op{K: "tag", P: rng.IntN(nPeers), Tag: plainTags[rng.IntN(3)], V: rng.IntN(16) - 3})
		case 2:
			cc.Setup = append(cc.Setup, op{K: "protect", P: rng.IntN(nPeers), Tag: protTags[rng.IntN(2)]})
		default:
			cc.Setup = append(cc.Setup, genConnOp(rng))
		}
	}
	rounds := 3 + rng.IntN(4)
	for ri := 0; ri < rounds; ri++ {
		W := 2 + rng.IntN(3)
		round := make([][]op, W)
		stepper := -1
		if rng.IntN(5) < 2 {
			stepper = rng.IntN(W)
		}
		// a round concentrates on a few peers so that operations collide
		focus := []int{rng.IntN(nPeers), rng.IntN(nPeers), rng.IntN(nPeers)}
		pickPeer := func() int {
			if rng.IntN(4) > 0 {
				return focus[rng.IntN(len(focus))]
			}
			return rng.IntN(nPeers)
		}
		// every third round or so is a notification storm: all goroutines deliver Connected/Disconnected
		// back to back (the global connection count is the only state they share)
		storm := rng.IntN(3) == 0
		for w := range round {
			n := 3 + rng.IntN(5)
			if storm {
				n = 8 + rng.IntN(6)
			}
			for len(round[w]) < n {
				p := pickPeer()
				var o op
				x := rng.IntN(100)
				if storm && x >= 28 {
					x = rng.IntN(28)
					p = rng.IntN(nPeers)
				}
				switch {
				case x < 18: // conn slots and protection tags have one owner per round
					o = genConnOp(rng)
					o.P = p
					for (o.P*slotsPerPeer+o.S+ri)%W != w {
						o.S = (o.S + 1) % slotsPerPeer
						if o.S == 0 {
							o.P = (o.P + 1) % nPeers
						}
					}
				case x < 28:
					o = op{K: "disc", P: p, S: rng.IntN(slotsPerPeer)}
					for (o.P*slotsPerPeer+o.S+ri)%W != w {
						o.S = (o.S + 1) % slotsPerPeer
						if o.S == 0 {
							o.P = (o.P + 1) % nPeers
						}
					}
				case x < 42:
					o = op{K: "tag", P: p, Tag: plainTags[rng.IntN(3)], V: rng.IntN(16) - 3}
				case x < 48:
					o = op{K: "untag", P: p, Tag: plainTags[rng.IntN(3)]}
				case x < 58:
					o = op{K: "upsert", P: p, Tag: plainTags[rng.IntN(3)], V: rng.IntN(9) - 2}
				case x < 64:
					o = op{K: "bump", P: p, Tag: decTags[rng.IntN(2)], V: rng.IntN(12) - 2}
				case x < 72:
					o = op{K: "protect", P: p, Tag: protTags[rng.IntN(2)]}
					if rng.IntN(2) == 0 {
						o.K = "unprotect"
					}
					pi := o.P*2 + tagIndex(protTags, o.Tag)
					for (pi+ri)%W != w {
						pi = (pi + 1) % (2 * nPeers)
					}
					o.P, o.Tag = pi/2, protTags[pi%2]
				case x < 82:
					o = op{K: "get", P: p}
				case x < 94:
					o = op{K: "trim"}
				default:
					o = op{K: "force"}
				}
				round[w] = append(round[w], o)
			}
			if w == stepper {
				i := rng.IntN(len(round[w]))
				round[w] = append(round[w][:i], append([]op{{K: "tick"}}, round[w][i:]...)...)
			}
		}
		cc.Rounds = append(cc.Rounds, round)
		var bt []op
		for i, n := 0, rng.IntN(4); i < n; i++ {
			switch rng.IntN(4) {
			case 0:
				bt = append(bt, op{K: "flush", V: rng.IntN(8)})
			case 1:
				bt = append(bt, op{K: "step", Ms: stepsMs[rng.IntN(len(stepsMs))]})
			case 2:
				bt = append(bt, genConnOp(rng))
			default:
				bt = append(bt, op{K: "trim"})
			}
		}
		cc.Between = append(cc.Between, bt)
	}
	return cc
}

// genTrimRace: dedicated schedule stress for "two trims overlap while an unconnected peer with a
// buffered tag record connects". The periodic trim does not take the manager's trim mutex, so a clock
// tick and TrimOpenConns really run side by side. Long-lived conns refuse to close (mode fail), so the
// manager stays above its high watermark round after round; grace 0 makes buffered records eligible at once.
func genTrimRace(rng *rand.Rand) concCase {
	cc := concCase{StatYield: 1 + rng.IntN(30), Cfg: caseCfg{Low: 1, High: 2, GraceMs: 0, SilenceMs: 10000, ResMs: 10000019, DecIntMs: [2]int64{10000019, 10000019}, DecSub: [2]int{1, 1}, BumpMax: 12}}
	perm := rng.Perm(nPeers)
	for _, p := range perm[:3] {
		cc.Setup = append(cc.Setup, op{K: "conn", P: p, S: 0, Mode: modeFail, Inbound: rng.IntN(2) == 0})
	}
	temps := perm[3 : 4+rng.IntN(2)]
	prep := func() (bt []op) {
		for _, p := range temps {
			bt = append(bt, op{K: "disc", P: p, S: 0}, op{K: "tag", P: p, Tag: plainTags[rng.IntN(3)], V: 1 + rng.IntN(5)})
		}
		return
	}
	cc.Setup = append(cc.Setup, prep()...)
	for ri, n := 0, 8+rng.IntN(6); ri < n; ri++ {
		round := [][]op{{{K: "tick"}}, {{K: "trim"}}, nil}
		for _, p := range temps {
			round[2] = append(round[2], op{K: "yield", V: rng.IntN(3 * cc.StatYield)}, op{K: "conn", P: p, S: 0, Mode: rng.IntN(2)})
		}
		if rng.IntN(2) == 0 {
			round = append(round, []op{{K: "trim"}})
		}
		if rng.IntN(3) == 0 {
			round[1] = append([]op{{K: "get", P: temps[0]}}, round[1]...)
		}
		cc.Rounds = append(cc.Rounds, round)
		cc.Between = append(cc.Between, prep())
	}
	return cc
}
