package c14

import "verif/harness/rig/run"

func concurrent(r *run.R, race bool) {}
