package c14

import (
	"fmt"
	"sort"
)

// Reference model of the connection manager, written from the property statement.
//
// A peer is tracked from the Connected notification that takes it from zero to one connection until
// the Disconnected notification for its last tracked connection ("episode"); tags set while a peer has
// no connection are buffered until it connects. Interpretation decisions (kept as weak as the
// statement): the grace period runs from the start of the episode; the tag record of a peer belongs
// to its episode (it is dropped with the last Disconnected); a trim may also drop the buffered tags
// of an unconnected peer that is itself eligible (unprotected, outside grace); protection is
// independent of tracking.

type mpeer struct {
	conns     map[int]bool   // tracked conn ids (what Connected/Disconnected delivered so far imply)
	tags      map[string]int // plain tags
	dec       map[string]int // decaying tags
	prot      map[string]bool
	since     int64 // ms: start of the episode (valid while len(conns) > 0)
	entry     bool  // a record exists (episode, or buffered tags)
	tempSince int64 // ms: when the buffered (unconnected) record was created
}

type model struct {
	low, high int
	graceMs   int64
	now       int64 // ms since the mock clock's origin
	peers     [nPeers]*mpeer
	connPeer  map[int]int // conn id -> peer, for every conn ever created
}

func newModel(low, high int, graceMs int64) *model {
	m := &model{low: low, high: high, graceMs: graceMs, connPeer: map[int]int{}}
	for i := range m.peers {
		m.peers[i] = &mpeer{conns: map[int]bool{}, tags: map[string]int{}, dec: map[string]int{}, prot: map[string]bool{}}
	}
	return m
}

func (m *model) count() int {
	n := 0
	for _, p := range m.peers {
		n += len(p.conns)
	}
	return n
}

func (p *mpeer) value() int {
	v := 0
	for _, x := range p.tags {
		v += x
	}
	for _, x := range p.dec {
		v += x
	}
	return v
}

func (p *mpeer) protected() bool { return len(p.prot) > 0 }

// touch: a tag operation that creates a record for an unconnected peer.
func (m *model) touch(p *mpeer) {
	if !p.entry {
		p.entry = true
		p.tempSince = m.now
	}
}

func (m *model) forget(p *mpeer) {
	p.entry = false
	p.tags = map[string]int{}
	p.dec = map[string]int{}
}

func (m *model) connected(pi, conn int) (dup bool) {
	p := m.peers[pi]
	if p.conns[conn] {
		return true // duplicate notification: no effect
	}
	if len(p.conns) == 0 {
		p.since = m.now
		p.entry = true
	}
	p.conns[conn] = true
	return false
}

func (m *model) disconnected(pi, conn int) (dup bool) {
	p := m.peers[pi]
	if !p.conns[conn] {
		return true // not tracked: no effect
	}
	delete(p.conns, conn)
	if len(p.conns) == 0 {
		m.forget(p)
	}
	return false
}

func (m *model) tagPeer(pi int, tag string, v int) {
	p := m.peers[pi]
	m.touch(p)
	p.tags[tag] = v
}

func (m *model) untagPeer(pi int, tag string) { delete(m.peers[pi].tags, tag) }

func (m *model) upsert(pi int, tag string, f func(int) int) {
	p := m.peers[pi]
	m.touch(p)
	p.tags[tag] = f(p.tags[tag])
}

func clamp(v, lo, hi int) int {
	if v < lo {
		return lo
	}
	if v > hi {
		return hi
	}
	return v
}

func (m *model) bump(pi int, tag string, delta, max int) {
	p := m.peers[pi]
	m.touch(p)
	p.dec[tag] = clamp(p.dec[tag]+delta, 0, max)
}

func (m *model) decRemove(pi int, tag string) {
	p := m.peers[pi]
	m.touch(p)
	delete(p.dec, tag)
}

// decay applies one decay round of a decaying tag to every peer that holds it.
func (m *model) decay(tag string, sub int) (applied, removed int) {
	for _, p := range m.peers {
		v, ok := p.dec[tag]
		if !ok {
			continue
		}
		applied++
		v -= sub
		if v <= 0 {
			delete(p.dec, tag)
			removed++
		} else {
			p.dec[tag] = v
		}
	}
	return
}

// ---- eligibility (statement: "protected peer", "peer still inside its grace period") ----

// inGrace: definitely inside the grace period (age < grace). At age == grace the statement does not
// say on which side the peer is: neither inGrace nor pastGrace holds (free).
func (m *model) inGrace(p *mpeer) bool   { return len(p.conns) > 0 && m.now-p.since < m.graceMs }
func (m *model) pastGrace(p *mpeer) bool { return len(p.conns) > 0 && m.now-p.since > m.graceMs }

// eligible: definitely eligible for an ordinary trim.
func (m *model) eligible(p *mpeer) bool { return !p.protected() && m.pastGrace(p) }

// mayDropBuffered: peers without connection whose buffered tag record an ordinary trim may drop.
func (m *model) mayDropBuffered() (out [nPeers]bool) {
	for i, p := range m.peers {
		out[i] = p.entry && len(p.conns) == 0 && !p.protected() && m.now-p.tempSince >= m.graceMs
	}
	return
}

type complaint struct{ sig, msg string }

type trimFacts struct {
	closedPeers, sparedProtected, sparedGrace, sparedHigher, ties int
	closedProtected                                               bool
	underTrim                                                     bool // ForceTrim left > low conns although closable ones remained
}

func peersOf(closed map[int]bool, m *model) map[int]int {
	out := map[int]int{}
	for c := range closed {
		if pi, ok := m.connPeer[c]; ok && m.peers[pi].conns[c] {
			out[pi]++
		}
	}
	return out
}

// judgeTrim decides an ordinary trim (TrimOpenConns or the manager's own periodic trim) against the
// model state at the instant it ran. closed = conns on which the manager called Close/CloseWithError.
// ran = the trim is known to have run (false: only the closes, if any, are judged).
func (m *model) judgeTrim(closed map[int]bool, ran bool) (out []complaint, f trimFacts) {
	n := m.count()
	hit := peersOf(closed, m) // peer -> number of its tracked conns the trim tried to close
	f.closedPeers = len(hit)
	ids := make([]int, 0, len(hit))
	for pi := range hit {
		ids = append(ids, pi)
	}
	sort.Ints(ids)
	// "A trim never closes a connection of a protected peer or of a peer still inside its grace period"
	for _, pi := range ids {
		p := m.peers[pi]
		if p.protected() {
			out = append(out, complaint{"trim:closed-protected", fmt.Sprintf("trim closed %d conn(s) of protected peer %d (protection tags %v)", hit[pi], pi, keys(p.prot))})
		}
		if m.inGrace(p) {
			out = append(out, complaint{"trim:closed-in-grace", fmt.Sprintf("trim closed %d conn(s) of peer %d which is %d ms old, grace period %d ms", hit[pi], pi, m.now-p.since, m.graceMs)})
		}
	}
	// "does nothing when the connection count is at or below the low watermark"
	if n <= m.low && len(hit) > 0 {
		out = append(out, complaint{"trim:closed-at-or-below-low", fmt.Sprintf("trim closed conns of peers %v although the connection count %d is <= low watermark %d", ids, n, m.low)})
	}
	// "never closes a peer while a lower-valued eligible peer is kept" (relation: ties are free; a peer is
	// kept when the trim tried to close none of its connections)
	for _, xi := range ids {
		x := m.peers[xi]
		for yi, y := range m.peers {
			if yi == xi || hit[yi] > 0 || !m.eligible(y) {
				continue
			}
			if y.value() < x.value() {
				out = append(out, complaint{"trim:kept-lower-valued-eligible", fmt.Sprintf("trim closed peer %d (value %d) but kept eligible peer %d (value %d, %d conns, age %d ms)", xi, x.value(), yi, y.value(), len(y.conns), m.now-y.since)})
			} else if y.value() == x.value() {
				f.ties++
			}
		}
	}
	// "and otherwise leaves at most low-watermark connections among the eligible peers"
	// (a watermark of 0 is the documented way to switch trimming off; not judged then)
	if ran && n > m.low && m.low > 0 && m.high > 0 {
		left := 0
		for yi, y := range m.peers {
			if !m.eligible(y) {
				continue
			}
			for c := range y.conns {
				if !closed[c] {
					left++
				}
			}
			_ = yi
		}
		if left > m.low {
			out = append(out, complaint{"trim:left-above-low-among-eligible", fmt.Sprintf("trim ran with %d conns (low %d) and left %d connections among the eligible peers", n, m.low, left)})
		}
	}
	// facts for the evidence: did eligibility matter in this trim?
	if len(hit) > 0 {
		maxClosed := -1 << 30
		for _, xi := range ids {
			if v := m.peers[xi].value(); v > maxClosed {
				maxClosed = v
			}
		}
		for yi, y := range m.peers {
			if hit[yi] > 0 || len(y.conns) == 0 {
				continue
			}
			switch {
			case y.protected() && y.value() < maxClosed:
				f.sparedProtected++
			case m.inGrace(y) && y.value() < maxClosed:
				f.sparedGrace++
			case m.eligible(y):
				f.sparedHigher++
			}
		}
	}
	return
}

// judgeForce decides a memory-emergency trim (ForceTrim): exempt from grace period and protection
// except for the ordering clause.
func (m *model) judgeForce(closed map[int]bool) (out []complaint, f trimFacts) {
	n := m.count()
	hit := peersOf(closed, m)
	f.closedPeers = len(hit)
	ids := make([]int, 0, len(hit))
	for pi := range hit {
		ids = append(ids, pi)
	}
	sort.Ints(ids)
	// "does nothing when the connection count is at or below the low watermark"
	if n <= m.low && len(hit) > 0 {
		out = append(out, complaint{"force:closed-at-or-below-low", fmt.Sprintf("ForceTrim closed conns of peers %v although the connection count %d is <= low watermark %d", ids, n, m.low)})
	}
	openAfter := func(p *mpeer) int {
		k := 0
		for c := range p.conns {
			if !closed[c] {
				k++
			}
		}
		return k
	}
	for _, xi := range ids {
		x := m.peers[xi]
		if x.protected() {
			f.closedProtected = true
		}
		for yi, y := range m.peers {
			if yi == xi || len(y.conns) == 0 {
				continue
			}
			// "only a memory-emergency forced trim may close protected peers, and only after all unprotected ones"
			if x.protected() && !y.protected() && openAfter(y) > 0 {
				out = append(out, complaint{"force:closed-protected-before-unprotected", fmt.Sprintf("ForceTrim closed protected peer %d while unprotected peer %d keeps %d open conn(s)", xi, yi, openAfter(y))})
			}
			// "never closes a peer while a lower-valued eligible peer is kept": within the same class
			// (for a forced trim every unprotected peer is eligible; protected ones once all unprotected are closed)
			if x.protected() == y.protected() && hit[yi] == 0 {
				if y.value() < x.value() {
					out = append(out, complaint{"force:kept-lower-valued", fmt.Sprintf("ForceTrim closed peer %d (value %d, protected=%v) but kept peer %d of the same class with value %d", xi, x.value(), x.protected(), yi, y.value())})
				} else if y.value() == x.value() {
					f.ties++
				}
			}
		}
	}
	// "otherwise leaves at most low-watermark connections among the eligible peers" (eligible for a
	// forced trim = unprotected, the weakest reading; see underTrim for the stronger docstring reading)
	if n > m.low {
		left, leftAll := 0, 0
		for _, y := range m.peers {
			leftAll += openAfter(y)
			if !y.protected() {
				left += openAfter(y)
			}
		}
		if left > m.low {
			out = append(out, complaint{"force:left-above-low-among-unprotected", fmt.Sprintf("ForceTrim ran with %d conns (low %d) and left %d connections among unprotected peers", n, m.low, left)})
		}
		if leftAll > m.low {
			f.underTrim = true
		}
	}
	return
}

func keys[V any](m map[string]V) []string {
	out := make([]string, 0, len(m))
	for k := range m {
		out = append(out, k)
	}
	sort.Strings(out)
	return out
}
