// Package c14 — runtime monitor for property C14 (connection manager trims only eligible peers,
// lowest value first). This file: the fake connections handed to the REAL BasicConnMgr and the
// recorder that observes every Close/CloseWithError the manager issues.
package c14

import (
	"bytes"
	"errors"
	"fmt"
	"runtime"
	"strconv"
	"sync"
	"sync/atomic"

	"github.com/libp2p/go-libp2p/core/network"
	"github.com/libp2p/go-libp2p/core/peer"
	ma "github.com/multiformats/go-multiaddr"
)

const nPeers = 8
const slotsPerPeer = 3

var (
	plainTags = []string{"a", "b", "c"}
	decTags   = []string{"d1", "d2"} // names disjoint from the plain tags
	protTags  = []string{"x", "y"}
)

// peerIDs: 8 peers; the manager shards peers by the LAST byte of the id, so peers 0/1 and 2/3 share
// a segment (same-segment lock path in the sort) and the others do not.
var peerIDs = func() [nPeers]peer.ID {
	var out [nPeers]peer.ID
	last := []byte{0x11, 0x11, 0x22, 0x22, 0x33, 0x44, 0x55, 0x66}
	for i := range out {
		out[i] = peer.ID(fmt.Sprintf("c14-peer-%d-", i) + string([]byte{last[i]}))
	}
	return out
}()

// close behaviours of a fake connection
const (
	modeSync    = 0 // first Close/CloseWithError echoes Disconnected to the manager synchronously
	modeDelayed = 1 // close succeeds, Disconnected is delivered later by the driver
	modeFail    = 2 // close returns an error, the connection stays open (no Disconnected)
)

var modeName = []string{"sync", "delayed", "fail"}

// closeEvent: one Close/CloseWithError call made BY THE MANAGER on a harness connection.
type closeEvent struct {
	Conn   int    `json:"conn"` // unique conn id
	Peer   int    `json:"peer"`
	Slot   int    `json:"slot"`
	Via    string `json:"via"`
	Stamp  int64  `json:"stamp"`
	Gid    int64  `json:"gid,omitempty"`
	First  bool   `json:"first"`            // first successful close of this conn
	Echoed bool   `json:"echoed"`           // Disconnected delivered synchronously from inside the close
	Failed bool   `json:"failed"`           // close returned an error
	ClockM int64  `json:"clock_ms"`         // mock clock read after the close was observed (upper bound of the trim's "now")
	EchoC  int64  `json:"echo_c,omitempty"` // stamps around the echoed Disconnected (concurrent histories)
	EchoR  int64  `json:"echo_r,omitempty"`
}

// recorder is shared by all fake conns of one case. Thread-safe.
type recorder struct {
	mu      sync.Mutex
	stamp   atomic.Int64 // one logical clock for everything recorded in a case
	events  []closeEvent
	pending []*fakeConn // closed in modeDelayed, Disconnected not delivered yet
	notifee network.Notifiee
	nowMs   func() int64
	wantGid bool

	statYield atomic.Int32
}

func (r *recorder) tick() int64 { return r.stamp.Add(1) }

// takeEvents returns and clears the close events recorded so far.
func (r *recorder) takeEvents() []closeEvent {
	r.mu.Lock()
	defer r.mu.Unlock()
	ev := r.events
	r.events = nil
	return ev
}

type fakeConn struct {
	network.Conn // nil: any method the manager calls beyond the ones below panics and is noticed

	rec     *recorder
	id      int
	lidx    int // index of this conn among the conns ever created for its peer (concurrent histories)
	peer    int
	slot    int
	pid     peer.ID
	addr    ma.Multiaddr
	inbound bool
	streams atomic.Int32
	mode    int
	closed  atomic.Bool // closed by anyone (manager or "remote")

	statHook atomic.Pointer[func()]
}

func newFakeConn(rec *recorder, id, p, slot int, inbound bool, streams, mode int) *fakeConn {
	c := &fakeConn{rec: rec, id: id, peer: p, slot: slot, pid: peerIDs[p], inbound: inbound, mode: mode}
	c.streams.Store(int32(streams))
	// unique remote address per conn so that TagInfo.Conns (keyed by address) has one entry per conn
	c.addr = ma.StringCast(fmt.Sprintf("/ip4/10.%d.%d.%d/tcp/%d", p, slot, id%250, 1000+id%60000))
	return c
}

func (c *fakeConn) RemotePeer() peer.ID           { return c.pid }
func (c *fakeConn) RemoteMultiaddr() ma.Multiaddr { return c.addr }
func (c *fakeConn) ID() string                    { return "c14-" + strconv.Itoa(c.id) }
func (c *fakeConn) IsClosed() bool                { return c.closed.Load() }
func (c *fakeConn) Stat() network.ConnStats {
	for i := int32(0); i < c.rec.statYield.Load(); i++ {
		runtime.Gosched() // concurrent histories: the manager calls Stat while sorting; yielding here widens the window between a trim's candidate scan and its selection
	}
	if h := c.statHook.Swap(nil); h != nil {
		(*h)() // one-shot: lets a scenario deliver a notification while the manager is sorting candidates
	}
	d := network.DirOutbound
	if c.inbound {
		d = network.DirInbound
	}
	return network.ConnStats{Stats: network.Stats{Direction: d}, NumStreams: int(c.streams.Load())}
}
func (c *fakeConn) Close() error { return c.managerClose("Close") }
func (c *fakeConn) CloseWithError(_ network.ConnErrorCode) error {
	return c.managerClose("CloseWithError")
}

var errCloseFails = errors.New("c14: close fails on this connection")

// managerClose is reached only from the connection manager (the driver closes "remotely" through
// remoteClose). It records the attempt and echoes Disconnected according to the conn's mode.
func (c *fakeConn) managerClose(via string) error {
	r := c.rec
	ev := closeEvent{Conn: c.id, Peer: c.peer, Slot: c.slot, Via: via}
	if r.wantGid {
		ev.Gid = goid()
	}
	ev.Stamp = r.tick()
	var err error
	switch {
	case c.mode == modeFail:
		ev.Failed = true
		err = errCloseFails
	case c.closed.Swap(true):
		// already closed (remote close, or a second close by the manager): nothing more happens
	default:
		ev.First = true
		if c.mode == modeSync {
			ev.Echoed = true
			ev.EchoC = r.tick()
			r.notifee.Disconnected(nil, c)
			ev.EchoR = r.tick()
		} else {
			r.mu.Lock()
			r.pending = append(r.pending, c)
			r.mu.Unlock()
		}
	}
	ev.ClockM = r.nowMs()
	r.mu.Lock()
	r.events = append(r.events, ev)
	r.mu.Unlock()
	return err
}

// goid returns the current goroutine's id (used only to attribute a close to the trim call that
// issued it in concurrent histories).
func goid() int64 {
	var buf [64]byte
	n := runtime.Stack(buf[:], false)
	f := bytes.Fields(buf[:n])
	if len(f) < 2 {
		return -1
	}
	id, err := strconv.ParseInt(string(f[1]), 10, 64)
	if err != nil {
		return -1
	}
	return id
}
