package c08

import (
	"fmt"
	"time"

	"github.com/libp2p/go-libp2p/core/peer"
	peerpb "github.com/libp2p/go-libp2p/core/peer/pb"
	"github.com/libp2p/go-libp2p/core/record"
	ma "github.com/multiformats/go-multiaddr"
	"google.golang.org/protobuf/proto"
)

// rawPeerRec seals arbitrary bytes under the peer record domain and payload type: what a peer that
// signs garbage with its OWN valid key puts on the wire.
type rawPeerRec struct{ payload []byte }

func (r *rawPeerRec) Domain() string                 { return peer.PeerRecordEnvelopeDomain }
func (r *rawPeerRec) Codec() []byte                  { return peer.PeerRecordEnvelopePayloadType }
func (r *rawPeerRec) MarshalRecord() ([]byte, error) { return r.payload, nil }
func (r *rawPeerRec) UnmarshalRecord([]byte) error   { return nil }

// reusedDestination: a receiver decodes envelope after envelope into ONE PeerRecord variable. Victim V's
// genuine envelope is accepted first; then the attacker's envelopes - validly signed by the attacker's
// own key, payloads that a decoder refuses half-way - are consumed into the same variable, and refused.
// Ground truth is what V sealed: after any number of REFUSED envelopes, V's accepted envelope still shows
// V's content and the books store exactly V's addresses for V ("no edit of the serialized form can make a
// receiver accept different content"). A successful decode into the shared variable is the receiver's own
// overwrite and is not judged; only refused ones are.
func (c *ctx) reusedDestination(u *unit, attacker, victim *testKey) {
	vid := mustID(victim)
	genuine := c.peerRecordFor(victim, 7, 2)
	sv, err := c.seal(victim, "peerrec", genuine)
	if err != nil {
		u.count("books_case_not_sealable", 1)
		return
	}
	evil := ma.StringCast("/ip4/6.6.9.9/tcp/6699")
	evilPB := []*peerpb.PeerRecord_AddressInfo{{Multiaddr: evil.Bytes()}}
	mar := func(m *peerpb.PeerRecord) []byte { b, _ := proto.Marshal(m); return b }
	own, _ := c.peerRecordFor(attacker, 9, 1).MarshalRecord()
	type plan struct {
		name    string
		payload []byte
	}
	plans := []plan{
		{"peer-id-not-a-multihash", mar(&peerpb.PeerRecord{PeerId: []byte{0xde, 0xad, 0xbe, 0xef}, Seq: 1 << 62, Addresses: evilPB})},
		{"peer-id-empty", mar(&peerpb.PeerRecord{Seq: 1 << 62, Addresses: evilPB})},
		{"peer-id-truncated-victim", mar(&peerpb.PeerRecord{PeerId: []byte(vid)[:len(vid)-1], Seq: 99, Addresses: evilPB})},
		{"fields-then-bad-peer-id-appended", cat(mar(&peerpb.PeerRecord{Seq: 1 << 40, Addresses: evilPB}), mar(&peerpb.PeerRecord{PeerId: []byte{0x12, 0x20, 1, 2}}))},
		{"own-record-cut-short", own[:len(own)-3]},
		{"own-record-then-garbage", cat(own, []byte{0xff, 0xff, 0xff})},
		{"not-protobuf", []byte{0xff, 0x00, 0xff, 0x00, 0x07}},
	}
	for _, via := range []string{"ConsumeTypedEnvelope", "TypedRecord"} {
		rec := &peer.PeerRecord{}
		envV, err := record.ConsumeTypedEnvelope(sv.bytes, rec)
		if err != nil {
			u.count("reused_destination_genuine_refused", 1)
			return
		}
		refused := 0
		for _, p := range plans {
			sm, err := c.seal(attacker, "peerrec", &rawPeerRec{p.payload})
			if err != nil {
				continue
			}
			u.evals++
			if via == "ConsumeTypedEnvelope" {
				_, err = record.ConsumeTypedEnvelope(sm.bytes, rec)
			} else {
				var em *record.Envelope
				if em, err = record.UnmarshalEnvelope(sm.bytes); err == nil {
					err = em.TypedRecord(rec)
				}
			}
			if err == nil {
				// decoded: the receiver itself replaced its variable; start over with V's envelope
				u.count("reused_destination_attacker_payload_decoded", 1)
				rec = &peer.PeerRecord{}
				if envV, err = record.ConsumeTypedEnvelope(sv.bytes, rec); err != nil {
					return
				}
				continue
			}
			refused++
			u.count("reused_destination_refused_envelopes", 1)
			det := map[string]any{"victim": victim.name, "attacker": attacker.name, "refused_payload": p.name, "payload": hx(p.payload), "decoded_via": via, "error": err.Error()}
			r2, err := envV.Record()
			pr, ok := r2.(*peer.PeerRecord)
			if err != nil || !ok || !pr.Equal(genuine) {
				got := "unreadable"
				if ok {
					got = fmt.Sprintf("{PeerID:%s Seq:%d Addrs:%v}", pr.PeerID, pr.Seq, pr.Addrs)
				}
				u.violate("envelope:accepted-content-changed-by-a-refused-envelope/"+p.name, "after an envelope was REFUSED, the victim's accepted envelope shows "+got+" instead of what the victim sealed", det)
				return
			}
			books, err := newBooks()
			if err != nil {
				return
			}
			for _, nb := range books {
				acc, err := nb.b.ConsumePeerRecord(envV, time.Hour)
				if err == nil && acc {
					got := nb.b.Addrs(vid)
					bad := len(got) != len(genuine.Addrs)
					for _, a := range got {
						if a.Equal(evil) {
							bad = true
						}
					}
					if bad {
						u.violate("peerstore:stored-addresses-differ-from-signed-payload/refused-envelope/"+nb.name, fmt.Sprintf("%s stored %v for the victim, the victim's signed payload lists %v", nb.name, got, genuine.Addrs), det)
					}
					u.count("reused_destination_books_checked", 1)
				}
				nb.b.Close()
			}
			u.nontr++
		}
	}
}
