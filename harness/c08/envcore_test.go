package c08

import (
	"bytes"
	"fmt"
	"strings"
	"time"

	"github.com/libp2p/go-libp2p/core/peer"
	"github.com/libp2p/go-libp2p/core/record"
	vproto "github.com/libp2p/go-libp2p/p2p/protocol/circuitv2/proto"
	ma "github.com/multiformats/go-multiaddr"
)

// rawRecord carries an arbitrary (domain, payload type, payload) triple; not registered.
type rawRecord struct {
	domain  string
	codec   []byte
	payload []byte
}

func (r *rawRecord) Domain() string                 { return r.domain }
func (r *rawRecord) Codec() []byte                  { return r.codec }
func (r *rawRecord) MarshalRecord() ([]byte, error) { return r.payload, nil }
func (r *rawRecord) UnmarshalRecord(b []byte) error {
	r.payload = append([]byte(nil), b...)
	return nil
}

// regRecord is a registered record type (ConsumeEnvelope finds it through the payload-type registry).
type regRecord struct{ payload []byte }

const regDomain = "verif-c08-registered"

var regCodec = []byte{0xc0, 0x08}

func (r *regRecord) Domain() string                 { return regDomain }
func (r *regRecord) Codec() []byte                  { return regCodec }
func (r *regRecord) MarshalRecord() ([]byte, error) { return r.payload, nil }
func (r *regRecord) UnmarshalRecord(b []byte) error {
	r.payload = append([]byte(nil), b...)
	return nil
}

func init() { record.RegisterType(&regRecord{}) }

// sealedEnv is the ground truth of one Seal call: what was sealed, by whom, for which domain.
type sealedEnv struct {
	signer  *testKey
	kind    string // peerrec | voucher | reg | raw
	domain  string
	ptype   []byte
	payload []byte
	rec     record.Record // the record given to Seal
	bytes   []byte        // Envelope.Marshal()
}

func (c *ctx) seal(k *testKey, kind string, rec record.Record) (*sealedEnv, error) {
	env, err := record.Seal(rec, k.priv)
	if err != nil {
		return nil, err
	}
	b, err := env.Marshal()
	if err != nil {
		return nil, err
	}
	payload, _ := rec.MarshalRecord()
	return &sealedEnv{signer: k, kind: kind, domain: rec.Domain(), ptype: append([]byte(nil), rec.Codec()...),
		payload: append([]byte(nil), payload...), rec: rec, bytes: b}, nil
}

func mustID(k *testKey) peer.ID { return peer.ID(refID(k.pubBytes)) }

// consumption outcome classes
const (
	outAccepted = iota
	outRejectUnmarshal
	outRejectSignature
	outRejectPayload
)

func classify(err error) int {
	switch {
	case err == nil:
		return outAccepted
	case strings.HasPrefix(err.Error(), "failed when unmarshalling the envelope"):
		return outRejectUnmarshal
	case strings.HasPrefix(err.Error(), "failed to validate envelope"):
		return outRejectSignature
	default:
		return outRejectPayload
	}
}

// typedDest returns the destination record a caller would hand to ConsumeTypedEnvelope when it asks
// for `domain` and expects a record of this kind.
func typedDest(kind, domain string) record.Record {
	switch {
	case kind == "peerrec" && domain == peer.PeerRecordEnvelopeDomain:
		return &peer.PeerRecord{}
	case kind == "voucher" && domain == vproto.RecordDomain:
		return &vproto.ReservationVoucher{}
	case kind == "reg" && domain == regDomain:
		return &regRecord{}
	}
	return &rawRecord{domain: domain}
}

func recordMatches(got record.Record, s *sealedEnv) (bool, string) {
	switch g := got.(type) {
	case *peer.PeerRecord:
		w, ok := s.rec.(*peer.PeerRecord)
		if !ok {
			var w2 peer.PeerRecord
			if w2.UnmarshalRecord(s.payload) != nil {
				return false, "sealed payload is not a peer record"
			}
			w = &w2
		}
		if !g.Equal(w) {
			return false, fmt.Sprintf("peer record %v/%d/%v, sealed %v/%d/%v", g.PeerID, g.Seq, g.Addrs, w.PeerID, w.Seq, w.Addrs)
		}
	case *vproto.ReservationVoucher:
		var w vproto.ReservationVoucher
		if w.UnmarshalRecord(s.payload) != nil {
			return false, "sealed payload is not a voucher"
		}
		if ws, ok := s.rec.(*vproto.ReservationVoucher); ok {
			w = vproto.ReservationVoucher{Relay: ws.Relay, Peer: ws.Peer, Expiration: time.Unix(ws.Expiration.Unix(), 0)}
		}
		if g.Relay != w.Relay || g.Peer != w.Peer || !g.Expiration.Equal(w.Expiration) {
			return false, fmt.Sprintf("voucher %v/%v/%v, sealed %v/%v/%v", g.Relay, g.Peer, g.Expiration.Unix(), w.Relay, w.Peer, w.Expiration.Unix())
		}
	case *regRecord:
		if !bytes.Equal(g.payload, s.payload) {
			return false, "registered record payload differs"
		}
	case *rawRecord:
		if !bytes.Equal(g.payload, s.payload) {
			return false, "typed record payload differs"
		}
	}
	return true, ""
}

// consumeAndJudge presents `data` to both consumers, asking for `domain`, and applies the statement:
// "An envelope ... is accepted only if the domain asked for, the payload type, the payload and the
// signing key are exactly those it was sealed with". `set` lists everything that was really sealed
// and whose parts were used to build `data`. Returns the envelope ConsumeEnvelope accepted (or nil).
func (u *unit) consumeAndJudge(data []byte, domain string, kind string, set []*sealedEnv, editKind string, desc any) (accepted *record.Envelope, anyAccept bool) {
	keyType := set[0].signer.typ()
	judge := func(consumer string, env *record.Envelope, rec record.Record, err error) bool {
		u.evals++
		cl := classify(err)
		switch cl {
		case outRejectUnmarshal:
			u.count("env_reject_unmarshal", 1)
			return false
		case outRejectSignature:
			u.count("env_reject_signature/"+keyType, 1)
			u.nontr++
			return false
		case outRejectPayload:
			u.count("env_reject_after_signature_ok(payload/registry)", 1)
			u.nontr++
			// the signature WAS accepted for this domain: judged below through the other consumer
			return false
		}
		u.nontr++
		var hit *sealedEnv
		for _, s := range set {
			if s.domain == domain && env != nil && env.PublicKey != nil && keysEqual(env.PublicKey, s.signer.pub) &&
				bytes.Equal(env.PayloadType, s.ptype) && bytes.Equal(env.RawPayload, s.payload) {
				hit = s
				break
			}
		}
		det := func() map[string]any {
			d := map[string]any{"consumer": consumer, "domain_asked": domain, "edit_kind": editKind, "edit": desc, "presented": hx(data)}
			for i, s := range set {
				d[fmt.Sprintf("sealed_%d", i)] = map[string]any{"signer": s.signer.name, "signer_priv": hx(s.signer.privBytes), "domain": s.domain,
					"payload_type": hx(s.ptype), "payload": hx(s.payload), "bytes": hx(s.bytes)}
			}
			if env != nil {
				pk := []byte(nil)
				if env.PublicKey != nil {
					pk, _ = env.PublicKey.Raw()
				}
				d["returned"] = map[string]any{"public_key_raw": hx(pk), "payload_type": hx(env.PayloadType), "payload": hx(env.RawPayload)}
			}
			return d
		}
		if hit == nil {
			what := "content"
			if env != nil && env.PublicKey != nil {
				for _, s := range set {
					if keysEqual(env.PublicKey, s.signer.pub) && bytes.Equal(env.PayloadType, s.ptype) && bytes.Equal(env.RawPayload, s.payload) {
						what = "domain"
					}
				}
				if what == "content" {
					for _, s := range set {
						if s.domain == domain && bytes.Equal(env.PayloadType, s.ptype) && bytes.Equal(env.RawPayload, s.payload) {
							what = "signer"
						}
					}
				}
			}
			u.violate("envelope:accepted-with-different-"+what+"/"+consumer+"/"+kind+"/"+keyType+"/"+editKind,
				fmt.Sprintf("%s accepted an envelope (asked domain %q) whose (signer, domain, payload type, payload) was never sealed: different %s", consumer, domain, what), det())
			return true
		}
		u.count("env_accept_sealed_content/"+keyType, 1)
		if rec != nil {
			if ok, why := recordMatches(rec, hit); !ok {
				d := det()
				d["why"] = why
				u.violate("envelope:returned-record-differs-from-sealed/"+consumer+"/"+kind+"/"+keyType, consumer+" returned a record that differs from the sealed one: "+why, d)
			}
		}
		return true
	}
	env, rec, err := record.ConsumeEnvelope(data, domain)
	a1 := judge("ConsumeEnvelope", env, rec, err)
	if a1 {
		accepted = env
	}
	dest := typedDest(kind, domain)
	env2, err2 := record.ConsumeTypedEnvelope(data, dest)
	var rec2 record.Record
	if err2 == nil {
		rec2 = dest
	}
	a2 := judge("ConsumeTypedEnvelope", env2, rec2, err2)
	// the two consumers validate the same way: one accepting the signature while the other refuses it
	// means one of them does not check the domain/signature it was asked for
	c1, c2 := classify(err), classify(err2)
	if (c1 == outRejectSignature) != (c2 == outRejectSignature) && c1 != outRejectUnmarshal && c2 != outRejectUnmarshal {
		u.count("env_consumers_disagree_on_signature", 1)
	}
	return accepted, a1 || a2
}

// ---- builders of the records sealed in this check ----

func (c *ctx) peerRecordFor(k *testKey, seq uint64, n int) *peer.PeerRecord {
	addrs := []ma.Multiaddr{}
	for i := 0; i < n; i++ {
		addrs = append(addrs, ma.StringCast(fmt.Sprintf("/ip4/10.%d.%d.%d/tcp/%d", seq%200, len(k.name), i+1, 4001+i)))
	}
	return &peer.PeerRecord{PeerID: mustID(k), Addrs: addrs, Seq: seq}
}

func (c *ctx) voucherFor(relay, p *testKey, exp int64) *vproto.ReservationVoucher {
	return &vproto.ReservationVoucher{Relay: mustID(relay), Peer: mustID(p), Expiration: time.Unix(exp, 0)}
}
