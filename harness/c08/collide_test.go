package c08

import (
	"bytes"
	"encoding/binary"
	"fmt"
)

// (domain, payload type, payload) triples whose naive concatenations coincide. The signed pre-image
// must be an injective encoding of the triple: a signature made for t1 must never be accepted for a
// different triple t2. Each family below is built so that t1 and t2 WOULD collide if one particular
// subset of the three length prefixes were missing (or were truncated to one byte); with correct
// prefixes all of them are distinct and must be refused.
type triple struct {
	d    string
	t, p []byte
}

func (t triple) equal(o triple) bool {
	return t.d == o.d && bytes.Equal(t.t, o.t) && bytes.Equal(t.p, o.p)
}
func (t triple) valid() bool { return len(t.d) > 0 && len(t.t) > 0 }
func (t triple) String() string {
	return fmt.Sprintf("(domain %d bytes %s, type %d bytes %s, payload %d bytes %s)", len(t.d), hx([]byte(t.d))[:min(16, 2*len(t.d))], len(t.t), hx(t.t)[:min(16, 2*len(t.t))], len(t.p), hx(t.p)[:min(16, 2*len(t.p))])
}

func uv(n int) []byte { return binary.AppendUvarint(nil, uint64(n)) }
func cat(bs ...[]byte) []byte {
	var out []byte
	for _, b := range bs {
		out = append(out, b...)
	}
	return out
}

type pairFamily struct {
	name  string
	pairs [][2]triple
}

func (c *ctx) collisionFamilies() []pairFamily {
	rng := c.r.Rand(8, 400)
	var fams []pairFamily
	// 1. plain concatenation: every two different splits of the same byte string
	{
		var f pairFamily
		f.name = "concat"
		strs := [][]byte{[]byte("abcdef"), randBytes(rng, 6)}
		if !c.r.Quick() {
			strs = append(strs, randBytes(rng, 7), []byte{1, 1, 1, 1, 1, 1}, []byte{0, 1, 2, 1, 0, 1, 2})
		}
		for _, s := range strs {
			type split struct{ i, j int }
			var sp []split
			for i := 1; i < len(s); i++ {
				for j := i + 1; j <= len(s); j++ {
					sp = append(sp, split{i, j})
				}
			}
			for a := range sp {
				for b := a + 1; b < len(sp); b++ {
					t1 := triple{string(s[:sp[a].i]), s[sp[a].i:sp[a].j], s[sp[a].j:]}
					t2 := triple{string(s[:sp[b].i]), s[sp[b].i:sp[b].j], s[sp[b].j:]}
					f.pairs = append(f.pairs, [2]triple{t1, t2})
				}
			}
		}
		// the example of the property text
		f.pairs = append(f.pairs, [2]triple{{"ab", []byte("c"), []byte("payload")}, {"a", []byte("bc"), []byte("payload")}})
		fams = append(fams, f)
	}
	n := c.r.Pick(12, 60)
	rb := func(lo, hi int) []byte { return randBytes(rng, lo+rng.IntN(hi-lo+1)) }
	// 2. only the domain's length prefix missing:  d | L(t) t | L(p) p
	{
		f := pairFamily{name: "domain-prefix-missing"}
		for i := 0; i < n; i++ {
			d1, t1, a, t2, p2 := rb(1, 5), rb(1, 4), rb(0, 3), rb(1, 4), rb(0, 6)
			p1 := cat(a, uv(len(t2)), t2, uv(len(p2)), p2)
			d2 := cat(d1, uv(len(t1)), t1, uv(len(p1)), a)
			f.pairs = append(f.pairs, [2]triple{{string(d1), t1, p1}, {string(d2), t2, p2}})
		}
		fams = append(fams, f)
	}
	// 3. only the payload type's prefix missing:  L(d) d | t | L(p) p
	{
		f := pairFamily{name: "type-prefix-missing"}
		for i := 0; i < n; i++ {
			d, t1, a, p2 := rb(1, 5), rb(1, 4), rb(0, 3), rb(0, 6)
			p1 := cat(a, uv(len(p2)), p2)
			t2 := cat(t1, uv(len(p1)), a)
			f.pairs = append(f.pairs, [2]triple{{string(d), t1, p1}, {string(d), t2, p2}})
		}
		fams = append(fams, f)
	}
	// 4. domain's and payload's prefixes missing:  d | L(t) t | p
	{
		f := pairFamily{name: "domain-and-payload-prefix-missing"}
		for i := 0; i < n; i++ {
			d1, t1, a, t2, p2 := rb(1, 5), rb(1, 4), rb(0, 3), rb(1, 4), rb(0, 6)
			p1 := cat(a, uv(len(t2)), t2, p2)
			d2 := cat(d1, uv(len(t1)), t1, a)
			f.pairs = append(f.pairs, [2]triple{{string(d1), t1, p1}, {string(d2), t2, p2}})
		}
		fams = append(fams, f)
	}
	// 5. length written as ONE byte (len mod 256) instead of a varint: 256 zero bytes move across a boundary
	{
		f := pairFamily{name: "one-byte-length"}
		z := func(n int) []byte { return make([]byte, n) }
		f.pairs = append(f.pairs,
			[2]triple{{"d", []byte{5}, z(16384)}, {"d", cat([]byte{5}, z(256)), z(16128)}},
			[2]triple{{"d", z(16384), []byte("p")}, {"d" + string(z(256)), z(16128), []byte("p")}},
			[2]triple{{"d", []byte{5}, z(256)}, {"d", cat([]byte{5}, z(256)), z(0)}},
		)
		// only the FIRST byte of the varint written (0x80|low7 for lengths >= 128): 128 bytes of 0x80
		// (which look like that truncated prefix) move across a boundary
		e := func(n int) []byte { return bytes.Repeat([]byte{0x80}, n) }
		f.pairs = append(f.pairs,
			[2]triple{{"d", e(128), e(16384)}, {"d", e(256), e(16256)}},
			[2]triple{{string(e(128)), e(16384), []byte("p")}, {string(e(256)), e(16256), []byte("p")}},
		)
		fams = append(fams, f)
	}
	// 6. lengths around the varint boundaries 127/128/16383/16384 in every field, bytes that look
	// like varints at the edges; one or two bytes moved across each boundary
	{
		f := pairFamily{name: "varint-boundary"}
		pat := []byte{0x80, 0x01, 0x7f, 0xff, 0x00, 0x81, 0x7e}
		fill := func(n, off int) []byte {
			b := make([]byte, n)
			for i := range b {
				b[i] = pat[(i+off)%len(pat)]
			}
			return b
		}
		for _, L := range []int{127, 128, 16383, 16384} {
			for field := 0; field < 3; field++ {
				ls := [3]int{3, 2, 5}
				ls[field] = L
				t1 := triple{string(fill(ls[0], 0)), fill(ls[1], 1), fill(ls[2], 2)}
				all := cat([]byte(t1.d), t1.t, t1.p)
				i, j := ls[0], ls[0]+ls[1]
				for _, sh := range [][2]int{{1, 0}, {-1, 0}, {0, 1}, {0, -1}, {1, 1}, {-1, -1}, {2, 0}, {0, -2}, {1, -1}} {
					i2, j2 := i+sh[0], j+sh[1]
					if i2 < 1 || j2 <= i2 || j2 > len(all) {
						continue
					}
					t2 := triple{string(all[:i2]), all[i2:j2], all[j2:]}
					f.pairs = append(f.pairs, [2]triple{t1, t2})
				}
			}
		}
		fams = append(fams, f)
	}
	return fams
}

func (c *ctx) collisionUnits() []*unit {
	var us []*unit
	for _, fam := range c.collisionFamilies() {
		fam := fam
		us = append(us, &unit{c: c, id: "collide/" + fam.name, cost: 15, fn: func(u *unit) {
			for pi, pr := range fam.pairs {
				for dir := 0; dir < 2; dir++ {
					t1, t2 := pr[dir], pr[1-dir]
					if !t1.valid() || !t2.valid() || t1.equal(t2) {
						u.count("collide_pairs_skipped_invalid", 1)
						continue
					}
					k := c.keys[(pi*2+dir)%len(c.keys)]
					s1, err := c.seal(k, "raw", &rawRecord{domain: t1.d, codec: t1.t, payload: t1.p})
					if err != nil {
						c.r.Inconclusive(u.id, "Seal failed: "+err.Error())
						return
					}
					set := []*sealedEnv{s1}
					// the sealed triple itself is accepted (also exercises the boundary lengths end to end)
					if _, ok := u.consumeAndJudge(s1.bytes, t1.d, "raw", set, "none", nil); !ok {
						// refusing an honest envelope is not a violation of the ("accepted only if") statement,
						// but nothing can be concluded from this pair then
						c.r.Inconclusive(u.id, "an envelope sealed for "+t1.String()+" is not accepted back")
						u.count("collide_sealed_triple_not_accepted", 1)
						continue
					}
					u.count("collide_sealed_triple_accepted", 1)
					fs, err := pbParse(s1.bytes)
					if err != nil || len(fs) != 4 {
						continue
					}
					// same signer and signature, relabelled as t2, asked under t2's domain
					g := pbClone(fs)
					g[pbFind(fs, 2)] = pbBytes(2, t2.t)
					g[pbFind(fs, 3)] = pbBytes(3, t2.p)
					_, acc := u.consumeAndJudge(pbJoin(g), t2.d, "raw", set, "relabelled-"+fam.name, map[string]any{"sealed": t1.String(), "presented": t2.String(), "pair": pi, "dir": dir})
					if !acc {
						u.count("collide_pairs_rejected", 1)
					}
					if u.stop() {
						return
					}
				}
			}
			if fam.name == "concat" {
				c.r.Sample(map[string]any{"kind": "colliding concatenation", "sealed": `("ab","c","payload")`, "presented": `("a","bc","payload") with the same key and signature`, "expected": "refused"})
			}
		}})
	}
	return us
}
