package c08

import (
	"bytes"
	"context"
	"crypto/sha256"
	"fmt"
	"sort"
	"time"

	ds "github.com/ipfs/go-datastore"
	dssync "github.com/ipfs/go-datastore/sync"
	ic "github.com/libp2p/go-libp2p/core/crypto"
	"github.com/libp2p/go-libp2p/core/peer"
	"github.com/libp2p/go-libp2p/core/peerstore"
	"github.com/libp2p/go-libp2p/core/record"
	"github.com/libp2p/go-libp2p/p2p/host/peerstore/pstoreds"
	"github.com/libp2p/go-libp2p/p2p/host/peerstore/pstoremem"
	vproto "github.com/libp2p/go-libp2p/p2p/protocol/circuitv2/proto"
	ma "github.com/multiformats/go-multiaddr"
)

type book interface {
	peerstore.AddrBook
	peerstore.CertifiedAddrBook
	Close() error
}

type namedBook struct {
	name string
	b    book
}

func newBooks() ([]namedBook, error) {
	var out []namedBook
	out = append(out, namedBook{"pstoremem", pstoremem.NewAddrBook()})
	for _, cache := range []uint{0, 64} {
		opts := pstoreds.DefaultOpts()
		opts.CacheSize = cache
		opts.GCPurgeInterval = 0 // no background GC: nothing in this check depends on time
		b, err := pstoreds.NewAddrBook(context.Background(), dssync.MutexWrap(ds.NewMapDatastore()), opts)
		if err != nil {
			return nil, err
		}
		out = append(out, namedBook{fmt.Sprintf("pstoreds(cache=%d)", cache), b})
	}
	return out, nil
}

type bookSnap struct {
	peers []string
	addrs map[string][]string // by peer (hex)
	recs  map[string]string   // marshalled stored envelope by peer
}

func snapshot(b book, probes []peer.ID) bookSnap {
	s := bookSnap{addrs: map[string][]string{}, recs: map[string]string{}}
	for _, p := range b.PeersWithAddrs() {
		s.peers = append(s.peers, hx([]byte(p)))
	}
	sort.Strings(s.peers)
	for _, p := range probes {
		var as []string
		for _, a := range b.Addrs(p) {
			as = append(as, a.String())
		}
		sort.Strings(as)
		s.addrs[hx([]byte(p))] = as
		if e := b.GetPeerRecord(p); e != nil {
			eb, _ := e.Marshal()
			s.recs[hx([]byte(p))] = hx(eb)
		}
	}
	return s
}

// booksJudge feeds one envelope (already accepted by ConsumeEnvelope for the peer-record domain) to
// fresh instances of both address books, after the `setup` envelopes, and applies:
// "for peer records consumed by a peerstore, [accepted] only if the record's peer ID is the ID of the
// signing key" — and the addresses land under that peer only.
func (c *ctx) booksJudge(u *unit, env *record.Envelope, setup []*record.Envelope, what string, desc any) (acceptedAll, refusedAll bool) {
	books, err := newBooks()
	if err != nil {
		c.r.Inconclusive(u.id, "address book construction failed: "+err.Error())
		return
	}
	defer func() {
		for _, nb := range books {
			nb.b.Close()
		}
	}()
	acceptedAll, refusedAll = true, true
	keyBytes, err := ic.MarshalPublicKey(env.PublicKey)
	if err != nil {
		return false, false
	}
	keyID := peer.ID(refID(keyBytes)) // ID of the signing key, recomputed by the reference
	keyType := ""
	switch env.PublicKey.Type() {
	case 0:
		keyType = "rsa"
	case 1:
		keyType = "ed25519"
	case 2:
		keyType = "secp256k1"
	case 3:
		keyType = "ecdsa"
	}
	var recID peer.ID
	var recAddrs map[string]bool
	if r, err := env.Record(); err == nil {
		if pr, ok := r.(*peer.PeerRecord); ok {
			recID = pr.PeerID
			recAddrs = map[string]bool{}
			for _, a := range pr.Addrs {
				t, _ := peer.SplitAddr(a)
				if t != nil {
					recAddrs[t.String()] = true
				}
			}
		}
	}
	probes := []peer.ID{keyID}
	if recID != "" && recID != keyID {
		probes = append(probes, recID)
	}
	for _, k := range c.keys {
		if id := mustID(k); id != keyID && id != recID {
			probes = append(probes, id)
		}
	}
	envBytes, _ := env.Marshal()
	for _, nb := range books {
		for _, se := range setup {
			if ok, err := nb.b.ConsumePeerRecord(se, time.Hour); !ok || err != nil {
				u.count("books_setup_record_refused", 1)
			}
		}
		before := snapshot(nb.b, probes)
		ok, cerr := nb.b.ConsumePeerRecord(env, time.Hour)
		after := snapshot(nb.b, probes)
		u.evals++
		u.nontr++
		det := func() map[string]any {
			return map[string]any{"book": nb.name, "what": what, "edit": desc, "envelope": hx(envBytes), "signing_key": hx(keyBytes), "id_of_signing_key": hx([]byte(keyID)),
				"record_peer_id": hx([]byte(recID)), "accepted": ok, "err": fmt.Sprint(cerr), "before": fmt.Sprintf("%+v", before), "after": fmt.Sprintf("%+v", after),
				"setup_envelopes": len(setup)}
		}
		if ok {
			refusedAll = false
			u.count("books_accepted/"+nb.name, 1)
			if recID != keyID {
				u.violate("peerstore:accepted-record-for-foreign-peer-id/"+nb.name[:9]+"/"+keyType,
					nb.name+" accepted a signed peer record whose peer ID is not the ID of the signing key", det())
			}
		} else {
			acceptedAll = false
			u.count("books_refused/"+nb.name, 1)
		}
		// effects: only the signing key's peer may change, only if accepted, only by the record's addresses
		for _, p := range probes {
			h := hx([]byte(p))
			same := fmt.Sprint(before.addrs[h]) == fmt.Sprint(after.addrs[h]) && before.recs[h] == after.recs[h]
			if same {
				continue
			}
			if !ok {
				u.violate("peerstore:refused-record-changed-state/"+nb.name[:9]+"/"+keyType, nb.name+" refused the record but addresses or stored record of a peer changed", det())
				continue
			}
			if p != keyID {
				u.violate("peerstore:addresses-landed-under-foreign-peer/"+nb.name[:9]+"/"+keyType, nb.name+": consuming the record changed a peer other than the signing key's", det())
				continue
			}
			was := map[string]bool{}
			for _, a := range before.addrs[h] {
				was[a] = true
			}
			for _, a := range after.addrs[h] {
				if !was[a] && !recAddrs[a] {
					u.violate("peerstore:address-not-in-record/"+nb.name[:9]+"/"+keyType, nb.name+": an address appeared that the signed record does not contain: "+a, det())
				}
			}
		}
		if !ok {
			if fmt.Sprint(before.peers) != fmt.Sprint(after.peers) {
				u.violate("peerstore:refused-record-changed-state/"+nb.name[:9]+"/"+keyType, nb.name+" refused the record but PeersWithAddrs changed", det())
			}
			continue
		}
		for _, ph := range after.peers {
			known := false
			for _, bp := range before.peers {
				known = known || bp == ph
			}
			if !known && ph != hx([]byte(keyID)) {
				u.violate("peerstore:addresses-landed-under-foreign-peer/"+nb.name[:9]+"/"+keyType, nb.name+": a peer other than the signing key's appeared in PeersWithAddrs", det())
			}
		}
		// what is stored and handed out later is the content that was signed
		if got := nb.b.GetPeerRecord(keyID); got != nil {
			if !keysEqual(got.PublicKey, env.PublicKey) || !bytes.Equal(got.PayloadType, env.PayloadType) || !bytes.Equal(got.RawPayload, env.RawPayload) {
				u.violate("peerstore:stored-record-differs/"+nb.name[:9]+"/"+keyType, nb.name+": GetPeerRecord returns other content than was consumed", det())
			}
		}
	}
	return
}

func (c *ctx) consumedEnvelope(u *unit, k *testKey, rec record.Record, domain string) *record.Envelope {
	s, err := c.seal(k, "peerrec", rec)
	if err != nil {
		u.count("books_case_not_sealable", 1)
		return nil
	}
	env, _, err := record.ConsumeEnvelope(s.bytes, domain)
	if err != nil {
		// refused one layer earlier (e.g. the record's peer ID is not a multihash): nothing reaches the books
		u.count("books_case_refused_by_ConsumeEnvelope", 1)
		return nil
	}
	return env
}

func refSHA(b []byte) []byte { h := sha256.Sum256(b); return h[:] }

// sealedThenMutated: the sealer keeps using (and changing) its record object after Seal. The envelope
// OBJECT that Seal returned - not bytes parsed again - is then read and handed to the books: what it
// carries is what was signed ("the payload ... exactly what it was sealed with"; "a peerstore accepts a
// peer record only if its peer ID is the ID of the signing key"). Ground truth: the values the harness
// put into the record before sealing.
func (c *ctx) sealedThenMutated(u *unit, k *testKey, victim *testKey) {
	own, vid := mustID(k), mustID(victim)
	a1, a2 := ma.StringCast("/ip4/6.6.7.1/tcp/701"), ma.StringCast("/ip4/6.6.7.2/tcp/702")
	for _, mut := range []string{"peer-id+seq+addrs", "addrs-only", "seq-only"} {
		rec := &peer.PeerRecord{PeerID: own, Seq: 5, Addrs: []ma.Multiaddr{a1}}
		env, err := record.Seal(rec, k.priv)
		if err != nil {
			u.count("books_case_not_sealable", 1)
			return
		}
		u.evals++
		switch mut {
		case "peer-id+seq+addrs":
			rec.PeerID, rec.Seq, rec.Addrs = vid, 77, []ma.Multiaddr{a2}
		case "addrs-only":
			rec.Addrs = []ma.Multiaddr{a2}
		case "seq-only":
			rec.Seq = 77
		}
		det := map[string]any{"key": k.name, "victim": victim.name, "mutation_after_seal": mut}
		if r2, err := env.Record(); err == nil {
			pr, ok := r2.(*peer.PeerRecord)
			if !ok || pr.PeerID != own || pr.Seq != 5 || len(pr.Addrs) != 1 || !pr.Addrs[0].Equal(a1) {
				u.violate("envelope:record-differs-from-sealed-payload/sealers-object-mutated/"+mut, "Envelope.Record() of the envelope returned by Seal no longer shows what was signed after the sealer changed its own record object", det)
				continue
			}
		}
		u.count("sealed_then_mutated_envelopes_read", 1)
		u.nontr++
		books, err := newBooks()
		if err != nil {
			return
		}
		for _, nb := range books {
			acc, err := nb.b.ConsumePeerRecord(env, time.Hour)
			if err != nil || !acc {
				u.count("sealed_then_mutated_refused_by_book", 1)
				continue
			}
			u.count("sealed_then_mutated_accepted_by_book", 1)
			got := nb.b.Addrs(own)
			if len(nb.b.Addrs(vid)) != 0 {
				u.violate("peerstore:addresses-landed-under-foreign-peer/sealers-object-mutated/"+nb.name, nb.name+" stored addresses under a peer the signed payload does not name", det)
			} else if len(got) != 1 || !got[0].Equal(a1) {
				u.violate("peerstore:stored-addresses-differ-from-signed-payload/sealers-object-mutated/"+nb.name, fmt.Sprintf("%s stored %v for the signer, the signed payload lists [%s]", nb.name, got, a1), det)
			}
		}
		for _, nb := range books {
			nb.b.Close()
		}
	}
}

func (c *ctx) bookUnits() []*unit {
	var us []*unit
	for _, k := range c.keys {
		k := k
		us = append(us, &unit{c: c, id: "books/" + k.name, cost: 8, fn: func(u *unit) {
			victims := []*testKey{c.other(k, true, 0), c.other(k, false, 0), c.other(k, false, 1)}
			dom := peer.PeerRecordEnvelopeDomain
			a1, a2 := ma.StringCast("/ip4/6.6.6.6/tcp/666"), ma.StringCast("/ip4/6.6.6.7/udp/667/quic-v1")
			// honest record
			if env := c.consumedEnvelope(u, k, c.peerRecordFor(k, 10, 3), dom); env != nil {
				if acc, _ := c.booksJudge(u, env, nil, "honest", nil); acc {
					u.count("books_honest_accepted/"+k.typ(), 1)
				}
			}
			c.sealedThenMutated(u, k, victims[0])
			c.reusedDestination(u, k, victims[1])
			for vi, v := range victims {
				vid := mustID(v)
				vHonest := c.consumedEnvelope(u, v, c.peerRecordFor(v, 10, 2), dom)
				// forged: attacker k signs a record that names the victim
				forged := &peer.PeerRecord{PeerID: vid, Addrs: []ma.Multiaddr{a1, a2}, Seq: 11}
				if env := c.consumedEnvelope(u, k, forged, dom); env != nil {
					for si, setup := range [][]*record.Envelope{nil, {vHonest}} {
						if setup != nil && setup[0] == nil {
							continue
						}
						if _, ref := c.booksJudge(u, env, setup, fmt.Sprintf("forged-for-victim-%d/setup-%d", vi, si), map[string]any{"attacker": k.name, "victim": v.name}); ref {
							u.count("books_forged_refused/"+k.typ(), 1)
						}
					}
				}
				// honest ID, but addresses that carry the victim's /p2p suffix
				withSuffix := &peer.PeerRecord{PeerID: mustID(k), Seq: 12, Addrs: []ma.Multiaddr{
					a1, ma.StringCast("/ip4/6.6.6.8/tcp/668/p2p/" + vid.String()), ma.StringCast("/ip4/6.6.6.9/tcp/669/p2p/" + mustID(k).String())}}
				if env := c.consumedEnvelope(u, k, withSuffix, dom); env != nil {
					c.booksJudge(u, env, nil, "foreign-p2p-suffix", map[string]any{"victim": v.name})
					u.count("books_foreign_suffix_checked", 1)
				}
			}
			// the other ID form of the same key (sha2-256 of an inlined key / identity of a hashed key) is not "the ID"
			alt := append([]byte{0x12, 0x20}, refSHA(k.pubBytes)...)
			if refID(k.pubBytes)[0] != 0x00 {
				alt = cat([]byte{0x00}, uv(len(k.pubBytes)), k.pubBytes)
			}
			if env := c.consumedEnvelope(u, k, &peer.PeerRecord{PeerID: peer.ID(alt), Addrs: []ma.Multiaddr{a1}, Seq: 13}, dom); env != nil {
				c.booksJudge(u, env, nil, "alternative-id-form-of-signing-key", nil)
				u.count("books_alternative_id_form_checked", 1)
			}
			// a relay voucher is not a peer record
			if s, err := c.seal(k, "voucher", c.voucherFor(k, victims[0], 2_000_000_000)); err == nil {
				if env, _, err := record.ConsumeEnvelope(s.bytes, vproto.RecordDomain); err == nil {
					if _, ref := c.booksJudge(u, env, nil, "voucher-envelope", nil); ref {
						u.count("books_non_peer_record_refused", 1)
					} else {
						u.violate("peerstore:accepted-non-peer-record/"+k.typ(), "an address book accepted a reservation voucher envelope as a peer record", map[string]any{"envelope": hx(s.bytes)})
					}
				}
			}
			if k.name == "ed25519-0" {
				c.r.Sample(map[string]any{"kind": "forged peer record", "attacker": k.name, "victim": victims[0].name, "record_peer_id": mustID(victims[0]).String(),
					"expected": "ConsumeEnvelope accepts (valid signature by the attacker), both address books refuse, no address stored"})
			}
		}})
	}
	return us
}
