package c08

import "fmt"

// edit describes one mutation of a serialised artefact.
type edit struct {
	Kind string `json:"kind"` // bitflip | setbyte | truncate | chopfront | dropbyte | insertbyte | append
	Off  int    `json:"off"`
	Val  int    `json:"val"` // new byte value / new length
}

func (e edit) String() string { return fmt.Sprintf("%s@%d=%d", e.Kind, e.Off, e.Val) }

// byteEdits calls fn with a FRESH copy of orig for every single-byte edit and every truncation:
//   - every byte position: quick = the 8 single-bit flips plus 0x00, 0xff, +1, -1;
//     allValues (thorough) = all 255 other values;
//   - every proper prefix (truncation) and every proper suffix (front chopped);
//   - every single byte dropped; one byte inserted at every position (0x00 and a copy of the
//     neighbour); one byte appended (0x00, 0x01, 0xff).
//
// fn returns false to stop.
//
// The enumeration can be split over nsh shards (edit number i belongs to shard i mod nsh) so that the
// expensive artefacts (RSA) are spread over several replayable units.
func byteEdits(orig []byte, allValues bool, sh, nsh int, fn func(e edit, mutated []byte) bool) {
	n := len(orig)
	idx := 0
	mut := func(e edit, build func() []byte) bool {
		idx++
		if nsh > 1 && idx%nsh != sh {
			return true
		}
		return fn(e, build())
	}
	for i := 0; i < n; i++ {
		o := orig[i]
		var vals []byte
		if allValues {
			for v := 0; v < 256; v++ {
				if byte(v) != o {
					vals = append(vals, byte(v))
				}
			}
		} else {
			seen := map[byte]bool{o: true}
			add := func(v byte) {
				if !seen[v] {
					seen[v] = true
					vals = append(vals, v)
				}
			}
			for b := 0; b < 8; b++ {
				add(o ^ (1 << b))
			}
			add(0x00)
			add(0xff)
			add(o + 1)
			add(o - 1)
		}
		for _, v := range vals {
			kind := "setbyte"
			if x := v ^ o; x&(x-1) == 0 {
				kind = "bitflip"
			}
			if !mut(edit{kind, i, int(v)}, func() []byte {
				m := append([]byte(nil), orig...)
				m[i] = v
				return m
			}) {
				return
			}
		}
	}
	for l := 0; l < n; l++ {
		if !mut(edit{"truncate", l, l}, func() []byte { return append([]byte(nil), orig[:l]...) }) {
			return
		}
	}
	for l := 1; l < n; l++ {
		if !mut(edit{"chopfront", l, n - l}, func() []byte { return append([]byte(nil), orig[l:]...) }) {
			return
		}
	}
	for i := 0; i < n; i++ {
		if !mut(edit{"dropbyte", i, int(orig[i])}, func() []byte {
			m := append([]byte(nil), orig[:i]...)
			return append(m, orig[i+1:]...)
		}) {
			return
		}
	}
	for i := 0; i < n; i++ {
		for _, v := range []byte{0x00, orig[i]} {
			if !mut(edit{"insertbyte", i, int(v)}, func() []byte {
				m := append([]byte(nil), orig[:i]...)
				m = append(m, v)
				return append(m, orig[i:]...)
			}) {
				return
			}
			if v == orig[i] && v == 0 {
				break
			}
		}
	}
	for _, v := range []byte{0x00, 0x01, 0xff} {
		if !mut(edit{"append", n, int(v)}, func() []byte { return append(append([]byte(nil), orig...), v) }) {
			return
		}
	}
}

// textEdits: every character replaced by every printable ASCII character, every truncation, every
// single character dropped, one character inserted (copy of the neighbour, '1', 'a') at every position.
func textEdits(orig string, fn func(e edit, mutated string) bool) {
	n := len(orig)
	for i := 0; i < n; i++ {
		for c := 0x21; c < 0x7f; c++ {
			if byte(c) == orig[i] {
				continue
			}
			if !fn(edit{"setchar", i, c}, orig[:i]+string(rune(c))+orig[i+1:]) {
				return
			}
		}
	}
	for l := 0; l < n; l++ {
		if !fn(edit{"truncate", l, l}, orig[:l]) {
			return
		}
	}
	for l := 1; l < n; l++ {
		if !fn(edit{"chopfront", l, n - l}, orig[l:]) {
			return
		}
	}
	for i := 0; i < n; i++ {
		if !fn(edit{"dropchar", i, int(orig[i])}, orig[:i]+orig[i+1:]) {
			return
		}
	}
	for i := 0; i <= n; i++ {
		cs := []byte{'1', 'a', 'A'}
		if i < n {
			cs = append(cs, orig[i])
		}
		for _, c := range cs {
			if !fn(edit{"insertchar", i, int(c)}, orig[:i]+string(rune(c))+orig[i:]) {
				return
			}
		}
	}
}
