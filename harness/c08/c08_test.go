// C08 — Keys, peer IDs and signed envelopes bind identity to content.
//
// Runtime monitor over the REAL core/crypto, core/peer, core/record, circuitv2/proto voucher and the two
// address books. Workload: fresh keys of all four types derived from the seed; every single-byte edit,
// truncation, byte insertion/removal and protobuf field edit of their real serialisations (keys,
// signatures, IDs in binary/base58/CID form, sealed envelopes, signed peer records, relay vouchers);
// foreign key / foreign domain pairings; (domain, type, payload) triples whose concatenations coincide.
//
// Oracle (semantic, not byte-wise; DESIGN.md §3 C08): whatever the receiver ACCEPTS must decode to
// content that was really sealed: (signer, domain asked, payload type, payload) ∈ sealed set; a key
// that parses from a mutated serialisation and verifies the original signature must Equal the
// original key; a mutated signature may still verify, but only for the unchanged (key, message);
// a peerstore accepts a record only if its peer ID is the (independently recomputed) ID of the
// signing key and then stores addresses under that peer only.
package c08

import (
	"encoding/hex"
	"fmt"
	"os"
	"sort"
	"sync"
	"testing"
	"time"

	"verif/harness/rig/run"
)

type ctx struct {
	r      *run.R
	keys   []*testKey
	byType map[string][]*testKey
	all    bool // thorough: all 255 byte values per position
}

// other returns a key different from k: same type if sameType (falls back to any other key).
func (c *ctx) other(k *testKey, sameType bool, n int) *testKey {
	var cand []*testKey
	for _, o := range c.keys {
		if o != k && (o.typ() == k.typ()) == sameType {
			cand = append(cand, o)
		}
	}
	if len(cand) == 0 {
		for _, o := range c.keys {
			if o != k {
				cand = append(cand, o)
			}
		}
	}
	return cand[n%len(cand)]
}

// shards: into how many replayable units the byte edits of one artefact of this key are split
// (a function of tier and key kind only).
func (c *ctx) shards(k *testKey) int {
	q := map[string]int{"rsa3072": 6, "rsa2048": 3}[k.kind]
	th := map[string]int{"rsa3072": 32, "rsa2048": 16, "secp256k1": 4, "ecdsa": 4, "ed25519": 3}[k.kind]
	if !c.all {
		th = q
	}
	if n := c.r.Pick(q, th); n > 1 {
		return n
	}
	return 1
}

// unit is one replayable case (one artefact of one key under one family of edits).
type unit struct {
	c     *ctx
	id    string
	cost  int // scheduling hint (bigger first)
	fn    func(u *unit)
	nviol int
	// local tallies, flushed once
	counts map[string]int
	evals  int
	nontr  int
}

func (u *unit) count(name string, n int) { u.counts[name] += n }

func (u *unit) violate(sig, msg string, detail map[string]any) {
	if u.nviol >= 3 {
		u.count("violations_suppressed_in_unit", 1)
		return
	}
	u.nviol++
	u.c.r.Violation(sig, u.id, msg, detail)
}

func (u *unit) stop() bool { return u.nviol >= 3 || u.c.r.TooMany() }

func hx(b []byte) string {
	if len(b) > 4096 {
		return hex.EncodeToString(b[:4096]) + fmt.Sprintf("...(%d bytes)", len(b))
	}
	return hex.EncodeToString(b)
}

func (c *ctx) runUnits(units []*unit) {
	sort.SliceStable(units, func(i, j int) bool { return units[i].cost > units[j].cost })
	var mu sync.Mutex
	type unitTime struct {
		ID string  `json:"id"`
		S  float64 `json:"seconds"`
	}
	var slow []unitTime
	defer func() {
		sort.Slice(slow, func(i, j int) bool { return slow[i].S > slow[j].S })
		if len(slow) > 8 {
			slow = slow[:8]
		}
		c.r.Extra("slowest_units", slow)
	}()
	run.Parallel(len(units), 0, func(i int) {
		u := units[i]
		if !c.r.Want(u.id) || c.r.TooMany() {
			return
		}
		u.counts = map[string]int{}
		t0 := time.Now()
		u.fn(u)
		el := time.Since(t0) // reporting only (scheduling diagnostics), never part of a verdict
		mu.Lock()
		defer mu.Unlock()
		slow = append(slow, unitTime{u.id, el.Seconds()})
		c.r.Eval(u.evals)
		c.r.NontrivialN(u.nontr)
		for k, v := range u.counts {
			c.r.Count(k, v)
		}
		c.r.Count("units_run", 1)
	})
}

func TestC08(t *testing.T) {
	r := run.New(t, "C08", "fault_enumeration")
	defer r.Finish()
	r.Rule("one evaluation = one (artefact, edit or pairing) presented to the real decoder/verifier/consumer and judged; " +
		"non-trivial = the input still parsed, so the verdict came from the binding logic (signature over the rebuilt pre-image, " +
		"key equality, ID comparison, peerstore ID match) and not from the wire decoder, or it was accepted and its decoded content " +
		"was compared with what was sealed; distinct by construction (artefact x edit)")
	r.Assume("the primitives (crypto/ed25519, crypto/ecdsa, crypto/rsa, decred secp256k1, sha256) are trusted; the monitor checks which key, message, domain and content the surrounding logic binds",
		"ECDSA/secp256k1/RSA signature re-encodings and protobuf re-encodings that decode to the sealed content are accepted by the oracle (statement is about message and key, not encoding uniqueness)",
		"ConsumeTypedEnvelope is not required to compare the destination record's codec with the payload type (documented caller duty)",
		"RSA keys are capped (2048 and 3072 bits only, few keys); ECDSA is P-256 only (the only curve GenerateECDSAKeyPair produces)",
		"ECDSA signing draws from crypto/rand, so ECDSA signature bytes differ between runs of the same seed; the oracle does not depend on them")

	c := &ctx{r: r, byType: map[string][]*testKey{}, all: !r.Quick()}
	if os.Getenv("VERIF_RACE") == "1" {
		c.all = false
	}

	// ---- fresh keys, a function of the seed only ----
	type spec struct {
		kind string
		n    int
	}
	specs := []spec{{"rsa3072", 1}, {"rsa2048", r.Pick(1, 2)}, {"ed25519", r.Pick(3, 6)}, {"ecdsa", r.Pick(2, 4)}, {"secp256k1", r.Pick(2, 4)}}
	type slot struct {
		kind string
		idx  int
	}
	var slots []slot
	for _, s := range specs {
		for i := 0; i < s.n; i++ {
			slots = append(slots, slot{s.kind, i})
		}
	}
	keys := make([]*testKey, len(slots))
	errs := make([]error, len(slots))
	run.Parallel(len(slots), 0, func(i int) {
		kindNo := map[string]uint64{"ed25519": 1, "ecdsa": 2, "secp256k1": 3, "rsa2048": 4, "rsa3072": 5}[slots[i].kind]
		keys[i], errs[i] = genKey(r.Rand(8, kindNo, uint64(slots[i].idx)), slots[i].kind, slots[i].idx)
	})
	for i, e := range errs {
		if e != nil {
			t.Fatalf("key generation %v: %v", slots[i], e)
		}
	}
	c.keys = keys
	for _, k := range keys {
		c.byType[k.typ()] = append(c.byType[k.typ()], k)
	}
	r.Extra("keys", func() []string {
		var s []string
		for _, k := range keys {
			s = append(s, k.name)
		}
		return s
	}())

	var units []*unit
	units = append(units, c.keyRoundTripUnits()...)
	units = append(units, c.signVerifyUnits()...)
	units = append(units, c.sigEditUnits()...)
	units = append(units, c.keyEditUnits()...)
	units = append(units, c.idUnits()...)
	units = append(units, c.envelopeUnits()...)
	units = append(units, c.collisionUnits()...)
	units = append(units, c.bookUnits()...)
	c.runUnits(units)

	r.Exhaustive(true) // every byte position of every artefact listed in coverage.artefacts was edited
	valueSet := "8 single-bit flips + 0x00 + 0xff + (+1) + (-1) per byte"
	if c.all {
		valueSet = "all 255 other values per byte (RSA private keys: the quick set)"
	}
	r.Extra("artefacts", map[string]any{
		"per_key":          []string{"marshalled public key (protobuf and raw)", "marshalled private key", "2 signatures", "peer ID binary", "peer ID base58 text", "peer ID CIDv1 base32 text", "sealed envelopes: signed peer record, relay reservation voucher, registered test record, unregistered test record"},
		"byte_edit_values": valueSet,
		"other_edits":      "every truncation (prefix) and front chop (suffix), every single byte dropped, one byte inserted at every position, one byte appended; text forms: every character replaced by every printable ASCII character, dropped, inserted",
		"field_edits":      "field removed / duplicated / reordered (all 24 orders) / unknown field added (6 kinds x 5 positions) / wire type changed / emptied; every subset of fields taken from 5 foreign envelopes (foreign key same type, foreign key other type, other payload, other domain, other payload type); foreign value duplicated before/after; edits inside the embedded PublicKey message; re-encoded payloads",
	})
	// path classes the check exists to exercise
	for _, kt := range []string{"ed25519", "ecdsa", "secp256k1", "rsa"} {
		r.Require("roundtrip_ok/"+kt, 1)
		r.Require("verify_true_expected/"+kt, 5)
		r.Require("verify_false_expected/"+kt, 50)
		r.Require("env_reject_signature/"+kt, 100)
		r.Require("env_accept_sealed_content/"+kt, 20)
		if kt != "ecdsa" { // a single-byte edit of a P-256 point is (practically) never on the curve
			r.Require("pubkey_edit_parsed_other_key/"+kt, 10)
		}
		r.Require("sig_edit_total/"+kt, 100)
		r.Require("books_forged_refused/"+kt, 2)
		r.Require("books_honest_accepted/"+kt, 2)
	}
	r.Require("reused_destination_refused_envelopes", 20)
	r.Require("reused_destination_books_checked", 20)
	r.Require("id_identity_extract_ok", 2)
	r.Require("id_sha256_no_embedded_key", 2)
	r.Require("id_text_edit_accepted_other_id", 10)
	r.Require("id_text_edit_rejected", 1000)
	r.Require("env_reject_unmarshal", 1000)
	r.Require("env_cross_domain_rejected", 50)
	r.Require("env_foreign_splice_rejected", 100)
	r.Require("collide_pairs_rejected", 50)
	r.Require("collide_sealed_triple_accepted", 50)
	r.Require("books_reencoded_envelope_checked", 10)
}
