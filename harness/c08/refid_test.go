package c08

// Reference model of peer IDs and their text forms, written from the statement and the libp2p
// peer-id spec, independent of core/peer, go-cid, go-multibase, go-multihash and mr-tron/base58.

import (
	"crypto/sha256"
	"encoding/binary"
	"encoding/hex"
	"math/big"
	"strings"
)

// refID: "identity multihash for <=42-byte keys else sha2-256 of the marshalled key".
func refID(marshalledPub []byte) []byte {
	if len(marshalledPub) <= 42 {
		return append([]byte{0x00, byte(len(marshalledPub))}, marshalledPub...)
	}
	h := sha256.Sum256(marshalledPub)
	return append([]byte{0x12, 0x20}, h[:]...)
}

// refMarshalPub is the spec encoding of a public key: PublicKey{Type=1: enum, Data=2: bytes}.
func refMarshalPub(keyType int, raw []byte) []byte {
	return pbJoin([]pbField{pbVarint(1, uint64(keyType)), pbBytes(2, raw)})
}

// multihashOK: <varint code><varint length><digest of exactly that length>. Lenient on varint
// minimality and on the code (the real code may be stricter; stricter is allowed).
func multihashOK(b []byte) bool {
	_, n := binary.Uvarint(b)
	if n <= 0 {
		return false
	}
	l, m := binary.Uvarint(b[n:])
	if m <= 0 {
		return false
	}
	return uint64(len(b)-n-m) == l
}

const b58Alphabet = "123456789ABCDEFGHJKLMNPQRSTUVWXYZabcdefghijkmnopqrstuvwxyz"
const b36Alphabet = "0123456789abcdefghijklmnopqrstuvwxyz"
const b32Alphabet = "abcdefghijklmnopqrstuvwxyz234567"

func refB58Encode(b []byte) string {
	zeros := 0
	for zeros < len(b) && b[zeros] == 0 {
		zeros++
	}
	x := new(big.Int).SetBytes(b)
	base, mod := big.NewInt(58), new(big.Int)
	var out []byte
	for x.Sign() > 0 {
		x.DivMod(x, base, mod)
		out = append(out, b58Alphabet[mod.Int64()])
	}
	for i := 0; i < zeros; i++ {
		out = append(out, '1')
	}
	for i, j := 0, len(out)-1; i < j; i, j = i+1, j-1 {
		out[i], out[j] = out[j], out[i]
	}
	return string(out)
}

// bigBaseDecode decodes a positional big-number encoding (base58 / base36): leading "zero digit"
// characters are zero bytes.
func bigBaseDecode(s, alphabet string, foldCase bool) ([]byte, bool) {
	if foldCase {
		s = strings.ToLower(s)
	}
	zeros := 0
	for zeros < len(s) && s[zeros] == alphabet[0] {
		zeros++
	}
	x := new(big.Int)
	base := big.NewInt(int64(len(alphabet)))
	for i := 0; i < len(s); i++ {
		d := strings.IndexByte(alphabet, s[i])
		if d < 0 {
			return nil, false
		}
		x.Mul(x, base).Add(x, big.NewInt(int64(d)))
	}
	return append(make([]byte, zeros), x.Bytes()...), true
}

func refB32Encode(b []byte) string { // lower case, no padding
	var out []byte
	var acc uint
	bits := 0
	for _, c := range b {
		acc = acc<<8 | uint(c)
		bits += 8
		for bits >= 5 {
			out = append(out, b32Alphabet[(acc>>(bits-5))&31])
			bits -= 5
		}
	}
	if bits > 0 {
		out = append(out, b32Alphabet[(acc<<(5-bits))&31])
	}
	return string(out)
}

// refB32Decode is deliberately lenient (either case, optional trailing '=', trailing bits ignored):
// the reference must not be stricter than any sane decoder.
func refB32Decode(s string) ([]byte, bool) {
	s = strings.TrimRight(strings.ToLower(s), "=")
	var out []byte
	var acc uint
	bits := 0
	for i := 0; i < len(s); i++ {
		d := strings.IndexByte(b32Alphabet, s[i])
		if d < 0 {
			return nil, false
		}
		acc = acc<<5 | uint(d)
		bits += 5
		if bits >= 8 {
			out = append(out, byte(acc>>(bits-8)))
			bits -= 8
		}
		acc &= 0xffff
	}
	return out, true
}

type refVerdict int

const (
	refOK refVerdict = iota
	refReject
	refUnknownBase  // multibase prefix that this reference does not model
	refForeignCodec // well-formed CID whose codec is not libp2p-key
)

func (v refVerdict) String() string {
	return [...]string{"ok", "reject", "unknown-base", "foreign-codec"}[v]
}

// refDecodeText: "Qm…"/"1…" is a bare base58btc multihash; anything else is a multibase CIDv1 with
// codec libp2p-key (0x72) whose multihash is the ID.
func refDecodeText(s string) ([]byte, refVerdict) {
	if strings.HasPrefix(s, "Qm") || strings.HasPrefix(s, "1") {
		b, ok := bigBaseDecode(s, b58Alphabet, false)
		if !ok || !multihashOK(b) {
			return nil, refReject
		}
		return b, refOK
	}
	if len(s) < 2 {
		return nil, refReject
	}
	var c []byte
	var ok bool
	switch s[0] {
	case 'b', 'B', 'c', 'C':
		c, ok = refB32Decode(s[1:])
	case 'z':
		c, ok = bigBaseDecode(s[1:], b58Alphabet, false)
	case 'k', 'K':
		c, ok = bigBaseDecode(s[1:], b36Alphabet, true)
	case 'f', 'F':
		var err error
		c, err = hex.DecodeString(strings.ToLower(s[1:]))
		ok = err == nil
	default:
		return nil, refUnknownBase
	}
	if !ok {
		return nil, refReject
	}
	if len(c) == 34 && c[0] == 0x12 && c[1] == 0x20 {
		return nil, refForeignCodec // CIDv0 is dag-pb by definition
	}
	ver, n := binary.Uvarint(c)
	if n <= 0 || ver != 1 {
		return nil, refReject
	}
	codec, m := binary.Uvarint(c[n:])
	if m <= 0 {
		return nil, refReject
	}
	h := c[n+m:]
	if !multihashOK(h) {
		return nil, refReject
	}
	if codec != 0x72 {
		return nil, refForeignCodec
	}
	return h, refOK
}

// refCIDText is the canonical CIDv1 base32 text form of an ID.
func refCIDText(id []byte) string {
	return "b" + refB32Encode(append([]byte{0x01, 0x72}, id...))
}
