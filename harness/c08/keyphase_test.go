package c08

import (
	"bytes"
	"fmt"

	ic "github.com/libp2p/go-libp2p/core/crypto"
	pb "github.com/libp2p/go-libp2p/core/crypto/pb"
	"github.com/libp2p/go-libp2p/core/peer"
	"google.golang.org/protobuf/proto"
)

func verifyOK(k ic.PubKey, m, sig []byte) bool {
	ok, err := k.Verify(m, sig)
	_ = err
	return ok // a true answer counts as acceptance whatever err says
}

func keysEqual(a, b ic.Key) bool { return a.Equals(b) || b.Equals(a) }

// ---------------------------------------------------------------------------------------------
// "marshalling then unmarshalling a key yields an equal key"
func (c *ctx) keyRoundTripUnits() []*unit {
	var us []*unit
	for _, k := range c.keys {
		k := k
		us = append(us, &unit{c: c, id: "keys/roundtrip/" + k.name, cost: 5, fn: func(u *unit) {
			fail := func(what string, extra map[string]any) {
				d := map[string]any{"key": k.name, "pub": hx(k.pubBytes), "priv": hx(k.privBytes)}
				for a, b := range extra {
					d[a] = b
				}
				u.violate("key-roundtrip:"+what+"/"+k.typ(), "round trip of "+k.name+": "+what, d)
			}
			u.evals++
			u.nontr++
			// public: protobuf form
			p2, err := ic.UnmarshalPublicKey(append([]byte(nil), k.pubBytes...))
			if err != nil {
				fail("public-unmarshal-error", map[string]any{"err": err.Error()})
				return
			}
			if !p2.Equals(k.pub) || !k.pub.Equals(p2) || !ic.KeyEqual(p2, k.pub) {
				fail("public-not-equal", nil)
			}
			if b2, err := ic.MarshalPublicKey(p2); err != nil || !bytes.Equal(b2, k.pubBytes) {
				fail("public-remarshal-differs", map[string]any{"remarshalled": hx(b2)})
			}
			if p2.Type() != k.pub.Type() {
				fail("public-type-changed", nil)
			}
			// public: raw form through the per-type unmarshaller
			raw, err := k.pub.Raw()
			if err != nil {
				fail("public-raw-error", nil)
				return
			}
			if bytes.Equal(refMarshalPub(int(k.pub.Type()), raw), k.pubBytes) {
				u.count("pub_marshal_is_spec_encoding", 1)
			}
			p3, err := ic.PubKeyUnmarshallers[k.pub.Type()](append([]byte(nil), raw...))
			if err != nil || !p3.Equals(k.pub) || !k.pub.Equals(p3) {
				fail("public-raw-roundtrip", nil)
			} else if r3, _ := p3.Raw(); !bytes.Equal(r3, raw) {
				fail("public-raw-remarshal-differs", nil)
			}
			// public: proto message form
			if pm, err := ic.PublicKeyToProto(k.pub); err != nil {
				fail("public-toproto-error", nil)
			} else if p4, err := ic.PublicKeyFromProto(pm); err != nil || !p4.Equals(k.pub) {
				fail("public-proto-roundtrip", nil)
			}
			// private
			s2, err := ic.UnmarshalPrivateKey(append([]byte(nil), k.privBytes...))
			if err != nil {
				fail("private-unmarshal-error", map[string]any{"err": err.Error()})
				return
			}
			if !s2.Equals(k.priv) || !k.priv.Equals(s2) {
				fail("private-not-equal", nil)
			}
			if !s2.GetPublic().Equals(k.pub) || !k.priv.GetPublic().Equals(k.pub) {
				fail("private-getpublic-differs", nil)
			}
			if b2, err := ic.MarshalPrivateKey(s2); err != nil || !bytes.Equal(b2, k.privBytes) {
				fail("private-remarshal-differs", map[string]any{"remarshalled": hx(b2)})
			}
			sraw, _ := k.priv.Raw()
			if s3, err := ic.PrivKeyUnmarshallers[k.priv.Type()](append([]byte(nil), sraw...)); err != nil || !s3.Equals(k.priv) {
				fail("private-raw-roundtrip", nil)
			}
			// the unmarshalled halves are interchangeable with the originals
			msg := []byte("c08 round trip " + k.name)
			if sig, err := s2.Sign(msg); err != nil || !verifyOK(k.pub, msg, sig) || !verifyOK(p2, msg, sig) {
				fail("unmarshalled-private-signature-not-verified", nil)
			}
			if sig, err := k.priv.Sign(msg); err != nil || !verifyOK(p2, msg, sig) || !verifyOK(p3, msg, sig) {
				fail("unmarshalled-public-does-not-verify", nil)
			}
			// stdlib conversion and back (not part of the statement: counted only; PrivKeyToStdKey hands
			// out the libp2p wrapper type for secp256k1, which KeyPairFromStdKey does not take back)
			if std, err := ic.PrivKeyToStdKey(k.priv); err == nil {
				if s4, p4, err := ic.KeyPairFromStdKey(std); err == nil && s4.Equals(k.priv) && p4.Equals(k.pub) {
					u.count("std_key_roundtrip_ok", 1)
				}
			}
			wantType := map[string]pb.KeyType{"rsa": pb.KeyType_RSA, "ed25519": pb.KeyType_Ed25519, "secp256k1": pb.KeyType_Secp256k1, "ecdsa": pb.KeyType_ECDSA}[k.typ()]
			if k.pub.Type() != wantType || k.priv.Type() != wantType {
				fail("wrong-type-enum", nil)
			}
			// an equal key only for the same key: every other fresh key must compare unequal
			for _, o := range c.keys {
				if o == k {
					continue
				}
				u.evals++
				if k.pub.Equals(o.pub) || ic.KeyEqual(k.pub, o.pub) || k.priv.Equals(o.priv) || p2.Equals(o.pub) {
					fail("distinct-keys-compare-equal", map[string]any{"other": o.name, "other_pub": hx(o.pubBytes)})
				} else {
					u.count("distinct_keys_unequal", 1)
				}
			}
			if u.nviol == 0 {
				u.count("roundtrip_ok/"+k.typ(), 1)
			}
			if k.name == "ed25519-0" {
				c.r.Sample(map[string]any{"kind": "key round trip", "key": k.name, "public": hx(k.pubBytes), "id": peerIDString(k)})
			}
		}})
	}
	return us
}

func peerIDString(k *testKey) string {
	id, err := peer.IDFromPublicKey(k.pub)
	if err != nil {
		return "error: " + err.Error()
	}
	return id.String()
}

// ---------------------------------------------------------------------------------------------
// "a signature verifies under the signer's public key for exactly the message that was signed and
// under no other key or message"
func (c *ctx) messages() [][]byte {
	rng := c.r.Rand(8, 100)
	short := randBytes(rng, 16)
	flip := append([]byte(nil), short...)
	flip[15] ^= 1
	big := randBytes(rng, 1<<20)
	bigFlip := append([]byte(nil), big...)
	bigFlip[rng.IntN(len(bigFlip))] ^= 1 << rng.IntN(8)
	ms := [][]byte{
		{}, {0}, {1}, short, flip, append(append([]byte(nil), short...), 0), short[:15],
		big, bigFlip, append(append([]byte(nil), big...), 0),
	}
	if !c.r.Quick() {
		ms = append(ms, randBytes(rng, 127), randBytes(rng, 128), randBytes(rng, 16383), randBytes(rng, 16384), big[:len(big)-1])
	}
	return ms
}

func (c *ctx) signVerifyUnits() []*unit {
	ms := c.messages()
	var us []*unit
	for _, k := range c.keys {
		k := k
		us = append(us, &unit{c: c, id: "sign/" + k.name, cost: 40, fn: func(u *unit) {
			for i, m := range ms {
				sig, err := k.priv.Sign(m)
				if err != nil {
					u.violate("sign:error/"+k.typ(), "Sign failed: "+err.Error(), map[string]any{"key": k.name, "priv": hx(k.privBytes), "msg_index": i, "msg_len": len(m)})
					continue
				}
				for _, v := range c.keys {
					for j, m2 := range ms {
						want := v == k && i == j
						got := verifyOK(v.pub, m2, sig)
						u.evals++
						u.nontr++
						if want {
							u.count("verify_true_expected/"+k.typ(), 1)
						} else {
							u.count("verify_false_expected/"+k.typ(), 1)
						}
						if got != want {
							what := "verify-true-for-other-message"
							switch {
							case want:
								what = "own-signature-rejected"
							case v != k && i == j:
								what = "verify-true-for-other-key"
							case v != k:
								what = "verify-true-for-other-key-and-message"
							}
							u.violate("sign:"+what+"/signer="+k.typ()+"/verifier="+v.typ(),
								fmt.Sprintf("signature by %s over message #%d (len %d): Verify under %s with message #%d (len %d) = %v", k.name, i, len(m), v.name, j, len(m2), got),
								map[string]any{"signer": k.name, "signer_priv": hx(k.privBytes), "verifier": v.name, "verifier_pub": hx(v.pubBytes),
									"signed_msg": hx(m), "verified_msg": hx(m2), "sig": hx(sig)})
							if u.stop() {
								return
							}
						}
					}
				}
			}
		}})
	}
	return us
}

// ---------------------------------------------------------------------------------------------
// every single-byte edit and truncation of a real signature: it may still verify (DER re-encodings
// etc.) but only for the unchanged (key, message).
func (c *ctx) sigEditUnits() []*unit {
	var us []*unit
	for _, k := range c.keys {
		k := k
		nsh := c.shards(k)
		for sh := 0; sh < nsh; sh++ {
			sh := sh
			us = append(us, &unit{c: c, id: fmt.Sprintf("sigedit/%s/s%dof%d", k.name, sh, nsh), cost: 30, fn: func(u *unit) {
				rng := c.r.Rand(8, 200)
				m := randBytes(rng, 33)
				mOther := append([]byte(nil), m...)
				mOther[0] ^= 0x80
				oSame, oDiff := c.other(k, true, 0), c.other(k, false, 0)
				for mi, msg := range [][]byte{m, {}} {
					other := mOther
					sig, err := k.priv.Sign(msg)
					if err != nil {
						u.violate("sign:error/"+k.typ(), "Sign failed", map[string]any{"key": k.name})
						return
					}
					byteEdits(sig, c.all, sh, nsh, func(e edit, s2 []byte) bool {
						u.evals++
						u.count("sig_edit_total/"+k.typ(), 1)
						if verifyOK(k.pub, msg, s2) {
							// same key, same message: allowed (signature malleability is outside the statement)
							u.count("sig_edit_still_verifies_same_key_and_message/"+k.typ(), 1)
							u.nontr++
						}
						bad := ""
						switch {
						case verifyOK(k.pub, other, s2):
							bad = "other-message"
						case verifyOK(oSame.pub, msg, s2):
							bad = "other-key-same-type"
						case verifyOK(oDiff.pub, msg, s2):
							bad = "other-key-other-type"
						}
						if bad != "" {
							u.violate("sigedit:verifies-for-"+bad+"/"+k.typ()+"/"+e.Kind,
								fmt.Sprintf("edited signature (%s) of %s verifies for %s", e, k.name, bad),
								map[string]any{"key": k.name, "priv": hx(k.privBytes), "msg": hx(msg), "other_msg": hx(other), "msg_index": mi,
									"sig": hx(sig), "edited_sig": hx(s2), "edit": e, "other_same_type": hx(oSame.pubBytes), "other_type": hx(oDiff.pubBytes)})
						}
						return !u.stop()
					})
				}
			}})
		}
	}
	return us
}

// ---------------------------------------------------------------------------------------------
// every single-byte edit and truncation of marshalled public / private keys (protobuf and raw):
// "if a mutated serialisation unmarshals to k' and k'.Verify(m, sig_k(m)) then k'.Equals(k)".
func (c *ctx) keyEditUnits() []*unit {
	var us []*unit
	for _, k := range c.keys {
		k := k
		type sample struct{ m, sig []byte }
		mkSamples := func() []sample {
			var ss []sample
			for _, m := range [][]byte{[]byte("c08 key edit sample " + k.name), {}} {
				sig, err := k.priv.Sign(m)
				if err == nil {
					ss = append(ss, sample{m, sig})
				}
			}
			return ss
		}
		id0 := string(refID(k.pubBytes))
		judgePub := func(u *unit, form string, e edit, mutated []byte, k2 ic.PubKey, ss []sample) {
			det := func() map[string]any {
				return map[string]any{"key": k.name, "priv": hx(k.privBytes), "form": form, "original_pb": hx(k.pubBytes), "mutated": hx(mutated), "edit": e}
			}
			if keysEqual(k2, k.pub) {
				u.count("pubkey_edit_parsed_same_key/"+k.typ(), 1)
				u.nontr++
				// peer ID is a function of the KEY: an equal key must give the same ID
				if id2, err := peer.IDFromPublicKey(k2); err != nil || string(id2) != id0 {
					u.violate("keyedit:equal-key-different-id/"+k.typ()+"/"+form, "re-encoded key Equals the original but has another peer ID", det())
				}
				return
			}
			u.count("pubkey_edit_parsed_other_key/"+k.typ(), 1)
			u.nontr++
			for _, s := range ss {
				if verifyOK(k2, s.m, s.sig) {
					d := det()
					d["msg"], d["sig"] = hx(s.m), hx(s.sig)
					u.violate("keyedit:unequal-key-verifies-original-signature/"+k.typ()+"/"+form+"/"+e.Kind,
						fmt.Sprintf("%s public key after %s parses to a key that is not Equal to the original but verifies the original's signature", k.name, e), d)
				}
			}
			if id2, err := peer.IDFromPublicKey(k2); err == nil && string(id2) == id0 {
				u.violate("keyedit:unequal-key-same-id/"+k.typ()+"/"+form, "a key not Equal to the original has the original's peer ID", det())
			}
		}
		nsh := c.shards(k)
		for sh := 0; sh < nsh; sh++ {
			sh := sh
			us = append(us, &unit{c: c, id: fmt.Sprintf("keyedit/pub/%s/s%dof%d", k.name, sh, nsh), cost: 20, fn: func(u *unit) {
				ss := mkSamples()
				byteEdits(k.pubBytes, c.all, sh, nsh, func(e edit, b []byte) bool {
					u.evals++
					k2, err := ic.UnmarshalPublicKey(b)
					if err != nil {
						u.count("pubkey_edit_rejected", 1)
						return true
					}
					judgePub(u, "pb", e, b, k2, ss)
					return !u.stop()
				})
				// structural re-encodings of the PublicKey message (not reachable by single-byte edits): a parser
				// that accepts them and yields an Equal key must still derive the SAME peer ID from it
				if fs, err := pbParse(k.pubBytes); err == nil && len(fs) == 2 && sh == 0 {
					var alts [][]pbField
					unknown := []pbField{pbBytes(3, []byte("zz")), pbVarint(4, 1), pbBytes(15, nil), pbFixed32(7), pbVarint(2047, 300)}
					for _, uf := range unknown {
						for pos := 0; pos <= 2; pos++ {
							alts = append(alts, pbInsert(fs, pos, uf))
						}
					}
					alts = append(alts, []pbField{fs[1], fs[0]}, []pbField{fs[0], fs[0], fs[1]}, []pbField{fs[0], fs[1], fs[1]},
						[]pbField{fs[0], fs[1], pbBytes(3, []byte("a")), pbBytes(3, []byte("b"))})
					for ai, alt := range alts {
						u.evals++
						b := pbJoin(alt)
						k2, err := ic.UnmarshalPublicKey(b)
						if err != nil {
							u.count("pubkey_reencoding_rejected", 1)
							continue
						}
						u.count("pubkey_reencoding_accepted/"+k.typ(), 1)
						judgePub(u, "pb-reencoded", edit{"reencode", ai, 0}, b, k2, ss)
						// and through the envelope's way of parsing keys
						var m pb.PublicKey
						if proto.Unmarshal(b, &m) == nil {
							if k3, err := ic.PublicKeyFromProto(&m); err == nil {
								judgePub(u, "pb-reencoded/PublicKeyFromProto", edit{"reencode", ai, 0}, b, k3, ss)
							}
						}
					}
				}
				raw, _ := k.pub.Raw()
				byteEdits(raw, c.all, sh, nsh, func(e edit, b []byte) bool {
					u.evals++
					mutated := append([]byte(nil), b...)
					k2, err := ic.PubKeyUnmarshallers[k.pub.Type()](b)
					if err != nil {
						u.count("pubkey_edit_rejected", 1)
						return true
					}
					judgePub(u, "raw", e, mutated, k2, ss)
					return !u.stop()
				})
				// the same raw bytes under every other key type
				for t := 0; t < 4 && sh == 0; t++ {
					if pb.KeyType(t) == k.pub.Type() {
						continue
					}
					u.evals++
					b := refMarshalPub(t, raw)
					if k2, err := ic.UnmarshalPublicKey(b); err == nil {
						judgePub(u, "pb-retyped", edit{"retype", 1, t}, b, k2, ss)
					} else {
						u.count("pubkey_edit_rejected", 1)
					}
				}
			}})
			us = append(us, &unit{c: c, id: fmt.Sprintf("keyedit/priv/%s/s%dof%d", k.name, sh, nsh), cost: 60, fn: func(u *unit) {
				ss := mkSamples()
				msg := []byte("signed by a mutated private key")
				byteEdits(k.privBytes, c.all && k.typ() != "rsa", sh, nsh, func(e edit, b []byte) bool {
					u.evals++
					s2, err := ic.UnmarshalPrivateKey(b)
					if err != nil {
						u.count("privkey_edit_rejected", 1)
						return true
					}
					u.nontr++
					p2 := s2.GetPublic()
					if keysEqual(p2, k.pub) {
						u.count("privkey_edit_parsed_same_public/"+k.typ(), 1)
						return true
					}
					u.count("privkey_edit_parsed_other_public/"+k.typ(), 1)
					det := func() map[string]any {
						return map[string]any{"key": k.name, "priv": hx(k.privBytes), "mutated_priv": hx(b), "edit": e}
					}
					for _, s := range ss {
						if verifyOK(p2, s.m, s.sig) {
							u.violate("keyedit:private-unequal-public-verifies-original-signature/"+k.typ(), "public half of a mutated private key is not Equal to the original but verifies the original's signature", det())
						}
					}
					if sig2, err := s2.Sign(msg); err == nil && verifyOK(k.pub, msg, sig2) {
						u.violate("keyedit:private-other-key-signs-for-original/"+k.typ(), "signature made by a mutated private key (different public half) verifies under the original public key", det())
					}
					return !u.stop()
				})
			}})
		}
	}
	return us
}
