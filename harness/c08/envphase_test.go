package c08

import (
	"fmt"

	"github.com/libp2p/go-libp2p/core/peer"
	"github.com/libp2p/go-libp2p/core/record"
	vproto "github.com/libp2p/go-libp2p/p2p/protocol/circuitv2/proto"
)

// envFamily is everything sealed around one (key, kind): the envelope that gets edited and the
// foreign material its parts are crossed with.
type envFamily struct {
	main      *sealedEnv // edited
	foreign   *sealedEnv // same content, foreign key of the same type
	foreign2  *sealedEnv // same content, foreign key of another type
	otherBody *sealedEnv // same key and domain, other payload
	otherDom  *sealedEnv // same key, type and payload, other domain
	otherType *sealedEnv // same key, domain and payload, other payload type
}

func (f *envFamily) set() []*sealedEnv {
	return []*sealedEnv{f.main, f.foreign, f.foreign2, f.otherBody, f.otherDom, f.otherType}
}

func (c *ctx) family(k *testKey, kind string) (*envFamily, error) {
	rng := c.r.Rand(8, 300)
	seq := 1000 + rng.Uint64N(1000)
	victim := c.other(k, true, 1)
	var rec, rec2 record.Record
	switch kind {
	case "peerrec":
		rec, rec2 = c.peerRecordFor(k, seq, 2), c.peerRecordFor(k, seq+1, 3)
	case "voucher":
		rec, rec2 = c.voucherFor(k, victim, 2_000_000_000), c.voucherFor(k, c.other(k, false, 1), 2_000_000_001)
	case "reg":
		rec, rec2 = &regRecord{payload: randBytes(rng, 48)}, &regRecord{payload: randBytes(rng, 48)}
	case "raw":
		rec = &rawRecord{domain: "verif-c08-raw", codec: []byte{0x90, 0x01}, payload: randBytes(rng, 40)}
		rec2 = &rawRecord{domain: "verif-c08-raw", codec: []byte{0x90, 0x01}, payload: randBytes(rng, 41)}
	}
	f := &envFamily{}
	var err error
	do := func(dst **sealedEnv, key *testKey, r record.Record) {
		if err == nil {
			*dst, err = c.seal(key, kind, r)
		}
	}
	payload, _ := rec.MarshalRecord()
	do(&f.main, k, rec)
	do(&f.foreign, c.other(k, true, 0), rec)
	do(&f.foreign2, c.other(k, false, 0), rec)
	do(&f.otherBody, k, rec2)
	do(&f.otherDom, k, &rawRecord{domain: rec.Domain() + "-2", codec: rec.Codec(), payload: payload})
	do(&f.otherType, k, &rawRecord{domain: rec.Domain(), codec: append(append([]byte(nil), rec.Codec()...), 0x01), payload: payload})
	return f, err
}

var envKinds = []string{"peerrec", "voucher", "reg", "raw"}

func (c *ctx) envelopeUnits() []*unit {
	var us []*unit
	for _, k := range c.keys {
		for _, kind := range envKinds {
			k, kind := k, kind
			mk := func(u *unit) *envFamily {
				f, err := c.family(k, kind)
				if err != nil {
					c.r.Inconclusive(u.id, "Seal failed: "+err.Error())
					return nil
				}
				return f
			}
			cost := 50
			if k.typ() == "secp256k1" {
				cost = 80
			}
			nsh := c.shards(k)
			for sh := 0; sh < nsh; sh++ {
				sh := sh
				us = append(us, &unit{c: c, id: fmt.Sprintf("env/bytes/%s/%s/s%dof%d", k.name, kind, sh, nsh), cost: cost, fn: func(u *unit) {
					if f := mk(u); f != nil {
						c.envByteEdits(u, f, sh, nsh)
					}
				}})
			}
			us = append(us, &unit{c: c, id: "env/fields/" + k.name + "/" + kind, cost: 10, fn: func(u *unit) {
				if f := mk(u); f != nil {
					c.envFieldEdits(u, f)
				}
			}})
			us = append(us, &unit{c: c, id: "env/domains/" + k.name + "/" + kind, cost: 2, fn: func(u *unit) {
				if f := mk(u); f != nil {
					c.envDomains(u, f)
				}
			}})
		}
	}
	return us
}

// afterAccept: an accepted peer-record envelope additionally goes into both address books.
func (c *ctx) afterAccept(u *unit, f *envFamily, env *record.Envelope, what string, desc any) {
	if env == nil || f.main.kind != "peerrec" {
		return
	}
	u.count("books_reencoded_envelope_checked", 1)
	c.booksJudge(u, env, nil, what, desc)
}

// every single-byte edit, truncation, insertion and removal of the sealed bytes
func (c *ctx) envByteEdits(u *unit, f *envFamily, sh, nsh int) {
	s := f.main
	// sanity: the unedited envelope is accepted by both consumers with the sealed content
	if _, ok := u.consumeAndJudge(s.bytes, s.domain, s.kind, f.set(), "none", nil); !ok {
		c.r.Inconclusive(u.id, "unedited envelope not accepted")
		return
	}
	byteEdits(s.bytes, c.all, sh, nsh, func(e edit, b []byte) bool {
		env, _ := u.consumeAndJudge(b, s.domain, s.kind, f.set(), e.Kind, e)
		if env != nil {
			u.count("env_byte_edit_accepted_as_reencoding", 1)
			c.afterAccept(u, f, env, e.Kind, e)
		}
		return !u.stop()
	})
	if s.signer.name == "ed25519-0" && s.kind == "peerrec" && sh == 0 {
		c.r.Sample(map[string]any{"kind": "sealed peer record, every byte edited", "signer": s.signer.name, "domain": s.domain, "payload_type": hx(s.ptype),
			"envelope": hx(s.bytes), "edits": u.evals / 2})
	}
}

// protobuf field edits: removed / duplicated / reordered / unknown field added / parts taken from
// foreign envelopes, at the envelope level and inside the embedded PublicKey message.
func (c *ctx) envFieldEdits(u *unit, f *envFamily) {
	s := f.main
	fs, err := pbParse(s.bytes)
	if err != nil || len(fs) != 4 {
		c.r.Inconclusive(u.id, "sealed envelope does not have the 4 expected fields")
		return
	}
	nums := []int{1, 2, 3, 5}
	lastAccepted := false
	try := func(kind string, desc string, fields []pbField) {
		if u.stop() {
			return
		}
		b := pbJoin(fields)
		env, acc := u.consumeAndJudge(b, s.domain, s.kind, f.set(), kind, desc)
		u.count("env_field_edit/"+kind, 1)
		if acc {
			u.count("env_field_edit_accepted/"+kind, 1)
		}
		lastAccepted = acc
		c.afterAccept(u, f, env, kind, desc)
	}
	// removed
	for _, n := range nums {
		try("field-removed", fmt.Sprint("field ", n), pbRemove(pbClone(fs), pbFind(fs, n)))
	}
	// duplicated (identical copy): directly before, at the end
	for _, n := range nums {
		i := pbFind(fs, n)
		try("field-duplicated", fmt.Sprint("field ", n, " copy before"), pbInsert(fs, i, fs[i]))
		try("field-duplicated", fmt.Sprint("field ", n, " copy at end"), append(pbClone(fs), fs[i]))
	}
	// reordered: all 24 orders
	for _, p := range permutations(4) {
		out := make([]pbField, 4)
		for i, j := range p {
			out[i] = fs[j]
		}
		try("field-reordered", fmt.Sprint(p), out)
	}
	// unknown field added at every position
	unknown := []pbField{pbVarint(4, 1), pbBytes(6, s.payload), pbBytes(15, []byte("x")), pbFixed32(7), pbVarint(2047, 300), pbBytes(4, nil)}
	for pos := 0; pos <= len(fs); pos++ {
		for ui, uf := range unknown {
			try("unknown-field-added", fmt.Sprint("unknown #", ui, " at ", pos), pbInsert(fs, pos, uf))
		}
	}
	// wrong wire type / empty value
	for _, n := range nums {
		i := pbFind(fs, n)
		g := pbClone(fs)
		g[i] = pbVarint(n, 1)
		try("field-wiretype-changed", fmt.Sprint("field ", n, " as varint"), g)
		g = pbClone(fs)
		g[i] = pbBytes(n, nil)
		try("field-emptied", fmt.Sprint("field ", n), g)
	}
	// parts from foreign envelopes: every non-empty proper subset of fields replaced, and a foreign
	// value duplicated before / after the original one (protobuf: last one wins, messages merge)
	for name, o := range map[string]*sealedEnv{"foreign-key": f.foreign, "foreign-key-type": f.foreign2, "other-payload": f.otherBody, "other-domain": f.otherDom, "other-type": f.otherType} {
		ofs, err := pbParse(o.bytes)
		if err != nil || len(ofs) != 4 {
			continue
		}
		for mask := 1; mask < 15; mask++ {
			g := pbClone(fs)
			for bi, n := range nums {
				if mask&(1<<bi) != 0 {
					g[pbFind(fs, n)] = ofs[pbFind(ofs, n)]
				}
			}
			try("fields-from-"+name, fmt.Sprintf("mask %04b", mask), g)
			if !lastAccepted {
				u.count("env_foreign_splice_rejected", 1)
			}
		}
		for _, n := range nums {
			i, oi := pbFind(fs, n), pbFind(ofs, n)
			try("foreign-duplicate-before/"+name, fmt.Sprint("field ", n), pbInsert(fs, i, ofs[oi]))
			try("foreign-duplicate-after/"+name, fmt.Sprint("field ", n), append(pbClone(fs), ofs[oi]))
		}
	}
	// inside the embedded PublicKey message
	pki := pbFind(fs, 1)
	pk, err := pbParse(fs[pki].val)
	if err == nil && len(pk) == 2 {
		withPK := func(inner []pbField) []pbField {
			g := pbClone(fs)
			g[pki] = pbBytes(1, pbJoin(inner))
			return g
		}
		try("pubkey-fields-reordered", "", withPK([]pbField{pk[1], pk[0]}))
		try("pubkey-field-duplicated", "type", withPK([]pbField{pk[0], pk[0], pk[1]}))
		try("pubkey-field-duplicated", "data", withPK([]pbField{pk[0], pk[1], pk[1]}))
		try("pubkey-unknown-field-added", "", withPK([]pbField{pk[0], pbBytes(3, []byte("zz")), pk[1]}))
		try("pubkey-field-removed", "type", withPK([]pbField{pk[1]}))
		try("pubkey-field-removed", "data", withPK([]pbField{pk[0]}))
		for _, t := range []uint64{0, 1, 2, 3, 4, 128, 1 << 32} {
			try("pubkey-type-changed", fmt.Sprint(t), withPK([]pbField{pbVarint(1, t), pk[1]}))
			try("pubkey-type-duplicated", fmt.Sprint(t, " after"), withPK([]pbField{pk[0], pbVarint(1, t), pk[1]}))
			try("pubkey-type-duplicated", fmt.Sprint(t, " before"), withPK([]pbField{pbVarint(1, t), pk[0], pk[1]}))
		}
		for name, o := range map[string]*testKey{"same-type": f.foreign.signer, "other-type": f.foreign2.signer} {
			oraw, _ := o.pub.Raw()
			try("pubkey-data-foreign/"+name, "", withPK([]pbField{pk[0], pbBytes(2, oraw)}))
			try("pubkey-data-foreign/"+name, "dup after", withPK([]pbField{pk[0], pk[1], pbBytes(2, oraw)}))
		}
	}
	// re-encodings of the PAYLOAD (same meaning, other bytes) must not pass: the signature covers bytes
	if pfs, err := pbParse(s.payload); err == nil && len(pfs) >= 2 && (s.kind == "peerrec" || s.kind == "voucher") {
		withPayload := func(inner []pbField) []pbField {
			g := pbClone(fs)
			g[pbFind(fs, 3)] = pbBytes(3, pbJoin(inner))
			return g
		}
		rev := pbClone(pfs)
		for i, j := 0, len(rev)-1; i < j; i, j = i+1, j-1 {
			rev[i], rev[j] = rev[j], rev[i]
		}
		try("payload-reencoded", "fields reversed", withPayload(rev))
		try("payload-reencoded", "unknown field", withPayload(append(pbClone(pfs), pbVarint(15, 1))))
		try("payload-reencoded", "first field duplicated", withPayload(append(pbClone(pfs), pfs[0])))
		try("payload-reencoded", "last field dropped", withPayload(pfs[:len(pfs)-1]))
	}
}

// pairing with foreign domains: the sealed bytes and the foreign-key twin under every other domain
func (c *ctx) envDomains(u *unit, f *envFamily) {
	s := f.main
	d := s.domain
	domains := []string{d + "x", d[:len(d)-1], "x" + d, d + "\x00", "", d + d, peer.PeerRecordEnvelopeDomain, vproto.RecordDomain, regDomain, "verif-c08-raw",
		f.otherDom.domain, string(append([]byte(d), s.ptype...)), d[:1]}
	for _, e := range []*sealedEnv{f.main, f.foreign, f.otherDom, f.otherType} {
		for _, ask := range domains {
			for _, kind := range []string{s.kind, "raw"} {
				_, acc := u.consumeAndJudge(e.bytes, ask, kind, f.set(), "foreign-domain", map[string]any{"sealed_domain": e.domain, "asked": ask})
				if ask != e.domain && !acc {
					u.count("env_cross_domain_rejected", 1)
				}
			}
			if u.stop() {
				return
			}
		}
	}
}
