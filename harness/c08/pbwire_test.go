package c08

// Minimal protobuf wire-format reader/writer, written here so that structured edits of envelopes,
// keys and records (field removed / duplicated / reordered / unknown field added) do not go through
// the generated code that is under observation.

import (
	"encoding/binary"
	"errors"
)

const (
	wtVarint = 0
	wtI64    = 1
	wtBytes  = 2
	wtI32    = 5
)

// pbField is one top-level field occurrence: raw is the complete encoding (tag + value).
type pbField struct {
	num int
	wt  int
	val []byte // payload for wtBytes, the varint bytes for wtVarint
	raw []byte
}

func pbParse(b []byte) ([]pbField, error) {
	var out []pbField
	for len(b) > 0 {
		tag, n := binary.Uvarint(b)
		if n <= 0 {
			return nil, errors.New("bad tag")
		}
		f := pbField{num: int(tag >> 3), wt: int(tag & 7)}
		rest := b[n:]
		var vlen int
		switch f.wt {
		case wtVarint:
			_, m := binary.Uvarint(rest)
			if m <= 0 {
				return nil, errors.New("bad varint")
			}
			vlen = m
			f.val = rest[:m]
		case wtBytes:
			l, m := binary.Uvarint(rest)
			if m <= 0 || uint64(len(rest)-m) < l {
				return nil, errors.New("bad length")
			}
			vlen = m + int(l)
			f.val = rest[m:vlen]
		case wtI64:
			vlen = 8
		case wtI32:
			vlen = 4
		default:
			return nil, errors.New("unsupported wire type")
		}
		if len(rest) < vlen {
			return nil, errors.New("short")
		}
		f.raw = b[:n+vlen]
		out = append(out, f)
		b = b[n+vlen:]
	}
	return out, nil
}

func pbTag(num, wt int) []byte { return binary.AppendUvarint(nil, uint64(num)<<3|uint64(wt)) }

func pbBytes(num int, v []byte) pbField {
	raw := pbTag(num, wtBytes)
	raw = binary.AppendUvarint(raw, uint64(len(v)))
	raw = append(raw, v...)
	return pbField{num: num, wt: wtBytes, val: v, raw: raw}
}

func pbVarint(num int, v uint64) pbField {
	raw := pbTag(num, wtVarint)
	vb := binary.AppendUvarint(nil, v)
	raw = append(raw, vb...)
	return pbField{num: num, wt: wtVarint, val: vb, raw: raw}
}

func pbFixed32(num int) pbField {
	raw := append(pbTag(num, wtI32), 1, 2, 3, 4)
	return pbField{num: num, wt: wtI32, raw: raw}
}

func pbJoin(fs []pbField) []byte {
	var out []byte
	for _, f := range fs {
		out = append(out, f.raw...)
	}
	return out
}

func pbFind(fs []pbField, num int) int {
	for i, f := range fs {
		if f.num == num {
			return i
		}
	}
	return -1
}

func pbClone(fs []pbField) []pbField { return append([]pbField(nil), fs...) }

func pbInsert(fs []pbField, at int, f pbField) []pbField {
	out := make([]pbField, 0, len(fs)+1)
	out = append(out, fs[:at]...)
	out = append(out, f)
	return append(out, fs[at:]...)
}

func pbRemove(fs []pbField, at int) []pbField {
	out := make([]pbField, 0, len(fs))
	out = append(out, fs[:at]...)
	return append(out, fs[at+1:]...)
}

// permutations of 0..n-1 (n small).
func permutations(n int) [][]int {
	var out [][]int
	var rec func(cur []int, used uint)
	rec = func(cur []int, used uint) {
		if len(cur) == n {
			out = append(out, append([]int(nil), cur...))
			return
		}
		for i := 0; i < n; i++ {
			if used&(1<<i) == 0 {
				rec(append(cur, i), used|1<<i)
			}
		}
	}
	rec(nil, 0)
	return out
}
