package c08

// Deterministic key material: every key is a function of (VERIF_SEED, kind, index).
// Ed25519 accepts a deterministic reader. crypto/ecdsa and crypto/rsa deliberately defeat
// deterministic readers (randutil.MaybeReadByte) and GenerateSecp256k1Key ignores its reader, so for
// those three the private scalar / the primes are derived here from the seeded PRNG and wrapped with
// crypto.KeyPairFromStdKey.

import (
	"crypto/ecdsa"
	"crypto/elliptic"
	"crypto/rsa"
	"fmt"
	"math/big"
	"math/rand/v2"

	"github.com/decred/dcrd/dcrec/secp256k1/v4"
	ic "github.com/libp2p/go-libp2p/core/crypto"
)

type randReader struct{ r *rand.Rand }

func (rr randReader) Read(p []byte) (int, error) {
	for i := range p {
		p[i] = byte(rr.r.Uint32())
	}
	return len(p), nil
}

func randBytes(r *rand.Rand, n int) []byte {
	b := make([]byte, n)
	for i := 0; i+8 <= n; i += 8 {
		v := r.Uint64()
		b[i], b[i+1], b[i+2], b[i+3], b[i+4], b[i+5], b[i+6], b[i+7] =
			byte(v), byte(v>>8), byte(v>>16), byte(v>>24), byte(v>>32), byte(v>>40), byte(v>>48), byte(v>>56)
	}
	for i := n &^ 7; i < n; i++ {
		b[i] = byte(r.Uint32())
	}
	return b
}

// testKey is one freshly derived key pair with its ground truth.
type testKey struct {
	name string // e.g. "ed25519-0", "rsa3072-0"
	kind string // ed25519 | ecdsa | secp256k1 | rsa2048 | rsa3072
	priv ic.PrivKey
	pub  ic.PubKey
	// cached real serialisations (taken once, from the real code)
	pubBytes  []byte // MarshalPublicKey
	privBytes []byte // MarshalPrivateKey
}

func (k *testKey) typ() string {
	if len(k.kind) >= 3 && k.kind[:3] == "rsa" {
		return "rsa"
	}
	return k.kind
}

func genPrime(r *rand.Rand, bits int, e *big.Int) *big.Int {
	one := big.NewInt(1)
	for {
		b := randBytes(r, bits/8)
		b[0] |= 0xC0 // top two bits set so that p*q has exactly 2*bits bits
		b[len(b)-1] |= 1
		p := new(big.Int).SetBytes(b)
		if !p.ProbablyPrime(0) {
			continue
		}
		if !p.ProbablyPrime(12) {
			continue
		}
		pm1 := new(big.Int).Sub(p, one)
		if new(big.Int).GCD(nil, nil, pm1, e).Cmp(one) != 0 {
			continue
		}
		return p
	}
}

func genRSA(r *rand.Rand, bits int) (*rsa.PrivateKey, error) {
	e := big.NewInt(65537)
	one := big.NewInt(1)
	for {
		p, q := genPrime(r, bits/2, e), genPrime(r, bits/2, e)
		if p.Cmp(q) == 0 {
			continue
		}
		n := new(big.Int).Mul(p, q)
		if n.BitLen() != bits {
			continue
		}
		phi := new(big.Int).Mul(new(big.Int).Sub(p, one), new(big.Int).Sub(q, one))
		d := new(big.Int).ModInverse(e, phi)
		if d == nil {
			continue
		}
		k := &rsa.PrivateKey{PublicKey: rsa.PublicKey{N: n, E: 65537}, D: d, Primes: []*big.Int{p, q}}
		k.Precompute()
		if err := k.Validate(); err != nil {
			return nil, err
		}
		return k, nil
	}
}

func genKey(r *rand.Rand, kind string, idx int) (*testKey, error) {
	k := &testKey{name: fmt.Sprintf("%s-%d", kind, idx), kind: kind}
	var err error
	switch kind {
	case "ed25519":
		k.priv, k.pub, err = ic.GenerateEd25519Key(randReader{r})
	case "ecdsa":
		curve := elliptic.P256()
		nm1 := new(big.Int).Sub(curve.Params().N, big.NewInt(1))
		d := new(big.Int).SetBytes(randBytes(r, 40))
		d.Mod(d, nm1).Add(d, big.NewInt(1))
		x, y := curve.ScalarBaseMult(d.FillBytes(make([]byte, 32)))
		k.priv, k.pub, err = ic.ECDSAKeyPairFromKey(&ecdsa.PrivateKey{PublicKey: ecdsa.PublicKey{Curve: curve, X: x, Y: y}, D: d})
	case "secp256k1":
		var sk *secp256k1.PrivateKey
		for {
			b := randBytes(r, 32)
			var s secp256k1.ModNScalar
			if overflow := s.SetByteSlice(b); overflow || s.IsZero() {
				continue
			}
			sk = secp256k1.NewPrivateKey(&s)
			break
		}
		k.priv, k.pub, err = ic.KeyPairFromStdKey(sk)
	case "rsa2048", "rsa3072":
		bits := 2048
		if kind == "rsa3072" {
			bits = 3072
		}
		var sk *rsa.PrivateKey
		if sk, err = genRSA(r, bits); err == nil {
			k.priv, k.pub, err = ic.KeyPairFromStdKey(sk)
		}
	default:
		err = fmt.Errorf("unknown kind %s", kind)
	}
	if err != nil {
		return nil, err
	}
	if k.pubBytes, err = ic.MarshalPublicKey(k.pub); err != nil {
		return nil, err
	}
	if k.privBytes, err = ic.MarshalPrivateKey(k.priv); err != nil {
		return nil, err
	}
	return k, nil
}
