package c08

import (
	"bytes"
	"encoding/hex"
	"encoding/json"
	"errors"
	"fmt"

	ic "github.com/libp2p/go-libp2p/core/crypto"
	"github.com/libp2p/go-libp2p/core/peer"
	ma "github.com/multiformats/go-multiaddr"
)

// "a peer ID is a deterministic function of the public key whose binary, base58 and CID text forms
// round-trip (with the key recoverable from IDs that embed it)"
func (c *ctx) idUnits() []*unit {
	var us []*unit
	for _, k := range c.keys {
		k := k
		us = append(us, &unit{c: c, id: "id/" + k.name, cost: 25, fn: func(u *unit) { c.idUnit(u, k) }})
	}
	return us
}

func (c *ctx) idUnit(u *unit, k *testKey) {
	want := refID(k.pubBytes)
	fail := func(what string, extra map[string]any) {
		d := map[string]any{"key": k.name, "pub": hx(k.pubBytes), "reference_id": hx(want)}
		for a, b := range extra {
			d[a] = b
		}
		u.violate("id:"+what+"/"+k.typ(), "peer ID of "+k.name+": "+what, d)
	}
	u.evals++
	u.nontr++
	id, err := peer.IDFromPublicKey(k.pub)
	if err != nil {
		fail("derivation-error", map[string]any{"err": err.Error()})
		return
	}
	// deterministic function of the key, as the statement/spec defines it
	if !bytes.Equal([]byte(id), want) {
		fail("not-the-specified-function-of-the-key", map[string]any{"got": hx([]byte(id))})
	}
	id2, _ := peer.IDFromPublicKey(k.pub)
	id3, _ := peer.IDFromPrivateKey(k.priv)
	var id4 peer.ID
	if p2, err := ic.UnmarshalPublicKey(append([]byte(nil), k.pubBytes...)); err == nil {
		id4, _ = peer.IDFromPublicKey(p2)
	}
	if id2 != id || id3 != id || id4 != id {
		fail("not-deterministic", map[string]any{"again": hx([]byte(id2)), "from_private": hx([]byte(id3)), "from_unmarshalled": hx([]byte(id4))})
	}
	if !id.MatchesPublicKey(k.pub) || !id.MatchesPrivateKey(k.priv) || id.Validate() != nil {
		fail("does-not-match-own-key", nil)
	}
	for _, o := range c.keys {
		if o == k {
			continue
		}
		u.evals++
		oid, _ := peer.IDFromPublicKey(o.pub)
		if oid == id || id.MatchesPublicKey(o.pub) || id.MatchesPrivateKey(o.priv) {
			fail("matches-foreign-key", map[string]any{"other": o.name, "other_pub": hx(o.pubBytes)})
		}
	}
	// key recoverable from IDs that embed it
	embedded := want[0] == 0x00
	if pk, err := id.ExtractPublicKey(); embedded {
		if err != nil || !pk.Equals(k.pub) || !k.pub.Equals(pk) {
			fail("embedded-key-not-recovered", map[string]any{"err": fmt.Sprint(err)})
		} else {
			u.count("id_identity_extract_ok", 1)
		}
	} else {
		// a hashed ID embeds no key: whatever "key" comes out of it cannot be the key of this ID.
		// (which error is returned is API detail, not part of the statement: counted only)
		if err == nil || pk != nil {
			fail("key-extracted-from-hashed-id", map[string]any{"err": fmt.Sprint(err)})
		} else {
			u.count("id_sha256_no_embedded_key", 1)
			if errors.Is(err, peer.ErrNoPublicKey) {
				u.count("id_sha256_extract_says_ErrNoPublicKey", 1)
			}
		}
	}

	// ---- round trips of every form ----
	rt := func(form string, got peer.ID, err error) {
		u.evals++
		if err != nil || got != id {
			fail("roundtrip-"+form, map[string]any{"got": hx([]byte(got)), "err": fmt.Sprint(err)})
		} else {
			u.count("id_roundtrip_ok", 1)
		}
	}
	bin, _ := id.Marshal()
	bin2, _ := id.MarshalBinary()
	if !bytes.Equal(bin, want) || !bytes.Equal(bin2, want) || id.Size() != len(want) {
		fail("binary-form-differs", nil)
	}
	buf := make([]byte, id.Size())
	if n, _ := id.MarshalTo(buf); n != len(want) || !bytes.Equal(buf, want) {
		fail("marshalto-differs", nil)
	}
	var x peer.ID
	err = x.Unmarshal(bin)
	rt("binary-unmarshal", x, err)
	x = ""
	err = x.UnmarshalBinary(bin)
	rt("binary-unmarshalbinary", x, err)
	x, err = peer.IDFromBytes(bin)
	rt("binary-idfrombytes", x, err)

	b58 := id.String()
	if b58 != refB58Encode(want) {
		fail("base58-form-differs-from-reference", map[string]any{"got": b58, "reference": refB58Encode(want)})
	}
	x, err = peer.Decode(b58)
	rt("base58-decode", x, err)
	txt, _ := id.MarshalText()
	x = ""
	err = x.UnmarshalText(txt)
	rt("text", x, err)
	js, _ := json.Marshal(id)
	x = ""
	err = json.Unmarshal(js, &x)
	rt("json", x, err)

	cd := peer.ToCid(id)
	cidText := cd.String()
	if cidText != refCIDText(want) {
		fail("cid-form-differs-from-reference", map[string]any{"got": cidText, "reference": refCIDText(want)})
	}
	x, err = peer.FromCid(cd)
	rt("cid-object", x, err)
	x, err = peer.Decode(cidText)
	rt("cid-base32", x, err)
	cidBytes := append([]byte{0x01, 0x72}, want...)
	x, err = peer.Decode("z" + refB58Encode(cidBytes))
	rt("cid-base58btc", x, err)
	x, err = peer.Decode("f" + hex.EncodeToString(cidBytes))
	rt("cid-base16", x, err)
	// all forms agree with the reference decoder as well
	for _, s := range []string{b58, cidText} {
		if rb, v := refDecodeText(s); v != refOK || !bytes.Equal(rb, want) {
			fail("reference-decoder-disagrees-on-canonical-form", map[string]any{"text": s})
		}
	}
	// AddrInfo forms
	tpt := ma.StringCast("/ip4/1.2.3.4/tcp/4001")
	if p2p, err := peer.AddrInfoToP2pAddrs(&peer.AddrInfo{ID: id, Addrs: []ma.Multiaddr{tpt}}); err != nil || len(p2p) != 1 {
		fail("addrinfo-to-p2p", nil)
	} else {
		ai, err := peer.AddrInfoFromP2pAddr(p2p[0])
		if err == nil {
			rt("addrinfo-p2paddr", ai.ID, nil)
			if len(ai.Addrs) != 1 || !ai.Addrs[0].Equal(tpt) {
				fail("addrinfo-transport-differs", nil)
			}
		} else {
			rt("addrinfo-p2paddr", "", err)
		}
		t2, sid := peer.SplitAddr(p2p[0])
		rt("splitaddr", sid, nil)
		if t2 == nil || !t2.Equal(tpt) {
			fail("splitaddr-transport-differs", nil)
		}
		fid, err := peer.IDFromP2PAddr(p2p[0])
		rt("idfromp2paddr", fid, err)
	}
	for _, s := range []string{b58, cidText} {
		ai, err := peer.AddrInfoFromString("/ip4/1.2.3.4/tcp/4001/p2p/" + s)
		if err != nil {
			rt("addrinfo-string", "", err)
		} else {
			rt("addrinfo-string", ai.ID, nil)
		}
	}

	// ---- every edit of every form ----
	var samples []struct{ m, sig []byte }
	for _, m := range [][]byte{[]byte("c08 id sample"), {}} {
		if sig, err := k.priv.Sign(m); err == nil {
			samples = append(samples, struct{ m, sig []byte }{m, sig})
		}
	}
	// semantic rule for an accepted ID that differs from the original: it must not match the
	// original key, and a key extracted from it must not stand in for the original key.
	judgeOther := func(form string, e edit, mutated string, got peer.ID) {
		det := func() map[string]any {
			return map[string]any{"key": k.name, "pub": hx(k.pubBytes), "id": hx(want), "form": form, "edit": e, "mutated": mutated, "decoded": hx([]byte(got))}
		}
		if got.MatchesPublicKey(k.pub) {
			u.violate("id-edit:different-id-matches-key/"+form+"/"+k.typ(), "an ID different from the key's ID MatchesPublicKey", det())
		}
		if pk, err := got.ExtractPublicKey(); err == nil && !keysEqual(pk, k.pub) {
			for _, s := range samples {
				if verifyOK(pk, s.m, s.sig) {
					u.violate("id-edit:extracted-unequal-key-verifies/"+form+"/"+k.typ(), "key extracted from an edited ID is not Equal to the original but verifies its signature", det())
				}
			}
			u.count("id_edit_extracted_other_key", 1)
		}
	}
	byteEdits(want, true, 0, 1, func(e edit, b []byte) bool {
		u.evals++
		got, err := peer.IDFromBytes(b)
		var got2 peer.ID
		err2 := got2.UnmarshalBinary(b)
		if (err == nil) != (err2 == nil) || got != got2 {
			u.violate("id-edit:binary-decoders-disagree/"+k.typ(), "IDFromBytes and UnmarshalBinary disagree", map[string]any{"bytes": hx(b), "edit": e})
		}
		if err != nil {
			u.count("id_binary_edit_rejected", 1)
			return true
		}
		u.nontr++
		u.count("id_binary_edit_accepted_other_id", 1)
		if !bytes.Equal([]byte(got), b) {
			u.violate("id-edit:binary-decodes-to-other-bytes/"+k.typ(), "binary ID decodes to bytes other than those given", map[string]any{"bytes": hx(b), "got": hx([]byte(got)), "edit": e})
		}
		if !multihashOK(b) {
			u.count("id_binary_accepted_not_structural_multihash", 1)
		}
		judgeOther("binary", e, hx(b), got)
		return !u.stop()
	})
	for _, tf := range []struct{ form, text string }{{"base58", b58}, {"cid-base32", cidText}} {
		textEdits(tf.text, func(e edit, s string) bool {
			u.evals++
			got, err := peer.Decode(s)
			refBytes, verdict := refDecodeText(s)
			if err != nil {
				u.count("id_text_edit_rejected", 1)
				if verdict == refOK {
					u.count("id_text_rejected_but_reference_accepts(stricter,allowed)", 1)
				}
				return true
			}
			u.nontr++
			det := func() map[string]any {
				return map[string]any{"key": k.name, "pub": hx(k.pubBytes), "id": hx(want), "form": tf.form, "original_text": tf.text, "edited_text": s, "edit": e,
					"decoded": hx([]byte(got)), "reference_verdict": verdict.String(), "reference_decoded": hx(refBytes)}
			}
			same := bytes.Equal([]byte(got), want)
			if same {
				u.count("id_text_edit_accepted_same_id(alternative spelling)", 1)
			} else {
				u.count("id_text_edit_accepted_other_id", 1)
			}
			switch verdict {
			case refOK:
				// the text must be an encoding of the ID returned: two forms must not decode to different IDs
				if !bytes.Equal(refBytes, []byte(got)) {
					u.violate("id-edit:text-decodes-to-id-it-does-not-encode/"+tf.form, fmt.Sprintf("Decode(%q) returned an ID that the text does not encode", s), det())
				}
			case refReject:
				// The real decoders are more lenient than the reference (go-base32 silently drops an
				// incomplete trailing group, so an inserted character can yield a shorter, self-consistent
				// multihash). The statement only requires the forms of an ID to round-trip and to agree;
				// it does not forbid accepting a non-canonical spelling, so this is counted, not raised.
				if !same {
					u.count("id_text_noncanonical_accepted_as_other_id(lenient decoder)", 1)
				} else {
					u.count("id_text_noncanonical_accepted_as_same_id(lenient decoder)", 1)
				}
			case refUnknownBase:
				u.count("id_text_accepted_in_unmodelled_multibase", 1)
			case refForeignCodec:
				u.count("id_text_accepted_foreign_codec_cid", 1)
			}
			if !same {
				judgeOther(tf.form, e, s, got)
			}
			return !u.stop()
		})
	}
	if k.name == "ed25519-0" || k.name == "rsa2048-0" {
		c.r.Sample(map[string]any{"kind": "peer ID forms", "key": k.name, "binary": hx(want), "base58": b58, "cidv1": cidText, "embedded_key": embedded})
	}
}
