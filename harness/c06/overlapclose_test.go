package c06

import (
	"fmt"
	"sync"
	"sync/atomic"
	"time"

	"github.com/libp2p/go-libp2p/core/network"
	"github.com/libp2p/go-libp2p/core/peer"
	ma "github.com/multiformats/go-multiaddr"

	"verif/harness/rig/run"
	"verif/harness/rig/scripttpt"
	"verif/harness/rig/swarmrig"
)

// overlappingClose: "Close returns only after these have been delivered" - for EVERY caller of Close, also
// one whose call overlaps another's. Real time (a goroutine waiting for another's Close sits on a mutex,
// which wedges a synctest bubble): a notifiee's Disconnected takes 150 ms; Close is called from two
// goroutines 0 / 1 / 20 ms apart; no Close may return while a Disconnected is still running or yet to come.
func overlappingClose(r *run.R) {
	for k, gap := range []time.Duration{0, time.Millisecond, 20 * time.Millisecond, 60 * time.Millisecond} {
		caseID := fmt.Sprintf("overlapping-close/gap=%s", gap)
		if !r.Want(caseID) {
			continue
		}
		r.Eval(1)
		pool := swarmrig.Pool(64)
		rig, err := swarmrig.New(50+k, func(string, ma.Multiaddr, peer.ID, int) scripttpt.Outcome { return scripttpt.Outcome{Kind: "fail"} })
		if err != nil {
			r.Inconclusive(caseID, err.Error())
			continue
		}
		sw := rig.Swarm
		var running, delivered, connected atomic.Int64
		sw.Notify(&network.NotifyBundle{
			ConnectedF: func(network.Network, network.Conn) { connected.Add(1) },
			DisconnectedF: func(network.Network, network.Conn) {
				running.Add(1)
				time.Sleep(150 * time.Millisecond)
				delivered.Add(1)
				running.Add(-1)
			},
		})
		if err := sw.Listen(ma.StringCast("/ip4/7.7.7.7/tcp/4001")); err != nil || len(rig.TCP.Listeners()) == 0 {
			r.Inconclusive(caseID, "no listener")
			sw.Close()
			rig.PS.Close()
			continue
		}
		for i := 0; i < 3; i++ {
			rig.TCP.Listeners()[0].Inject(pool.ID[i], ma.StringCast(fmt.Sprintf("/ip4/1.2.3.%d/tcp/6001", 4+i)))
		}
		for i := 0; i < 200 && connected.Load() < 3; i++ {
			time.Sleep(5 * time.Millisecond)
		}
		want := connected.Load()
		type ret struct {
			who                int
			delivered, running int64
		}
		var mu sync.Mutex
		var rets []ret
		var wg sync.WaitGroup
		for who, d := range []time.Duration{0, gap} {
			wg.Add(1)
			go func() {
				defer wg.Done()
				time.Sleep(d)
				sw.Close()
				mu.Lock()
				rets = append(rets, ret{who, delivered.Load(), running.Load()})
				mu.Unlock()
			}()
		}
		done := make(chan struct{})
		go func() { wg.Wait(); close(done) }()
		select {
		case <-done:
		case <-time.After(60 * time.Second):
			r.Inconclusive(caseID, "the two Close calls did not return within 60 s (real time)")
			continue
		}
		rig.PS.Close()
		r.Count("overlapping_close_cases", 1)
		if want > 0 {
			r.Nontrivial(caseID)
		}
		for _, x := range rets {
			if x.delivered < want || x.running > 0 {
				r.Violation("close-returned-before-disconnected-was-delivered/overlapping-close", caseID,
					fmt.Sprintf("Close call %d returned when %d of %d Disconnected notifications had been delivered (%d still running); the other Close call started %s apart", x.who, x.delivered, want, x.running, gap),
					map[string]any{"gap": gap.String(), "connections": want, "returns": fmt.Sprint(rets)})
				break
			}
		}
	}
	r.Require("overlapping_close_cases", 3)
}
