// C06 — Connected/Disconnected notifications are exactly-once, ordered and truthful.
//
// The REAL swarm runs on scripted transports inside synctest bubbles. Recording notifiees, a recording
// stream handler and an EvtPeerConnectednessChanged subscriber stamp every callback (start and end) from
// one logical clock; the checker scans the log per (notifiee, conn) and per peer. Schedules: conns
// (direct and limited) opened by dial and by a fake listener, closed locally, remotely, by ClosePeer, from
// inside Connected, from inside an event subscriber, and Swarm.Close at a random point; notifiees that
// block for a virtual duration; the addConn / doClose hook points widen the window in which a removal
// overtakes the in-flight Connected.
package c06

import (
	"context"
	"fmt"
	"os"
	"sort"
	"sync"
	"sync/atomic"
	"testing"
	"testing/synctest"
	"time"

	"github.com/libp2p/go-libp2p/core/event"
	"github.com/libp2p/go-libp2p/core/network"
	"github.com/libp2p/go-libp2p/core/peer"
	"github.com/libp2p/go-libp2p/core/peerstore"
	"github.com/libp2p/go-libp2p/p2p/host/eventbus"
	"github.com/libp2p/go-libp2p/p2p/net/swarm"
	"github.com/libp2p/go-libp2p/x/verifhook"
	ma "github.com/multiformats/go-multiaddr"

	"verif/harness/rig/run"
	"verif/harness/rig/scripttpt"
	"verif/harness/rig/swarmrig"
)

type ev struct {
	T     int64  `json:"t"` // logical clock
	VT    int64  `json:"virtual_ms"`
	Kind  string `json:"kind"` // conn.start conn.end disc.start disc.end stream bus close.return dial.ok ...
	Who   int    `json:"who"`  // notifiee index
	Conn  string `json:"conn,omitempty"`
	Peer  int    `json:"peer"`
	State string `json:"state,omitempty"`
}

type recorder struct {
	mu    sync.Mutex
	clock int64
	t0    time.Time
	evs   []ev
}

func (r *recorder) add(e ev) {
	r.mu.Lock()
	r.clock++
	e.T = r.clock
	e.VT = time.Since(r.t0).Milliseconds()
	r.evs = append(r.evs, e)
	r.mu.Unlock()
}

// scenario description (generated from the seed)
type action struct {
	At   int    `json:"at_ms"`
	Kind string `json:"kind"` // dial | inbound | close | remoteclose | closepeer | swarmclose
	Peer int    `json:"peer"`
	Rel  bool   `json:"relay"`  // dial/inbound through the relay (limited) transport
	Pick int    `json:"pick"`   // which open conn of the peer (close/remoteclose)
	Strm bool   `json:"stream"` // inbound/dialled conn delivers an inbound stream immediately
}

type scenario struct {
	ID         string   `json:"id"`
	Notifiees  int      `json:"notifiees"`
	DelayConn  []int    `json:"connected_delay_ms"`           // per notifiee
	DelayDisc  []int    `json:"disconnected_delay_ms"`        // per notifiee
	CloseIn    int      `json:"closes_conn_inside_connected"` // notifiee index or -1
	CloseInPct int      `json:"close_inside_pct"`
	BusCloses  bool     `json:"bus_subscriber_closes_on_connected"`
	HookDelay  int      `json:"addconn_hook_delay_ms"`
	HookPct    int      `json:"addconn_hook_pct"`
	HookClose  bool     `json:"addconn_hook_closes_conn"`
	RmDelay    int      `json:"doclose_hook_delay_ms"`
	// RegisterTwice: notifiee 0 is handed to Notify twice (the registry is a set: it still is ONE notifiee
	// and gets every notification exactly once); ReRegister: notifiee 1 is removed with StopNotify and
	// registered again before anything happens
	RegisterTwice bool `json:"notifiee0_registered_twice,omitempty"`
	ReRegister    bool `json:"notifiee1_stopnotify_then_notify_again,omitempty"`
	Actions    []action `json:"actions"`
}

// per-case hook registry: hook handlers are process-global, dispatch on the swarm's local peer id
var hookCases sync.Map // peer.ID -> *caseState

type caseState struct {
	sc   *scenario
	rng  func(n int) int
	hits atomic.Int64
}

func init() {
	verifhook.Set("swarm.addConn.beforeAddConn", func(_ string, arg any) {
		c, ok := arg.(*swarm.Conn)
		if !ok {
			return
		}
		v, ok := hookCases.Load(c.LocalPeer())
		if !ok {
			return
		}
		cs := v.(*caseState)
		if cs.sc.HookPct == 0 || cs.rng(100) >= cs.sc.HookPct {
			return
		}
		cs.hits.Add(1)
		if cs.sc.HookClose {
			go c.Close()
		}
		if cs.sc.HookDelay > 0 {
			time.Sleep(time.Duration(cs.sc.HookDelay) * time.Millisecond)
		}
	})
	verifhook.Set("swarm.doClose.beforeRemoveConn", func(_ string, arg any) {
		c, ok := arg.(*swarm.Conn)
		if !ok {
			return
		}
		v, ok := hookCases.Load(c.LocalPeer())
		if !ok {
			return
		}
		if d := v.(*caseState).sc.RmDelay; d > 0 {
			time.Sleep(time.Duration(d) * time.Millisecond)
		}
	})
}

type notifiee struct {
	idx   int
	rec   *recorder
	sc    *scenario
	peers map[peer.ID]int
	rng   func(int) int
}

func (n *notifiee) Listen(network.Network, ma.Multiaddr)      {}
func (n *notifiee) ListenClose(network.Network, ma.Multiaddr) {}
func (n *notifiee) Connected(_ network.Network, c network.Conn) {
	n.rec.add(ev{Kind: "conn.start", Who: n.idx, Conn: c.ID(), Peer: n.peers[c.RemotePeer()]})
	if d := n.sc.DelayConn[n.idx]; d > 0 {
		time.Sleep(time.Duration(d) * time.Millisecond)
	}
	if n.sc.CloseIn == n.idx && n.rng(100) < n.sc.CloseInPct {
		c.Close()
	}
	n.rec.add(ev{Kind: "conn.end", Who: n.idx, Conn: c.ID(), Peer: n.peers[c.RemotePeer()]})
}
func (n *notifiee) Disconnected(_ network.Network, c network.Conn) {
	n.rec.add(ev{Kind: "disc.start", Who: n.idx, Conn: c.ID(), Peer: n.peers[c.RemotePeer()]})
	if d := n.sc.DelayDisc[n.idx]; d > 0 {
		time.Sleep(time.Duration(d) * time.Millisecond)
	}
	n.rec.add(ev{Kind: "disc.end", Who: n.idx, Conn: c.ID(), Peer: n.peers[c.RemotePeer()]})
}

func gen(r *run.R, i int) *scenario {
	rng := r.Rand(6, uint64(i))
	sc := &scenario{ID: fmt.Sprintf("sched/%d", i), Notifiees: 2 + rng.IntN(2), CloseIn: -1}
	sc.RegisterTwice, sc.ReRegister = i%6 == 1, i%6 == 4
	delays := []int{0, 0, 1, 5, 50}
	for k := 0; k < sc.Notifiees; k++ {
		sc.DelayConn = append(sc.DelayConn, delays[rng.IntN(len(delays))])
		sc.DelayDisc = append(sc.DelayDisc, delays[rng.IntN(len(delays))])
	}
	if rng.IntN(3) == 0 {
		sc.CloseIn = rng.IntN(sc.Notifiees)
		sc.CloseInPct = 30 + rng.IntN(71)
	}
	sc.BusCloses = rng.IntN(6) == 0
	if rng.IntN(2) == 0 {
		sc.HookPct = 20 + rng.IntN(81)
		sc.HookDelay = []int{0, 1, 10, 60}[rng.IntN(4)]
		sc.HookClose = rng.IntN(2) == 0
	}
	if rng.IntN(3) == 0 {
		sc.RmDelay = []int{1, 10, 60}[rng.IntN(3)]
	}
	nAct := 4 + rng.IntN(14)
	at := 0
	for k := 0; k < nAct; k++ {
		at += []int{0, 0, 1, 3, 10, 40, 120}[rng.IntN(7)]
		a := action{At: at, Peer: rng.IntN(3), Pick: rng.IntN(3)}
		switch x := rng.IntN(100); {
		case x < 30:
			a.Kind, a.Rel, a.Strm = "dial", rng.IntN(4) == 0, rng.IntN(3) == 0
		case x < 55:
			a.Kind, a.Rel, a.Strm = "inbound", rng.IntN(4) == 0, rng.IntN(2) == 0
		case x < 70:
			a.Kind = "close"
		case x < 83:
			a.Kind = "remoteclose"
		case x < 93:
			a.Kind = "closepeer"
		default:
			a.Kind = "swarmclose"
		}
		sc.Actions = append(sc.Actions, a)
		if a.Kind == "swarmclose" {
			break
		}
	}
	return sc
}

type result struct {
	Events      []ev
	FinalConns  map[int][]string // ConnsToPeer at quiescence before Close, per peer
	FinalState  map[int]string
	OpenByModel map[int][]string
	Emitter     swarm.VerifSwarmState
	AfterClose  swarm.VerifSwarmState
	CloseRet    int64 // logical time Swarm.Close returned
	obsStamp    int64 // logical time of the quiescent observation
	Stuck       string
	HookHits    int64
	Dialled     []string // conn ids returned by successful DialPeer calls
	bubble      run.BubbleResult
}

var slots = swarmrig.NewSlots(40)

func runScenario(t *testing.T, r *run.R, sc *scenario, caseIdx int) (res result) {
	slot := slots.Get() // identities are exclusive to this case while it runs (hook dispatch key)
	defer slots.Put(slot)
	res.bubble = run.Bubble(t, func(t *testing.T) {
		rec := &recorder{t0: time.Now()}
		// identities: local = pool[3 + caseIdx%40], remotes = pool[0..2]
		pool := swarmrig.Pool(64)
		localIdx := 11 + slot
		peers := map[peer.ID]int{pool.ID[0]: 0, pool.ID[1]: 1, pool.ID[2]: 2}
		var rmu sync.Mutex
		prng := r.Rand(7, uint64(caseIdx))
		rngf := func(n int) int { rmu.Lock(); defer rmu.Unlock(); return prng.IntN(n) }
		rig, err := swarmrig.New(localIdx, func(tpt string, a ma.Multiaddr, p peer.ID, attempt int) scripttpt.Outcome {
			return scripttpt.Outcome{Kind: "ok", Delay: time.Duration(rngf(3)) * time.Millisecond}
		})
		if err != nil {
			panic(err)
		}
		cs := &caseState{sc: sc, rng: rngf}
		hookCases.Store(rig.Local, cs)
		defer hookCases.Delete(rig.Local)
		sw := rig.Swarm
		for p, i := range peers {
			rig.PS.AddAddrs(p, []ma.Multiaddr{ma.StringCast(fmt.Sprintf("/ip4/1.2.3.%d/tcp/4001", 10+i))}, peerstore.PermanentAddrTTL)
		}
		relayAddr := func(i int) ma.Multiaddr {
			return ma.StringCast(fmt.Sprintf("/ip4/9.9.9.9/tcp/4001/p2p/%s/p2p-circuit", pool.ID[10]))
		}
		if err := sw.Listen(ma.StringCast("/ip4/7.7.7.7/tcp/4001"), ma.StringCast("/p2p-circuit")); err != nil {
			panic(err)
		}
		for k := 0; k < sc.Notifiees; k++ {
			nf := &notifiee{idx: k, rec: rec, sc: sc, peers: peers, rng: rngf}
			sw.Notify(nf)
			if k == 0 && sc.RegisterTwice {
				sw.Notify(nf)
			}
			if k == 1 && sc.ReRegister {
				sw.StopNotify(nf)
				sw.Notify(nf)
			}
		}
		sw.SetStreamHandler(func(s network.Stream) {
			rec.add(ev{Kind: "stream", Conn: s.Conn().ID(), Peer: peers[s.Conn().RemotePeer()]})
			s.Reset()
		})
		// bus subscriber with a tiny buffer
		sub, err := rig.Bus.Subscribe(new(event.EvtPeerConnectednessChanged), eventbus.BufSize(1))
		if err != nil {
			panic(err)
		}
		busDone := make(chan struct{})
		go func() {
			defer close(busDone)
			for e := range sub.Out() {
				evt := e.(event.EvtPeerConnectednessChanged)
				rec.add(ev{Kind: "bus", Peer: peers[evt.Peer], State: evt.Connectedness.String()})
				if sc.BusCloses && evt.Connectedness == network.Connected && rngf(2) == 0 {
					for _, c := range sw.ConnsToPeer(evt.Peer) {
						c.Close()
						break
					}
				}
			}
		}()

		var tmu sync.Mutex
		var wg sync.WaitGroup
		closed := atomic.Bool{}
		start := time.Now()
		for _, a := range sc.Actions {
			a := a
			wg.Add(1)
			go func() {
				defer wg.Done()
				time.Sleep(time.Until(start.Add(time.Duration(a.At) * time.Millisecond)))
				p := pool.ID[a.Peer]
				switch a.Kind {
				case "dial":
					ctx, cancel := context.WithTimeout(context.Background(), 10*time.Second)
					defer cancel()
					if a.Rel {
						rig.PS.AddAddrs(p, []ma.Multiaddr{ma.StringCast(fmt.Sprintf("/ip4/9.9.9.9/tcp/4001/p2p/%s/p2p-circuit", pool.ID[10]))}, peerstore.TempAddrTTL)
					}
					c, err := sw.DialPeer(ctx, p)
					if err == nil {
						tmu.Lock()
						res.Dialled = append(res.Dialled, c.ID())
						tmu.Unlock()
						rec.add(ev{Kind: "dial.ok", Conn: c.ID(), Peer: a.Peer})
					}
				case "inbound":
					tp := rig.TCP
					ra := ma.StringCast(fmt.Sprintf("/ip4/1.2.3.%d/tcp/%d", 10+a.Peer, 5000+a.At))
					if a.Rel {
						tp = rig.Relay
						ra = relayAddr(a.Peer)
					}
					ls := tp.Listeners()
					if len(ls) == 0 {
						return
					}
					fc := ls[0].Inject(p, ra)
					if fc != nil && a.Strm {
						fc.DeliverStream()
					}
				case "close":
					cs := sw.ConnsToPeer(p)
					if len(cs) > 0 {
						cs[a.Pick%len(cs)].Close()
					}
				case "remoteclose":
					var open []*scripttpt.Conn
					for _, tp := range rig.Transports() {
						for _, fc := range tp.Conns() {
							if fc.RemotePeer() == p && !fc.IsClosed() {
								open = append(open, fc)
							}
						}
					}
					if len(open) > 0 {
						open[a.Pick%len(open)].RemoteClose()
					}
				case "closepeer":
					sw.ClosePeer(p)
				case "swarmclose":
					closed.Store(true)
					sw.Close()
					rec.add(ev{Kind: "close.return"})
				}
			}()
		}
		// every wait is bounded in VIRTUAL time: with tickers alive (peerstore GC) a blocked root would
		// not be a bubble deadlock, virtual time would run for ever
		waitV := func(f func(), d time.Duration) bool {
			done := make(chan struct{})
			go func() { f(); close(done) }()
			select {
			case <-done:
				return true
			case <-time.After(d):
				return false
			}
		}
		if !waitV(wg.Wait, 10*time.Minute) {
			res.Stuck = "a scenario action (DialPeer / Close / ClosePeer / Swarm.Close) never returned"
		}
		synctest.Wait()
		// let blocked notifiees and parked disconnects finish
		time.Sleep(2 * time.Second)
		synctest.Wait()
		if !closed.Load() && res.Stuck == "" {
			rec.mu.Lock()
			res.obsStamp = rec.clock
			rec.mu.Unlock()
			res.FinalConns, res.FinalState, res.OpenByModel = map[int][]string{}, map[int]string{}, map[int][]string{}
			for p, i := range peers {
				for _, c := range sw.ConnsToPeer(p) {
					res.FinalConns[i] = append(res.FinalConns[i], c.ID())
				}
				sort.Strings(res.FinalConns[i])
				res.FinalState[i] = sw.Connectedness(p).String()
			}
			res.Emitter = swarm.VerifState(sw)
			if !waitV(func() { sw.Close(); rec.add(ev{Kind: "close.return"}) }, 10*time.Minute) {
				res.Stuck = "Swarm.Close never returned"
			}
		}
		synctest.Wait()
		if res.Stuck == "" {
			res.AfterClose = swarm.VerifState(sw)
		}
		sub.Close()
		if !waitV(func() { <-busDone }, time.Minute) && res.Stuck == "" {
			res.Stuck = "bus subscriber never finished"
		}
		rig.PS.Close()
		rec.mu.Lock()
		res.Events = append([]ev(nil), rec.evs...)
		rec.mu.Unlock()
		for _, e := range res.Events {
			if e.Kind == "close.return" {
				res.CloseRet = e.T
			}
		}
		res.HookHits = cs.hits.Load()
	})
	return
}

type finding struct{ sig, msg string }

// check scans the event log. Statement clauses are quoted at each rule.
func check(sc *scenario, res *result) (out []finding, stats map[string]int) {
	stats = map[string]int{}
	type key struct {
		who  int
		conn string
	}
	type span struct{ cs, ce, ds, de []int64 }
	per := map[key]*span{}
	conns := map[string]int{} // conn id -> peer
	firstStream := map[string]int64{}
	for _, e := range res.Events {
		switch e.Kind {
		case "conn.start", "conn.end", "disc.start", "disc.end":
			k := key{e.Who, e.Conn}
			s := per[k]
			if s == nil {
				s = &span{}
				per[k] = s
			}
			conns[e.Conn] = e.Peer
			switch e.Kind {
			case "conn.start":
				s.cs = append(s.cs, e.T)
			case "conn.end":
				s.ce = append(s.ce, e.T)
			case "disc.start":
				s.ds = append(s.ds, e.T)
			case "disc.end":
				s.de = append(s.de, e.T)
			}
		case "stream":
			if _, ok := firstStream[e.Conn]; !ok {
				firstStream[e.Conn] = e.T
			}
			if _, ok := conns[e.Conn]; !ok {
				conns[e.Conn] = e.Peer
			}
		case "dial.ok":
			if _, ok := conns[e.Conn]; !ok {
				conns[e.Conn] = e.Peer
			}
		}
	}
	for c := range conns {
		var maxConnEnd int64
		for who := 0; who < sc.Notifiees; who++ {
			s := per[key{who, c}]
			if s == nil {
				s = &span{}
			}
			// "each registered notifiee observes Connected exactly once"
			if len(s.cs) != 1 {
				out = append(out, finding{"connected-count", fmt.Sprintf("notifiee %d saw Connected %d times for conn %s", who, len(s.cs), c)})
			}
			// "after the connection closes, Disconnected exactly once" - every conn is closed by the end (Swarm.Close)
			if len(s.ds) != 1 {
				out = append(out, finding{"disconnected-count", fmt.Sprintf("notifiee %d saw Disconnected %d times for conn %s (all conns are closed at the end)", who, len(s.ds), c)})
			}
			// "Disconnected never starts before Connected has returned"
			if len(s.ds) > 0 && (len(s.ce) == 0 || s.ds[0] < s.ce[0]) {
				out = append(out, finding{"disconnected-before-connected-returned", fmt.Sprintf("notifiee %d: Disconnected for %s started before its Connected returned", who, c)})
				stats["x"]++
			}
			if len(s.ce) > 0 && s.ce[0] > maxConnEnd {
				maxConnEnd = s.ce[0]
			}
			if len(s.cs) != len(s.ce) || len(s.ds) != len(s.de) {
				out = append(out, finding{"callback-never-returned", fmt.Sprintf("notifiee %d: a callback for %s did not return", who, c)})
			}
			// "Close of the swarm returns only after these have been delivered"
			for _, t := range append(append([]int64{}, s.ce...), s.de...) {
				if res.CloseRet != 0 && t > res.CloseRet {
					out = append(out, finding{"callback-after-swarm-close-returned", fmt.Sprintf("notifiee %d: a callback for %s ran after Swarm.Close had returned", who, c)})
				}
			}
		}
		// "no inbound stream is delivered before Connected"
		if ts, ok := firstStream[c]; ok {
			for who := 0; who < sc.Notifiees; who++ {
				s := per[key{who, c}]
				if s == nil || len(s.ce) == 0 || ts < s.ce[0] {
					out = append(out, finding{"stream-before-connected", fmt.Sprintf("an inbound stream of %s reached the handler before notifiee %d's Connected returned", c, who)})
					break
				}
			}
			stats["conns_with_inbound_stream"]++
		}
		_ = maxConnEnd
	}
	// connectedness events per peer
	last, lastObs := map[int]string{}, map[int]string{}
	seen, seenObs := map[int]bool{}, map[int]bool{}
	for _, e := range res.Events {
		if e.Kind != "bus" {
			continue
		}
		// "never repeat the same state twice in a row (except a NotConnected announcing a connection that vanished before it was announced)"
		if seen[e.Peer] && last[e.Peer] == e.State && e.State != network.NotConnected.String() {
			out = append(out, finding{"connectedness-repeated/" + e.State, fmt.Sprintf("peer %d: state %s published twice in a row", e.Peer, e.State)})
		}
		if e.State == network.NotConnected.String() && (!seen[e.Peer] || last[e.Peer] == e.State) {
			stats["forced_notconnected"]++
		}
		last[e.Peer], seen[e.Peer] = e.State, true
		if res.FinalState != nil && e.T <= res.obsStamp {
			lastObs[e.Peer], seenObs[e.Peer] = e.State, true
		}
		stats["bus_events"]++
	}
	if res.FinalState != nil {
		for p, actual := range res.FinalState {
			// "once activity stops the last event equals the peer's actual connectedness"
			l := network.NotConnected.String()
			if seenObs[p] {
				l = lastObs[p]
			}
			if l != actual {
				out = append(out, finding{"last-event-differs-from-connectedness", fmt.Sprintf("peer %d: last published state %s, actual connectedness %s", p, l, actual)})
			}
		}
		// "the connections listed for the peer are exactly the admitted, still-open ones": every listed
		// conn was announced (Connected) and not yet disconnected, and vice versa
		for p, listed := range res.FinalConns {
			want := []string{}
			for c, cp := range conns {
				if cp != p {
					continue
				}
				s := per[key{0, c}]
				if s == nil || len(s.cs) == 0 || s.cs[0] > res.obsStamp {
					continue // never announced before the observation
				}
				if len(s.ds) > 0 && s.ds[0] <= res.obsStamp {
					continue // already disconnected at the observation
				}
				want = append(want, c)
			}
			sort.Strings(want)
			if fmt.Sprint(want) != fmt.Sprint(listed) {
				out = append(out, finding{"conns-listed-differ-from-open-admitted", fmt.Sprintf("peer %d: ConnsToPeer lists %v, announced and not yet disconnected: %v", p, listed, want)})
			}
		}
		if res.Emitter.EmitterPending != 0 {
			out = append(out, finding{"emitter-pending-disconnect-left", "a parked Disconnected was still pending at quiescence"})
		}
	}
	if res.AfterClose.EmitterPending != 0 || res.AfterClose.Conns != 0 {
		out = append(out, finding{"residue-after-close", fmt.Sprintf("after Swarm.Close: %+v", res.AfterClose)})
	}
	stats["conns"] = len(conns)
	// parked-disconnect path: a Disconnected that starts right after the Connected of the same dispatch
	for k, s := range per {
		if k.who == 0 && len(s.ds) == 1 && len(s.ce) == 1 {
			stats["conn_disc_pairs"]++
		}
	}
	return
}

func TestC06(t *testing.T) {
	r := run.New(t, "C06", "exploration")
	defer r.Finish()
	r.Rule("scenario = (2-3 notifiees with virtual delays in Connected/Disconnected, optional close from inside Connected, bus subscriber that may close conns, addConn/doClose hook delays, 4-17 timed actions: dial, inbound via fake listener, local close, remote close, ClosePeer, Swarm.Close) generated from (seed, index); non-trivial: a scenario in which a removal overtook the in-flight Connected (Disconnected dispatched by the parked path) or a forced NotConnected event was published; distinct by scenario hash")
	r.Assume("transports and muxed conns are scripted fakes: only the swarm's own notification machinery is under test",
		"callbacks never sleep virtually while another scenario goroutine needs swarm.notifs for writing (DESIGN.md 2.2)")
	n := r.Pick(20000, 400000)
	if os.Getenv("VERIF_RACE") == "1" {
		n = r.Pick(2000, 20000)
	}
	addStat := func(k string, v int) { r.Count(k, v) }
	run.Parallel(n, 0, func(i int) {
		sc := gen(r, i)
		if !r.Want(sc.ID) || r.TooMany() {
			return
		}
		res := runScenario(t, r, sc, i)
		r.Eval(1)
		if res.Stuck != "" {
			r.Violation("stuck", sc.ID, res.Stuck+" within 10 virtual minutes", map[string]any{"scenario": sc, "events": res.Events, "goroutines": res.bubble.Dump})
			return
		}
		if r.BubbleFailed(res.bubble, "schedule", sc.ID, "the scenario never wound down: a notification, Close or ClosePeer is stuck (all goroutines blocked)", map[string]any{"scenario": sc}) {
			return
		}
		fs, stats := check(sc, &res)
		seenSig := map[string]bool{}
		for _, f := range fs {
			if seenSig[f.sig] {
				continue
			}
			seenSig[f.sig] = true
			r.Violation(f.sig, sc.ID, f.msg, map[string]any{"scenario": sc, "events": res.Events, "final_conns": res.FinalConns, "final_state": res.FinalState, "emitter": res.Emitter})
		}
		for k, v := range stats {
			if k != "x" {
				addStat(k, v)
			}
		}
		addStat("addconn_hook_widened", int(res.HookHits))
		parked := parkedCount(&res)
		addStat("parked_disconnects", parked)
		if parked > 0 || stats["forced_notconnected"] > 0 {
			r.Nontrivial(sc.ID)
		}
		if i == 7 || (parked > 0 && r.SampleN() < 3) {
			r.Sample(map[string]any{"scenario": sc, "events_head": head(res.Events, 40), "parked_disconnects": parked})
		}
	})
	overlappingClose(r)
	gaterWindow(r)
	r.Require("conns", 1000)
	r.Require("parked_disconnects", 20)
	r.Require("forced_notconnected", 20)
	r.Require("conns_with_inbound_stream", 50)
	r.Require("bus_events", 1000)
}

// parkedCount counts conns whose Disconnected was dispatched by AddConn itself: notifiee 0's
// disc.start directly follows the last notifiee's conn.end of the same conn with nothing of that conn
// in between and the removal had been requested before (approximation used for evidence only).
func parkedCount(res *result) int {
	n := 0
	lastEnd := map[string]int64{}
	for _, e := range res.Events {
		if e.Kind == "conn.end" {
			lastEnd[e.Conn] = e.T
		}
		if e.Kind == "disc.start" && e.Who == 0 {
			if le, ok := lastEnd[e.Conn]; ok && e.T == le+1 {
				n++
			}
		}
	}
	return n
}

func head(e []ev, n int) []ev {
	if len(e) > n {
		return e[:n]
	}
	return e
}
