package c06

import (
	"fmt"
	"sync/atomic"
	"testing"
	"testing/synctest"
	"time"

	"github.com/libp2p/go-libp2p/core/control"
	"github.com/libp2p/go-libp2p/core/event"
	"github.com/libp2p/go-libp2p/core/network"
	"github.com/libp2p/go-libp2p/core/peer"
	"github.com/libp2p/go-libp2p/p2p/host/eventbus"
	"github.com/libp2p/go-libp2p/p2p/net/swarm"
	ma "github.com/multiformats/go-multiaddr"

	"verif/harness/rig/run"
	"verif/harness/rig/scripttpt"
	"verif/harness/rig/swarmrig"
)

// slowGater: a connection gater (non-default configuration) whose InterceptUpgraded takes its time for
// designated connections and then admits or refuses them
type slowGater struct {
	hold   atomic.Pointer[chan struct{}] // non-nil: InterceptUpgraded waits on it
	deny   atomic.Bool
	inside atomic.Int64
}

func (g *slowGater) InterceptPeerDial(peer.ID) bool               { return true }
func (g *slowGater) InterceptAddrDial(peer.ID, ma.Multiaddr) bool { return true }
func (g *slowGater) InterceptAccept(network.ConnMultiaddrs) bool  { return true }
func (g *slowGater) InterceptSecured(network.Direction, peer.ID, network.ConnMultiaddrs) bool {
	return true
}
func (g *slowGater) InterceptUpgraded(network.Conn) (bool, control.DisconnectReason) {
	if h := g.hold.Load(); h != nil {
		g.inside.Add(1)
		<-*h
		return !g.deny.Load(), 0
	}
	return true, 0
}

// gaterWindow: with a gater that is slow to decide about a second connection of a peer, the peer's first
// (admitted) connection closes while the gater is still deciding; then the gater refuses (or admits) the
// second one. At quiescence the last published connectedness equals the actual one, and every announced
// connection got its Disconnected.
func gaterWindow(r *run.R) {
	for _, deny := range []bool{true, false} {
		caseID := fmt.Sprintf("gater-window/second-conn-%s", map[bool]string{true: "refused", false: "admitted"}[deny])
		if !r.Want(caseID) {
			continue
		}
		r.Eval(1)
		var lastPublished, actual string
		var connected, disconnected, reached int64
		b := run.Bubble(r.T, func(*testing.T) {
			pool := swarmrig.Pool(64)
			g := &slowGater{}
			rig, err := swarmrig.New(55, func(string, ma.Multiaddr, peer.ID, int) scripttpt.Outcome { return scripttpt.Outcome{Kind: "fail"} }, swarm.WithConnectionGater(g))
			if err != nil {
				panic(err)
			}
			sw := rig.Swarm
			P := pool.ID[3]
			var pub atomic.Value
			pub.Store(network.NotConnected.String())
			sub, err := rig.Bus.Subscribe(new(event.EvtPeerConnectednessChanged), eventbus.BufSize(64))
			if err != nil {
				panic(err)
			}
			go func() {
				for e := range sub.Out() {
					if ev, ok := e.(event.EvtPeerConnectednessChanged); ok && ev.Peer == P {
						pub.Store(ev.Connectedness.String())
					}
				}
			}()
			var nc, nd atomic.Int64
			sw.Notify(&network.NotifyBundle{ConnectedF: func(network.Network, network.Conn) { nc.Add(1) }, DisconnectedF: func(network.Network, network.Conn) { nd.Add(1) }})
			if err := sw.Listen(ma.StringCast("/ip4/7.7.7.7/tcp/4001")); err != nil {
				panic(err)
			}
			c1 := rig.TCP.Listeners()[0].Inject(P, ma.StringCast("/ip4/1.2.3.4/tcp/6001"))
			synctest.Wait()
			hold := make(chan struct{})
			g.deny.Store(deny)
			g.hold.Store(&hold)
			rig.TCP.Listeners()[0].Inject(P, ma.StringCast("/ip4/1.2.3.4/tcp/6002"))
			synctest.Wait()
			reached = g.inside.Load()
			if c1 != nil {
				c1.Close() // the remote end of the admitted connection goes away while the gater decides
			}
			for _, c := range sw.ConnsToPeer(P) {
				if c.RemoteMultiaddr().String() == "/ip4/1.2.3.4/tcp/6001" {
					c.Close()
				}
			}
			synctest.Wait()
			g.hold.Store(nil)
			close(hold)
			synctest.Wait()
			time.Sleep(time.Second)
			synctest.Wait()
			lastPublished, actual = pub.Load().(string), sw.Connectedness(P).String()
			connected, disconnected = nc.Load(), nd.Load()
			if !deny {
				sw.ClosePeer(P)
				synctest.Wait()
			}
			done := make(chan struct{})
			go func() { sw.Close(); close(done) }()
			select {
			case <-done:
			case <-time.After(time.Minute):
			}
			sub.Close()
			rig.PS.Close()
		})
		detail := map[string]any{"second_conn_refused": deny, "gater_calls_held": reached, "last_published": lastPublished, "actual": actual, "connected_callbacks": connected, "disconnected_callbacks": disconnected}
		if r.BubbleFailed(b, "gater-window", caseID, "the swarm never wound down", detail) {
			continue
		}
		if reached == 0 {
			r.Count("gater_window_not_reached", 1)
			continue
		}
		r.Count("gater_window_cases", 1)
		r.Nontrivial(caseID)
		if lastPublished != actual {
			r.Violation("last-event-differs-from-connectedness/gater-window", caseID, fmt.Sprintf("at quiescence the last published state of the peer is %s, its actual connectedness %s", lastPublished, actual), detail)
		}
	}
	r.Require("gater_window_cases", 2)
}
