// C12 — Limited (relayed) connections are never mistaken for direct ones.
//
// The REAL swarm runs on scripted transports (a direct TCP-like one and a proxy transport whose conns are
// Limited) in synctest bubbles. Every NewStream / DialPeer call is recorded with its context options, its
// result and the flags of the conn it got at return; every transport Dial is logged with the force-direct
// flag it carried; Connectedness is compared at quiescent points with the state recomputed from the
// open conns; the direct-connection waiter list is read through the accessor.
package c12

import (
	"context"
	"errors"
	"fmt"
	coreevent "github.com/libp2p/go-libp2p/core/event"
	"github.com/libp2p/go-libp2p/p2p/host/eventbus"
	"os"
	"sync"
	"sync/atomic"
	"testing"
	"testing/synctest"
	"time"

	"github.com/libp2p/go-libp2p/core/network"
	"github.com/libp2p/go-libp2p/core/peer"
	"github.com/libp2p/go-libp2p/core/peerstore"
	"github.com/libp2p/go-libp2p/p2p/net/swarm"
	"github.com/libp2p/go-libp2p/x/verifhook"
	ma "github.com/multiformats/go-multiaddr"

	"verif/harness/rig/memnet"
	"verif/harness/rig/run"
	"verif/harness/rig/scripttpt"
	"verif/harness/rig/swarmrig"
)

type call struct {
	At           int    `json:"at_ms"`
	Kind         string `json:"kind"` // newstream | dialpeer
	AllowLimited bool   `json:"allow_limited"`
	ForceDirect  bool   `json:"force_direct"`
	NoDial       bool   `json:"no_dial"`
	TimeoutMs    int    `json:"ctx_timeout_ms"` // 0: none
	DialPeerTOMs int    `json:"dial_peer_timeout_ms"`
	CancelAtMs   int    `json:"cancel_after_ms"` // -1: never
}

type event struct {
	At   int    `json:"at_ms"`   // absolute; for Trigger "registered" relative to the first waiter registration
	Trig string `json:"trigger"` // time | registered
	Kind string `json:"kind"`    // direct-in | limited-in | close-direct | close-limited | close-all
}

type scenario struct {
	ID        string   `json:"id"`
	Init      []string `json:"initial_conns"` // direct | limited
	KnowTCP   bool     `json:"peerstore_has_direct_addr"`
	KnowRelay bool     `json:"peerstore_has_relay_addr"`
	TCPScript string   `json:"direct_dial_script"` // ok | fail | hang
	TCPDelay  int      `json:"direct_dial_delay_ms"`
	RelScript string   `json:"relay_dial_script"`
	RelDelay  int      `json:"relay_dial_delay_ms"`
	Calls     []call   `json:"calls"`
	Events    []event  `json:"events"`
}

type callResult struct {
	Call       call   `json:"call"`
	Returned   bool   `json:"returned"`
	Err        string `json:"err,omitempty"`
	StartMs    int64  `json:"start_ms"`
	EndMs      int64  `json:"end_ms"`
	ConnID     string `json:"conn,omitempty"`
	Limited    bool   `json:"conn_limited"`
	Proxy      bool   `json:"conn_via_proxy_transport"`
	ConnClosed bool   `json:"conn_closed_at_return"`
	RightPeer  bool   `json:"conn_to_requested_peer"`
	DirectOpen int    `json:"open_direct_conns_at_return"`
	ErrLimited bool   `json:"err_is_ErrLimitedConn"`
	ErrNoConn  bool   `json:"err_is_ErrNoConn"`
}

type sample struct {
	AtMs    int64  `json:"at_ms"`
	Actual  string `json:"connectedness"`
	Direct  int    `json:"open_direct"`
	Limited int    `json:"open_limited"`
	// the state named by the last EvtPeerConnectednessChanged a subscriber had read by then
	Published string `json:"last_published_connectedness"`
}

type admitLog struct {
	mu     sync.Mutex
	start  time.Time
	direct []int64
}

func (a *admitLog) Listen(network.Network, ma.Multiaddr)       {}
func (a *admitLog) ListenClose(network.Network, ma.Multiaddr)  {}
func (a *admitLog) Disconnected(network.Network, network.Conn) {}
func (a *admitLog) Connected(_ network.Network, c network.Conn) {
	if !c.Stat().Limited {
		a.mu.Lock()
		a.direct = append(a.direct, time.Since(a.start).Milliseconds())
		a.mu.Unlock()
	}
}

type result struct {
	DirectAdmitted []int64 // virtual ms at which a direct conn was announced
	Calls          []callResult
	Samples        []sample
	Dials          []scripttpt.DialRecord
	Waiters        int // directConnNotifs at final quiescence
	State          swarm.VerifSwarmState
	Regs           int
	PreRegs        int // events placed between a waiter's look at the conns and its registration
	Stuck          string
	bubble         run.BubbleResult
}

var regHooks sync.Map // remote peer id -> func()

var preRegHooks sync.Map // remote peer id -> func(), at the point just before a waiter registers

func init() {
	verifhook.Set("swarm.waitForDirectConn.registered", func(_ string, arg any) {
		if p, ok := arg.(peer.ID); ok {
			if f, ok := regHooks.Load(p); ok {
				f.(func())()
			}
		}
	})
	verifhook.Set("swarm.waitForDirectConn.beforeRegister", func(_ string, arg any) {
		if p, ok := arg.(peer.ID); ok {
			if f, ok := preRegHooks.Load(p); ok {
				f.(func())()
			}
		}
	})
}

// genWake: a peer with a limited connection only, nothing ever closes, and a direct connection arrives
// at a chosen point of a waiting stream open: every waiter must be woken and get its stream.
func genWake(r *run.R, i int) *scenario {
	rng := r.Rand(121, uint64(i))
	sc := &scenario{ID: fmt.Sprintf("wake/%d", i), Init: []string{"limited"}, TCPScript: "fail", RelScript: "fail"}
	if rng.IntN(3) == 0 {
		sc.Init = append(sc.Init, "limited")
	}
	if rng.IntN(3) == 0 {
		// next to the limited conn a direct one whose transport has died but which the swarm has not reaped
		sc.Init = append(sc.Init, "stale-direct")
	}
	n := 1 + rng.IntN(3)
	for k := 0; k < n; k++ {
		c := call{Kind: "newstream", At: []int{0, 0, 1, 5}[rng.IntN(4)], CancelAtMs: -1, NoDial: rng.IntN(2) == 0}
		switch rng.IntN(3) {
		case 0:
			c.TimeoutMs = []int{100, 1000}[rng.IntN(2)]
		case 1:
			c.DialPeerTOMs = []int{100, 1000}[rng.IntN(2)]
		}
		sc.Calls = append(sc.Calls, c)
	}
	e := event{Kind: "direct-in"}
	switch rng.IntN(4) {
	case 0, 1:
		e.Trig = "before-register"
	case 2:
		e.Trig, e.At = "registered", []int{0, 1, 9}[rng.IntN(3)]
	case 3:
		e.Trig, e.At = "time", []int{0, 1, 4, 6, 29}[rng.IntN(5)]
	}
	sc.Events = append(sc.Events, e)
	return sc
}

func gen(r *run.R, i int) *scenario {
	if i%8 == 3 {
		return genWake(r, i)
	}
	rng := r.Rand(12, uint64(i))
	sc := &scenario{ID: fmt.Sprintf("sc/%d", i)}
	switch rng.IntN(6) {
	case 0:
	case 1, 2:
		sc.Init = []string{"limited"}
	case 3:
		sc.Init = []string{"direct"}
	case 4:
		sc.Init = []string{"limited", "direct"}
	case 5:
		sc.Init = []string{"limited", "limited"}
	}
	sc.KnowTCP, sc.KnowRelay = rng.IntN(3) != 0, rng.IntN(2) == 0
	sc.TCPScript = []string{"ok", "ok", "fail", "hang"}[rng.IntN(4)]
	sc.RelScript = []string{"ok", "ok", "fail"}[rng.IntN(3)]
	sc.TCPDelay, sc.RelDelay = []int{0, 1, 20, 400}[rng.IntN(4)], []int{0, 1, 20}[rng.IntN(3)]
	n := 1 + rng.IntN(5)
	for k := 0; k < n; k++ {
		c := call{At: []int{0, 0, 1, 5, 30}[rng.IntN(5)], CancelAtMs: -1}
		if x := rng.IntN(10); x < 3 {
			c.Kind = "dialpeer"
			c.ForceDirect = rng.IntN(2) == 0
		} else if x < 5 {
			// a stream opened directly on one of the listed conns (limited one preferred)
			c.Kind = "conn-newstream"
			c.AllowLimited = rng.IntN(3) == 0
		} else {
			c.Kind = "newstream"
			c.AllowLimited = rng.IntN(3) == 0
			c.NoDial = rng.IntN(4) == 0
			c.ForceDirect = rng.IntN(5) == 0
		}
		switch rng.IntN(4) {
		case 0:
			c.TimeoutMs = []int{10, 100, 1000}[rng.IntN(3)]
		case 1:
			c.DialPeerTOMs = []int{10, 100, 1000}[rng.IntN(3)]
		case 2:
			c.CancelAtMs = []int{0, 1, 5, 50}[rng.IntN(4)]
		}
		sc.Calls = append(sc.Calls, c)
	}
	m := rng.IntN(5)
	for k := 0; k < m; k++ {
		e := event{Kind: []string{"direct-in", "direct-in", "limited-in", "close-direct", "close-limited", "close-all"}[rng.IntN(6)]}
		if x := rng.IntN(10); x == 0 {
			e.Trig = "before-register"
		} else if x < 5 {
			e.Trig, e.At = "registered", []int{0, 0, 1, 9}[rng.IntN(4)]
		} else {
			e.Trig, e.At = "time", []int{0, 1, 4, 6, 29, 31, 99, 101, 999, 1001}[rng.IntN(10)]
		}
		sc.Events = append(sc.Events, e)
	}
	return sc
}

var slots = swarmrig.NewSlots(20)

func runScenario(t *testing.T, r *run.R, sc *scenario, _ int) (res result) {
	idx := slots.Get() // made outside the bubble: identities are exclusive to this case while it runs
	defer slots.Put(idx)
	res.bubble = run.Bubble(t, func(t *testing.T) {
		pool := swarmrig.Pool(64)
		remote := pool.ID[idx]
		relayID := pool.ID[41]
		start := time.Now()
		ms := func() int64 { return time.Since(start).Milliseconds() }
		rig, err := swarmrig.New(42+idx, func(tpt string, a ma.Multiaddr, p peer.ID, attempt int) scripttpt.Outcome {
			if tpt == "relay" {
				return scripttpt.Outcome{Kind: sc.RelScript, Delay: time.Duration(sc.RelDelay) * time.Millisecond}
			}
			return scripttpt.Outcome{Kind: sc.TCPScript, Delay: time.Duration(sc.TCPDelay) * time.Millisecond}
		}, swarm.WithDialTimeout(5*time.Second))
		if err != nil {
			panic(err)
		}
		// what the swarm PUBLISHES about the peer (EvtPeerConnectednessChanged), read by a subscriber
		var published atomic.Value
		published.Store(network.NotConnected.String())
		if sub, err := rig.Bus.Subscribe(new(coreevent.EvtPeerConnectednessChanged), eventbus.BufSize(64)); err == nil {
			defer sub.Close()
			go func() {
				for e := range sub.Out() {
					if ev, ok := e.(coreevent.EvtPeerConnectednessChanged); ok && ev.Peer == remote {
						published.Store(ev.Connectedness.String())
					}
				}
			}()
		}
		sw := rig.Swarm
		adm := &admitLog{start: start}
		sw.Notify(adm)
		directAddr := ma.StringCast("/ip4/1.2.3.4/tcp/4001")
		relayAddr := ma.StringCast(fmt.Sprintf("/ip4/9.9.9.9/tcp/4001/p2p/%s/p2p-circuit", relayID))
		if err := sw.Listen(ma.StringCast("/ip4/7.7.7.7/tcp/4001"), ma.StringCast("/p2p-circuit")); err != nil {
			panic(err)
		}
		if sc.KnowTCP {
			rig.PS.AddAddrs(remote, []ma.Multiaddr{directAddr}, peerstore.PermanentAddrTTL)
		}
		if sc.KnowRelay {
			rig.PS.AddAddrs(remote, []ma.Multiaddr{relayAddr}, peerstore.PermanentAddrTTL)
		}
		inject := func(kind string) {
			tp, ra := rig.TCP, ma.StringCast(fmt.Sprintf("/ip4/1.2.3.4/tcp/%d", 6000+int(ms())))
			if kind == "limited" {
				tp, ra = rig.Relay, relayAddr
			}
			if ls := tp.Listeners(); len(ls) > 0 {
				ls[0].Inject(remote, ra)
			}
		}
		// open conns as the scenario sees them: fake conns that are not closed and that the swarm lists
		count := func() (direct, limited int) {
			for _, c := range sw.ConnsToPeer(remote) {
				if c.IsClosed() {
					continue
				}
				if c.Stat().Limited {
					limited++
				} else {
					direct++
				}
			}
			return
		}
		closeKind := func(kind string) {
			for _, c := range sw.ConnsToPeer(remote) {
				if kind == "all" || (kind == "direct") == !c.Stat().Limited {
					c.Close()
					if kind != "all" {
						return
					}
				}
			}
		}
		doEvent := func(e event) {
			switch e.Kind {
			case "direct-in":
				inject("direct")
			case "limited-in":
				inject("limited")
			case "close-direct":
				closeKind("direct")
			case "close-limited":
				closeKind("limited")
			case "close-all":
				closeKind("all")
			}
		}
		staleDirect := false
		for _, k := range sc.Init {
			if k == "stale-direct" {
				staleDirect = true
				k = "direct"
			}
			inject(k)
		}
		synctest.Wait()
		if staleDirect {
			// the direct connection's transport dies without the swarm noticing: it stays registered, unusable
			for _, fc := range rig.TCP.Conns() {
				fc.DieSilently()
			}
			adm.mu.Lock()
			adm.direct = nil // only connections announced from now on count as "a direct connection appeared"
			adm.mu.Unlock()
		}
		var mu sync.Mutex
		var wg sync.WaitGroup
		regOnce := sync.Once{}
		regHooks.Store(remote, func() {
			mu.Lock()
			res.Regs++
			mu.Unlock()
			regOnce.Do(func() {
				for _, e := range sc.Events {
					if e.Trig != "registered" {
						continue
					}
					e := e
					if e.At == 0 {
						doEvent(e) // between registration and the wait
						continue
					}
					wg.Add(1)
					go func() {
						defer wg.Done()
						time.Sleep(time.Duration(e.At) * time.Millisecond)
						doEvent(e)
					}()
				}
			})
		})
		defer regHooks.Delete(remote)
		// "before-register": the waiter has looked at the conns and decided to wait, and has not yet put
		// itself on the list. The event runs on another goroutine while the waiter is held back for 2 ms of
		// REAL time (the point lies inside the waiter list's critical section: the other goroutine's wake-up
		// call queues behind it; a virtual sleep would wedge the bubble on that mutex).
		preOnce := sync.Once{}
		preRegHooks.Store(remote, func() {
			fired := false
			preOnce.Do(func() {
				for _, e := range sc.Events {
					if e.Trig != "before-register" {
						continue
					}
					e := e
					fired = true
					wg.Add(1)
					go func() {
						defer wg.Done()
						doEvent(e)
					}()
				}
			})
			if fired {
				<-memnet.RealAfter(2 * time.Millisecond)
				mu.Lock()
				res.PreRegs++
				mu.Unlock()
			}
		})
		defer preRegHooks.Delete(remote)
		for _, e := range sc.Events {
			if e.Trig != "time" {
				continue
			}
			e := e
			wg.Add(1)
			go func() {
				defer wg.Done()
				time.Sleep(time.Duration(e.At) * time.Millisecond)
				doEvent(e)
			}()
		}
		res.Calls = make([]callResult, len(sc.Calls))
		for ci, c := range sc.Calls {
			ci, c := ci, c
			wg.Add(1)
			go func() {
				defer wg.Done()
				time.Sleep(time.Duration(c.At) * time.Millisecond)
				ctx := context.Background()
				var cancel context.CancelFunc = func() {}
				if c.TimeoutMs > 0 {
					ctx, cancel = context.WithTimeout(ctx, time.Duration(c.TimeoutMs)*time.Millisecond)
				} else if c.CancelAtMs >= 0 {
					ctx, cancel = context.WithCancel(ctx)
					d := time.Duration(c.CancelAtMs) * time.Millisecond
					cn := cancel
					go func() { time.Sleep(d); cn() }()
				}
				defer cancel()
				if c.DialPeerTOMs > 0 {
					ctx = network.WithDialPeerTimeout(ctx, time.Duration(c.DialPeerTOMs)*time.Millisecond)
				}
				if c.AllowLimited {
					ctx = network.WithAllowLimitedConn(ctx, "verif")
				}
				if c.ForceDirect {
					ctx = network.WithForceDirectDial(ctx, "verif")
				}
				if c.NoDial {
					ctx = network.WithNoDial(ctx, "verif")
				}
				cr := callResult{Call: c, StartMs: ms()}
				var conn network.Conn
				var err error
				if c.Kind == "newstream" {
					var s network.Stream
					s, err = sw.NewStream(ctx, remote)
					if err == nil {
						conn = s.Conn()
						defer s.Reset()
					}
				} else if c.Kind == "conn-newstream" {
					var pick network.Conn
					for _, cc := range sw.ConnsToPeer(remote) {
						if pick == nil || cc.Stat().Limited {
							pick = cc
						}
					}
					if pick == nil {
						err = network.ErrNoConn
					} else {
						var s network.Stream
						s, err = pick.NewStream(ctx)
						if err == nil {
							conn = s.Conn()
							defer s.Reset()
						}
					}
				} else {
					conn, err = sw.DialPeer(ctx, remote)
				}
				cr.Returned, cr.EndMs = true, ms()
				if err != nil {
					cr.Err = err.Error()
					cr.ErrLimited = errors.Is(err, network.ErrLimitedConn)
					cr.ErrNoConn = errors.Is(err, network.ErrNoConn)
					cr.DirectOpen, _ = count()
				} else {
					cr.ConnID, cr.Limited, cr.ConnClosed = conn.ID(), conn.Stat().Limited, conn.IsClosed()
					cr.RightPeer = conn.RemotePeer() == remote
					cr.DirectOpen, _ = count()
				}
				mu.Lock()
				res.Calls[ci] = cr
				mu.Unlock()
			}()
		}
		// sampler at quiescent points
		sampDone := make(chan struct{})
		go func() {
			defer close(sampDone)
			for k := 0; k < 40; k++ {
				synctest.Wait()
				d, l := count()
				mu.Lock()
				res.Samples = append(res.Samples, sample{AtMs: ms(), Actual: sw.Connectedness(remote).String(), Direct: d, Limited: l, Published: published.Load().(string)})
				mu.Unlock()
				time.Sleep(time.Duration([]int{1, 2, 7, 30, 200}[k%5]) * time.Millisecond)
			}
		}()
		waitV := func(f func(), d time.Duration) bool {
			done := make(chan struct{})
			go func() { f(); close(done) }()
			select {
			case <-done:
				return true
			case <-time.After(d):
				return false
			}
		}
		if !waitV(wg.Wait, 5*time.Minute) {
			res.Stuck = "a NewStream / DialPeer call had not returned after 5 virtual minutes"
		}
		<-sampDone
		synctest.Wait()
		res.State = swarm.VerifState(sw)
		res.Waiters = res.State.DirectConnWaiters
		res.Dials = rig.Log.Records()
		adm.mu.Lock()
		res.DirectAdmitted = append([]int64(nil), adm.direct...)
		adm.mu.Unlock()
		waitV(func() { sw.Close() }, time.Minute)
		rig.PS.Close()
	})
	return
}

type finding struct{ sig, msg string }

func check(sc *scenario, res *result) (out []finding, st map[string]int) {
	st = map[string]int{}
	allForce := true
	for _, c := range sc.Calls {
		if !c.ForceDirect {
			allForce = false
		}
	}
	onlyLimitedAtStart, nothingCloses := len(sc.Init) > 0, true
	stale := false
	for _, k := range sc.Init {
		if k == "stale-direct" {
			stale = true // dead from the start: not a usable direct connection
		} else if k != "limited" {
			onlyLimitedAtStart = false
		}
	}
	for _, e := range sc.Events {
		if len(e.Kind) >= 5 && e.Kind[:5] == "close" {
			nothingCloses = false
		}
	}
	st["events_placed_before_registration"] = res.PreRegs
	for _, cr := range res.Calls {
		c := cr.Call
		if !cr.Returned {
			continue
		}
		if cr.Err == "" {
			if !cr.RightPeer {
				out = append(out, finding{"conn-to-another-peer", "a call returned a connection to a different peer"})
			}
			switch {
			case (c.Kind == "newstream" || c.Kind == "conn-newstream") && !c.AllowLimited && cr.Limited:
				// "A stream is opened over a limited (relayed) connection only when the caller explicitly allowed limited connections"
				out = append(out, finding{"stream-over-limited-without-permission", fmt.Sprintf("NewStream without allow-limited returned a stream on limited conn %s", cr.ConnID)})
			case c.Kind == "dialpeer" && c.ForceDirect && cr.Limited:
				// "A dial that demands a direct connection never returns a relayed one"
				out = append(out, finding{"force-direct-returned-limited", fmt.Sprintf("DialPeer with force-direct returned limited conn %s", cr.ConnID)})
			}
			if c.Kind == "newstream" && !c.AllowLimited && !cr.Limited {
				st["streams_on_direct"]++
			}
			if c.Kind == "newstream" && c.AllowLimited && cr.Limited {
				st["streams_on_limited_allowed"]++
			}
			if c.Kind == "conn-newstream" && cr.Limited {
				st["conn_streams_on_limited_allowed"]++
			}
		} else {
			st["calls_failed"]++
			if cr.ErrLimited && c.Kind == "newstream" {
				// "otherwise the call waits for a direct connection": the only legitimate way for a waiting
				// call to end with ErrLimitedConn is that a direct connection appeared (it was woken) and
				// was gone again when it looked
				woken := false
				for _, t := range res.DirectAdmitted {
					if t >= cr.StartMs && t <= cr.EndMs {
						woken = true
					}
				}
				if !woken {
					out = append(out, finding{"waiter-gave-up-without-a-direct-conn-having-appeared", fmt.Sprintf("NewStream failed with ErrLimitedConn after %d ms although no direct connection was announced while it waited", cr.EndMs-cr.StartMs)})
				} else {
					st["waiter_woken_then_limited_again"]++
				}
			}
			if cr.ErrLimited {
				st["err_limited_conn"]++
				if c.Kind == "conn-newstream" {
					st["conn_streams_refused_limited"]++
				}
			}
			if cr.ErrNoConn {
				st["err_no_conn"]++
			}
		}
		// "otherwise the call waits for a direct connection and fails if none appears IN TIME": a limited conn
		// is open from the start and nothing is ever closed, so the call neither dials nor loses a conn; once a
		// direct connection has been announced (2 ms before the call's end at the latest) the call must not fail
		if c.Kind == "newstream" && !c.AllowLimited && cr.Err != "" && onlyLimitedAtStart && nothingCloses {
			// the call's own context must have been alive for 2 ms while the direct conn existed (a call
			// whose context is over may fail whatever exists)
			ctxEnd := cr.EndMs
			for _, d := range []int{c.TimeoutMs, c.DialPeerTOMs} {
				if d > 0 && cr.StartMs+int64(d) < ctxEnd {
					ctxEnd = cr.StartMs + int64(d)
				}
			}
			if c.CancelAtMs >= 0 && cr.StartMs+int64(c.CancelAtMs) < ctxEnd {
				ctxEnd = cr.StartMs + int64(c.CancelAtMs)
			}
			for _, t := range res.DirectAdmitted {
				if t < cr.StartMs {
					t = cr.StartMs
				}
				if t <= ctxEnd-2 {
					out = append(out, finding{"waiter-failed-although-a-direct-conn-appeared-in-time", fmt.Sprintf("NewStream (called at %d ms) failed at %d ms with %q although a direct connection had been announced at %d ms and nothing was closed (%d direct conns open at return)",
						cr.StartMs, cr.EndMs, cr.Err, t, cr.DirectOpen)})
					break
				}
			}
		}
		if c.Kind == "newstream" && !c.AllowLimited && cr.Err == "" && onlyLimitedAtStart && nothingCloses && len(res.DirectAdmitted) > 0 {
			st["waiters_served_by_a_late_direct_conn"]++
			if stale {
				st["waiters_served_next_to_a_dead_unreaped_direct_conn"]++
			}
		}
		// "otherwise the call waits for a direct connection and fails if none appears in time": bounded by the
		// smallest applicable timeout (+ scheduling of the same virtual instant)
		limit := int64(5*60*1000 + 100)
		if c.TimeoutMs > 0 {
			limit = int64(c.TimeoutMs)
		}
		if c.CancelAtMs >= 0 && c.TimeoutMs == 0 {
			limit = int64(c.CancelAtMs)
		}
		if cr.Err != "" && (c.TimeoutMs > 0 || c.CancelAtMs >= 0) && cr.EndMs-cr.StartMs > limit+2 {
			out = append(out, finding{"call-outlived-its-context", fmt.Sprintf("%s returned %d ms after its start although its context ended after %d ms", c.Kind, cr.EndMs-cr.StartMs, limit)})
		}
	}
	// "never dials a relay address" under force-direct
	for _, d := range res.Dials {
		if d.Transport == "relay" {
			st["relay_dials"]++
			if d.ForceDirect {
				out = append(out, finding{"relay-address-dialled-under-force-direct", "a relay address was handed to the proxy transport by a force-direct dial: " + d.Addr})
			} else if allForce && len(sc.Calls) > 0 {
				out = append(out, finding{"relay-address-dialled-under-force-direct", "every caller demanded a direct connection, yet a relay address was dialled: " + d.Addr})
			}
		} else {
			st["direct_dials"]++
		}
	}
	// "a peer reachable only over limited connections is reported as Limited rather than Connected"
	for _, s := range res.Samples {
		if stale {
			break // the scenario holds a dead, unreaped conn on purpose: what the swarm reports meanwhile is not judged
		}
		want := network.NotConnected.String()
		if s.Direct > 0 {
			want = network.Connected.String()
		} else if s.Limited > 0 {
			want = network.Limited.String()
		}
		if s.Actual != want {
			out = append(out, finding{"connectedness-wrong/" + want + "-reported-" + s.Actual, fmt.Sprintf("at %d ms: %d direct, %d limited conns open, Connectedness = %s", s.AtMs, s.Direct, s.Limited, s.Actual)})
			break
		}
		// ... also in the event stream: at a quiescent point the last published state is the state
		if s.Published != "" && s.Published != want {
			out = append(out, finding{"connectedness-event-wrong/" + want + "-last-published-" + s.Published, fmt.Sprintf("at %d ms (quiescent): %d direct, %d limited conns open, the last EvtPeerConnectednessChanged for the peer said %s", s.AtMs, s.Direct, s.Limited, s.Published)})
			break
		}
		if want == network.Limited.String() && s.Published == want {
			st["samples_Limited_also_published"]++
		}
		st["samples_"+want]++
	}
	if res.Waiters != 0 {
		out = append(out, finding{"waiter-left-registered", fmt.Sprintf("%d direct-connection waiters still registered after every call returned", res.Waiters)})
	}
	st["waiter_registrations"] = res.Regs
	return
}

func TestC12(t *testing.T) {
	r := run.New(t, "C12", "exploration")
	defer r.Finish()
	r.Rule("scenario = (initial conns to the peer: none / limited / direct / both / two limited; which addresses are known; dial scripts of the direct and the proxy transport; 1-5 NewStream / DialPeer calls with allow-limited / force-direct / no-dial, ctx timeout, dial-peer timeout or cancellation; 0-4 events: a direct or limited conn appearing, conns closing, at fixed times around the timeouts or relative to the first waiter's registration (0, +1, +9 ms via the hook point)); non-trivial: at least one direct-connection waiter was registered; distinct by scenario id")
	r.Assume("BasicHost.NewStream/Connect and the hole-punching service are checked separately (holepunch part) - this part drives the swarm API directly",
		"scripted conns: Limited is what the proxy transport's conns report through Stat()")
	n := r.Pick(12000, 300000)
	if os.Getenv("VERIF_RACE") == "1" {
		n = r.Pick(1500, 15000)
	}
	run.Parallel(n, 0, func(i int) {
		sc := gen(r, i)
		if !r.Want(sc.ID) || r.TooMany() {
			return
		}
		res := runScenario(t, r, sc, i)
		r.Eval(1)
		if res.Stuck != "" {
			r.Violation("stuck", sc.ID, res.Stuck, map[string]any{"scenario": sc, "calls": res.Calls})
			return
		}
		if r.BubbleFailed(res.bubble, "scenario", sc.ID, "the scenario never wound down (all goroutines blocked)", map[string]any{"scenario": sc}) {
			return
		}
		fs, st := check(sc, &res)
		seen := map[string]bool{}
		for _, f := range fs {
			if !seen[f.sig] {
				seen[f.sig] = true
				r.Violation(f.sig, sc.ID, f.msg, map[string]any{"scenario": sc, "calls": res.Calls, "samples": res.Samples, "dials": res.Dials, "swarm_state": res.State})
			}
		}
		for k, v := range st {
			r.Count(k, v)
		}
		if res.Regs > 0 {
			r.Nontrivial(sc.ID)
		}
		if (i == 11 || res.Regs > 1) && r.SampleN() < 3 {
			r.Sample(map[string]any{"scenario": sc, "calls": res.Calls, "waiter_registrations": res.Regs})
		}
	})
	holepunchPart(t, r)
	hostPart(t, r)
	upgraderKeepsLimited(t, r)
	realRelayLimits(r)
	r.Require("waiter_registrations", 200)
	r.Require("events_placed_before_registration", 50)
	r.Require("waiters_served_by_a_late_direct_conn", 100)
	r.Require("waiters_served_next_to_a_dead_unreaped_direct_conn", 30)
	r.Require("streams_on_direct", 200)
	r.Require("streams_on_limited_allowed", 50)
	r.Require("err_limited_conn", 1)
	r.Require("samples_Limited", 200)
	r.Require("samples_Connected", 200)
	r.Require("relay_dials", 15)
	r.Require("conn_streams_refused_limited", 50)
	r.Require("conn_streams_on_limited_allowed", 20)
}
