package c12

import (
	"context"
	"fmt"
	"sync"
	"testing"
	"time"

	"github.com/libp2p/go-libp2p/core/network"
	ipnet "github.com/libp2p/go-libp2p/core/pnet"
	"github.com/libp2p/go-libp2p/core/sec"
	"github.com/libp2p/go-libp2p/core/transport"
	"github.com/libp2p/go-libp2p/p2p/net/upgrader"
	ma "github.com/multiformats/go-multiaddr"

	"verif/harness/rig/memnet"
	"verif/harness/rig/run"
	"verif/harness/rig/sectest"
)

// limitedRaw is what the circuit transport hands to the upgrader: a raw connection that reports, through
// network.ConnStat, that it is a limited (relayed) one.
type limitedRaw struct {
	*memnet.Conn
	limited bool
}

func (l limitedRaw) Stat() network.ConnStats {
	return network.ConnStats{Stats: network.Stats{Limited: l.limited, Direction: network.DirUnknown}}
}

// upgraderKeepsLimited: "a peer reachable only over limited connections is reported as Limited rather than
// Connected" and "a stream is opened over a limited connection only when the caller explicitly allowed
// [it]" both rest on the Limited flag of the RAW relayed connection surviving the upgrade: the REAL
// upgrader (Noise / TLS x with and without a private-network PSK, which wraps the raw conn) over an
// in-memory raw conn whose Stat() says Limited (or not) must produce a connection whose Stat().Limited is
// the same, on the dialing and on the accepting side.
func upgraderKeepsLimited(t *testing.T, r *run.R) {
	pool := sectest.NewPool(2)
	psk := make([]byte, 32)
	for i := range psk {
		psk[i] = byte(3*i + 1)
	}
	for _, proto := range []string{"noise", "tls"} {
		for _, withPSK := range []bool{false, true} {
			for _, limited := range []bool{true, false} {
				caseID := fmt.Sprintf("upgrader-keeps-limited/%s/psk=%v/raw-limited=%v", proto, withPSK, limited)
				if !r.Want(caseID) || r.TooMany() {
					continue
				}
				ka, kb := pool["ed25519"][0], pool["ecdsa"][1]
				var pk ipnet.PSK
				if withPSK {
					pk = psk
				}
				var got [2]*bool
				var errs [2]string
				b := run.Bubble(t, func(t *testing.T) {
					ctx, cancel := context.WithTimeout(context.Background(), 30*time.Second)
					defer cancel()
					mk := func(k *sectest.Key) transport.Upgrader {
						u, err := upgrader.New([]sec.SecureTransport{sectest.NewSec(proto, k)}, sectest.Muxers, pk, &network.NullResourceManager{}, nil)
						if err != nil {
							panic(err)
						}
						return u
					}
					ua, ub := mk(ka), mk(kb)
					ra, rb := memnet.Pipe(ma.StringCast("/ip4/10.0.0.1/tcp/1"), ma.StringCast("/ip4/10.0.0.2/tcp/2"), 0)
					var wg sync.WaitGroup
					wg.Add(2)
					go func() {
						defer wg.Done()
						c, err := ua.Upgrade(ctx, nil, limitedRaw{ra, limited}, network.DirOutbound, kb.ID, &network.NullScope{})
						if err != nil {
							errs[0] = err.Error()
							ra.Close()
							return
						}
						defer c.Close()
						if cs, ok := c.(network.ConnStat); ok { // what the swarm asks (swarm.addConn)
							v := cs.Stat().Limited
							got[0] = &v
						} else {
							v := false
							got[0] = &v
						}
					}()
					go func() {
						defer wg.Done()
						c, err := ub.Upgrade(ctx, nil, limitedRaw{rb, limited}, network.DirInbound, "", &network.NullScope{})
						if err != nil {
							errs[1] = err.Error()
							rb.Close()
							return
						}
						defer c.Close()
						if cs, ok := c.(network.ConnStat); ok {
							v := cs.Stat().Limited
							got[1] = &v
						} else {
							v := false
							got[1] = &v
						}
					}()
					wg.Wait()
					ra.Close()
					rb.Close()
				})
				r.Eval(1)
				detail := map[string]any{"security": proto, "psk": withPSK, "raw_conn_limited": limited, "upgrade_errors": errs}
				if r.BubbleFailed(b, "upgrader-keeps-limited", caseID, "upgrade never wound down", detail) {
					continue
				}
				if got[0] == nil || got[1] == nil {
					r.Inconclusive(caseID, fmt.Sprint("upgrade failed: ", errs))
					continue
				}
				r.Nontrivial(caseID)
				r.Count("upgraded_conns_stat_compared", 2)
				for side, name := range []string{"dialing", "accepting"} {
					if *got[side] != limited {
						r.Violation("upgrader:limited-flag-of-the-raw-conn-lost/"+name, caseID,
							fmt.Sprintf("raw connection reports Limited=%v, the upgraded connection on the %s side reports Limited=%v (security %s, psk=%v)", limited, name, *got[side], proto, withPSK), detail)
						break
					}
				}
			}
		}
	}
	r.Require("upgraded_conns_stat_compared", 12)
}
