// C12, hole-punching clause: "hole punching is coordinated only over a relayed connection, dials only
// the peer's non-relay addresses and reports success only when a direct connection exists."
//
// The REAL holepunch.Service (initiator: DirectConnect / the inbound-relayed-conn notifiee -> holePuncher;
// responder: the /libp2p/dcutr stream handler) runs on a scriptable fake host (hp_fakehost_test.go) in a
// synctest bubble. The remote side of every DCUtR stream is a scripted peer speaking the protobuf
// messages over an in-memory pipe - honest or hostile. The fake network holds relayed (limited or
// unlimited) and direct conns to the partner; scripted dial outcomes and timed events make direct and
// relayed conns appear and disappear. Everything the service does at the host boundary is logged with
// its context options and the virtual instant; the oracle below is a pure function of that log.
package c12

import (
	"encoding/hex"
	"errors"
	"fmt"
	"io"
	"os"
	"strings"
	"sync"
	"testing"
	"time"

	"github.com/libp2p/go-libp2p/core/peer"
	"github.com/libp2p/go-libp2p/p2p/protocol/holepunch"
	"github.com/libp2p/go-libp2p/p2p/protocol/holepunch/pb"
	"github.com/libp2p/go-msgio/pbio"
	ma "github.com/multiformats/go-multiaddr"
	"github.com/multiformats/go-varint"

	"verif/harness/rig/memnet"
	"verif/harness/rig/run"
)

// ---------------------------------------------------------------------------------------------
// scenario

const (
	hpReach    = "/ip4/5.5.5.5/tcp/4001" // the partner's one truly reachable address
	hpReachQ   = "/ip4/5.5.5.5/udp/4001/quic-v1"
	hpOtherPub = "/ip4/6.6.6.6/tcp/4002" // public, nobody there
	hpPriv     = "/ip4/192.168.1.7/tcp/4001"
	hpLoop     = "/ip4/127.0.0.1/tcp/4001"
)

// relay spellings a peer may advertise
func hpRelayAddrs() []string {
	r, p := hpRelayID.String(), hpPartner.String()
	return []string{
		"/ip4/9.9.9.9/tcp/4001/p2p/" + r + "/p2p-circuit",
		"/ip4/9.9.9.9/tcp/4001/p2p/" + r + "/p2p-circuit/p2p/" + p,
		"/p2p-circuit",
		"/dns4/relay.example.com/tcp/443/wss/p2p/" + r + "/p2p-circuit",
		"/ip4/9.9.9.9/udp/4001/quic-v1/p2p/" + r + "/p2p-circuit",
		"/ip4/9.9.9.9/tcp/4001/p2p/" + r + "/p2p-circuit/ip4/5.5.5.5/tcp/4001", // a circuit hop in the middle
		"/p2p/" + r + "/p2p-circuit/p2p/" + p,
	}
}

type hpStreamScript struct { // remote = responder, for the k-th coordination stream the service opens
	Reply   string   `json:"reply"` // connect | sync-instead | garbage-bytes | oversize | silent | close | close-before-read | refuse
	Addrs   string   `json:"addrs_variant,omitempty"`
	List    []string `json:"obs_addrs,omitempty"` // multiaddr text or hex:<raw bytes>
	DelayMs int      `json:"reply_delay_ms"`
}

type hpConnectScript struct { // outcome of the k-th Connect that has to dial
	Kind         string `json:"kind"` // ok | ok-then-close | fail | hang | fail+direct-in | hang+direct-in | fail+limited-in
	DelayMs      int    `json:"delay_ms"`
	CloseAfterMs int    `json:"close_after_ms,omitempty"`
}

type hpInbound struct { // remote = initiator of a DCUtR stream towards the service
	Conn        string   `json:"over_conn"` // limited|relayunl|direct - in|out
	First       string   `json:"first"`     // connect | sync | garbage-bytes | oversize | silent | close
	Addrs       string   `json:"addrs_variant,omitempty"`
	List        []string `json:"obs_addrs,omitempty"`
	SyncDelayMs int      `json:"sync_delay_ms"`
	Second      string   `json:"second"` // sync | connect | silent | close | garbage-bytes
}

type hpAction struct {
	AtMs int        `json:"at_ms"`
	Kind string     `json:"kind"` // direct-connect | stream-in | open:<spec> | close-direct | close-limited | close-all
	In   *hpInbound `json:"inbound,omitempty"`
}

type hpScenario struct {
	ID            string            `json:"id"`
	Shape         string            `json:"shape"`
	Init          []string          `json:"initial_conns"`
	Bystander     bool              `json:"bystander_conns"`
	PS            []string          `json:"peerstore_addrs"`
	Listen        string            `json:"listen_addrs"` // public | public+relay | late | relay-only
	ListenDelayMs int               `json:"listen_delay_ms,omitempty"`
	DialTimeoutMs int               `json:"direct_dial_timeout_ms"`
	Filter        bool              `json:"addr_filter"`
	Tracer        string            `json:"tracer"` // both | event | metrics | none
	Streams       []hpStreamScript  `json:"stream_scripts"`
	Connects      []hpConnectScript `json:"connect_scripts"`
	Actions       []hpAction        `json:"actions"`
}

func (sc *hpScenario) streamScript(n int) hpStreamScript {
	if len(sc.Streams) == 0 {
		return hpStreamScript{Reply: "connect", Addrs: "direct", List: []string{hpReach}}
	}
	if n >= len(sc.Streams) {
		n = len(sc.Streams) - 1
	}
	return sc.Streams[n]
}

func (sc *hpScenario) connectScript(n int) hpConnectScript {
	if len(sc.Connects) == 0 {
		return hpConnectScript{Kind: "ok"}
	}
	if n >= len(sc.Connects) {
		// the last script repeats, without its side effect (an inbound relayed conn per failed dial would
		// make the notifiee start run after run)
		c := sc.Connects[len(sc.Connects)-1]
		c.Kind = strings.SplitN(c.Kind, "+", 2)[0]
		return c
	}
	return sc.Connects[n]
}

type hpRng interface {
	IntN(int) int
	Uint32() uint32
}

func hpPick[T any](rng hpRng, xs ...T) T { return xs[rng.IntN(len(xs))] }

func hpGarbage(rng hpRng) string {
	switch rng.IntN(4) {
	case 0:
		return "hex:"
	case 1: // a truncated ip4/tcp address
		return "hex:04050505"
	case 2: // unknown protocol code
		return "hex:ffff7f0102"
	}
	b := make([]byte, 1+rng.IntN(12))
	for i := range b {
		b[i] = byte(rng.Uint32())
	}
	return "hex:" + hex.EncodeToString(b)
}

// hpAddrList builds the ObsAddrs of a CONNECT message for a variant.
func hpAddrList(rng hpRng, variant string) []string {
	rel := hpRelayAddrs()
	relay := func() string { return rel[rng.IntN(len(rel))] }
	shuffle := func(l []string) []string {
		for i := len(l) - 1; i > 0; i-- {
			j := rng.IntN(i + 1)
			l[i], l[j] = l[j], l[i]
		}
		return l
	}
	switch variant {
	case "direct":
		l := []string{hpReach}
		if rng.IntN(2) == 0 {
			l = append(l, hpReachQ)
		}
		if rng.IntN(3) == 0 {
			l = append(l, hpPriv)
		}
		return shuffle(l)
	case "mixed": // relay and direct addresses in every order, runs of relay addresses included
		l := []string{hpReach}
		for k := 1 + rng.IntN(4); k > 0; k-- {
			l = append(l, relay())
		}
		if rng.IntN(2) == 0 {
			l = append(l, hpOtherPub)
		}
		return shuffle(l)
	case "relay-only":
		var l []string
		for k := 1 + rng.IntN(3); k > 0; k-- {
			l = append(l, relay())
		}
		return l
	case "private":
		return shuffle([]string{hpPriv, hpLoop}[:1+rng.IntN(2)])
	case "private+relay":
		return shuffle([]string{hpPriv, relay(), relay()})
	case "unreachable":
		return []string{hpOtherPub}
	case "empty":
		return nil
	case "garbage":
		return []string{hpGarbage(rng), hpGarbage(rng)}
	case "garbage+direct":
		return shuffle([]string{hpGarbage(rng), hpReach, hpGarbage(rng)})
	case "garbage+relay":
		return shuffle([]string{hpGarbage(rng), relay()})
	case "foreign-p2p":
		return shuffle([]string{hpReach + "/p2p/" + hpBystander.String(), relay()})
	case "many":
		var l []string
		for k := 0; k < 30; k++ {
			switch rng.IntN(4) {
			case 0:
				l = append(l, relay())
			case 1:
				l = append(l, fmt.Sprintf("/ip4/6.6.%d.%d/tcp/%d", rng.IntN(200), rng.IntN(200), 1000+k))
			case 2:
				l = append(l, hpGarbage(rng))
			default:
				l = append(l, hpReach)
			}
		}
		return l
	}
	panic("variant " + variant)
}

func hpAddrVariant(rng hpRng) string {
	if rng.IntN(10) < 4 {
		return "direct"
	}
	if rng.IntN(10) < 4 {
		return "mixed"
	}
	return hpPick(rng, "relay-only", "relay-only", "private", "private+relay", "unreachable", "empty", "garbage", "garbage+direct", "garbage+relay", "foreign-p2p", "many")
}

func hpGen(r *run.R, i int) *hpScenario {
	rng := r.Rand(1212, uint64(i))
	sc := &hpScenario{ID: fmt.Sprintf("hp/%d", i)}
	switch x := rng.IntN(20); {
	case x < 10:
		sc.Shape = "initiator"
	case x < 12:
		sc.Shape = "initiator-notified"
	case x < 18:
		sc.Shape = "responder"
	default:
		sc.Shape = "both"
	}
	switch rng.IntN(12) {
	case 0:
	case 1, 2, 3, 4, 5:
		sc.Init = []string{"limited-in"}
	case 6:
		sc.Init = []string{"limited-out"}
	case 7:
		sc.Init = []string{"limited-in", "direct-" + hpPick(rng, "in", "out")}
	case 8:
		sc.Init = []string{"direct-" + hpPick(rng, "in", "out")}
	case 9:
		sc.Init = []string{"relayunl-" + hpPick(rng, "in", "out")}
	case 10:
		sc.Init = []string{"limited-in", "limited-out"}
	case 11:
		sc.Init = []string{"direct-out", "limited-in"}
	}
	sc.Bystander = rng.IntN(3) == 0
	rel := hpRelayAddrs()
	switch rng.IntN(8) {
	case 0, 1:
	case 2:
		sc.PS = []string{hpReach}
	case 3:
		sc.PS = []string{rel[0], hpReach}
	case 4:
		sc.PS = []string{rel[1]}
	case 5:
		sc.PS = []string{hpPriv, rel[0]}
	case 6:
		sc.PS = []string{hpOtherPub, rel[rng.IntN(len(rel))]}
	case 7:
		sc.PS = []string{hpPriv}
	}
	sc.Listen = hpPick(rng, "public", "public", "public", "public+relay", "public+relay", "late", "relay-only")
	if sc.Listen == "late" {
		sc.ListenDelayMs = hpPick(rng, 100, 400, 1500)
	}
	sc.DialTimeoutMs = hpPick(rng, 50, 1000, 10000)
	sc.Filter = rng.IntN(5) == 0
	sc.Tracer = hpPick(rng, "both", "both", "both", "both", "both", "both", "event", "metrics", "none")

	for k := 1 + rng.IntN(3); k > 0; k-- {
		s := hpStreamScript{DelayMs: hpPick(rng, 0, 2, 20, 200, 3000)}
		if rng.IntN(10) < 7 {
			s.Reply = "connect"
			s.Addrs = hpAddrVariant(rng)
			s.List = hpAddrList(rng, s.Addrs)
		} else {
			s.Reply = hpPick(rng, "sync-instead", "garbage-bytes", "oversize", "silent", "close", "close-before-read", "refuse")
		}
		sc.Streams = append(sc.Streams, s)
	}
	for k := 1 + rng.IntN(4); k > 0; k-- {
		c := hpConnectScript{DelayMs: hpPick(rng, 0, 1, 20, 300, 2000)}
		switch x := rng.IntN(20); {
		case x < 7:
			c.Kind = "ok"
		case x < 10:
			c.Kind, c.CloseAfterMs = "ok-then-close", hpPick(rng, 1, 7, 100, 4000)
		case x < 13:
			c.Kind = "fail"
		case x < 15:
			c.Kind = "hang"
		case x < 16:
			c.Kind = "fail+direct-in"
		case x < 18:
			c.Kind = "hang+direct-in"
		default:
			c.Kind = "fail+limited-in"
		}
		sc.Connects = append(sc.Connects, c)
	}
	inbound := func() *hpInbound {
		in := &hpInbound{SyncDelayMs: hpPick(rng, 0, 2, 40, 1000)}
		in.Conn = hpPick(rng, "limited-out", "limited-out", "limited-out", "limited-out", "limited-out", "direct-out", "direct-out", "direct-out", "relayunl-out", "limited-in", "direct-in")
		if rng.IntN(10) < 8 {
			in.First = "connect"
			in.Addrs = hpAddrVariant(rng)
			in.List = hpAddrList(rng, in.Addrs)
		} else {
			in.First = hpPick(rng, "sync", "garbage-bytes", "oversize", "silent", "close")
		}
		if rng.IntN(10) < 8 {
			in.Second = "sync"
		} else {
			in.Second = hpPick(rng, "connect", "silent", "close", "garbage-bytes")
		}
		return in
	}
	t0 := 0
	if sc.Listen == "late" {
		t0 = sc.ListenDelayMs + hpPick(rng, -50, 0, 2000)
	}
	switch sc.Shape {
	case "initiator":
		sc.Actions = append(sc.Actions, hpAction{AtMs: t0, Kind: "direct-connect"})
		if rng.IntN(8) == 0 {
			sc.Actions = append(sc.Actions, hpAction{AtMs: t0 + hpPick(rng, 0, 1, 500), Kind: "direct-connect"})
		}
	case "initiator-notified":
		sc.Actions = append(sc.Actions, hpAction{AtMs: t0 + 2000, Kind: "open:limited-in"})
	case "responder":
		sc.Actions = append(sc.Actions, hpAction{AtMs: t0 + 1, Kind: "stream-in", In: inbound()})
		if rng.IntN(6) == 0 {
			sc.Actions = append(sc.Actions, hpAction{AtMs: t0 + hpPick(rng, 1, 30, 3000), Kind: "stream-in", In: inbound()})
		}
	case "both":
		sc.Actions = append(sc.Actions, hpAction{AtMs: t0, Kind: "direct-connect"},
			hpAction{AtMs: t0 + hpPick(rng, 0, 1, 25, 700), Kind: "stream-in", In: inbound()})
	}
	for k := rng.IntN(4) - 1; k > 0; k-- {
		sc.Actions = append(sc.Actions, hpAction{
			AtMs: t0 + hpPick(rng, 0, 1, 3, 25, 60, 500, 2500, 11000),
			Kind: hpPick(rng, "open:direct-in", "open:direct-in", "open:limited-in", "open:limited-out", "open:relayunl-in", "close-direct", "close-direct", "close-limited", "close-all"),
		})
	}
	return sc
}

// ---------------------------------------------------------------------------------------------
// scripted remote

func hpAddrBytes(s string) []byte {
	if h, ok := strings.CutPrefix(s, "hex:"); ok {
		b, err := hex.DecodeString(h)
		if err != nil {
			panic(err)
		}
		return b
	}
	return ma.StringCast(s).Bytes()
}

func hpRawFrame(b *memnet.Conn, declared int, payload []byte) {
	b.Write(append(varint.ToUvarint(uint64(declared)), payload...))
}

func (w *hpWorld) sendConnect(b *memnet.Conn, list []string) error {
	m := &pb.HolePunch{Type: pb.HolePunch_CONNECT.Enum()}
	e := hpEv{Kind: "wire", Note: "remote sends CONNECT"}
	for _, s := range list {
		m.ObsAddrs = append(m.ObsAddrs, hpAddrBytes(s))
		e.Addrs = append(e.Addrs, s)
	}
	w.rec(e)
	return pbio.NewDelimitedWriter(b).WriteMsg(m)
}

func (w *hpWorld) readMsg(rd pbio.Reader, what string) bool {
	var m pb.HolePunch
	if err := rd.ReadMsg(&m); err != nil {
		w.rec(hpEv{Kind: "wire", Note: "remote reads " + what, Err: err.Error()})
		return false
	}
	e := hpEv{Kind: "wire", Note: "remote received " + m.GetType().String(), OK: true}
	for _, bz := range m.ObsAddrs {
		if a, err := ma.NewMultiaddrBytes(bz); err == nil {
			e.Addrs = append(e.Addrs, a.String())
		} else {
			e.Addrs = append(e.Addrs, "hex:"+hex.EncodeToString(bz))
		}
	}
	w.rec(e)
	return true
}

func (w *hpWorld) sendOdd(b *memnet.Conn, kind string) {
	w.rec(hpEv{Kind: "wire", Note: "remote sends " + kind})
	switch kind {
	case "sync", "sync-instead":
		pbio.NewDelimitedWriter(b).WriteMsg(&pb.HolePunch{Type: pb.HolePunch_SYNC.Enum()})
	case "garbage-bytes":
		hpRawFrame(b, 9, []byte{0xff, 0xfe, 0x00, 0x81, 0x82, 0x83, 0x84, 0x85, 0x86})
	case "oversize":
		hpRawFrame(b, 1<<20, make([]byte, 64))
	}
}

// the remote answers a coordination stream the service opened
func (w *hpWorld) remoteResponder(b *memnet.Conn, s hpStreamScript) {
	defer b.Close()
	if s.Reply == "close-before-read" {
		return
	}
	rd := pbio.NewDelimitedReader(b, 1<<16)
	if !w.readMsg(rd, "CONNECT") {
		return
	}
	time.Sleep(time.Duration(s.DelayMs) * time.Millisecond)
	switch s.Reply {
	case "connect":
		if w.sendConnect(b, s.List) != nil {
			return
		}
		w.readMsg(rd, "SYNC")
	case "close":
		return
	case "silent":
	default:
		w.sendOdd(b, s.Reply)
	}
	io.Copy(io.Discard, b) // until the service lets go of the stream
}

// the remote drives a coordination stream towards the service's handler
func (w *hpWorld) remoteInitiator(b *memnet.Conn, in *hpInbound) {
	defer b.Close()
	rd := pbio.NewDelimitedReader(b, 1<<16)
	switch in.First {
	case "connect":
		if w.sendConnect(b, in.List) != nil {
			return
		}
	case "close":
		return
	case "silent":
	default:
		w.sendOdd(b, in.First)
	}
	if !w.readMsg(rd, "CONNECT") {
		return
	}
	time.Sleep(time.Duration(in.SyncDelayMs) * time.Millisecond)
	switch in.Second {
	case "connect":
		w.sendConnect(b, in.List)
	case "close":
		return
	case "silent":
	default:
		w.sendOdd(b, in.Second)
	}
	io.Copy(io.Discard, b)
}

// ---------------------------------------------------------------------------------------------
// driver

type hpResult struct {
	Log    []hpEv
	Hist   []*hpConnRec
	Stuck  string
	bubble run.BubbleResult
}

func hpRun(t *testing.T, sc *hpScenario) (res hpResult) {
	res.bubble = run.Bubble(t, func(t *testing.T) {
		w := &hpWorld{sc: sc, start: time.Now(), ps: map[peer.ID][]ma.Multiaddr{}}
		h := newHpHost(w)
		for _, a := range sc.PS {
			w.ps[hpPartner] = append(w.ps[hpPartner], ma.StringCast(a))
		}
		w.initial = true
		for _, spec := range sc.Init {
			w.addConn(hpPartner, spec, nil)
		}
		if sc.Bystander {
			w.addConn(hpBystander, "direct-out", ma.StringCast("/ip4/8.8.4.4/tcp/4001"))
			w.addConn(hpBystander, "limited-in", nil)
			w.ps[hpBystander] = []ma.Multiaddr{ma.StringCast("/ip4/8.8.4.4/tcp/4001")}
		}
		w.initial = false
		self := hpRelayAddrs()[0]         // our own address behind the relay
		listen := func() []ma.Multiaddr { // a fresh slice each time: the service filters it in place
			pub := ma.StringCast("/ip4/7.7.7.7/tcp/4001")
			switch sc.Listen {
			case "public+relay":
				return []ma.Multiaddr{ma.StringCast(self), pub, ma.StringCast("/ip4/7.7.7.7/udp/4001/quic-v1"), ma.StringCast(self)}
			case "relay-only":
				return []ma.Multiaddr{ma.StringCast(self)}
			case "late":
				if time.Since(w.start) < time.Duration(sc.ListenDelayMs)*time.Millisecond {
					return nil
				}
			}
			return []ma.Multiaddr{pub}
		}
		opts := []holepunch.Option{holepunch.DirectDialTimeout(time.Duration(sc.DialTimeoutMs) * time.Millisecond)}
		switch sc.Tracer {
		case "both":
			opts = append(opts, holepunch.WithMetricsAndEventTracer(&hpMetrics{w}, &hpTracer{w}))
		case "event":
			opts = append(opts, holepunch.WithTracer(&hpTracer{w}))
		case "metrics":
			opts = append(opts, holepunch.WithMetricsTracer(&hpMetrics{w}))
		}
		if sc.Filter {
			opts = append(opts, holepunch.WithAddrFilter(hpFilter{}))
		}
		svc, err := holepunch.NewService(h, hpIDs{}, listen, opts...)
		if err != nil {
			panic(err)
		}
		var wg sync.WaitGroup
		for ai, a := range sc.Actions {
			ai, a := ai, a
			wg.Add(1)
			go func() {
				defer wg.Done()
				time.Sleep(time.Duration(a.AtMs) * time.Millisecond)
				switch {
				case a.Kind == "direct-connect":
					w.rec(hpEv{Kind: "directconnect", N: ai, Peer: "partner"})
					err := svc.DirectConnect(hpPartner)
					e := hpEv{Kind: "directconnect-ret", N: ai, Peer: "partner", OK: err == nil}
					if err != nil {
						e.Err = err.Error()
						if errors.Is(err, holepunch.ErrHolePunchActive) {
							e.Note = "active"
						}
					}
					w.rec(e)
				case a.Kind == "stream-in":
					c := w.findConn(hpPartner, a.In.Conn)
					if c == nil {
						c = w.addConn(hpPartner, a.In.Conn, nil)
					}
					w.mu.Lock()
					handler := w.handler
					w.mu.Unlock()
					if handler == nil {
						w.rec(hpEv{Kind: "handler", N: ai, Note: "no handler registered (no public address yet)"})
						return
					}
					sa, sb := w.newPipe()
					s := w.newStreamOn(c, sa, 1000+ai)
					w.remotes.Add(1)
					go func() {
						defer w.remotes.Done()
						w.remoteInitiator(sb, a.In)
					}()
					w.rec(hpEv{Kind: "handler", N: ai, Peer: "partner", Conn: c.id, ConnRelayed: c.relayed, ConnLimited: c.limited, Note: a.In.Conn, OK: true})
					handler(s)
					w.rec(hpEv{Kind: "handler-ret", N: ai, Conn: c.id, ConnRelayed: c.relayed, Note: fmt.Sprintf("wrote=%d reset=%v", s.wrote.Load(), s.wasReset.Load()), OK: s.wrote.Load() > 0})
				case strings.HasPrefix(a.Kind, "open:"):
					w.addConn(hpPartner, strings.TrimPrefix(a.Kind, "open:"), nil)
				case strings.HasPrefix(a.Kind, "close-"):
					w.closeKind(strings.TrimPrefix(a.Kind, "close-"))
				}
			}()
		}
		done := make(chan struct{})
		go func() { wg.Wait(); close(done) }()
		select {
		case <-done:
		case <-time.After(30 * time.Minute):
			res.Stuck = "an action (DirectConnect / stream handler) had not returned after 30 virtual minutes"
		}
		// the notifiee may have started a DirectConnect of its own: give it the time a full run can take
		time.Sleep(6 * time.Minute)
		svc.Close()
		w.mu.Lock()
		pipes := w.pipes
		w.mu.Unlock()
		for _, p := range pipes {
			p.Close()
		}
		<-done
		w.remotes.Wait()
		w.aux.Wait()
		w.mu.Lock()
		res.Log = w.log
		for _, c := range w.hist {
			cp := *c
			res.Hist = append(res.Hist, &cp)
		}
		w.mu.Unlock()
	})
	return
}

// ---------------------------------------------------------------------------------------------
// oracle

func hpCheck(sc *hpScenario, res *hpResult) (out []finding, st map[string]int) {
	st = map[string]int{}
	add := func(sig, msg string) { out = append(out, finding{"hp/" + sig, msg}) }
	ms := func(t int64) string { return fmt.Sprintf("%.3f ms", float64(t)/1e6) }

	// a direct connection to the partner: not relayed, not limited. A conn that opens or closes at the very
	// instant of an observation is concurrent with it and counts in the service's favour.
	directAt := func(t int64) bool {
		for _, c := range res.Hist {
			if c.peer == hpPartner && !c.Relayed && !c.Limited && c.Opened <= t && (c.Closed < 0 || c.Closed >= t) {
				return true
			}
		}
		return false
	}
	connByID := map[string]*hpConnRec{}
	for _, c := range res.Hist {
		connByID[c.ID] = c
	}
	// the peer's addresses: what the remote advertised in CONNECT messages and what the peerstore held
	peerAddrs := map[string]bool{}
	lists := [][]string{sc.PS}
	for _, s := range sc.Streams {
		lists = append(lists, s.List)
	}
	if len(sc.Streams) == 0 {
		lists = append(lists, sc.streamScript(0).List)
	}
	for _, a := range sc.Actions {
		if a.In != nil {
			lists = append(lists, a.In.List)
		}
	}
	for _, l := range lists {
		for _, s := range l {
			if a, err := ma.NewMultiaddrBytes(hpAddrBytes(s)); err == nil { // random bytes may happen to be an address
				peerAddrs[a.String()] = true
			}
		}
	}
	// DirectConnect runs, to tell "the short-cut missed an existing direct conn" from "a direct conn appeared
	// while the attempt was under way"
	type span struct{ from, to int64 }
	var runs []span
	open := map[int]int64{}
	for _, e := range res.Log {
		switch {
		case e.Kind == "directconnect":
			open[e.N] = e.T
		case e.Kind == "directconnect-ret":
			if e.Note != "active" {
				runs = append(runs, span{open[e.N], e.T})
			}
			delete(open, e.N)
		case e.Kind == "net" && e.Note == "open limited-in" || e.Kind == "net" && e.Note == "open relayunl-in":
			runs = append(runs, span{e.T, 1 << 62}) // the notifiee may start a run whose end is not observable
		}
	}
	for _, t := range open {
		runs = append(runs, span{t, 1 << 62})
	}
	handlers := map[uint64]hpEv{} // goroutine -> the handler invocation running on it
	pendingRelayFiltered, pendingRelayOnly := false, false
	successes := 0

	for _, e := range res.Log {
		switch e.Kind {
		case "wire":
			if e.Note == "remote sends CONNECT" {
				relay, other := 0, 0
				for _, s := range e.Addrs {
					a, err := ma.NewMultiaddrBytes(hpAddrBytes(s))
					if err != nil {
						continue
					}
					if hpIsRelay(a) {
						relay++
					} else {
						other++
					}
				}
				pendingRelayFiltered = relay > 0 && other > 0
				pendingRelayOnly = relay > 0 && other == 0
				if pendingRelayOnly {
					st["hp_connect_msgs_with_only_relay_addrs"]++
				}
				if relay > 0 {
					st["hp_connect_msgs_with_relay_addrs"]++
				}
			}
		case "newstream":
			st["hp_coordination_stream_calls"]++
			// "hole punching is coordinated only over a relayed connection": the coordination stream is opened so
			// that it may use the limited conn and must not dial (DESIGN.md: allow-limited + no-dial) ...
			if e.Peer != "partner" {
				add("coordination-stream-to-another-peer", "a DCUtR stream was opened to "+e.Peer)
			}
			if !e.AllowLimited {
				add("coordination-stream-ctx-lacks-allow-limited", "the coordination stream was opened without WithAllowLimitedConn")
			}
			if !e.NoDial {
				add("coordination-stream-ctx-lacks-no-dial", "the coordination stream was opened without WithNoDial")
			}
			if !e.OK {
				st["hp_coordination_stream_refused"]++
				break
			}
			st["hp_remote_"+strings.TrimPrefix(strings.SplitN(e.Note, "/", 2)[0], "remote: ")]++
			if e.ConnRelayed {
				st["hp_coordination_streams_over_relayed_conn"]++
				if !e.ConnLimited {
					st["hp_coordination_streams_over_unlimited_relay"]++
				}
				break
			}
			// ... and it runs over a relayed conn. The fake host picks the conn as the swarm does (a direct conn
			// beats a relayed one), so a stream on a direct conn means the service asked for coordination while
			// a direct conn to the peer was open.
			if e.ConnOpened >= e.T {
				st["hp_direct_conn_appeared_at_the_instant_of_the_stream"]++ // concurrent: not decided
				break
			}
			when := "direct-conn-appeared-during-the-attempt"
			certain := true
			covering := 0
			for _, r := range runs {
				if r.from <= e.T && e.T <= r.to {
					covering++
					if e.ConnOpened >= r.from {
						certain = false
					}
				}
			}
			if covering > 0 && certain {
				when = "direct-conn-existed-before-DirectConnect"
			}
			add("initiator-coordinated-over-direct-conn/"+when, fmt.Sprintf("at %s the service opened a DCUtR stream although direct conn %s (open since %s) existed; the stream ran over that direct conn", ms(e.T), e.Conn, ms(e.ConnOpened)))
		case "handler":
			if e.OK {
				handlers[e.G] = e
				st["hp_inbound_streams_"+map[bool]string{true: "relayed", false: "direct"}[e.ConnRelayed]]++
			}
		case "handler-ret":
			h := handlers[e.G]
			delete(handlers, e.G)
			if !h.ConnRelayed {
				// responder: "coordinated only over a relayed connection" - a DCUtR stream that arrived over a
				// non-relayed conn must be refused, i.e. not answered
				if e.OK {
					add("responder-answered-on-non-relayed-conn", fmt.Sprintf("the handler wrote a reply (%s) on a DCUtR stream that arrived over direct conn %s", e.Note, e.Conn))
				} else {
					st["hp_responder_refused_stream_over_direct_conn"]++
				}
			}
		case "connect":
			if e.Internal {
				break
			}
			st["hp_connect_calls"]++
			if len(e.Addrs) > 0 {
				st["hp_connect_calls_with_addrs"]++
				if pendingRelayFiltered {
					st["hp_relay_addrs_filtered_before_connect"]++
				}
				if e.SimConnect == "" {
					st["hp_holepunch_connect_without_simconnect"]++
				}
			}
			pendingRelayFiltered, pendingRelayOnly = false, false
			// (4) only the hole-punch partner is dialled
			if e.Peer != "partner" {
				add("connect-to-another-peer", "Connect was called for "+e.Peer)
			}
			// (2) "dials only the peer's non-relay addresses"
			for _, a := range e.Addrs {
				if hpIsRelay(ma.StringCast(a)) {
					add("relay-address-handed-to-connect", "Connect was given the relay address "+a)
				} else if !peerAddrs[a] {
					add("connect-address-not-the-peers", "Connect was given "+a+", which the peer neither advertised nor had in the peerstore")
				}
			}
			if !e.ForceDirect {
				add("connect-ctx-lacks-force-direct", "Connect was called without WithForceDirectDial")
			}
			for _, a := range e.DialSet {
				if hpIsRelay(ma.StringCast(a)) {
					add("relay-address-dialled", "this Connect makes the host dial the relay address "+a)
				}
			}
			if h, ok := handlers[e.G]; ok && !h.ConnRelayed {
				add("responder-hole-punched-for-stream-over-non-relayed-conn", fmt.Sprintf("the handler of a DCUtR stream that arrived over direct conn %s went on to Connect", h.Conn))
			}
			if _, ok := handlers[e.G]; ok {
				st["hp_responder_connects"]++
			}
		case "connect-ret":
			if e.OK && !e.Internal {
				st["hp_connect_ok"]++
			}
		case "directconnect-ret":
			if e.Note == "active" {
				st["hp_directconnect_refused_active"]++
			}
			if !e.OK {
				st["hp_directconnect_failed"]++
				break
			}
			// (3) "reports success only when a direct connection exists"
			successes++
			st["hp_directconnect_success"]++
			if !directAt(e.T) {
				add("DirectConnect-success-without-direct-conn", fmt.Sprintf("DirectConnect returned nil at %s while no direct conn to the peer was open", ms(e.T)))
			}
		case "trace":
			switch e.Note {
			case holepunch.DirectDialEvtT, holepunch.EndHolePunchEvtT:
				if !e.OK {
					break
				}
				successes++
				st["hp_trace_success_"+e.Note]++
				if e.Peer != "partner" {
					add("success-event-for-another-peer", e.Note+" success for "+e.Peer)
				}
				if !directAt(e.T) {
					add("success-event-without-direct-conn/"+e.Note, fmt.Sprintf("tracer event %s{Success:true} at %s while no direct conn to the peer was open", e.Note, ms(e.T)))
				}
			case holepunch.HolePunchAttemptEvtT:
				if e.N >= 2 {
					st["hp_retries"]++
				}
			case holepunch.ProtocolErrorEvtT:
				st["hp_protocol_errors"]++
				if pendingRelayOnly {
					st["hp_relay_only_connect_msg_refused"]++
					pendingRelayOnly = false
				}
			}
		case "metric":
			if !e.OK {
				break
			}
			successes++
			if e.Note == "DirectDialFinished" {
				st["hp_metric_direct_dial_success"]++
				if !directAt(e.T) {
					add("success-metric-without-direct-conn/DirectDialFinished", fmt.Sprintf("DirectDialFinished(true) at %s while no direct conn to the peer was open", ms(e.T)))
				}
				break
			}
			st["hp_metric_"+e.Note+"_success"]++
			c := connByID[e.Conn]
			switch {
			case c == nil:
				add("success-metric-with-unknown-conn", e.Note+" reported "+e.Conn)
			case c.peer != hpPartner:
				add("success-metric-with-conn-to-another-peer", e.Note+" reported a conn to "+c.Peer)
			case c.Relayed || c.Limited:
				add("success-metric-with-relayed-conn/"+strings.SplitN(e.Note, "/", 2)[0], fmt.Sprintf("%s reported conn %s (relayed=%v limited=%v) as the direct connection", e.Note, c.ID, c.Relayed, c.Limited))
			case !(c.Opened <= e.T && (c.Closed < 0 || c.Closed >= e.T)):
				add("success-metric-with-closed-conn", fmt.Sprintf("%s at %s reported conn %s, closed at %s", e.Note, ms(e.T), c.ID, ms(c.Closed)))
			}
		}
	}
	st["hp_success_reports_checked"] = successes
	return
}

// ---------------------------------------------------------------------------------------------

func holepunchPart(t *testing.T, r *run.R) {
	r.Assume("hole-punching part: the host under the real holepunch.Service is a fake that reproduces BasicHost.Connect/NewStream + swarm conn selection for the context options (force-direct, allow-limited, no-dial); a direct conn = remote address without /p2p-circuit and Stat().Limited false",
		"hole-punching part: a conn that opens or closes at the same virtual instant as an observation is treated as concurrent with it (never a violation)")
	r.Extra("holepunch_part_rule", "scenario hp/N = (shape: DirectConnect call / inbound relayed conn announced to the notifiee / inbound DCUtR stream / both; initial conns to the partner: none, limited, unlimited relay, direct, combinations, inbound or outbound; peerstore addresses; own listen addresses incl. relay ones or late; direct-dial timeout; addr filter; tracers; per coordination stream the remote's script: CONNECT with direct / mixed / relay-only / private / empty / garbage / foreign-/p2p / 30 addresses, or SYNC instead, garbage frame, oversize frame, silence, close, refusal, with reply delay; per Connect the dial outcome: ok, ok then close, fail, hang, fail or hang while an inbound direct conn lands, fail while another limited conn lands; 0-2 timed conn events); non-trivial: the service opened a coordination stream, handled an inbound one, or called Connect")
	n := r.Pick(4000, 100000)
	if os.Getenv("VERIF_RACE") == "1" {
		n = r.Pick(2000, 20000)
	}
	var sampleMu sync.Mutex
	sampled := map[string]bool{}
	run.Parallel(n, 0, func(i int) {
		sc := hpGen(r, i)
		if !r.Want(sc.ID) || r.TooMany() {
			return
		}
		res := hpRun(t, sc)
		r.Eval(1)
		detail := map[string]any{"scenario": sc, "log": res.Log, "conns": res.Hist}
		if r.BubbleFailed(res.bubble, "hp/scenario", sc.ID, "the hole-punch scenario never wound down (all goroutines blocked)", detail) {
			return
		}
		if res.Stuck != "" {
			r.Inconclusive(sc.ID, res.Stuck)
			return
		}
		fs, st := hpCheck(sc, &res)
		seen := map[string]bool{}
		for _, f := range fs {
			if !seen[f.sig] {
				seen[f.sig] = true
				r.Violation(f.sig, sc.ID, f.msg, detail)
			}
		}
		for k, v := range st {
			r.Count(k, v)
		}
		r.Count("hp_scenarios_"+sc.Shape, 1)
		if st["hp_coordination_stream_calls"]+st["hp_inbound_streams_relayed"]+st["hp_inbound_streams_direct"]+st["hp_connect_calls"] > 0 {
			r.Nontrivial(sc.ID)
		}
		// samples: one full initiator run and one full responder run that ended with a checked success report
		small := len(sc.Actions) == 1 && len(res.Log) < 40 && st["hp_success_reports_checked"] > 0
		want := small && (sc.Shape == "initiator" && st["hp_trace_success_EndHolePunch"] > 0 && st["hp_connect_msgs_with_relay_addrs"] > 0 ||
			sc.Shape == "responder" && st["hp_responder_connects"] > 0 && st["hp_connect_msgs_with_relay_addrs"] > 0)
		if want {
			sampleMu.Lock()
			want = !sampled[sc.Shape]
			sampled[sc.Shape] = true
			sampleMu.Unlock()
		}
		if want {
			r.Sample(map[string]any{"scenario": sc, "log": res.Log})
		}
	})
	// vacuity guards: the honest paths do report success, the hostile ones were exercised
	q := func(quick, thorough int) int {
		if os.Getenv("VERIF_RACE") == "1" {
			return 1
		}
		return r.Pick(quick, thorough)
	}
	r.Require("hp_directconnect_success", q(300, 3000))
	r.Require("hp_trace_success_EndHolePunch", q(200, 2000))
	r.Require("hp_trace_success_DirectDial", q(20, 200))
	r.Require("hp_metric_HolePunchFinished/initiator_success", q(100, 1000))
	r.Require("hp_metric_HolePunchFinished/receiver_success", q(100, 1000))
	r.Require("hp_coordination_streams_over_relayed_conn", q(1000, 10000))
	r.Require("hp_responder_refused_stream_over_direct_conn", q(100, 1000))
	r.Require("hp_relay_addrs_filtered_before_connect", q(100, 1000))
	r.Require("hp_relay_only_connect_msg_refused", q(30, 300))
	r.Require("hp_retries", q(100, 1000))
	r.Require("hp_responder_connects", q(200, 2000))
	for _, k := range []string{"sync-instead", "garbage-bytes", "oversize", "silent", "close", "close-before-read"} {
		r.Require("hp_remote_"+k, q(10, 100))
	}
}
