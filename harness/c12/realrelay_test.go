package c12

import (
	"context"
	"fmt"
	"os"
	"time"

	"github.com/libp2p/go-libp2p"
	"github.com/libp2p/go-libp2p/core/network"
	"github.com/libp2p/go-libp2p/core/peer"
	"github.com/libp2p/go-libp2p/core/peerstore"
	"github.com/libp2p/go-libp2p/p2p/protocol/circuitv2/client"
	"github.com/libp2p/go-libp2p/p2p/protocol/circuitv2/relay"
	ma "github.com/multiformats/go-multiaddr"

	"verif/harness/rig/run"
)

// realRelayLimits: three real hosts on loopback and a real circuit-v2 relay whose limit takes EDGE values -
// sub-second durations (the wire format carries whole seconds: 0), the smallest whole second with a small
// data cap - next to the ordinary limit and to a relay run without limits (control). (A limit with a zero
// duration or a zero data cap lets no handshake through: such relays cannot carry a connection at all.)
// Ground truth is the relay's configuration: a relay that was given a Limit restricts the connection, so on
// both ends the connection is Limited, the peer is reported as Limited rather than Connected, and a stream
// is not opened over it for a caller that did not allow limited connections.
func realRelayLimits(r *run.R) {
	if os.Getenv("VERIF_RACE") == "1" {
		return
	}
	type lim struct {
		name    string
		l       *relay.RelayLimit
		limited bool
	}
	for _, lc := range []lim{
		{"ordinary-2min-128KiB", &relay.RelayLimit{Duration: 2 * time.Minute, Data: 1 << 17}, true},
		{"sub-second-duration-128KiB", &relay.RelayLimit{Duration: 900 * time.Millisecond, Data: 1 << 17}, true},
		{"half-second-duration-1MiB", &relay.RelayLimit{Duration: 500 * time.Millisecond, Data: 1 << 20}, true},
		{"one-second-16KiB", &relay.RelayLimit{Duration: time.Second, Data: 1 << 14}, true},
		{"no-limit(control)", nil, false},
	} {
		caseID := "real-relay/limit=" + lc.name
		if !r.Want(caseID) || r.TooMany() {
			continue
		}
		r.Eval(1)
		err := func() error {
			h1, err := libp2p.New(libp2p.NoListenAddrs, libp2p.EnableRelay())
			if err != nil {
				return err
			}
			defer h1.Close()
			h2, err := libp2p.New(libp2p.NoListenAddrs, libp2p.EnableRelay())
			if err != nil {
				return err
			}
			defer h2.Close()
			rh, err := libp2p.New(libp2p.ListenAddrStrings("/ip4/127.0.0.1/tcp/0"), libp2p.DisableRelay())
			if err != nil {
				return err
			}
			defer rh.Close()
			opts := []relay.Option{relay.WithLimit(lc.l)}
			if lc.l == nil {
				opts = []relay.Option{relay.WithInfiniteLimits()}
			}
			rl, err := relay.New(rh, opts...)
			if err != nil {
				return err
			}
			defer rl.Close()
			ctx, cancel := context.WithTimeout(context.Background(), 20*time.Second)
			defer cancel()
			ri := peer.AddrInfo{ID: rh.ID(), Addrs: rh.Addrs()}
			if err := h1.Connect(ctx, ri); err != nil {
				return err
			}
			if err := h2.Connect(ctx, ri); err != nil {
				return err
			}
			if _, err := client.Reserve(ctx, h2, ri); err != nil {
				return err
			}
			h1.Peerstore().AddAddr(h2.ID(), ma.StringCast("/p2p/"+rh.ID().String()+"/p2p-circuit/p2p/"+h2.ID().String()), peerstore.TempAddrTTL)
			conn, err := h1.Network().DialPeer(network.WithAllowLimitedConn(ctx, "verif"), h2.ID())
			if err != nil {
				return fmt.Errorf("dial through the relay: %w", err)
			}
			if _, err := conn.RemoteMultiaddr().ValueForProtocol(ma.P_CIRCUIT); err != nil {
				return fmt.Errorf("not a relayed connection: %s", conn.RemoteMultiaddr())
			}
			var back []network.Conn
			for i := 0; i < 200 && len(back) == 0; i++ {
				if back = h2.Network().ConnsToPeer(h1.ID()); len(back) == 0 {
					time.Sleep(10 * time.Millisecond)
				}
			}
			if len(back) == 0 {
				return fmt.Errorf("the listening side never registered the relayed connection")
			}
			r.Count("real_relay_connections_established", 1)
			detail := map[string]any{"relay_limit": lc.name, "dialer_conn_limited": conn.Stat().Limited, "listener_conn_limited": back[0].Stat().Limited,
				"dialer_connectedness": h1.Network().Connectedness(h2.ID()).String(), "listener_connectedness": h2.Network().Connectedness(h1.ID()).String()}
			want := network.Connected
			if lc.limited {
				want = network.Limited
				r.Count("real_relay_limited_connections_checked", 1)
			}
			if conn.Stat().Limited != lc.limited || back[0].Stat().Limited != lc.limited {
				r.Violation("real-relay:limited-flag-wrong/"+lc.name, caseID, fmt.Sprintf("relay limit %s: Stat().Limited is %v on the dialing side and %v on the listening side", lc.name, conn.Stat().Limited, back[0].Stat().Limited), detail)
				return nil
			}
			if h1.Network().Connectedness(h2.ID()) != want || h2.Network().Connectedness(h1.ID()) != want {
				r.Violation("real-relay:connectedness-wrong/"+lc.name, caseID, fmt.Sprintf("relay limit %s: the peers report %s / %s, want %s", lc.name, h1.Network().Connectedness(h2.ID()), h2.Network().Connectedness(h1.ID()), want), detail)
				return nil
			}
			if lc.limited {
				sctx, scancel := context.WithTimeout(context.Background(), 300*time.Millisecond)
				s, err := h1.Network().NewStream(sctx, h2.ID())
				scancel()
				if err == nil {
					_, cerr := s.Conn().RemoteMultiaddr().ValueForProtocol(ma.P_CIRCUIT)
					s.Reset()
					if cerr == nil {
						r.Violation("real-relay:stream-over-limited-conn-without-allow/"+lc.name, caseID, "a stream was opened over the relayed connection for a caller that had not allowed limited connections", detail)
						return nil
					}
				}
			}
			r.Nontrivial(caseID)
			return nil
		}()
		if err != nil {
			// real sockets: a case that could not be set up decides nothing (the Require below keeps the family honest)
			r.Count("real_relay_cases_not_set_up", 1)
			r.Extra("real_relay_last_setup_error", caseID+": "+err.Error())
		}
	}
	r.Require("real_relay_limited_connections_checked", 2)
}
