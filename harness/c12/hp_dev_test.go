package c12

import (
	"testing"

	"verif/harness/rig/run"
)

// TEMPORARY dev entry (removed before delivery)
func TestHPDev(t *testing.T) {
	r := run.New(t, "C12", "exploration")
	defer r.Finish()
	holepunchPart(t, r)
}
