package c12

import (
	"os"
	"testing"
	"time"

	"verif/harness/rig/run"
)

// TEMPORARY dev entry (removed before delivery)
func TestHPDev(t *testing.T) {
	r := run.New(t, "C12", "exploration")
	defer r.Finish()
	if os.Getenv("HP_WD") != "" {
		run.BubbleWatchdog = 8 * time.Second
		go func() {
			time.Sleep(6 * time.Second)
			os.WriteFile("/tmp/c12hp/stacks.txt", []byte(run.Stacks()), 0o644)
		}()
	}
	holepunchPart(t, r)
}
