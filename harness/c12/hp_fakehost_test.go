package c12

// Scriptable host.Host for the REAL holepunch.Service (hole-punching clause of C12). Only what the
// service uses is implemented; every other method of the embedded nil interfaces panics, which shows
// up as a crashed case (the harness notices when the code under test starts using more of the host).
//
// The fake behaves as BasicHost + swarm do for the context options that matter here:
//   - NewStream: without no-dial it first Connects; it then picks the best conn (unlimited before
//     limited, direct before relayed, newest) and refuses a Limited conn unless allow-limited is set;
//   - Connect: without force-direct it returns nil at once if ANY conn to the peer is open (this is what
//     BasicHost.Connect / swarm.dialPeer do: the relayed conn is "good enough"); with force-direct only a
//     direct conn short-cuts, relay addresses are dropped from the dial set, and the scripted dial
//     outcome decides whether a direct conn appears.
// Everything is logged with the virtual time and the goroutine that did it.

import (
	"context"
	"errors"
	"fmt"
	"runtime"
	"sort"
	"strings"
	"sync"
	"sync/atomic"
	"time"

	"github.com/libp2p/go-libp2p/core/host"
	"github.com/libp2p/go-libp2p/core/network"
	"github.com/libp2p/go-libp2p/core/peer"
	"github.com/libp2p/go-libp2p/core/peerstore"
	"github.com/libp2p/go-libp2p/core/protocol"
	"github.com/libp2p/go-libp2p/p2p/protocol/holepunch"
	ma "github.com/multiformats/go-multiaddr"
	mh "github.com/multiformats/go-multihash"

	"verif/harness/rig/memnet"
)

// deterministic peer ids (no keys needed: nothing here authenticates)
func hpPeer(label string) peer.ID {
	h, err := mh.Sum([]byte("c12hp/"+label), mh.SHA2_256, -1)
	if err != nil {
		panic(err)
	}
	return peer.ID(h)
}

var (
	hpLocal     = hpPeer("local")
	hpPartner   = hpPeer("partner")
	hpBystander = hpPeer("bystander")
	hpRelayID   = hpPeer("relay")
)

func hpPeerName(p peer.ID) string {
	switch p {
	case hpLocal:
		return "local"
	case hpPartner:
		return "partner"
	case hpBystander:
		return "bystander"
	case hpRelayID:
		return "relay"
	}
	return "other:" + p.String()
}

// hpGoid returns the id of the calling goroutine (used to attribute a Connect to the stream handler
// invocation that made it: the service connects synchronously from the handler's goroutine).
func hpGoid() uint64 {
	var buf [64]byte
	n := runtime.Stack(buf[:], false)
	var id uint64
	for _, c := range buf[len("goroutine "):n] {
		if c < '0' || c > '9' {
			break
		}
		id = id*10 + uint64(c-'0')
	}
	return id
}

func hpIsRelay(a ma.Multiaddr) bool {
	found := false
	ma.ForEach(a, func(c ma.Component) bool {
		if c.Protocol().Code == ma.P_CIRCUIT {
			found = true
		}
		return !found
	})
	return found
}

// ---------------------------------------------------------------------------------------------
// log

type hpEv struct {
	T    int64  `json:"t_ns"` // virtual time since the start of the case
	G    uint64 `json:"goroutine"`
	Kind string `json:"kind"` // newstream | connect | connect-ret | directconnect | directconnect-ret | handler | handler-ret | trace | metric | net | wire
	Peer string `json:"peer,omitempty"`

	AllowLimited bool     `json:"ctx_allow_limited,omitempty"`
	NoDial       bool     `json:"ctx_no_dial,omitempty"`
	ForceDirect  bool     `json:"ctx_force_direct,omitempty"`
	SimConnect   string   `json:"ctx_sim_connect,omitempty"` // "" | client | server
	DeadlineMs   int64    `json:"ctx_deadline_in_ms,omitempty"`
	Addrs        []string `json:"addrs,omitempty"`
	DialSet      []string `json:"dial_set,omitempty"` // what a real host would hand to the transports for this Connect
	N            int      `json:"n,omitempty"`        // index of the stream / connect / action
	Conn         string   `json:"conn,omitempty"`
	ConnRelayed  bool     `json:"conn_relayed,omitempty"`
	ConnLimited  bool     `json:"conn_limited,omitempty"`
	ConnOpened   int64    `json:"conn_opened_ns,omitempty"`
	OK           bool     `json:"ok,omitempty"`
	Err          string   `json:"err,omitempty"`
	Note         string   `json:"note,omitempty"`
	Internal     bool     `json:"by_fake_host,omitempty"` // Connect made by the fake host's own NewStream (no no-dial)
}

type hpConnRec struct {
	ID      string `json:"id"`
	Peer    string `json:"peer"`
	Relayed bool   `json:"relayed"`
	Limited bool   `json:"limited"`
	Dir     string `json:"dir"`
	Opened  int64  `json:"opened_ns"` // -1: open before the service was created
	Closed  int64  `json:"closed_ns"` // -1: still open at the end
	peer    peer.ID
}

// ---------------------------------------------------------------------------------------------
// world: network state + scripts + log

type hpWorld struct {
	sc      *hpScenario
	start   time.Time
	initial bool // while the initial conns are being set up

	mu        sync.Mutex
	conns     []*hpConn // open, oldest first (as swarm.ConnsToPeer)
	hist      []*hpConnRec
	notifiees []network.Notifiee
	ps        map[peer.ID][]ma.Multiaddr
	log       []hpEv
	nStreams  int
	nConnects int
	nConn     int
	handler   network.StreamHandler
	pipes     []*memnet.Conn

	remotes sync.WaitGroup // scripted remote goroutines
	aux     sync.WaitGroup // helper goroutines of the fake (delayed closes, inbound conns during a dial)
}

func (w *hpWorld) now() int64 { return int64(time.Since(w.start)) }

func (w *hpWorld) rec(e hpEv) {
	e.G = hpGoid()
	w.mu.Lock()
	if e.T == 0 {
		e.T = w.now()
	}
	w.log = append(w.log, e)
	w.mu.Unlock()
}

// addConn adds a conn and (like the swarm) tells the notifiees. spec: limited|relayunl|direct "-" in|out
func (w *hpWorld) addConn(p peer.ID, spec string, raddr ma.Multiaddr) *hpConn {
	kind, dir, _ := strings.Cut(spec, "-")
	c := &hpConn{w: w, local: hpLocal, remote: p, dir: network.DirOutbound}
	if dir == "in" {
		c.dir = network.DirInbound
	}
	w.mu.Lock()
	w.nConn++
	c.id = fmt.Sprintf("c%d", w.nConn)
	switch kind {
	case "limited", "relayunl":
		c.relayed, c.limited = true, kind == "limited"
		c.raddr = ma.StringCast(fmt.Sprintf("/ip4/9.9.9.9/tcp/4001/p2p/%s/p2p-circuit", hpRelayID))
		if w.nConn%2 == 0 { // both spellings of a relayed remote address occur in practice
			c.raddr = ma.StringCast(fmt.Sprintf("/ip4/9.9.9.9/tcp/4001/p2p/%s/p2p-circuit/p2p/%s", hpRelayID, p))
		}
	default:
		c.raddr = raddr
		if c.raddr == nil {
			c.raddr = ma.StringCast(fmt.Sprintf("/ip4/5.5.5.5/tcp/%d", 30000+w.nConn))
		}
	}
	c.laddr = ma.StringCast("/ip4/7.7.7.7/tcp/4001")
	c.rec = &hpConnRec{ID: c.id, Peer: hpPeerName(p), peer: p, Relayed: c.relayed, Limited: c.limited, Dir: dir, Opened: w.now(), Closed: -1}
	w.conns = append(w.conns, c)
	w.hist = append(w.hist, c.rec)
	nf := append([]network.Notifiee(nil), w.notifiees...)
	note := "open " + spec
	if w.initial { // conns that exist before the service does: older than anything the service observes
		c.rec.Opened, note = -1, "initially open "+spec
	}
	w.log = append(w.log, hpEv{T: w.now(), G: hpGoid(), Kind: "net", Note: note, Peer: hpPeerName(p), Conn: c.id, ConnRelayed: c.relayed, ConnLimited: c.limited})
	w.mu.Unlock()
	for _, f := range nf {
		f.Connected(c.w.net(), c)
	}
	return c
}

func (w *hpWorld) closeConn(c *hpConn) {
	w.mu.Lock()
	if c.rec.Closed >= 0 {
		w.mu.Unlock()
		return
	}
	c.rec.Closed = w.now()
	for i, x := range w.conns {
		if x == c {
			w.conns = append(w.conns[:i:i], w.conns[i+1:]...)
			break
		}
	}
	ss := c.streams
	c.streams = nil
	nf := append([]network.Notifiee(nil), w.notifiees...)
	w.log = append(w.log, hpEv{T: c.rec.Closed, G: hpGoid(), Kind: "net", Note: "close", Peer: hpPeerName(c.remote), Conn: c.id})
	w.mu.Unlock()
	for _, s := range ss {
		s.pipe.Close() // streams die with their conn
	}
	for _, f := range nf {
		f.Disconnected(w.net(), c)
	}
}

// closeKind closes the oldest open conn of the kind (direct | limited = any relayed | all) to the partner.
func (w *hpWorld) closeKind(kind string) {
	w.mu.Lock()
	var victims []*hpConn
	for _, c := range w.conns {
		if c.remote != hpPartner {
			continue
		}
		if kind == "all" || (kind == "direct") == !c.relayed {
			victims = append(victims, c)
			if kind != "all" {
				break
			}
		}
	}
	w.mu.Unlock()
	for _, c := range victims {
		w.closeConn(c)
	}
}

func (w *hpWorld) connsTo(p peer.ID) []*hpConn {
	w.mu.Lock()
	defer w.mu.Unlock()
	var out []*hpConn
	for _, c := range w.conns {
		if c.remote == p {
			out = append(out, c)
		}
	}
	return out
}

// bestConn: swarm.isBetterConn without the stream-count tie-break (unlimited > limited, direct > relayed, newest).
func (w *hpWorld) bestConn(p peer.ID) *hpConn {
	var best *hpConn
	for _, c := range w.connsTo(p) {
		if best == nil {
			best = c
			continue
		}
		switch {
		case c.limited != best.limited:
			if !c.limited {
				best = c
			}
		case c.relayed != best.relayed:
			if !c.relayed {
				best = c
			}
		default:
			best = c
		}
	}
	return best
}

func (w *hpWorld) directConn(p peer.ID) *hpConn {
	for _, c := range w.connsTo(p) {
		if !c.relayed {
			return c
		}
	}
	return nil
}

func (w *hpWorld) findConn(p peer.ID, spec string) *hpConn {
	kind, dir, _ := strings.Cut(spec, "-")
	for _, c := range w.connsTo(p) {
		k := "direct"
		if c.relayed {
			k = "relayunl"
			if c.limited {
				k = "limited"
			}
		}
		if k == kind && (dir == "in") == (c.dir == network.DirInbound) {
			return c
		}
	}
	return nil
}

func (w *hpWorld) net() *hpNet { return &hpNet{w: w} }

// newPipe: a is the service's end, b the scripted remote's.
func (w *hpWorld) newPipe() (a, b *memnet.Conn) {
	a, b = memnet.Pipe(nil, nil, 0)
	w.mu.Lock()
	w.pipes = append(w.pipes, a, b)
	w.mu.Unlock()
	return
}

// ---------------------------------------------------------------------------------------------
// conn / stream

type hpConn struct {
	network.Conn // nil: unimplemented methods panic
	w            *hpWorld
	id           string
	local        peer.ID
	remote       peer.ID
	raddr, laddr ma.Multiaddr
	relayed      bool
	limited      bool
	dir          network.Direction
	rec          *hpConnRec
	streams      []*hpStream // guarded by w.mu
}

func (c *hpConn) ID() string                    { return c.id }
func (c *hpConn) LocalPeer() peer.ID            { return c.local }
func (c *hpConn) RemotePeer() peer.ID           { return c.remote }
func (c *hpConn) RemoteMultiaddr() ma.Multiaddr { return c.raddr }
func (c *hpConn) LocalMultiaddr() ma.Multiaddr  { return c.laddr }
func (c *hpConn) Close() error                  { c.w.closeConn(c); return nil }
func (c *hpConn) IsClosed() bool {
	c.w.mu.Lock()
	defer c.w.mu.Unlock()
	return c.rec.Closed >= 0
}
func (c *hpConn) Stat() network.ConnStats {
	return network.ConnStats{Stats: network.Stats{Direction: c.dir, Limited: c.limited}}
}

type hpStream struct {
	network.Stream // nil
	pipe           *memnet.Conn
	conn           *hpConn
	id             string
	proto          protocol.ID
	wrote          atomic.Int64
	wasReset       atomic.Bool
}

func (s *hpStream) Read(p []byte) (int, error) { return s.pipe.Read(p) }
func (s *hpStream) Write(p []byte) (int, error) {
	n, err := s.pipe.Write(p)
	s.wrote.Add(int64(n))
	return n, err
}
func (s *hpStream) Close() error      { return s.pipe.CloseWrite() }
func (s *hpStream) CloseWrite() error { return s.pipe.CloseWrite() }
func (s *hpStream) CloseRead() error  { return s.pipe.CloseRead() }
func (s *hpStream) Reset() error      { s.wasReset.Store(true); return s.pipe.Close() }
func (s *hpStream) ResetWithError(network.StreamErrorCode) error {
	return s.Reset()
}
func (s *hpStream) SetDeadline(t time.Time) error      { return s.pipe.SetDeadline(t) }
func (s *hpStream) SetReadDeadline(t time.Time) error  { return s.pipe.SetReadDeadline(t) }
func (s *hpStream) SetWriteDeadline(t time.Time) error { return s.pipe.SetWriteDeadline(t) }
func (s *hpStream) ID() string                         { return s.id }
func (s *hpStream) Protocol() protocol.ID              { return s.proto }
func (s *hpStream) SetProtocol(p protocol.ID) error    { s.proto = p; return nil }
func (s *hpStream) Conn() network.Conn                 { return s.conn }
func (s *hpStream) Scope() network.StreamScope         { return &network.NullScope{} }
func (s *hpStream) Stat() network.Stats {
	return network.Stats{Direction: s.conn.dir, Limited: s.conn.limited}
}

func (w *hpWorld) newStreamOn(c *hpConn, pipe *memnet.Conn, n int) *hpStream {
	s := &hpStream{pipe: pipe, conn: c, id: fmt.Sprintf("%s-s%d", c.id, n), proto: holepunch.Protocol}
	w.mu.Lock()
	c.streams = append(c.streams, s)
	w.mu.Unlock()
	return s
}

// ---------------------------------------------------------------------------------------------
// network

type hpNet struct {
	network.Network // nil
	w               *hpWorld
}

func (n *hpNet) LocalPeer() peer.ID { return hpLocal }
func (n *hpNet) Notify(f network.Notifiee) {
	n.w.mu.Lock()
	n.w.notifiees = append(n.w.notifiees, f)
	n.w.mu.Unlock()
}
func (n *hpNet) StopNotify(f network.Notifiee) {
	n.w.mu.Lock()
	for i, x := range n.w.notifiees {
		if x == f {
			n.w.notifiees = append(n.w.notifiees[:i:i], n.w.notifiees[i+1:]...)
			break
		}
	}
	n.w.mu.Unlock()
}
func (n *hpNet) ConnsToPeer(p peer.ID) []network.Conn {
	var out []network.Conn
	for _, c := range n.w.connsTo(p) {
		out = append(out, c)
	}
	return out
}
func (n *hpNet) Connectedness(p peer.ID) network.Connectedness {
	st := network.NotConnected
	for _, c := range n.w.connsTo(p) {
		if !c.limited {
			return network.Connected
		}
		st = network.Limited
	}
	return st
}

// ---------------------------------------------------------------------------------------------
// peerstore (address book only)

type hpPS struct {
	peerstore.Peerstore // nil
	w                   *hpWorld
}

func (p *hpPS) Addrs(id peer.ID) []ma.Multiaddr {
	p.w.mu.Lock()
	defer p.w.mu.Unlock()
	return append([]ma.Multiaddr(nil), p.w.ps[id]...)
}

func (p *hpPS) AddAddrs(id peer.ID, addrs []ma.Multiaddr, _ time.Duration) {
	p.w.mu.Lock()
	defer p.w.mu.Unlock()
	for _, a := range addrs {
		dup := false
		for _, b := range p.w.ps[id] {
			if a.Equal(b) {
				dup = true
			}
		}
		if !dup {
			p.w.ps[id] = append(p.w.ps[id], a)
		}
	}
}

// ---------------------------------------------------------------------------------------------
// identify stub: every conn counts as identified at once

type hpIDs struct{}

func (hpIDs) IdentifyConn(network.Conn) {}
func (hpIDs) IdentifyWait(network.Conn) <-chan struct{} {
	ch := make(chan struct{})
	close(ch)
	return ch
}
func (hpIDs) Start()       {}
func (hpIDs) Close() error { return nil }

// ---------------------------------------------------------------------------------------------
// host

type hpHost struct {
	host.Host // nil
	w         *hpWorld
	n         *hpNet
	ps        *hpPS
}

func newHpHost(w *hpWorld) *hpHost {
	return &hpHost{w: w, n: w.net(), ps: &hpPS{w: w}}
}

func (h *hpHost) ID() peer.ID                    { return hpLocal }
func (h *hpHost) Network() network.Network       { return h.n }
func (h *hpHost) Peerstore() peerstore.Peerstore { return h.ps }
func (h *hpHost) Addrs() []ma.Multiaddr {
	return []ma.Multiaddr{ma.StringCast("/ip4/7.7.7.7/tcp/4001")}
}
func (h *hpHost) SetStreamHandler(pid protocol.ID, f network.StreamHandler) {
	if pid != holepunch.Protocol {
		panic("unexpected protocol " + pid)
	}
	h.w.mu.Lock()
	h.w.handler = f
	h.w.mu.Unlock()
}
func (h *hpHost) RemoveStreamHandler(protocol.ID) {
	h.w.mu.Lock()
	h.w.handler = nil
	h.w.mu.Unlock()
}

func hpCtxEv(ctx context.Context, e *hpEv) {
	e.AllowLimited, _ = network.GetAllowLimitedConn(ctx)
	e.NoDial, _ = network.GetNoDial(ctx)
	e.ForceDirect, _ = network.GetForceDirectDial(ctx)
	if sc, client, _ := network.GetSimultaneousConnect(ctx); sc {
		e.SimConnect = "server"
		if client {
			e.SimConnect = "client"
		}
	}
	if dl, ok := ctx.Deadline(); ok {
		e.DeadlineMs = time.Until(dl).Milliseconds()
	}
}

var errHpProtoNotSupported = errors.New("protocols not supported: [/libp2p/dcutr]")

func (h *hpHost) NewStream(ctx context.Context, p peer.ID, pids ...protocol.ID) (network.Stream, error) {
	w := h.w
	w.mu.Lock()
	n := w.nStreams
	w.nStreams++
	w.mu.Unlock()
	e := hpEv{Kind: "newstream", Peer: hpPeerName(p), N: n}
	hpCtxEv(ctx, &e)
	for _, pid := range pids {
		e.Addrs = append(e.Addrs, string(pid))
	}
	fail := func(err error) (network.Stream, error) {
		e.Err = err.Error()
		w.rec(e)
		return nil, err
	}
	if err := ctx.Err(); err != nil {
		return fail(err)
	}
	if !e.NoDial { // BasicHost.NewStream connects first unless told not to
		if err := h.connect(ctx, peer.AddrInfo{ID: p}, true); err != nil {
			return fail(err)
		}
	}
	e.T = w.now() // the instant at which the conn is chosen
	c := w.bestConn(p)
	if c == nil {
		return fail(network.ErrNoConn)
	}
	if c.limited && !e.AllowLimited {
		// the swarm would wait for a direct conn until the dial-peer timeout; the outcome is the same
		return fail(network.ErrLimitedConn)
	}
	e.Conn, e.ConnRelayed, e.ConnLimited, e.ConnOpened = c.id, c.relayed, c.limited, c.rec.Opened
	script := w.sc.streamScript(n)
	e.Note = "remote: " + script.Reply + "/" + script.Addrs
	if script.Reply == "refuse" {
		return fail(errHpProtoNotSupported)
	}
	a, b := w.newPipe()
	s := w.newStreamOn(c, a, n)
	w.remotes.Add(1)
	go func() {
		defer w.remotes.Done()
		w.remoteResponder(b, script)
	}()
	e.OK = true
	w.rec(e)
	return s, nil
}

func (h *hpHost) Connect(ctx context.Context, pi peer.AddrInfo) error {
	return h.connect(ctx, pi, false)
}

func hpSleepCtx(ctx context.Context, d time.Duration) error {
	if d <= 0 {
		return ctx.Err()
	}
	t := time.NewTimer(d)
	defer t.Stop()
	select {
	case <-t.C:
		return ctx.Err()
	case <-ctx.Done():
		return ctx.Err()
	}
}

func (h *hpHost) connect(ctx context.Context, pi peer.AddrInfo, internal bool) error {
	w := h.w
	w.mu.Lock()
	n := w.nConnects
	w.nConnects++
	w.mu.Unlock()
	e := hpEv{Kind: "connect", Peer: hpPeerName(pi.ID), N: n, T: w.now(), Internal: internal}
	hpCtxEv(ctx, &e)
	for _, a := range pi.Addrs {
		e.Addrs = append(e.Addrs, a.String())
	}
	// BasicHost.Connect: absorb the addresses, then dial what the peerstore has; the swarm drops relay
	// addresses from a force-direct dial
	h.ps.AddAddrs(pi.ID, pi.Addrs, peerstore.TempAddrTTL)
	reach := false
	for _, a := range h.ps.Addrs(pi.ID) {
		if e.ForceDirect && hpIsRelay(a) {
			continue
		}
		e.DialSet = append(e.DialSet, a.String())
		if a.String() == hpReach && pi.ID == hpPartner {
			reach = true
		}
	}
	sort.Strings(e.DialSet)
	script := w.sc.connectScript(n)
	e.Note = fmt.Sprintf("script: %s/%dms", script.Kind, script.DelayMs)
	w.rec(e)

	ret := func(err error) error {
		r := hpEv{Kind: "connect-ret", Peer: e.Peer, N: n, OK: err == nil, ForceDirect: e.ForceDirect, Internal: internal}
		if err != nil {
			r.Err = err.Error()
		}
		w.rec(r)
		return err
	}
	acceptable := func() bool {
		if e.ForceDirect {
			return w.directConn(pi.ID) != nil
		}
		return len(w.connsTo(pi.ID)) > 0
	}
	if err := ctx.Err(); err != nil {
		return ret(err)
	}
	if acceptable() {
		return ret(nil)
	}
	if len(e.DialSet) == 0 {
		return ret(errors.New("failed to dial: no good addresses"))
	}
	d := time.Duration(script.DelayMs) * time.Millisecond
	errDial := errors.New("failed to dial: all dials failed")
	inbound := func(spec string, after time.Duration) {
		w.aux.Add(1)
		go func() {
			defer w.aux.Done()
			time.Sleep(after)
			w.addConn(pi.ID, spec, nil)
		}()
	}
	switch script.Kind {
	case "ok", "ok-then-close":
		if err := hpSleepCtx(ctx, d); err != nil {
			return ret(err)
		}
		if !reach {
			if acceptable() {
				return ret(nil)
			}
			return ret(errDial)
		}
		c := w.addConn(pi.ID, "direct-out", ma.StringCast(hpReach))
		if script.Kind == "ok-then-close" {
			w.aux.Add(1)
			go func() {
				defer w.aux.Done()
				time.Sleep(time.Duration(script.CloseAfterMs) * time.Millisecond)
				w.closeConn(c)
			}()
		}
		return ret(nil)
	case "hang", "hang+direct-in":
		if script.Kind == "hang+direct-in" {
			inbound("direct-in", d)
		}
		<-ctx.Done()
		return ret(ctx.Err())
	default: // fail, fail+direct-in, fail+limited-in
		if script.Kind == "fail+direct-in" {
			inbound("direct-in", d/2)
		}
		if script.Kind == "fail+limited-in" {
			inbound("limited-in", d/2)
		}
		if err := hpSleepCtx(ctx, d); err != nil {
			return ret(err)
		}
		// dial worker: "a last check in case an acceptable connection has landed"
		if acceptable() {
			return ret(nil)
		}
		return ret(errDial)
	}
}

// ---------------------------------------------------------------------------------------------
// tracers

type hpTracer struct{ w *hpWorld }

func (t *hpTracer) Trace(evt *holepunch.Event) {
	e := hpEv{Kind: "trace", Peer: hpPeerName(evt.Remote), Note: evt.Type}
	switch x := evt.Evt.(type) {
	case *holepunch.DirectDialEvt:
		e.OK, e.Err = x.Success, x.Error
	case *holepunch.EndHolePunchEvt:
		e.OK, e.Err = x.Success, x.Error
	case *holepunch.ProtocolErrorEvt:
		e.Err = x.Error
	case *holepunch.StartHolePunchEvt:
		e.Addrs = x.RemoteAddrs
	case *holepunch.HolePunchAttemptEvt:
		e.N = x.Attempt
	}
	t.w.rec(e)
}

type hpMetrics struct{ w *hpWorld }

func (m *hpMetrics) DirectDialFinished(success bool) {
	m.w.rec(hpEv{Kind: "metric", Note: "DirectDialFinished", OK: success, Peer: "partner"})
}

func (m *hpMetrics) HolePunchFinished(side string, attempt int, theirAddrs []ma.Multiaddr, _ []ma.Multiaddr, directConn network.ConnMultiaddrs) {
	e := hpEv{Kind: "metric", Note: "HolePunchFinished/" + side, N: attempt}
	for _, a := range theirAddrs {
		e.Addrs = append(e.Addrs, a.String())
	}
	if directConn != nil {
		e.OK = true
		if c, ok := directConn.(*hpConn); ok && c != nil {
			e.Conn, e.ConnRelayed, e.ConnLimited, e.Peer = c.id, c.relayed, c.limited, hpPeerName(c.remote)
		} else {
			e.Conn = fmt.Sprintf("unknown conn %T", directConn)
		}
	}
	m.w.rec(e)
}

type hpFilter struct{}

func (hpFilter) FilterLocal(_ peer.ID, as []ma.Multiaddr) []ma.Multiaddr {
	return append([]ma.Multiaddr(nil), as...)
}

// FilterRemote keeps a subset (drops UDP based addresses).
func (hpFilter) FilterRemote(_ peer.ID, as []ma.Multiaddr) []ma.Multiaddr {
	var out []ma.Multiaddr
	for _, a := range as {
		if _, err := a.ValueForProtocol(ma.P_UDP); err != nil {
			out = append(out, a)
		}
	}
	return out
}
