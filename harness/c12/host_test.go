package c12

import (
	"context"
	"fmt"
	"testing"
	"testing/synctest"
	"time"

	"github.com/libp2p/go-libp2p/core/network"
	"github.com/libp2p/go-libp2p/core/peer"
	"github.com/libp2p/go-libp2p/core/peerstore"
	bhost "github.com/libp2p/go-libp2p/p2p/host/basic"
	ma "github.com/multiformats/go-multiaddr"

	"verif/harness/rig/run"
	"verif/harness/rig/scripttpt"
	"verif/harness/rig/swarmrig"
)

// BasicHost.Connect on top of the real swarm (scripted transports): "a dial that demands a direct
// connection never returns a relayed one". The relayed connection that exists beforehand is either a
// limited one (ordinary relay) or an UNLIMITED one (a relay run with infinite limits: the conn goes
// through the proxy transport but does not report Limited, so the swarm says Connected). Host.Connect
// with force-direct may return nil only if a connection over a non-proxy transport is open at that moment.

type hostCase struct {
	ID        string `json:"id"`
	Existing  string `json:"existing_conn"` // none | relayed-limited | relayed-unlimited | direct
	Direct    string `json:"direct_dial_script"`
	KnowAddr  bool   `json:"direct_addr_in_peerstore"`
	PassAddr  bool   `json:"direct_addr_in_addrinfo"`
	Force     bool   `json:"force_direct"`
	AllowLim  bool   `json:"allow_limited"`
	TimeoutMs int    `json:"ctx_timeout_ms"`
}

type hostResult struct {
	SetupErr   string
	Err        string
	DirectOpen int
	ProxyOpen  int
	DirectDial int
	RelayDial  int
	Bubble     run.BubbleResult
}

func runHostCase(t *testing.T, c *hostCase) (res hostResult) {
	idx := slots.Get()
	defer slots.Put(idx)
	res.Bubble = run.Bubble(t, func(t *testing.T) {
		pool := swarmrig.Pool(64)
		remote, relayID := pool.ID[idx], pool.ID[41]
		rig, err := swarmrig.New(42+idx, func(tpt string, a ma.Multiaddr, p peer.ID, attempt int) scripttpt.Outcome {
			if tpt == "relay" {
				return scripttpt.Outcome{Kind: "ok"}
			}
			return scripttpt.Outcome{Kind: c.Direct, Delay: 5 * time.Millisecond}
		})
		if err != nil {
			res.SetupErr = err.Error()
			return
		}
		sw := rig.Swarm
		rig.Relay.Limited = c.Existing != "relayed-unlimited" // what the proxy transport's conns report
		h, err := bhost.NewHost(sw, &bhost.HostOpts{NegotiationTimeout: 5 * time.Second})
		if err != nil {
			sw.Close()
			rig.PS.Close()
			res.SetupErr = err.Error()
			return
		}
		h.Start() // identify's IdentifyWait blocks (ignoring the context) until the service was started
		defer func() {
			done := make(chan struct{})
			go func() { h.Close(); rig.PS.Close(); close(done) }()
			select {
			case <-done:
			case <-time.After(2 * time.Minute):
			}
		}()
		directAddr := ma.StringCast("/ip4/1.2.3.4/tcp/4001")
		relayAddr := ma.StringCast(fmt.Sprintf("/ip4/9.9.9.9/tcp/4001/p2p/%s/p2p-circuit", relayID))
		ctx0, cancel0 := context.WithTimeout(context.Background(), 20*time.Second)
		defer cancel0()
		switch c.Existing {
		case "relayed-limited", "relayed-unlimited":
			rig.PS.AddAddrs(remote, []ma.Multiaddr{relayAddr}, peerstore.TempAddrTTL)
			if _, err := sw.DialPeer(network.WithAllowLimitedConn(ctx0, "verif"), remote); err != nil {
				res.SetupErr = "relayed conn: " + err.Error()
				return
			}
			rig.PS.ClearAddrs(remote)
		case "direct":
			if ls := rig.TCP.Listeners(); len(ls) > 0 {
				ls[0].Inject(remote, ma.StringCast("/ip4/1.2.3.4/tcp/6001"))
			} else if err := sw.Listen(ma.StringCast("/ip4/7.7.7.7/tcp/4001")); err == nil {
				rig.TCP.Listeners()[0].Inject(remote, ma.StringCast("/ip4/1.2.3.4/tcp/6001"))
			}
		}
		synctest.Wait()
		before := len(rig.Log.Records())
		if c.KnowAddr {
			rig.PS.AddAddrs(remote, []ma.Multiaddr{directAddr}, peerstore.PermanentAddrTTL)
		}
		ai := peer.AddrInfo{ID: remote}
		if c.PassAddr {
			ai.Addrs = []ma.Multiaddr{directAddr}
		}
		ctx, cancel := context.WithTimeout(context.Background(), time.Duration(c.TimeoutMs)*time.Millisecond)
		defer cancel()
		if c.Force {
			ctx = network.WithForceDirectDial(ctx, "verif")
		}
		if c.AllowLim {
			ctx = network.WithAllowLimitedConn(ctx, "verif")
		}
		err = h.Connect(ctx, ai)
		if err != nil {
			res.Err = err.Error()
		}
		for _, cc := range sw.ConnsToPeer(remote) {
			if cc.IsClosed() {
				continue
			}
			if cc.ConnState().Transport == "relay" {
				res.ProxyOpen++
			} else {
				res.DirectOpen++
			}
		}
		for _, d := range rig.Log.Records()[before:] {
			if d.Transport == "relay" {
				res.RelayDial++
			} else {
				res.DirectDial++
			}
		}
	})
	return
}

func hostPart(t *testing.T, r *run.R) {
	var cases []*hostCase
	for _, ex := range []string{"none", "relayed-limited", "relayed-unlimited", "direct"} {
		for _, ds := range []string{"ok", "fail"} {
			for _, know := range []int{0, 1, 2} { // direct address: nowhere / in the peerstore / in the AddrInfo
				for _, force := range []bool{true, false} {
					for _, al := range []bool{false, true} {
						c := &hostCase{Existing: ex, Direct: ds, KnowAddr: know == 1, PassAddr: know == 2, Force: force, AllowLim: al, TimeoutMs: 3000}
						c.ID = fmt.Sprintf("host-connect/%s/direct-%s/addr%d/force=%v/allow-limited=%v", ex, ds, know, force, al)
						cases = append(cases, c)
					}
				}
			}
		}
	}
	run.Parallel(len(cases), 0, func(i int) {
		c := cases[i]
		if !r.Want(c.ID) || r.TooMany() {
			return
		}
		res := runHostCase(t, c)
		r.Eval(1)
		detail := map[string]any{"case": c, "result": res}
		if r.BubbleFailed(res.Bubble, "host-connect", c.ID, "the host never wound down", detail) {
			return
		}
		if res.SetupErr != "" {
			r.Inconclusive(c.ID, "setup: "+res.SetupErr)
			return
		}
		r.Nontrivial(c.ID)
		if c.Force {
			r.Count("host_connect_force_direct_calls", 1)
			if res.RelayDial > 0 {
				r.Violation("host-connect:relay-address-dialled-under-force-direct", c.ID, "Host.Connect with force-direct handed a relay address to the proxy transport", detail)
			}
			if res.Err == "" {
				if res.DirectOpen == 0 {
					// "a dial that demands a direct connection never returns a relayed one"
					r.Violation("host-connect:force-direct-succeeded-without-a-direct-conn/"+c.Existing, c.ID,
						fmt.Sprintf("Host.Connect with force-direct returned nil while the only open connections to the peer (%d) go through the proxy transport", res.ProxyOpen), detail)
				} else {
					r.Count("host_connect_force_direct_ok_with_direct_conn", 1)
				}
			} else {
				r.Count("host_connect_force_direct_refused", 1)
				if c.Existing == "relayed-unlimited" {
					r.Count("host_connect_force_direct_refused_over_unlimited_relay_conn", 1)
				}
			}
		} else if res.Err == "" {
			r.Count("host_connect_plain_ok", 1)
		}
	})
	r.Require("host_connect_force_direct_calls", 40)
	r.Require("host_connect_force_direct_refused_over_unlimited_relay_conn", 2)
	r.Require("host_connect_plain_ok", 4)
}
