package c02

import (
	"crypto/rand"
	"runtime"
	"testing"
	"time"

	"verif/harness/rig/run"
	"verif/harness/rig/sectest"
)

func TestDevLeak(t *testing.T) {
	r := run.New(t, "C02", "exploration")
	defer r.Finish()
	psk := make([]byte, 32)
	rand.Read(psk)
	s := &state{r: r, t: t, pool: sectest.NewPool(2), psk: psk}
	before := runtime.NumGoroutine()
	s.system()
	s.sampled()
	after := runtime.NumGoroutine()
	time.Sleep(2 * time.Second)
	after2 := runtime.NumGoroutine()
	t.Logf("LEAK goroutines before=%d after=%d after2s=%d", before, after, after2)
	if after2 > before+2 {
		buf := make([]byte, 1<<20)
		n := runtime.Stack(buf, true)
		t.Logf("%s", buf[:n])
	}
}
