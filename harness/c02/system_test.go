// C02 extension — system sweep over REAL loopback sockets (no synctest bubble anywhere in this file).
//
// Pairs of hosts built with libp2p.New listen on 127.0.0.1 port 0 over each transport stack the node can
// be configured with (TCP+Noise, TCP+TLS, TCP+PSK+Noise, WebSocket, secure WebSocket, QUIC, WebTransport,
// WebRTC-direct, and TCP / WebSocket behind the shared listener = tcpreuse + sampledconn). 1..8 streams
// are opened concurrently through BasicHost.NewStream (lazy and eager multistream); on each the opener
// writes prf(stream, position) bytes in random chunk sizes and half-closes, the handler verifies every
// byte positionally, sees EOF exactly at the length, and answers AFTER the half-close with a positional
// reply stream plus a digest of what it received. A second family drives tcpreuse.ConnMgr directly with a
// raw TCP client that dribbles the first bytes (the ones sampledconn peeks and must replay).
//
// Oracle: positional PRF equality + exact length + clean EOF + digest. Never wall-clock: the real-time
// deadlines below are watchdogs (=> r.Inconclusive). A delivery that ends in an error although nothing was
// closed, reset or tampered with is re-run once on fresh hosts; only if it fails again the same way is it
// reported (statement, first sentence: bytes written "reach the remote reader").
package c02

import (
	"bytes"
	"context"
	"crypto/ecdsa"
	"crypto/elliptic"
	crand "crypto/rand"
	"crypto/sha256"
	"crypto/tls"
	"crypto/x509"
	"crypto/x509/pkix"
	"encoding/binary"
	"errors"
	"fmt"
	"hash"
	"hash/fnv"
	"io"
	"math/big"
	"net"
	"os"
	"runtime"
	"strings"
	"sync"
	"sync/atomic"
	"time"

	"github.com/libp2p/go-libp2p"
	"github.com/libp2p/go-libp2p/core/host"
	"github.com/libp2p/go-libp2p/core/network"
	"github.com/libp2p/go-libp2p/core/peer"
	"github.com/libp2p/go-libp2p/core/protocol"
	"github.com/libp2p/go-libp2p/core/sec"
	rcmgr "github.com/libp2p/go-libp2p/p2p/host/resource-manager"
	"github.com/libp2p/go-libp2p/p2p/muxer/yamux"
	"github.com/libp2p/go-libp2p/p2p/net/upgrader"
	"github.com/libp2p/go-libp2p/p2p/security/noise"
	libp2ptls "github.com/libp2p/go-libp2p/p2p/security/tls"
	libp2pquic "github.com/libp2p/go-libp2p/p2p/transport/quic"
	"github.com/libp2p/go-libp2p/p2p/transport/tcp"
	"github.com/libp2p/go-libp2p/p2p/transport/tcpreuse"
	libp2pwebrtc "github.com/libp2p/go-libp2p/p2p/transport/webrtc"
	"github.com/libp2p/go-libp2p/p2p/transport/websocket"
	libp2pwebtransport "github.com/libp2p/go-libp2p/p2p/transport/webtransport"
	ma "github.com/multiformats/go-multiaddr"

	"verif/harness/rig/run"
	"verif/harness/rig/sectest"
)

const (
	sysCaseWatchdog = 60 * time.Second // real-time backstop per case; firing => inconclusive
	sysReplyStream  = 1000             // prf stream id offset of the reply direction
	sysTrailerLen   = 8 + sha256.Size  // reply trailer: bytes received (8) + sha256 of them
)

// sysCfg is one way of configuring a pair of nodes.
type sysCfg struct {
	Name    string
	Listen  []string
	Opts    func(s *state, dialer bool) []libp2p.Option
	After   func(h host.Host) error // after the listener host started (adds the second listener of the shared port)
	Via     string                  // the dialer is given only the listener's addresses containing (Via) / not containing (!Via) this
	Expect  string                  // substring the connection's remote multiaddr must contain (which transport really carried it)
	Dribble bool                    // the dialer's raw TCP conn splits the first bytes it writes into 1..4-byte writes
}

func sysSecMux(sec string) []libp2p.Option {
	o := []libp2p.Option{libp2p.Muxer(yamux.ID, yamux.DefaultTransport)}
	if sec == "tls" {
		return append(o, libp2p.Security(libp2ptls.ID, libp2ptls.New))
	}
	return append(o, libp2p.Security(noise.ID, noise.New))
}

func sysSelfSigned() *tls.Config {
	priv, err := ecdsa.GenerateKey(elliptic.P256(), crand.Reader)
	if err != nil {
		panic(err)
	}
	serial, _ := crand.Int(crand.Reader, new(big.Int).Lsh(big.NewInt(1), 120))
	tmpl := x509.Certificate{SerialNumber: serial, Subject: pkix.Name{Organization: []string{"verif"}},
		NotBefore: time.Now().Add(-time.Hour), NotAfter: time.Now().Add(365 * 24 * time.Hour),
		KeyUsage: x509.KeyUsageDigitalSignature, ExtKeyUsage: []x509.ExtKeyUsage{x509.ExtKeyUsageServerAuth},
		BasicConstraintsValid: true, DNSNames: []string{"localhost"}}
	der, err := x509.CreateCertificate(crand.Reader, &tmpl, &tmpl, &priv.PublicKey, priv)
	if err != nil {
		panic(err)
	}
	return &tls.Config{Certificates: []tls.Certificate{{Certificate: [][]byte{der}, PrivateKey: priv}}}
}

// dribbleConn splits the first `left` bytes written into writes of 1,2,3,4,1,2,... bytes with short
// pauses, so that the listener's 3-byte peek (sampledconn) sees them arrive in pieces.
type dribbleConn struct {
	net.Conn
	mu     sync.Mutex
	left   int
	step   int
	pieces *atomic.Int64
}

func (d *dribbleConn) Write(b []byte) (int, error) {
	d.mu.Lock()
	defer d.mu.Unlock()
	total := 0
	for len(b) > 0 && d.left > 0 {
		n := min(1+d.step%4, len(b), d.left)
		d.step++
		m, err := d.Conn.Write(b[:n])
		total += m
		if err != nil {
			return total, err
		}
		d.pieces.Add(1)
		d.left -= n
		b = b[n:]
		time.Sleep(time.Duration(200+300*(d.step%3)) * time.Microsecond)
	}
	if len(b) > 0 {
		m, err := d.Conn.Write(b)
		total += m
		return total, err
	}
	return total, nil
}

var sysDribbles atomic.Int64 // pieces written by dribbling conns (evidence counter)

type dribbleDialer struct {
	first  int
	pieces *atomic.Int64
}

func (dd *dribbleDialer) DialContext(ctx context.Context, network, address string) (net.Conn, error) {
	var d net.Dialer
	c, err := d.DialContext(ctx, network, address)
	if err != nil {
		return nil, err
	}
	if tc, ok := c.(*net.TCPConn); ok {
		tc.SetNoDelay(true) // every piece becomes its own segment
	}
	return &dribbleConn{Conn: c, left: dd.first, pieces: dd.pieces}, nil
}

func (s *state) sysConfigs() []*sysCfg {
	tcpT := libp2p.Transport(tcp.NewTCPTransport)
	wsT := libp2p.Transport(websocket.New)
	plain := func(o ...libp2p.Option) func(*state, bool) []libp2p.Option {
		return func(*state, bool) []libp2p.Option { return o }
	}
	shareAfter := func(h host.Host) error {
		// the shared listener: a second (WebSocket) listener on the very port the TCP listener got
		for _, a := range h.Network().ListenAddresses() {
			if p, err := a.ValueForProtocol(ma.P_TCP); err == nil {
				return h.Network().Listen(ma.StringCast("/ip4/127.0.0.1/tcp/" + p + "/ws"))
			}
		}
		return errors.New("no tcp listen address")
	}
	sharedOpts := func(sec string) []libp2p.Option {
		return append(sysSecMux(sec), libp2p.ShareTCPListener(), tcpT, wsT)
	}
	wssTLS := sysSelfSigned()
	return []*sysCfg{
		{Name: "tcp-noise", Listen: []string{"/ip4/127.0.0.1/tcp/0"}, Opts: plain(append(sysSecMux("noise"), tcpT)...), Expect: "/tcp/"},
		{Name: "tcp-tls", Listen: []string{"/ip4/127.0.0.1/tcp/0"}, Opts: plain(append(sysSecMux("tls"), tcpT)...), Expect: "/tcp/"},
		{Name: "tcp-psk-noise", Listen: []string{"/ip4/127.0.0.1/tcp/0"}, Opts: func(s *state, _ bool) []libp2p.Option {
			return append(sysSecMux("noise"), tcpT, libp2p.PrivateNetwork(s.psk))
		}, Expect: "/tcp/"},
		{Name: "ws", Listen: []string{"/ip4/127.0.0.1/tcp/0/ws"}, Opts: plain(append(sysSecMux("noise"), wsT)...), Expect: "/ws"},
		{Name: "wss-tls", Listen: []string{"/ip4/127.0.0.1/tcp/0/tls/sni/localhost/ws"}, Opts: plain(append(sysSecMux("tls"),
			libp2p.Transport(websocket.New, websocket.WithTLSConfig(wssTLS), websocket.WithTLSClientConfig(&tls.Config{InsecureSkipVerify: true})))...), Expect: "/wss"},
		{Name: "quic", Listen: []string{"/ip4/127.0.0.1/udp/0/quic-v1"}, Opts: plain(libp2p.Transport(libp2pquic.NewTransport)), Expect: "/quic-v1"},
		{Name: "webtransport", Listen: []string{"/ip4/127.0.0.1/udp/0/quic-v1/webtransport"}, Opts: plain(libp2p.Transport(libp2pwebtransport.New)), Expect: "/webtransport"},
		{Name: "webrtc-direct", Listen: []string{"/ip4/127.0.0.1/udp/0/webrtc-direct"}, Opts: plain(libp2p.Transport(libp2pwebrtc.New)), Expect: "/webrtc-direct"},
		{Name: "shared-tcp-noise", Listen: []string{"/ip4/127.0.0.1/tcp/0"}, Opts: plain(sharedOpts("noise")...), After: shareAfter, Via: "!/ws", Expect: "/tcp/"},
		{Name: "shared-tcp-tls", Listen: []string{"/ip4/127.0.0.1/tcp/0"}, Opts: plain(sharedOpts("tls")...), After: shareAfter, Via: "!/ws", Expect: "/tcp/"},
		{Name: "shared-ws", Listen: []string{"/ip4/127.0.0.1/tcp/0"}, Opts: plain(sharedOpts("noise")...), After: shareAfter, Via: "/ws", Expect: "/ws"},
		{Name: "shared-tcp-dribble", Listen: []string{"/ip4/127.0.0.1/tcp/0"}, Opts: func(s *state, dialer bool) []libp2p.Option {
			if !dialer {
				return sharedOpts("noise")
			}
			return append(sysSecMux("noise"), libp2p.Transport(tcp.NewTCPTransport, tcp.WithDialerForAddr(func(ma.Multiaddr) (tcp.ContextDialer, error) {
				return &dribbleDialer{first: 40, pieces: &sysDribbles}, nil
			})))
		}, After: shareAfter, Via: "!/ws", Expect: "/tcp/", Dribble: true},
	}
}

func sysRcmgr() network.ResourceManager {
	m, err := rcmgr.NewResourceManager(rcmgr.NewFixedLimiter(rcmgr.InfiniteLimits), rcmgr.WithMetricsDisabled())
	if err != nil {
		panic(err)
	}
	return m
}

func (s *state) sysHost(cfg *sysCfg, k *sectest.Key, dialer bool) (host.Host, error) {
	rm := sysRcmgr()
	opts := []libp2p.Option{libp2p.Identity(k.Priv), libp2p.DisableRelay(), libp2p.DisableMetrics(), libp2p.ResourceManager(rm)}
	if dialer && cfg.Dribble {
		opts = append(opts, libp2p.NoListenAddrs)
	} else {
		opts = append(opts, libp2p.ListenAddrStrings(cfg.Listen...))
	}
	opts = append(opts, cfg.Opts(s, dialer)...)
	h, err := libp2p.New(opts...)
	if err != nil {
		rm.Close()
		return nil, err
	}
	if cfg.After != nil && !(dialer && cfg.Dribble) {
		if err := cfg.After(h); err != nil {
			h.Close()
			return nil, err
		}
	}
	return h, nil
}

// sysSpec is one stream of a case.
type sysSpec struct {
	Up    int    `json:"bytes_opener_to_handler"`
	Down  int    `json:"bytes_handler_to_opener"`
	Mode  string `json:"mode"`  // close-first: write, CloseWrite, then read | duplex: both directions at once | read-first: the opener's first operation is a Read
	Eager bool   `json:"eager"` // protocol not advertised through identify: NewStream negotiates before returning
}

type sysWrite struct {
	N        int64  `json:"bytes_accepted"`
	Err      string `json:"err,omitempty"`
	CloseErr string `json:"close_write_err,omitempty"`
	Timeout  bool   `json:"timeout,omitempty"`
}

func (w sysWrite) ok(want int) bool { return w.Err == "" && w.CloseErr == "" && w.N == int64(want) }

type sysStream struct {
	Spec       sysSpec    `json:"spec"`
	OpenErr    string     `json:"open_err,omitempty"`
	Lazy       bool       `json:"lazy_multistream"`
	HandlerRan bool       `json:"handler_ran"`
	UpW        sysWrite   `json:"up_write"`
	Up         readResult `json:"up_read"`
	DownW      sysWrite   `json:"down_write"`
	Down       readResult `json:"down_read"`
	Trailer    string     `json:"reply_trailer"` // ok | missing | wrong-length:<n> | mismatch
	Timeout    bool       `json:"timeout,omitempty"`
}

func isTimeout(err error) bool {
	if err == nil {
		return false
	}
	var ne net.Error
	if errors.Is(err, os.ErrDeadlineExceeded) || errors.Is(err, context.DeadlineExceeded) || (errors.As(err, &ne) && ne.Timeout()) {
		return true
	}
	// wrapped stream / connection errors do not always keep the Timeout() interface
	m := strings.ToLower(err.Error())
	return strings.Contains(m, "deadline") || strings.Contains(m, "timeout") || strings.Contains(m, "timed out")
}

// sysSend writes prf(stream, 0..total) in random chunk sizes.
func sysSend(w io.Writer, stream uint64, total int, rng interface{ IntN(int) int }) (res sysWrite) {
	var off int64
	for rem := total; rem > 0; {
		c := 1 + rng.IntN(70000)
		switch rng.IntN(4) {
		case 0:
			c = 1 + rng.IntN(50)
		case 1:
			c = 4090 + rng.IntN(12)
		}
		c = min(c, rem)
		b := make([]byte, c)
		fill(stream, off, b)
		n, err := w.Write(b)
		res.N += int64(n)
		if err != nil {
			res.Err, res.Timeout = err.Error(), isTimeout(err)
			return
		}
		if n != c {
			res.Err = fmt.Sprintf("short write %d of %d without error", n, c)
			return
		}
		off += int64(c)
		rem -= c
	}
	return
}

// sysRecv reads until error. Positions below prfLen are compared with prf(stream, position); anything
// after is collected (at most 4096 bytes) as the trailer.
func sysRecv(c io.Reader, stream uint64, prfLen int64, sizeFn func(int64) int) (res readResult, tail []byte, timeout bool) {
	res.BadAt = -1
	buf := make([]byte, 140000)
	zero := 0
	for {
		n := max(1, min(sizeFn(res.Total), len(buf)))
		b := buf[:n]
		m, err := c.Read(b)
		res.Reads++
		if m > n || m < 0 {
			res.Overrun = true
			return
		}
		for i := 0; i < m; i++ {
			pos := res.Total + int64(i)
			if pos < prfLen {
				if b[i] != prf(stream, pos) && res.BadAt < 0 {
					res.BadAt = pos
				}
			} else if len(tail) < 4096 {
				tail = append(tail, b[i])
			}
		}
		res.Total += int64(m)
		if err != nil {
			if errors.Is(err, io.EOF) {
				res.EOF = true
				k, _ := c.Read(buf[:16]) // data after EOF?
				res.AfterEOF = k
			} else {
				res.Err, timeout = err.Error(), isTimeout(err)
			}
			return
		}
		if m == 0 {
			if zero++; zero > 1000 {
				res.NoProg = true
				return
			}
		} else {
			zero = 0
		}
	}
}

func sysDigest(stream uint64, n int) []byte {
	h := sha256.New()
	b := make([]byte, 32768)
	for off := 0; off < n; {
		c := min(len(b), n-off)
		fill(stream, int64(off), b[:c])
		h.Write(b[:c])
		off += c
	}
	return h.Sum(nil)
}

// hashingReader feeds everything read through it into a sha256 (the handler's digest of what it got).
type hashingReader struct {
	r io.Reader
	h hash.Hash
}

func (hr *hashingReader) Read(b []byte) (int, error) {
	n, err := hr.r.Read(b)
	if n > 0 && n <= len(b) {
		hr.h.Write(b[:n])
	}
	return n, err
}

type sysCase struct {
	ID      string    `json:"id"`
	Cfg     string    `json:"config"`
	KeyA    string    `json:"listener_key"`
	KeyB    string    `json:"dialer_key"`
	Streams []sysSpec `json:"streams"`
	idx     int
	cfg     *sysCfg
}

type sysOutcome struct {
	SetupErr   string       `json:"setup_err,omitempty"`
	ConnectErr string       `json:"connect_err,omitempty"`
	ConnAddr   string       `json:"conn_remote_addr,omitempty"`
	Streams    []*sysStream `json:"streams"`
	Watchdog   bool         `json:"watchdog_fired,omitempty"`
}

var sysLengths = []int{0, 1, 4095, 4096, 4097, 65519, 65535, 65536, 65537, 1 << 20}

func (s *state) sysGen(cfg *sysCfg, idx int, big bool) *sysCase {
	rng := s.r.Rand(40, uint64(idx), strID(cfg.Name))
	c := &sysCase{ID: fmt.Sprintf("sys/%s/%d", cfg.Name, idx), Cfg: cfg.Name, idx: idx, cfg: cfg}
	n := 1 + rng.IntN(8)
	if idx == 0 {
		n = 8
	}
	budget := 3 << 20 // total bytes per case stays bounded (WebRTC's SCTP moves a few MB/s)
	pick := func(pos int) int {
		var L int
		switch {
		case rng.IntN(3) == 0:
			L = rng.IntN(200000)
		default:
			// walk the boundary list so that every length occurs in every configuration
			L = sysLengths[(idx*3+pos+rng.IntN(2))%len(sysLengths)]
		}
		if L >= 1<<20 && !big {
			L = 65536 + rng.IntN(3) - 1
		}
		if L > budget {
			L = rng.IntN(5000)
		}
		budget -= L
		return L
	}
	for k := 0; k < n; k++ {
		sp := sysSpec{Up: pick(2 * k), Down: pick(2*k + 1), Eager: rng.IntN(4) == 0}
		switch m := rng.IntN(5); {
		case m <= 1:
			sp.Mode = "close-first"
		case m <= 3 || sp.Down == 0:
			sp.Mode = "duplex"
		default:
			sp.Mode = "read-first"
		}
		c.Streams = append(c.Streams, sp)
	}
	return c
}

func strID(s string) uint64 {
	h := fnv.New64a()
	h.Write([]byte(s))
	return h.Sum64()
}

func sysProto(k int, eager bool) protocol.ID {
	if eager {
		return protocol.ID(fmt.Sprintf("/c02sys/e/%d", k))
	}
	return protocol.ID(fmt.Sprintf("/c02sys/l/%d", k))
}

// sysRun executes one case on a fresh pair of hosts and returns everything observed. All hosts are
// closed and all goroutines started here have returned when it returns (or the watchdog fired).
func (s *state) sysRun(c *sysCase, attempt int) (out sysOutcome) {
	ka, kb := s.keyPair(c.idx + 5*len(c.Cfg))
	c.KeyA, c.KeyB = ka.Type, kb.Type
	A, err := s.sysHost(c.cfg, ka, false)
	if err != nil {
		out.SetupErr = "listener host: " + err.Error()
		return
	}
	B, err := s.sysHost(c.cfg, kb, true)
	if err != nil {
		A.Close()
		out.SetupErr = "dialer host: " + err.Error()
		return
	}
	var handlers atomic.Int32 // stream handlers of the listener host still running
	defer func() {
		// everything this case started has ended before it returns: both hosts closed (that unblocks
		// whatever a watchdog left behind), all handler goroutines gone
		B.Close()
		A.Close()
		for dl := time.Now().Add(30 * time.Second); handlers.Load() != 0; time.Sleep(time.Millisecond) {
			if time.Now().After(dl) {
				out.Watchdog = true
				break
			}
		}
	}()

	ctx, cancel := context.WithTimeout(context.Background(), sysCaseWatchdog)
	defer cancel()
	deadline, _ := ctx.Deadline()
	n := len(c.Streams)
	live := make([]*sysStream, n) // written by openers and handlers under mu; out.Streams gets a copy at the end
	var mu sync.Mutex
	done := make([]chan struct{}, n)
	for k := range live {
		live[k] = &sysStream{Spec: c.Streams[k], Trailer: "missing"}
		done[k] = make(chan struct{})
	}
	var ran sync.Map
	handler := func(k int) network.StreamHandler {
		return func(st network.Stream) {
			if _, dup := ran.LoadOrStore(k, true); dup {
				st.Reset()
				return
			}
			handlers.Add(1)
			defer handlers.Add(-1)
			defer close(done[k])
			sp := c.Streams[k]
			st.SetDeadline(deadline)
			hr := &hashingReader{r: st, h: sha256.New()}
			var up readResult
			var upTO bool
			var dw sysWrite
			read := func() {
				up, _, upTO = sysRecv(hr, uint64(k), 1<<62, randSizes(s.r.Rand(41, uint64(c.idx), uint64(k), uint64(attempt))))
			}
			wr := s.r.Rand(42, uint64(c.idx), uint64(k), uint64(attempt))
			if sp.Mode == "close-first" {
				// statement: "half-close followed by further reads" — the whole reply is written after the
				// opener's CloseWrite was seen as EOF
				read()
				dw = sysSend(st, uint64(sysReplyStream+k), sp.Down, wr)
			} else {
				var w sync.WaitGroup
				w.Add(1)
				go func() { defer w.Done(); dw = sysSend(st, uint64(sysReplyStream+k), sp.Down, wr) }()
				read()
				w.Wait()
			}
			if dw.Err == "" {
				tr := make([]byte, 8, sysTrailerLen)
				binary.BigEndian.PutUint64(tr, uint64(up.Total))
				tr = hr.h.Sum(tr)
				if _, err := st.Write(tr); err != nil {
					dw.Err, dw.Timeout = "trailer: "+err.Error(), isTimeout(err)
				}
			}
			if err := st.Close(); err != nil && dw.Err == "" {
				dw.CloseErr = err.Error()
			}
			mu.Lock()
			o := live[k]
			o.HandlerRan, o.Up, o.DownW = true, up, dw
			o.Timeout = o.Timeout || upTO || dw.Timeout
			mu.Unlock()
		}
	}
	for k := range c.Streams {
		A.SetStreamHandler(sysProto(k, false), handler(k))
	}
	// eager streams: the advertised name differs from the requested one, so the opener's peerstore
	// cannot know the protocol and BasicHost.NewStream negotiates before it returns
	A.SetStreamHandlerMatch("/c02sys/e", func(p protocol.ID) bool { return strings.HasPrefix(string(p), "/c02sys/e/") }, func(st network.Stream) {
		var k int
		if _, err := fmt.Sscanf(string(st.Protocol()), "/c02sys/e/%d", &k); err != nil || k < 0 || k >= n {
			st.Reset()
			return
		}
		handler(k)(st)
	})

	var addrs []ma.Multiaddr
	for _, a := range A.Addrs() {
		switch {
		case c.cfg.Via == "":
		case c.cfg.Via[0] == '!' && strings.Contains(a.String(), c.cfg.Via[1:]):
			continue
		case c.cfg.Via[0] != '!' && !strings.Contains(a.String(), c.cfg.Via):
			continue
		}
		addrs = append(addrs, a)
	}
	if err := B.Connect(ctx, peer.AddrInfo{ID: A.ID(), Addrs: addrs}); err != nil {
		out.ConnectErr = fmt.Sprintf("%v (addrs %v)", err, addrs)
		return
	}
	if cs := B.Network().ConnsToPeer(A.ID()); len(cs) > 0 {
		out.ConnAddr = cs[0].RemoteMultiaddr().String()
	}

	var wg sync.WaitGroup
	for k := range c.Streams {
		wg.Add(1)
		go func() {
			defer wg.Done()
			sp, o := c.Streams[k], live[k]
			st, err := B.NewStream(ctx, A.ID(), sysProto(k, sp.Eager))
			if err != nil {
				mu.Lock()
				o.OpenErr, o.Timeout = err.Error(), isTimeout(err)
				mu.Unlock()
				return
			}
			lazy := strings.Contains(fmt.Sprintf("%T", st), "streamWrapper")
			st.SetDeadline(deadline)
			wr := s.r.Rand(43, uint64(c.idx), uint64(k), uint64(attempt))
			rd := randSizes(s.r.Rand(44, uint64(c.idx), uint64(k), uint64(attempt)))
			var uw sysWrite
			var down readResult
			var tail []byte
			var downTO bool
			send := func() {
				uw = sysSend(st, uint64(k), sp.Up, wr)
				if uw.Err == "" {
					if err := st.CloseWrite(); err != nil {
						uw.CloseErr = err.Error()
					}
				}
			}
			recv := func() { down, tail, downTO = sysRecv(st, uint64(sysReplyStream+k), int64(sp.Down), rd) }
			switch sp.Mode {
			case "close-first":
				send()
				recv()
			case "duplex":
				var w sync.WaitGroup
				w.Add(1)
				go func() { defer w.Done(); send() }()
				recv()
				w.Wait()
			case "read-first":
				// the first operation on the (lazily negotiated) stream is a Read of the first reply byte;
				// only then is anything written
				one := make([]byte, 1)
				m, err := io.ReadFull(st, one)
				pre := &prefixed{head: one[:m], headErr: err, r: st}
				send()
				down, tail, downTO = sysRecv(pre, uint64(sysReplyStream+k), int64(sp.Down), rd)
			}
			st.Close()
			mu.Lock()
			o.Lazy, o.UpW, o.Down = lazy, uw, down
			o.Timeout = o.Timeout || downTO || uw.Timeout
			switch {
			case len(tail) == 0 && !down.EOF:
				o.Trailer = "missing"
			case len(tail) != sysTrailerLen:
				o.Trailer = fmt.Sprintf("wrong-length:%d", len(tail))
			case binary.BigEndian.Uint64(tail) != uint64(sp.Up) || !bytes.Equal(tail[8:], sysDigest(uint64(k), sp.Up)):
				o.Trailer = "mismatch"
			default:
				o.Trailer = "ok"
			}
			mu.Unlock()
		}()
	}
	finished := run.Watchdog(sysCaseWatchdog+10*time.Second, func() {
		wg.Wait()
		for k := range done {
			mu.Lock()
			o := live[k]
			// the opener's side already ended in an error: its handler may never have been started (or is
			// about to fail as well) - give it a moment, not the whole watchdog
			openerFailed := o.OpenErr != "" || !o.UpW.ok(o.Spec.Up) || !o.Down.EOF
			mu.Unlock()
			var limit <-chan time.Time // nil: wait for the handler as long as the case's watchdog allows
			if openerFailed {
				tm := time.NewTimer(3 * time.Second)
				limit = tm.C
				defer tm.Stop()
			}
			select {
			case <-done[k]:
			case <-limit:
			case <-ctx.Done():
			}
		}
	})
	// hand out a copy taken under the lock (a handler of a stream whose opener gave up may still run)
	mu.Lock()
	cp := make([]*sysStream, n)
	for k, o := range live {
		v := *o
		if !finished || ctx.Err() != nil {
			v.Timeout = true
		}
		cp[k] = &v
	}
	mu.Unlock()
	out.Streams, out.Watchdog = cp, !finished || ctx.Err() != nil
	return
}

// prefixed replays bytes already read from r before continuing with r.
type prefixed struct {
	head    []byte
	headErr error
	r       io.Reader
}

func (p *prefixed) Read(b []byte) (int, error) {
	if len(p.head) > 0 {
		n := copy(b, p.head)
		p.head = p.head[n:]
		return n, nil
	}
	if p.headErr != nil {
		err := p.headErr
		if errors.Is(err, io.ErrUnexpectedEOF) {
			err = io.EOF
		}
		return 0, err
	}
	return p.r.Read(b)
}

type sysVerdict struct{ sig, msg string }

// sysEOFShort marks the failures that are silent truncations (clean EOF before the length although every
// Write and the CloseWrite succeeded); they get their own signature when they repeat.
const sysEOFShort = "[silent truncation] "

// sysJudge applies the oracle to one outcome. safety: refutations that need no second look (a byte the
// writer did not send at that position, more bytes than written, data after EOF). failed: the delivery
// ended in an error or in a silent truncation without any fault having been injected (decided after a
// second run on fresh hosts). timeout: watchdog only.
func sysJudge(c *sysCase, out *sysOutcome) (safety []sysVerdict, failed []string, timeout bool) {
	if out.Watchdog {
		timeout = true
	}
	for k, o := range out.Streams {
		sp := o.Spec
		if o.Timeout {
			timeout = true
		}
		dirs := []struct {
			name   string
			rr     readResult
			w      sysWrite
			want   int64
			reader bool // did the reading side run at all
		}{
			{"opener->handler", o.Up, o.UpW, int64(sp.Up), o.HandlerRan},
			{"handler->opener", o.Down, o.DownW, int64(sp.Down) + sysTrailerLen, o.OpenErr == ""},
		}
		for _, d := range dirs {
			if !d.reader {
				continue
			}
			tag := fmt.Sprintf("stream %d %s", k, d.name)
			switch {
			// statement: "never receives plaintext the writer did not send at that position" / "unmodified, in order"
			case d.rr.BadAt >= 0:
				safety = append(safety, sysVerdict{"sys:corrupt-or-misplaced-byte/" + c.Cfg, fmt.Sprintf("%s: byte at position %d is not the byte written at that position", tag, d.rr.BadAt)})
			case d.rr.Overrun:
				safety = append(safety, sysVerdict{"sys:read-count-exceeds-buffer/" + c.Cfg, tag + ": Read returned n > len(buf)"})
			case d.rr.AfterEOF != 0:
				safety = append(safety, sysVerdict{"sys:data-after-eof/" + c.Cfg, tag + ": bytes delivered after EOF"})
			// statement: "exactly once": more bytes than were written
			case d.rr.Total > d.want:
				safety = append(safety, sysVerdict{"sys:more-bytes-than-written/" + c.Cfg, fmt.Sprintf("%s: %d bytes delivered, %d written", tag, d.rr.Total, d.want)})
			// clean EOF before the length although every Write and the CloseWrite succeeded: silent loss
			// (decided after a second run: the far side tearing the CONNECTION down cleanly - which nothing in
			// this sweep does, but a starved keep-alive could - also surfaces as EOF on every stream)
			case d.rr.EOF && d.rr.Total < d.want && (d.name == "opener->handler" && d.w.ok(sp.Up) || d.name == "handler->opener" && d.w.ok(sp.Down) && o.HandlerRan):
				failed = append(failed, sysEOFShort+fmt.Sprintf("%s: EOF after %d of %d bytes, the writer saw no error", tag, d.rr.Total, d.want))
			case d.rr.NoProg:
				failed = append(failed, tag+": 1000 consecutive empty reads")
			case !d.rr.EOF:
				failed = append(failed, fmt.Sprintf("%s: read error after %d of %d bytes: %s", tag, d.rr.Total, d.want, d.rr.Err))
			case d.rr.Total < d.want:
				failed = append(failed, fmt.Sprintf("%s: EOF after %d of %d bytes, writer: %+v", tag, d.rr.Total, d.want, d.w))
			}
		}
		switch {
		case o.OpenErr != "":
			failed = append(failed, fmt.Sprintf("stream %d: NewStream: %s", k, o.OpenErr))
		case !o.HandlerRan:
			failed = append(failed, fmt.Sprintf("stream %d: handler never ran", k))
		case o.Trailer != "ok" && o.Trailer != "missing" &&
			o.Up.EOF && o.Up.BadAt < 0 && o.Up.Total == int64(sp.Up) && o.DownW.ok(sp.Down) &&
			o.Down.EOF && o.Down.BadAt < 0 && o.Down.Total == int64(sp.Down)+sysTrailerLen:
			// the handler received every byte and a clean EOF, so the digest it wrote is the digest of the
			// payload; the opener got the right number of reply bytes and a clean EOF, yet the trailer differs:
			// bytes written after the half-close did not arrive as written
			safety = append(safety, sysVerdict{"sys:reply-after-half-close-corrupt/" + c.Cfg, fmt.Sprintf("stream %d: trailer %s", k, o.Trailer)})
		}
		if !o.UpW.ok(sp.Up) && o.OpenErr == "" {
			failed = append(failed, fmt.Sprintf("stream %d: opener write: %+v", k, o.UpW))
		}
		if o.HandlerRan && !o.DownW.ok(sp.Down) {
			failed = append(failed, fmt.Sprintf("stream %d: handler write: %+v", k, o.DownW))
		}
	}
	return
}

// system: the sweep. quick: one or two cases per configuration with lengths up to 64 KiB (+ one 1 MiB
// case); thorough: every configuration x many cases x all lengths.
func (s *state) system() {
	if os.Getenv("VERIF_RACE") == "1" {
		return
	}
	// nothing started here may outlive this family (other families run in synctest bubbles in this process).
	// Every host and socket is closed by its case; what may linger for a few seconds are pure timer goroutines
	// of pion/sctp (Stream.SetReadDeadline, armed by BasicHost's stream Close): they are given 3 s and counted.
	baseline := runtime.NumGoroutine()
	defer func() {
		for dl := time.Now().Add(3 * time.Second); runtime.NumGoroutine() > baseline && time.Now().Before(dl); {
			time.Sleep(20 * time.Millisecond)
		}
		s.r.Count("sys_goroutines_left_after_family", max(0, runtime.NumGoroutine()-baseline))
	}()
	s.r.Assume("system sweep (system_test.go): host pairs built by libp2p.New over real loopback sockets for TCP(+PSK), WebSocket(+TLS), QUIC, WebTransport, WebRTC-direct and the shared TCP listener; nothing is closed, reset or altered by the harness, so a delivery that ends in an error or in an early EOF twice in a row on fresh hosts is reported; watchdog expiries and connection-establishment failures are inconclusive",
		"quic-go, webtransport-go, pion, gorilla/websocket and go-yamux internals are trusted beyond what the sweep exercises")
	cfgs := s.sysConfigs()
	perCfg := s.r.Pick(10, 150)
	var cases []*sysCase
	for ci, cfg := range cfgs {
		for i := 0; i < perCfg; i++ {
			idx := i
			if s.r.Quick() {
				idx = int(s.r.Seed%1000)*10 + i // the quick subset rotates with the seed
			}
			big := !s.r.Quick() || i < 2 || ci == 0 // 1 MiB streams: everywhere in thorough, in two cases per configuration in quick
			cases = append(cases, s.sysGen(cfg, idx, big))
		}
	}
	unavailable := map[string]string{}
	var umu sync.Mutex
	run.Parallel(len(cases), s.r.Pick(6, 6), func(i int) {
		c := cases[i]
		if !s.r.Want(c.ID) || s.r.TooMany() {
			return
		}
		umu.Lock()
		_, skip := unavailable[c.Cfg]
		umu.Unlock()
		if skip {
			return
		}
		tc := time.Now()
		out := s.sysRun(c, 0)
		if d := time.Since(tc); d > 3*time.Second {
			s.r.Count("sys_cases_slower_than_3s/"+c.Cfg, 1)
		}
		s.r.Eval(1)
		if out.SetupErr != "" {
			// a transport that cannot be constructed in this sandbox is counted, not judged
			umu.Lock()
			unavailable[c.Cfg] = out.SetupErr
			umu.Unlock()
			s.r.Count("sys_config_unavailable/"+c.Cfg, 1)
			return
		}
		if out.ConnectErr != "" {
			out = s.sysRun(c, 1)
			if out.ConnectErr != "" {
				s.r.Count("sys_connect_failed/"+c.Cfg, 1)
				s.r.Inconclusive(c.ID, "hosts could not connect (twice): "+out.ConnectErr)
				return
			}
		}
		safety, failed, timeout := sysJudge(c, &out)
		detail := map[string]any{"case": c, "outcome": out}
		if len(safety) == 0 && (len(failed) > 0 || timeout) {
			// an error without an injected fault: decided by a second run on fresh hosts
			s.r.Count("sys_first_attempt_errors/"+c.Cfg, 1)
			first := out
			out = s.sysRun(c, 1)
			var failed2 []string
			var timeout2 bool
			safety, failed2, timeout2 = sysJudge(c, &out)
			detail = map[string]any{"case": c, "first_attempt": first, "first_attempt_errors": failed, "outcome": out}
			switch {
			case len(safety) > 0:
			case out.ConnectErr != "" || timeout2 || (timeout && len(failed2) > 0):
				s.r.Inconclusive(c.ID, fmt.Sprintf("watchdog / connect failure (first attempt: %.300s, second: %.300s %.300s)", fmt.Sprint(failed), fmt.Sprint(failed2), out.ConnectErr))
				return
			case len(failed2) > 0:
				// statement: bytes written "reach the remote reader exactly once, in order and unmodified"
				sig := "sys:delivery-failed-without-fault/"
				for _, f := range failed2 {
					if strings.HasPrefix(f, sysEOFShort) {
						sig, failed2[0] = "sys:clean-eof-before-length/", f
						break
					}
				}
				s.r.Violation(sig+c.Cfg, c.ID, fmt.Sprintf("both attempts on fresh hosts ended in an error although nothing was closed, reset or altered: %d problems, first: %.300s", len(failed2), failed2[0]), detail)
				return
			default:
				s.r.Inconclusive(c.ID, fmt.Sprintf("transient error on the first attempt only: %.400s", fmt.Sprint(failed)))
			}
		}
		for _, v := range safety {
			s.r.Violation(v.sig, c.ID, v.msg, detail)
		}
		if len(safety) > 0 {
			return
		}
		if c.cfg.Expect != "" && !strings.Contains(out.ConnAddr, c.cfg.Expect) {
			s.r.Inconclusive(c.ID, "connection went over "+out.ConnAddr+", not over the transport under test")
			return
		}
		s.r.Nontrivial(c.ID)
		s.r.Count("sys_cases_completed/"+c.Cfg, 1)
		for _, o := range out.Streams {
			s.r.Count("sys_streams_completed", 1)
			s.r.Count("sys_streams_completed/"+c.Cfg, 1)
			s.r.Count("sys_bytes_verified", o.Spec.Up+o.Spec.Down)
			s.r.Count("sys_mode_"+o.Spec.Mode, 1)
			if o.Lazy {
				s.r.Count("sys_lazy_multistream_streams", 1)
			} else {
				s.r.Count("sys_eager_multistream_streams", 1)
			}
			if o.Spec.Mode == "close-first" {
				s.r.Count("sys_reply_after_half_close", 1)
			}
			if o.Spec.Up == 0 {
				s.r.Count("sys_zero_length_then_close", 1)
			}
			if o.Spec.Up >= 1<<20 || o.Spec.Down >= 1<<20 {
				s.r.Count("sys_streams_1MiB", 1)
			}
		}
		if c.idx%7 == 0 && (c.Cfg == "webtransport" || c.Cfg == "shared-ws") {
			s.r.Sample(map[string]any{"kind": "system", "case": c, "conn": out.ConnAddr})
		}
	})
	s.r.Count("sys_dribbled_writes", int(sysDribbles.Load()))
	for cfg, why := range unavailable {
		s.r.Extra("sys_unavailable_"+cfg, why)
	}
	if s.r.Replaying() {
		return
	}
	for _, cfg := range cfgs {
		if _, un := unavailable[cfg.Name]; !un {
			s.r.Require("sys_cases_completed/"+cfg.Name, s.r.Pick(6, 120)) // of 10 / 150
		}
	}
	s.r.Require("sys_streams_completed", s.r.Pick(100, 4000))
	s.r.Require("sys_reply_after_half_close", s.r.Pick(20, 1000))
	s.r.Require("sys_lazy_multistream_streams", s.r.Pick(50, 2000))
	s.r.Require("sys_eager_multistream_streams", s.r.Pick(10, 500))
	s.r.Require("sys_dribbled_writes", s.r.Pick(30, 1000))
	// path classes this sweep exists for: a run in which they all hung or failed must not pass as "nothing seen"
	s.r.Require("sys_zero_length_then_close", s.r.Pick(2, 200))
	s.r.Require("sys_mode_close-first", s.r.Pick(20, 1000))
	s.r.Require("sys_mode_duplex", s.r.Pick(20, 1000))
	s.r.Require("sys_mode_read-first", s.r.Pick(5, 300))
	s.r.Require("sys_streams_1MiB", s.r.Pick(1, 300))
	s.r.Require("sys_cases_completed/tcp-noise", 1) // these need nothing but loopback TCP: never "unavailable"
	s.r.Require("sys_cases_completed/shared-tcp-noise", 1)
}

// ---------------------------------------------------------------------------------------------
// sampledconn, driven directly: tcpreuse.ConnMgr.DemultiplexedListen on a real loopback socket, three
// demultiplexed listeners on one port; a raw TCP client sends <3-byte type prefix><prf bytes> with the
// first bytes dribbled; the accepted conn must deliver exactly those bytes (the peeked ones replayed
// once, in place, also into buffers smaller than what is left of them), on the listener of the type the
// prefix names; then the reverse direction is used after the client's half-close.

type sampledCase struct {
	ID       string `json:"id"`
	Type     string `json:"conn_type"`
	Prefix   string `json:"prefix"`
	L        int    `json:"payload_len"`
	Dribble  []int  `json:"first_write_sizes"`
	ReadBufs []int  `json:"first_read_buffers"`
	nonce    uint64
	ch       chan sampledGot
}

type sampledGot struct {
	listener string
	data     []byte
	err      string
	timeout  bool
}

func (s *state) sampled() {
	if os.Getenv("VERIF_RACE") == "1" {
		return
	}
	u, err := upgrader.New([]sec.SecureTransport{sectest.NewNoise(s.pool["ed25519"][0])}, sectest.Muxers, nil, &network.NullResourceManager{}, nil)
	if err != nil {
		panic(err)
	}
	cm := tcpreuse.NewConnMgr(false, u)
	types := []struct {
		name string
		t    tcpreuse.DemultiplexedConnType
		pfx  []string
	}{
		{"multistream", tcpreuse.DemultiplexedConnType_MultistreamSelect, []string{"\x13/m"}},
		{"http", tcpreuse.DemultiplexedConnType_HTTP, []string{"GET", "POS", "PRI"}},
		{"tls", tcpreuse.DemultiplexedConnType_TLS, []string{"\x16\x03\x01", "\x16\x03\x03"}},
	}
	laddr := ma.StringCast("/ip4/127.0.0.1/tcp/0")
	var tcpAddr string
	var closers []func() error
	var mu sync.Mutex
	plans := map[string]*sampledCase{} // by the client's socket address; registered before its first byte
	var awg sync.WaitGroup
	for _, ty := range types {
		l, err := cm.DemultiplexedListen(laddr, ty.t)
		if err != nil {
			s.r.Inconclusive("sampled/setup", "DemultiplexedListen: "+err.Error())
			for _, c := range closers {
				c()
			}
			awg.Wait()
			return
		}
		laddr = l.Multiaddr() // the next type joins the same port
		tcpAddr = l.Addr().String()
		closers = append(closers, l.Close)
		awg.Add(1)
		go func() {
			defer awg.Done()
			var cwg sync.WaitGroup
			defer cwg.Wait()
			for {
				c, scope, err := l.Accept()
				if err != nil {
					return
				}
				cwg.Add(1)
				go func() {
					defer cwg.Done()
					defer scope.Done()
					defer c.Close()
					c.SetDeadline(time.Now().Add(60 * time.Second))
					var plan *sampledCase
					for i := 0; i < 50000 && plan == nil; i++ { // the client registers right after its connect returned
						mu.Lock()
						plan = plans[c.RemoteAddr().String()]
						mu.Unlock()
						if plan == nil {
							time.Sleep(200 * time.Microsecond)
						}
					}
					if plan == nil {
						s.r.Count("sampled_accepted_conn_without_plan", 1)
						return
					}
					g := sampledGot{listener: ty.name}
					buf := make([]byte, 70000)
					for i := 0; ; i++ {
						n := len(buf)
						if i < len(plan.ReadBufs) {
							n = plan.ReadBufs[i]
						}
						m, err := c.Read(buf[:n])
						if m > n {
							g.err = "n > len(buf)"
							break
						}
						g.data = append(g.data, buf[:m]...)
						if err != nil {
							if !errors.Is(err, io.EOF) {
								g.err, g.timeout = err.Error(), isTimeout(err)
							}
							break
						}
					}
					// reverse direction after the client's half-close: digest of everything received
					d := sha256.Sum256(g.data)
					c.Write(d[:])
					plan.ch <- g
				}()
			}
		}()
	}
	defer func() {
		for _, c := range closers {
			c()
		}
		awg.Wait()
	}()

	var cases []*sampledCase
	rng := s.r.Rand(60)
	dribbles := [][]int{{1}, {2}, {3}, {4}, {1, 1}, {1, 2}, {2, 1}, {1, 1, 1}, {2, 2}, {3, 1}, {1, 3}, {11}, {64}}
	lens := []int{0, 1, 2, 3, 100, 4096, 65536}
	for _, ty := range types {
		for pi, pfx := range ty.pfx {
			for di, dr := range dribbles {
				for li, L := range lens {
					if s.r.Quick() && (di+li+pi)%4 != int(s.r.Seed&3) {
						continue
					}
					c := &sampledCase{ID: fmt.Sprintf("sampled/%s/p%d/d%d/L%d", ty.name, pi, di, L), Type: ty.name, Prefix: pfx, L: L, Dribble: dr,
						nonce: uint64(len(cases)) + 77, ch: make(chan sampledGot, 1)}
					// the first reads use buffers of 1..5 bytes: smaller than, equal to and larger than what is
					// left of the three peeked bytes
					for k, nb := 0, rng.IntN(5); k < nb; k++ {
						c.ReadBufs = append(c.ReadBufs, 1+rng.IntN(5))
					}
					cases = append(cases, c)
				}
			}
		}
	}
	type sampledOutcome struct {
		kind, sig, msg string // kind: ok | dropped | inconclusive | violation
		detail         map[string]any
	}
	attempt := func(c *sampledCase) (o sampledOutcome) {
		sent := append([]byte(c.Prefix), make([]byte, c.L)...)
		fill(c.nonce, 0, sent[3:])
		conn, err := net.DialTimeout("tcp", tcpAddr, 10*time.Second)
		if err != nil {
			return sampledOutcome{kind: "inconclusive", msg: "raw dial: " + err.Error()}
		}
		defer conn.Close()
		key := conn.LocalAddr().String()
		mu.Lock()
		plans[key] = c
		mu.Unlock()
		defer func() { mu.Lock(); delete(plans, key); mu.Unlock() }()
		conn.(*net.TCPConn).SetNoDelay(true)
		conn.SetDeadline(time.Now().Add(60 * time.Second))
		rest := sent
		var werr error
		t0 := time.Now()
		for _, n := range c.Dribble {
			n = min(n, len(rest))
			if n == 0 {
				break
			}
			if _, werr = conn.Write(rest[:n]); werr != nil {
				break
			}
			rest = rest[n:]
			time.Sleep(300 * time.Microsecond)
		}
		if werr == nil && len(rest) > 0 {
			_, werr = conn.Write(rest)
		}
		stalled := time.Since(t0) > 2*time.Second // the demultiplexer gives the first three bytes 5 s (real time) to arrive
		if werr == nil {
			werr = conn.(*net.TCPConn).CloseWrite()
		}
		var reply []byte
		var rerr error
		if werr == nil {
			reply, rerr = io.ReadAll(conn)
		}
		var g sampledGot
		wait := 60 * time.Second
		if werr != nil || len(reply) == 0 {
			wait = 3 * time.Second // the other side closed without answering: the connection was probably never handed out
		}
		select {
		case g = <-c.ch:
		case <-time.After(wait):
			switch {
			case stalled || wait > 3*time.Second || isTimeout(rerr) || isTimeout(werr):
				return sampledOutcome{kind: "inconclusive", msg: "listener never delivered the connection (watchdog)"}
			default:
				return sampledOutcome{kind: "dropped", msg: fmt.Sprintf("the connection was closed by the listening side without ever being handed to a listener (client write err %v, read err %v)", werr, rerr),
					detail: map[string]any{"case": c, "bytes_sent": len(sent), "head_sent": fmt.Sprintf("%x", headBytes(sent))}}
			}
		}
		if werr != nil {
			return sampledOutcome{kind: "inconclusive", msg: "raw write: " + werr.Error()}
		}
		want := sha256.Sum256(sent)
		o.detail = map[string]any{"case": c, "accepted_by": g.listener, "bytes_sent": len(sent), "bytes_received": len(g.data), "read_err": g.err, "head_sent": fmt.Sprintf("%x", headBytes(sent)), "head_received": fmt.Sprintf("%x", headBytes(g.data))}
		switch {
		case g.timeout || isTimeout(rerr):
			o.kind, o.msg = "inconclusive", "watchdog deadline on the raw connection"
		case g.listener != c.Type:
			o.kind, o.sig, o.msg = "violation", "sampled:delivered-to-wrong-listener", fmt.Sprintf("a connection starting with %q was handed to the %s listener", c.Prefix, g.listener)
		case !bytes.Equal(g.data, sent):
			// statement (anchor state peekedBytes/bytesPeeked): the first bytes consumed for connection-type
			// detection must be replayed to the reader - exactly once, in order, unmodified
			at := 0
			for at < len(g.data) && at < len(sent) && g.data[at] == sent[at] {
				at++
			}
			if g.err != "" && at == len(g.data) {
				o.kind, o.msg = "inconclusive", "read error on the accepted conn after a correct prefix: "+g.err
				return
			}
			o.kind, o.sig, o.msg = "violation", "sampled:bytes-differ-from-written/"+c.Type, fmt.Sprintf("accepted conn delivered %d bytes, %d were written; first difference at position %d", len(g.data), len(sent), at)
		case g.err != "":
			o.kind, o.msg = "inconclusive", "read error on the accepted conn: "+g.err
		case rerr != nil || !bytes.Equal(reply, want[:]):
			o.kind, o.sig, o.msg = "violation", "sampled:reply-after-half-close-wrong/"+c.Type, fmt.Sprintf("digest written by the listener side after the half-close did not arrive intact (%d bytes, err %v)", len(reply), rerr)
		default:
			o.kind = "ok"
		}
		return
	}
	run.Parallel(len(cases), 8, func(i int) {
		c := cases[i]
		if !s.r.Want(c.ID) || s.r.TooMany() {
			return
		}
		s.r.Eval(1)
		o := attempt(c)
		if o.kind == "dropped" {
			// nothing was injected: decided by a second connection of the same shape
			s.r.Count("sampled_first_attempt_dropped", 1)
			first := o
			if o = attempt(c); o.kind == "dropped" {
				// statement: the bytes consumed for connection-type detection must reach the reader; here the
				// connection (whose first three bytes name a registered type) never reached any reader, twice
				o.detail["first_attempt"] = first.msg
				s.r.Violation("sampled:connection-dropped-by-demultiplexer/"+c.Type, c.ID, o.msg, o.detail)
				return
			}
		}
		switch o.kind {
		case "inconclusive", "dropped":
			s.r.Inconclusive(c.ID, o.msg)
		case "violation":
			s.r.Violation(o.sig, c.ID, o.msg, o.detail)
		case "ok":
			s.r.Count("sampled_conns_verified", 1)
			s.r.Count("sampled_conns_verified/"+c.Type, 1)
			if c.Dribble[0] < 3 {
				s.r.Count("sampled_peek_spans_several_segments", 1)
			}
			if len(c.ReadBufs) > 0 && c.ReadBufs[0] < 3 {
				s.r.Count("sampled_first_read_smaller_than_peek", 1)
			}
			s.r.Nontrivial(c.ID)
			if i == 5 {
				s.r.Sample(map[string]any{"kind": "sampledconn", "case": c})
			}
		}
	})
	if !s.r.Replaying() {
		s.r.Require("sampled_conns_verified", s.r.Pick(30, 300))
		s.r.Require("sampled_peek_spans_several_segments", s.r.Pick(10, 100))
		s.r.Require("sampled_first_read_smaller_than_peek", s.r.Pick(5, 50))
		for _, ty := range types {
			s.r.Require("sampled_conns_verified/"+ty.name, s.r.Pick(5, 50))
		}
	}
}

func headBytes(b []byte) []byte {
	if len(b) > 24 {
		return b[:24]
	}
	return b
}
