// C02 — Secured connections and streams deliver bytes intact, in order, once.
//
// Oracle: payload byte k of stream s is prf(s, k); the reader checks every received byte against its
// absolute position (loss, duplication, reordering, corruption, data after EOF, short count without
// error are all visible) and a lost byte shows as an exact bubble deadlock. Workloads: (1) size-pair grid
// over the real Noise / TLS / pnet sessions on a memnet conn that returns short reads, with read buffers
// chosen so that every read path of the Noise reader is taken; (2) yamux streams through the real
// upgrader with half-close; (3) post-handshake ciphertext tampering by a framing man in the middle.
package c02

import (
	"context"
	"crypto/rand"
	"errors"
	"fmt"
	"io"
	"net"
	"sync"
	"sync/atomic"
	"testing"
	"testing/synctest"
	"time"

	"github.com/libp2p/go-libp2p/core/network"
	ipnet "github.com/libp2p/go-libp2p/core/pnet"
	"github.com/libp2p/go-libp2p/core/sec"
	"github.com/libp2p/go-libp2p/p2p/net/pnet"
	"github.com/libp2p/go-libp2p/p2p/net/upgrader"
	ma "github.com/multiformats/go-multiaddr"

	"verif/harness/rig/memnet"
	"verif/harness/rig/run"
	"verif/harness/rig/sectest"
)

var (
	addrA = ma.StringCast("/ip4/10.0.0.1/tcp/4001")
	addrB = ma.StringCast("/ip4/10.0.0.2/tcp/4001")
	addrM = ma.StringCast("/ip4/10.0.0.66/tcp/6666")
)

const noiseFrame = 65519 // MaxPlaintextLength

func prf(stream uint64, k int64) byte {
	h := uint64(k)*0x9E3779B97F4A7C15 + stream*0xC2B2AE3D27D4EB4F + 0x165667B19E3779F9
	h ^= h >> 29
	h *= 0xBF58476D1CE4E5B9
	return byte(h >> 32)
}

func fill(stream uint64, off int64, b []byte) {
	for i := range b {
		b[i] = prf(stream, off+int64(i))
	}
}

type xfer struct {
	Proto     string `json:"proto"`
	L         int    `json:"length"`
	Split     string `json:"write_split"`
	Chunks    []int  `json:"-"`
	ReadMode  string `json:"read_mode"`
	ShortRead int    `json:"raw_short_read"` // 0: none, n>0: at most n bytes per raw read, -1: random
}

func (x *xfer) id() string {
	return fmt.Sprintf("grid/%s/L%d/%s/%s/sr%d", x.Proto, x.L, x.Split, x.ReadMode, x.ShortRead)
}

func chunksFor(L int, split string, rng interface{ IntN(int) int }) []int {
	var out []int
	add := func(n int) {
		if n > 0 {
			out = append(out, n)
		}
	}
	switch split {
	case "single":
		add(L)
	case "halves":
		add(L / 2)
		add(L - L/2)
	case "bytes":
		n := min(L, 48)
		for i := 0; i < n; i++ {
			add(1)
		}
		add(L - n)
	case "random":
		for rem := L; rem > 0; {
			c := 1 + rng.IntN(70000)
			if rng.IntN(4) == 0 {
				c = 1 + rng.IntN(40)
			}
			c = min(c, rem)
			add(c)
			rem -= c
		}
	case "frame-1", "frame", "frame+1", "k1000":
		sz := map[string]int{"frame-1": noiseFrame - 1, "frame": noiseFrame, "frame+1": noiseFrame + 1, "k1000": 1000}[split]
		for rem := L; rem > 0; rem -= min(sz, rem) {
			add(min(sz, rem))
		}
	}
	return out
}

// noiseFrames returns the plaintext sizes of the Noise frames the writer will produce.
func noiseFrames(chunks []int) []int {
	var f []int
	for _, c := range chunks {
		for c > 0 {
			n := min(c, noiseFrame)
			f = append(f, n)
			c -= n
		}
	}
	return f
}

var splits = []string{"single", "halves", "bytes", "random", "frame-1", "frame", "frame+1", "k1000"}
var lengths = []int{0, 1, 2, 65518, 65519, 65520, 65534, 65535, 65536, 2*noiseFrame - 1, 2 * noiseFrame, 2*noiseFrame + 1, 3*noiseFrame + 7}
var readModes = []string{"fix1", "fix2", "fix15", "fix16", "fix17", "fix4096", "fix65518", "fix65519", "fix65520", "fix65534", "fix65535", "fix65536", "fix131072",
	"rel-17", "rel-16", "rel-15", "rel-1", "rel0", "rel+1", "rel+15", "rel+16", "rel+17", "random"}

type secured struct {
	a, b       net.Conn // what the application uses on each side
	rawA, rawB *memnet.Conn
}

var pskBuilds, pskKeysWiped atomic.Int64

// establish builds the stack for proto over a fresh memnet pipe (inside a bubble).
func establish(ctx context.Context, proto string, ka, kb *sectest.Key, psk ipnet.PSK) (*secured, error) {
	ra, rb := memnet.Pipe(addrA, addrB, 0)
	s := &secured{rawA: ra, rawB: rb}
	var a, b net.Conn = ra, rb
	secProto := proto
	if len(proto) > 4 && proto[:4] == "psk+" {
		secProto = proto[4:]
	}
	if proto == "psk" || secProto != proto {
		var err error
		// each side hands over its OWN buffer holding the key and, every other time, wipes it as soon as the
		// protected conn exists (before any byte has moved): the conn was built with the key it was given
		keyA, keyB := append(ipnet.PSK(nil), psk...), append(ipnet.PSK(nil), psk...)
		if a, err = pnet.NewProtectedConn(keyA, a); err != nil {
			return nil, err
		}
		if b, err = pnet.NewProtectedConn(keyB, b); err != nil {
			return nil, err
		}
		if pskBuilds.Add(1)%2 == 0 {
			clear(keyA)
			pskKeysWiped.Add(1)
		}
	}
	if proto == "psk" {
		s.a, s.b = a, b
		return s, nil
	}
	var ca, cb sec.SecureConn
	var ea, eb error
	var wg sync.WaitGroup
	wg.Add(2)
	go func() { defer wg.Done(); ca, ea = sectest.NewSec(secProto, ka).SecureOutbound(ctx, a, kb.ID) }()
	go func() { defer wg.Done(); cb, eb = sectest.NewSec(secProto, kb).SecureInbound(ctx, b, "") }()
	wg.Wait()
	if ea != nil || eb != nil {
		ra.Close()
		rb.Close()
		return nil, fmt.Errorf("handshake: %v / %v", ea, eb)
	}
	s.a, s.b = ca, cb
	return s, nil
}

type readResult struct {
	Total    int64  `json:"bytes_delivered"`
	BadAt    int64  `json:"first_bad_position"` // -1: none
	Err      string `json:"err"`
	EOF      bool   `json:"clean_eof"`
	Overrun  bool   `json:"n_exceeds_buffer"`
	NoProg   bool   `json:"no_progress"`
	AfterEOF int    `json:"bytes_after_eof"`
	// a reader that keeps reading after a (non-EOF) error: bytes it was given then, and whether they are
	// bytes of the writer's stream at all (at the expected or any later position)
	AfterErr      int   `json:"bytes_after_error"`
	AfterErrAlien bool  `json:"bytes_after_error_never_sent"`
	AfterErrAt    int64 `json:"bytes_after_error_match_position"`
	Reads         int   `json:"reads"`
	PathInPlc     int   `json:"-"`
	PathPool      int   `json:"-"`
	PathQueue     int   `json:"-"`
}

// readAll reads until error, checking every byte against prf(stream, position). sizeFn chooses the
// buffer size for the next read given the number of bytes delivered so far.
func readAll(c io.Reader, stream uint64, sizeFn func(delivered int64) int, frames []int) (res readResult) {
	return readAllN(c, stream, sizeFn, frames, 0)
}

// readAllN: streamLen > 0 makes the reader read on after a non-EOF error (tamper family).
func readAllN(c io.Reader, stream uint64, sizeFn func(delivered int64) int, frames []int, streamLen int64) (res readResult) {
	res.BadAt = -1
	buf := make([]byte, 140000)
	zero := 0
	// Noise read-path model (which of the reader's three paths each read must take)
	fi, inFrame := 0, 0 // current frame index, bytes of it already delivered (queued remainder if >0)
	for {
		n := sizeFn(res.Total)
		if n < 1 {
			n = 1
		}
		if n > len(buf) {
			n = len(buf)
		}
		b := buf[:n]
		for i := range b {
			b[i] = 0xEE
		}
		m, err := c.Read(b)
		res.Reads++
		if m > n {
			res.Overrun = true
			return
		}
		if frames != nil && m > 0 && fi < len(frames) {
			switch {
			case inFrame > 0:
				res.PathQueue++
			case n >= frames[fi]+16:
				res.PathInPlc++
			default:
				res.PathPool++
			}
			inFrame += m
			if inFrame >= frames[fi] {
				fi, inFrame = fi+1, 0
			}
		}
		for i := 0; i < m; i++ {
			if b[i] != prf(stream, res.Total+int64(i)) && res.BadAt < 0 {
				res.BadAt = res.Total + int64(i)
			}
		}
		res.Total += int64(m)
		if err != nil {
			if errors.Is(err, io.EOF) {
				res.EOF = true
				// data after EOF?
				k, _ := c.Read(buf[:16])
				res.AfterEOF = k
			} else {
				res.Err = err.Error()
				// "the reader gets an error and never receives plaintext the writer did not send": also not
				// when it reads again after the error (a muxer's read loop may well do that)
				res.AfterErrAt = -1
				for k := 0; k < 3 && streamLen > 0; k++ {
					n2 := sizeFn(res.Total)
					if n2 < 1 {
						n2 = 1
					}
					if n2 > len(buf) {
						n2 = len(buf)
					}
					m2, _ := c.Read(buf[:n2])
					if m2 == 0 {
						continue
					}
					res.AfterErr += m2
					found := false
					for p := res.Total; p+int64(m2) <= streamLen && !found; p++ {
						ok := true
						for i := 0; i < m2; i++ {
							if buf[i] != prf(stream, p+int64(i)) {
								ok = false
								break
							}
						}
						found = ok
						if ok {
							res.AfterErrAt = p
						}
					}
					if !found {
						res.AfterErrAlien = true
					}
					break
				}
			}
			return
		}
		if m == 0 {
			zero++
			if zero > 1000 {
				res.NoProg = true
				return
			}
		} else {
			zero = 0
		}
	}
}

func sizeFnFor(mode string, frames []int, rng interface{ IntN(int) int }) func(int64) int {
	if len(mode) > 3 && mode[:3] == "fix" {
		var n int
		fmt.Sscanf(mode[3:], "%d", &n)
		return func(int64) int { return n }
	}
	if mode == "random" {
		return func(int64) int {
			switch rng.IntN(4) {
			case 0:
				return 1 + rng.IntN(32)
			case 1:
				return 65500 + rng.IntN(80)
			default:
				return 1 + rng.IntN(140000)
			}
		}
	}
	var d int
	fmt.Sscanf(mode[3:], "%d", &d)
	// rel: remaining plaintext of the frame the next byte belongs to, plus d
	return func(delivered int64) int {
		var acc int64
		for _, f := range frames {
			if delivered < acc+int64(f) {
				return int(acc+int64(f)-delivered) + d
			}
			acc += int64(f)
		}
		return 64
	}
}

type state struct {
	r    *run.R
	t    *testing.T
	pool sectest.Pool
	psk  ipnet.PSK
}

func TestC02(t *testing.T) {
	r := run.New(t, "C02", "exploration")
	defer r.Finish()
	r.Rule("grid cases = (stack, payload length, write split, read-buffer mode, raw short-read mode); mux cases = (stack, streams, per-stream lengths/chunking, half-close order); tamper cases = (stack, frame, edit). Every received byte is compared with prf(stream, absolute position). Non-trivial: a transfer of >= 1 byte that completed with clean EOF (grid/mux) or an edit that was really applied to a data frame (tamper); distinct by case id")
	r.Assume("XSalsa20 private-network wrapping has no integrity: only the fidelity clause is checked for it (as the statement says)",
		"the loopback sweep over real transports (QUIC/WebTransport/WebRTC/WebSocket) and the BasicHost lazy-multistream wrapper are exercised in C07's rig and the thorough tier, not in this grid",
		"flynn/noise, crypto/tls, yamux internals are trusted beyond what the workloads drive")
	psk := make([]byte, 32)
	rand.Read(psk)
	s := &state{r: r, t: t, pool: sectest.NewPool(2), psk: psk}
	s.grid()
	s.closeAfterWrite()
	s.closedSessionInterference()
	s.writeAfterFailedFirstWrite()
	s.mux()
	s.tamper()
	s.system()  // system_test.go: real loopback sockets, outside any bubble
	s.sampled() // system_test.go: tcpreuse + sampledconn driven by a raw TCP client
	r.Count("psk_conns_whose_key_buffer_was_wiped_after_construction", int(pskKeysWiped.Load()))
	r.Require("psk_conns_whose_key_buffer_was_wiped_after_construction", 50)
	r.Require("grid_transfers_completed", 300)
	r.Require("noise_reads_in_place", 100)
	r.Require("noise_reads_pooled", 100)
	r.Require("noise_reads_queued_remainder", 100)
	r.Require("mux_streams_completed", 50)
	r.Require("mux_half_close_then_read", 20)
	r.Require("tamper_edits_applied", 200)
	r.Require("tamper_reader_got_error", 200)
}

func (s *state) keyPair(i int) (*sectest.Key, *sectest.Key) {
	ts := sectest.KeyTypes
	return s.pool[ts[i%4]][0], s.pool[ts[(i/4)%4]][1]
}

func (s *state) grid() {
	protos := []string{"noise", "tls", "psk", "psk+noise", "psk+tls"}
	shortModes := []int{0, 1, 2, 3, 7, 4095, 4097, -1}
	var cases []*xfer
	i := 0
	for _, proto := range protos {
		for _, L := range lengths {
			for _, sp := range splits {
				for _, rm := range readModes {
					i++
					rng := s.r.Rand(2, uint64(i))
					if s.r.Quick() {
						// Noise: the full (length, split, read mode) grid; the others 1 in 5
						if proto != "noise" && rng.IntN(5) != 0 {
							continue
						}
						cases = append(cases, &xfer{Proto: proto, L: L, Split: sp, ReadMode: rm, ShortRead: shortModes[rng.IntN(len(shortModes))]})
					} else {
						for _, sm := range []int{0, shortModes[1+rng.IntN(len(shortModes)-1)]} {
							cases = append(cases, &xfer{Proto: proto, L: L, Split: sp, ReadMode: rm, ShortRead: sm})
						}
					}
				}
			}
		}
	}
	s.r.Extra("grid_cases", len(cases))
	run.Parallel(len(cases), 0, func(i int) {
		x := cases[i]
		id := x.id()
		if !s.r.Want(id) || s.r.TooMany() {
			return
		}
		rng := s.r.Rand(3, uint64(i))
		x.Chunks = chunksFor(x.L, x.Split, rng)
		var frames []int
		if x.Proto == "noise" || x.Proto == "psk+noise" {
			frames = noiseFrames(x.Chunks)
		}
		ka, kb := s.keyPair(i)
		var fwd, back readResult
		var werr error
		var setupErr error
		br := run.Bubble(s.t, func(t *testing.T) {
			ctx, cancel := context.WithTimeout(context.Background(), time.Minute)
			defer cancel()
			st, err := establish(ctx, x.Proto, ka, kb, s.psk)
			if err != nil {
				setupErr = err
				return
			}
			switch {
			case x.ShortRead > 0:
				st.rawB.SetMaxRead(func(int) int { return x.ShortRead })
			case x.ShortRead < 0:
				rr := s.r.Rand(4, uint64(i))
				var mu sync.Mutex
				st.rawB.SetMaxRead(func(int) int { mu.Lock(); defer mu.Unlock(); return 1 + rr.IntN(5000) })
			}
			var wg sync.WaitGroup
			wg.Add(3)
			// spec'd transfer a -> b
			go func() {
				defer wg.Done()
				var off int64
				for _, c := range x.Chunks {
					b := make([]byte, c)
					fill(1, off, b)
					n, err := st.a.Write(b)
					if err != nil || n != c {
						werr = fmt.Errorf("write returned (%d, %v) for %d bytes", n, err, c)
						break
					}
					off += int64(c)
				}
				if x.L == 0 {
					st.a.Write(nil)
				}
			}()
			go func() {
				defer wg.Done()
				fwd = readAll(io.LimitReader(st.b, int64(x.L)), 1, sizeFnFor(x.ReadMode, frames, rng), frames)
			}()
			// duplex: b -> a, 3000 bytes in 3 writes
			go func() {
				defer wg.Done()
				for k := 0; k < 3; k++ {
					b := make([]byte, 1000)
					fill(2, int64(k*1000), b)
					st.b.Write(b)
				}
			}()
			back = readAll(io.LimitReader(st.a, 3000), 2, func(int64) int { return 777 }, nil)
			wg.Wait()
			// close the writer; the reader must see EOF and nothing more
			st.a.Close()
			tail := readAll(st.b, 1, func(int64) int { return 100 }, nil)
			if tail.Total != 0 {
				fwd.AfterEOF = int(tail.Total)
			}
			st.b.Close()
			st.rawA.Close()
			st.rawB.Close()
		})
		s.r.Eval(1)
		detail := map[string]any{"case": x, "chunks_head": head(x.Chunks, 12), "forward": fwd, "backward": back}
		if s.r.BubbleFailed(br, "grid/"+x.Proto, id, "transfer never completed: bytes were lost (all goroutines blocked)", map[string]any{"case": x}) {
			return
		}
		if setupErr != nil {
			s.r.Inconclusive(id, "setup: "+setupErr.Error())
			return
		}
		bad := func(sig, msg string) { s.r.Violation("grid:"+sig+"/"+x.Proto, id, msg, detail) }
		switch {
		case werr != nil:
			bad("write-failed", werr.Error())
		case fwd.Overrun || back.Overrun:
			bad("read-count-exceeds-buffer", "Read returned n > len(buf)")
		case fwd.BadAt >= 0:
			bad("corrupt-or-misplaced-byte", fmt.Sprintf("byte at position %d differs from what the writer sent there", fwd.BadAt))
		case back.BadAt >= 0 || back.Total != 3000:
			bad("duplex-direction-damaged", "the reverse direction lost or damaged bytes")
		case fwd.Total != int64(x.L):
			bad("short-delivery", fmt.Sprintf("reader got %d of %d bytes (err=%q)", fwd.Total, x.L, fwd.Err))
		case fwd.NoProg:
			bad("no-progress", "Read kept returning (0, nil)")
		case fwd.AfterEOF != 0:
			bad("data-after-end", "bytes delivered beyond what was written")
		default:
			s.r.Count("grid_transfers_completed", 1)
			s.r.Count("grid_bytes_verified", x.L)
			s.r.Count("noise_reads_in_place", fwd.PathInPlc)
			s.r.Count("noise_reads_pooled", fwd.PathPool)
			s.r.Count("noise_reads_queued_remainder", fwd.PathQueue)
			if x.L > 0 {
				s.r.Nontrivial(id)
			}
			if (x.L == 131038 && x.Split == "frame+1" && x.ReadMode == "rel-16" && x.Proto == "noise") || (x.L == 65536 && x.Split == "random" && x.ReadMode == "fix17" && x.Proto == "psk+tls") {
				s.r.Sample(detail)
			}
		}
	})
}

// closeAfterWrite: the writer writes everything and closes at once; the reader starts only then, over a
// raw conn that hands out the final bytes TOGETHER with io.EOF in one Read call (legal io.Reader
// behaviour that real sockets never show, wrappers and in-memory conns may): every byte must still
// arrive unmodified, followed by EOF.
func (s *state) closeAfterWrite() {
	type cw struct {
		Proto   string `json:"proto"`
		L       int    `json:"length"`
		Buf     int    `json:"read_buffer"`
		EOFData bool   `json:"raw_eof_delivered_with_last_bytes"`
		Short   int    `json:"raw_short_read"`
	}
	var cases []*cw
	for _, proto := range []string{"noise", "tls", "psk", "psk+noise", "psk+tls"} {
		for _, L := range []int{1, 999, 1000, 4096, 65519, 65520, 70000} {
			for _, buf := range []int{1, 777, 4096, 100000} {
				for _, short := range []int{0, 1000} {
					cases = append(cases, &cw{proto, L, buf, true, short}, &cw{proto, L, buf, false, short})
				}
			}
		}
	}
	run.Parallel(len(cases), 0, func(i int) {
		c := cases[i]
		id := fmt.Sprintf("close-after-write/%s/L%d/buf%d/eofdata=%v/sr%d", c.Proto, c.L, c.Buf, c.EOFData, c.Short)
		if !s.r.Want(id) || s.r.TooMany() {
			return
		}
		ka, kb := s.keyPair(i)
		var rr readResult
		var setupErr, werr error
		var fired int64
		br := run.Bubble(s.t, func(t *testing.T) {
			ctx, cancel := context.WithTimeout(context.Background(), time.Minute)
			defer cancel()
			st, err := establish(ctx, c.Proto, ka, kb, s.psk)
			if err != nil {
				setupErr = err
				return
			}
			st.rawB.SetEOFWithData(c.EOFData)
			if c.Short > 0 {
				st.rawB.SetMaxRead(func(int) int { return c.Short })
			}
			b := make([]byte, c.L)
			fill(9, 0, b)
			for off := 0; off < len(b) && werr == nil; off += 30000 {
				end := off + 30000
				if end > len(b) {
					end = len(b)
				}
				_, werr = st.a.Write(b[off:end])
			}
			st.a.Close()
			st.rawA.Close()
			synctest.Wait()
			st.b.SetReadDeadline(time.Now().Add(30 * time.Second))
			rr = readAll(st.b, 9, func(int64) int { return c.Buf }, nil)
			fired = st.rawB.EOFWithDataFired()
			st.b.Close()
			st.rawB.Close()
		})
		s.r.Eval(1)
		detail := map[string]any{"case": c, "reader": rr, "reads_that_returned_data_and_eof": fired}
		if s.r.BubbleFailed(br, "close-after-write", id, "reader hung", detail) {
			return
		}
		if setupErr != nil || werr != nil {
			s.r.Inconclusive(id, fmt.Sprint("setup: ", setupErr, werr))
			return
		}
		if fired > 0 {
			s.r.Count("raw_reads_returning_data_with_eof", int(fired))
			s.r.Nontrivial(id)
		}
		switch {
		case rr.BadAt >= 0:
			s.r.Violation("close-after-write:modified-byte/"+c.Proto, id, fmt.Sprintf("byte at position %d of %d differs from what was written", rr.BadAt, c.L), detail)
		case rr.Total != int64(c.L) || !rr.EOF:
			s.r.Violation("close-after-write:short-or-no-eof/"+c.Proto, id, fmt.Sprintf("reader got %d of %d bytes, clean EOF=%v, err=%q", rr.Total, c.L, rr.EOF, rr.Err), detail)
		case rr.AfterEOF > 0 || rr.Overrun || rr.NoProg:
			s.r.Violation("close-after-write:reader-contract/"+c.Proto, id, "bytes after EOF, overrun or no progress", detail)
		default:
			s.r.Count("close_after_write_completed", 1)
		}
	})
	s.r.Require("close_after_write_completed", 200)
	s.r.Require("raw_reads_returning_data_with_eof", 50)
}

// closedSessionInterference: "exactly once, in order, unmodified" must hold for a live session whatever
// happens to sessions that were closed before it was made - also when something still calls Read on a
// closed session (a muxer's read loop that had not been parked in Read when Close ran). K sessions are
// established and closed one after another on the same goroutine, then a live one is established; while
// its writer sends a positional stream, other goroutines keep reading from the closed sessions.
func (s *state) closedSessionInterference() {
	for _, proto := range []string{"noise", "tls", "psk+noise"} {
		for _, nClosed := range []int{1, 3} {
			for _, L := range []int{1, 5000, 70000, 200000} {
				id := fmt.Sprintf("closed-session-interference/%s/closed%d/L%d", proto, nClosed, L)
				if !s.r.Want(id) || s.r.TooMany() {
					continue
				}
				ka, kb := s.keyPair(L + nClosed)
				var rr readResult
				var setupErr error
				var deadReads int64
				br := run.Bubble(s.t, func(t *testing.T) {
					ctx, cancel := context.WithTimeout(context.Background(), time.Minute)
					defer cancel()
					var dead []*secured
					for k := 0; k < nClosed; k++ {
						st, err := establish(ctx, proto, ka, kb, s.psk)
						if err != nil {
							setupErr = err
							return
						}
						st.a.Close()
						st.b.Close()
						st.rawA.Close()
						st.rawB.Close()
						dead = append(dead, st)
					}
					live, err := establish(ctx, proto, ka, kb, s.psk)
					if err != nil {
						setupErr = err
						return
					}
					stop := make(chan struct{})
					var wg sync.WaitGroup
					var n atomic.Int64
					for _, d := range dead {
						for _, c := range []net.Conn{d.a, d.b} {
							wg.Add(1)
							go func(c net.Conn) {
								defer wg.Done()
								buf := make([]byte, 700)
								for {
									select {
									case <-stop:
										return
									default:
									}
									c.Read(buf)
									n.Add(1)
									time.Sleep(time.Millisecond)
								}
							}(c)
						}
					}
					wg.Add(1)
					go func() {
						defer wg.Done()
						b := make([]byte, L)
						fill(11, 0, b)
						for off := 0; off < len(b); off += 9000 {
							end := off + 9000
							if end > len(b) {
								end = len(b)
							}
							if _, err := live.a.Write(b[off:end]); err != nil {
								break
							}
							time.Sleep(2 * time.Millisecond)
						}
						live.a.Close()
					}()
					live.b.SetReadDeadline(time.Now().Add(30 * time.Second))
					rr = readAll(live.b, 11, func(int64) int { return 3000 }, nil)
					close(stop)
					wg.Wait()
					deadReads = n.Load()
					live.b.Close()
					live.rawA.Close()
					live.rawB.Close()
				})
				s.r.Eval(1)
				detail := map[string]any{"proto": proto, "sessions_closed_before": nClosed, "length": L, "reader": rr, "reads_on_closed_sessions": deadReads}
				if s.r.BubbleFailed(br, "closed-session-interference", id, "reader hung", detail) {
					continue
				}
				if setupErr != nil {
					s.r.Inconclusive(id, setupErr.Error())
					continue
				}
				s.r.Count("reads_on_closed_sessions_while_a_live_one_transfers", int(deadReads))
				switch {
				case rr.BadAt >= 0:
					s.r.Violation("closed-session-interference:modified-byte/"+proto, id, fmt.Sprintf("byte at position %d differs from what was written", rr.BadAt), detail)
				case rr.Total != int64(L) || !rr.EOF:
					s.r.Violation("closed-session-interference:short-or-no-eof/"+proto, id, fmt.Sprintf("the live session's reader got %d of %d bytes, clean EOF=%v, err=%q, while closed sessions were being read", rr.Total, L, rr.EOF, rr.Err), detail)
				default:
					s.r.Count("closed_session_interference_transfers_completed", 1)
					s.r.Nontrivial(id)
				}
			}
		}
	}
	s.r.Require("closed_session_interference_transfers_completed", 12)
	s.r.Require("reads_on_closed_sessions_while_a_live_one_transfers", 50)
}

// writeAfterFailedFirstWrite: a timed-out Write is a recoverable error for a net.Conn - the caller clears
// the deadline and writes again. On a private-network (PSK) connection the very first Write also has to
// deliver the stream's nonce: after a first Write that failed with nothing sent, what is written next
// must still reach the reader unmodified and complete.
func (s *state) writeAfterFailedFirstWrite() {
	for _, side := range []string{"a", "b"} {
		for _, L := range []int{1, 24, 25, 1000, 70000} {
			for _, fails := range []int{1, 3} {
				id := fmt.Sprintf("write-after-failed-first-write/psk/%s/L%d/failed%d", side, L, fails)
				if !s.r.Want(id) || s.r.TooMany() {
					continue
				}
				ka, kb := s.keyPair(L)
				var rr readResult
				var setupErr error
				var failed int
				var werr error
				br := run.Bubble(s.t, func(t *testing.T) {
					ctx, cancel := context.WithTimeout(context.Background(), time.Minute)
					defer cancel()
					st, err := establish(ctx, "psk", ka, kb, s.psk)
					if err != nil {
						setupErr = err
						return
					}
					w, rd := st.a, st.b
					if side == "b" {
						w, rd = st.b, st.a
					}
					b := make([]byte, L)
					fill(13, 0, b)
					for k := 0; k < fails; k++ {
						w.SetWriteDeadline(time.Now().Add(-time.Second))
						if n, err := w.Write(b); err != nil && n == 0 {
							failed++
						}
					}
					w.SetWriteDeadline(time.Time{})
					if failed == fails { // otherwise part of the stream is on the wire already: not this case
						go func() {
							_, werr = w.Write(b)
							w.Close()
						}()
						rd.SetReadDeadline(time.Now().Add(30 * time.Second))
						rr = readAll(rd, 13, func(int64) int { return 4096 }, nil)
					}
					st.a.Close()
					st.b.Close()
					st.rawA.Close()
					st.rawB.Close()
				})
				s.r.Eval(1)
				detail := map[string]any{"length": L, "writer": side, "first_writes_failed_with_nothing_sent": failed, "write_error_afterwards": fmt.Sprint(werr), "reader": rr}
				if s.r.BubbleFailed(br, "write-after-failed-first-write", id, "reader hung", detail) {
					continue
				}
				if setupErr != nil {
					s.r.Inconclusive(id, setupErr.Error())
					continue
				}
				if failed != fails {
					s.r.Count("first_write_with_expired_deadline_did_not_fail_cleanly", 1)
					continue
				}
				s.r.Count("writes_after_a_failed_first_write", 1)
				s.r.Nontrivial(id)
				switch {
				case werr != nil:
					s.r.Count("write_after_failed_first_write_refused", 1) // a conn that refuses further use is fail-stop, not a fidelity violation
				case rr.BadAt >= 0:
					s.r.Violation("write-after-failed-first-write:modified-byte/psk", id, fmt.Sprintf("after %d timed-out first writes (nothing sent) the next Write succeeded, but the reader's byte at position %d differs from what was written", fails, rr.BadAt), detail)
				case rr.Total != int64(L) || !rr.EOF:
					s.r.Violation("write-after-failed-first-write:short-or-no-eof/psk", id, fmt.Sprintf("after %d timed-out first writes the next Write of %d bytes succeeded, the reader got %d bytes, clean EOF=%v, err=%q", fails, L, rr.Total, rr.EOF, rr.Err), detail)
				}
			}
		}
	}
	s.r.Require("writes_after_a_failed_first_write", 10)
}

func head(a []int, n int) []int {
	if len(a) > n {
		return a[:n]
	}
	return a
}

// mux: yamux streams through the real upgrader (multistream + security + muxer negotiation), several
// streams in both directions with random chunking, CloseWrite followed by further reads.
func (s *state) mux() {
	n := s.r.Pick(120, 1500)
	stacks := []string{"noise", "tls", "psk+noise", "psk+tls"}
	run.Parallel(n, 0, func(i int) {
		id := fmt.Sprintf("mux/%d", i)
		if !s.r.Want(id) || s.r.TooMany() {
			return
		}
		rng := s.r.Rand(5, uint64(i))
		stack := stacks[i%len(stacks)]
		nStreams := 1 + rng.IntN(8)
		if i%10 == 0 {
			nStreams = 16 + rng.IntN(17)
		}
		type spec struct {
			Up, Down   int  // bytes dialer->listener, listener->dialer
			CloseFirst bool // the opener half-closes before reading the reply
		}
		specs := make([]spec, nStreams)
		for k := range specs {
			pick := func() int {
				switch rng.IntN(5) {
				case 0:
					return 0
				case 1:
					return 1 + rng.IntN(100)
				case 2:
					return 262144 + rng.IntN(3) - 1 // around yamux's initial window
				default:
					return rng.IntN(200000)
				}
			}
			specs[k] = spec{pick(), pick(), rng.IntN(2) == 0}
		}
		ka, kb := s.keyPair(i)
		var psk ipnet.PSK
		secProto := stack
		if len(stack) > 4 && stack[:4] == "psk+" {
			psk, secProto = s.psk, stack[4:]
		}
		type res struct{ up, down readResult }
		results := make([]res, nStreams)
		var setupErr error
		br := run.Bubble(s.t, func(t *testing.T) {
			ctx, cancel := context.WithTimeout(context.Background(), time.Minute)
			defer cancel()
			ua, err := upgrader.New([]sec.SecureTransport{sectest.NewSec(secProto, ka)}, sectest.Muxers, psk, &network.NullResourceManager{}, nil)
			if err != nil {
				panic(err)
			}
			ub, err := upgrader.New([]sec.SecureTransport{sectest.NewSec(secProto, kb)}, sectest.Muxers, psk, &network.NullResourceManager{}, nil)
			if err != nil {
				panic(err)
			}
			ra, rb := memnet.Pipe(addrA, addrB, 0)
			if i%3 == 1 {
				rr := s.r.Rand(6, uint64(i))
				var mu sync.Mutex
				f := func(int) int { mu.Lock(); defer mu.Unlock(); return 1 + rr.IntN(3000) }
				ra.SetMaxRead(f)
				rb.SetMaxRead(f)
			}
			var ca, cb network.MuxedConn
			var ea, eb error
			var wg sync.WaitGroup
			wg.Add(2)
			go func() {
				defer wg.Done()
				c, e := ua.Upgrade(ctx, nil, ra, network.DirOutbound, kb.ID, &network.NullScope{})
				if e == nil {
					ca = c
				}
				ea = e
			}()
			go func() {
				defer wg.Done()
				c, e := ub.Upgrade(ctx, nil, rb, network.DirInbound, "", &network.NullScope{})
				if e == nil {
					cb = c
				}
				eb = e
			}()
			wg.Wait()
			if ea != nil || eb != nil {
				setupErr = fmt.Errorf("upgrade: %v / %v", ea, eb)
				ra.Close()
				rb.Close()
				return
			}
			// listener side: accept streams; first 2 bytes of each stream carry its index
			var lwg sync.WaitGroup
			lwg.Add(nStreams)
			go func() {
				for k := 0; k < nStreams; k++ {
					st, err := cb.AcceptStream()
					if err != nil {
						for ; k < nStreams; k++ {
							lwg.Done()
						}
						return
					}
					go func() {
						defer lwg.Done()
						hdr := make([]byte, 2)
						if _, err := io.ReadFull(st, hdr); err != nil {
							return
						}
						idx := int(hdr[0])<<8 | int(hdr[1])
						if idx >= nStreams {
							return
						}
						sp := specs[idx]
						var w sync.WaitGroup
						w.Add(1)
						go func() {
							defer w.Done()
							writeChunks(st, uint64(1000+idx), sp.Down, s.r.Rand(7, uint64(i), uint64(idx)))
							st.CloseWrite()
						}()
						results[idx].up = readAll(st, uint64(idx), randSizes(s.r.Rand(8, uint64(i), uint64(idx))), nil)
						w.Wait()
						st.Close()
					}()
				}
			}()
			var dwg sync.WaitGroup
			dwg.Add(nStreams)
			for k := 0; k < nStreams; k++ {
				go func() {
					defer dwg.Done()
					st, err := ca.OpenStream(ctx)
					if err != nil {
						return
					}
					sp := specs[k]
					st.Write([]byte{byte(k >> 8), byte(k)})
					if sp.CloseFirst {
						writeChunks(st, uint64(k), sp.Up, s.r.Rand(9, uint64(i), uint64(k)))
						st.CloseWrite()
						results[k].down = readAll(st, uint64(1000+k), randSizes(s.r.Rand(10, uint64(i), uint64(k))), nil)
					} else {
						var w sync.WaitGroup
						w.Add(1)
						go func() {
							defer w.Done()
							writeChunks(st, uint64(k), sp.Up, s.r.Rand(9, uint64(i), uint64(k)))
							st.CloseWrite()
						}()
						results[k].down = readAll(st, uint64(1000+k), randSizes(s.r.Rand(10, uint64(i), uint64(k))), nil)
						w.Wait()
					}
					st.Close()
				}()
			}
			dwg.Wait()
			lwg.Wait()
			ca.Close()
			cb.Close()
			ra.Close()
			rb.Close()
		})
		s.r.Eval(1)
		if s.r.BubbleFailed(br, "mux/"+stack, id, "stream transfer never completed (all goroutines blocked): bytes or a half-close were lost", map[string]any{"stack": stack, "specs": specs}) {
			return
		}
		if setupErr != nil {
			s.r.Inconclusive(id, setupErr.Error())
			return
		}
		okAll := true
		for k, sp := range specs {
			for _, d := range []struct {
				name string
				rr   readResult
				want int
			}{{"up", results[k].up, sp.Up}, {"down", results[k].down, sp.Down}} {
				detail := map[string]any{"stack": stack, "stream": k, "direction": d.name, "spec": sp, "result": d.rr, "streams": nStreams}
				switch {
				case d.rr.BadAt >= 0:
					s.r.Violation("mux:corrupt-or-misplaced-byte/"+stack, id, fmt.Sprintf("stream %d %s: byte %d differs", k, d.name, d.rr.BadAt), detail)
					okAll = false
				case d.rr.Total != int64(d.want) || !d.rr.EOF:
					s.r.Violation("mux:short-or-unterminated-delivery/"+stack, id, fmt.Sprintf("stream %d %s: got %d of %d bytes, eof=%v err=%q", k, d.name, d.rr.Total, d.want, d.rr.EOF, d.rr.Err), detail)
					okAll = false
				case d.rr.AfterEOF != 0 || d.rr.Overrun:
					s.r.Violation("mux:data-after-eof/"+stack, id, "bytes after EOF or n > len(buf)", detail)
					okAll = false
				}
			}
			if okAll {
				s.r.Count("mux_streams_completed", 1)
				s.r.Count("mux_bytes_verified", sp.Up+sp.Down)
				if sp.CloseFirst && sp.Down > 0 {
					s.r.Count("mux_half_close_then_read", 1)
				}
			}
		}
		if okAll {
			s.r.Nontrivial(id)
			if i == 3 {
				s.r.Sample(map[string]any{"kind": "mux", "stack": stack, "streams": nStreams, "specs": specs})
			}
		}
	})
}

func writeChunks(w io.Writer, stream uint64, total int, rng interface{ IntN(int) int }) {
	var off int64
	for rem := total; rem > 0; {
		c := 1 + rng.IntN(70000)
		if rng.IntN(3) == 0 {
			c = 1 + rng.IntN(50)
		}
		c = min(c, rem)
		b := make([]byte, c)
		fill(stream, off, b)
		if _, err := w.Write(b); err != nil {
			return
		}
		off += int64(c)
		rem -= c
	}
}

func randSizes(rng interface{ IntN(int) int }) func(int64) int {
	return func(int64) int {
		if rng.IntN(3) == 0 {
			return 1 + rng.IntN(20)
		}
		return 1 + rng.IntN(100000)
	}
}

// tamper: after the handshake a man in the middle edits one ciphertext frame of an authenticated
// channel. Statement: "the reader gets an error and never receives plaintext the writer did not send
// at that position".
func (s *state) tamper() {
	chunks := []int{100, 3000, 70000, 10, 500}
	total := 0
	for _, c := range chunks {
		total += c
	}
	for _, proto := range []string{"noise", "tls"} {
		// dry run: learn the data frames
		type dryRes struct {
			frames   []sectest.Frame
			hsFrames int
		}
		runOne := func(id string, e *sectest.Edit, rbuf int) (rr readResult, applied bool, hs int, frames []sectest.Frame, br run.BubbleResult, setupErr error) {
			ka, kb := s.pool["ed25519"][0], s.pool["ecdsa"][1]
			br = run.Bubble(s.t, func(t *testing.T) {
				ctx, cancel := context.WithTimeout(context.Background(), time.Minute)
				defer cancel()
				ia, mi := memnet.Pipe(addrA, addrM, 0)
				mr, rb := memnet.Pipe(addrM, addrB, 0)
				m := sectest.NewMITM(proto, mi, mr, e)
				m.Start()
				var ca, cb sec.SecureConn
				var ea, eb error
				var wg sync.WaitGroup
				wg.Add(2)
				go func() { defer wg.Done(); ca, ea = sectest.NewSec(proto, ka).SecureOutbound(ctx, ia, kb.ID) }()
				go func() { defer wg.Done(); cb, eb = sectest.NewSec(proto, kb).SecureInbound(ctx, rb, "") }()
				wg.Wait()
				if ea != nil || eb != nil {
					setupErr = fmt.Errorf("handshake: %v / %v", ea, eb)
					ia.Close()
					rb.Close()
					m.Wait()
					return
				}
				hsBytes := ia.BytesWritten()
				wg.Add(1)
				go func() {
					defer wg.Done()
					var off int64
					for _, c := range chunks {
						b := make([]byte, c)
						fill(7, off, b)
						if _, err := ca.Write(b); err != nil {
							break
						}
						off += int64(c)
					}
					ca.Close()
				}()
				cb.SetReadDeadline(time.Now().Add(30 * time.Second))
				rr = readAllN(cb, 7, func(int64) int { return rbuf }, nil, int64(total))
				wg.Wait()
				cb.Close()
				ia.Close()
				rb.Close()
				m.Wait()
				applied = m.Applied()
				frames = m.Frames(0)
				for _, f := range frames {
					if f.Start < hsBytes {
						hs++
					}
				}
			})
			return
		}
		_, _, hs, frames, br, err := runOne("dry", nil, 5000)
		s.r.Eval(1)
		if !br.OK() || err != nil || len(frames) <= hs {
			s.r.Inconclusive("tamper/"+proto+"/dry", fmt.Sprint("dry run failed: ", err, br.Deadlock, br.Panic))
			continue
		}
		var edits []*sectest.Edit
		stride := s.r.Pick(16, 1)
		pos := int(s.r.Seed)
		lastData := len(frames) - 1
		if proto == "tls" {
			lastData = len(frames) - 2 // the final record is the close_notify alert, not data
		}
		for j := hs; j <= lastData; j++ {
			for off := 0; off < frames[j].Len; off++ {
				pos++
				// long frames: sample in quick, still every position of header and MAC
				if pos%stride != 0 && !(off < 8 || off >= frames[j].Len-20) {
					continue
				}
				if frames[j].Len > 20000 && !(off < 8 || off >= frames[j].Len-20) && pos%(stride*s.r.Pick(64, 16)) != 0 {
					continue
				}
				edits = append(edits, &sectest.Edit{Dir: 0, Msg: j, Kind: "flip", Off: off, Bit: uint(pos % 8)})
			}
			edits = append(edits, &sectest.Edit{Dir: 0, Msg: j, Kind: "drop"}, &sectest.Edit{Dir: 0, Msg: j, Kind: "dup"},
				&sectest.Edit{Dir: 0, Msg: j, Kind: "swapnext"}, &sectest.Edit{Dir: 0, Msg: j, Kind: "trunc", N: 1}, &sectest.Edit{Dir: 0, Msg: j, Kind: "truncfix", N: 1},
				&sectest.Edit{Dir: 0, Msg: j, Kind: "truncfix", N: 16}, &sectest.Edit{Dir: 0, Msg: j, Kind: "extfix", N: 1})
		}
		run.Parallel(len(edits), 0, func(i int) {
			e := edits[i]
			id := fmt.Sprintf("tamper/%s/%s", proto, e)
			if !s.r.Want(id) || s.r.TooMany() {
				return
			}
			// reader buffer: smaller than most frames (pooled + queued remainder), a muxer-header-sized one,
			// and one larger than every frame (in-place decryption)
			rbuf := []int{5000, 12, 5000, 70000}[i%4]
			rr, applied, _, _, br, err := runOne(id, e, rbuf)
			s.r.Eval(1)
			detail := map[string]any{"proto": proto, "edit": e, "reader_buffer": rbuf, "reader": rr, "data_frames": frames[hs:]}
			if s.r.BubbleFailed(br, "tamper/"+proto, id, "reader hung after tampering", map[string]any{"edit": e}) {
				return
			}
			if err != nil {
				s.r.Inconclusive(id, err.Error())
				return
			}
			if !applied {
				s.r.Count("tamper_edits_not_applied", 1)
				return
			}
			s.r.Count("tamper_edits_applied", 1)
			s.r.Count("tamper_"+proto+"_"+e.Kind, 1)
			s.r.Nontrivial(id)
			if rr.BadAt >= 0 {
				s.r.Violation("tamper:plaintext-not-sent-at-that-position/"+proto+"/"+e.Kind, id, fmt.Sprintf("reader received a byte at position %d that the writer did not send there", rr.BadAt), detail)
				return
			}
			if rr.AfterErrAlien {
				s.r.Violation("tamper:bytes-never-sent-delivered-after-the-error/"+proto+"/"+e.Kind, id, fmt.Sprintf("after the read error at position %d the next Read returned %d bytes that occur nowhere in the rest of the writer's stream", rr.Total, rr.AfterErr), detail)
				return
			}
			if rr.Err != "" {
				s.r.Count("tamper_reads_continued_after_error", 1)
				if rr.AfterErr > 0 {
					s.r.Count("tamper_genuine_later_bytes_after_error", 1)
				}
			}
			// dropping the final frame(s) and then closing is indistinguishable from an early close for
			// Noise (no authenticated termination): only the prefix rule applies there.
			undetectable := proto == "noise" && e.Kind == "drop" && e.Msg >= lastData
			if proto == "noise" && e.Kind == "swapnext" && e.Msg >= lastData {
				undetectable = true // nothing follows to swap with
			}
			if rr.Total == int64(total) && rr.EOF && !undetectable {
				s.r.Violation("tamper:edit-not-detected/"+proto+"/"+e.Kind, id, "reader received the complete stream and a clean EOF although a ciphertext frame was edited", detail)
				return
			}
			if rr.Err != "" {
				s.r.Count("tamper_reader_got_error", 1)
			} else if rr.EOF && !undetectable {
				s.r.Violation("tamper:clean-eof-after-edit/"+proto+"/"+e.Kind, id, fmt.Sprintf("reader saw a clean EOF after %d of %d bytes instead of an error", rr.Total, total), detail)
			}
			if i == len(edits)/3 {
				s.r.Sample(detail)
			}
		})
	}
}
