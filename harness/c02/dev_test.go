package c02

import (
	"crypto/rand"
	"testing"

	"verif/harness/rig/run"
	"verif/harness/rig/sectest"
)

func TestDevSys(t *testing.T) {
	r := run.New(t, "C02", "exploration")
	defer r.Finish()
	psk := make([]byte, 32)
	rand.Read(psk)
	s := &state{r: r, t: t, pool: sectest.NewPool(2), psk: psk}
	s.system()
	s.sampled()
}
